#!/usr/bin/env python3
"""usage: mark_fixed.py <property> <commit> <regexp over the known: line> "<what failed>"
Removes matching known: lines of that property from KNOWN_FINDINGS.txt and appends a fixed: line."""
import re, sys
prop, commit, rx, what = sys.argv[1:5]
p = '/verif/KNOWN_FINDINGS.txt'
lines = open(p).read().split('\n')
out, n = [], 0
for l in lines:
    if l.startswith('known:') and ('property=%s ' % prop) in l and re.search(rx, l):
        n += 1
        continue
    out.append(l)
while out and out[-1] == '':
    out.pop()
out.append('fixed: property=%s commit=%s :: %s' % (prop, commit, what))
open(p, 'w').write('\n'.join(out) + '\n')
print('removed', n, 'known lines; added fixed line')
