#!/usr/bin/env python3
"""usage: addcheck.py < entry.json   — add/replace a checks[] entry in MANIFEST.json (keeps not_applicable current)."""
import json, sys
e = json.load(sys.stdin)
m = json.load(open('/verif/MANIFEST.json'))
i = e['property_id']
e.setdefault("quick_cmd", "./check %s --tier quick" % i)
e.setdefault("thorough_cmd", "./check %s --tier thorough" % i)
e.setdefault("evidence_file", "/verif/evidence/%s.json" % i)
e.setdefault("replay_cmd_template", "./check %s --replay {path}" % i)
e.setdefault("engine", "check")
m['checks'] = [c for c in m['checks'] if c['property_id'] != i] + [e]
m['checks'].sort(key=lambda c: c['property_id'])
m['not_applicable'] = [x for x in m['not_applicable'] if x['property_id'] != i]
if i not in m['engines'][0]['serves_properties']:
    m['engines'][0]['serves_properties'].append(i)
    m['engines'][0]['serves_properties'].sort()
json.dump(m, open('/verif/MANIFEST.json', 'w'), indent=1)
print("added", i)
