#!/bin/bash
# usage: r3copy.sh Cxx : copy round-3 seeds from the seeder's worktree into /verif/seeded (no confirmation), remove the worktree
P=$1; W=/tmp/seed3-$P
last=$(ls -d /verif/seeded/$P-* 2>/dev/null | sed 's/.*-//' | sort -n | tail -1); last=${last:-0}
for k in 1 2 3; do
  [ -f $W/seeded/$k/patch.diff ] || continue
  last=$((last+1)); D=/verif/seeded/$P-$last
  cp -r $W/seeded/$k $D
  python3 - <<PY
import json
f='$D/meta.json'
try: m=json.load(open(f))
except Exception as e: m={"property":"$P","what":"(meta.json unreadable: %s)"%e,"demo_cmd":""}
m['round']=3; m['seeder_slot']=$k
m['demo_cmd']=m.get('demo_cmd','').replace('seeded/$k/','seeded/$P-$last/')
json.dump(m,open(f,'w'),indent=1)
PY
  echo "copied $D"
done
git -C /repo worktree remove --force $W 2>/dev/null; rm -rf $W
