#!/usr/bin/env python3
"""Fill meta.json 'confirmed' of round-3 seeds from the logs in the seed directory (confirm.log, suite.log, test11.log, after*.log)."""
import json, glob, os, re, subprocess
ALWAYS = {"TestDownloadMagnet", "TestDownloadTorrent", "TestDownloadWebseed", "TestTorrentDir", "TestTorrentFiles"}
head = subprocess.run(["git", "-C", "/repo", "rev-parse", "--short", "HEAD"], capture_output=True, text=True).stdout.strip()
def rd(p):
    try: return open(p, errors="replace").read()
    except OSError: return ""
def verdict(log, prop):
    if not log: return None
    tags = sorted(set(re.findall(r"obligation=(\S+)", log)))
    if re.search(r"-> violation", log) or "violation: obligation=" in log: return "caught: " + ", ".join(tags[:6])
    if "MACHINERY" in log or "machinery_error" in log: return "machinery error (not a detection)"
    if re.search(r"-> ok", log): return "missed (exit 0)"
    if "no verdict" in log: return log.splitlines()[0][:300]
    return "no result"
for d in sorted(glob.glob("/verif/seeded/C*-*")):
    try: m = json.load(open(d + "/meta.json"))
    except Exception: continue
    if m.get("round") != 3: continue
    p = m.get("property") or os.path.basename(d).split("-")[0]
    c = m.get("confirmed") if isinstance(m.get("confirmed"), dict) else {}
    conf, suite = rd(d + "/confirm.log"), rd(d + "/suite.log")
    if conf:
        wo = re.search(r"WITHOUT patch:\s*(.*)", conf); wi = re.search(r"WITH patch:\s*(.*)", conf)
        ok = bool(wo and wo.group(1).startswith("ok") or (wo and "ok" in wo.group(1) and "FAIL" not in wo.group(1))) and bool(wi and "FAIL" in wi.group(1))
        c["demo"] = ("fails with the patch, passes without it" if ok else "UNCLEAR: without=[%s] with=[%s]" % (wo and wo.group(1)[:80], wi and wi.group(1)[:80])) + " (lib/seedconfirm.sh on a fresh worktree of HEAD %s, run by my intake job or by the strengthening pass of the property)" % head
    if os.path.exists(d + "/suite.log"):
        failing = set(re.findall(r"--- FAIL: (\w+)", suite))
        extra = failing - ALWAYS
        c["suite"] = "go1.26 test -vet=off -count=1 ./... with the patch (run by me, lib/r3suite.sh): " + ("only the 5 always-failing torrent tests fail" if not extra else "always-failing tests plus %s (TestTTL/TestHTTPTracker are load/port flakes on the pinned commit too)" % sorted(extra))
    else:
        c.setdefault("suite", "reported by the seeder (same failing set as clean HEAD); not re-run by me for lack of time")
    a = verdict(rd(d + "/test11.log"), p)
    if a: c["at_arrival"] = "./check %s --seed 11 on HEAD+patch: %s" % (p, a)
    after = [verdict(rd(f), p) for f in sorted(glob.glob(d + "/after*.log"))]
    after = [x for x in after if x]
    if after:
        c["after_strengthening"] = after
    caught = [x for x in ([a] + after) if x and x.startswith("caught")]
    c["detected_by"] = ("%s (%s)" % (p, caught[-1][8:])) if caught else "NOT detected by the %s check" % p
    rep = rd(d + "/after_report.log")
    if rep:
        c["strengthening_report"] = rep.splitlines()[0][:400]
        if caught: c["detected_by"] += " — " + rep.splitlines()[0][len("strengthening pass (sub-agent's own run, as reported to me; not re-run by me): "):][:200]
        else: c["detected_by"] = "NOT detected by the registered %s command — %s" % (p, rep.splitlines()[0][len("strengthening pass (sub-agent's own run, as reported to me; not re-run by me): "):][:220])
    m["confirmed"] = c
    json.dump(m, open(d + "/meta.json", "w"), indent=1)
    print(os.path.basename(d), "|", c.get("at_arrival", "-")[-60:], "|", c["detected_by"][:80])
