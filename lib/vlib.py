"""Common machinery for the rain verification checks (see DESIGN.md section 2).

Engines:
  build_go()      E-drv : build a harness main package from /repo's *current* tree via -overlay
  tlc_mc()        E-tlc-mc : exhaustive TLC run on a scratch copy of spec/
  tlc_gen()       E-gen : TLC as scenario generator (prints JSON lines through PrintT)
  tlc_validate()  E-val : TLC as judge of ndjson traces recorded from the real code
Verdict discipline:
  exit 0 = property held on everything explored (KNOWN-FINDING lines allowed)
  exit 1 = VIOLATION line printed (real-code behaviour contradicts an obligation)
  exit 2 = the machinery itself failed (never a verdict)
"""
import atexit, hashlib, json, os, re, shutil, signal, subprocess, sys, tempfile, time

VERIF = os.path.dirname(os.path.dirname(os.path.abspath(__file__)))
REPO = os.environ.get("VERIF_REPO", "/repo")
GO = os.environ.get("VERIF_GO", "go1.26")
NCPU = os.cpu_count() or 4

GOENV = dict(os.environ)
GOENV.update({"GOFLAGS": "-mod=mod", "GOPROXY": "off", "GOSUMDB": "off", "GOTOOLCHAIN": "local",
              "CGO_ENABLED": os.environ.get("CGO_ENABLED", "1")})


class MachineryError(Exception):
    pass


def log(*a):
    print("[verif]", *a, file=sys.stderr, flush=True)


class Ctx:
    def __init__(self, prop, tier, seed):
        self.prop = prop
        self.tier = tier
        self.seed = seed
        self.t0 = time.time()
        self.scratch = tempfile.mkdtemp(prefix="verif.%s." % prop, dir="/var/tmp")
        atexit.register(self._cleanup)
        self.keep_scratch = bool(os.environ.get("VERIF_KEEP"))
        self.cov = {"states": 0, "transitions": 0, "traces_validated_against_impl": 0,
                    "evaluations": 0, "distinct_nontrivial": 0, "rule": "", "samples": []}
        self.extra = {}
        self.assumptions = []
        self.violations = []      # unlisted violations
        self.known_hits = []
        self.level = "model_checking"
        self._distinct = set()
        self._tlc_n = 0
        self.known = load_known()
        self.mc_runs = []
        self.obligation_counts = {}

    # ------------------------------------------------------------------ housekeeping
    def _cleanup(self):
        if self.keep_scratch:
            log("scratch kept:", self.scratch)
            return
        shutil.rmtree(self.scratch, ignore_errors=True)

    def path(self, *p):
        d = os.path.join(self.scratch, *p)
        os.makedirs(os.path.dirname(d), exist_ok=True)
        return d

    def quick(self):
        return self.tier == "quick"

    def pick(self, quick, thorough):
        return quick if self.tier == "quick" else thorough

    # ------------------------------------------------------------------ Go build (E-drv)
    def overlay(self):
        """Map /verif/harness/<pkg>/** into /repo/internal/verif/<pkg>/** and
        /verif/harness/shim/<rel>/zz_verif_*.go into /repo/<rel>/ (nothing is written into /repo)."""
        repl = {}
        hroot = os.path.join(VERIF, "harness")
        for root, dirs, files in os.walk(hroot):
            rel = os.path.relpath(root, hroot)
            if rel == ".":
                continue
            parts = rel.split(os.sep)
            for f in files:
                if not f.endswith(".go"):
                    continue
                src = os.path.join(root, f)
                if parts[0] == "shim":
                    dst = os.path.join(REPO, *parts[1:], f)
                else:
                    dst = os.path.join(REPO, "internal", "verif", rel, f)
                repl[dst] = src
        p = self.path("overlay.json")
        with open(p, "w") as fh:
            json.dump({"Replace": repl}, fh)
        return p

    def build_go(self, pkg, race=False, tags="verif verifshim"):
        """Build /repo/internal/verif/<pkg> (sources live in /verif/harness/<pkg>) from /repo's working tree."""
        out = self.path("bin", pkg + ("-race" if race else ""))
        cmd = [GO, "build", "-tags", tags, "-overlay", self.overlay(), "-o", out]
        if race:
            cmd.append("-race")
        cmd.append("./internal/verif/" + pkg)
        t = time.time()
        r = subprocess.run(cmd, cwd=REPO, env=GOENV, capture_output=True, text=True)
        if r.returncode != 0:
            raise MachineryError("go build %s failed:\n%s" % (pkg, (r.stdout + r.stderr)[-6000:]))
        log("built %s in %.1fs" % (pkg, time.time() - t))
        return out

    def run_drv(self, binpath, args, timeout=600, env=None, check=True, stdin=None):
        e = dict(GOENV)
        e["VERIF_SEED"] = str(self.seed)
        e["VERIF_TIER"] = self.tier
        if env:
            e.update(env)
        try:
            r = subprocess.run([binpath] + list(args), cwd=self.scratch, env=e, capture_output=True,
                               text=True, timeout=timeout, input=stdin)
        except subprocess.TimeoutExpired as ex:
            raise MachineryError("driver %s %s timed out after %ss" % (binpath, args, timeout))
        if check and r.returncode != 0:
            raise MachineryError("driver %s %s exit %d:\n%s" % (os.path.basename(binpath), args, r.returncode,
                                                               (r.stdout[-3000:] + r.stderr[-6000:])))
        return r

    # ------------------------------------------------------------------ TLC
    def _spec_copy(self):
        self._tlc_n += 1
        d = self.path("tlc%d" % self._tlc_n, "x")
        d = os.path.dirname(d)
        for f in os.listdir(os.path.join(VERIF, "spec")):
            if f.endswith((".tla", ".cfg")):
                shutil.copy(os.path.join(VERIF, "spec", f), d)
        return d

    def _tlc(self, d, module, cfg, extra, timeout, workers, env=None):
        cmd = ["tlc", "-workers", str(workers), "-metadir", os.path.join(d, "meta"), "-config", cfg] + extra + [module]
        e = dict(os.environ)
        if env:
            e.update(env)
        t = time.time()
        try:
            r = subprocess.run(cmd, cwd=d, capture_output=True, text=True, timeout=timeout, env=e)
        except subprocess.TimeoutExpired:
            subprocess.run(["pkill", "-f", "tlc2.TL[C].*" + re.escape(d)], capture_output=True)
            raise MachineryError("TLC timeout (%ss) on %s/%s" % (timeout, module, cfg))
        out = r.stdout + r.stderr
        return r.returncode, out, time.time() - t

    @staticmethod
    def _parse_counts(out):
        m = re.findall(r"(\d+) states generated, (\d+) distinct states found", out)
        gen = dist = 0
        if m:
            gen, dist = int(m[-1][0]), int(m[-1][1])
        dm = re.findall(r"depth of the complete state graph search is (\d+)", out)
        depth = int(dm[-1]) if dm else 0
        return gen, dist, depth

    def tlc_mc(self, module, cfg=None, timeout=900, workers=None, expect_ok=True, extra=None, heap=None):
        """Exhaustive model checking of a design-level config. A violated invariant here is a bug of the
        specification/config (exit 2), never a verdict about the code."""
        cfg = cfg or module + ".cfg"
        d = self._spec_copy()
        env = {}
        if heap:
            env["JAVA_TOOL_OPTIONS"] = "-Xmx%s -Xss64m" % heap
        rc, out, dt = self._tlc(d, module + ".tla", cfg, extra or [], timeout, workers or NCPU, env)
        gen, dist, depth = self._parse_counts(out)
        ok = rc == 0 and "Model checking completed. No error has been found" in out
        self.mc_runs.append({"module": module, "cfg": cfg, "generated": gen, "distinct": dist, "depth": depth,
                             "ok": ok, "wall_s": round(dt, 1)})
        self.cov["states"] += dist
        self.cov["transitions"] += gen
        log("TLC MC %s/%s: %d generated, %d distinct, depth %d, %.1fs, ok=%s" % (module, cfg, gen, dist, depth, dt, ok))
        if expect_ok and not ok:
            raise MachineryError("TLC model checking of %s/%s failed (design-level spec error):\n%s" % (module, cfg, out[-5000:]))
        return ok, out

    def tlc_gen(self, module, cfg=None, timeout=600, simulate=None, depth=None, workers=1, extra=None):
        """Run TLC as generator. Lines printed by PrintT(ToJson(x)) / Print are collected and returned (parsed JSON).
        The spec prints strings that start with '@@' followed by JSON."""
        cfg = cfg or module + ".cfg"
        d = self._spec_copy()
        ex = list(extra or [])
        if simulate:
            ex += ["-simulate", "num=%d" % simulate, "-depth", str(depth or 50), "-seed", str(self.seed)]
        rc, out, dt = self._tlc(d, module + ".tla", cfg, ex, timeout, workers)
        items = []
        for line in out.splitlines():
            line = line.strip()
            if line.startswith('"@@'):
                # TLC prints strings quoted with escaped quotes
                try:
                    s = json.loads(line)
                    items.append(json.loads(s[2:]))
                except Exception:
                    pass
            elif line.startswith("@@"):
                try:
                    items.append(json.loads(line[2:]))
                except Exception:
                    pass
        gen, dist, depth_ = self._parse_counts(out)
        log("TLC GEN %s/%s: %d items, %d states, %.1fs rc=%d" % (module, cfg, len(items), dist, dt, rc))
        if rc != 0 and not items:
            raise MachineryError("TLC generator %s/%s failed:\n%s" % (module, cfg, out[-5000:]))
        self.cov["states"] += dist
        self.cov["transitions"] += gen
        return items, out

    def tlc_validate(self, module, trace_path, cfg=None, timeout=900, ntraces=1, dfs=False, heap=None):
        """Validate an ndjson trace file recorded from the real code against Trace_<X>.tla.
        The trace spec reads 'trace.ndjson' from its working directory, sets TLC register 1 to the high-water
        mark of consumed lines, and its POSTCONDITION prints '@@REJECT <hwm> <len>' when not all lines were consumed.
        Returns dict(ok, hwm, length, invariant, out)."""
        cfg = cfg or module + ".cfg"
        d = self._spec_copy()
        shutil.copy(trace_path, os.path.join(d, "trace.ndjson"))
        env = {}
        opts = ["-Xss64m"]
        if heap:
            opts.append("-Xmx%s" % heap)
        if dfs:
            opts.append("-Dtlc2.tool.queue.IStateQueue=StateDeque")
        env["JAVA_TOOL_OPTIONS"] = " ".join(opts)
        rc, out, dt = self._tlc(d, module + ".tla", cfg, [], timeout, 1, env)
        gen, dist, depth = self._parse_counts(out)
        res = {"ok": False, "hwm": None, "length": None, "invariant": None, "out": out, "states": dist, "wall_s": dt,
               "state": None}
        res["viols"] = [(t, int(n)) for t, n in re.findall(r"@@VIOL\s+(\S+)\s+(\d+)", out)]
        m = re.search(r"@@REJECT\s+(\d+)\s+(\d+)", out)
        if m:
            res["hwm"], res["length"] = int(m.group(1)), int(m.group(2))
        mi = re.search(r"Invariant (\S+) is violated", out)
        if mi:
            res["invariant"] = mi.group(1)
            # the last "State n:" block of the counterexample
            blocks = re.split(r"\nState \d+: ", out)
            if len(blocks) > 1:
                res["state"] = blocks[-1][:4000]
                ml = re.search(r"/\\ l = (\d+)", blocks[-1])
                if ml:
                    res["hwm"] = int(ml.group(1)) - 1
        if rc == 0 and "No error has been found" in out and not m and not mi:
            res["ok"] = True
        elif not m and not mi:
            raise MachineryError("TLC trace validation %s crashed:\n%s" % (module, out[-6000:]))
        self.cov["states"] += dist
        self.cov["transitions"] += gen
        if res["ok"]:
            self.cov["traces_validated_against_impl"] += ntraces
        log("TLC VAL %s: ok=%s hwm=%s inv=%s states=%d %.1fs" % (module, res["ok"], res["hwm"], res["invariant"], dist, dt))
        return res

    # ------------------------------------------------------------------ coverage bookkeeping
    def count_case(self, key, nontrivial=True):
        self.cov["evaluations"] += 1
        if nontrivial:
            h = hashlib.sha1(repr(key).encode()).hexdigest()
            self._distinct.add(h)

    def add_cases(self, evaluations, distinct_keys):
        self.cov["evaluations"] += evaluations
        for k in distinct_keys:
            self._distinct.add(hashlib.sha1(repr(k).encode()).hexdigest())

    def sample(self, obj, maxn=5):
        if len(self.cov["samples"]) < maxn:
            self.cov["samples"].append(obj)

    def oblig(self, tag, n=1):
        self.obligation_counts[tag] = self.obligation_counts.get(tag, 0) + n

    # ------------------------------------------------------------------ verdicts
    def violation(self, obligation, signature, what, detail=None):
        """Record a real-code violation. signature: canonical string (site/sig/history class) used by the
        known-findings matcher; what: one-line description; detail: JSON-able replay material."""
        for k in self.known:
            if k["kind"] != "known" or k["property"] != self.prop:
                continue
            if k.get("obligation") and k["obligation"] != obligation:
                continue
            if k.get("match") and not re.search(k["match"], signature):
                continue
            if not any(h["entry"] is k for h in self.known_hits):
                self.known_hits.append({"entry": k, "signature": signature})
                print("KNOWN-FINDING: property=%s %s" % (self.prop, k["text"]), flush=True)
            return False
        n = len(self.violations) + 1
        os.makedirs(os.path.join(VERIF, "replays"), exist_ok=True)
        p = os.path.join(VERIF, "replays", "%s-%s-%d-%d.json" % (self.prop, self.tier, self.seed, n))
        with open(p, "w") as fh:
            json.dump({"property": self.prop, "obligation": obligation, "signature": signature, "what": what,
                       "tier": self.tier, "seed": self.seed, "detail": detail}, fh, indent=1, default=str)
        self.violations.append({"obligation": obligation, "signature": signature, "what": what, "replay": p})
        log("violation: obligation=%s %s :: %s" % (obligation, signature, what))
        print("VIOLATION property=%s replay=%s" % (self.prop, p), flush=True)
        return True

    def write_evidence(self, status):
        cov = dict(self.cov)
        cov["distinct_nontrivial"] = len(self._distinct)
        cov["mc_runs"] = self.mc_runs
        cov["obligation_evaluations"] = self.obligation_counts
        cov.update(self.extra)
        if not cov["samples"]:
            cov["samples"] = [{"note": "no sample recorded"}]
        ev = {"property_id": self.prop, "tier": self.tier, "seed": self.seed, "level": self.level,
              "coverage": cov, "assumptions": self.assumptions, "wall_s": round(time.time() - self.t0, 1),
              "violations": len(self.violations), "status": status,
              "known_findings_hit": [h["entry"]["text"] for h in self.known_hits]}
        # evidence/ describes runs against /repo itself: a run against another tree (VERIF_REPO = seeded / mutated worktree)
        # writes its record elsewhere so that it can never be mistaken for, or overwrite, the evidence of the real tree
        evdir = os.path.join(VERIF, "evidence") if REPO == "/repo" else os.path.join("/var/tmp", "verif-evidence-other")
        os.makedirs(evdir, exist_ok=True)
        ev["repo"] = REPO
        p = os.path.join(evdir, self.prop + ".json")
        tmp = p + ".tmp"
        with open(tmp, "w") as fh:
            json.dump(ev, fh, indent=1, default=str)
        os.replace(tmp, p)


def load_known():
    out = []
    p = os.path.join(VERIF, "KNOWN_FINDINGS.txt")
    if not os.path.exists(p):
        return out
    for line in open(p):
        line = line.strip()
        if not line or line.startswith("#"):
            continue
        kind, _, rest = line.partition(":")
        kind = kind.strip()
        if kind not in ("known", "fixed"):
            continue
        head, _, text = rest.partition("::")
        ent = {"kind": kind, "text": text.strip() or head.strip()}
        for m in re.finditer(r'(\w+)=("([^"]*)"|\S+)', head):
            ent[m.group(1)] = m.group(3) if m.group(3) is not None else m.group(2)
        out.append(ent)
    return out


def read_ndjson(path):
    out = []
    with open(path) as fh:
        for line in fh:
            line = line.strip()
            if line:
                out.append(json.loads(line))
    return out


def write_ndjson(path, items):
    with open(path, "w") as fh:
        for it in items:
            fh.write(json.dumps(it, separators=(",", ":")) + "\n")


def main(prop_modules):
    import argparse, importlib
    ap = argparse.ArgumentParser()
    ap.add_argument("prop")
    ap.add_argument("--tier", default=os.environ.get("VERIF_TIER", "quick"), choices=["quick", "thorough"])
    ap.add_argument("--seed", type=int, default=int(os.environ.get("VERIF_SEED", "1") or 1))
    ap.add_argument("--replay", default=None)
    ap.add_argument("--selftest", action="store_true")
    a = ap.parse_args()
    prop = a.prop.upper()
    ctx = Ctx(prop, a.tier, a.seed)
    ctx.replay = a.replay
    ctx.selftest = a.selftest
    sys.path.insert(0, os.path.join(VERIF, "props"))
    status = "error"
    rc = 2
    try:
        mod = importlib.import_module(prop.lower())
        mod.run(ctx)
        if ctx.violations:
            status, rc = "violation", 1
        else:
            status, rc = "ok", 0
    except MachineryError as ex:
        log("MACHINERY ERROR:", ex)
        status, rc = "machinery_error", 2
        if ctx.violations:
            status, rc = "violation", 1
    except Exception:
        import traceback
        traceback.print_exc()
        status, rc = "machinery_error", 2
        if ctx.violations:
            status, rc = "violation", 1
    try:
        ctx.write_evidence(status)
    except Exception as ex:
        log("cannot write evidence:", ex)
    log("%s tier=%s seed=%d -> %s (%.1fs)" % (prop, a.tier, a.seed, status, time.time() - ctx.t0))
    sys.exit(rc)
