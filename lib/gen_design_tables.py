#!/usr/bin/env python3
"""Regenerates the machine-derived tables of DESIGN.md section 10 (between the AUTOGEN markers) from KNOWN_FINDINGS.txt,
/repo's fix commits and seeded/*/meta.json."""
import json, glob, os, re, subprocess
V = '/verif'
fixed, known = [], []
for l in open(V + '/KNOWN_FINDINGS.txt'):
    l = l.strip()
    if l.startswith('fixed:'):
        m = re.match(r'fixed: property=(\S+) commit=(\S+) :: (.*)', l)
        if m:
            fixed.append(m.groups())
    elif l.startswith('known:'):
        m = re.match(r'known: property=(\S+) (?:obligation=(\S+) )?.*?:: (.*)', l)
        if m:
            known.append(m.groups())
out = []
out.append('#### Repaired defects (one "fix:" commit each in /repo; `fixed:` lines of KNOWN_FINDINGS.txt)\n')
out.append('| property | commit | defect (first observed by the check of that property on the real code) |')
out.append('|---|---|---|')
for p, c, t in sorted(fixed, key=lambda x: x[0]):
    out.append('| %s | %s | %s |' % (p, c, t.replace('|', '/')[:260]))
out.append('')
out.append('#### Known findings (genuine, not repaired; exact signatures in KNOWN_FINDINGS.txt)\n')
out.append('| property | obligation | finding |')
out.append('|---|---|---|')
for p, o, t in sorted(known, key=lambda x: x[0]):
    out.append('| %s | %s | %s |' % (p, o or '-', t.replace('|', '/')[:260]))
out.append('')
out.append('#### Seeded changes (/verif/seeded/<id>/: patch.diff, demonstration, meta.json) and the checks that catch them\n')
out.append('| seed | what breaks | needs | detection |')
out.append('|---|---|---|---|')
for d in sorted(glob.glob(V + '/seeded/*')):
    mp = d + '/meta.json'
    if not os.path.exists(mp):
        continue
    m = json.load(open(mp))
    out.append('| %s | %s | %s | %s |' % (os.path.basename(d), str(m.get('what', ''))[:200].replace('|', '/'), str(m.get('needs', ''))[:160].replace('|', '/'),
                                      str(m.get('confirmed', {}).get('detected_by', ''))[:260].replace('|', '/')))
txt = '\n'.join(out) + '\n'
p = V + '/DESIGN.md'
s = open(p).read()
b, e = '<!-- AUTOGEN:BEGIN -->', '<!-- AUTOGEN:END -->'
if b in s:
    s = s[:s.index(b) + len(b)] + '\n' + txt + s[s.index(e):]
else:
    s += '\n### 10.5 Tables generated from KNOWN_FINDINGS.txt and seeded/*/meta.json (lib/gen_design_tables.py)\n\n' + b + '\n' + txt + e + '\n'
open(p, 'w').write(s)
print(len(fixed), 'fixed', len(known), 'known')
