#!/bin/bash
# usage: r3suite.sh <seeddir>... : full test suite with each patch on a fresh worktree of HEAD; failing set must equal the baseline's always-failing set
export GOFLAGS=-mod=mod GOPROXY=off GOSUMDB=off GOTOOLCHAIN=local
for SD in "$@"; do
  W=/var/tmp/sw.$$; git -C /repo worktree add -f $W HEAD -q || exit 1
  (cd $W && git apply $SD/patch.diff && go1.26 test -vet=off -count=1 -p 6 ./... 2>&1 | grep -a -E '^--- FAIL' | sort | tr '\n' ' ' > $SD/suite.log)
  echo "[$SD] suite failing: $(cat $SD/suite.log)"
  git -C /repo worktree remove --force $W
done
