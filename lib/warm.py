import os, sys
sys.path.insert(0, os.path.dirname(os.path.abspath(__file__)))
import vlib
ctx = vlib.Ctx("warm", "quick", 1)
hroot = os.path.join(vlib.VERIF, "harness")
for d in sorted(os.listdir(hroot)):
    if d == "shim" or not os.path.exists(os.path.join(hroot, d, "main.go")):
        continue
    try:
        ctx.build_go(d)
    except Exception as ex:
        print("warm: build of %s failed: %s" % (d, str(ex)[:500]))
