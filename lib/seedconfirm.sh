#!/bin/bash
# usage: confirm2.sh <seeddir> : demo without/with patch + full suite with patch, on a fresh worktree of /repo HEAD
export GOFLAGS=-mod=mod GOPROXY=off GOSUMDB=off GOTOOLCHAIN=local
SD=$1; N=$(basename $SD)
W=/var/tmp/cw.$$
git -C /repo worktree add -f $W HEAD -q || exit 1
cd $W; mkdir -p seeded; cp -r $SD seeded/$N
CMD=$(python3 - <<PY
import json,re
c=json.load(open('seeded/$N/meta.json'))['demo_cmd'].strip()
c=re.sub(r'^\(\s*','',c); c=re.sub(r'\s*\)$','',c)
c=c.replace('cd <worktree> && ','')
c=re.sub(r'cd /tmp/seed\d?-C\d+\s*(&&|;)\s*','',c)
c=re.sub(r'git apply [^&;]*(&&|;)','',c)
i=c.find('go1.26 test'); j=c.find(';',i)
if i>=0 and j>=0: c=c[:j]
print(c)
PY
)
run() { (eval "$CMD" 2>&1 | grep -a -E "^(--- FAIL|FAIL|ok|PASS)" | head -2 | tr '\n' ' '); }
echo "[$SD] WITHOUT patch: $(run)"
git apply seeded/$N/patch.diff || echo "PATCH DOES NOT APPLY"
echo "[$SD] WITH patch:    $(run)"
# suite with the patch, demo test removed
git status --short | grep '^??' | grep _test.go | awk '{print $2}' | xargs -r rm
go1.26 build ./... || echo "BUILD FAILED"
[ -n "$NOSUITE" ] || echo "[$SD] SUITE failing tests: $(go1.26 test -vet=off -count=1 ./... 2>&1 | grep -a -E '^--- FAIL' | sort | tr '\n' ' ')"
cd /; git -C /repo worktree remove --force $W
