#!/bin/bash
# usage: seedtest.sh <seed-dir-with-patch.diff> <check ids...> : apply the seeded patch on top of CURRENT /repo HEAD in a fresh worktree and run checks
export GOFLAGS=-mod=mod GOPROXY=off GOSUMDB=off GOTOOLCHAIN=local
SD=$1; shift
W=/var/tmp/seedtest.$$
git -C /repo worktree add -f $W HEAD -q || exit 1
cd $W
if ! git apply $SD/patch.diff 2>/dev/null; then echo "### $SD: patch does not apply on HEAD"; git -C /repo worktree remove --force $W; exit 0; fi
go1.26 build ./... || { echo "BUILD FAILED"; git -C /repo worktree remove --force $W; exit 1; }
echo "### $SD: $(python3 -c "import json;print(json.load(open('$SD/meta.json'))['what'][:110])")"
for C in "$@"; do
  (cd /verif && VERIF_REPO=$W ./check $C --seed ${SEED:-11} 2>&1 | grep -E "violation: |-> |MACHINERY" | sed -E 's/ history=.*//; s/ :: .*//' | sort | uniq -c | sort -rn | head -5 | sed "s/^/   [$C] /")
done
cd /; git -C /repo worktree remove --force $W
