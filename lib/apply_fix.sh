#!/bin/bash
# usage: apply_fix.sh <diff-file> "<commit message starting with fix:>"  [pkgs to test...]
export GOFLAGS=-mod=mod GOPROXY=off GOSUMDB=off GOTOOLCHAIN=local
D=$(realpath $1); MSG=$2; shift 2
cd /repo || exit 1
git diff --quiet || { echo "repo dirty"; exit 1; }
git apply --exclude="*_test.go" --check "$D" || { echo "APPLY CHECK FAILED $D"; exit 1; }
git apply --exclude="*_test.go" "$D"
go1.26 build ./... || { echo BUILD FAILED; git checkout -q -- .; exit 1; }
gofmt -l $(git diff --name-only | grep '\.go$') | grep . && { echo "GOFMT"; }
PK=${@:-$(git diff --name-only | xargs -n1 dirname | sort -u | sed 's#^#./#')}
OUT=$(go1.26 test -vet=off -count=1 $PK 2>&1 | grep -a -E "^(--- FAIL|FAIL|ok)" | grep -a -v -E "TestDownloadMagnet|TestDownloadTorrent|TestDownloadWebseed|TestTorrentDir|TestTorrentFiles|TestTTL")
echo "$OUT" | grep -a "^--- FAIL" && { echo "TESTS FAILED"; git checkout -q -- .; exit 1; }
git add -A && git commit -qm "$MSG" && git log --oneline | head -1
