// Command c20 is the stress driver of property C20 (no data races or lock-ups under concurrent API use
// while transferring). It always runs as a CHILD of props/c20.py (which is the parent with the outer
// deadline, collects stderr / the race-detector log and turns them into trace events):
//
//	c20 stress -mix all|compact|move|dht [-skip op,op] -dur MS -workers N -seed S -dir D -out result.json
//	    a real torrent.Session (RPC enabled, file storage, ResumeWriteInterval 2 ms) leeches a pool of generated
//	    torrents from scripted vh seeders / trackers while N goroutines call a random mix of ALL public API
//	    methods and RPC methods (rainrpc client). Built with -race: the race detector is the observer.
//	c20 recipe -ops Session.StartAll,Session.AddTorrent,Session.updateStats -dur MS -seed S -dir D -out result.json
//	    the operations of one lock-up cycle predicted by TLC (MC_Locks_asis) in tight loops, ResumeWriteInterval 1 ms.
//	c20 phases -dur MS -seed S -dir D -out result.json
//	    command histories issued DURING allocation / verification (gates in the storage provider) and while the DHT
//	    announcer of a started torrent is busy (DHT node on loopback, tiny DHTMinAnnounceInterval): see phases.go.
//
// Every call is registered with a watchdog; a call that does not return within -limit ms makes the child dump
// all goroutine stacks (runtime.Stack) to <dir>/goroutines.txt, write the result file and exit with status 3.
package main

import (
	"bytes"
	"encoding/hex"
	"encoding/json"
	"flag"
	"fmt"
	"math/rand"
	"net"
	"os"
	"path/filepath"
	"runtime"
	"sort"
	"strings"
	"sync"
	"sync/atomic"
	"time"

	"github.com/cenkalti/rain/v2/internal/verif/vh"
	"github.com/cenkalti/rain/v2/rainrpc"
	"github.com/cenkalti/rain/v2/torrent"
)

type entry struct {
	n       atomic.Int64 // adds so far: every add of this pool entry uses a fresh explicit id (never re-used)
	cur     atomic.Pointer[string]
	id      string
	tor     *vh.Torrent
	seedAdr string
	trk     *vh.HTTPTracker
	magnet  string
}

type callStat struct {
	N, Ret, Err, Panic int64
}

type inflight struct {
	op    string
	start time.Time
}

type Result struct {
	Mode       string               `json:"mode"`
	Mix        string               `json:"mix"`
	Ops        []string             `json:"ops"`
	Seed       int64                `json:"seed"`
	Calls      map[string]*callStat `json:"calls"`
	Hang       *Hang                `json:"hang"`
	Panics     []string             `json:"panics"`
	Rounds     int                  `json:"rounds"`
	Downloaded int64                `json:"downloaded"`
	Completed  int64                `json:"completed"`
	ElapsedMs  int64                `json:"elapsed_ms"`
	Note       string               `json:"note"`
}

type Hang struct {
	Op      string `json:"op"`
	Worker  int    `json:"worker"`
	AfterMs int64  `json:"after_ms"`
}

var (
	dir      string
	outPath  string
	limit    time.Duration
	T        *vh.Tracer
	res      = &Result{Calls: map[string]*callStat{}}
	resMu    sync.Mutex
	slots    []atomic.Pointer[inflight]
	deadline time.Time
	stopAll  atomic.Bool
)

func stat(op string) *callStat {
	resMu.Lock()
	defer resMu.Unlock()
	c := res.Calls[op]
	if c == nil {
		c = &callStat{}
		res.Calls[op] = c
	}
	return c
}

// call runs f under the watchdog of worker w. Panics raised in the CALLER's goroutine are recovered and
// recorded (they are not C20 verdicts: e.g. the nil-bucket panics of C14); panics in rain's own goroutines
// kill the child and are classified by the parent from stderr.
func call(w int, op string, f func() error) {
	c := stat(op)
	atomic.AddInt64(&c.N, 1)
	slots[w].Store(&inflight{op: op, start: time.Now()})
	defer func() {
		slots[w].Store(nil)
		if r := recover(); r != nil {
			atomic.AddInt64(&c.Panic, 1)
			atomic.AddInt64(&c.Ret, 1)
			buf := make([]byte, 4096)
			n := runtime.Stack(buf, false)
			resMu.Lock()
			if len(res.Panics) < 20 {
				res.Panics = append(res.Panics, fmt.Sprintf("%s: %v\n%s", op, r, buf[:n]))
			}
			resMu.Unlock()
		}
	}()
	err := f()
	if err != nil {
		atomic.AddInt64(&c.Err, 1)
	}
	atomic.AddInt64(&c.Ret, 1)
}

func writeResult() {
	resMu.Lock()
	defer resMu.Unlock()
	// the counters are updated atomically by workers that may still be running (hang path): copy them atomically
	snap := *res
	snap.Calls = map[string]*callStat{}
	for k, c := range res.Calls {
		snap.Calls[k] = &callStat{N: atomic.LoadInt64(&c.N), Ret: atomic.LoadInt64(&c.Ret), Err: atomic.LoadInt64(&c.Err), Panic: atomic.LoadInt64(&c.Panic)}
	}
	b, _ := json.MarshalIndent(&snap, "", " ")
	os.WriteFile(outPath+".tmp", b, 0644)
	os.Rename(outPath+".tmp", outPath)
}

func watchdog(t0 time.Time) {
	for tick := 0; ; tick++ {
		time.Sleep(100 * time.Millisecond)
		now := time.Now()
		if tick%10 == 9 {
			// partial result: a panic of the code under test kills the process without warning
			resMu.Lock()
			res.ElapsedMs = time.Since(t0).Milliseconds()
			resMu.Unlock()
			writeResult()
		}
		for i := range slots {
			in := slots[i].Load()
			if in != nil && now.Sub(in.start) > limit {
				buf := make([]byte, 64<<20)
				n := runtime.Stack(buf, true)
				os.WriteFile(filepath.Join(dir, "goroutines.txt"), buf[:n], 0644)
				resMu.Lock()
				res.Hang = &Hang{Op: in.op, Worker: i, AfterMs: now.Sub(in.start).Milliseconds()}
				res.ElapsedMs = time.Since(t0).Milliseconds()
				resMu.Unlock()
				writeResult()
				os.Exit(3)
			}
		}
	}
}

func freePort() int {
	l, err := net.Listen("tcp4", "127.0.0.1:0")
	if err != nil {
		panic(err)
	}
	defer l.Close()
	return l.Addr().(*net.TCPAddr).Port
}

func fatal(err error) {
	if err != nil {
		fmt.Fprintln(os.Stderr, "C20-DRIVER-ERROR:", err)
		os.Exit(4)
	}
}

// buildPool creates n generated torrents, each with its own scripted seeder (own loopback IP), HTTP tracker
// (answers with the seeder's address) and magnet link.
func buildPool(n int, seed int64, unit int, delay time.Duration) []*entry {
	lays := vh.StdLayouts(unit)
	var pool []*entry
	for i := 0; i < n; i++ {
		lay := lays[(i*3+1)%len(lays)]
		lay.Name = fmt.Sprintf("c20-%d-%s", i, lay.Name)
		e := &entry{id: fmt.Sprintf("p%d", i)}
		ip := fmt.Sprintf("127.0.0.%d", 2+i)
		if i == 0 {
			ip = "127.0.0.1" // reachable through the host name "localhost"
		}
		// the tracker needs the seeder address and the torrent needs the tracker URL: tracker first
		var seedAddr atomic.Pointer[net.TCPAddr]
		trk, err := vh.StartHTTPTracker(T, "trk"+e.id, func(r vh.AnnReq) vh.AnnReply {
			rep := vh.AnnReply{Interval: vh.I64(2), MinInterval: vh.I64(1)}
			if a := seedAddr.Load(); a != nil {
				rep.Peers = []*net.TCPAddr{a}
			}
			return rep
		})
		fatal(err)
		e.trk = trk
		e.tor = vh.Build(lay, seed*131+int64(i), [][]string{{trk.URL()}}, nil)
		pl, err := vh.ListenSeeder(T, "seed"+e.id, ip, e.tor, &vh.SeederPolicy{Metadata: true, BlockDelay: delay}, nil)
		fatal(err)
		seedAddr.Store(pl.Addr)
		e.seedAdr = pl.Addr.String()
		e.magnet = "magnet:?xt=urn:btih:" + hex.EncodeToString(e.tor.InfoHash[:]) + "&dn=" + lay.Name + "&tr=" + trk.URL() + "&x.pe=" + e.seedAdr
		pool = append(pool, e)
	}
	return pool
}

func newSession(sub string, resumeEvery time.Duration, rpc bool, dht bool) (*torrent.Session, torrent.Config) {
	d := filepath.Join(dir, sub)
	os.MkdirAll(d, 0755)
	cfg, err := vh.BaseConfig(d, 60)
	fatal(err)
	cfg.ResumeWriteInterval = resumeEvery
	cfg.DisableOutgoingEncryption = true
	cfg.HealthCheckInterval = 5 * time.Second
	cfg.HealthCheckTimeout = 3 * limit // the driver's watchdog fires first
	cfg.RPCEnabled = rpc
	cfg.RPCHost = "127.0.0.1"
	cfg.RPCPort = freePort()
	cfg.RPCShutdownTimeout = time.Second
	cfg.TrackerStopTimeout = 200 * time.Millisecond
	cfg.DHTEnabled = dht
	if dht {
		cfg.DHTHost = "127.0.0.1"
		cfg.DHTPort = uint16(freePort())
		cfg.DHTBootstrapNodes = nil
		cfg.DHTAnnounceInterval = 200 * time.Millisecond
		cfg.DHTMinAnnounceInterval = 100 * time.Millisecond
	}
	if cfgTweak != nil {
		cfgTweak(&cfg)
	}
	s, err := torrent.NewSession(cfg)
	fatal(err)
	return s, cfg
}

// cfgTweak, when set, adjusts the configuration of the next session (mode phases: custom storage, DHT intervals)
var cfgTweak func(cfg *torrent.Config)

// ---------------------------------------------------------------------------------------------------------------------
// stress: random mix of all public API + RPC calls
// ---------------------------------------------------------------------------------------------------------------------

type worker struct {
	id   int
	rng  *rand.Rand
	s    *torrent.Session
	rc   *rainrpc.Client
	pool []*entry
	// handles kept across calls (possibly of torrents removed meanwhile: a caller may keep its *Torrent)
	kept []*torrent.Torrent
	mix  string
	tgt  string // rpc address of the move target session
}

func (w *worker) entry() *entry { return w.pool[w.rng.Intn(len(w.pool))] }

// newID: explicit ids exercise the duplicate check under mTorrents.RLock; an id is never used twice, so the
// add/remove-same-id races of C14 (a registered torrent without database record) stay out of this driver.
func (e *entry) newID() string {
	id := fmt.Sprintf("%s-%d", e.id, e.n.Add(1))
	return id
}

// curID: id of the latest successful add of this pool entry ("" if none yet)
func (e *entry) curID() string {
	if p := e.cur.Load(); p != nil {
		return *p
	}
	return e.id
}

func (w *worker) handle() *torrent.Torrent {
	if len(w.kept) > 0 && w.rng.Intn(8) == 0 {
		return w.kept[w.rng.Intn(len(w.kept))]
	}
	var t *torrent.Torrent
	e := w.entry()
	call(w.id, "Session.GetTorrent", func() error { t = w.s.GetTorrent(e.curID()); return nil })
	if t != nil {
		if len(w.kept) < 4 {
			w.kept = append(w.kept, t)
		} else {
			w.kept[w.rng.Intn(4)] = t
		}
	}
	return t
}

type op struct {
	name   string
	weight int
	run    func(w *worker)
}

func onT(name string, f func(t *torrent.Torrent) error) func(w *worker) {
	return func(w *worker) {
		t := w.handle()
		if t == nil {
			return
		}
		call(w.id, name, func() error { return f(t) })
	}
}

func ops(mix string) []op {
	get := 6
	o := []op{
		{"Session.ListTorrents", 3, func(w *worker) { call(w.id, "Session.ListTorrents", func() error { _ = w.s.ListTorrents(); return nil }) }},
		{"Session.Stats", 3, func(w *worker) { call(w.id, "Session.Stats", func() error { _ = w.s.Stats(); return nil }) }},
		{"Session.StartAll", 3, func(w *worker) { call(w.id, "Session.StartAll", func() error { return w.s.StartAll() }) }},
		{"Session.StopAll", 1, func(w *worker) { call(w.id, "Session.StopAll", func() error { return w.s.StopAll() }) }},
		{"Session.CleanDatabase", 1, func(w *worker) { call(w.id, "Session.CleanDatabase", func() error { return w.s.CleanDatabase() }) }},
		{"Session.AddTorrent", 4, func(w *worker) {
			e := w.entry()
			call(w.id, "Session.AddTorrent", func() error {
				id := e.newID()
				t, err := w.s.AddTorrent(bytes.NewReader(e.tor.Bytes), &torrent.AddTorrentOptions{ID: id, Stopped: w.rng.Intn(4) == 0})
				if err == nil {
					e.cur.Store(&id)
					_ = t.AddPeer(e.seedAdr)
				}
				return err
			})
		}},
		{"Session.AddURI", 2, func(w *worker) {
			e := w.entry()
			call(w.id, "Session.AddURI", func() error {
				id := e.newID()
				_, err := w.s.AddURI(e.magnet, &torrent.AddTorrentOptions{ID: id})
				if err == nil {
					e.cur.Store(&id)
				}
				return err
			})
		}},
		{"Session.RemoveTorrent", 2, func(w *worker) {
			e := w.entry()
			call(w.id, "Session.RemoveTorrent", func() error { return w.s.RemoveTorrent(e.curID(), w.rng.Intn(2) == 0) })
		}},
		{"Torrent.Start", 5, onT("Torrent.Start", func(t *torrent.Torrent) error { return t.Start() })},
		{"Torrent.Stop", 2, onT("Torrent.Stop", func(t *torrent.Torrent) error { return t.Stop() })},
		{"Torrent.Verify", 1, onT("Torrent.Verify", func(t *torrent.Torrent) error { return t.Verify() })},
		{"Torrent.Announce", 3, onT("Torrent.Announce", func(t *torrent.Torrent) error { t.Announce(); return nil })},
		{"Torrent.Stats", get, onT("Torrent.Stats", func(t *torrent.Torrent) error { _ = t.Stats(); return nil })},
		{"Torrent.Peers", get, onT("Torrent.Peers", func(t *torrent.Torrent) error { _ = t.Peers(); return nil })},
		{"Torrent.Trackers", get, onT("Torrent.Trackers", func(t *torrent.Torrent) error { _ = t.Trackers(); return nil })},
		{"Torrent.Webseeds", 2, onT("Torrent.Webseeds", func(t *torrent.Torrent) error { _ = t.Webseeds(); return nil })},
		{"Torrent.Files", get, onT("Torrent.Files", func(t *torrent.Torrent) error { _, err := t.Files(); return err })},
		{"Torrent.FileStats", get, onT("Torrent.FileStats", func(t *torrent.Torrent) error { _, err := t.FileStats(); return err })},
		{"Torrent.Magnet", get, onT("Torrent.Magnet", func(t *torrent.Torrent) error { _, err := t.Magnet(); return err })},
		{"Torrent.Torrent", get, onT("Torrent.Torrent", func(t *torrent.Torrent) error { _, err := t.Torrent(); return err })},
		{"Torrent.Port", get, onT("Torrent.Port", func(t *torrent.Torrent) error { _ = t.Port(); return nil })},
		{"Torrent.Name", 2, onT("Torrent.Name", func(t *torrent.Torrent) error { _ = t.Name(); _ = t.ID(); _ = t.InfoHash(); _ = t.AddedAt(); _ = t.Dir(); return nil })},
		{"Torrent.Notify", 2, onT("Torrent.Notify", func(t *torrent.Torrent) error {
			_ = t.NotifyStop()
			_ = t.NotifyComplete()
			_ = t.NotifyMetadata()
			_ = t.NotifyClose()
			return nil
		})},
	}
	o = append(o,
		op{"Torrent.AddPeer", 4, func(w *worker) {
			e := w.entry()
			var t *torrent.Torrent
			call(w.id, "Session.GetTorrent", func() error { t = w.s.GetTorrent(e.curID()); return nil })
			if t != nil {
				call(w.id, "Torrent.AddPeer", func() error { return t.AddPeer(e.seedAdr) })
			}
		}},
		op{"Torrent.AddPeer/host", 2, func(w *worker) {
			e := w.pool[0]
			var t *torrent.Torrent
			call(w.id, "Session.GetTorrent", func() error { t = w.s.GetTorrent(e.curID()); return nil })
			if t != nil {
				_, port, _ := net.SplitHostPort(e.seedAdr)
				call(w.id, "Torrent.AddPeer/host", func() error { return t.AddPeer("localhost:" + port) })
			}
		}},
		op{"Torrent.AddTracker", 1, func(w *worker) {
			e := w.entry()
			var t *torrent.Torrent
			call(w.id, "Session.GetTorrent", func() error { t = w.s.GetTorrent(e.curID()); return nil })
			if t != nil {
				call(w.id, "Torrent.AddTracker", func() error { return t.AddTracker(e.trk.URL()) })
			}
		}},
	)
	// RPC (rainrpc client against the RPC server of the same session)
	rp := func(name string, weight int, f func(w *worker, e *entry) error) op {
		return op{name, weight, func(w *worker) {
			e := w.entry()
			call(w.id, name, func() error { return f(w, e) })
		}}
	}
	o = append(o,
		rp("rpc.ListTorrents", 2, func(w *worker, e *entry) error { _, err := w.rc.ListTorrents(); return err }),
		rp("rpc.GetSessionStats", 2, func(w *worker, e *entry) error { _, err := w.rc.GetSessionStats(); return err }),
		rp("rpc.GetTorrentStats", 3, func(w *worker, e *entry) error { _, err := w.rc.GetTorrentStats(e.curID()); return err }),
		rp("rpc.GetTorrentPeers", 2, func(w *worker, e *entry) error { _, err := w.rc.GetTorrentPeers(e.curID()); return err }),
		rp("rpc.GetTorrentTrackers", 2, func(w *worker, e *entry) error { _, err := w.rc.GetTorrentTrackers(e.curID()); return err }),
		rp("rpc.GetTorrentWebseeds", 1, func(w *worker, e *entry) error { _, err := w.rc.GetTorrentWebseeds(e.curID()); return err }),
		rp("rpc.GetTorrentFiles", 2, func(w *worker, e *entry) error { _, err := w.rc.GetTorrentFiles(e.curID()); return err }),
		rp("rpc.GetTorrentFileStats", 2, func(w *worker, e *entry) error { _, err := w.rc.GetTorrentFileStats(e.curID()); return err }),
		rp("rpc.GetMagnet", 2, func(w *worker, e *entry) error { _, err := w.rc.GetMagnet(e.curID()); return err }),
		rp("rpc.GetTorrent", 2, func(w *worker, e *entry) error { _, err := w.rc.GetTorrent(e.curID()); return err }),
		rp("rpc.StartTorrent", 2, func(w *worker, e *entry) error { return w.rc.StartTorrent(e.curID()) }),
		rp("rpc.StopTorrent", 1, func(w *worker, e *entry) error { return w.rc.StopTorrent(e.curID()) }),
		rp("rpc.AnnounceTorrent", 1, func(w *worker, e *entry) error { return w.rc.AnnounceTorrent(e.curID()) }),
		rp("rpc.VerifyTorrent", 1, func(w *worker, e *entry) error { return w.rc.VerifyTorrent(e.curID()) }),
		rp("rpc.StartAllTorrents", 1, func(w *worker, e *entry) error { return w.rc.StartAllTorrents() }),
		rp("rpc.StopAllTorrents", 1, func(w *worker, e *entry) error { return w.rc.StopAllTorrents() }),
		rp("rpc.AddPeer", 2, func(w *worker, e *entry) error { return w.rc.AddPeer(e.curID(), e.seedAdr) }),
		rp("rpc.AddTracker", 1, func(w *worker, e *entry) error { return w.rc.AddTracker(e.curID(), e.trk.URL()) }),
		rp("rpc.AddTorrent", 2, func(w *worker, e *entry) error {
			id := e.newID()
			_, err := w.rc.AddTorrent(bytes.NewReader(e.tor.Bytes), &rainrpc.AddTorrentOptions{ID: id})
			if err == nil {
				e.cur.Store(&id)
				_ = w.rc.AddPeer(id, e.seedAdr)
			}
			return err
		}),
		rp("rpc.AddURI", 1, func(w *worker, e *entry) error {
			id := e.newID()
			_, err := w.rc.AddURI(e.magnet, &rainrpc.AddTorrentOptions{ID: id})
			if err == nil {
				e.cur.Store(&id)
			}
			return err
		}),
		rp("rpc.RemoveTorrent", 1, func(w *worker, e *entry) error { return w.rc.RemoveTorrent(e.curID(), true) }),
		rp("rpc.CleanDatabase", 1, func(w *worker, e *entry) error { return w.rc.CleanDatabase() }),
		rp("rpc.ServerVersion", 1, func(w *worker, e *entry) error { _, err := w.rc.ServerVersion(); return err }),
	)
	switch mix {
	case "compact":
		o = append(o, op{"Session.CompactDatabase", 40, func(w *worker) {
			call(w.id, "Session.CompactDatabase", func() error {
				p := filepath.Join(dir, fmt.Sprintf("compact-%d.db", w.id))
				os.Remove(p)
				return w.s.CompactDatabase(p)
			})
		}})
	case "move":
		o = append(o, op{"Torrent.Move", 25, func(w *worker) {
			e := w.entry()
			var t *torrent.Torrent
			call(w.id, "Session.GetTorrent", func() error { t = w.s.GetTorrent(e.curID()); return nil })
			if t != nil {
				call(w.id, "Torrent.Move", func() error { return t.Move("http://" + w.tgt) })
			}
		}}, rp("rpc.MoveTorrent", 10, func(w *worker, e *entry) error { return w.rc.MoveTorrent(e.curID(), "http://"+w.tgt) }))
	}
	return o
}

func stress(mix string, dur time.Duration, nworkers int, seed int64, skip string) {
	res.Mode, res.Mix, res.Seed = "stress", mix, seed
	t0 := time.Now()
	pool := buildPool(4, seed, 16384, 1500*time.Microsecond)
	s, cfg := newSession("s1", 2*time.Millisecond, true, mix == "dht")
	rpcAddr := fmt.Sprintf("127.0.0.1:%d", cfg.RPCPort)
	tgt := rpcAddr
	var s2 *torrent.Session
	if mix == "move" {
		var cfg2 torrent.Config
		s2, cfg2 = newSession("s2", 50*time.Millisecond, true, false)
		tgt = fmt.Sprintf("127.0.0.1:%d", cfg2.RPCPort)
	}
	var all []op
	for _, o := range ops(mix) {
		if skip != "" && strings.Contains(","+skip+",", ","+o.name+",") {
			continue
		}
		all = append(all, o)
		res.Ops = append(res.Ops, o.name)
	}
	total := 0
	for _, o := range all {
		total += o.weight
	}
	slots = make([]atomic.Pointer[inflight], nworkers+1)
	go watchdog(t0)
	// two torrents are transferring from the start
	for i := 0; i < 2; i++ {
		e := pool[i]
		call(nworkers, "Session.AddTorrent", func() error {
			id := e.newID()
			t, err := s.AddTorrent(bytes.NewReader(e.tor.Bytes), &torrent.AddTorrentOptions{ID: id})
			if err == nil {
				e.cur.Store(&id)
				_ = t.AddPeer(e.seedAdr)
			}
			return err
		})
	}
	deadline = t0.Add(dur)
	var wg sync.WaitGroup
	for i := 0; i < nworkers; i++ {
		w := &worker{id: i, rng: rand.New(rand.NewSource(seed*1000 + int64(i))), s: s, pool: pool, mix: mix, tgt: tgt}
		w.rc = rainrpc.NewClient("http://" + rpcAddr)
		w.rc.SetTimeout(limit + 5*time.Second)
		wg.Add(1)
		go func() {
			defer wg.Done()
			for time.Now().Before(deadline) && !stopAll.Load() {
				x := w.rng.Intn(total)
				for _, o := range all {
					if x < o.weight {
						o.run(w)
						break
					}
					x -= o.weight
				}
				if w.rng.Intn(4) == 0 {
					time.Sleep(time.Duration(w.rng.Intn(3000)) * time.Microsecond)
				}
			}
		}()
	}
	wg.Wait()
	// how much was transferred while the calls were made
	for _, t := range s.ListTorrents() {
		var st torrent.Stats
		call(nworkers, "Torrent.Stats", func() error { st = t.Stats(); return nil })
		resMu.Lock()
		res.Downloaded += st.Bytes.Downloaded
		res.Completed += st.Bytes.Completed
		resMu.Unlock()
	}
	call(nworkers, "Session.Close", func() error { return s.Close() })
	if s2 != nil {
		call(nworkers, "Session.Close", func() error { return s2.Close() })
	}
	resMu.Lock()
	res.ElapsedMs = time.Since(t0).Milliseconds()
	resMu.Unlock()
}

// ---------------------------------------------------------------------------------------------------------------------
// recipe: the operations of one predicted lock-up cycle in tight loops
// ---------------------------------------------------------------------------------------------------------------------

func recipe(opsList []string, dur time.Duration, seed int64) {
	res.Mode, res.Ops, res.Seed = "recipe", opsList, seed
	t0 := time.Now()
	has := map[string]bool{}
	for _, o := range opsList {
		has[o] = true
	}
	pool := buildPool(3, seed, 16384, 300*time.Microsecond)
	slots = make([]atomic.Pointer[inflight], len(opsList)+2+8)
	go watchdog(t0)
	deadline = t0.Add(dur)
	rng := rand.New(rand.NewSource(seed))
	resume := time.Millisecond
	if !has["Session.updateStats"] && !has["Session.Close"] {
		resume = time.Hour // updateStats is not a party of this cycle
	}
	closeRounds := has["Session.Close"]
	// a cycle THROUGH THE EVENT LOOP of a torrent (the loop is a core party): the parties act on the SAME torrent (pool[0]) that
	// is transferring, the registry writer removes and re-adds THAT torrent, and the session is renewed every two seconds
	viaLoop := has["torrent.run"]
	roundDur := dur
	if viaLoop {
		roundDur = 2 * time.Second
	}
	deadURL := "http://127.0.0.1:1/announce" // trackers added by the AddTracker party: refused at once, no traffic
	for round := 0; time.Now().Before(deadline); round++ {
		resMu.Lock()
		res.Rounds = round + 1
		resMu.Unlock()
		s, _ := newSession(fmt.Sprintf("r%d", round), resume, false, false)
		main := len(opsList)
		extraSlot := len(opsList) + 2 // additional pollers of a query party
		for i := 0; i < 2; i++ {
			e := pool[i]
			call(main, "setup.AddTorrent", func() error {
				t, err := s.AddTorrent(bytes.NewReader(e.tor.Bytes), &torrent.AddTorrentOptions{ID: e.id})
				if err == nil {
					_ = t.AddPeer(e.seedAdr)
				}
				return err
			})
		}
		var stop atomic.Bool
		var wg sync.WaitGroup
		loop := func(slot int, name string, f func() error) {
			wg.Add(1)
			go func() {
				defer wg.Done()
				for !stop.Load() && time.Now().Before(deadline) {
					call(slot, name, f)
				}
			}()
		}
		e2 := pool[2]
		for i, o := range opsList {
			switch o {
			case "Session.StartAll":
				loop(i, o, func() error { return s.StartAll() })
			case "Session.StopAll":
				loop(i, o, func() error { return s.StopAll() })
			case "Session.RemoveTorrent", "Torrent.Move", "rpcHandler.handleMoveTorrent":
				if viaLoop {
					// remove (= close: closeC, wait for doneC) and re-add the transferring torrent the other parties talk to;
					// one goroutine per id (Move takes the second torrent when RemoveTorrent is a party too)
					e := pool[0]
					if o != "Session.RemoveTorrent" && has["Session.RemoveTorrent"] {
						e = pool[1]
					}
					add := false
					rng3 := rand.New(rand.NewSource(seed*7 + int64(round)*13 + int64(i)))
					loop(i, o, func() error {
						defer func() { add = !add }()
						if add {
							t, err := s.AddTorrent(bytes.NewReader(e.tor.Bytes), &torrent.AddTorrentOptions{ID: e.id})
							if err == nil {
								_ = t.AddPeer(e.seedAdr)
							}
							return err
						}
						time.Sleep(time.Duration(rng3.Intn(30)) * time.Millisecond) // let it transfer / be queried for a while
						return s.RemoveTorrent(e.id, false)
					})
					break
				}
				fallthrough
			case "Session.AddTorrent":
				// a registry writer: insertTorrent (AddTorrent) and removeTorrentFromClient (RemoveTorrent, Move) alternate
				add := true
				wid := fmt.Sprintf("%s-w%d", e2.id, i) // one id per writer party: no two goroutines add/remove the same id
				loop(i, o, func() error {
					defer func() { add = !add }()
					if add {
						_, err := s.AddTorrent(bytes.NewReader(e2.tor.Bytes), &torrent.AddTorrentOptions{ID: wid, Stopped: o != "Session.AddTorrent"})
						return err
					}
					return s.RemoveTorrent(wid, false)
				})
			case "Torrent.Stop":
				rng2 := rand.New(rand.NewSource(seed + int64(round)))
				loop(i, o, func() error {
					t := s.GetTorrent(pool[0].id)
					if t == nil {
						return nil
					}
					if rng2.Intn(2) == 0 {
						return t.Start()
					}
					return t.Stop()
				})
			case "Session.CompactDatabase":
				cp := filepath.Join(dir, fmt.Sprintf("compact-%d-%d.db", round, i))
				loop(i, o, func() error { os.Remove(cp); return s.CompactDatabase(cp) })
			case "Session.CleanDatabase":
				loop(i, o, func() error { return s.CleanDatabase() })
			case "Session.GetTorrent", "Session.ListTorrents":
				loop(i, o, func() error { _ = s.GetTorrent(pool[0].id); return nil })
			case "Torrent.Stats", "Torrent.Peers", "Torrent.Trackers", "Torrent.Webseeds":
				// pollers of the four queries answered by the loop on a Response channel (3 goroutines, both torrents)
				for k := 0; k < 3; k++ {
					slot := i
					if k > 0 {
						if extraSlot >= len(slots) {
							break
						}
						slot = extraSlot
						extraSlot++
					}
					n := k
					loop(slot, o, func() error {
						n++
						t := s.GetTorrent(pool[n%2].id)
						if t == nil {
							return nil
						}
						switch (n / 2) % 4 {
						case 0:
							_ = t.Trackers()
						case 1:
							_ = t.Stats()
						case 2:
							_ = t.Peers()
						default:
							_ = t.Webseeds()
						}
						return nil
					})
				}
			case "Torrent.AddTracker":
				added := 0
				loop(i, o, func() error {
					if added >= 300 { // every added tracker is an announcer goroutine of the torrent
						time.Sleep(5 * time.Millisecond)
						return nil
					}
					added++
					t := s.GetTorrent(pool[(added/150)%2].id)
					if t == nil {
						return nil
					}
					err := t.AddTracker(deadURL)
					time.Sleep(time.Millisecond)
					return err
				})
			case "Torrent.Verify":
				loop(i, o, func() error {
					t := s.GetTorrent(pool[0].id)
					if t == nil {
						return nil
					}
					err := t.Verify()
					time.Sleep(3 * time.Millisecond)
					return err
				})
			case "Torrent.Start":
				loop(i, o, func() error {
					t := s.GetTorrent(pool[0].id)
					if t == nil {
						return nil
					}
					err := t.Start()
					time.Sleep(time.Millisecond)
					return err
				})
			case "Torrent.Announce":
				loop(i, o, func() error {
					if t := s.GetTorrent(pool[0].id); t != nil {
						t.Announce()
					}
					time.Sleep(time.Millisecond)
					return nil
				})
			case "Session.updateStats", "Session.Close", "torrent.run":
				// the stats writer runs every millisecond; Close is called below; the loops are there
			default:
				resMu.Lock()
				res.Note += "unknown party " + o + "; "
				resMu.Unlock()
			}
		}
		if closeRounds {
			time.Sleep(time.Duration(2+rng.Intn(20)) * time.Millisecond)
			call(main+1, "Session.Close", func() error { return s.Close() })
			stop.Store(true)
			wg.Wait()
		} else {
			roundEnd := time.Now().Add(roundDur)
			for time.Now().Before(deadline) && time.Now().Before(roundEnd) {
				time.Sleep(20 * time.Millisecond)
			}
			stop.Store(true)
			wg.Wait()
			call(main+1, "Session.Close", func() error { return s.Close() })
		}
	}
	resMu.Lock()
	res.ElapsedMs = time.Since(t0).Milliseconds()
	resMu.Unlock()
}

func main() {
	if len(os.Args) < 2 {
		fmt.Fprintln(os.Stderr, "usage: c20 stress|recipe ...")
		os.Exit(4)
	}
	mode := os.Args[1]
	fs := flag.NewFlagSet(mode, flag.ExitOnError)
	mix := fs.String("mix", "all", "")
	opsArg := fs.String("ops", "", "")
	durMs := fs.Int("dur", 5000, "")
	nw := fs.Int("workers", 6, "")
	seed := fs.Int64("seed", 1, "")
	limMs := fs.Int("limit", 20000, "")
	skip := fs.String("skip", "", "")
	fs.StringVar(&dir, "dir", "", "")
	fs.StringVar(&outPath, "out", "", "")
	fs.Parse(os.Args[2:])
	limit = time.Duration(*limMs) * time.Millisecond
	if dir == "" || outPath == "" {
		fatal(fmt.Errorf("-dir and -out are required"))
	}
	os.MkdirAll(dir, 0755)
	torrent.DisableLogging()
	var err error
	T, err = vh.NewTracer("")
	fatal(err)
	switch mode {
	case "stress":
		stress(*mix, time.Duration(*durMs)*time.Millisecond, *nw, *seed, *skip)
	case "phases":
		phases(time.Duration(*durMs)*time.Millisecond, *seed)
	case "recipe":
		l := strings.Split(*opsArg, ",")
		sort.Strings(l)
		recipe(l, time.Duration(*durMs)*time.Millisecond, *seed)
	default:
		fatal(fmt.Errorf("unknown mode %s", mode))
	}
	writeResult()
}
