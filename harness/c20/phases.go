package main

// Mode "phases" of the C20 driver: command HISTORIES issued while a torrent is in a given phase of its life cycle
//
//	alloc    the allocator goroutine is opening the files (the k-th Open is held at a gate)
//	verify   the verifier goroutine is hashing the existing data (the k-th piece read is held at a gate)
//	run      allocation and verification are over, the periodical announcers run; the session has a DHT node
//	         on loopback and DHTMinAnnounceInterval is tiny, so the DHT announcer goroutine of a started torrent
//	         is announcing (taking Session.mPeerRequests) nearly all the time
//	flap     start / stop cycles of a small complete torrent (announcer goroutines are created and joined per cycle)
//
// The torrent loop JOINS these helper goroutines in stop() (allocator.Close, verifier.Close, DHTAnnouncer.Close,
// PeriodicalAnnouncer.Close = close(closeC); <-doneC). A history step arms a gate in the storage provider
// (vh.MemProvider hook), drives the torrent into the phase, issues one API command while the helper goroutine is
// held inside its storage operation, releases the gate and requires the command AND a following Stats() to
// return: every call runs under the watchdog of main.go (a call that does not return within -limit makes the
// child dump all goroutines and exit 3).

import (
	"bytes"
	"fmt"
	"math/rand"
	"os"
	"sync/atomic"
	"time"

	"github.com/cenkalti/rain/v2/internal/verif/vh"
	"github.com/cenkalti/rain/v2/torrent"
)

type phGate struct {
	tid     string
	op      string // "open" (allocation) | "read" (verification)
	k       int64
	cnt     atomic.Int64
	reached chan struct{}
	release chan struct{}
}

type phEnv struct {
	gate     atomic.Pointer[phGate]
	delayNs  atomic.Int64 // pause per storage open / read (widens the allocation / verification window)
	overheld atomic.Int64
}

func (e *phEnv) hook(phase, op, tid, name string, off int64, n int) error {
	if phase != "enter" || (op != "open" && op != "read") {
		return nil
	}
	if d := e.delayNs.Load(); d > 0 {
		time.Sleep(time.Duration(d))
	}
	g := e.gate.Load()
	if g != nil && g.tid == tid && g.op == op && g.cnt.Add(1) == g.k {
		close(g.reached)
		select {
		case <-g.release:
		case <-time.After(3 * time.Second): // never hold a helper goroutine for ever: that would be a lock-up made by the harness
			e.overheld.Add(1)
		}
	}
	return nil
}

type phTor struct {
	tor     *vh.Torrent
	seedAdr string
	nfiles  int // files that are opened by the allocator (no padding)
}

type phHandle struct {
	p  *phTor
	id string
	t  *torrent.Torrent
}

var phDebug = os.Getenv("C20_PHDEBUG") != ""

const (
	slotCmd   = 0 // the command of the step
	slotProbe = 1 // Stats probes / status polling / triggers
	slotMain  = 2 // setup, Close
)

func phNote(s string) {
	resMu.Lock()
	if len(res.Note) < 2000 {
		res.Note += s + "; "
	}
	resMu.Unlock()
}

func phases(dur time.Duration, seed int64) {
	res.Mode, res.Mix, res.Seed = "phases", "phases", seed
	t0 := time.Now()
	slots = make([]atomic.Pointer[inflight], 3)
	go watchdog(t0)
	deadline = t0.Add(dur)
	rng := rand.New(rand.NewSource(seed*977 + 5))
	// big: many pieces (wide verification window); multi: many files (wide allocation window); small: start/stop cycles
	var fs []vh.FileSpec
	for i := 0; i < 16; i++ {
		fs = append(fs, vh.FileSpec{Path: []string{"d", fmt.Sprintf("f%02d", i)}, Length: int64(9000 + rng.Intn(50000))})
	}
	lays := []vh.Layout{
		{Name: "c20p-big", PieceLen: 16384, Files: []vh.FileSpec{{Length: 16384*int64(80+rng.Intn(80)) + 777}}},
		{Name: "c20p-multi", PieceLen: 32768, Files: fs},
		vh.StdLayouts(16384)[1+rng.Intn(4)],
	}
	var tors []*phTor
	for i, lay := range lays {
		if i == 2 {
			lay.Name = "c20p-" + lay.Name
		}
		p := &phTor{tor: vh.Build(lay, seed*131+int64(i), nil, nil)}
		for _, f := range lay.Files {
			if !f.Pad {
				p.nfiles++
			}
		}
		pl, err := vh.ListenSeeder(T, fmt.Sprintf("pseed%d", i), fmt.Sprintf("127.0.0.%d", 20+i), p.tor, &vh.SeederPolicy{BlockDelay: 300 * time.Microsecond}, nil)
		fatal(err)
		p.seedAdr = pl.Addr.String()
		tors = append(tors, p)
	}
	for round := 0; time.Now().Before(deadline); round++ {
		resMu.Lock()
		res.Rounds = round + 1
		resMu.Unlock()
		phHistory(round, rng, tors)
	}
	resMu.Lock()
	res.ElapsedMs = time.Since(t0).Milliseconds()
	resMu.Unlock()
}

func phHistory(round int, rng *rand.Rand, tors []*phTor) {
	env := &phEnv{}
	prov := vh.NewMemProvider(T)
	prov.Quiet = true
	prov.SetHook(env.hook)
	tiny := []time.Duration{time.Nanosecond, 20 * time.Microsecond, time.Millisecond}
	minIv := tiny[rng.Intn(len(tiny))]
	cfgTweak = func(cfg *torrent.Config) {
		cfg.CustomStorage = prov
		cfg.DHTMinAnnounceInterval = minIv
		cfg.DHTAnnounceInterval = 5 * minIv
		cfg.TrackerStopTimeout = 100 * time.Millisecond
	}
	hT0 := time.Now()
	s, _ := newSession(fmt.Sprintf("h%d", round), 5*time.Millisecond, false, true)
	cfgTweak = nil
	if phDebug {
		fmt.Fprintf(os.Stderr, "round %d NewSession took %v\n", round, time.Since(hT0))
		defer func() { fmt.Fprintf(os.Stderr, "round %d took %v\n", round, time.Since(hT0)) }()
	}
	closed := false

	add := func(p *phTor, id, data string) *phHandle {
		prov.Truth[id] = p.tor
		st := prov.Store(id)
		switch data {
		case "full":
			st.Fill(p.tor)
		case "part": // the second half of every other file is not there yet
			st.Fill(p.tor)
			for i, name := range st.Names() {
				if i%2 == 0 {
					b := append([]byte(nil), st.FileBytes(name)...)
					for j := len(b) / 2; j < len(b); j++ {
						b[j] = 0
					}
					st.Put(name, b)
				}
			}
		}
		h := &phHandle{p: p, id: id}
		call(slotMain, "Session.AddTorrent", func() error {
			t, err := s.AddTorrent(bytes.NewReader(p.tor.Bytes), &torrent.AddTorrentOptions{ID: id, Stopped: true})
			if err == nil {
				h.t = t
				_ = t.AddPeer(p.seedAdr)
			}
			return err
		})
		if h.t == nil {
			fatal(fmt.Errorf("phases: AddTorrent %s failed", id))
		}
		return h
	}
	datas := []string{"full", "full", "part", "none"}
	nadd := 0
	newHandle := func(p *phTor) *phHandle {
		nadd++
		return add(p, fmt.Sprintf("r%d-%d", round, nadd), datas[rng.Intn(len(datas))])
	}
	x := newHandle(tors[rng.Intn(2)]) // the torrent whose phases are gated
	y := add(tors[2], fmt.Sprintf("r%d-y", round), "full")

	status := func(h *phHandle) torrent.Status {
		var st torrent.Stats
		call(slotProbe, "Torrent.Stats", func() error { st = h.t.Stats(); return nil })
		return st.Status
	}
	waitStatus := func(h *phHandle, max time.Duration, want ...torrent.Status) bool {
		end := time.Now().Add(max)
		var last torrent.Status = -1
		for {
			st := status(h)
			if phDebug && st != last {
				fmt.Fprintf(os.Stderr, "      %s: %v\n", h.id, st)
				last = st
			}
			for _, w := range want {
				if st == w {
					return true
				}
			}
			if time.Now().After(end) {
				if phDebug {
					sx := h.t.Stats()
					fmt.Fprintf(os.Stderr, "   waitStatus %s failed: status %v err %v checked %d/%d\n", h.id, sx.Status, sx.Error, sx.Pieces.Checked, sx.Pieces.Total)
				}
				return false
			}
			time.Sleep(300 * time.Microsecond)
		}
	}

	// a torrent that is Stopping becomes Stopped within TrackerStopTimeout; then it can be started
	ensureStarted := func(h *phHandle, verify bool) {
		st := status(h)
		if st == torrent.Stopping {
			waitStatus(h, time.Second, torrent.Stopped)
			st = torrent.Stopped
		}
		if st == torrent.Stopped {
			call(slotProbe, "Torrent.Start", func() error { return h.t.Start() })
		} else if verify {
			call(slotProbe, "Torrent.Verify", func() error { return h.t.Verify() })
		}
	}
	type cmd struct {
		name string
		f    func(h *phHandle) error
	}
	cmds := []cmd{
		{"Torrent.Stop", func(h *phHandle) error { return h.t.Stop() }},
		{"Torrent.Stop", func(h *phHandle) error { return h.t.Stop() }},
		{"Torrent.Verify", func(h *phHandle) error { return h.t.Verify() }},
		{"Torrent.Start", func(h *phHandle) error { return h.t.Start() }},
		{"Torrent.Stats", func(h *phHandle) error { _ = h.t.Stats(); return nil }},
		{"Torrent.Peers", func(h *phHandle) error { _ = h.t.Peers(); return nil }},
		{"Torrent.Trackers", func(h *phHandle) error { _ = h.t.Trackers(); return nil }},
		{"Torrent.Announce", func(h *phHandle) error { h.t.Announce(); return nil }},
		{"Torrent.AddPeer", func(h *phHandle) error { return h.t.AddPeer(h.p.seedAdr) }},
		{"Session.StopAll", func(h *phHandle) error { return s.StopAll() }},
		{"Session.StartAll", func(h *phHandle) error { return s.StartAll() }},
		{"Session.RemoveTorrent", func(h *phHandle) error { return s.RemoveTorrent(h.id, true) }},
		{"Session.Close", func(h *phHandle) error { closed = true; return s.Close() }},
	}
	kinds := []string{"alloc", "verify", "verify", "run", "run", "flap"}
	nsteps := 3 + rng.Intn(4)
	for i := 0; i < nsteps && !closed && time.Now().Before(deadline); i++ {
		kind := kinds[rng.Intn(len(kinds))]
		c := cmds[rng.Intn(len(cmds))]
		if c.name == "Session.Close" && i < nsteps-1 && rng.Intn(3) != 0 {
			c = cmds[0]
		}
		env.delayNs.Store(int64([]int{0, 0, 50, 100}[rng.Intn(4)]) * 1000)
		stepT0 := time.Now()
		if phDebug {
			fmt.Fprintf(os.Stderr, "round %d step %d %s %s x=%s/%s\n", round, i, kind, c.name, x.id, x.p.tor.Name)
		}
		switch kind {
		case "alloc", "verify":
			g := &phGate{tid: x.id, op: "open", k: 1 + rng.Int63n(int64(x.p.nfiles)), reached: make(chan struct{}), release: make(chan struct{})}
			if kind == "verify" {
				g.op, g.k = "read", 1+rng.Int63n(int64(x.p.tor.NumPieces-1))
			}
			env.gate.Store(g)
			// drive the torrent into the phase: Start from Stopped, otherwise Verify (stop, then allocate and verify again)
			ensureStarted(x, true)
			hit := false
			select {
			case <-g.reached:
				hit = true
			case <-time.After(800 * time.Millisecond): // e.g. no existing data: nothing to verify
			}
			hm := stat("phase." + kind + map[bool]string{true: ".hit", false: ".miss"}[hit])
			atomic.AddInt64(&hm.N, 1)
			atomic.AddInt64(&hm.Ret, 1)
			done := make(chan struct{})
			go func() {
				defer close(done)
				call(slotCmd, c.name, func() error { return c.f(x) })
			}()
			time.Sleep(time.Duration(200+rng.Intn(2500)) * time.Microsecond) // the loop receives the command while the helper is held
			env.gate.Store(nil)
			close(g.release)
			<-done
		case "run":
			// (a manual verification ends in Stopped: start again then)
			for a := 0; a < 3; a++ {
				ensureStarted(x, false)
				waitStatus(x, 2*time.Second, torrent.Downloading, torrent.Seeding, torrent.Stopped)
				if status(x) != torrent.Stopped {
					break
				}
			}
			time.Sleep(time.Duration(rng.Intn(3000)) * time.Microsecond)
			call(slotCmd, c.name, func() error { return c.f(x) })
		case "flap":
			n := 3 + rng.Intn(6)
			for j := 0; j < n && time.Now().Before(deadline); j++ {
				call(slotCmd, "Torrent.Start", func() error { return y.t.Start() })
				if !waitStatus(y, time.Second, torrent.Downloading, torrent.Seeding, torrent.Stopped) || status(y) == torrent.Stopped {
					continue // a manual verification ends in Stopped
				}
				time.Sleep(time.Duration(rng.Intn(2000)) * time.Microsecond)
				if rng.Intn(4) == 0 {
					call(slotCmd, "Torrent.Verify", func() error { return y.t.Verify() })
				} else {
					call(slotCmd, "Torrent.Stop", func() error { return y.t.Stop() })
				}
				if rng.Intn(3) != 0 {
					waitStatus(y, time.Second, torrent.Stopped)
				}
			}
			c = cmd{name: "-"}
		}
		if phDebug {
			fmt.Fprintf(os.Stderr, "   took %v\n", time.Since(stepT0))
		}
		if closed {
			break
		}
		// every later call on the torrents must still return
		if c.name == "Session.RemoveTorrent" {
			x = newHandle(x.p)
		}
		status(x)
		status(y)
	}
	if !closed {
		cT0 := time.Now()
		call(slotMain, "Session.Close", func() error { return s.Close() })
		if phDebug {
			fmt.Fprintf(os.Stderr, "   Close took %v\n", time.Since(cT0))
		}
	}
	if n := env.overheld.Load(); n > 0 {
		phNote(fmt.Sprintf("round %d: %d gate(s) released by the 3 s guard", round, n))
	}
}
