// Command xfer runs download scenarios (real leeching torrent.Session, recording in-memory storage,
// scripted peers / web seeds with adversarial policies, stop/start at gated points, injected disk-write faults,
// magnet start (ut_metadata) into empty or pre-filled storage, damage + Verify + Start after completion) and
// records the abstract event trace judged by Trace_Transfer.tla (properties C01 and C10).
//
//	xfer run -scenarios s.ndjson -out trace.ndjson     (child: prints "BEGIN <id>" / "END <id>" markers)
package main

import (
	"bufio"
	"bytes"
	"encoding/hex"
	"encoding/json"
	"errors"
	"flag"
	"fmt"
	"math/rand"
	"net"
	"os"
	"path/filepath"
	"strconv"
	"strings"
	"sync"
	"sync/atomic"
	"time"

	"github.com/cenkalti/rain/v2/internal/verif/vh"
	"github.com/cenkalti/rain/v2/torrent"
	"go.etcd.io/bbolt"
)

type PeerSpec struct {
	Name        string `json:"name"`
	IP          string `json:"ip"`
	Policy      string `json:"policy"`
	K           int    `json:"k"`
	Have        string `json:"have"`
	JoinAfterMs int    `json:"joinAfterMs"`
	Listen      bool   `json:"listen"`
	NoFast      bool   `json:"noFast"`
	Sole        bool   `json:"sole"` // connected alone first; ban expected for corrupting policies
	// Meta (magnet scenarios): "" = offers ut_metadata and serves it, "no" = does not offer it,
	// "stall" = offers it (metadata_size advertised), receives the requests and never answers, stays connected
	Meta string `json:"meta"`
	// Trigger "dropstallers" (honest peers): when this peer is asked for a piece that a stalling peer holds (end-game duplicate),
	// every stalling peer holding ANOTHER piece hangs up before this peer answers: that piece loses its only downloader while
	// the honest peer is busy
	Trigger string `json:"trigger"`
}

type WsSpec struct {
	Policy string `json:"policy"`
	K      int    `json:"k"`
}

type Timing struct {
	When string `json:"when"` // "write-enter"
	N    int    `json:"n"`
	Do   string `json:"do"` // "stopstart" | "fail" (the N-th storage write returns an I/O error; Start again after the torrent stopped) | "slow" (every write takes N ms)
}

type Scenario struct {
	ID        int        `json:"id"`
	Layout    string     `json:"layout"`
	Unit      int        `json:"unit"`
	Seq       bool       `json:"seq"`
	Peers     []PeerSpec `json:"peers"`
	Webseeds  []WsSpec   `json:"webseeds"`
	Timing    []Timing   `json:"timing"`
	TimeoutMs int        `json:"timeoutMs"`
	Honest    bool       `json:"honest"` // an honest full source stays reachable: completion is expected (C10)
	Seed      int64      `json:"seed"`
	Endgame   int        `json:"endgame"`
	// RequestsOut > 0: Config.DefaultRequestsOut = MaxRequestsOut = RequestsOut (length of the request pipeline per peer)
	RequestsOut int `json:"requestsOut"`
	// BadHashPiece >= 0: the recorded SHA-1 of that piece is altered at byte BadHashPos; honest data must be refused for it
	BadHashPiece int `json:"badHashPiece"`
	BadHashPos   int `json:"badHashPos"`
	BadHash      bool `json:"badHash"`
	// Magnet: the torrent is added with Session.AddURI(magnet link); peers serve the metadata (ut_metadata)
	Magnet bool `json:"magnet"`
	// Prefill: content of the torrent's storage before it is added: "" / "none" (empty), "partial" (first half of the pieces
	// right, the rest foreign bytes), "onebad" (all right but one piece), "full", "zeros" (files exist, all zero),
	// "somefiles" (every second file present and right, the others absent), "longer" (right content followed by foreign bytes in
	// every second file, data in zero-length files), "longerbad" (as partial, plus tails), "shorter" (right content, files cut short)
	Prefill string `json:"prefill"`
	// After: "damage_verify_start" = after completion: Stop, damage piece DamagePiece in storage, Verify, Start;
	// the piece must be found missing and fetched again (completion expected a second time)
	// "lose_files_start" = after completion: Stop, files LoseFiles ("first" | "last" | "alternate" | "allbutfirst" | "all") disappear
	// from the storage, Start: nothing of the vanished files may be claimed; completion expected again
	After       string `json:"after"`
	DamagePiece int    `json:"damagePiece"`
	LoseFiles   string `json:"loseFiles"`
	// RealFS: the session's own file storage on a real directory (no recording storage: writes are not observed, files are compared)
	RealFS bool `json:"realfs"`
	// WsMax > 0: Config.WebseedMaxDownloads
	WsMax int `json:"wsMax"`
}

var (
	T   *vh.Tracer
	hub *vh.SnapHub
)

// stallReg records which piece every stalling peer of the running scenario holds (the piece of the first request it swallowed).
type stallReg struct {
	mu    sync.Mutex
	held  map[*vh.Seeder]int
	fired bool
}

var stalls = &stallReg{held: map[*vh.Seeder]int{}}

func (g *stallReg) hold(s *vh.Seeder, piece int) {
	g.mu.Lock()
	if _, ok := g.held[s]; !ok {
		g.held[s] = piece
		T.Emit(vh.Ev{"ev": "stallhold", "conn": s.Name, "piece": piece})
	}
	g.mu.Unlock()
}

func (g *stallReg) count() int {
	g.mu.Lock()
	defer g.mu.Unlock()
	return len(g.held)
}

// honestAsked: an honest peer is asked for piece idx. If a stalling peer holds idx (this is an end-game duplicate), the stalling
// peers holding other pieces hang up now, and the honest peer takes a moment before it answers.
func (g *stallReg) honestAsked(idx int) {
	g.mu.Lock()
	if g.fired {
		g.mu.Unlock()
		return
	}
	dup := false
	var victims []*vh.Seeder
	for s, p := range g.held {
		if p == idx {
			dup = true
		} else {
			victims = append(victims, s)
		}
	}
	if !dup || len(victims) == 0 {
		g.mu.Unlock()
		return
	}
	g.fired = true
	g.mu.Unlock()
	for _, v := range victims {
		T.Emit(vh.Ev{"ev": "drop", "conn": v.Name, "dup": idx})
		v.Close()
	}
	time.Sleep(300 * time.Millisecond)
}

func layoutByName(name string, unit int) (vh.Layout, bool) {
	for _, l := range vh.StdLayouts(unit) {
		if l.Name == name {
			return l, true
		}
	}
	if name == "padwhole" {
		return vh.PadWholeLayout(unit), true
	}
	// "many<N>" / "manymulti<N>" / "manyfiles<N>": N full pieces of 16*unit bytes (256 KiB for unit 16384) plus a short last piece, so that a
	// web-seed request (5% of the pieces) spans several pieces; the multi-file form has file boundaries inside pieces.
	for _, pre := range []string{"manyfiles", "manymulti", "many"} {
		if !strings.HasPrefix(name, pre) {
			continue
		}
		n, err := strconv.Atoi(name[len(pre):])
		if err != nil || n < 2 || n > 400 {
			return vh.Layout{}, false
		}
		pl := int64(16 * unit)
		total := int64(n)*pl + 777
		if pre == "many" {
			return vh.Layout{Name: name, PieceLen: int(pl), Files: []vh.FileSpec{{Length: total}}}, true
		}
		if pre == "manyfiles" { // a file boundary inside (almost) every web-seed range: files of about one and a half pieces
			files := []vh.FileSpec{}
			for rest, i := total, 0; rest > 0; i++ {
				ln := min(rest, pl+pl/2+int64(i%7)*13)
				files = append(files, vh.FileSpec{Path: []string{fmt.Sprintf("d%d", i%3), fmt.Sprintf("f%03d.bin", i)}, Length: ln})
				rest -= ln
			}
			return vh.Layout{Name: name, PieceLen: int(pl), Files: files}, true
		}
		parts := []int64{total * 3 / 10, total / 10, 1, total / 4}
		files := []vh.FileSpec{}
		rest := total
		for i, ln := range parts {
			ln += int64(i) * 1013 // boundaries inside pieces
			files = append(files, vh.FileSpec{Path: []string{fmt.Sprintf("f%d.bin", i)}, Length: ln})
			rest -= ln
		}
		files = append(files, vh.FileSpec{Path: []string{"sub", "last.bin"}, Length: rest})
		return vh.Layout{Name: name, PieceLen: int(pl), Files: files}, true
	}
	return vh.Layout{}, false
}

// prefill stores a (partly right, partly wrong) copy of the torrent's files before the torrent is added.
func prefill(st store, tor *vh.Torrent, mode string, seed int64) {
	if mode == "" || mode == "none" {
		return
	}
	rng := rand.New(rand.NewSource(seed ^ 0x5eed))
	np := tor.NumPieces
	wrong := func(i int) bool { return false }
	switch mode {
	case "partial", "longerbad":
		wrong = func(i int) bool { return i >= (np+1)/2 }
	case "onebad":
		k := rng.Intn(np)
		wrong = func(i int) bool { return i == k }
	case "zeros":
		wrong = func(i int) bool { return true }
	}
	flat := append([]byte(nil), tor.Data...)
	for i := 0; i < np; i++ {
		if !wrong(i) {
			continue
		}
		seg := flat[int64(i)*int64(tor.PieceLen) : int64(i)*int64(tor.PieceLen)+int64(tor.PieceLenOf(i))]
		for j := range seg {
			if mode == "zeros" {
				seg[j] = 0
			} else {
				seg[j] ^= byte(1 + rng.Intn(255))
			}
		}
	}
	nf := 0
	for fi, f := range tor.Files {
		if f.Pad {
			continue
		}
		nf++
		if mode == "somefiles" && nf%2 == 0 {
			continue
		}
		d := append([]byte(nil), flat[tor.FileStart(fi):tor.FileStart(fi)+f.Length]...)
		switch {
		case (mode == "longer" || mode == "longerbad") && (nf%2 == 1 || f.Length == 0): // an older / bigger version of the file
			tail := make([]byte, 1+rng.Intn(5000))
			rng.Read(tail)
			d = append(d, tail...)
		case mode == "shorter" && len(d) > 1:
			d = d[:len(d)-1-rng.Intn(min(len(d)-1, 3000))]
		}
		st.Put(tor.StoragePath(fi), d)
	}
}

// damage flips bytes of piece p in storage (while the torrent is stopped); returns false if the piece has no stored byte.
func damage(st store, tor *vh.Torrent, p int) bool {
	ps := int64(p) * int64(tor.PieceLen)
	pe := ps + int64(tor.PieceLenOf(p))
	done := false
	for fi, f := range tor.Files {
		if f.Pad {
			continue
		}
		lo, hi := max(ps, tor.FileStart(fi)), min(pe, tor.FileStart(fi)+f.Length)
		if lo >= hi {
			continue
		}
		d := st.FileBytes(tor.StoragePath(fi))
		if d == nil {
			continue
		}
		a := lo - tor.FileStart(fi)
		if a < int64(len(d)) {
			d[a] ^= 0x3c
			d[min(int64(len(d)), hi-tor.FileStart(fi))-1] ^= 0xc3
			st.Put(tor.StoragePath(fi), d)
			done = true
		}
	}
	return done
}

func haveFn(kind string, n int) func(int) bool {
	switch kind {
	case "evens":
		return func(i int) bool { return i%2 == 0 }
	case "odds":
		return func(i int) bool { return i%2 == 1 }
	case "firsthalf":
		return func(i int) bool { return i < (n+1)/2 }
	case "none":
		return func(i int) bool { return false }
	}
	return nil
}

// policy builds the SeederPolicy for a peer spec. sentBad records that a corrupt block was put on the wire.
func policy(ps PeerSpec, tor *vh.Torrent, sentBad *atomic.Int64, magnet bool) *vh.SeederPolicy {
	pol := &vh.SeederPolicy{Have: haveFn(ps.Have, tor.NumPieces), NoFast: ps.NoFast}
	if magnet && ps.Meta != "no" {
		pol.Metadata = true
		if ps.Meta == "stall" { // the requests are read and never answered; the connection stays open
			pol.OnMsg = func(s *vh.Seeder, m vh.Msg) bool {
				if m.ID == vh.MsgExtended && m.ExtID != 0 {
					T.Emit(vh.Ev{"ev": "metastall", "conn": s.Name})
					return true
				}
				return false
			}
		}
	}
	if ps.Policy == "afreject" {
		pol.NoFast = false
		pol.NoUnchoke = true
		for i := 0; i < tor.NumPieces && i < 2+ps.K%3; i++ {
			pol.AllowedFast = append(pol.AllowedFast, (i*5+ps.K)%tor.NumPieces)
		}
	}
	if ps.Policy == "afreject" {
		// a (redundant) have after the allowed-fast messages makes the client look at the peer again while it is choked; whatever
		// happens the peer unchokes after half a second at the latest: it stays an honest, reachable source
		var once sync.Once
		pol.OnMsg = func(s *vh.Seeder, m vh.Msg) bool {
			if m.ID == vh.MsgInterested {
				once.Do(func() {
					s.Send(vh.Msg{ID: vh.MsgHave, Index: uint32(pol.AllowedFast[0])})
					go func() {
						time.Sleep(500 * time.Millisecond)
						if s.Choking.CompareAndSwap(true, false) {
							s.Send(vh.Msg{ID: vh.MsgUnchoke})
						}
					}()
				})
			}
			return false
		}
	}
	var mu sync.Mutex
	served := 0
	cycChoking := false
	var held []vh.Msg
	corruptMsg := func(s *vh.Seeder, req vh.Msg) vh.Msg {
		m := s.HonestPiece(req)
		if len(m.Data) > 0 {
			m.Data[len(m.Data)/2] ^= 0xff
		}
		sentBad.Add(1)
		T.Emit(vh.Ev{"ev": "badblock", "conn": s.Name, "index": req.Index, "begin": req.Begin})
		return m
	}
	valid := func(s *vh.Seeder, m vh.Msg) bool {
		return int(m.Index) < tor.NumPieces && (pol.Have == nil || pol.Have(int(m.Index))) && int(m.Begin)+int(m.Length) <= tor.PieceLenOf(int(m.Index)) && m.Length > 0
	}
	pol.Reply = func(s *vh.Seeder, req vh.Msg) ([]vh.Msg, bool) {
		if !valid(s, req) {
			return nil, false
		}
		if ps.Trigger == "dropstallers" {
			stalls.honestAsked(int(req.Index))
		}
		mu.Lock()
		defer mu.Unlock()
		served++
		switch ps.Policy {
		case "corrupt":
			if served == ps.K || ps.K == 0 {
				return []vh.Msg{corruptMsg(s, req)}, true
			}
		case "corruptclose": // corrupt the last block of a piece and hang up at once: the ban must not depend on the peer staying
			if int(req.Begin)+int(req.Length) >= tor.PieceLenOf(int(req.Index)) || int(req.Begin)+int(req.Length) >= tor.NonPadLen(int(req.Index)) {
				m := corruptMsg(s, req)
				s.Send(m)
				s.Close()
				return nil, true
			}
		case "wrongpiece":
			if served == ps.K || ps.K == 0 {
				m := s.HonestPiece(req)
				other := tor.PieceData((int(req.Index) + 1) % tor.NumPieces)
				if tor.NumPieces == 1 {
					other = make([]byte, len(m.Data))
				}
				for i := range m.Data {
					m.Data[i] = other[(int(req.Begin)+i)%len(other)] ^ 0x01
				}
				sentBad.Add(1)
				T.Emit(vh.Ev{"ev": "badblock", "conn": s.Name, "index": req.Index, "begin": req.Begin})
				return []vh.Msg{m}, true
			}
		case "dup": // good block, then a duplicate carrying different bytes: must be ignored
			good := s.HonestPiece(req)
			bad := s.HonestPiece(req)
			bad.Data[0] ^= 0xff
			return []vh.Msg{good, bad}, true
		case "unreq": // a block of a piece that was not requested from this peer, with bad bytes, before the answer
			oi := (int(req.Index) + 1) % tor.NumPieces
			n := min(16384, tor.PieceLenOf(oi))
			junk := vh.Msg{ID: vh.MsgPiece, Index: uint32(oi), Begin: 0, Data: bytes.Repeat([]byte{0x77}, n)}
			return []vh.Msg{junk, s.HonestPiece(req)}, true
		case "oob": // out-of-range piece index
			if served == max(ps.K, 1) {
				return []vh.Msg{{ID: vh.MsgPiece, Index: uint32(tor.NumPieces + 3), Begin: 0, Data: make([]byte, 16)}}, true
			}
		case "oobbegin":
			if served == max(ps.K, 1) {
				return []vh.Msg{{ID: vh.MsgPiece, Index: req.Index, Begin: req.Begin + 1, Data: make([]byte, req.Length)}}, true
			}
		case "trunc":
			if served == max(ps.K, 1) {
				m := s.HonestPiece(req)
				if len(m.Data) > 1 {
					m.Data = m.Data[:len(m.Data)-1]
				}
				return []vh.Msg{m}, true
			}
		case "reverse":
			held = append(held, s.HonestPiece(req))
			nb := (tor.NonPadLen(int(req.Index)) + 16383) / 16384
			if len(held) >= min(nb, 4) {
				out := make([]vh.Msg, 0, len(held))
				for i := len(held) - 1; i >= 0; i-- {
					out = append(out, held[i])
				}
				held = nil
				return out, true
			}
			return nil, true
		case "chokedeliver": // choke with blocks in flight, still deliver them, then unchoke (an honest peer may do that)
			if served == max(ps.K, 1) {
				s.Send(vh.Msg{ID: vh.MsgChoke})
				go func() {
					time.Sleep(60 * time.Millisecond)
					s.Send(vh.Msg{ID: vh.MsgUnchoke})
				}()
			}
			return nil, false
		case "afreject": // fast extension: allowed-fast pieces offered while choking, the first K requests are rejected, then unchoke
			if s.Choking.Load() {
				if served >= max(ps.K, 1) {
					s.Send(vh.Msg{ID: vh.MsgReject, Index: req.Index, Begin: req.Begin, Length: req.Length})
					if s.Choking.CompareAndSwap(true, false) {
						s.Send(vh.Msg{ID: vh.MsgUnchoke})
					}
					return nil, true
				}
				return []vh.Msg{{ID: vh.MsgReject, Index: req.Index, Begin: req.Begin, Length: req.Length}}, true
			}
			return nil, false
		case "chokecycle": // as chokedeliver, again and again: every K-th request is answered only after a choke, then unchoke
			// the request that made it choke is still answered (it was on its way out), the ones arriving while it chokes are
			// discarded, as a choking peer may do
			if cycChoking {
				return nil, true
			}
			if served%max(ps.K, 1) == 0 {
				cycChoking = true
				s.Send(vh.Msg{ID: vh.MsgChoke})
				go func() {
					time.Sleep(25 * time.Millisecond)
					mu.Lock()
					cycChoking = false
					mu.Unlock()
					s.Send(vh.Msg{ID: vh.MsgUnchoke})
				}()
			}
			return nil, false
		case "chokeafter":
			if served == max(ps.K, 1) {
				go func() {
					s.Send(vh.Msg{ID: vh.MsgChoke})
					time.Sleep(80 * time.Millisecond)
					s.Send(vh.Msg{ID: vh.MsgUnchoke})
				}()
				return nil, true // the request is dropped, as a choking peer may do
			}
		case "stall":
			if served >= max(ps.K, 1) {
				stalls.hold(s, int(req.Index))
				return nil, true
			}
		case "disconnect":
			if served == max(ps.K, 1) {
				go s.Close()
				return nil, true
			}
		}
		return nil, false
	}
	return pol
}

type runner struct {
	sc    Scenario
	tor   *vh.Torrent
	prov  *vh.MemProvider
	st    store // the torrent's storage as the harness sees it (recording memory storage or real directory)
	sess  *torrent.Session
	tr    *torrent.Torrent
	id    string
	seeds []*vh.Seeder
	lsn   []*vh.PeerListener
	ws    []*vh.WebSeed
	mu    sync.Mutex
}

func (r *runner) addr() string { return fmt.Sprintf("127.0.0.1:%d", r.tr.Port()) }

func (r *runner) connect(ps PeerSpec, sentBad *atomic.Int64) *vh.Seeder {
	pol := policy(ps, r.tor, sentBad, r.sc.Magnet)
	if ps.Listen {
		ch := make(chan *vh.Seeder, 4)
		l, err := vh.ListenSeeder(T, ps.Name, ps.IP, r.tor, pol, func(s *vh.Seeder) {
			select {
			case ch <- s:
			default:
			}
		})
		if err != nil {
			T.Emit(vh.Ev{"ev": "harness", "what": "listen-failed", "err": err.Error()})
			return nil
		}
		r.lsn = append(r.lsn, l)
		r.tr.AddPeer(l.Addr.String())
		select {
		case s := <-ch:
			return s
		case <-time.After(4 * time.Second):
			T.Emit(vh.Ev{"ev": "harness", "what": "not-dialled", "conn": ps.Name})
			return nil
		}
	}
	s, err := vh.ConnectSeeder(T, ps.Name, ps.IP, r.addr(), r.tor, pol)
	if err != nil {
		T.Emit(vh.Ev{"ev": "conn", "conn": ps.Name, "what": "refused", "ip": ps.IP, "err": err.Error()})
		return nil
	}
	return s
}

func (r *runner) statsEvent() {
	st := r.tr.Stats()
	T.Emit(vh.Ev{"ev": "stats", "status": st.Status.String(), "have": int(st.Pieces.Have), "completed": st.Bytes.Completed, "total": st.Bytes.Total,
		"missing": int(st.Pieces.Missing), "incomplete": st.Bytes.Incomplete})
}

func readResume(db string, id string) (bits []int, found bool, err error) {
	d, err := bbolt.Open(db, 0o600, &bbolt.Options{ReadOnly: true, Timeout: 2 * time.Second})
	if err != nil {
		return nil, false, err
	}
	defer d.Close()
	bits = []int{}
	err = d.View(func(tx *bbolt.Tx) error {
		b := tx.Bucket([]byte("torrents"))
		if b == nil {
			return nil
		}
		tb := b.Bucket([]byte(id))
		if tb == nil {
			return nil
		}
		v := tb.Get([]byte("bitfield"))
		if v == nil {
			return nil
		}
		found = true
		for i := 0; i < len(v)*8; i++ {
			if v[i/8]&(1<<(7-uint(i%8))) != 0 {
				bits = append(bits, i)
			}
		}
		return nil
	})
	return
}

func run(sc Scenario, dir string) {
	lay, ok := layoutByName(sc.Layout, sc.Unit)
	if !ok {
		return
	}
	r := &runner{sc: sc}
	T.Trace = sc.ID
	stalls = &stallReg{held: map[*vh.Seeder]int{}}
	// web seeds first: their URLs go into the metainfo
	var wsurls []string
	var wss []*vh.WebSeed
	tmp := vh.Build(lay, sc.Seed, nil, nil)
	for i, w := range sc.Webseeds {
		s, err := vh.StartWebSeed(T, fmt.Sprintf("ws%d", i+1), tmp)
		if err != nil {
			panic(err)
		}
		switch w.Policy {
		case "corrupt":
			k := int64(w.K)
			s.Corrupt = func(off int64) bool { return off == k }
		case "stale": // an outdated copy: same names and sizes, every piece differs from the torrent's content
			s.Corrupt = func(off int64) bool { return off%4096 == 11 }
		case "error":
			k := w.K
			s.Status = func(n int) int {
				if n >= k {
					return 503
				}
				return 0
			}
		case "slow":
			s.Delay = 30 * time.Millisecond
		}
		wss = append(wss, s)
		wsurls = append(wsurls, s.URL())
	}
	r.ws = wss
	r.tor = vh.Build(lay, sc.Seed, nil, wsurls)
	if sc.BadHash {
		r.tor = vh.BreakHash(lay, sc.Seed, nil, wsurls, sc.BadHashPiece, sc.BadHashPos)
	}
	for _, s := range wss {
		s.Tor = r.tor
	}
	tmp = nil
	tor := r.tor
	cfg, err := vh.BaseConfig(dir, 8)
	if err != nil {
		panic(err)
	}
	os.Remove(cfg.Database)
	r.prov = vh.NewMemProvider(T)
	r.prov.Truth[""] = tor
	r.prov.Quiet = true
	if !sc.RealFS {
		cfg.CustomStorage = r.prov
	}
	if sc.WsMax > 0 {
		cfg.WebseedMaxDownloads = sc.WsMax
	}
	cfg.RequestTimeout = 1200 * time.Millisecond
	if sc.RequestsOut > 0 {
		cfg.DefaultRequestsOut = sc.RequestsOut
		cfg.MaxRequestsOut = sc.RequestsOut
	}
	// The body-read timer of a web-seed download keeps running while the downloader waits to hand over a piece (result channel
	// suspended during a piece write); on a loaded machine a write into the recording storage can take seconds, the source would be
	// disabled for a minute and the bounded-time completion judgement would blame the client for the harness's slowness.
	cfg.WebseedResponseBodyReadTimeout = 30 * time.Second
	cfg.WebseedResponseHeaderTimeout = 15 * time.Second
	cfg.WebseedDialTimeout = 10 * time.Second
	if sc.Endgame > 0 {
		cfg.EndgameMaxDuplicateDownloads = sc.Endgame
	}
	// the storage may hold a (partly right) copy before the torrent is added; the id is chosen here so that it can be filled first
	r.id = fmt.Sprintf("xf%d", sc.ID)
	r.st = r.prov.Store(r.id)
	if sc.RealFS {
		r.st = &fsStore{root: filepath.Join(cfg.DataDir, r.id)}
		os.RemoveAll(filepath.Join(cfg.DataDir, r.id))
	}
	prefill(r.st, tor, sc.Prefill, sc.Seed)
	npl := make([]int, tor.NumPieces)
	plen := make([]int, tor.NumPieces)
	good0 := []int{}
	cls0 := r.st.PieceClasses(tor)
	for i := range npl {
		npl[i] = tor.NonPadLen(i)
		plen[i] = tor.PieceLenOf(i)
		if sc.Prefill != "" && sc.Prefill != "none" && npl[i] > 0 && cls0[i] == "good" {
			good0 = append(good0, i)
		}
	}
	peers := []vh.Ev{}
	for _, p := range sc.Peers {
		peers = append(peers, vh.Ev{"name": p.Name, "ip": p.IP, "policy": p.Policy, "have": p.Have, "sole": p.Sole})
	}
	T.Emit(vh.Ev{"ev": "init", "np": tor.NumPieces, "nonpad": npl, "plen": plen, "layout": sc.Layout, "unit": sc.Unit, "seq": sc.Seq,
		"peers": peers, "nws": len(sc.Webseeds), "honest": sc.Honest, "total": tor.Total, "magnet": sc.Magnet, "prefill": sc.Prefill, "good0": good0, "realfs": sc.RealFS})

	var sentBad atomic.Int64
	// timing gates
	var writeN atomic.Int64
	gate := make(chan struct{})
	var gateArmed atomic.Bool
	var gated atomic.Bool
	var faulted atomic.Bool
	for _, tm := range sc.Timing {
		if tm.When == "write-enter" && tm.Do == "slow" { // slow disk: every storage write takes N ms (the piece buffer is in use that long)
			d := time.Duration(tm.N) * time.Millisecond
			r.prov.SetHook(func(phase, op, tid, name string, off int64, ln int) error {
				if phase == "enter" && op == "write" {
					time.Sleep(d)
				}
				return nil
			})
		} else if tm.When == "write-enter" && tm.Do == "fail" {
			n := int64(tm.N)
			r.prov.SetHook(func(phase, op, tid, name string, off int64, ln int) error {
				if phase == "enter" && op == "write" && writeN.Add(1) == n {
					faulted.Store(true)
					T.Emit(vh.Ev{"ev": "gate", "what": "write-fault", "file": name, "off": off, "len": ln})
					return errors.New("verif: injected I/O error (no space left on device)")
				}
				return nil
			})
		} else if tm.When == "write-enter" {
			n := int64(tm.N)
			gateArmed.Store(true)
			r.prov.SetHook(func(phase, op, tid, name string, off int64, ln int) error {
				if phase == "enter" && op == "write" && gateArmed.Load() {
					if writeN.Add(1) == n {
						gated.Store(true)
						T.Emit(vh.Ev{"ev": "gate", "what": "write-blocked"})
						select {
						case <-gate:
						case <-time.After(10 * time.Second):
						}
						T.Emit(vh.Ev{"ev": "gate", "what": "write-released"})
					}
				}
				return nil
			})
		}
	}

	sess, err := torrent.NewSession(cfg)
	if err != nil {
		panic(err)
	}
	r.sess = sess
	var tr *torrent.Torrent
	opt := &torrent.AddTorrentOptions{ID: r.id, Sequential: sc.Seq}
	if sc.Magnet {
		tr, err = sess.AddURI("magnet:?xt=urn:btih:"+hex.EncodeToString(tor.InfoHash[:]), opt)
	} else {
		tr, err = sess.AddTorrent(bytes.NewReader(tor.Bytes), opt)
	}
	if err != nil {
		T.Emit(vh.Ev{"ev": "harness", "what": "add-failed", "err": err.Error()})
		sess.Close()
		return
	}
	r.tr = tr
	// with existing data the torrent verifies first (Seeding at once if everything is there)
	if !hub.Wait(r.id, 8*time.Second, func(s *torrent.VerifSnap) bool {
		return s.Acceptor && (s.Status == "Downloading" || s.Status == "Downloading Metadata" || s.Status == "Seeding")
	}) {
		T.Emit(vh.Ev{"ev": "harness", "what": "not-downloading"})
	}
	complete := tr.NotifyComplete()
	stopPoll := make(chan struct{})
	var pollWG sync.WaitGroup
	var pollMu sync.Mutex // held while storage is mutated behind the torrent's back: no Stats() in that window
	pollWG.Add(1)
	go func() { // Stats() while transferring: reported numbers are judged too
		defer pollWG.Done()
		tk := time.NewTicker(15 * time.Millisecond)
		defer tk.Stop()
		for {
			select {
			case <-tk.C:
				pollMu.Lock()
				r.statsEvent()
				pollMu.Unlock()
			case <-stopPoll:
				return
			}
		}
	}()

	reconnectHonest := func(suffix string) { // honest sources stay reachable: they connect again after a restart
		for _, ps := range sc.Peers {
			if ps.Policy == "honest" && !ps.Listen {
				ps2 := ps
				ps2.Name = ps.Name + suffix
				if s := r.connect(ps2, &sentBad); s != nil {
					r.mu.Lock()
					r.seeds = append(r.seeds, s)
					r.mu.Unlock()
				}
			}
		}
	}

	// timing actions run concurrently with the peers
	var timWG sync.WaitGroup
	phaseDone := make(chan struct{}) // closed when the first completion wait is over
	for _, tm := range sc.Timing {
		if tm.When == "write-enter" && tm.Do == "fail" {
			timWG.Add(1)
			go func() {
				defer timWG.Done()
				for !faulted.Load() {
					select {
					case <-phaseDone:
						return
					case <-time.After(2 * time.Millisecond):
					}
				}
				// the failed write stops the torrent with the error
				ok := hub.Wait(r.id, 5*time.Second, func(s *torrent.VerifSnap) bool { return s.Status == "Stopped" })
				e := vh.Ev{"ev": "faultstop", "ok": ok}
				if sn := hub.Get(r.id); sn != nil {
					e["lastErr"], e["status"] = sn.LastErr, sn.Status
				}
				T.Emit(e)
				T.Emit(vh.Ev{"ev": "cmd", "op": "start"})
				tr.Start()
				hub.Wait(r.id, 5*time.Second, func(s *torrent.VerifSnap) bool {
					return s.Acceptor && (s.Status == "Downloading" || s.Status == "Seeding")
				})
				T.Emit(vh.Ev{"ev": "cmd", "op": "restarted"})
				time.Sleep(30 * time.Millisecond)
				reconnectHonest("-r")
			}()
		}
		if tm.When == "write-enter" && tm.Do == "stopstart" {
			timWG.Add(1)
			go func() {
				defer timWG.Done()
				dl := time.Now().Add(6 * time.Second)
				for !gated.Load() && time.Now().Before(dl) {
					time.Sleep(2 * time.Millisecond)
				}
				if !gated.Load() {
					gateArmed.Store(false)
					return
				}
				T.Emit(vh.Ev{"ev": "cmd", "op": "stop"})
				tr.Stop()
				hub.Wait(r.id, 3*time.Second, func(s *torrent.VerifSnap) bool { return s.Status == "Stopped" })
				T.Emit(vh.Ev{"ev": "cmd", "op": "start"})
				tr.Start()
				hub.Wait(r.id, 3*time.Second, func(s *torrent.VerifSnap) bool { return s.Status == "Downloading" || s.Status == "Seeding" })
				gateArmed.Store(false)
				close(gate)
				T.Emit(vh.Ev{"ev": "cmd", "op": "restarted"})
				time.Sleep(30 * time.Millisecond)
				reconnectHonest("-r")
			}()
		}
	}

	// sole corrupting peers first, each followed by the ban expectation and a re-dial
	for _, ps := range sc.Peers {
		if !ps.Sole {
			continue
		}
		s := r.connect(ps, &sentBad)
		if s == nil {
			continue
		}
		r.seeds = append(r.seeds, s)
		if ps.Policy == "corrupt" || ps.Policy == "wrongpiece" || ps.Policy == "corruptclose" {
			ip := ps.IP
			banned := hub.Wait(r.id, 6*time.Second, func(sn *torrent.VerifSnap) bool {
				for _, b := range sn.Banned {
					if b == ip {
						return true
					}
				}
				return false
			})
			T.Emit(vh.Ev{"ev": "expect", "what": "ban", "ip": ip, "ok": banned, "sentBad": sentBad.Load()})
			// a banned address must not be accepted again
			nc, err := vh.DialFrom(ip, r.addr(), 2*time.Second)
			if err == nil {
				_, herr := vh.PlainHandshake(nc, tor.InfoHash, vh.PeerID(ps.Name+"-again"), vh.ReservedBits(true, true, false), 1500*time.Millisecond)
				T.Emit(vh.Ev{"ev": "redial", "ip": ip, "accepted": herr == nil})
				nc.Close()
			} else {
				T.Emit(vh.Ev{"ev": "redial", "ip": ip, "accepted": false})
			}
		} else {
			select {
			case <-s.Done():
			case <-time.After(time.Duration(max(ps.JoinAfterMs, 300)) * time.Millisecond):
			}
		}
	}
	var wg sync.WaitGroup
	for _, ps := range sc.Peers {
		if ps.Sole {
			continue
		}
		wg.Add(1)
		go func(ps PeerSpec) {
			defer wg.Done()
			if ps.JoinAfterMs > 0 {
				time.Sleep(time.Duration(ps.JoinAfterMs) * time.Millisecond)
			}
			if ps.Trigger == "dropstallers" { // joins when every stalling peer holds a piece
				n := 0
				for _, q := range sc.Peers {
					if q.Policy == "stall" {
						n++
					}
				}
				for dl := time.Now().Add(5 * time.Second); stalls.count() < n && time.Now().Before(dl); {
					time.Sleep(5 * time.Millisecond)
				}
			}
			if s := r.connect(ps, &sentBad); s != nil {
				r.mu.Lock()
				r.seeds = append(r.seeds, s)
				r.mu.Unlock()
			}
		}(ps)
	}
	wg.Wait()

	to := time.Duration(sc.TimeoutMs) * time.Millisecond
	if to == 0 {
		to = 8 * time.Second
	}
	// completion is awaited until nothing has progressed (pieces had, metadata known) for the scenario's time-out; the total wait
	// is capped at four time-outs. A stuck download is reported after one time-out of silence, a slow one (loaded machine) is not.
	awaitComplete := func(complete <-chan struct{}) bool {
		start := time.Now()
		last := start
		prog := -1
		tk := time.NewTicker(100 * time.Millisecond)
		defer tk.Stop()
		for {
			select {
			case <-complete:
				st := tr.Stats()
				if sc.RealFS { // writes are not observed on the real file system: the files are read when completion is reported
					T.Emit(vh.Ev{"ev": "disk", "class": r.st.PieceClasses(tor)})
				}
				T.Emit(vh.Ev{"ev": "complete", "filesOK": r.st.Complete(tor), "status": st.Status.String(), "have": int(st.Pieces.Have)})
				return true
			case <-tk.C:
			}
			sn := hub.Get(r.id)
			if sn != nil {
				p := len(sn.Have)
				if sn.HasInfo {
					p++
				}
				if p != prog {
					prog, last = p, time.Now()
				}
			}
			if time.Since(last) < to && time.Since(start) < 4*to {
				continue
			}
			e := vh.Ev{"ev": "timeout", "what": "complete", "silentMs": time.Since(last).Milliseconds(), "waitedMs": time.Since(start).Milliseconds()}
			if sn != nil {
				e["status"], e["have"], e["peers"], e["downloads"] = sn.Status, len(sn.Have), sn.Peers, sn.Downloads
				e["banned"] = sn.Banned
				e["hasInfo"], e["infoDownloads"], e["lastErr"] = sn.HasInfo, sn.InfoDownloads, sn.LastErr
			}
			T.Emit(e)
			return false
		}
	}
	// a restart replaces the completion channel only if the torrent was re-created; NotifyComplete stays valid here
	completed := awaitComplete(complete)
	close(phaseDone)
	timWG.Wait()

	if completed && sc.After == "damage_verify_start" {
		// completed torrent -> stopped -> a piece is damaged in storage -> Verify finds it -> Start must fetch it again
		p := max(sc.DamagePiece, 0) % tor.NumPieces
		for k := 0; k < tor.NumPieces && tor.NonPadLen(p) == 0; k++ {
			p = (p + 1) % tor.NumPieces
		}
		T.Emit(vh.Ev{"ev": "cmd", "op": "stop"})
		tr.Stop()
		hub.Wait(r.id, 5*time.Second, func(s *torrent.VerifSnap) bool { return s.Status == "Stopped" })
		pollMu.Lock()
		var seq0 uint64
		if sn := hub.Get(r.id); sn != nil {
			seq0 = sn.Seq
		}
		damaged := damage(r.st, tor, p)
		cls := r.st.PieceClasses(tor)
		T.Emit(vh.Ev{"ev": "cmd", "op": "verify", "damaged": damaged, "piece": p})
		tr.Verify()
		// The loop has taken the command (it drops its bitfield before anything else), so from here on every claim is judged
		// against the damaged storage. (Recorded after the command: until Verify the client cannot know about the damage.)
		T.Emit(vh.Ev{"ev": "disk-mutate", "piece": p, "class": cls})
		pollMu.Unlock()
		verified := func(s *torrent.VerifSnap) bool {
			return s.Seq > seq0 && s.Status == "Stopped" && !s.DoVerify && !s.Verifying && !s.Allocating && !s.BitfieldNil
		}
		okv := false
		for try := 0; try < 200 && !okv; try++ { // stable: no verification started in the meantime
			if !hub.Wait(r.id, 8*time.Second, verified) {
				break
			}
			s1 := hub.Get(r.id).Seq
			time.Sleep(40 * time.Millisecond)
			sn := hub.Get(r.id)
			okv = sn.Seq == s1 || verified(sn)
		}
		T.Emit(vh.Ev{"ev": "verified", "ok": okv})
		complete2 := tr.NotifyComplete()
		T.Emit(vh.Ev{"ev": "cmd", "op": "start"})
		tr.Start()
		hub.Wait(r.id, 5*time.Second, func(s *torrent.VerifSnap) bool {
			return s.Acceptor && (s.Status == "Downloading" || s.Status == "Seeding")
		})
		T.Emit(vh.Ev{"ev": "cmd", "op": "restarted"})
		time.Sleep(30 * time.Millisecond)
		reconnectHonest("-v")
		awaitComplete(complete2)
	}

	if completed && sc.After == "lose_files_start" {
		// completed torrent -> stopped -> some (or all) of its files disappear -> Start: the client must not go on claiming the
		// pieces of the vanished files; they are fetched again and completion is reported only when the files are right again
		T.Emit(vh.Ev{"ev": "cmd", "op": "stop"})
		tr.Stop()
		hub.Wait(r.id, 5*time.Second, func(s *torrent.VerifSnap) bool { return s.Status == "Stopped" })
		pollMu.Lock()
		var seq0 uint64
		if sn := hub.Get(r.id); sn != nil {
			seq0 = sn.Seq
		}
		lost := []string{}
		for _, fi := range filesToLose(tor, sc.LoseFiles) {
			if r.st.Delete(tor.StoragePath(fi)) {
				lost = append(lost, tor.StoragePath(fi))
			}
		}
		cls := r.st.PieceClasses(tor)
		T.Emit(vh.Ev{"ev": "cmd", "op": "start", "lost": lost})
		tr.Start()
		// Until the torrent has opened its files again (allocation) it cannot know that files are gone: the change of the storage
		// is recorded when the loop has left the Stopped / Allocating states; every claim after that point is judged against it.
		// (The allocator re-creates the files zero-filled, which leaves the classes as they are: ground truth is random data.)
		opened := hub.Wait(r.id, 8*time.Second, func(s *torrent.VerifSnap) bool {
			return s.Seq > seq0 && s.Status != "Stopped" && s.Status != "Allocating" && !s.Allocating
		})
		T.Emit(vh.Ev{"ev": "disk-lost", "class": cls, "files": lost, "opened": opened})
		pollMu.Unlock()
		// the completion channel is replaced when the (re-)verification finds pieces missing: ask for it when the torrent is past it
		settled := hub.Wait(r.id, 10*time.Second, func(s *torrent.VerifSnap) bool {
			return s.Seq > seq0 && s.Acceptor && !s.Verifying && !s.Allocating && (s.Status == "Downloading" || s.Status == "Seeding")
		})
		complete2 := tr.NotifyComplete()
		T.Emit(vh.Ev{"ev": "cmd", "op": "restarted", "ok": settled})
		time.Sleep(30 * time.Millisecond)
		reconnectHonest("-l")
		awaitComplete(complete2)
	}

	close(stopPoll)
	pollWG.Wait()
	r.statsEvent()
	T.Emit(vh.Ev{"ev": "cmd", "op": "stop"})
	tr.Stop()
	stopped := hub.Wait(r.id, 5*time.Second, func(s *torrent.VerifSnap) bool { return s.Status == "Stopped" })
	T.Emit(vh.Ev{"ev": "stopped", "ok": stopped, "handles": r.prov.OpenHandles()})
	r.mu.Lock()
	for _, s := range r.seeds {
		s.Close()
	}
	r.mu.Unlock()
	for _, l := range r.lsn {
		l.Close()
	}
	for _, w := range r.ws {
		w.Close()
	}
	sess.Close()
	// what the storage holds now, and what the resume database claims
	cls := r.st.PieceClasses(tor)
	T.Emit(vh.Ev{"ev": "disk", "class": cls})
	bits, found, err := readResume(cfg.Database, r.id)
	e := vh.Ev{"ev": "resume", "found": found, "bits": bits}
	if err != nil {
		e["err"] = err.Error()
	}
	T.Emit(e)
	T.Emit(vh.Ev{"ev": "end"})
}

func main() {
	if len(os.Args) < 2 || os.Args[1] != "run" {
		fmt.Fprintln(os.Stderr, "usage: xfer run -scenarios f -out f")
		os.Exit(2)
	}
	fs := flag.NewFlagSet("run", flag.ExitOnError)
	scf := fs.String("scenarios", "", "")
	out := fs.String("out", "trace.ndjson", "")
	fs.Parse(os.Args[2:])
	torrent.DisableLogging()
	var err error
	T, err = vh.NewTracer(*out)
	if err != nil {
		panic(err)
	}
	T.AutoFlush = true
	hub = vh.InstallSnapHub(T, true)
	dir, _ := os.MkdirTemp(".", "xfer")
	defer os.RemoveAll(dir)
	f, err := os.Open(*scf)
	if err != nil {
		panic(err)
	}
	sc := bufio.NewScanner(f)
	sc.Buffer(make([]byte, 1<<20), 1<<24)
	_ = net.IPv4len
	for sc.Scan() {
		var s Scenario
		if json.Unmarshal(sc.Bytes(), &s) != nil {
			continue
		}
		fmt.Printf("BEGIN %d\n", s.ID)
		T.Flush()
		run(s, dir)
		T.Flush()
		fmt.Printf("END %d\n", s.ID)
	}
	T.Close()
}
