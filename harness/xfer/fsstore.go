package main

import (
	"bytes"
	"os"
	"path/filepath"

	"github.com/cenkalti/rain/v2/internal/verif/vh"
)

// store is what the driver needs from a torrent's storage to prepare it, to change it behind the client's back while the
// torrent is stopped, and to compare it with the ground truth: the recording in-memory storage (vh.MemStorage) or a real
// directory used by the session's own file storage (fsStore).
type store interface {
	Put(name string, data []byte)
	Delete(name string) bool
	FileBytes(name string) []byte
	PieceClasses(t *vh.Torrent) []string
	Complete(t *vh.Torrent) bool
}

// fsStore is the torrent's directory on the real file system (Config.DataDir/<torrent id>).
type fsStore struct{ root string }

func (s *fsStore) path(name string) string { return filepath.Join(s.root, name) }

func (s *fsStore) Put(name string, data []byte) {
	p := s.path(name)
	if err := os.MkdirAll(filepath.Dir(p), 0o750); err != nil {
		panic(err)
	}
	if err := os.WriteFile(p, data, 0o640); err != nil {
		panic(err)
	}
}

func (s *fsStore) Delete(name string) bool { return os.Remove(s.path(name)) == nil }

func (s *fsStore) FileBytes(name string) []byte {
	b, err := os.ReadFile(s.path(name))
	if err != nil {
		return nil
	}
	if b == nil {
		b = []byte{}
	}
	return b
}

// PieceClasses classifies every piece of the files on disk against ground truth (good / bad / missing).
func (s *fsStore) PieceClasses(t *vh.Torrent) []string {
	out := make([]string, t.NumPieces)
	for i := range out {
		out[i] = "good"
		if t.Unsat[i] {
			out[i] = "bad"
		}
	}
	for fi, f := range t.Files {
		if f.Pad || f.Length == 0 {
			continue
		}
		d := s.FileBytes(t.StoragePath(fi))
		fs := t.FileStart(fi)
		first, last := int(fs/int64(t.PieceLen)), int((fs+f.Length-1)/int64(t.PieceLen))
		for p := first; p <= last; p++ {
			if out[p] != "good" {
				continue
			}
			if d == nil {
				out[p] = "missing"
				continue
			}
			ps := int64(p) * int64(t.PieceLen)
			lo, hi := max(ps, fs), min(ps+int64(t.PieceLenOf(p)), fs+f.Length)
			a, b := lo-fs, hi-fs
			if int64(len(d)) < b || !bytes.Equal(d[a:b], t.Data[lo:hi]) {
				out[p] = "bad"
			}
		}
	}
	return out
}

// Complete reports whether every file of the torrent is byte-identical (length and content) to the content the metainfo
// describes; a zero-length file may be absent, but if it is there it is empty.
func (s *fsStore) Complete(t *vh.Torrent) bool {
	for fi, f := range t.Files {
		if f.Pad {
			continue
		}
		d := s.FileBytes(t.StoragePath(fi))
		if f.Length == 0 {
			if len(d) != 0 {
				return false
			}
			continue
		}
		if d == nil || !bytes.Equal(d, t.FileData(fi)) {
			return false
		}
	}
	return true
}

// filesToLose selects the non-padding, non-empty files that disappear (indices into t.Files).
func filesToLose(t *vh.Torrent, mode string) []int {
	var data []int
	for fi, f := range t.Files {
		if !f.Pad && f.Length > 0 {
			data = append(data, fi)
		}
	}
	var out []int
	for k, fi := range data {
		switch mode {
		case "first":
			if k == 0 {
				out = append(out, fi)
			}
		case "last":
			if k == len(data)-1 {
				out = append(out, fi)
			}
		case "alternate":
			if k%2 == 1 || len(data) == 1 {
				out = append(out, fi)
			}
		case "allbutfirst":
			if k > 0 || len(data) == 1 {
				out = append(out, fi)
			}
		default: // "all"
			out = append(out, fi)
		}
	}
	return out
}
