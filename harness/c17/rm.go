package main

// Sub-driver rm: the real internal/resourcemanager under concurrent callers.
//
// Every client goroutine plays one torrent event loop: it owns a key and a notify channel, calls
// Request/Release/Stats, closes the cancel channels of its requests ("peer closed") and receives
// notifications - all in one goroutine, exactly like torrent.run().  Every call is logged as a
// call line before and a ret line after; notifications are logged by the receiver after the receive;
// a cancel is logged BEFORE the channel is closed (so that every consequence has a larger sequence number).
//
// modes:  disc     cancel channels are only closed by the owner, after the request was made
//         pre      a cancel channel may already be closed when Request is called (torrent: pe.Done())
//         during   a second goroutine closes cancel channels while the owner may be inside Request
//         race     the budget is exhausted, queued requests are cancelled while / just before another holder releases and
//                  their owner listens on its notify channel (rm_race.go)
//         wakeup   a scripted scenario measuring the "drawn request does not fit" stall (note, no verdict)

import (
	"fmt"
	"math/rand"
	"os"
	"strings"
	"sync"
	"sync/atomic"
	"time"

	"github.com/cenkalti/rain/v2/internal/resourcemanager"
)

func init() { subs["rm"] = rmRun }

type rmReq struct {
	id, key int
	n       int64
	cancel  chan struct{}
	closed  bool
}

type rmClient struct {
	g       int
	rng     *rand.Rand
	m       *resourcemanager.ResourceManager[int]
	tr      *tracer
	notifyC chan int
	reqs    map[int]*rmReq
	held    []*rmReq
	waiting []*rmReq
	inCall  atomic.Int64 // id of the request whose call is running (or -1 for Stats), 0 = not in a call
	inF     atomic.Value // name of the running call
	done    atomic.Bool
	mu      *sync.Mutex // protects closed flags shared with the "during" canceller
}

func (c *rmClient) closeCancel(r *rmReq) {
	c.mu.Lock()
	if r.closed {
		c.mu.Unlock()
		return
	}
	r.closed = true
	c.mu.Unlock()
	c.tr.emit(ev{"op": "Cancel", "id": r.id, "g": c.g})
	close(r.cancel)
}

func (c *rmClient) poll(wait time.Duration) {
	for {
		var id int
		if wait > 0 {
			select {
			case id = <-c.notifyC:
			case <-time.After(wait):
				return
			}
		} else {
			select {
			case id = <-c.notifyC:
			default:
				return
			}
		}
		c.tr.emit(ev{"op": "Notified", "g": c.g, "id": id})
		for i, w := range c.waiting {
			if w.id == id {
				c.waiting = append(c.waiting[:i], c.waiting[i+1:]...)
				c.held = append(c.held, w)
				break
			}
		}
	}
}

func (c *rmClient) request(r *rmReq) bool {
	c.tr.emit(ev{"op": "call", "g": c.g, "f": "Request", "id": r.id, "key": r.key, "n": r.n})
	c.inF.Store("Request")
	c.inCall.Store(int64(r.id))
	ok := c.m.Request(fmt.Sprint("k", r.key), r.id, r.n, c.notifyC, r.cancel)
	c.inCall.Store(0)
	c.tr.emit(ev{"op": "ret", "g": c.g, "f": "Request", "id": r.id, "acq": ok})
	if ok {
		c.held = append(c.held, r)
	} else if r.n >= 0 {
		c.waiting = append(c.waiting, r)
	}
	return ok
}

func (c *rmClient) release(r *rmReq) {
	c.tr.emit(ev{"op": "call", "g": c.g, "f": "Release", "id": r.id, "key": r.key, "n": r.n})
	c.inF.Store("Release")
	c.inCall.Store(int64(r.id))
	c.m.Release(r.n)
	c.inCall.Store(0)
	c.tr.emit(ev{"op": "ret", "g": c.g, "f": "Release", "id": r.id})
}

func rmStats(tr *tracer, m *resourcemanager.ResourceManager[int], g int, in *atomic.Int64, inF *atomic.Value) {
	tr.emit(ev{"op": "call", "g": g, "f": "Stats"})
	if in != nil {
		inF.Store("Stats")
		in.Store(-1)
	}
	s := m.Stats()
	if in != nil {
		in.Store(0)
	}
	tr.emit(ev{"op": "ret", "g": g, "f": "Stats", "size": s.AllocatedSize, "objects": s.AllocatedObjects, "pending": s.PendingKeys})
}

func rmRun(tr *tracer, idx int, seed int64) {
	rng := rand.New(rand.NewSource(seed))
	mode := *fMode
	if mode == "wakeup" {
		rmWakeup(tr, idx, rng)
		return
	}
	if mode == "race" {
		rmRace(tr, idx, rng) // rm_race.go: the grant of a queued request races with the close of its cancel channel
		return
	}
	limit := int64(rng.Intn(5)) // 0..4
	nc := 1 + rng.Intn(3)
	ng := nc + 2
	tr.emit(ev{"op": "Init", "sub": "rm", "idx": idx, "limit": limit, "ng": ng, "mode": mode, "nc": nc})
	m := resourcemanager.New[int](limit)
	var nextID atomic.Int64
	var wg sync.WaitGroup
	clients := make([]*rmClient, nc)
	var mu sync.Mutex
	var allReqs []*rmReq // for the "during" canceller
	for i := range clients {
		c := &rmClient{g: i + 1, rng: rand.New(rand.NewSource(seed*31 + int64(i))), m: m, tr: tr, notifyC: make(chan int),
			reqs: map[int]*rmReq{}, mu: &mu}
		c.inF.Store("")
		clients[i] = c
	}
	stopCanceller := make(chan struct{})
	var cwg sync.WaitGroup
	if mode == "during" {
		cwg.Add(1)
		go func() {
			defer cwg.Done()
			crng := rand.New(rand.NewSource(seed * 77))
			for {
				select {
				case <-stopCanceller:
					return
				default:
				}
				mu.Lock()
				var r *rmReq
				if len(allReqs) > 0 {
					r = allReqs[crng.Intn(len(allReqs))]
				}
				mu.Unlock()
				if r != nil && crng.Intn(3) == 0 {
					clients[r.key-1].closeCancelBy(r, nc+2)
				}
				time.Sleep(time.Duration(crng.Intn(20)) * time.Microsecond)
			}
		}()
	}
	for _, c := range clients {
		wg.Add(1)
		go func(c *rmClient) {
			defer wg.Done()
			defer c.done.Store(true)
			for step := 0; step < *fOps; step++ {
				c.poll(0)
				switch k := c.rng.Intn(10); {
				case k < 4: // new request
					id := int(nextID.Add(1))
					n := int64(c.rng.Intn(int(limit) + 2)) // 0..limit+1
					if c.rng.Intn(25) == 0 {
						n = -1
					}
					r := &rmReq{id: id, key: c.g, n: n, cancel: make(chan struct{})}
					c.reqs[id] = r
					if mode == "pre" && c.rng.Intn(3) == 0 {
						c.closeCancel(r)
					}
					if mode == "during" {
						mu.Lock()
						allReqs = append(allReqs, r)
						mu.Unlock()
					}
					c.request(r)
				case k < 7: // release
					if len(c.held) > 0 {
						i := c.rng.Intn(len(c.held))
						r := c.held[i]
						c.held = append(c.held[:i], c.held[i+1:]...)
						c.release(r)
					}
				case k < 8: // the peer of some request goes away
					if len(c.waiting) > 0 && c.rng.Intn(2) == 0 {
						c.closeCancel(c.waiting[c.rng.Intn(len(c.waiting))])
					} else if len(c.held) > 0 {
						// closePeer: close the peer, then give the reservation back
						i := c.rng.Intn(len(c.held))
						r := c.held[i]
						c.held = append(c.held[:i], c.held[i+1:]...)
						c.closeCancel(r)
						c.release(r)
					}
				case k < 9:
					rmStats(tr, m, c.g, &c.inCall, &c.inF)
				default:
					c.poll(time.Duration(c.rng.Intn(300)) * time.Microsecond)
				}
			}
			// wind down like a stopping torrent: close all peers, give everything back
			for _, r := range c.waiting {
				c.closeCancel(r)
			}
			for _, r := range c.held {
				c.release(r)
			}
			c.held = nil
		}(c)
	}
	allDone := make(chan struct{})
	go func() { wg.Wait(); close(allDone) }()
	hung := rmWatch(tr, allDone, clients)
	close(stopCanceller)
	cwg.Wait()
	if hung {
		tr.stop.Store(true)
		rmForceClose(m, allDone)
		return
	}
	rmStats(tr, m, nc+1, nil, nil)
	// Close must return as well
	tr.emit(ev{"op": "call", "g": nc + 1, "f": "Close"})
	closed := make(chan struct{})
	go func() { m.Close(); close(closed) }()
	select {
	case <-closed:
		tr.emit(ev{"op": "ret", "g": nc + 1, "f": "Close"})
	case <-time.After(5 * time.Second):
		tr.emit(ev{"op": "Hang", "g": nc + 1, "f": "Close", "id": 0, "where": rmWhere("Close")})
		tr.stop.Store(true)
	}
}

func (c *rmClient) closeCancelBy(r *rmReq, g int) {
	c.mu.Lock()
	if r.closed {
		c.mu.Unlock()
		return
	}
	r.closed = true
	c.mu.Unlock()
	c.tr.emit(ev{"op": "Cancel", "id": r.id, "g": g})
	close(r.cancel)
}

// rmForceClose frees the goroutines of a hung history (Close makes every blocked call return).
func rmForceClose(m *resourcemanager.ResourceManager[int], allDone chan struct{}) {
	go m.Close()
	select {
	case <-allDone:
	case <-time.After(10 * time.Second):
		fmt.Fprintln(os.Stderr, "cannot free the goroutines of a hung history")
		os.Exit(3)
	}
}

// rmManagerIdle reports whether a resource manager goroutine sits in the select of run() (not in handleRequest),
// and how many goroutines are blocked inside Request/Release/Stats/Close of the manager.
func rmManagerIdle() (idle bool, blocked int, where string) {
	for _, b := range goroutineDump() {
		if !strings.Contains(b, "internal/resourcemanager.(*ResourceManager") {
			continue
		}
		head := b
		if k := strings.IndexByte(b, '\n'); k >= 0 {
			head = b[:k]
		}
		isRun := strings.Contains(b, "]).run(")
		if isRun {
			if !strings.Contains(b, "]).handleRequest(") && strings.Contains(head, "[select") {
				idle = true
			}
			continue
		}
		for _, f := range []string{"Request", "Release", "Stats", "Close"} {
			if strings.Contains(b, "])."+f+"(") && (strings.Contains(head, "[select") || strings.Contains(head, "[chan")) {
				blocked++
				where = f
			}
		}
	}
	return
}

func rmWhere(f string) string {
	idle, blocked, _ := rmManagerIdle()
	return fmt.Sprintf("%s blocked; manager idle in run() select=%v; blocked callers=%d", f, idle, blocked)
}

// rmWatch waits for the clients.  A client is reported hung when (fast path) no event was logged for 300 ms, it is
// inside a call, and two goroutine dumps 100 ms apart show the manager idle in its main select while the caller
// is blocked in the call - nobody is left to answer; or (slow path) nothing at all happened for 5 s.
func rmWatch(tr *tracer, allDone chan struct{}, clients []*rmClient) bool {
	last := tr.n.Load()
	lastChange := time.Now()
	tick := time.NewTicker(20 * time.Millisecond)
	defer tick.Stop()
	for {
		select {
		case <-allDone:
			return false
		case <-tick.C:
		}
		if n := tr.n.Load(); n != last {
			last, lastChange = n, time.Now()
			continue
		}
		quiet := time.Since(lastChange)
		if quiet < 300*time.Millisecond {
			continue
		}
		idle1, b1, _ := rmManagerIdle()
		time.Sleep(100 * time.Millisecond)
		idle2, b2, _ := rmManagerIdle()
		if tr.n.Load() != last {
			continue
		}
		structural := idle1 && idle2 && b1 > 0 && b1 == b2
		if !structural && quiet < 5*time.Second {
			continue
		}
		any := false
		for _, c := range clients {
			if id := c.inCall.Load(); id != 0 && !c.done.Load() {
				f, _ := c.inF.Load().(string)
				if id < 0 {
					id = 0
				}
				tr.emit(ev{"op": "Hang", "g": c.g, "f": f, "id": id,
					"where": fmt.Sprintf("%s blocked; manager idle in run() select=%v; blocked callers=%d", f, idle2, b2)})
				any = true
			}
		}
		if any {
			return true
		}
		if quiet > 20*time.Second {
			fmt.Fprintln(os.Stderr, "rm history makes no progress but no client is inside a call")
			os.Exit(3)
		}
	}
}

// rmWakeup: limit 2; A holds 1+1, A queues n=1 (key A), B queues n=2 (key B), A releases 1.
// One unit is free and A's waiter fits; randomRequest() may draw B's request, see that it does not fit and serve
// nobody until the next event.  Recorded as a Note (measurement of a design observation, never a verdict).
func rmWakeup(tr *tracer, idx int, rng *rand.Rand) {
	tr.emit(ev{"op": "Init", "sub": "rm", "idx": idx, "limit": 2, "ng": 3, "mode": "wakeup", "nc": 2})
	m := resourcemanager.New[int](2)
	na, nb := make(chan int), make(chan int)
	never := make(chan struct{})
	m.Request("kA", 1, 1, na, never)
	m.Request("kA", 2, 1, na, never)
	m.Request("kA", 3, 1, na, never)
	m.Request("kB", 4, 2, nb, never)
	m.Release(1)
	notified := 0
	select {
	case <-na:
		notified = 1
	case <-time.After(150 * time.Millisecond):
	}
	polls := 0
	for notified == 0 && polls < 1000 {
		m.Stats() // any event makes the manager draw again
		polls++
		select {
		case <-na:
			notified = 2
		case <-time.After(2 * time.Millisecond):
		}
	}
	tr.emit(ev{"op": "Note", "kind": "rm.lostwakeup", "notified": notified, "polls": polls})
	m.Close()
}
