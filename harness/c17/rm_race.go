package main

// Sub-driver rm, mode "race": the grant of a QUEUED request races with the close of its cancel channel.
//
// In rain a queued reservation belongs to a peer (cancel channel = pe.Done()); the torrent loop closes the peer and goes
// back to its select, where it is ready to receive on ramNotifyC.  While the budget is exhausted the manager does not
// look at the queued request at all (randomRequest() returns no candidate, the select has nil channels for it).  As
// soon as another holder releases, the request is drawn and BOTH cases of the manager's select are ready at once:
//     case req.notifyC <- req.data   (the receiver is listening)      -> a grant like any other: charged, must be released
//     case <-req.cancelC             (the channel is closed)          -> the request is dropped, nothing is charged
// Go picks one of them at random.  Whoever receives a grant for a peer that is gone gives it back at once
// (startSinglePieceDownloader finds nothing to download and calls ram.Release) - so the books only balance if a
// delivered notification is ALWAYS a charged reservation (obligation C17.rm.grant_vs_cancel, spec LimitsRM.tla /
// LimitsRMProto.tla: ToldIsHeld).
//
// One history = one manager with a small limit and two torrent loops A (key 1, the holder) and V (key 2, the victim):
// rounds of   A fills the budget - V queues 1..3 requests - some of their cancel channels are closed (by V itself before
// it listens = strict discipline, or by another goroutine at the moment of the release) - V listens on its notify
// channel - A releases.   V handles every notification like rain does (request of a closed peer: Release at once and ask
// Stats; otherwise hold it until the end of the round), then everything is given back and Stats is asked again.
// Nothing here is timing-judged: sleeps only make the interesting interleaving likely; every outcome of the select is a
// legal history, and the verdict comes from the Stats values / grants / crashes as judged by Trace_LimitsRM.
// The driver keeps playing rounds until it has seen the notification of a cancelled request a few times (bounded).

import (
	"math/rand"
	"sync"
	"sync/atomic"
	"time"

	"github.com/cenkalti/rain/v2/internal/resourcemanager"
)

func (c *rmClient) isClosed(r *rmReq) bool {
	c.mu.Lock()
	defer c.mu.Unlock()
	return r.closed
}

// listen: V's torrent loop sitting in its select.  Returns the number of notifications received for requests whose
// cancel channel had been closed.
func (c *rmClient) listen(ready chan<- struct{}, quiet time.Duration) (cancelledGrants int) {
	close(ready)
	idle := 0
	for idle < 2 {
		select {
		case id := <-c.notifyC:
			c.tr.emit(ev{"op": "Notified", "g": c.g, "id": id})
			idle = 0
			r := c.reqs[id]
			for i, w := range c.waiting {
				if w.id == id {
					c.waiting = append(c.waiting[:i], c.waiting[i+1:]...)
					break
				}
			}
			if r == nil {
				continue // a notification nobody asked for: the trace spec judges the Notified line
			}
			if c.isClosed(r) {
				cancelledGrants++
				c.release(r) // the peer is gone: nothing to download, give the piece buffer back
				rmStats(c.tr, c.m, c.g, &c.inCall, &c.inF)
			} else {
				c.held = append(c.held, r)
			}
		case <-time.After(quiet):
			idle++
			rmStats(c.tr, c.m, c.g, &c.inCall, &c.inF) // (any event also makes the manager draw a candidate again)
		}
	}
	return
}

func rmRace(tr *tracer, idx int, rng *rand.Rand) {
	limit := int64(1 + rng.Intn(4)) // 1..4
	const nc = 2
	tr.emit(ev{"op": "Init", "sub": "rm", "idx": idx, "limit": limit, "ng": nc + 2, "mode": "race", "nc": nc})
	m := resourcemanager.New[int](limit)
	var mu sync.Mutex
	mk := func(g int) *rmClient {
		c := &rmClient{g: g, rng: rng, m: m, tr: tr, notifyC: make(chan int), reqs: map[int]*rmReq{}, mu: &mu}
		c.inF.Store("")
		return c
	}
	A, V := mk(1), mk(2)
	clients := []*rmClient{A, V}
	var nextID atomic.Int64
	newReq := func(c *rmClient, n int64) *rmReq {
		r := &rmReq{id: int(nextID.Add(1)), key: c.g, n: n, cancel: make(chan struct{})}
		c.reqs[r.id] = r
		return r
	}
	maxRounds := 3 + *fOps/2
	allDone := make(chan struct{})
	go func() {
		defer close(allDone)
		defer A.done.Store(true)
		defer V.done.Store(true)
		seen := 0
		for round := 0; round < maxRounds && seen < 3; round++ {
			// A fills the budget (one or two reservations)
			x := int64(rng.Intn(int(limit)))
			A.request(newReq(A, limit-x))
			if x > 0 {
				A.request(newReq(A, x))
			}
			// V queues
			nv := 1 + rng.Intn(3)
			var queued []*rmReq
			for i := 0; i < nv; i++ {
				r := newReq(V, int64(1+rng.Intn(int(limit))))
				if !V.request(r) {
					queued = append(queued, r)
				}
			}
			// which peers go away, and who closes them
			var before, during []*rmReq
			for _, r := range queued {
				switch rng.Intn(5) {
				case 0, 1:
					before = append(before, r)
				case 2, 3:
					during = append(during, r)
				}
			}
			for _, r := range before {
				V.closeCancel(r)
			}
			ready := make(chan struct{})
			lres := make(chan int, 1)
			go func() { lres <- V.listen(ready, 1500*time.Microsecond) }()
			<-ready
			var cwg sync.WaitGroup
			d1 := time.Duration(100+rng.Intn(300)) * time.Microsecond
			d2 := d1 + time.Duration(rng.Intn(120)-60)*time.Microsecond
			if len(during) > 0 {
				cwg.Add(1)
				go func() {
					defer cwg.Done()
					time.Sleep(d2)
					for _, r := range during {
						V.closeCancelBy(r, nc+2)
					}
				}()
			}
			time.Sleep(d1)
			// A gives back: everything, or one reservation after the other
			for len(A.held) > 0 {
				r := A.held[0]
				A.held = A.held[1:]
				A.release(r)
				if rng.Intn(2) == 0 {
					time.Sleep(time.Duration(rng.Intn(200)) * time.Microsecond)
				}
			}
			cwg.Wait()
			seen += <-lres
			// end of the round: the torrent V stops (all its peers are closed, reservations given back)
			for _, r := range V.waiting {
				V.closeCancel(r)
			}
			V.waiting = nil
			for _, r := range V.held {
				V.release(r)
			}
			V.held = nil
			for _, r := range A.waiting {
				A.closeCancel(r)
			}
			A.waiting = nil
			rmStats(tr, m, A.g, &A.inCall, &A.inF)
		}
		// nothing is reserved now: the whole budget, and not more, can be taken again
		for i := int64(0); i < limit+1; i++ {
			A.request(newReq(A, 1))
		}
		rmStats(tr, m, A.g, &A.inCall, &A.inF)
		for _, r := range A.waiting {
			A.closeCancel(r)
		}
		for _, r := range A.held {
			A.release(r)
		}
		A.held = nil
	}()
	hung := rmWatch(tr, allDone, clients)
	if hung {
		tr.stop.Store(true)
		rmForceClose(m, allDone)
		return
	}
	rmStats(tr, m, nc+1, nil, nil)
	tr.emit(ev{"op": "call", "g": nc + 1, "f": "Close"})
	closed := make(chan struct{})
	go func() { m.Close(); close(closed) }()
	select {
	case <-closed:
		tr.emit(ev{"op": "ret", "g": nc + 1, "f": "Close"})
	case <-time.After(5 * time.Second):
		tr.emit(ev{"op": "Hang", "g": nc + 1, "f": "Close", "id": 0, "where": rmWhere("Close")})
		tr.stop.Store(true)
	}
}
