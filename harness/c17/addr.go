package main

// Sub-driver addr: the real internal/addrlist driven by sequential Push/Pop/Reset sequences (the list is owned by
// the torrent loop, so there are no concurrent callers).  After every operation the exported counters are logged:
// Len() and LenSource(s) for every source.  Only the capacity/balance aspect is judged here (C17); the priority-set
// semantics belongs to C18.

import (
	"math/rand"
	"net"

	"github.com/cenkalti/rain/v2/internal/addrlist"
	"github.com/cenkalti/rain/v2/internal/peersource"
)

func init() { subs["addr"] = addrRun }

var addrSources = []peersource.Source{peersource.Tracker, peersource.DHT, peersource.PEX, peersource.Manual, peersource.Incoming}

func addrRun(tr *tracer, idx int, seed int64) {
	rng := rand.New(rand.NewSource(seed))
	max := []int{0, 1, 2, 3, 5, 8}[rng.Intn(6)]
	clientIP := net.IPv4(50, 1, 2, 200)
	listenPort := 7000
	tr.emit(ev{"op": "Init", "sub": "addr", "idx": idx, "max": max, "ng": 1})
	al := addrlist.New(max, nil, listenPort, &clientIP)
	counts := func(e ev) ev {
		c := make([]int, len(addrSources))
		for i, s := range addrSources {
			c[i] = al.LenSource(s)
		}
		e["len"] = al.Len()
		e["cnt"] = c
		return e
	}
	pool := func() *net.TCPAddr {
		// few distinct priorities: addresses that differ only in the port or in masked bits collide
		ip := net.IPv4(50, 1, byte(2+rng.Intn(2)), byte(1+rng.Intn(6)))
		port := []int{1000, 1001, 0}[rng.Intn(3)]
		switch rng.Intn(12) {
		case 0:
			ip = clientIP
		case 1:
			ip, port = net.IPv4(127, 0, 0, 1), listenPort
		}
		return &net.TCPAddr{IP: ip, Port: port}
	}
	for step := 0; step < *fOps; step++ {
		switch k := rng.Intn(10); {
		case k < 6:
			n := rng.Intn(5)
			if rng.Intn(6) == 0 {
				n = max + 1 + rng.Intn(3)
			}
			addrs := make([]*net.TCPAddr, n)
			for i := range addrs {
				addrs[i] = pool()
				if i > 0 && rng.Intn(5) == 0 {
					addrs[i] = addrs[i-1] // duplicate inside one call
				}
			}
			src := rng.Intn(len(addrSources))
			al.Push(addrs, addrSources[src])
			tr.emit(counts(ev{"op": "Push", "src": src + 1, "n": n}))
		case k < 9:
			a, s := al.Pop()
			has := a != nil
			src := 0
			if has {
				src = int(s) + 1
			}
			tr.emit(counts(ev{"op": "Pop", "has": has, "src": src}))
		default:
			al.Reset()
			tr.emit(counts(ev{"op": "Reset"}))
		}
	}
}
