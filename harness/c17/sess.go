package main

// Session-level sub-drivers of C17 (real torrent.Session against scripted peers / web seeds, shared harness vh):
//
//   uploadq   a scripted leecher floods a seeding session with more valid requests than Config.MaxRequestsIn
//   pipeline  a scripted seeder that answers only on script counts rain's outstanding block requests
//   ram       several torrents and peers with a small Config.WriteCacheSize: hook-H1 downloads, session Stats
//   webseed   url-lists of 1..15 scripted web seeds against WebseedMaxSources / WebseedMaxDownloads
//   rate      SpeedLimitDownload / SpeedLimitUpload measured at the scripted side (-mode down | up | ws)
//   config    generated configurations (pairwise covering), a short transfer each: no crash, no hang
//
// Every scenario is one history: an Init line (written through at once, so that a crash of the child can be
// attributed), then compact events derived from the in-memory vh trace in occurrence order.  A panic of rain kills
// the child: the parent (main.go) turns it into a Crash line.  A scenario that does not finish, or a session call
// that does not return, is reported as a Hang line and the child exits with status 3.

import (
	"bytes"
	"fmt"
	"math/rand"
	"net"
	"net/http"
	"net/url"
	"os"
	"sort"
	"strconv"
	"strings"
	"sync"
	"sync/atomic"
	"time"

	"github.com/cenkalti/rain/v2/internal/verif/vh"
	"github.com/cenkalti/rain/v2/torrent"
)

func init() {
	subs["uploadq"] = uploadqRun
	subs["pipeline"] = pipelineRun
	subs["ram"] = ramRun
	subs["webseed"] = webseedRun
	subs["rate"] = rateRun
	subs["config"] = configRun
}

const blk = 16384

type senv struct {
	dir string
	T   *vh.Tracer
	hub *vh.SnapHub
	t0  time.Time
}

func newEnv(logSnaps bool) *senv {
	torrent.DisableLogging()
	dir, err := os.MkdirTemp("/var/tmp", "c17s")
	if err != nil {
		fmt.Fprintln(os.Stderr, err)
		os.Exit(2)
	}
	T, _ := vh.NewTracer("")
	T.Keep = true
	e := &senv{dir: dir, T: T, t0: time.Now()}
	e.hub = vh.InstallSnapHub(T, logSnaps)
	return e
}

func (e *senv) ms() int64 { return time.Since(e.t0).Milliseconds() }

func (e *senv) close() {
	torrent.VerifSetTracer(nil)
	os.RemoveAll(e.dir)
}

func (e *senv) session(mod func(*torrent.Config)) (*torrent.Session, *vh.MemProvider) {
	cfg, err := vh.BaseConfig(e.dir, 8)
	if err != nil {
		fmt.Fprintln(os.Stderr, err)
		os.Exit(2)
	}
	prov := vh.NewMemProvider(e.T)
	prov.Quiet = true
	cfg.CustomStorage = prov
	cfg.RequestTimeout = 30 * time.Second
	if mod != nil {
		mod(&cfg)
	}
	s, err := torrent.NewSession(cfg)
	if err != nil {
		fmt.Fprintln(os.Stderr, "NewSession:", err)
		os.Exit(2)
	}
	return s, prov
}

func flat(name string, plen int, pieces int, extra int) vh.Layout {
	return vh.Layout{Name: name, PieceLen: plen, Files: []vh.FileSpec{{Path: []string{"a.bin"}, Length: int64(plen*pieces/2 + extra)}, {Path: []string{"d", "b.bin"}, Length: int64(plen*pieces - plen*pieces/2)}}}
}

// guard runs f; if it does not finish in time the history ends with a Hang line and the child gives up (status 3).
func guard(tr *tracer, sub string, limit time.Duration, what string, f func()) {
	done := make(chan struct{})
	go func() { f(); close(done) }()
	select {
	case <-done:
	case <-time.After(limit):
		tr.emit(ev{"op": "Hang", "sub": sub, "what": what, "where": stuckWhere()})
		os.Exit(3)
	}
}

// stuckWhere names the rain frames of goroutines blocked in semaphores / locks / channel operations (diagnosis only).
func stuckWhere() string {
	seen := map[string]int{}
	for _, b := range goroutineDump() {
		if !strings.Contains(b, "cenkalti/rain/v2/") {
			continue
		}
		for _, m := range reFrame.FindAllStringSubmatch(b, 2) {
			if m[1] == "verif" {
				continue
			}
			seen[m[1]+"."+strings.TrimSpace(m[2])]++
			break
		}
	}
	var ks []string
	for k, n := range seen {
		ks = append(ks, fmt.Sprintf("%s x%d", strings.ReplaceAll(k, "[...]", ""), n))
	}
	sort.Strings(ks)
	if len(ks) > 14 {
		ks = ks[:14]
	}
	return strings.Join(ks, "; ")
}

func call(tr *tracer, sub, what string, limit time.Duration, f func()) { guard(tr, sub, limit, what, f) }

// skip ends a scenario whose SETUP did not come up (free ports taken meanwhile, overloaded machine ...): not an observation
// about the limits.  props/c17.py tolerates a few of them and fails as machinery error beyond that.
func skip(e *senv, tr *tracer, sub, why string) {
	st, le := "", ""
	if v := e.hub.Get("t1"); v != nil {
		st, le = v.Status, v.LastErr
	}
	tr.emit(ev{"op": "Skip", "sub": sub, "why": why, "status": st, "lasterr": le})
}

// ---------------------------------------------------------------------------------------------------- scripted peer

type peerEv struct {
	m vh.Msg
	t int64
}

type rawPeer struct {
	c    *vh.Conn
	rx   chan peerEv
	fast bool
	e    *senv
}

func dialPeer(e *senv, name, ip, addr string, tor *vh.Torrent, fast, ext bool) (*rawPeer, error) {
	nc, err := vh.DialFrom(ip, addr, 3*time.Second)
	if err != nil {
		return nil, err
	}
	rh, err := vh.PlainHandshake(nc, tor.InfoHash, vh.PeerID(name), vh.ReservedBits(fast, ext, false), 5*time.Second)
	if err != nil {
		nc.Close()
		return nil, err
	}
	p := &rawPeer{c: &vh.Conn{C: nc, Name: name, Remote: rh, Quiet: true}, rx: make(chan peerEv, 4096), e: e}
	p.fast = fast && rh.Reserved[7]&0x04 != 0
	go func() {
		defer close(p.rx)
		for {
			m, err := p.c.Recv(0)
			if err != nil {
				return
			}
			if m.ID == vh.MsgKeepAlive {
				continue
			}
			p.rx <- peerEv{m, e.ms()}
		}
	}()
	return p, nil
}

// next returns the next message, or ok=false after d without one (or on a closed connection).
func (p *rawPeer) next(d time.Duration) (peerEv, bool) {
	select {
	case x, ok := <-p.rx:
		return x, ok
	case <-time.After(d):
		return peerEv{}, false
	}
}

func (p *rawPeer) waitFor(id int, d time.Duration) bool {
	dl := time.Now().Add(d)
	for time.Now().Before(dl) {
		x, ok := p.next(time.Until(dl))
		if !ok {
			return false
		}
		if x.m.ID == id {
			return true
		}
	}
	return false
}

func blockReq(tor *vh.Torrent, b int) vh.Msg {
	per := tor.PieceLen / blk
	return vh.Msg{ID: vh.MsgRequest, Index: uint32(b / per), Begin: uint32(b%per) * blk, Length: blk}
}

func blockNo(tor *vh.Torrent, m vh.Msg) int { return int(m.Index)*(tor.PieceLen/blk) + int(m.Begin)/blk }

// seedSession starts a session seeding tor (id t1) and returns it once it accepts connections.
func seedSession(e *senv, tr *tracer, sub string, tor *vh.Torrent, mod func(*torrent.Config)) (*torrent.Session, *torrent.Torrent) {
	s, prov := e.session(mod)
	prov.Truth[""] = tor
	prov.Store("t1").Fill(tor)
	t, err := s.AddTorrent(bytes.NewReader(tor.Bytes), &torrent.AddTorrentOptions{ID: "t1"})
	if err != nil {
		fmt.Fprintln(os.Stderr, "AddTorrent:", err)
		os.Exit(2)
	}
	if !e.hub.Wait("t1", 25*time.Second, func(v *torrent.VerifSnap) bool { return v.Status == "Seeding" && v.Acceptor && v.Port != 0 }) {
		skip(e, tr, sub, "torrent does not reach Seeding")
		go s.Close()
		return nil, nil
	}
	return s, t
}

// ---------------------------------------------------------------------------------------------------- uploadq

var uqCaps = []int{0, 1, 2, 5, 250}

func uploadqRun(tr *tracer, idx int, seed int64) {
	capq := uqCaps[idx%len(uqCaps)]
	fast := (idx/len(uqCaps))%2 == 0
	rated := capq != 250
	n := capq + 6
	nblocks := 128
	if !rated {
		n, nblocks = 300, 320
	}
	tr.emit(ev{"op": "Init", "sub": "uploadq", "idx": idx, "cap": capq, "fast": fast, "rated": rated, "n": n, "period": 250, "warm": 5})
	guard(tr, "uploadq", 90*time.Second, "scenario", func() {
		e := newEnv(false)
		defer e.close()
		tor := vh.Build(flat("uq", 4*blk, nblocks/4, 0), seed, nil, nil)
		s, t := seedSession(e, tr, "uploadq", tor, func(c *torrent.Config) {
			c.MaxRequestsIn = capq
			if rated {
				c.SpeedLimitUpload = 64 // KB/s = 4 blocks per second, burst 4 blocks
			}
			c.MaxPeerAccept = 10
		})
		if s == nil {
			return
		}
		torrent.VerifSetUnchokePeriod(t, 30*time.Millisecond)
		p, err := dialPeer(e, "leech", "127.0.0.2", fmt.Sprintf("127.0.0.1:%d", t.Port()), tor, fast, false)
		if err != nil {
			fmt.Fprintln(os.Stderr, "dial:", err)
			os.Exit(2)
		}
		if p.fast {
			p.c.Send(vh.Msg{ID: vh.MsgHaveNone})
		}
		p.c.Send(vh.Msg{ID: vh.MsgInterested})
		if !p.waitFor(vh.MsgUnchoke, 5*time.Second) {
			fmt.Fprintln(os.Stderr, "uploadq: not unchoked")
			os.Exit(2)
		}
		torrent.VerifSetUnchokePeriod(t, time.Hour)
		next := 0
		weChoke := true // what rain believes about us (PeerChoking); toggled by the markers
		// warm empties the token bucket (burst = 1 s of rate) with requests that are answered one by one
		warm := func() {
			if !rated || capq == 0 {
				return
			}
			tr.emit(ev{"op": "UQWarm", "t": e.ms()})
			for k := 0; k < 5; k++ {
				p.c.Send(blockReq(tor, next))
				next++
				if !p.waitFor(vh.MsgPiece, 5*time.Second) {
					fmt.Fprintln(os.Stderr, "uploadq: warm-up block not served")
					os.Exit(2)
				}
			}
		}
		// flood appends k requests for new blocks to buf
		flood := func(buf []byte, k int) ([]byte, []int) {
			var ids []int
			for i := 0; i < k; i++ {
				buf = append(buf, vh.EncodeMsg(blockReq(tor, next))...)
				tr.emit(ev{"op": "UQReq", "i": next, "t": e.ms()})
				ids = append(ids, next)
				next++
			}
			return buf, ids
		}
		cancel := func(buf []byte, ids []int) []byte {
			for _, i := range ids {
				m := blockReq(tor, i)
				m.ID = vh.MsgCancel
				buf = append(buf, vh.EncodeMsg(m)...)
				tr.emit(ev{"op": "UQCancel", "i": i, "t": e.ms()})
			}
			return buf
		}
		// marker: our choke state flips; rain's loop snapshot shows it once everything sent before has been handled
		marker := func(buf []byte) ([]byte, chan int64) {
			weChoke = !weChoke
			id := vh.MsgChoke
			if !weChoke {
				id = vh.MsgUnchoke
			}
			buf = append(buf, vh.EncodeMsg(vh.Msg{ID: id})...)
			want := weChoke
			c := make(chan int64, 1)
			go func() {
				if e.hub.Wait("t1", 30*time.Second, func(v *torrent.VerifSnap) bool { return len(v.PeerList) > 0 && v.PeerList[0].PeerChoking == want }) {
					c <- e.ms()
				}
			}()
			return buf, c
		}
		// collect reads answers until want of them arrived or nothing came for a while after the marker was seen
		collect := func(want int, markC chan int64, limit time.Duration) {
			answered := 0
			quiet := 1200 * time.Millisecond
			deadline := time.Now().Add(limit)
			marked := false
			for answered < want && time.Now().Before(deadline) {
				select {
				case tm := <-markC:
					tr.emit(ev{"op": "UQMarker", "t": tm})
					marked = true
					continue
				default:
				}
				x, ok := p.next(40 * time.Millisecond)
				if !ok {
					if quiet -= 40 * time.Millisecond; quiet <= 0 && marked {
						break
					}
					continue
				}
				quiet = 1200 * time.Millisecond
				switch x.m.ID {
				case vh.MsgPiece:
					tr.emit(ev{"op": "UQPiece", "i": blockNo(tor, x.m), "t": x.t, "intact": bytes.Equal(x.m.Data, tor.PieceData(int(x.m.Index))[x.m.Begin:int(x.m.Begin)+len(x.m.Data)])})
					answered++
				case vh.MsgReject:
					tr.emit(ev{"op": "UQReject", "i": blockNo(tor, x.m), "t": x.t})
					answered++
				}
			}
			if !marked {
				select {
				case tm := <-markC:
					tr.emit(ev{"op": "UQMarker", "t": tm})
				case <-time.After(5 * time.Second):
				}
			}
			tr.emit(ev{"op": "UQEnd", "t": e.ms()})
		}
		per := time.Duration(capq+12)*250*time.Millisecond + 3*time.Second
		if !rated {
			// default limit, no rate limit: flood far above the cap, read everything
			buf, _ := flood(nil, n)
			buf, mc := marker(buf)
			p.c.SendRaw(buf)
			collect(n, mc, per)
		} else {
			// round 1: flood above the cap; while the writer is still waiting for its first tokens (the queue is full and
			// the refusals of the excess sit behind it) cancel the refused requests and one accepted one, then flood again
			warm()
			buf, a := flood(nil, n)
			var canc []int
			canc = append(canc, a[min(capq+1, len(a)):]...) // refused (fast) or dropped (no fast extension)
			if capq >= 1 {
				canc = append(canc, a[capq]) // the last accepted one: still queued
			}
			buf = cancel(buf, canc)
			buf, _ = flood(buf, n)
			buf, mc := marker(buf)
			p.c.SendRaw(buf)
			collect(2*n, mc, per)
			// round 2 on the same connection: whatever the counter of the writer has become, the cap must still hold
			// (rain never chokes a single peer, interested or not, so the queue is not dropped in between)
			tr.emit(ev{"op": "UQRound"})
			warm()
			buf, a = flood(nil, n)
			buf = cancel(buf, a[min(capq+1, len(a)):])
			buf, _ = flood(buf, 3)
			buf, mc = marker(buf)
			p.c.SendRaw(buf)
			collect(2*n+3, mc, per)
		}
		p.c.Close()
		call(tr, "uploadq", "Session.Close", 30*time.Second, func() { s.Close() })
	})
}

// ---------------------------------------------------------------------------------------------------- pipeline

var plReqq = []int{-1, 0, 1, 5, 10000}
var plMaxOut = []int{1, 2, 50}

// order in which the scripted seeder rejects its open requests when it chokes (fast extension): the order in which they
// arrived, the reverse, a random one, or ("dup", a hostile seeder) arrival order with the first reject message sent twice
var plRej = []string{"fifo", "lifo", "shuf", "dup"}

// pipelineRun: a LEECHING session against one scripted seeder that answers only on script and counts the requests that are
// open ON THE WIRE (received and neither served, rejected nor cancelled; a second request for a block whose first request
// is still open counts twice).  Script: unchoke, serve 3 blocks, choke in the middle of the first piece (not an allowed-fast
// piece; with the fast extension every open request is rejected, in the order given by rej), unchoke, reject two more,
// serve ONE block at a time to the end of that piece and into the next (the re-queued blocks are requested again there),
// serve in bulk, choke / unchoke once more, one block at a time again.
func pipelineRun(tr *tracer, idx int, seed int64) {
	reqq := plReqq[idx%5]
	maxout := plMaxOut[(idx/5)%3]
	fast := (idx/15)%2 == 0
	rej := plRej[idx%4]
	rng := rand.New(rand.NewSource(seed))
	if idx >= 30 {
		reqq, maxout, fast, rej = plReqq[rng.Intn(5)], plMaxOut[rng.Intn(3)], rng.Intn(2) == 0, plRej[rng.Intn(4)]
	}
	if !fast {
		rej = "none"
	}
	const defout = 3
	tr.emit(ev{"op": "Init", "sub": "pipeline", "idx": idx, "reqq": reqq, "maxout": maxout, "defout": defout, "fast": fast, "rej": rej})
	guard(tr, "pipeline", 60*time.Second, "scenario", func() {
		e := newEnv(false)
		defer e.close()
		tor := vh.Build(flat("pl", 16*blk, 4, 0), seed, nil, nil)
		s, prov := e.session(func(c *torrent.Config) {
			c.MaxRequestsOut = maxout
			c.DefaultRequestsOut = defout
		})
		prov.Truth[""] = tor
		t, err := s.AddTorrent(bytes.NewReader(tor.Bytes), &torrent.AddTorrentOptions{ID: "t1"})
		if err != nil {
			fmt.Fprintln(os.Stderr, "AddTorrent:", err)
			os.Exit(2)
		}
		if !e.hub.Wait("t1", 25*time.Second, func(v *torrent.VerifSnap) bool { return v.Status == "Downloading" && v.Acceptor && v.Port != 0 }) {
			skip(e, tr, "pipeline", "torrent does not reach Downloading")
			go s.Close()
			return
		}
		p, err := dialPeer(e, "seed", "127.0.0.2", fmt.Sprintf("127.0.0.1:%d", t.Port()), tor, fast, true)
		if err != nil {
			fmt.Fprintln(os.Stderr, "dial:", err)
			os.Exit(2)
		}
		if p.fast != fast {
			skip(e, tr, "pipeline", "fast extension not negotiated")
			p.c.Close()
			go s.Close()
			return
		}
		d := vh.Dict{"m": vh.Dict{}, "v": "c17-seeder"}
		if reqq >= 0 {
			d["reqq"] = reqq
		}
		p.c.Send(vh.Msg{ID: vh.MsgExtended, ExtID: 0, Data: vh.Enc(d)})
		if p.fast {
			p.c.Send(vh.Msg{ID: vh.MsgHaveAll})
		} else {
			p.c.Send(vh.Msg{ID: vh.MsgBitfield, Data: vh.BitfieldBytes(tor.NumPieces, func(int) bool { return true })})
		}
		var out []vh.Msg // open requests as the scripted side sees them (a bag: the same block may be open twice)
		choking := true
		del := func(m vh.Msg) {
			for i, x := range out {
				if x.Index == m.Index && x.Begin == m.Begin {
					out = append(out[:i], out[i+1:]...)
					return
				}
			}
		}
		// settle consumes messages until nothing arrives for q
		settle := func(q time.Duration) {
			for {
				x, ok := p.next(q)
				if !ok {
					return
				}
				switch x.m.ID {
				case vh.MsgRequest:
					tr.emit(ev{"op": "PLReq", "p": x.m.Index, "b": x.m.Begin / blk})
					if choking && !p.fast {
						continue // void: a choke cancels what was in flight
					}
					if choking && p.fast {
						tr.emit(ev{"op": "PLReject", "p": x.m.Index, "b": x.m.Begin / blk})
						p.c.Send(vh.Msg{ID: vh.MsgReject, Index: x.m.Index, Begin: x.m.Begin, Length: x.m.Length})
						continue
					}
					out = append(out, x.m)
				case vh.MsgCancel:
					tr.emit(ev{"op": "PLCancel", "p": x.m.Index, "b": x.m.Begin / blk})
					del(x.m)
				}
			}
		}
		served := 0
		serve := func(k int) {
			for i := 0; i < k && len(out) > 0; i++ {
				m := out[0]
				out = out[1:]
				served++
				tr.emit(ev{"op": "PLPiece", "p": m.Index, "b": m.Begin / blk})
				pd := tor.PieceData(int(m.Index))
				p.c.Send(vh.Msg{ID: vh.MsgPiece, Index: m.Index, Begin: m.Begin, Data: pd[m.Begin : m.Begin+m.Length]})
			}
		}
		// the script advances on rain's own view (loop snapshot), not on wall-clock guesses: a slow loop must not make
		// requests of an earlier round look like requests of the current one
		seen := func(chokingNow bool) {
			if !e.hub.Wait("t1", 20*time.Second, func(v *torrent.VerifSnap) bool { return len(v.PeerList) > 0 && v.PeerList[0].PeerChoking == chokingNow }) {
				fmt.Fprintln(os.Stderr, "pipeline: rain does not handle our choke/unchoke")
				os.Exit(2)
			}
		}
		unchoke := func() {
			tr.emit(ev{"op": "PLUnchoke"})
			choking = false
			p.c.Send(vh.Msg{ID: vh.MsgUnchoke})
			seen(false)
		}
		reject := func(m vh.Msg) {
			tr.emit(ev{"op": "PLReject", "p": m.Index, "b": m.Begin / blk})
			p.c.Send(vh.Msg{ID: vh.MsgReject, Index: m.Index, Begin: m.Begin, Length: m.Length})
		}
		choke := func() {
			tr.emit(ev{"op": "PLChoke"})
			choking = true
			p.c.Send(vh.Msg{ID: vh.MsgChoke})
			if p.fast {
				// only requests that are open are rejected (except the one repeated reject of the hostile variant)
				o := append([]vh.Msg(nil), out...)
				switch rej {
				case "lifo":
					for i, j := 0, len(o)-1; i < j; i, j = i+1, j-1 {
						o[i], o[j] = o[j], o[i]
					}
				case "shuf":
					rng.Shuffle(len(o), func(i, j int) { o[i], o[j] = o[j], o[i] })
				}
				for i, m := range o {
					reject(m)
					if rej == "dup" && i == 0 {
						tr.emit(ev{"op": "PLHostile", "p": m.Index, "b": m.Begin / blk})
						p.c.Send(vh.Msg{ID: vh.MsgReject, Index: m.Index, Begin: m.Begin, Length: m.Length})
					}
				}
			}
			out = nil
			// what rain sent before it handled the choke must have arrived before we unchoke again (otherwise stale requests
			// would be counted together with the new ones): wait for the loop snapshot that shows the choke, then for silence
			seen(true)
			settle(400 * time.Millisecond)
		}
		// one block at a time: rain's reaction to each block (new requests) is on the wire before the next block is served
		drain := func(steps int) {
			for i := 0; i < steps && len(out) > 0; i++ {
				serve(1)
				settle(45 * time.Millisecond)
			}
		}
		q := 150 * time.Millisecond
		settle(q) // interested
		unchoke()
		settle(q)
		serve(3)
		settle(q)
		choke() // in the middle of piece 0
		settle(q)
		unchoke()
		settle(q)
		if p.fast {
			for i := 0; i < 2 && len(out) > 0; i++ {
				m := out[len(out)-1]
				out = out[:len(out)-1]
				reject(m)
			}
			settle(q)
		}
		drain(18) // to the end of piece 0 (the rejected blocks are requested again there) and into piece 1
		for n := served + 12; served < n && len(out) > 0; { // in bulk across the next piece boundary
			serve(len(out))
			settle(60 * time.Millisecond)
		}
		choke()
		settle(q)
		unchoke()
		settle(q)
		drain(18)
		tr.emit(ev{"op": "PLEnd", "left": len(out)})
		p.c.Close()
		call(tr, "pipeline", "Session.Close", 30*time.Second, func() { s.Close() })
	})
}

// ---------------------------------------------------------------------------------------------------- ram

var ramLimits = []int64{16 << 10, 32 << 10, 64 << 10, 96 << 10, 256 << 10, 1 << 30, 0, 48 << 10}

func ramRun(tr *tracer, idx int, seed int64) {
	limit := ramLimits[idx%len(ramLimits)]
	plens := []int{32 << 10, 64 << 10, 32 << 10}
	nt := 2 + idx/len(ramLimits)%2
	plens = plens[:nt]
	tr.emit(ev{"op": "Init", "sub": "ram", "idx": idx, "limit": limit, "plens": plens})
	guard(tr, "ram", 90*time.Second, "scenario", func() {
		e := newEnv(true)
		defer e.close()
		s, prov := e.session(func(c *torrent.Config) {
			c.WriteCacheSize = limit
			c.MaxPeerAccept = 20
		})
		var tors []*vh.Torrent
		var ts []*torrent.Torrent
		for i, pl := range plens {
			tor := vh.Build(flat(fmt.Sprint("ram", i), pl, 8-2*i, 100*i), seed+int64(i), nil, nil)
			id := fmt.Sprint("t", i+1)
			prov.Truth[id] = tor
			t, err := s.AddTorrent(bytes.NewReader(tor.Bytes), &torrent.AddTorrentOptions{ID: id})
			if err != nil {
				fmt.Fprintln(os.Stderr, "AddTorrent:", err)
				os.Exit(2)
			}
			tors, ts = append(tors, tor), append(ts, t)
		}
		stopPoll := make(chan struct{})
		var pwg sync.WaitGroup
		pwg.Add(1)
		go func() { // the session gauges, read while everything is in motion
			defer pwg.Done()
			var last [3]int64
			first := true
			for {
				select {
				case <-stopPoll:
					return
				default:
				}
				st := s.Stats()
				cur := [3]int64{st.WriteCacheSize, int64(st.WriteCacheObjects), int64(st.WriteCachePendingKeys)}
				if first || cur != last {
					tr.emit(ev{"op": "RamStats", "size": cur[0], "objects": cur[1], "pending": cur[2]})
					last, first = cur, false
				}
				time.Sleep(500 * time.Microsecond)
			}
		}()
		for i, t := range ts {
			id := fmt.Sprint("t", i+1)
			if !e.hub.Wait(id, 25*time.Second, func(v *torrent.VerifSnap) bool { return v.Status == "Downloading" && v.Acceptor && v.Port != 0 }) {
				skip(e, tr, "ram", "torrent does not reach Downloading")
				close(stopPoll)
				pwg.Wait()
				go s.Close()
				return
			}
			for k := 0; k < 3; k++ {
				_, err := vh.ConnectSeeder(e.T, fmt.Sprint("s", i, k), fmt.Sprintf("127.0.%d.%d", i+1, k+2), fmt.Sprintf("127.0.0.1:%d", t.Port()), tors[i],
					&vh.SeederPolicy{BlockDelay: 300 * time.Microsecond})
				if err != nil {
					fmt.Fprintln(os.Stderr, "seeder:", err)
					os.Exit(2)
				}
			}
		}
		for i, t := range ts {
			fits := int64(plens[i]) <= limit
			done := false
			wait := 8 * time.Second
			if !fits {
				wait = 400 * time.Millisecond
			}
			select {
			case <-t.NotifyComplete():
				done = true
			case <-time.After(wait):
			}
			// the loop must stay responsive whatever the limit is
			call(tr, "ram", "Torrent.Stats", 20*time.Second, func() { t.Stats() })
			tr.emit(ev{"op": "RamDone", "tid": i + 1, "complete": done, "fits": fits})
		}
		for i, t := range ts {
			t.Stop()
			id := fmt.Sprint("t", i+1)
			e.hub.Wait(id, 8*time.Second, func(v *torrent.VerifSnap) bool { return v.Status == "Stopped" })
		}
		time.Sleep(20 * time.Millisecond)
		close(stopPoll)
		pwg.Wait()
		// loop snapshots: downloads per torrent (in occurrence order, changes only)
		lastD := map[string]int{}
		for _, x := range e.T.Snapshot() {
			if x["ev"] != "snap" {
				continue
			}
			id, _ := x["tid"].(string)
			d := toInt(x["downloads"])
			if v, ok := lastD[id]; ok && v == d {
				continue
			}
			lastD[id] = d
			tid, _ := strconv.Atoi(strings.TrimPrefix(id, "t"))
			tr.emit(ev{"op": "RamSnap", "tid": tid, "downloads": d})
		}
		st := s.Stats()
		tr.emit(ev{"op": "RamRest", "size": st.WriteCacheSize, "objects": st.WriteCacheObjects, "pending": st.WriteCachePendingKeys})
		call(tr, "ram", "Session.Close", 30*time.Second, func() { s.Close() })
	})
}

func toInt(v any) int {
	switch x := v.(type) {
	case float64:
		return int(x)
	case int:
		return x
	case int64:
		return int(x)
	}
	return 0
}

// ---------------------------------------------------------------------------------------------------- webseed

// wsFarm is a set of scripted BEP 19 servers that know how many of their requests are in flight.
type wsFarm struct {
	tor      *vh.Torrent
	srvs     []*http.Server
	urls     []string
	inflight atomic.Int64
	capD     int
	tr       *tracer
	mu       sync.Mutex
	nreq     []int
	failAt   map[int]int         // server -> request number answered with 500
	corrupt  func(abs int64) bool // flip that byte (server 1 only)
	chunk    int
	delay    time.Duration
	quiet    bool // do not log requests (rate / config scenarios)
	corruptAll bool // every server corrupts (default: server 2 only)
}

func newFarm(tr *tracer, tor *vh.Torrent, k, capD int) *wsFarm {
	f := &wsFarm{tor: tor, capD: capD, tr: tr, nreq: make([]int, k), failAt: map[int]int{}, chunk: blk, delay: 4 * time.Millisecond}
	for i := 0; i < k; i++ {
		l, err := net.Listen("tcp4", "127.0.0.1:0")
		if err != nil {
			fmt.Fprintln(os.Stderr, err)
			os.Exit(2)
		}
		i := i
		srv := &http.Server{Handler: http.HandlerFunc(func(rw http.ResponseWriter, r *http.Request) { f.serve(i, rw, r) })}
		go srv.Serve(l)
		f.srvs = append(f.srvs, srv)
		f.urls = append(f.urls, "http://"+l.Addr().String()+"/")
	}
	return f
}

func (f *wsFarm) close() {
	for _, s := range f.srvs {
		s.Close()
	}
}

// watch samples the number of requests in flight.  A download that rain has just closed may not have been noticed by
// its server yet, so a momentary overshoot proves nothing; the longest uninterrupted time above the cap does.
func (f *wsFarm) watch(stop chan struct{}) (overMs *atomic.Int64, peak *atomic.Int64) {
	overMs, peak = &atomic.Int64{}, &atomic.Int64{}
	go func() {
		var since time.Time
		for {
			select {
			case <-stop:
				return
			case <-time.After(10 * time.Millisecond):
			}
			c := f.inflight.Load()
			if c > peak.Load() {
				peak.Store(c)
			}
			if int(c) > f.capD {
				if since.IsZero() {
					since = time.Now()
				}
				if d := time.Since(since).Milliseconds(); d > overMs.Load() {
					overMs.Store(d)
				}
			} else {
				since = time.Time{}
			}
		}
	}()
	return
}

func (f *wsFarm) serve(si int, rw http.ResponseWriter, r *http.Request) {
	n := int(f.inflight.Add(1))
	defer f.inflight.Add(-1)
	if !f.quiet {
		f.tr.emit(ev{"op": "WsHttp", "src": si + 1, "inflight": n})
	}
	f.mu.Lock()
	f.nreq[si]++
	k := f.nreq[si]
	f.mu.Unlock()
	if f.failAt[si] == k {
		rw.WriteHeader(500)
		return
	}
	p, _ := url.PathUnescape(strings.TrimPrefix(r.URL.EscapedPath(), "/"))
	fi := -1
	for i := range f.tor.Files {
		if !f.tor.Files[i].Pad && strings.ReplaceAll(f.tor.StoragePath(i), "\\", "/") == p {
			fi = i
		}
	}
	if fi < 0 {
		rw.WriteHeader(404)
		return
	}
	data := f.tor.FileData(fi)
	lo, hi := int64(0), int64(len(data))-1
	if rng := r.Header.Get("Range"); strings.HasPrefix(rng, "bytes=") {
		parts := strings.SplitN(strings.TrimPrefix(rng, "bytes="), "-", 2)
		lo, _ = strconv.ParseInt(parts[0], 10, 64)
		if len(parts) > 1 && parts[1] != "" {
			hi, _ = strconv.ParseInt(parts[1], 10, 64)
		}
	}
	if lo < 0 || hi >= int64(len(data)) || lo > hi {
		rw.WriteHeader(416)
		return
	}
	out := append([]byte(nil), data[lo:hi+1]...)
	if f.corrupt != nil && (si == 1 || f.corruptAll) {
		base := f.tor.FileStart(fi) + lo
		for i := range out {
			if f.corrupt(base + int64(i)) {
				out[i] ^= 0x5a
			}
		}
	}
	rw.Header().Set("Content-Range", fmt.Sprintf("bytes %d-%d/%d", lo, hi, len(data)))
	rw.Header().Set("Content-Length", strconv.Itoa(len(out)))
	rw.WriteHeader(206)
	for len(out) > 0 {
		c := min(f.chunk, len(out))
		if _, err := rw.Write(out[:c]); err != nil {
			return
		}
		if fl, ok := rw.(http.Flusher); ok {
			fl.Flush()
		}
		out = out[c:]
		select {
		case <-time.After(f.delay):
		case <-r.Context().Done():
			return
		}
	}
}

var wsK = []int{1, 3, 7, 10, 12, 15}
var wsCapS = []int{0, 1, 5, 10, 12}
var wsCapD = []int{0, 1, 2, 4}
var wsVariant = []string{"plain", "error", "corrupt", "stopstart", "slow", "corruptlast"}

func webseedRun(tr *tracer, idx int, seed int64) {
	// 30 scenarios give every pair (k, capS); capD and the variant cycle with co-prime strides
	k, capS, capD, variant := wsK[idx%6], wsCapS[(idx/6)%5], wsCapD[(idx+idx/6)%4], wsVariant[(idx*5+idx/6)%6]
	tr.emit(ev{"op": "Init", "sub": "webseed", "idx": idx, "k": k, "caps": capS, "capd": capD, "variant": variant})
	guard(tr, "webseed", 60*time.Second, "scenario", func() {
		e := newEnv(true)
		defer e.close()
		lay := flat("ws", 2*blk, 20, 77)
		tor0 := vh.Build(lay, seed, nil, nil)
		farm := newFarm(tr, tor0, k, capD)
		defer farm.close()
		tor := vh.Build(lay, seed, nil, farm.urls)
		farm.tor = tor
		stopW := make(chan struct{})
		overMs, peak := farm.watch(stopW)
		switch variant {
		case "slow":
			farm.delay = 60 * time.Millisecond
		case "error":
			farm.failAt[0] = 2
			if k > 2 {
				farm.failAt[2] = 1
			}
		case "corruptlast": // the piece that ends a web-seed range (and the torrent)
			bad := tor.Total - 10
			farm.corrupt = func(abs int64) bool { return abs == bad }
			farm.corruptAll = true
		case "corrupt":
			bad := int64(5*tor.PieceLen + 100)
			farm.corrupt = func(abs int64) bool { return abs == bad }
		}
		s, prov := e.session(func(c *torrent.Config) {
			c.WebseedMaxSources = capS
			c.WebseedMaxDownloads = capD
			c.WebseedRetryInterval = 200 * time.Millisecond
		})
		prov.Truth[""] = tor
		t, err := s.AddTorrent(bytes.NewReader(tor.Bytes), &torrent.AddTorrentOptions{ID: "t1"})
		if err != nil {
			fmt.Fprintln(os.Stderr, "AddTorrent:", err)
			os.Exit(2)
		}
		if !e.hub.Wait("t1", 25*time.Second, func(v *torrent.VerifSnap) bool { return v.Status == "Downloading" && v.Acceptor && v.Port != 0 }) {
			skip(e, tr, "webseed", "torrent does not reach Downloading")
			go s.Close()
			return
		}
		// a slow honest peer as well: web-seed ranges get stolen / truncated by peer downloads
		vh.ConnectSeeder(e.T, "peer", "127.0.0.2", fmt.Sprintf("127.0.0.1:%d", t.Port()), tor, &vh.SeederPolicy{BlockDelay: 4 * time.Millisecond})
		if variant == "stopstart" {
			time.Sleep(60 * time.Millisecond)
			t.Stop()
			e.hub.Wait("t1", 8*time.Second, func(v *torrent.VerifSnap) bool { return v.Status == "Stopped" })
			t.Start()
			if e.hub.Wait("t1", 8*time.Second, func(v *torrent.VerifSnap) bool { return v.Status == "Downloading" && v.Acceptor && v.Port != 0 }) {
				vh.ConnectSeeder(e.T, "peer2", "127.0.0.3", fmt.Sprintf("127.0.0.1:%d", t.Port()), tor, &vh.SeederPolicy{BlockDelay: 4 * time.Millisecond})
			}
		}
		done := false
		select {
		case <-t.NotifyComplete():
			done = true
		case <-time.After(8 * time.Second):
		}
		call(tr, "webseed", "Torrent.Stats", 20*time.Second, func() { t.Stats() })
		var last [3]int
		first := true
		for _, x := range e.T.Snapshot() {
			if x["ev"] != "snap" {
				continue
			}
			nr := 0
			if r, ok := x["webseedRanges"].([]any); ok {
				nr = len(r)
			}
			cur := [3]int{toInt(x["webseedSources"]), toInt(x["webseedActive"]), nr}
			if !first && cur == last {
				continue
			}
			last, first = cur, false
			tr.emit(ev{"op": "WsSnap", "sources": cur[0], "active": cur[1], "ranges": cur[2]})
		}
		close(stopW)
		tr.emit(ev{"op": "WsEnd", "complete": done, "overms": overMs.Load(), "peak": peak.Load()})
		call(tr, "webseed", "Session.Close", 30*time.Second, func() { s.Close() })
	})
}

// ---------------------------------------------------------------------------------------------------- rate

// buckets of 100 ms
type meter struct {
	mu sync.Mutex
	t0 time.Time
	b  []int64
}

func (m *meter) add(n int) {
	m.mu.Lock()
	if m.t0.IsZero() {
		m.t0 = time.Now()
	}
	k := int(time.Since(m.t0) / (100 * time.Millisecond))
	for len(m.b) <= k {
		m.b = append(m.b, 0)
	}
	m.b[k] += int64(n)
	m.mu.Unlock()
}

func rateRun(tr *tracer, idx int, seed int64) {
	kind := *fMode
	rateKB := []int64{128, 64, 256}[idx%3]
	secs := 4
	total := int(rateKB) * 1024 * (secs + 1)
	plen := 2 * blk
	npieces := (total + plen - 1) / plen
	tr.emit(ev{"op": "Init", "sub": "rate", "idx": idx, "kind": kind, "rate": rateKB * 1024, "step": 100})
	guard(tr, "rate", 90*time.Second, "scenario", func() {
		e := newEnv(kind == "ws")
		defer e.close()
		lay := flat("rate", plen, npieces, 0)
		m := &meter{}
		slack := 0
		var reqAt, arrAt []int64
		t0 := time.Now()
		switch kind {
		case "down":
			tor := vh.Build(lay, seed, nil, nil)
			s, prov := e.session(func(c *torrent.Config) { c.SpeedLimitDownload = rateKB; c.MaxRequestsOut = 2 })
			prov.Truth[""] = tor
			t, _ := s.AddTorrent(bytes.NewReader(tor.Bytes), &torrent.AddTorrentOptions{ID: "t1"})
			e.hub.Wait("t1", 25*time.Second, func(v *torrent.VerifSnap) bool { return v.Status == "Downloading" && v.Acceptor && v.Port != 0 })
			for k := 0; k < 2; k++ {
				pol := &vh.SeederPolicy{Reply: func(s *vh.Seeder, req vh.Msg) ([]vh.Msg, bool) { m.add(int(req.Length)); return nil, false }}
				vh.ConnectSeeder(e.T, fmt.Sprint("s", k), fmt.Sprintf("127.0.0.%d", k+2), fmt.Sprintf("127.0.0.1:%d", t.Port()), tor, pol)
			}
			// what the scripted side has sent may be ahead of what rain has taken through its bucket by the
			// requests in flight: 2 peers x MaxRequestsOut 2, plus one block of slack
			slack = (2*2 + 1) * blk
			select {
			case <-t.NotifyComplete():
			case <-time.After(40 * time.Second):
			}
			defer func() { call(tr, "rate", "Session.Close", 30*time.Second, func() { s.Close() }) }()
		case "up":
			tor := vh.Build(lay, seed, nil, nil)
			s, t := seedSession(e, tr, "rate", tor, func(c *torrent.Config) { c.SpeedLimitUpload = rateKB })
			if s == nil {
				return
			}
			torrent.VerifSetUnchokePeriod(t, 30*time.Millisecond)
			p, err := dialPeer(e, "leech", "127.0.0.2", fmt.Sprintf("127.0.0.1:%d", t.Port()), tor, true, false)
			if err != nil {
				os.Exit(2)
			}
			p.c.Send(vh.Msg{ID: vh.MsgHaveNone})
			p.c.Send(vh.Msg{ID: vh.MsgInterested})
			p.waitFor(vh.MsgUnchoke, 5*time.Second)
			torrent.VerifSetUnchokePeriod(t, time.Hour)
			nb := tor.NumPieces * (plen / blk)
			sent, got := 0, 0
			// A piece cannot have been written before its request was sent and not after it arrived: a window [a, b] certainly
			// contains the pieces requested at or after a that arrived by b (the reader may lag, so arrival times alone prove nothing).
			reqAt = make([]int64, nb)
			arrAt = make([]int64, nb)
			for got < nb {
				for sent < nb && sent-got < 2 {
					reqAt[sent] = e.ms()
					p.c.Send(blockReq(tor, sent))
					sent++
				}
				x, ok := p.next(20 * time.Second)
				if !ok {
					break
				}
				if x.m.ID == vh.MsgPiece {
					m.add(len(x.m.Data))
					if b := blockNo(tor, x.m); b < nb {
						arrAt[b] = x.t
					}
					got++
				} else if x.m.ID == vh.MsgReject {
					got++
				}
			}
			slack = blk
			p.c.Close()
			defer func() { call(tr, "rate", "Session.Close", 30*time.Second, func() { s.Close() }) }()
		case "ws":
			tor0 := vh.Build(lay, seed, nil, nil)
			farm := newFarm(tr, tor0, 1, 1)
			farm.delay = 0
			farm.chunk = 1 << 20
			farm.quiet = true
			defer farm.close()
			tor := vh.Build(lay, seed, nil, farm.urls)
			farm.tor = tor
			s, prov := e.session(func(c *torrent.Config) { c.SpeedLimitDownload = rateKB; c.WebseedMaxDownloads = 1 })
			prov.Truth[""] = tor
			t, _ := s.AddTorrent(bytes.NewReader(tor.Bytes), &torrent.AddTorrentOptions{ID: "t1"})
			select {
			case <-t.NotifyComplete():
			case <-time.After(40 * time.Second):
			}
			// pieces that became complete, by the time of the loop snapshot that shows them; what rain took through
			// the bucket in a window is at least what completed in it minus the piece that was partly read before
			prev := 0
			for _, x := range e.T.Snapshot() {
				if x["ev"] != "snap" {
					continue
				}
				h, _ := x["have"].([]any)
				if len(h) > prev {
					if m.t0.IsZero() {
						m.t0 = t0
					}
					k := int(toInt(x["t_ms"])) / 100
					for len(m.b) <= k {
						m.b = append(m.b, 0)
					}
					for i := prev; i < len(h); i++ {
						m.b[k] += int64(tor.PieceLenOf(toInt(h[i])))
					}
					prev = len(h)
				}
			}
			slack = 2 * plen
			defer func() { call(tr, "rate", "Session.Close", 30*time.Second, func() { s.Close() }) }()
		default:
			fmt.Fprintln(os.Stderr, "rate: unknown -mode", kind)
			os.Exit(2)
		}
		var sum int64
		for _, v := range m.b {
			sum += v
		}
		if reqAt == nil {
			reqAt, arrAt = []int64{}, []int64{}
		}
		tr.emit(ev{"op": "RateBuckets", "b": m.b, "slack": slack, "bytes": sum, "total": total, "dur": time.Since(t0).Milliseconds(),
			"req": reqAt, "arr": arrAt, "blk": blk})
	})
}

// ---------------------------------------------------------------------------------------------------- config

type cfgParam struct {
	name string
	vals []int64
	set  func(c *torrent.Config, v int64)
}

var cfgParams = []cfgParam{
	{"MaxRequestsIn", []int64{0, 1, 250}, func(c *torrent.Config, v int64) { c.MaxRequestsIn = int(v) }},
	{"MaxRequestsOut", []int64{0, 1, 250}, func(c *torrent.Config, v int64) { c.MaxRequestsOut = int(v) }},
	{"DefaultRequestsOut", []int64{0, 1, 50}, func(c *torrent.Config, v int64) { c.DefaultRequestsOut = int(v) }},
	{"WriteCacheSize", []int64{0, 32 << 10, 1 << 30}, func(c *torrent.Config, v int64) { c.WriteCacheSize = v }},
	{"ReadCacheSize", []int64{0, 1, 256 << 20}, func(c *torrent.Config, v int64) { c.ReadCacheSize = v }},
	{"ReadCacheBlockSize", []int64{1, 16 << 10, 128 << 10}, func(c *torrent.Config, v int64) { c.ReadCacheBlockSize = v }},
	{"ParallelReads", []int64{0, 1, 2}, func(c *torrent.Config, v int64) { c.ParallelReads = uint(v) }},
	{"ParallelWrites", []int64{0, 1, 2}, func(c *torrent.Config, v int64) { c.ParallelWrites = uint(v) }},
	{"UnchokedPeers", []int64{0, 1, 3}, func(c *torrent.Config, v int64) { c.UnchokedPeers = int(v) }},
	{"OptimisticUnchokedPeers", []int64{0, 1}, func(c *torrent.Config, v int64) { c.OptimisticUnchokedPeers = int(v) }},
	{"MaxPeerDial", []int64{0, 1, 80}, func(c *torrent.Config, v int64) { c.MaxPeerDial = int(v) }},
	{"MaxPeerAccept", []int64{0, 1, 20}, func(c *torrent.Config, v int64) { c.MaxPeerAccept = int(v) }},
	{"MaxPeerAddresses", []int64{0, 1, 2000}, func(c *torrent.Config, v int64) { c.MaxPeerAddresses = int(v) }},
	{"EndgameMaxDuplicateDownloads", []int64{0, 1, 20}, func(c *torrent.Config, v int64) { c.EndgameMaxDuplicateDownloads = int(v) }},
	{"WebseedMaxSources", []int64{0, 1, 10}, func(c *torrent.Config, v int64) { c.WebseedMaxSources = int(v) }},
	{"WebseedMaxDownloads", []int64{0, 1, 4}, func(c *torrent.Config, v int64) { c.WebseedMaxDownloads = int(v) }},
	{"SpeedLimitDownload", []int64{0, 1, 4096}, func(c *torrent.Config, v int64) { c.SpeedLimitDownload = v }},
	{"SpeedLimitUpload", []int64{0, 1, 4096}, func(c *torrent.Config, v int64) { c.SpeedLimitUpload = v }},
	{"ParallelMetadataDownloads", []int64{0, 1, 2}, func(c *torrent.Config, v int64) { c.ParallelMetadataDownloads = int(v) }},
	{"AllowedFastSet", []int64{0, 1, 10}, func(c *torrent.Config, v int64) { c.AllowedFastSet = int(v) }},
}

// coveringArray builds rows (value index per parameter) so that every pair of values of every two parameters occurs
// in some row (greedy, seeded); row 0 is the all-minimum configuration, row 1 the all-default one.
func coveringArray(seed int64) [][]int {
	rng := rand.New(rand.NewSource(seed))
	np := len(cfgParams)
	type pair struct{ a, va, b, vb int }
	unc := map[pair]bool{}
	for a := 0; a < np; a++ {
		for b := a + 1; b < np; b++ {
			for va := range cfgParams[a].vals {
				for vb := range cfgParams[b].vals {
					unc[pair{a, va, b, vb}] = true
				}
			}
		}
	}
	cover := func(row []int) {
		for a := 0; a < np; a++ {
			for b := a + 1; b < np; b++ {
				delete(unc, pair{a, row[a], b, row[b]})
			}
		}
	}
	gain := func(row []int) int {
		g := 0
		for a := 0; a < np; a++ {
			for b := a + 1; b < np; b++ {
				if unc[pair{a, row[a], b, row[b]}] {
					g++
				}
			}
		}
		return g
	}
	var rows [][]int
	r0, r1 := make([]int, np), make([]int, np)
	for i := range r1 {
		r1[i] = len(cfgParams[i].vals) - 1
	}
	rows = append(rows, r0, r1)
	cover(r0)
	cover(r1)
	for len(unc) > 0 && len(rows) < 200 {
		var best []int
		bg := -1
		for c := 0; c < 40; c++ {
			row := make([]int, np)
			for i := range row {
				row[i] = rng.Intn(len(cfgParams[i].vals))
			}
			if g := gain(row); g > bg {
				best, bg = row, g
			}
		}
		rows = append(rows, best)
		cover(best)
	}
	return rows
}

func configRun(tr *tracer, idx int, seed int64) {
	rows := coveringArray(*fSeed)
	row := rows[idx%len(rows)]
	vals := map[string]int64{}
	for i, p := range cfgParams {
		vals[p.name] = p.vals[row[i]]
	}
	tr.emit(ev{"op": "Init", "sub": "config", "idx": idx, "nrows": len(rows), "cfg": vals})
	guard(tr, "config", 60*time.Second, "scenario", func() {
		e := newEnv(false)
		defer e.close()
		lay := flat("cfg", 2*blk, 6, 5)
		tor0 := vh.Build(lay, seed, nil, nil)
		farm := newFarm(tr, tor0, 2, 1<<30)
		farm.delay = time.Millisecond
		farm.quiet = true
		defer farm.close()
		tor := vh.Build(lay, seed, nil, farm.urls)
		farm.tor = tor
		s, prov := e.session(func(c *torrent.Config) {
			for i, p := range cfgParams {
				p.set(c, p.vals[row[i]])
			}
		})
		prov.Truth[""] = tor
		t, err := s.AddTorrent(bytes.NewReader(tor.Bytes), &torrent.AddTorrentOptions{ID: "t1"})
		if err != nil {
			fmt.Fprintln(os.Stderr, "AddTorrent:", err)
			os.Exit(2)
		}
		up := e.hub.Wait("t1", 5*time.Second, func(v *torrent.VerifSnap) bool { return v.Status == "Downloading" && v.Acceptor && v.Port != 0 })
		completed, served := false, 0
		if up {
			addr := fmt.Sprintf("127.0.0.1:%d", t.Port())
			vh.ConnectSeeder(e.T, "in", "127.0.0.2", addr, tor, &vh.SeederPolicy{})
			if ls, err := vh.ListenSeeder(e.T, "out", "127.0.0.3", tor, &vh.SeederPolicy{}, nil); err == nil {
				defer ls.Close()
				t.AddPeer(ls.Addr.String())
			}
			select {
			case <-t.NotifyComplete():
				completed = true
			case <-time.After(2500 * time.Millisecond):
			}
			if completed {
				// now it seeds: a leecher asks for a few blocks
				torrent.VerifSetUnchokePeriod(t, 30*time.Millisecond)
				if p, err := dialPeer(e, "leech", "127.0.0.4", addr, tor, true, false); err == nil {
					p.c.Send(vh.Msg{ID: vh.MsgHaveNone})
					p.c.Send(vh.Msg{ID: vh.MsgInterested})
					if p.waitFor(vh.MsgUnchoke, time.Second) {
						for i := 0; i < 4; i++ {
							p.c.Send(blockReq(tor, i))
						}
						dl := time.Now().Add(800 * time.Millisecond)
						for served < 4 && time.Now().Before(dl) {
							x, ok := p.next(time.Until(dl))
							if !ok {
								break
							}
							if x.m.ID == vh.MsgPiece || x.m.ID == vh.MsgReject {
								served++
							}
						}
					}
					p.c.Close()
				}
			}
		}
		call(tr, "config", "Torrent.Stats", 20*time.Second, func() { t.Stats() })
		call(tr, "config", "Session.Stats", 20*time.Second, func() { s.Stats() })
		tr.emit(ev{"op": "CfgDone", "started": up, "completed": completed, "served": served})
		call(tr, "config", "Session.Close", 30*time.Second, func() { s.Close() })
	})
}

