// Command c17 drives the real resource-limit managers of rain (internal/resourcemanager,
// internal/piececache, internal/addrlist, internal/semaphore) with generated operation histories and
// records ndjson events that the TLA+ trace specifications spec/Trace_Limits*.tla judge.
//
// Risky histories (a manager goroutine that panics, a nil timer, a caller that never returns) must not
// take the recorder down: the parent process runs the sub-driver in a CHILD process under a watchdog,
// the child appends every event to the output file with one write(2) per line, and a crash of the child
// is turned into a {"op":"Crash"} event of the history that was running; the parent then restarts the
// child at the next history.
package main

import (
	"bytes"
	"encoding/json"
	"flag"
	"fmt"
	"os"
	"os/exec"
	"regexp"
	"runtime"
	"strings"
	"sync"
	"sync/atomic"
	"time"
)

type ev map[string]any

// tracer serialises events of all goroutines into one global order (the order of the file).
type tracer struct {
	mu   sync.Mutex
	f    *os.File
	n    atomic.Int64 // number of events written (progress indicator for the watchdog)
	stop atomic.Bool  // set after a Hang was recorded: the rest of the history is not logged
}

func (t *tracer) emit(e ev) {
	b, err := json.Marshal(e)
	if err != nil {
		panic(err)
	}
	b = append(b, '\n')
	t.mu.Lock()
	if !t.stop.Load() || e["op"] == "Init" || e["op"] == "Hang" {
		if _, err := t.f.Write(b); err != nil {
			panic(err)
		}
	}
	t.mu.Unlock()
	t.n.Add(1)
}

var (
	fSub   = flag.String("sub", "", "sub-driver: rm | cache | cacheconc | addr | sem")
	fSeed  = flag.Int64("seed", 1, "seed")
	fN     = flag.Int("n", 10, "number of histories")
	fFrom  = flag.Int("from", 0, "first history index (child)")
	fOut   = flag.String("out", "trace.ndjson", "output file (appended)")
	fChild = flag.Bool("child", false, "run as the contained child")
	fOps   = flag.Int("ops", 12, "operations per history / goroutine")
	fMode  = flag.String("mode", "", "sub-driver specific scenario family")
	fFirst = flag.Int("first", 0, "first history index (parent): histories first .. n-1 are run")
)

type subdriver func(tr *tracer, idx int, seed int64)

var subs = map[string]subdriver{}

func main() {
	flag.Parse()
	if _, ok := subs[*fSub]; !ok {
		fmt.Fprintln(os.Stderr, "unknown -sub", *fSub)
		os.Exit(2)
	}
	if *fChild {
		child()
		return
	}
	parent()
}

func child() {
	f, err := os.OpenFile(*fOut, os.O_APPEND|os.O_WRONLY|os.O_CREATE, 0o644)
	if err != nil {
		fmt.Fprintln(os.Stderr, err)
		os.Exit(2)
	}
	tr := &tracer{f: f}
	run := subs[*fSub]
	for i := *fFrom; i < *fN; i++ {
		tr.stop.Store(false)
		run(tr, i, *fSeed*1000003+int64(i))
	}
	f.Close()
}

var reIdx = regexp.MustCompile(`"idx":(\d+)`)

// lastIdx returns the index of the last history started in the file (-1 if none) and truncates a torn last line.
func lastIdx(path string) int {
	b, err := os.ReadFile(path)
	if err != nil {
		return -1
	}
	if len(b) > 0 && b[len(b)-1] != '\n' {
		k := bytes.LastIndexByte(b, '\n')
		b = b[:k+1]
		_ = os.WriteFile(path, b, 0o644)
	}
	last := -1
	for _, line := range bytes.Split(b, []byte{'\n'}) {
		if bytes.Contains(line, []byte(`"op":"Init"`)) {
			if m := reIdx.FindSubmatch(line); m != nil {
				fmt.Sscanf(string(m[1]), "%d", &last)
			}
		}
	}
	return last
}

func parent() {
	os.Remove(*fOut)
	from := *fFirst
	crashes := 0
	for from < *fN {
		args := []string{"-child", "-sub", *fSub, "-seed", fmt.Sprint(*fSeed), "-n", fmt.Sprint(*fN), "-from", fmt.Sprint(from),
			"-out", *fOut, "-ops", fmt.Sprint(*fOps), "-mode", *fMode}
		cmd := exec.Command(os.Args[0], args...)
		var stderr bytes.Buffer
		cmd.Stderr = &stderr
		cmd.Stdout = os.Stdout
		if err := cmd.Start(); err != nil {
			fmt.Fprintln(os.Stderr, "cannot start child:", err)
			os.Exit(2)
		}
		done := make(chan error, 1)
		go func() { done <- cmd.Wait() }()
		var err error
		killed := false
		select {
		case err = <-done:
		case <-time.After(120 * time.Second):
			killed = true
			_ = cmd.Process.Signal(os.Interrupt)
			_ = cmd.Process.Kill()
			err = <-done
		}
		if err == nil {
			break
		}
		idx := lastIdx(*fOut)
		if ee, ok := err.(*exec.ExitError); ok && ee.ExitCode() == 3 && !killed && idx >= from {
			// the child recorded a Hang event for history idx and gave up on it
			from = idx + 1
			continue
		}
		crashes++
		if idx < from-1 || crashes > 400 {
			fmt.Fprintf(os.Stderr, "child failed without progress (idx=%d from=%d crashes=%d): %v\n%s\n", idx, from, crashes, err, tail(stderr.String(), 4000))
			os.Exit(2)
		}
		msg, where := panicInfo(stderr.String())
		if killed {
			msg, where = "watchdog: child did not finish within 120s", ""
		}
		if msg == "" {
			fmt.Fprintf(os.Stderr, "child died without a Go panic: %v\n%s\n", err, tail(stderr.String(), 4000))
			os.Exit(2)
		}
		f, _ := os.OpenFile(*fOut, os.O_APPEND|os.O_WRONLY, 0o644)
		b, _ := json.Marshal(ev{"op": "Crash", "msg": msg, "where": where})
		f.Write(append(b, '\n'))
		f.Close()
		if idx < 0 {
			idx = from
		}
		from = idx + 1
	}
	fmt.Printf("{\"crashes\":%d}\n", crashes)
}

func tail(s string, n int) string {
	if len(s) > n {
		return s[len(s)-n:]
	}
	return s
}

var reFrame = regexp.MustCompile(`(?m)^github\.com/cenkalti/rain/v2/(?:internal/)?([a-z]+)\.([^\n(]*(?:\([^\n)]*\))?[^\n(]*)\(`)

// panicInfo extracts the panic message and the first frames inside rain's internal packages (not the harness).
func panicInfo(stderr string) (string, string) {
	i := strings.Index(stderr, "panic: ")
	j := strings.Index(stderr, "fatal error: ")
	if i < 0 || (j >= 0 && j < i) {
		i = j
	}
	if i < 0 {
		return "", ""
	}
	msg := stderr[i:]
	if k := strings.IndexByte(msg, '\n'); k >= 0 {
		msg = msg[:k]
	}
	if len(msg) > 200 {
		msg = msg[:200]
	}
	var frames []string
	for _, m := range reFrame.FindAllStringSubmatch(stderr[i:], -1) {
		if m[1] == "verif" {
			continue
		}
		fr := m[1] + "." + strings.TrimSpace(m[2])
		fr = strings.ReplaceAll(fr, "[...]", "")
		frames = append(frames, fr)
		if len(frames) == 3 {
			break
		}
	}
	return msg, strings.Join(frames, " < ")
}

// goroutineDump returns the stacks of all goroutines, one block per goroutine.
func goroutineDump() []string {
	buf := make([]byte, 1<<20)
	n := runtime.Stack(buf, true)
	return strings.Split(string(buf[:n]), "\n\n")
}
