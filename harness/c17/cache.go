package main

// Sub-drivers cache (sequential operation sequences) and cacheconc (concurrent readers whose loaders are
// gates opened by a scheduler) for the real internal/piececache.
//
// Values are self-describing: a value of sz units is 4*sz bytes, the first 4 bytes hold (key, version lo,
// version hi, checksum) and the rest a pattern derived from them, so the harness can tell WHICH loaded value
// a Get returned and whether it is intact.  The configured size limit is 4*max+d bytes (d in 0..3: limits that
// are not a multiple of the value size); in units the limit is max.

import (
	"errors"
	"fmt"
	"math/rand"
	"os"
	"sort"
	"sync"
	"sync/atomic"
	"time"

	"github.com/cenkalti/rain/v2/internal/piececache"
)

func init() {
	subs["cache"] = cacheSeqRun
	subs["cacheconc"] = cacheConcRun
}

var errLoad = errors.New("load failed")

func mkValue(k, ver, sz int) []byte {
	b := make([]byte, 4*sz)
	if sz == 0 {
		return b
	}
	b[0], b[1], b[2] = byte(k), byte(ver), byte(ver>>8)
	b[3] = b[0] ^ b[1] ^ b[2] ^ 0x5a
	for j := 4; j < len(b); j++ {
		b[j] = byte(j*7) ^ b[0] ^ b[1]
	}
	return b
}

// decode returns (key, sz, ver); ver = -1 when the value is not intact. An empty value carries no identity:
// it is reported as (askedKey, 0, 0).
func decode(b []byte, askedKey int) (int, int, int) {
	if len(b) == 0 {
		return askedKey, 0, 0
	}
	if len(b)%4 != 0 || b[3] != b[0]^b[1]^b[2]^0x5a {
		return askedKey, len(b) / 4, -1
	}
	for j := 4; j < len(b); j++ {
		if b[j] != byte(j*7)^b[0]^b[1] {
			return askedKey, len(b) / 4, -1
		}
	}
	return int(b[0]), len(b) / 4, int(b[1]) | int(b[2])<<8
}

type cacheSim struct {
	tr   *tracer
	c    *piececache.Cache
	ver  atomic.Int64
	max   int
	keys  int
	short bool
}

func keyName(k int) string { return fmt.Sprint("piece-", k) }

func keyNum(s string) int {
	var k int
	fmt.Sscanf(s, "piece-%d", &k)
	return k
}

func (s *cacheSim) snap() {
	sn := s.c.VerifSnapshot()
	ents := [][]int{}
	for _, e := range sn.Heap {
		k, sz, ver := decode(e.Value, keyNum(e.Key))
		if k != keyNum(e.Key) {
			ver = -1
		}
		ents = append(ents, []int{keyNum(e.Key), sz, ver})
	}
	sort.Slice(ents, func(i, j int) bool { return ents[i][0] < ents[j][0] || (ents[i][0] == ents[j][0] && ents[i][2] < ents[j][2]) })
	// The exported gauges are separate calls; with a short TTL an expiry timer may run between them, so
	// they are only compared with the locked projection when nothing can change the cache concurrently.
	size, n := sn.Size, sn.Items
	if !s.short {
		size, n = s.c.Size(), s.c.Len()
	}
	s.tr.emit(ev{"op": "Snap", "size": size / 4, "rem": size % 4, "len": n, "ents": ents, "heapok": sn.HeapOK && sn.Size == size,
		"timersok": sn.TimersOK, "active": s.c.LoadsActive(), "waiting": s.c.LoadsWaiting()})
}

func (s *cacheSim) poll() {
	size := s.c.Size()
	s.tr.emit(ev{"op": "Poll", "size": size / 4, "rem": size % 4, "active": s.c.LoadsActive()})
}

// get performs one Get on goroutine g; the loader produces (sz, fail) after waiting for gate (nil = no gate).
func (s *cacheSim) get(g, k, sz int, fail bool, gate chan struct{}, entered chan struct{}) {
	s.tr.emit(ev{"op": "call", "g": g, "f": "Get", "k": k})
	b, err := s.c.Get(keyName(k), func() ([]byte, error) {
		s.tr.emit(ev{"op": "LoaderEnter", "g": g, "k": k})
		if entered != nil {
			close(entered)
		}
		if gate != nil {
			<-gate
		}
		if fail {
			s.tr.emit(ev{"op": "LoaderExit", "g": g, "k": k, "sz": 0, "ver": 0, "err": true})
			return nil, errLoad
		}
		ver := 0
		if sz > 0 {
			ver = int(s.ver.Add(1))
		}
		s.tr.emit(ev{"op": "LoaderExit", "g": g, "k": k, "sz": sz, "ver": ver, "err": false})
		return mkValue(k, ver, sz), nil
	})
	if err != nil {
		s.tr.emit(ev{"op": "ret", "g": g, "f": "Get", "k": k, "sz": 0, "ver": 0, "err": true})
		return
	}
	rk, rsz, rver := decode(b, k)
	s.tr.emit(ev{"op": "ret", "g": g, "f": "Get", "k": rk, "sz": rsz, "ver": rver, "err": false})
}

func cacheCfg(rng *rand.Rand) (max, d int, par uint) {
	max = []int{0, 0, 1, 2, 2, 3, 4, 6}[rng.Intn(8)]
	d = rng.Intn(4)
	par = uint(1 + rng.Intn(2))
	return
}

func cacheSeqRun(tr *tracer, idx int, seed int64) {
	rng := rand.New(rand.NewSource(seed))
	max, d, par := cacheCfg(rng)
	ttl := time.Hour
	short := rng.Intn(4) == 0
	if short {
		ttl = 3 * time.Millisecond
	}
	nkeys := 2 + rng.Intn(3)
	tr.emit(ev{"op": "Init", "sub": "cache", "idx": idx, "max": max, "d": d, "par": par, "ng": 1, "shortttl": short})
	s := &cacheSim{tr: tr, c: piececache.New(int64(4*max+d), ttl, par), max: max, keys: nkeys, short: short}
	for step := 0; step < *fOps; step++ {
		switch k := rng.Intn(20); {
		case k == 0:
			tr.emit(ev{"op": "Clear"})
			s.c.Clear()
		case k == 1 && short:
			time.Sleep(12 * time.Millisecond)
		default:
			sz := rng.Intn(max + 2)
			s.get(1, 1+rng.Intn(nkeys), sz, rng.Intn(10) == 0, nil, nil)
		}
		s.snap()
	}
	s.c.Close()
}

// cacheConcRun: a scheduler starts readers (goroutines calling Get) and opens the gates of their loaders in a
// generated order; after every scheduler step it lets the readers run up to their next blocking point (bounded
// wait) and polls the gauges.  At the end all gates are opened, the readers are joined and a snapshot is taken.
func cacheConcRun(tr *tracer, idx int, seed int64) {
	rng := rand.New(rand.NewSource(seed))
	max, d, par := cacheCfg(rng)
	nr := 2 + rng.Intn(3)
	nkeys := 1 + rng.Intn(2)
	tr.emit(ev{"op": "Init", "sub": "cacheconc", "idx": idx, "max": max, "d": d, "par": par, "ng": nr, "shortttl": false})
	s := &cacheSim{tr: tr, c: piececache.New(int64(4*max+d), time.Hour, par), max: max, keys: nkeys}
	type reader struct {
		gate, entered, done chan struct{}
		open                bool
	}
	var wg sync.WaitGroup
	rounds := 1 + rng.Intn(2)
	for round := 0; round < rounds; round++ {
		rs := make([]*reader, nr)
		started := 0
		settle := func() {
			// let the readers reach their next blocking point
			time.Sleep(time.Duration(150+rng.Intn(250)) * time.Microsecond)
		}
		for started < nr || func() bool {
			for _, r := range rs {
				if r != nil && !r.open {
					return true
				}
			}
			return false
		}() {
			canStart := started < nr
			var closedGates []int
			for i, r := range rs {
				if r != nil && !r.open {
					closedGates = append(closedGates, i)
				}
			}
			if canStart && (len(closedGates) == 0 || rng.Intn(2) == 0) {
				g := started + 1
				r := &reader{gate: make(chan struct{}), entered: make(chan struct{}), done: make(chan struct{})}
				rs[started] = r
				started++
				k := 1 + rng.Intn(nkeys)
				sz := rng.Intn(max + 2)
				fail := rng.Intn(8) == 0
				wg.Add(1)
				go func() {
					defer wg.Done()
					defer close(r.done)
					s.get(g, k, sz, fail, r.gate, r.entered)
				}()
			} else {
				i := closedGates[rng.Intn(len(closedGates))]
				rs[i].open = true
				close(rs[i].gate)
			}
			settle()
			s.poll()
		}
		joined := make(chan struct{})
		go func() { wg.Wait(); close(joined) }()
		select {
		case <-joined:
		case <-time.After(10 * time.Second):
			tr.emit(ev{"op": "Hang", "g": 0, "f": "Get"})
			fmt.Fprintln(os.Stderr, "cacheconc: readers did not finish")
			os.Exit(3)
		}
		s.snap()
	}
	s.c.Close()
}
