package main

// Sub-driver sem: the real internal/semaphore under concurrent workers.
//
// mode "" (histories): a few workers do Wait / Signal with call/ret lines; an observer goroutine logs Obs lines
//   with Len() and Waiting().  "inside" (ret of Wait ... call of Signal) is judged from the log order.
// mode "stress": many workers hammer Wait/Signal without per-call logging while samplers read Len() in a
//   tight loop; one Stress line summarises the extreme values seen (max Len, min Len, max number of workers
//   inside the critical section counted by the workers themselves).

import (
	"math/rand"
	"runtime"
	"sync"
	"sync/atomic"
	"time"

	"github.com/cenkalti/rain/v2/internal/semaphore"
)

func init() { subs["sem"] = semRun }

func semRun(tr *tracer, idx int, seed int64) {
	rng := rand.New(rand.NewSource(seed))
	if *fMode == "stress" {
		semStress(tr, idx, rng)
		return
	}
	capacity := 1 + rng.Intn(3)
	nw := 2 + rng.Intn(3)
	tr.emit(ev{"op": "Init", "sub": "sem", "idx": idx, "cap": capacity, "ng": nw + 1, "mode": "hist"})
	s := semaphore.New(capacity)
	var wg sync.WaitGroup
	stop := make(chan struct{})
	var owg sync.WaitGroup
	owg.Add(1)
	go func() {
		defer owg.Done()
		for {
			select {
			case <-stop:
				return
			default:
			}
			tr.emit(ev{"op": "Obs", "len": s.Len(), "waiting": s.Waiting()})
			time.Sleep(time.Duration(20+rng.Intn(60)) * time.Microsecond)
		}
	}()
	for w := 1; w <= nw; w++ {
		wg.Add(1)
		go func(g int, r *rand.Rand) {
			defer wg.Done()
			for i := 0; i < *fOps; i++ {
				tr.emit(ev{"op": "call", "g": g, "f": "Wait"})
				s.Wait()
				tr.emit(ev{"op": "ret", "g": g, "f": "Wait"})
				if r.Intn(2) == 0 {
					runtime.Gosched()
				}
				tr.emit(ev{"op": "call", "g": g, "f": "Signal"})
				s.Signal()
				tr.emit(ev{"op": "ret", "g": g, "f": "Signal"})
			}
		}(w, rand.New(rand.NewSource(seed*13+int64(w))))
	}
	wg.Wait()
	close(stop)
	owg.Wait()
	tr.emit(ev{"op": "Obs", "len": s.Len(), "waiting": s.Waiting(), "final": true})
}

func semStress(tr *tracer, idx int, rng *rand.Rand) {
	capacity := 1 + rng.Intn(2)
	nw := 4 + rng.Intn(5)
	tr.emit(ev{"op": "Init", "sub": "sem", "idx": idx, "cap": capacity, "ng": 1, "mode": "stress"})
	s := semaphore.New(capacity)
	var inside, maxInside, maxLen, minLen, samples atomic.Int64
	var stopped atomic.Bool
	var wg, swg sync.WaitGroup
	upd := func(m *atomic.Int64, v int64, up bool) {
		for {
			cur := m.Load()
			if (up && v <= cur) || (!up && v >= cur) || m.CompareAndSwap(cur, v) {
				return
			}
		}
	}
	for i := 0; i < 3; i++ {
		swg.Add(1)
		go func() {
			defer swg.Done()
			for !stopped.Load() {
				v := int64(s.Len())
				upd(&maxLen, v, true)
				upd(&minLen, v, false)
				samples.Add(1)
			}
		}()
	}
	deadline := time.Now().Add(time.Duration(*fOps) * time.Millisecond)
	for w := 0; w < nw; w++ {
		wg.Add(1)
		go func() {
			defer wg.Done()
			for time.Now().Before(deadline) {
				for k := 0; k < 200; k++ {
					s.Wait()
					upd(&maxInside, inside.Add(1), true)
					inside.Add(-1)
					s.Signal()
				}
			}
		}()
	}
	wg.Wait()
	stopped.Store(true)
	swg.Wait()
	tr.emit(ev{"op": "Stress", "cap": capacity, "maxlen": maxLen.Load(), "minlen": minLen.Load(), "maxinside": maxInside.Load(),
		"samples": samples.Load(), "finallen": s.Len(), "finalwaiting": s.Waiting()})
}
