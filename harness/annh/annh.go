// Package annh is the shared helper of the C15/C16 drivers: a scenario recorder that produces the ndjson lines judged by
// spec/Trace_Announce.tla, scripted trackers (on top of vh) that log what they RECEIVE together with what they answer,
// and session helpers.
package annh

import (
	"bufio"
	"bytes"
	"encoding/hex"
	"encoding/json"
	"fmt"
	"net"
	"os"
	"path/filepath"
	"sort"
	"sync"
	"sync/atomic"
	"time"

	"github.com/cenkalti/rain/v2/internal/verif/vh"
	"github.com/cenkalti/rain/v2/torrent"
)

// Null is a tracer that records nothing (the vh components want one).
var Null, _ = vh.NewTracer("")

type AnnCfg struct {
	T  int   `json:"t"`
	Ks []int `json:"ks"`
}
type TorCfg struct {
	IH    string `json:"ih"`
	PID   string `json:"pid"`
	Port  int    `json:"port"`
	Total int64  `json:"total"`
	Left0 int64  `json:"left0"`
	Dmax  int64  `json:"dmax"`
	Umax  int64  `json:"umax"`
}
type TrkCfg struct {
	UDP  bool `json:"udp"`
	Dest int  `json:"dest"`
	Up0  bool `json:"up0"`
}

// Sc records one scenario. Times are milliseconds since T0.
type Sc struct {
	Name   string
	Kind   string
	T0     time.Time
	mu     sync.Mutex
	lines  []map[string]any
	Ann    []AnnCfg
	Tor    []TorCfg
	Trk    []TrkCfg
	Cmin   int // client minimum announce interval (ms)
	Unit   int // ms per tracker interval unit
	Gslack int
	Gapk   int // consecutive short gaps that violate C15.gap
	Bo     int // initial back-off (ms)
	Lat    int
	Slk    int
	Meta   map[string]any
	Err    string // machinery problem (scenario is dropped and reported)
	HTTPTO int    // ms
}

func NewSc(name, kind string) *Sc {
	return &Sc{Name: name, Kind: kind, T0: time.Now(), Unit: 1000, Gslack: 1000, Gapk: 3, Bo: 5000, Lat: 500, Slk: 4000, Meta: map[string]any{}, HTTPTO: 1000}
}

func (s *Sc) Ms(t time.Time) int { return int(t.Sub(s.T0) / time.Millisecond) }
func (s *Sc) Now() int            { return s.Ms(time.Now()) }

// Line appends a trace line stamped with the current time (or "now" if given).
func (s *Sc) Line(op string, kv map[string]any) {
	if kv == nil {
		kv = map[string]any{}
	}
	kv["op"] = op
	s.mu.Lock()
	if _, ok := kv["now"]; !ok {
		kv["now"] = s.Now()
	}
	kv["ord"] = len(s.lines)
	s.lines = append(s.lines, kv)
	s.mu.Unlock()
}

func (s *Sc) Fail(f string, a ...any) {
	s.mu.Lock()
	if s.Err == "" {
		s.Err = fmt.Sprintf(f, a...)
	}
	s.mu.Unlock()
}

// TorIndex maps an info-hash (hex) to the 1-based torrent index (0 = unknown).
func (s *Sc) TorIndex(ih string) int {
	for i, t := range s.Tor {
		if t.IH == ih {
			return i + 1
		}
	}
	return 0
}

func clamp(v int64) int64 {
	if v > 2147483647 {
		return 2147483647
	}
	if v < -2147483647 {
		return -2147483647
	}
	return v
}

// Lines returns the scenario as ndjson-ready objects (Init first, the rest ordered by time).
func (s *Sc) Lines() []map[string]any {
	s.mu.Lock()
	defer s.mu.Unlock()
	init := map[string]any{"op": "Init", "sc": s.Name, "kind": s.Kind, "ann": s.Ann, "tor": s.Tor, "trk": s.Trk, "cmin": s.Cmin, "unit": s.Unit,
		"gslack": s.Gslack, "gapk": s.Gapk, "bo": s.Bo, "lat": s.Lat, "slk": s.Slk, "meta": s.Meta}
	rest := append([]map[string]any(nil), s.lines...)
	sort.SliceStable(rest, func(i, j int) bool {
		a, b := rest[i]["now"].(int), rest[j]["now"].(int)
		if a != b {
			return a < b
		}
		return rest[i]["ord"].(int) < rest[j]["ord"].(int)
	})
	out := []map[string]any{init}
	for _, l := range rest {
		c := map[string]any{"sc": s.Name}
		for k, v := range l {
			if k != "ord" {
				c[k] = v
			}
		}
		out = append(out, c)
	}
	return out
}

// WriteAll writes the scenarios (those without machinery error) to path.
func WriteAll(path string, scs []*Sc) error {
	f, err := os.Create(path)
	if err != nil {
		return err
	}
	w := bufio.NewWriterSize(f, 1<<20)
	for _, s := range scs {
		if s == nil || s.Err != "" {
			continue
		}
		for _, l := range s.Lines() {
			b, err := json.Marshal(l)
			if err != nil {
				return err
			}
			w.Write(b)
			w.WriteByte('\n')
		}
	}
	if err := w.Flush(); err != nil {
		return err
	}
	return f.Close()
}

// Rep is the scripted answer of a tracker to one announce.
type Rep struct {
	Kind  string // ok | fail | garbage | timeout | retry | never(UDP: no answer)
	IV    *int64 // interval (nil = absent)
	MIV   *int64 // min interval (HTTP only; nil = absent)
	Delay time.Duration
	Up    bool // the tracker would answer ok to its next announce
	Peers []*net.TCPAddr
	Status int   // HTTP, kind "garbage": status code of the reply (0 = 200)
	Msg   string // kind "fail": the failure text (UDP: the bytes after the header of the error packet); "" = "scripted failure"
}

func OK(iv, miv *int64) Rep { return Rep{Kind: "ok", IV: iv, MIV: miv, Up: true} }

// Trk is a scripted tracker bound to a scenario.
type Trk struct {
	S     *Sc
	K     int
	UDP   bool
	H     *vh.HTTPTracker
	U     *vh.UDPTracker
	Plan  func(n int, r vh.AnnReq) Rep // n: ordinal (1-based) of the periodic (non-stopped) announces seen
	OnAnn func(n int, r vh.AnnReq)
	mu    sync.Mutex
	n     int
	seen  map[string]*dgram // UDP: first datagram per (connection id, action, transaction id)
	RtxIV int64             // interval answered to the retransmission of a datagram that was ignored (kind "rtx")
	StopDelay time.Duration // delay of the answer to "stopped" (keeps the torrent in Stopping for a while)
	Count atomic.Int64 // all announces, stopped included
	Last  atomic.Int64 // arrival (ms) of the latest announce
	TorOf int          // torrent this tracker is dedicated to (0 = by info-hash only)
	Quiet bool         // do not write `ann` lines (the caller records the announces on the client side)
	// UDP: a BEP 15 connection id is an opaque 64-bit value chosen by the tracker; every connect reply of a scripted tracker
	// carries the next id of a class sequence (0, 1, all ones, sign bit, the protocol magic, half-zero words, hashed values),
	// so the id changes between connects. CidOff >= 0 fixes the class of the FIRST connect reply (-1: derived from the names).
	CidOff    int
	ConnID    func(n int) uint64                     // overrides the class sequence
	OnConnect func(n int) (bool, time.Duration)      // script for connect requests: answer?, delay (nil = answer at once)
}

// CidClasses are the connection-id classes of the scripted UDP trackers (the last one stands for "hashed 64-bit value").
var CidClasses = []string{"zero", "one", "allones", "signbit", "magic", "lo32", "hi32", "hashed"}

func fnv64(s string) uint64 {
	h := uint64(14695981039346656037)
	for i := 0; i < len(s); i++ {
		h = (h ^ uint64(s[i])) * 1099511628211
	}
	return h
}

// CidAt returns class index and value of the connection id of the n-th (1-based) connect reply.
func (k *Trk) CidAt(n int) (int, uint64) {
	off := k.CidOff
	if off < 0 {
		off = int(fnv64(fmt.Sprintf("%s/%d", k.S.Name, k.K)) % uint64(len(CidClasses)))
	}
	c := (off + n - 1) % len(CidClasses)
	switch CidClasses[c] {
	case "zero":
		return c, 0
	case "one":
		return c, 1
	case "allones":
		return c, 0xFFFFFFFFFFFFFFFF
	case "signbit":
		return c, 0x8000000000000000
	case "magic":
		return c, 0x41727101980
	case "lo32":
		return c, 0x00000000FFFFFFFF
	case "hi32":
		return c, 0xFFFFFFFF00000000
	}
	return c, fnv64(fmt.Sprintf("%s/%d/%d", k.S.Name, k.K, n)) | 1<<33
}

func (k *Trk) connect(n int) (bool, time.Duration) {
	c, id := k.CidAt(n)
	cls := CidClasses[c]
	if k.ConnID != nil {
		id, cls = k.ConnID(n), "custom"
	}
	k.U.C16bSetNextConnID(id)
	k.S.Line("note", map[string]any{"what": "connect-request", "k": k.K, "n": n, "cid": cls})
	if k.OnConnect != nil {
		return k.OnConnect(n)
	}
	return true, 0
}

type dgram struct {
	raw      string
	t        int
	at       time.Time
	answered time.Time // zero: not answered yet
	wantRtx  bool      // ignored on purpose: the retransmission is answered
}

func (k *Trk) URL() string {
	if k.UDP {
		return k.U.URL()
	}
	return k.H.URL()
}

func (k *Trk) Close() {
	if k.UDP {
		k.U.Close()
	} else {
		k.H.Close()
	}
}

// NewTrk starts a scripted tracker; k is its 1-based index in the scenario.
func NewTrk(s *Sc, k int, udp bool, plan func(n int, r vh.AnnReq) Rep) (*Trk, error) {
	t := &Trk{S: s, K: k, UDP: udp, Plan: plan, seen: map[string]*dgram{}, RtxIV: 1800, CidOff: -1}
	var err error
	if udp {
		t.U, err = vh.StartUDPTracker(nil, fmt.Sprintf("%s.k%d", s.Name, k), t.script)
		if err == nil {
			t.U.Connect = t.connect
		}
	} else {
		t.H, err = vh.StartHTTPTracker(nil, fmt.Sprintf("%s.k%d", s.Name, k), t.script)
	}
	return t, err
}

func (k *Trk) script(r vh.AnnReq) vh.AnnReply {
	s := k.S
	now := s.Ms(r.At)
	t := s.TorIndex(r.InfoHash)
	if t == 0 {
		t = k.TorOf
	}
	var dg *dgram
	if k.UDP && len(r.Raw) >= 32 {
		// a datagram with a known (connection id, action, transaction id) is a retransmission of that announce: BEP 15 resends
		// the SAME bytes; it is recorded (`rtx`) and compared with the first one instead of counting as a new announce
		key := r.Raw[0:32]
		k.mu.Lock()
		first := k.seen[key]
		if first == nil {
			dg = &dgram{raw: r.Raw, t: t, at: r.At}
			k.seen[key] = dg
		}
		k.mu.Unlock()
		if first != nil {
			k.mu.Lock()
			late := !first.answered.IsZero() && r.At.Sub(first.answered) > time.Second
			answer := first.wantRtx && first.answered.IsZero()
			if answer {
				first.answered = r.At
			}
			k.mu.Unlock()
			line := map[string]any{"k": k.K, "t": first.t, "now": now, "same": r.Raw == first.raw, "late": late, "answered": answer,
				"res": "ok", "iv": k.RtxIV, "miv": 0, "dur": 0, "ih": r.InfoHash, "pid": r.PeerID, "after_ms": int(r.At.Sub(first.at) / time.Millisecond)}
			s.Line("rtx", line)
			if answer {
				return vh.AnnReply{Interval: vh.I64(k.RtxIV)}
			}
			return vh.AnnReply{Drop: true}
		}
	}
	k.Count.Add(1)
	k.Last.Store(int64(now))
	ev := r.Event
	if ev == "" {
		ev = "none"
	}
	line := map[string]any{"k": k.K, "t": t, "ev": ev, "ih": r.InfoHash, "pid": r.PeerID, "port": r.Port, "up": clamp(r.Up), "down": clamp(r.Down),
		"left": clamp(r.Left), "now": now, "key": r.Key, "tp": r.Transport, "numwant": r.NumWant}
	if ev == "stopped" {
		line["res"], line["iv"], line["miv"], line["dur"], line["nxt"], line["kind"] = "ok", 0, 0, 0, true, "ok"
		if !k.Quiet {
			s.Line("ann", line)
		}
		if dg != nil {
			k.mu.Lock()
			dg.answered = time.Now()
			k.mu.Unlock()
		}
		return vh.AnnReply{Interval: vh.I64(1800), Delay: k.StopDelay}
	}
	k.mu.Lock()
	k.n++
	n := k.n
	k.mu.Unlock()
	rep := OK(vh.I64(1800), nil)
	if k.Plan != nil {
		rep = k.Plan(n, r)
	}
	var out vh.AnnReply
	res, dur := "fail", int(rep.Delay/time.Millisecond)
	iv, miv := int64(0), int64(0)
	switch rep.Kind {
	case "ok":
		res = "ok"
		out = vh.AnnReply{Interval: rep.IV, MinInterval: rep.MIV, Delay: rep.Delay, Peers: rep.Peers}
		if rep.IV != nil {
			iv = *rep.IV
		} else if k.UDP {
			out.Interval = vh.I64(0) // a UDP reply always carries the field
		}
		if rep.MIV != nil && !k.UDP {
			miv = *rep.MIV
		}
		line["ivabs"], line["mivabs"] = rep.IV == nil, rep.MIV == nil || k.UDP
	case "fail":
		out = vh.AnnReply{Failure: "scripted failure", Delay: rep.Delay}
		if rep.Msg != "" {
			out.Failure = rep.Msg
		}
	case "garbage":
		if k.UDP {
			out = vh.AnnReply{RawBody: []byte{0, 0, 0, 1, 0, 0, 0, 0, 9, 9}, Delay: rep.Delay} // announce action, truncated
		} else {
			out = vh.AnnReply{RawBody: []byte("<html>not bencode</html>"), Delay: rep.Delay, Status: rep.Status}
		}
	case "retry":
		res = "retry"
		out = vh.AnnReply{RawBody: vh.Enc(vh.Dict{"failure reason": "scripted", "retry in": "1"}), Delay: rep.Delay}
		if k.UDP {
			out = vh.AnnReply{Failure: "scripted failure", Delay: rep.Delay}
			res = "fail"
		}
	case "timeout":
		out = vh.AnnReply{Drop: true}
		if k.UDP {
			res = "never"
		} else {
			dur = s.HTTPTO
		}
	case "never":
		out = vh.AnnReply{Drop: true}
		res = "never"
	case "rtx": // UDP: ignore this datagram, answer its retransmission
		out = vh.AnnReply{Drop: true}
		res = "never"
		if dg != nil {
			k.mu.Lock()
			dg.wantRtx = true
			k.mu.Unlock()
		}
	default:
		s.Fail("unknown reply kind %q", rep.Kind)
	}
	if dg != nil && !out.Drop {
		k.mu.Lock()
		dg.answered = time.Now()
		k.mu.Unlock()
	}
	line["res"], line["iv"], line["miv"], line["dur"], line["nxt"], line["kind"], line["n"] = res, clamp(iv), clamp(miv), dur, rep.Up, rep.Kind, n
	if !k.Quiet {
		s.Line("ann", line)
	}
	if k.OnAnn != nil {
		k.OnAnn(n, r)
	}
	return out
}

// Env is a real rain session with in-memory storage.
type Env struct {
	S    *torrent.Session
	Prov *vh.MemProvider
	Dir  string
	Cfg  torrent.Config
}

var envSeq atomic.Int64

// NewEnv creates a session under root; mod may adjust the configuration.
func NewEnv(root string, mod func(*torrent.Config)) (*Env, error) {
	var last error
	for try := 0; try < 5; try++ {
		dir := filepath.Join(root, fmt.Sprintf("s%d", envSeq.Add(1)))
		if err := os.MkdirAll(dir, 0o755); err != nil {
			return nil, err
		}
		cfg, err := vh.BaseConfig(dir, 6)
		if err != nil {
			last = err
			continue
		}
		prov := vh.NewMemProvider(Null)
		prov.Quiet = true
		cfg.CustomStorage = prov
		cfg.TrackerHTTPTimeout = time.Second
		if mod != nil {
			mod(&cfg)
		}
		s, err := torrent.NewSession(cfg)
		if err != nil {
			last = err
			continue
		}
		return &Env{S: s, Prov: prov, Dir: dir, Cfg: cfg}, nil
	}
	return nil, last
}

func (e *Env) Close() {
	done := make(chan struct{})
	go func() { e.S.Close(); close(done) }()
	select {
	case <-done:
	case <-time.After(20 * time.Second):
	}
	os.RemoveAll(e.Dir)
}

// Add adds a generated torrent (truth registered with the storage provider); id must be unique in the session.
func (e *Env) Add(tor *vh.Torrent, id string, stopped bool, prefill bool) (*torrent.Torrent, error) {
	e.Prov.Truth[id] = tor
	if prefill {
		e.Prov.Store(id).Fill(tor)
	}
	return e.S.AddTorrent(bytes.NewReader(tor.Bytes), &torrent.AddTorrentOptions{ID: id, Stopped: stopped})
}

// HandshakePeerID connects to rain as a peer from localIP and returns the 20-byte peer id rain presents for the torrent.
func HandshakePeerID(localIP string, port int, ih [20]byte) (string, error) {
	var last error
	for try := 0; try < 20; try++ {
		nc, err := vh.DialFrom(localIP, fmt.Sprintf("127.0.0.1:%d", port), 2*time.Second)
		if err != nil {
			last = err
			time.Sleep(50 * time.Millisecond)
			continue
		}
		rh, err := vh.PlainHandshake(nc, ih, vh.PeerID("annh-probe"), vh.ReservedBits(true, true, false), 3*time.Second)
		nc.Close()
		if err != nil {
			last = err
			time.Sleep(50 * time.Millisecond)
			continue
		}
		return hex.EncodeToString(rh.PeerID[:]), nil
	}
	return "", last
}

// SmallTorrent builds a single-file torrent of n bytes with 16 KiB pieces.
func SmallTorrent(name string, n int64, seed int64, tiers [][]string) *vh.Torrent {
	return vh.Build(vh.Layout{Name: name, Files: []vh.FileSpec{{Length: n}}, PieceLen: 16384}, seed, tiers, nil)
}

// WaitUntil polls cond every 5 ms.
func WaitUntil(d time.Duration, cond func() bool) bool {
	dl := time.Now().Add(d)
	for time.Now().Before(dl) {
		if cond() {
			return true
		}
		time.Sleep(5 * time.Millisecond)
	}
	return cond()
}

// StallMeter measures how late a 10 ms sleeper of this process wakes up: deadlines (upper bounds on what the client must
// have done by now) are only judged when the machine did not freeze the driver itself.
type StallMeter struct {
	mu   sync.Mutex
	hist []int // per 100 ms slot: worst oversleep (ms)
	t0   time.Time
}

func NewStallMeter() *StallMeter {
	s := &StallMeter{t0: time.Now()}
	go func() {
		for {
			a := time.Now()
			time.Sleep(10 * time.Millisecond)
			over := int(time.Since(a)/time.Millisecond) - 10
			slot := int(time.Since(s.t0) / (100 * time.Millisecond))
			s.mu.Lock()
			for len(s.hist) <= slot {
				s.hist = append(s.hist, 0)
			}
			if over > s.hist[slot] {
				s.hist[slot] = over
			}
			s.mu.Unlock()
		}
	}()
	return s
}

func (s *StallMeter) Mark() int { return int(time.Since(s.t0) / (100 * time.Millisecond)) }

// MaxSince is the worst single stall (ms) since Mark.
func (s *StallMeter) MaxSince(mark int) int {
	s.mu.Lock()
	defer s.mu.Unlock()
	mx := 0
	for i := mark; i < len(s.hist); i++ {
		if s.hist[i] > mx {
			mx = s.hist[i]
		}
	}
	return mx
}
