// Command x06 binds the extension check X06 (web-seed source lifecycle and buffer ownership, spec/Webseed.tla)
// to the real code.
//
//	x06 unit -out f -seed N [-scripts s.ndjson] [-n 200] [-shards 6]   parent: splits the scenarios over child processes
//	x06 unitchild -out f -seed N -scripts s -n N -from a -to b          one child (GOMAXPROCS(1), crash-contained)
//	x06 e2e ...                                                         session-level part (e2e.go)
//
// unit: the REAL urldownloader.URLDownloader.Run is driven against an in-process HTTP server (httptest).  The
// http.Client handed to Run has a RoundTripper with two gates - one before a request is sent, one before every Read
// of a response body - so that the driver decides the interleaving: a step of the driver is one input (answer the
// request in some mode, let k bytes through, fail the read, receive a result, WebseedStopAt(i), Close, consumer
// releases a buffer); after every input the driver waits until the goroutine of Run is blocked again (at a gate, in
// the send of a result - seen in its stack -, or gone).  The buffer pool is observable through an overlay shim: it is
// kept empty, so every Get allocates (callback) and every Release is found by draining the pool.  One ndjson event
// per observable step; Trace_Webseed.tla judges.
package main

import (
	"bufio"
	"bytes"
	"context"
	"crypto/sha1"
	"encoding/json"
	"errors"
	"flag"
	"fmt"
	"io"
	"math/rand"
	"net/http"
	"net/http/httptest"
	"os"
	"os/exec"
	"path/filepath"
	"runtime"
	"runtime/debug"
	"sort"
	"strconv"
	"strings"
	"sync"
	"sync/atomic"
	"time"

	"github.com/cenkalti/rain/v2/internal/allocator"
	"github.com/cenkalti/rain/v2/internal/bufferpool"
	"github.com/cenkalti/rain/v2/internal/metainfo"
	"github.com/cenkalti/rain/v2/internal/piece"
	"github.com/cenkalti/rain/v2/internal/urldownloader"
	"github.com/cenkalti/rain/v2/internal/verif/vh"
)

type ev map[string]any

type tracer struct {
	mu sync.Mutex
	w  *bufio.Writer
	n  int
}

func (t *tracer) emit(e ev) {
	t.mu.Lock()
	b, _ := json.Marshal(e)
	t.w.Write(b)
	t.w.WriteByte('\n')
	t.w.Flush() // the child may be killed by a panic of the code under test
	t.n++
	t.mu.Unlock()
}

// ---------------------------------------------------------------------------------------------------- scenario

type gateInfo struct {
	kind      string // "req" | "read"
	f, lo, hi int
	want      int
	seen      bool
	tok       *token
}

type token struct {
	mode string // req gate: answer mode (see serve)
	terr bool   // req gate: transport error
	n    int    // read gate: let at most n bytes through
	rerr bool   // read gate: the read fails (connection reset)
}

type readAck struct{ n, err int }

type heldRes struct {
	res    *urldownloader.PieceResult
	buf    int
	writer bool
}

// step of a script (TLC-generated or recorded)
type step struct {
	Op string `json:"op"`
	A  int    `json:"a"`
	M  string `json:"m"`
}

type script struct {
	PL    int    `json:"pl"`
	Files [][]int `json:"files"` // [len, pad]
	RB    int    `json:"rb"`
	RE    int    `json:"re"`
	Ops   []step `json:"ops"`
}

type scen struct {
	tr      *tracer
	sid     int
	rng     *rand.Rand
	tor     *vh.Torrent
	pieces  []piece.Piece
	srvData [][]byte // what the server holds for every file (nil: padding)
	corrupt bool
	b, e    int
	url     string
	d       *urldownloader.URLDownloader
	pool    *bufferpool.Pool
	ids     map[*[]byte]int
	keep    []*[]byte
	nget    int
	resultC chan *urldownloader.PieceResult
	doneC   <-chan struct{}
	client  *http.Client
	rtimeout time.Duration

	mu   sync.Mutex
	gate  *gateInfo
	wakeC chan struct{}
	ackC  chan readAck

	started  bool
	closed   bool
	ended    bool
	final    bool // a Done or Error result has been received
	curEnd   int
	held     []*heldRes
	myrel    map[int]int
	nerr     int
	nstop    int
	nsteps   int
	hung     bool
	ncancel  atomic.Int32
}

var curScen atomic.Pointer[scen]
var server *httptest.Server
var baseRT = &http.Transport{MaxIdleConnsPerHost: 4}

func (s *scen) emit(e ev) { s.tr.emit(e) }

// serve is the scripted BEP 19 server.  The answer mode travels in a request header set by the gate.
func serve(w http.ResponseWriter, r *http.Request) {
	s := curScen.Load()
	if s == nil {
		w.WriteHeader(503)
		return
	}
	mode := r.Header.Get("X-Verif-Mode")
	fi := s.fileOfPath(r.URL.Path)
	if strings.HasPrefix(mode, "st:") {
		c, _ := strconv.Atoi(mode[3:])
		w.WriteHeader(c)
		return
	}
	if fi < 0 {
		w.WriteHeader(404)
		return
	}
	data := s.srvData[fi]
	lo, hi, ok := parseRange(r.Header.Get("Range"))
	if !ok || lo < 0 || hi >= len(data) || lo > hi {
		w.WriteHeader(416)
		return
	}
	arg := 0
	if i := strings.IndexByte(mode, ':'); i >= 0 {
		arg, _ = strconv.Atoi(mode[i+1:])
		mode = mode[:i]
	}
	switch mode {
	case "200": // the server ignores the Range header
		w.Header().Set("Content-Length", strconv.Itoa(len(data)))
		w.WriteHeader(200)
		w.Write(data)
	case "shift": // another range than the requested one
		l2, h2 := lo+arg, hi+arg
		if h2 >= len(data) {
			h2 = len(data) - 1
		}
		if l2 > h2 {
			l2 = h2
		}
		w.Header().Set("Content-Range", fmt.Sprintf("bytes %d-%d/%d", l2, h2, len(data)))
		w.Header().Set("Content-Length", strconv.Itoa(h2-l2+1))
		w.WriteHeader(206)
		w.Write(data[l2 : h2+1])
	case "short": // the body ends after arg bytes although more were announced
		w.Header().Set("Content-Range", fmt.Sprintf("bytes %d-%d/%d", lo, hi, len(data)))
		w.Header().Set("Content-Length", strconv.Itoa(hi-lo+1))
		w.WriteHeader(206)
		k := min(arg, hi-lo)
		w.Write(data[lo : lo+k])
		if f, ok := w.(http.Flusher); ok {
			f.Flush()
		}
		panic(http.ErrAbortHandler)
	case "long": // more bytes than requested
		w.Header().Set("Content-Range", fmt.Sprintf("bytes %d-%d/%d", lo, hi, len(data)))
		w.WriteHeader(206)
		w.Write(data[lo : hi+1])
		w.Write(bytes.Repeat([]byte{0xEE}, 1+arg))
	default: // "206"
		w.Header().Set("Content-Range", fmt.Sprintf("bytes %d-%d/%d", lo, hi, len(data)))
		w.Header().Set("Content-Length", strconv.Itoa(hi-lo+1))
		w.WriteHeader(206)
		w.Write(data[lo : hi+1])
	}
}

func parseRange(h string) (lo, hi int, ok bool) {
	if !strings.HasPrefix(h, "bytes=") {
		return 0, -1, false
	}
	p := strings.SplitN(h[6:], "-", 2)
	if len(p) != 2 {
		return 0, -1, false
	}
	l, e1 := strconv.Atoi(p[0])
	r, e2 := strconv.Atoi(p[1])
	if e1 != nil || e2 != nil {
		return 0, -1, false
	}
	return l, r, true
}

// fileOfPath returns the index of the non-padding file served under the URL path (-1 if none).
func (s *scen) fileOfPath(p string) int {
	p = strings.TrimPrefix(p, "/")
	for i := range s.tor.Files {
		if s.tor.Files[i].Pad {
			continue
		}
		if filepath.ToSlash(s.tor.StoragePath(i)) == p {
			return i
		}
	}
	return -1
}

// wait parks the goroutine of Run at a gate until the driver hands a token over or the request is cancelled.
// Hand-over and cancellation are decided under one lock: either the driver has committed a token (then the step is
// taken, even if the context has been cancelled meanwhile) or the goroutine has left (then the driver sees no gate).
func (s *scen) wait(g gateInfo, ctx context.Context) (token, bool) {
	s.mu.Lock()
	s.gate = &g
	s.mu.Unlock()
	for {
		select {
		case <-s.wakeC:
		case <-ctx.Done():
		}
		s.mu.Lock()
		if g.tok != nil {
			s.mu.Unlock()
			return *g.tok, true
		}
		if ctx.Err() != nil {
			s.gate = nil
			s.mu.Unlock()
			return token{}, false
		}
		s.mu.Unlock() // a wake-up left over from an earlier hand-over
	}
}

func (s *scen) getGate() *gateInfo {
	s.mu.Lock()
	defer s.mu.Unlock()
	return s.gate
}

// give commits a token to the goroutine waiting at the gate; e (if not nil) is emitted before the goroutine can move.
// It returns false if nobody waits any more (the request was cancelled).
func (s *scen) give(t token, e ev) bool {
	s.mu.Lock()
	g := s.gate
	if g == nil {
		s.mu.Unlock()
		return false
	}
	if e != nil {
		s.emit(e)
	}
	g.tok = &t
	s.gate = nil
	s.mu.Unlock()
	s.wakeC <- struct{}{}
	return true
}

type gateRT struct{ s *scen }

func (g gateRT) RoundTrip(req *http.Request) (*http.Response, error) {
	s := g.s
	if err := req.Context().Err(); err != nil {
		return nil, err // a cancelled request never reaches the network
	}
	fi := s.fileOfPath(req.URL.Path)
	lo, hi, ok := parseRange(req.Header.Get("Range"))
	if !ok {
		lo, hi = -1, -1
	}
	tok, ok := s.wait(gateInfo{kind: "req", f: fi + 1, lo: lo, hi: hi}, req.Context())
	if !ok {
		return nil, req.Context().Err()
	}
	if tok.terr {
		return nil, errors.New("x06: scripted transport error")
	}
	r2 := req.Clone(req.Context())
	r2.Header.Set("X-Verif-Mode", tok.mode)
	resp, err := baseRT.RoundTrip(r2)
	if err != nil {
		return nil, err
	}
	resp.Body = &gatedBody{s: s, rc: resp.Body, ctx: req.Context()}
	return resp, nil
}

type gatedBody struct {
	s   *scen
	rc  io.ReadCloser
	ctx context.Context
}

func (b *gatedBody) Close() error { return b.rc.Close() }

func (b *gatedBody) Read(p []byte) (int, error) {
	if len(p) == 0 {
		return 0, nil
	}
	tok, ok := b.s.wait(gateInfo{kind: "read", want: len(p)}, b.ctx)
	if !ok { // cancelled (Close, or the read timeout of the downloader)
		if b.s.ncancel.Add(1) > 200 { // the code under test reads a dead body again and again: park it (reported as a hang)
			select {}
		}
		b.s.emit(ev{"op": "Read", "want": len(p), "n": 0, "err": 2})
		return 0, b.ctx.Err()
	}
	if tok.rerr {
		b.s.ackC <- readAck{0, 1}
		return 0, errors.New("x06: scripted connection reset")
	}
	k := min(tok.n, len(p))
	n, err := io.ReadFull(b.rc, p[:k])
	if err != nil {
		b.s.ackC <- readAck{n, 1}
		return n, io.ErrUnexpectedEOF
	}
	b.s.ackC <- readAck{n, 0}
	return n, nil
}

// stackState looks at the goroutine that runs URLDownloader.Run: "send" = parked in the select of sendResult.
func stackState() (inSend bool, ngor int) {
	buf := make([]byte, 1<<16)
	for {
		n := runtime.Stack(buf, true)
		if n < len(buf) {
			buf = buf[:n]
			break
		}
		buf = make([]byte, 2*len(buf))
	}
	for _, blk := range strings.Split(string(buf), "\n\n") {
		if !strings.Contains(blk, "internal/urldownloader.") && !strings.Contains(blk, "internal/ctxutil.") {
			continue
		}
		if strings.Contains(blk, "main.stackState") {
			continue
		}
		ngor++
		if strings.Contains(blk, "(*URLDownloader).sendResult") {
			nl := strings.IndexByte(blk, '\n')
			if nl > 0 && strings.Contains(blk[:nl], "[select") {
				inSend = true
			}
		}
	}
	return
}

func (s *scen) isDone() bool {
	select {
	case <-s.doneC:
		return true
	default:
		return false
	}
}

// drain empties the pool and reports what was released since the last drain.
func (s *scen) drain() {
	for _, p := range bufferpool.VerifDrain(s.pool) {
		id, ok := s.ids[p]
		if !ok {
			s.emit(ev{"op": "Foreign"})
			continue
		}
		if s.myrel[id] > 0 {
			s.myrel[id]--
			s.emit(ev{"op": "CRel", "buf": id})
		} else {
			s.emit(ev{"op": "Rel", "buf": id})
		}
	}
}

// quiesce waits until the goroutine of Run cannot move without an input: "req" / "read" (at a gate), "send"
// (blocked in the send of a result), "ended".  Releases seen on the way are reported.
func (s *scen) quiesce() string {
	deadline := time.Now().Add(15 * time.Second)
	for spin := 0; ; spin++ {
		if g := s.getGate(); g != nil {
			s.drain()
			if g.kind == "req" && !g.seen {
				g.seen = true
				s.emit(ev{"op": "Req", "f": g.f, "lo": g.lo, "hi": g.hi})
			}
			return g.kind
		}
		if s.isDone() {
			s.drain()
			if !s.ended {
				s.ended = true
				s.emit(ev{"op": "Ended"})
			}
			return "ended"
		}
		if spin%4 == 3 {
			if in, _ := stackState(); in {
				// confirm: nothing else may be pending
				if s.getGate() == nil && !s.isDone() {
					s.drain()
					return "send"
				}
			}
		}
		if time.Now().After(deadline) {
			s.hung = true
			s.emit(ev{"op": "Hang", "where": "quiesce"})
			return "hang"
		}
		runtime.Gosched()
		if spin > 50 {
			time.Sleep(time.Duration(min(spin, 2000)) * time.Microsecond)
		}
	}
}

func b2i(b bool) int {
	if b {
		return 1
	}
	return 0
}

func newScen(tr *tracer, sid int, rng *rand.Rand, lay vh.Layout, seed int64, b, e int, corrupt bool) *scen {
	tor := vh.Build(lay, seed, nil, nil)
	info, err := metainfo.NewInfo(tor.InfoBytes, true, true)
	if err != nil {
		fmt.Fprintln(os.Stderr, "NewInfo:", err)
		os.Exit(2)
	}
	files := make([]allocator.File, len(info.Files))
	for i, f := range info.Files {
		files[i] = allocator.File{Name: f.Path, Padding: f.Padding}
	}
	s := &scen{tr: tr, sid: sid, rng: rng, tor: tor, pieces: piece.NewPieces(info, files), b: b, e: e, curEnd: e,
		ids: map[*[]byte]int{}, myrel: map[int]int{}, wakeC: make(chan struct{}, 1), ackC: make(chan readAck, 1),
		resultC: make(chan *urldownloader.PieceResult), corrupt: corrupt, rtimeout: 30 * time.Second}
	if e > len(s.pieces) {
		s.e, s.curEnd = len(s.pieces), len(s.pieces)
	}
	s.srvData = make([][]byte, len(tor.Files))
	for i := range tor.Files {
		if tor.Files[i].Pad {
			continue
		}
		s.srvData[i] = append([]byte(nil), tor.FileData(i)...)
		if corrupt && len(s.srvData[i]) > 0 { // the server holds other bytes than the torrent describes
			s.srvData[i][rng.Intn(len(s.srvData[i]))] ^= 0x5a
		}
	}
	s.pool = bufferpool.VerifNewPool(int(info.PieceLength), func(id *[]byte) {
		s.nget++
		s.ids[id] = s.nget
		s.keep = append(s.keep, id)
		s.emit(ev{"op": "Get", "buf": s.nget})
	})
	s.client = &http.Client{Transport: gateRT{s}}
	s.url = server.URL + "/"
	return s
}

func (s *scen) initEvent(kind, lay string) {
	fl := [][]int{}
	for i, f := range s.tor.Files {
		fl = append(fl, []int{int(s.tor.FileStart(i)), int(f.Length), b2i(f.Pad)})
	}
	s.emit(ev{"op": "Init", "sid": s.sid, "kind": kind, "lay": lay, "pl": s.tor.PieceLen, "total": int(s.tor.Total), "files": fl,
		"np": len(s.pieces), "b": s.b, "e": s.e, "corrupt": s.corrupt, "multi": len(s.tor.Files) > 1})
}

func (s *scen) start() {
	curScen.Store(s)
	s.d = urldownloader.New(s.url, uint32(s.b), uint32(s.e), nil)
	s.doneC = urldownloader.VerifDoneC(s.d)
	s.emit(ev{"op": "Start"})
	s.started = true
	go s.d.Run(s.client, s.pieces, len(s.tor.Files) > 1, s.resultC, s.pool, s.rtimeout)
}

// expected content of piece i: what the server holds for its bytes, zeros for padding.
func (s *scen) expect(i int) []byte {
	out := make([]byte, 0, s.tor.PieceLenOf(i))
	lo := int64(i) * int64(s.tor.PieceLen)
	hi := lo + int64(s.tor.PieceLenOf(i))
	for fi, f := range s.tor.Files {
		fs := s.tor.FileStart(fi)
		a, b := max(lo, fs), min(hi, fs+f.Length)
		if a >= b {
			continue
		}
		if f.Pad {
			out = append(out, make([]byte, b-a)...)
		} else {
			out = append(out, s.srvData[fi][a-fs:b-fs]...)
		}
	}
	return out
}

// ---- inputs

func (s *scen) doResp(mode string) {
	g := s.getGate()
	if g == nil {
		return
	}
	e := ev{"op": "Resp", "status": 206, "off": g.lo, "terr": 0, "mode": mode}
	t := token{mode: mode}
	name, arg := mode, 0
	if i := strings.IndexByte(mode, ':'); i >= 0 {
		name = mode[:i]
		arg, _ = strconv.Atoi(mode[i+1:])
	}
	valid := g.f > 0 && g.lo >= 0 && g.hi >= g.lo && g.hi < len(s.srvData[g.f-1])
	switch {
	case name == "terr":
		t.terr = true
		e["status"], e["off"], e["terr"] = 0, 0, 1
	case name == "st":
		e["status"], e["off"] = arg, 0
	case g.f == 0:
		e["status"], e["off"] = 404, 0
	case !valid:
		e["status"], e["off"] = 416, 0
	case name == "200":
		e["status"], e["off"] = 200, 0
	case name == "shift":
		l2, h2 := g.lo+arg, g.hi+arg
		if h2 >= len(s.srvData[g.f-1]) {
			h2 = len(s.srvData[g.f-1]) - 1
		}
		if l2 > h2 {
			l2 = h2
		}
		e["off"] = l2
	}
	if e["status"].(int) != 206 && e["status"].(int) != 200 {
		s.nerr++
	} else if name != "206" {
		s.nerr++
	}
	s.give(t, e)
}

func (s *scen) doChunk(k int, fail bool) {
	g := s.getGate()
	if g == nil || !s.give(token{n: k, rerr: fail}, nil) {
		return
	}
	a := <-s.ackC
	if a.err != 0 {
		s.nerr++
	}
	s.emit(ev{"op": "Read", "want": g.want, "n": a.n, "err": a.err})
}

func (s *scen) doRecv() bool {
	select {
	case r := <-s.resultC:
		if r.Error != nil {
			s.final = true
			s.emit(ev{"op": "Deliver", "err": 1, "idx": 0, "buf": 0, "done": false, "eq": true, "msg": r.Error.Error()})
			return true
		}
		id := s.ids[bufferpool.VerifID(r.Buffer)]
		eq := int(r.Index) < len(s.pieces) && bytes.Equal(r.Buffer.Data, s.expect(int(r.Index)))
		if r.Done {
			s.final = true
		}
		s.held = append(s.held, &heldRes{res: r, buf: id})
		s.emit(ev{"op": "Deliver", "err": 0, "idx": int(r.Index), "buf": id, "done": r.Done, "eq": eq, "same": r.Downloader == s.d})
		return true
	case <-time.After(5 * time.Second):
		s.hung = true
		s.emit(ev{"op": "Hang", "where": "recv"})
		return false
	}
}

func (s *scen) doClose(explicit bool, st string) {
	if explicit {
		s.emit(ev{"op": "Close", "st": st})
	}
	s.closed = true
	ch := make(chan struct{})
	go func() { s.d.Close(); close(ch) }()
	select {
	case <-ch:
	case <-time.After(15 * time.Second):
		s.hung = true
		s.emit(ev{"op": "Hang", "where": "close"})
	}
}

// doStopAt is piecepicker.WebseedStopAt: UpdateEnd(i), then Close if the current piece is not below i.
func (s *scen) doStopAt(i int, st string) {
	s.d.UpdateEnd(uint32(i))
	cur := int(s.d.ReadCurrent())
	closed := cur >= i
	s.emit(ev{"op": "StopAt", "i": i, "cur": cur, "insend": st == "send", "closed": closed, "st": st})
	s.curEnd = i
	s.nstop++
	if closed {
		s.doClose(false, st)
	}
}

// consumer: the torrent loop hands the buffer to the piece writer (hash check) or releases it
func (s *scen) doCons(j int, write bool) {
	if j < 0 || j >= len(s.held) {
		return
	}
	h := s.held[j]
	if write && !h.writer {
		h.writer = true
		idx := int(h.res.Index)
		sum := sha1.Sum(h.res.Buffer.Data)
		s.emit(ev{"op": "CWrite", "buf": h.buf, "hashok": idx < len(s.tor.Hashes) && bytes.Equal(sum[:], s.tor.Hashes[idx])})
		return
	}
	s.held = append(s.held[:j], s.held[j+1:]...)
	s.myrel[h.buf]++
	h.res.Buffer.Release()
	s.drain()
}

func (s *scen) finish() {
	if s.hung {
		return
	}
	st := s.quiesce()
	if st == "hang" {
		return
	}
	if !s.closed && !s.ended {
		s.doClose(true, st)
	}
	if s.hung {
		return
	}
	if s.quiesce() == "hang" {
		return
	}
	for len(s.held) > 0 {
		s.doCons(0, s.rng.Intn(2) == 0)
	}
	s.drain()
	s.client.CloseIdleConnections()
	gor := 0
	for k := 0; k < 200; k++ {
		_, gor = stackState()
		if gor == 0 {
			break
		}
		time.Sleep(5 * time.Millisecond)
	}
	s.emit(ev{"op": "Final", "gor": gor, "steps": s.nsteps})
	curScen.Store(nil)
}

var errModes = []string{"st:500", "st:404", "st:416", "st:301", "terr", "200", "shift", "short", "long"}

// one random input that is applicable in state st; returns false when the scenario should end
func (s *scen) randomStep(st string) bool {
	s.nsteps++
	r := s.rng.Intn(100)
	if s.final && !s.closed && s.rng.Intn(2) == 0 { // the loop closes the downloader when it has seen Done / Error
		s.doClose(true, st)
		return true
	}
	canStop := !s.closed && !s.ended && s.nstop < 2
	cur := 0
	if s.d != nil {
		cur = int(s.d.ReadCurrent())
	}
	stop := func() bool {
		if !canStop || cur >= s.curEnd-1 && s.rng.Intn(3) != 0 {
			return false
		}
		lo, hi := cur, s.curEnd-1
		if hi < lo {
			return false
		}
		i := lo + s.rng.Intn(hi-lo+1)
		if i == cur && hi > lo && s.rng.Intn(3) != 0 {
			i = cur + 1
		}
		s.doStopAt(i, st)
		return true
	}
	cons := func() bool {
		if len(s.held) == 0 {
			return false
		}
		s.doCons(s.rng.Intn(len(s.held)), s.rng.Intn(2) == 0)
		return true
	}
	switch st {
	case "req":
		switch {
		case r < 70:
			s.doResp("206")
		case r < 82 && s.nerr == 0:
			m := errModes[s.rng.Intn(len(errModes))]
			if m == "shift" || m == "short" || m == "long" {
				m += ":" + strconv.Itoa(1+s.rng.Intn(3*s.tor.PieceLen/2))
			}
			s.doResp(m)
		case r < 88:
			if !stop() {
				s.doResp("206")
			}
		case r < 90:
			s.doClose(true, st)
		default:
			if !cons() {
				s.doResp("206")
			}
		}
	case "read":
		g := s.getGate()
		if g == nil { // the request has been cancelled meanwhile (read timeout of the downloader)
			return true
		}
		switch {
		case r < 72:
			k := g.want
			if s.rng.Intn(5) < 3 && g.want > 1 {
				k = 1 + s.rng.Intn(g.want)
			}
			s.doChunk(k, false)
		case r < 75 && s.nerr == 0:
			s.doChunk(0, true)
		case r < 84:
			if !stop() {
				s.doChunk(g.want, false)
			}
		case r < 86:
			s.doClose(true, st)
		default:
			if !cons() {
				s.doChunk(g.want, false)
			}
		}
	case "send":
		switch {
		case r < 60:
			return s.doRecv()
		case r < 76:
			if !stop() {
				return s.doRecv()
			}
		case r < 82:
			s.doClose(true, st)
		default:
			if !cons() {
				return s.doRecv()
			}
		}
	case "ended":
		return false
	}
	return true
}

func (s *scen) loop(maxSteps int) {
	for k := 0; k < maxSteps; k++ {
		st := s.quiesce()
		if st == "hang" || s.hung {
			return
		}
		if !s.randomStep(st) {
			return
		}
	}
}

// the layouts of the random scenarios: the classes of vh.StdLayouts (+ a piece of padding only, + many small files)
// with a small byte unit, and vh.StdLayouts themselves with unit 128
func layouts(u int) []vh.Layout {
	if u >= 128 {
		return append(vh.StdLayouts(u), vh.PadWholeLayout(u))
	}
	f := func(name string, n int) vh.FileSpec { return vh.FileSpec{Path: []string{name}, Length: int64(n)} }
	pad := func(name string, n int) vh.FileSpec {
		return vh.FileSpec{Path: []string{".pad", name}, Length: int64(n), Pad: true}
	}
	return []vh.Layout{
		{Name: "single", PieceLen: 2 * u, Files: []vh.FileSpec{{Length: int64(5*u + u/2)}}},
		{Name: "multi", PieceLen: 2 * u, Files: []vh.FileSpec{f("a.bin", 3*u), {Path: []string{"d", "b b.bin"}, Length: int64(2*u + 3)}, f("c.bin", max(u/3, 1))}},
		{Name: "empties", PieceLen: u, Files: []vh.FileSpec{f("e0", 0), f("a", 2*u+1), f("e1", 0), f("b", u-1), f("e2", 0)}},
		{Name: "padmid", PieceLen: 2 * u, Files: []vh.FileSpec{f("a", 3*u), pad("1", u), f("b", 2*u+1)}},
		{Name: "padalign", PieceLen: 2 * u, Files: []vh.FileSpec{f("a", u+1), pad("x", u-1), f("b", 2*u), pad("y", u), f("c", u/2)}},
		{Name: "padend", PieceLen: u, Files: []vh.FileSpec{f("a", u+u/2), pad("z", u/2)}},
		{Name: "odd", PieceLen: u + u/3, Files: []vh.FileSpec{f("a", 2*u+3), f("b", 3*u-1)}},
		{Name: "onepiece", PieceLen: 4 * u, Files: []vh.FileSpec{{Length: int64(u + 3)}}},
		{Name: "padwhole", PieceLen: 2 * u, Files: []vh.FileSpec{f("a", 2*u), pad("y", 2*u), f("c", u/2)}},
		{Name: "small", PieceLen: 2 * u, Files: []vh.FileSpec{f("s0", 1), f("s1", u), f("s2", 1), f("s3", 2*u+1), f("s4", 2), f("s5", 3*u)}},
		{Name: "aligned", PieceLen: u, Files: []vh.FileSpec{f("a", 2*u), f("b", 2*u), f("c", u)}},
		{Name: "long", PieceLen: u, Files: []vh.FileSpec{f("a", 4*u+1), pad("p", u-1), f("b", 3*u), f("c", 2*u+2)}},
	}
}

func runRandom(tr *tracer, sid int, seed int64) bool {
	rng := rand.New(rand.NewSource(seed*1000003 + int64(sid)*7919 + 17))
	units := []int{4, 6, 9, 16, 128}
	ls := layouts(units[rng.Intn(len(units))])
	lay := ls[rng.Intn(len(ls))]
	tor0 := vh.Build(lay, 1, nil, nil)
	np := tor0.NumPieces
	b := rng.Intn(np)
	e := b + 1 + rng.Intn(np-b)
	if rng.Intn(3) == 0 {
		b, e = 0, np
	}
	s := newScen(tr, sid, rng, lay, seed+int64(sid), b, e, rng.Intn(8) == 0)
	kind := "random"
	early := rng.Intn(25)
	timeout := rng.Intn(30) == 0
	if timeout {
		kind = "timeout"
		s.rtimeout = 40 * time.Millisecond
	}
	s.initEvent(kind, lay.Name)
	s.start()
	switch {
	case early == 0: // WebseedStopAt(begin) before the goroutine has run
		s.doStopAt(s.b, "early")
	case early == 1:
		s.doClose(true, "early")
	case timeout:
		// let the download run, then stall one read until the read timeout of the downloader fires
		for k := 0; k < 200 && !s.hung; k++ {
			st := s.quiesce()
			if st == "read" && rng.Intn(3) == 0 {
				s.emit(ev{"op": "Stall"})
				for s.getGate() != nil { // the gate is given up when the request context is cancelled
					time.Sleep(time.Millisecond)
				}
				s.nerr++
				break
			}
			if st == "hang" || !s.randomStep(st) {
				break
			}
		}
		s.loop(60)
	default:
		s.loop(40 + rng.Intn(200))
	}
	s.finish()
	return !s.hung
}

func runScript(tr *tracer, sid int, seed int64, sc script) bool {
	rng := rand.New(rand.NewSource(seed*1000003 + int64(sid)*7919 + 29))
	lay := vh.Layout{Name: "g", PieceLen: sc.PL}
	for i, f := range sc.Files {
		p := []string{fmt.Sprintf("f%d", i)}
		if f[1] != 0 {
			p = []string{".pad", strconv.Itoa(i)}
		}
		lay.Files = append(lay.Files, vh.FileSpec{Path: p, Length: int64(f[0]), Pad: f[1] != 0})
	}
	if len(lay.Files) == 1 {
		lay.Files[0].Path = nil // single-file mode
	}
	s := newScen(tr, sid, rng, lay, seed+int64(sid), sc.RB, sc.RE, false)
	s.initEvent("script", "tlc")
	s.start()
	for _, o := range sc.Ops {
		st := s.quiesce()
		if st == "hang" || st == "ended" {
			break
		}
		s.nsteps++
		switch o.Op {
		case "resp":
			if st == "req" {
				m := o.M
				if m == "500" {
					m = "st:500"
				}
				s.doResp(m)
			}
		case "chunk":
			if st == "read" {
				s.doChunk(max(o.A, 1), false)
			}
		case "short": // the body ends after o.A more bytes: the connection is cut by the gate
			if st == "read" {
				if o.A > 0 {
					s.doChunk(o.A, false)
					if s.quiesce() != "read" {
						continue
					}
				}
				s.doChunk(0, true)
			}
		case "recv":
			if st == "send" {
				s.doRecv()
			}
		case "stopat":
			if !s.closed && o.A >= s.b && o.A < s.curEnd {
				s.doStopAt(o.A, st)
			}
		case "close":
			if !s.closed {
				s.doClose(true, st)
			}
		case "cw", "cr":
			for j, h := range s.held {
				if h.buf == o.A {
					s.doCons(j, o.Op == "cw")
					break
				}
			}
		}
		if s.hung {
			break
		}
	}
	// a script ends where TLC's behaviour ended; the rest is random
	if !s.hung {
		s.loop(30)
	}
	s.finish()
	return !s.hung
}

// ---------------------------------------------------------------------------------------------------- processes

func loadScripts(path string) []script {
	var out []script
	if path == "" {
		return out
	}
	f, err := os.Open(path)
	if err != nil {
		fmt.Fprintln(os.Stderr, err)
		os.Exit(2)
	}
	defer f.Close()
	sc := bufio.NewScanner(f)
	sc.Buffer(make([]byte, 1<<20), 1<<26)
	for sc.Scan() {
		var x script
		if json.Unmarshal(sc.Bytes(), &x) == nil && x.PL > 0 {
			out = append(out, x)
		}
	}
	return out
}

func unitChild(args []string) {
	fs := flag.NewFlagSet("unitchild", flag.ExitOnError)
	outp := fs.String("out", "", "")
	seed := fs.Int64("seed", 1, "")
	scripts := fs.String("scripts", "", "")
	from := fs.Int("from", 0, "")
	to := fs.Int("to", 0, "")
	fs.Parse(args)
	runtime.GOMAXPROCS(1)
	debug.SetGCPercent(-1)
	f, err := os.OpenFile(*outp, os.O_CREATE|os.O_WRONLY|os.O_APPEND, 0644)
	if err != nil {
		fmt.Fprintln(os.Stderr, err)
		os.Exit(2)
	}
	tr := &tracer{w: bufio.NewWriter(f)}
	server = httptest.NewServer(http.HandlerFunc(serve))
	server.Config.ErrorLog = nil
	scs := loadScripts(*scripts)
	for sid := *from; sid < *to; sid++ {
		ok := true
		if sid < len(scs) {
			ok = runScript(tr, sid, *seed, scs[sid])
		} else {
			ok = runRandom(tr, sid, *seed)
		}
		if !ok {
			os.Exit(3) // a goroutine of the code under test is stuck: start over in a fresh process
		}
		runtime.GC()
	}
	os.Exit(0)
}

// lastSid returns the scenario number of the last Init line of a trace file (-1 if none).
func lastSid(path string) (sid int, hang bool) {
	sid = -1
	f, err := os.Open(path)
	if err != nil {
		return
	}
	defer f.Close()
	sc := bufio.NewScanner(f)
	sc.Buffer(make([]byte, 1<<20), 1<<26)
	for sc.Scan() {
		var e struct {
			Op  string `json:"op"`
			Sid int    `json:"sid"`
		}
		if json.Unmarshal(sc.Bytes(), &e) != nil {
			continue
		}
		if e.Op == "Init" {
			sid, hang = e.Sid, false
		}
		if e.Op == "Hang" {
			hang = true
		}
	}
	return
}

func unitParent(args []string) {
	fs := flag.NewFlagSet("unit", flag.ExitOnError)
	outp := fs.String("out", "trace.ndjson", "")
	seed := fs.Int64("seed", 1, "")
	scripts := fs.String("scripts", "", "")
	n := fs.Int("n", 100, "number of random scenarios")
	shards := fs.Int("shards", 6, "")
	fs.Parse(args)
	total := len(loadScripts(*scripts)) + *n
	self, _ := os.Executable()
	var wg sync.WaitGroup
	crashes := make([]int, *shards)
	for k := 0; k < *shards; k++ {
		wg.Add(1)
		go func(k int) {
			defer wg.Done()
			from, to := total*k / *shards, total*(k+1) / *shards
			part := fmt.Sprintf("%s.part%d", *outp, k)
			os.Remove(part)
			for from < to {
				cmd := exec.Command(self, "unitchild", "-out", part, "-seed", strconv.FormatInt(*seed, 10), "-scripts", *scripts,
					"-from", strconv.Itoa(from), "-to", strconv.Itoa(to))
				var stderr bytes.Buffer
				cmd.Stderr = &stderr
				cmd.Start()
				ch := make(chan error, 1)
				go func() { ch <- cmd.Wait() }()
				var err error
				stuck := false
				for last, idle := int64(-1), 0; ; {
					select {
					case err = <-ch:
					case <-time.After(5 * time.Second):
						if fi, e := os.Stat(part); e == nil && fi.Size() != last {
							last, idle = fi.Size(), 0
							continue
						} else if idle++; idle >= 30 { // no event for 150 s: the child (driver or code under test) is stuck
							cmd.Process.Kill()
							err = <-ch
							stuck = true
						} else {
							continue
						}
					}
					break
				}
				if err == nil {
					break
				}
				sid, hang := lastSid(part)
				if stuck && sid >= from && !hang {
					f, _ := os.OpenFile(part, os.O_WRONLY|os.O_APPEND, 0644)
					b, _ := json.Marshal(ev{"op": "Hang", "where": "child"})
					f.Write(append(b, '\n'))
					f.Close()
					hang = true
				}
				if sid < from { // the child died before it could announce its first scenario
					f, _ := os.OpenFile(part, os.O_CREATE|os.O_WRONLY|os.O_APPEND, 0644)
					b, _ := json.Marshal(ev{"op": "Init", "sid": from, "kind": "lost", "lay": "-", "pl": 1, "total": 1, "files": [][]int{{0, 1, 0}},
						"np": 1, "b": 0, "e": 1, "corrupt": false, "multi": false})
					f.Write(append(b, '\n'))
					f.Close()
					sid, hang = from, false
				}
				if !hang { // killed by a panic of the code under test (or of the driver: the message tells)
					msg := stderr.String()
					if len(msg) > 1500 {
						msg = msg[:1500]
					}
					f, _ := os.OpenFile(part, os.O_WRONLY|os.O_APPEND, 0644)
					b, _ := json.Marshal(ev{"op": "Crash", "msg": msg})
					f.Write(append(b, '\n'))
					f.Close()
				}
				crashes[k]++
				from = sid + 1
				if crashes[k] >= 6 { // the code under test hangs or crashes again and again: enough evidence
					break
				}
			}
		}(k)
	}
	wg.Wait()
	out, err := os.Create(*outp)
	if err != nil {
		fmt.Fprintln(os.Stderr, err)
		os.Exit(2)
	}
	events, nc := 0, 0
	for k := 0; k < *shards; k++ {
		part := fmt.Sprintf("%s.part%d", *outp, k)
		b, _ := os.ReadFile(part)
		out.Write(b)
		events += bytes.Count(b, []byte{'\n'})
		os.Remove(part)
		nc += crashes[k]
	}
	out.Close()
	fmt.Printf("{\"events\":%d,\"traces\":%d,\"restarts\":%d}\n", events, total, nc)
}

func main() {
	if len(os.Args) < 2 {
		fmt.Fprintln(os.Stderr, "usage: x06 unit|unitchild|e2e ...")
		os.Exit(2)
	}
	switch os.Args[1] {
	case "unit":
		unitParent(os.Args[2:])
	case "unitchild":
		unitChild(os.Args[2:])
	case "e2e":
		e2eMain(os.Args[2:])
	case "e2echild":
		e2eChild(os.Args[2:])
	default:
		fmt.Fprintln(os.Stderr, "unknown sub-command", os.Args[1])
		os.Exit(2)
	}
}

var _ = sort.Ints
