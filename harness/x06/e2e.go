package main

// Session-level part of X06: a real torrent.Session downloads from scripted web seeds (and scripted peers); the
// scripted servers log every request / failure / corrupt byte with a time stamp, the loop snapshots (hook H1) give
// webseedActiveDownloads and the running ranges after every handled event.  Trace_WebseedSess.tla judges:
//   X06.e  counter = number of sources with a downloader <= cap at every loop step; 0 and no range after completion
//   X06.d  a source that failed is not used before the retry interval has passed and is used again afterwards; a
//          source that served corrupt data is not used again
//   X06.c  after Stop no request reaches a web seed and no downloader goroutine is left
// Every scenario runs in a child process (a panic of the loop kills the process).

import (
	"bufio"
	"bytes"
	"encoding/json"
	"flag"
	"fmt"
	"net"
	"net/http"
	"net/url"
	"os"
	"os/exec"
	"runtime"
	"strconv"
	"strings"
	"sync"
	"sync/atomic"
	"time"

	"github.com/cenkalti/rain/v2/internal/verif/vh"
	"github.com/cenkalti/rain/v2/torrent"
)

var e2eKinds = []string{"retry-simple", "retry-slotfull", "retry-stopped", "corrupt", "stopat", "stopstart", "dupurl", "plain", "errmid", "manyfiles"}

type e2eEnv struct {
	dir  string
	T    *vh.Tracer
	hub  *vh.SnapHub
	t0   time.Time
	tor  *vh.Torrent
	srvs []*wsrv
	out  []ev
	mu   sync.Mutex
	maxLag atomic.Int64
}

func (e *e2eEnv) ms() int { return int(time.Since(e.t0).Milliseconds()) }

// lagMonitor measures how late a 5 ms sleep returns: on an overloaded machine the time-based obligations (a retry
// within the interval + slack) prove nothing and are not judged.
func (e *e2eEnv) lagMonitor() {
	for {
		t := time.Now()
		time.Sleep(5 * time.Millisecond)
		if d := int64(time.Since(t)/time.Millisecond) - 5; d > e.maxLag.Load() {
			e.maxLag.Store(d)
		}
	}
}

// due states that source s ought to have been used again by now - unless the machine was too slow to tell.
func (e *e2eEnv) due(s int, hard bool) {
	if lag := e.maxLag.Load(); lag > 700 {
		e.log(vh.Ev{"op": "Skip", "why": fmt.Sprintf("scheduling lag of %d ms: retry deadline not judged", lag)})
		return
	}
	e.log(vh.Ev{"op": "Due", "s": s, "hard": hard})
}

// firstEv returns the time of the first logged observation (op, source).
func (e *e2eEnv) firstEv(op string, src int) (int, bool) {
	for _, x := range e.T.Snapshot() {
		if x["ev"] == "x06" && x["op"] == op && (src == 0 || x["s"] == src) {
			return int(x["t_ms"].(int64)), true
		}
	}
	return 0, false
}

// log records an observation at its occurrence point (one clock, one sequence: the tracer's)
func (e *e2eEnv) log(x vh.Ev) { x["ev"] = "x06"; e.T.Emit(x) }

// wsrv is one scripted BEP 19 server.
type wsrv struct {
	e       *e2eEnv
	idx     int // 1-based source number
	srv     *http.Server
	url     string
	mu      sync.Mutex
	nreq    int
	failAt  map[int]int // request number -> status
	failFn  func(n, ms int) int // status for request n arriving at time ms (0 = serve)
	corrupt func(abs int64) bool
	chunk   int
	delay   time.Duration
}

func (e *e2eEnv) newServer(idx int) *wsrv {
	l, err := net.Listen("tcp4", "127.0.0.1:0")
	if err != nil {
		fmt.Fprintln(os.Stderr, err)
		os.Exit(2)
	}
	w := &wsrv{e: e, idx: idx, failAt: map[int]int{}, chunk: 16384, delay: 2 * time.Millisecond}
	w.srv = &http.Server{Handler: http.HandlerFunc(w.serve)}
	go w.srv.Serve(l)
	w.url = "http://" + l.Addr().String() + "/"
	e.srvs = append(e.srvs, w)
	return w
}

func (w *wsrv) serve(rw http.ResponseWriter, r *http.Request) {
	w.mu.Lock()
	w.nreq++
	k := w.nreq
	st := w.failAt[k]
	if st == 0 && w.failFn != nil {
		st = w.failFn(k, int(time.Since(vh.TracerT0(w.e.T)).Milliseconds()))
	}
	w.mu.Unlock()
	tor := w.e.tor
	w.e.log(vh.Ev{"op": "SrcReq", "s": w.idx, "n": k})
	if st != 0 {
		w.e.log(vh.Ev{"op": "SrcErr", "s": w.idx, "n": k})
		rw.WriteHeader(st)
		return
	}
	p, _ := url.PathUnescape(strings.TrimPrefix(r.URL.EscapedPath(), "/"))
	fi := -1
	for i := range tor.Files {
		if !tor.Files[i].Pad && strings.ReplaceAll(tor.StoragePath(i), "\\", "/") == p {
			fi = i
		}
	}
	if fi < 0 {
		rw.WriteHeader(404)
		return
	}
	data := tor.FileData(fi)
	lo, hi, ok := parseRange(r.Header.Get("Range"))
	if !ok || lo < 0 || hi >= len(data) || lo > hi {
		rw.WriteHeader(416)
		return
	}
	out := append([]byte(nil), data[lo:hi+1]...)
	if w.corrupt != nil {
		base := tor.FileStart(fi) + int64(lo)
		hit := false
		for i := range out {
			if w.corrupt(base + int64(i)) {
				out[i] ^= 0x5a
				hit = true
			}
		}
		if hit {
			w.e.log(vh.Ev{"op": "SrcCorrupt", "s": w.idx})
		}
	}
	rw.Header().Set("Content-Range", fmt.Sprintf("bytes %d-%d/%d", lo, hi, len(data)))
	rw.Header().Set("Content-Length", strconv.Itoa(len(out)))
	rw.WriteHeader(206)
	for len(out) > 0 {
		c := min(w.chunk, len(out))
		if _, err := rw.Write(out[:c]); err != nil {
			return
		}
		if fl, ok := rw.(http.Flusher); ok {
			fl.Flush()
		}
		out = out[c:]
		select {
		case <-time.After(w.delay):
		case <-r.Context().Done():
			return
		}
	}
}

// downloader goroutines of the code under test that exist right now
func wsGoroutines() int {
	buf := make([]byte, 1<<20)
	n := runtime.Stack(buf, true)
	c := 0
	for _, blk := range strings.Split(string(buf[:n]), "\n\n") {
		if strings.Contains(blk, "internal/urldownloader.") {
			c++
		}
	}
	return c
}

const e2ePL = 16384

// 80 pieces: the picker hands out web-seed ranges of 5 % of the pieces (4 here); file boundaries inside pieces
func e2eLayout() vh.Layout {
	pl := int64(e2ePL)
	return vh.Layout{Name: "x06", PieceLen: e2ePL, Files: []vh.FileSpec{
		{Path: []string{"a.bin"}, Length: 30*pl + 1000},
		{Path: []string{".pad", "1"}, Length: pl - 1000, Pad: true},
		{Path: []string{"d", "b b.bin"}, Length: 34*pl + 77},
		{Path: []string{"c.bin"}, Length: 14*pl + 5},
	}}
}

// many small files (a file boundary in nearly every piece, some padding): every web-seed range consists of several
// file jobs, so a range that a peer truncates usually has jobs left behind its new end
func manyFilesLayout() vh.Layout {
	l := vh.Layout{Name: "x06m", PieceLen: e2ePL}
	for i := 0; i < 52; i++ {
		n := int64(e2ePL + e2ePL/2 + 37*(i%5))
		l.Files = append(l.Files, vh.FileSpec{Path: []string{"d" + strconv.Itoa(i%4), "f" + strconv.Itoa(i) + ".bin"}, Length: n})
		if i%6 == 5 {
			l.Files = append(l.Files, vh.FileSpec{Path: []string{".pad", strconv.Itoa(i)}, Length: 300 + int64(i), Pad: true})
		}
	}
	return l
}

func e2eChild(args []string) {
	fs := flag.NewFlagSet("e2echild", flag.ExitOnError)
	outp := fs.String("out", "", "")
	seed := fs.Int64("seed", 1, "")
	idx := fs.Int("idx", 0, "")
	long := fs.Bool("long", false, "")
	fs.Parse(args)
	torrent.DisableLogging()
	dir, err := os.MkdirTemp("/var/tmp", "x06e")
	if err != nil {
		fmt.Fprintln(os.Stderr, err)
		os.Exit(2)
	}
	defer os.RemoveAll(dir)
	T, _ := vh.NewTracer("")
	T.Keep = true
	e := &e2eEnv{dir: dir, T: T, t0: time.Now()}
	e.hub = vh.InstallSnapHub(T, true)
	go e.lagMonitor()
	kind := e2eKinds[*idx%len(e2eKinds)]
	if *long {
		kind = []string{"retry-simple", "retry-slotfull"}[*idx%2]
	}
	variant := *idx / len(e2eKinds)
	ri := 700 + 100*int((*seed+int64(variant))%4) // Config.WebseedRetryInterval, ms
	capd := 2
	nsrc := 2
	switch kind {
	case "retry-slotfull":
		capd = 1
	case "retry-simple", "retry-stopped", "stopat":
		nsrc = 1
	case "plain":
		nsrc, capd = 3, 2
	}
	lay := e2eLayout()
	if kind == "manyfiles" {
		lay = manyFilesLayout()
	}
	for i := 0; i < nsrc; i++ {
		e.newServer(i + 1)
	}
	urls := []string{}
	for _, w := range e.srvs {
		urls = append(urls, w.url)
	}
	if kind == "dupurl" {
		urls = []string{e.srvs[0].url, e.srvs[0].url}
		nsrc = 2
	}
	tor := vh.Build(lay, *seed*131+int64(*idx), nil, urls)
	e.tor = tor
	ini := ev{"op": "Init", "kind": kind, "idx": *idx, "cap": capd, "nsrc": nsrc, "ri": ri, "np": tor.NumPieces, "long": *long}

	// scripted behaviour of the sources and of the peer
	A := e.srvs[0]
	var B *wsrv
	if len(e.srvs) > 1 {
		B = e.srvs[1]
	}
	peerDelay := 60 * time.Millisecond
	var peerGate chan struct{}
	peerHave := func(i int) bool { return true }
	switch kind {
	case "retry-simple", "retry-stopped":
		A.failAt[1] = 500
	case "retry-slotfull":
		A.failAt[1] = 500
		B.chunk, B.delay = 4096, 10*time.Millisecond
		failedB := false
		B.failFn = func(n, ms int) int { // B fails once, when the interval of A has passed
			after := ri + 300
			if *long { // B holds the only slot when the hard-coded minute of A is over
				after = 66000
			}
			if ta, ok := e.firstEv("SrcErr", 1); ok && !failedB && ms > ta+after {
				failedB = true
				return 503
			}
			return 0
		}
		peerDelay = 110 * time.Millisecond
	case "errmid":
		A.failAt[2] = 404
		B.chunk, B.delay = 8192, 10*time.Millisecond
	case "corrupt":
		// one wrong byte in every third piece that source 1 serves
		off := int64(100 + int(*seed%50))
		A.corrupt = func(abs int64) bool { return abs%(3*e2ePL) == off }
		B.chunk, B.delay = 4096, 25*time.Millisecond
		peerDelay = 150 * time.Millisecond
	case "stopat":
		A.chunk, A.delay = 2048, 15*time.Millisecond
		peerDelay = 25 * time.Millisecond
		peerHave = func(i int) bool { return i%8 >= 2 }
	case "manyfiles": // slow web seeds, a fast peer that has everything: it steals from the ranges of the web seeds
		for _, w := range e.srvs {
			w.chunk, w.delay = 2048, time.Duration(8+4*w.idx)*time.Millisecond
		}
		peerDelay = 12 * time.Millisecond
	case "stopstart", "dupurl", "plain":
		for _, w := range e.srvs {
			w.chunk, w.delay = 8192, time.Duration(6+3*w.idx)*time.Millisecond
		}
		peerDelay = 45 * time.Millisecond
		if kind == "dupurl" { // long enough to tell a downloader that is stuck from one that finishes its last piece
			A.chunk, A.delay = 4096, 35*time.Millisecond
			peerDelay = 400 * time.Millisecond
		}
	}
	if *long { // the download must not end before the hard-coded minute has passed
		peerGate = make(chan struct{}, 1000)
		peerDelay = 0
		go func() {
			for {
				time.Sleep(4 * time.Second)
				peerGate <- struct{}{}
			}
		}()
		if B != nil {
			B.chunk, B.delay = 1024, 200*time.Millisecond // about 5 KB/s: busy for more than a minute
		}
	}

	cfg, err := vh.BaseConfig(dir, 8)
	if err != nil {
		fmt.Fprintln(os.Stderr, err)
		os.Exit(2)
	}
	prov := vh.NewMemProvider(T)
	prov.Quiet = true
	prov.Truth[""] = tor
	cfg.CustomStorage = prov
	if kind == "manyfiles" { // a slow disk: a piece buffer stays with the piece writer for a while
		prov.SetHook(func(phase, op, tid, name string, off int64, n int) error {
			if op == "write" && phase == "enter" {
				time.Sleep(12 * time.Millisecond)
			}
			return nil
		})
	}
	cfg.RequestTimeout = 120 * time.Second
	cfg.WebseedMaxDownloads = capd
	cfg.WebseedRetryInterval = time.Duration(ri) * time.Millisecond
	cfg.WebseedResponseBodyReadTimeout = 20 * time.Second
	s, err := torrent.NewSession(cfg)
	if err != nil {
		fmt.Fprintln(os.Stderr, "NewSession:", err)
		os.Exit(2)
	}
	e.log(vh.Ev{"op": "Begin"})
	t, err := s.AddTorrent(bytes.NewReader(tor.Bytes), &torrent.AddTorrentOptions{ID: "t1"})
	if err != nil {
		fmt.Fprintln(os.Stderr, "AddTorrent:", err)
		os.Exit(2)
	}
	downloading := func(v *torrent.VerifSnap) bool { return v.Status == "Downloading" && v.Acceptor && v.Port != 0 }
	skip := ""
	if !e.hub.Wait("t1", 25*time.Second, downloading) {
		skip = "torrent does not reach Downloading"
	}
	peerN := 0
	connectPeer := func() {
		peerN++
		vh.ConnectSeeder(T, "peer", fmt.Sprintf("127.0.0.%d", 1+peerN), fmt.Sprintf("127.0.0.1:%d", t.Port()), tor,
			&vh.SeederPolicy{BlockDelay: peerDelay, Have: peerHave, Gate: peerGate})
	}
	waitEv := func(op string, src int, timeout time.Duration) (int, bool) { // time of the first event (op, src)
		deadline := time.Now().Add(timeout)
		for time.Now().Before(deadline) {
			for _, x := range T.Snapshot() {
				if x["ev"] == "x06" && x["op"] == op && (src == 0 || x["s"] == src) {
					return int(x["t_ms"].(int64)), true
				}
			}
			time.Sleep(10 * time.Millisecond)
		}
		return 0, false
	}
	now := func() int { return int(time.Since(e2eT0(T)).Milliseconds()) }
	complete := func(d time.Duration) bool {
		select {
		case <-t.NotifyComplete():
			return true
		case <-time.After(d):
			return false
		}
	}
	slack := 4000
	if skip == "" {
		connectPeer()
		switch kind {
		case "retry-simple", "retry-slotfull", "errmid":
			src, evsrc := 1, 1
			if kind == "retry-slotfull" { // due after the failure of B
				evsrc = 2
			}
			if kind == "errmid" {
				src, evsrc = 1, 1
			}
			te, ok := waitEv("SrcErr", evsrc, 100*time.Second)
			if !ok {
				skip = "the scripted failure was not reached"
				break
			}
			by := te + slack
			if kind != "retry-slotfull" {
				by = te + ri + slack
			}
			for now() < by && !complete(20*time.Millisecond) {
			}
			e.due(src, false)
			if *long { // does the retry come at all (after the hard-coded minute)?
				tA, _ := waitEv("SrcErr", src, time.Second)
				for now() < tA+60000+4000 && !complete(50*time.Millisecond) {
				}
				e.due(src, true)
			}
		case "retry-stopped":
			te, ok := waitEv("SrcErr", 1, 30*time.Second)
			if !ok {
				skip = "the scripted failure was not reached"
				break
			}
			time.Sleep(100 * time.Millisecond)
			t.Stop()
			if !e.hub.Wait("t1", 10*time.Second, func(v *torrent.VerifSnap) bool { return v.Status == "Stopped" }) {
				skip = "not stopped"
				break
			}
			e.log(vh.Ev{"op": "Stopped"})
			e.gor()
			for now() < te+ri+400 { // the retry timer fires while the torrent is stopped
				time.Sleep(10 * time.Millisecond)
			}
			t.Start()
			if !e.hub.Wait("t1", 15*time.Second, downloading) {
				skip = "not restarted"
				break
			}
			e.log(vh.Ev{"op": "Started"})
			connectPeer()
			by := now() + slack
			for now() < by && !complete(20*time.Millisecond) {
			}
			e.due(1, false)
		case "stopstart":
			time.Sleep(time.Duration(150+(*seed*37+int64(*idx)*11)%400) * time.Millisecond)
			t.Stop()
			if !e.hub.Wait("t1", 10*time.Second, func(v *torrent.VerifSnap) bool { return v.Status == "Stopped" }) {
				skip = "not stopped"
				break
			}
			e.log(vh.Ev{"op": "Stopped"})
			e.gor()
			time.Sleep(3500 * time.Millisecond) // longer than the tolerance for requests that were in flight
			t.Start()
			if !e.hub.Wait("t1", 15*time.Second, downloading) {
				skip = "not restarted"
				break
			}
			e.log(vh.Ev{"op": "Started"})
			connectPeer()
		}
	}
	if skip == "" && !*long {
		if complete(40 * time.Second) {
			// a downloader may still be fetching a piece that somebody else has delivered meanwhile (it is closed when
			// that piece arrives): the counter has to reach zero, not to be zero at once
			e.hub.Wait("t1", 15*time.Second, func(v *torrent.VerifSnap) bool { return v.WebseedActive == 0 && len(v.WebseedRanges) == 0 })
			v := e.hub.Get("t1")
			bad, cls := []int{}, "-"
			for i := 0; i < tor.NumPieces; i++ {
				if prov.Store("t1").PieceClass(tor, i) != "good" {
					bad = append(bad, i)
					cls = badClass(tor, storedPiece(tor, prov.Store("t1"), i), i)
				}
			}
			e.log(vh.Ev{"op": "Done", "active": v.WebseedActive, "ranges": len(v.WebseedRanges), "good": prov.Store("t1").Complete(tor), "bad": bad,
				"badclass": cls})
		} else {
			e.log(vh.Ev{"op": "NotDone"})
		}
	}
	done := make(chan struct{})
	go func() { s.Close(); close(done) }()
	select {
	case <-done:
	case <-time.After(30 * time.Second):
		e.log(vh.Ev{"op": "Hang", "where": "Session.Close"})
	}
	e.gor()
	for _, w := range e.srvs {
		w.srv.Close()
	}
	// the judged trace: one line per observation, in the order of occurrence
	f, err := os.Create(*outp)
	if err != nil {
		fmt.Fprintln(os.Stderr, err)
		os.Exit(2)
	}
	bw := bufio.NewWriter(f)
	put := func(x ev) { b, _ := json.Marshal(x); bw.Write(b); bw.WriteByte('\n') }
	put(ini)
	if skip != "" {
		put(ev{"op": "Skip", "why": skip})
	}
	var last string
	for _, x := range T.Snapshot() {
		tms := int(x["t_ms"].(int64))
		switch x["ev"] {
		case "snap":
			rs := [][]int{}
			dn := map[int]bool{}
			if d, ok := x["done"].([]any); ok {
				for _, q := range d {
					dn[toInt(q)] = true
				}
			}
			if r, ok := x["webseedRanges"].([]any); ok {
				for _, q := range r {
					a := q.([]any)
					b, en, cur := toInt(a[1]), toInt(a[2]), toInt(a[3])
					z := 0 // nothing left to do for this downloader: every piece from its current one on is done
					if cur < en {
						z = 1
						for i := cur; i < en; i++ {
							if !dn[i] {
								z = 0
							}
						}
					}
					rs = append(rs, []int{toInt(a[0]) + 1, b, en, cur, z})
				}
			}
			y := ev{"op": "Snap", "active": toInt(x["webseedActive"]), "ranges": rs, "status": x["status"]}
			b, _ := json.Marshal(y)
			if string(b) == last {
				continue
			}
			last = string(b)
			y["t"] = tms
			put(y)
		case "x06":
			y := ev{"t": tms}
			for k, v := range x {
				if k != "ev" && k != "seq" && k != "t_ms" && k != "tr" {
					y[k] = v
				}
			}
			put(y)
		}
	}
	put(ev{"op": "End"})
	bw.Flush()
	f.Close()
}

func e2eT0(T *vh.Tracer) time.Time { return vh.TracerT0(T) }

// storedPiece assembles what the storage holds for piece i (padding as zeros, missing bytes as 0xFF).
func storedPiece(tor *vh.Torrent, st *vh.MemStorage, i int) []byte {
	lo := int64(i) * int64(tor.PieceLen)
	hi := lo + int64(tor.PieceLenOf(i))
	out := make([]byte, 0, hi-lo)
	for fi, f := range tor.Files {
		fs := tor.FileStart(fi)
		a, b := max(lo, fs), min(hi, fs+f.Length)
		if a >= b {
			continue
		}
		seg := make([]byte, b-a)
		if !f.Pad {
			d := st.FileBytes(tor.StoragePath(fi))
			for k := range seg {
				if int(a-fs)+k < len(d) {
					seg[k] = d[int(a-fs)+k]
				} else {
					seg[k] = 0xFF
				}
			}
		}
		out = append(out, seg...)
	}
	return out
}

// badClass tells how a stored piece differs from the ground truth: "zeros" (the wrong bytes are zero: a buffer that
// pool.Get has cleared), "other-piece" (they are the bytes of another piece at the same offset: a buffer that somebody
// else has filled), "garbage" otherwise.  The first two are the signature of a piece buffer with two owners.
func badClass(tor *vh.Torrent, got []byte, i int) string {
	want := tor.PieceData(i)
	first, last := -1, -1
	for k := range want {
		if k >= len(got) || got[k] != want[k] {
			if first < 0 {
				first = k
			}
			last = k
		}
	}
	if first < 0 || last >= len(got) {
		return "garbage"
	}
	zeros := true
	for k := first; k <= last; k++ {
		if got[k] != want[k] && got[k] != 0 {
			zeros = false
		}
	}
	w := min(48, last-first+1)
	for q := 0; q < tor.NumPieces; q++ {
		if q == i || tor.PieceLenOf(q) < first+w {
			continue
		}
		if bytes.Equal(got[first:first+w], tor.PieceData(q)[first:first+w]) {
			return "other-piece"
		}
	}
	if zeros {
		return "zeros"
	}
	return "garbage"
}

func (e *e2eEnv) gor() {
	n := 0
	for k := 0; k < 100; k++ {
		if n = wsGoroutines(); n == 0 {
			break
		}
		time.Sleep(20 * time.Millisecond)
	}
	e.log(vh.Ev{"op": "Gor", "n": n})
}

func toInt(v any) int {
	switch x := v.(type) {
	case float64:
		return int(x)
	case int:
		return x
	case int64:
		return int(x)
	case uint32:
		return int(x)
	case json.Number:
		n, _ := x.Int64()
		return int(n)
	}
	return 0
}

func e2eMain(args []string) {
	fs := flag.NewFlagSet("e2e", flag.ExitOnError)
	outp := fs.String("out", "sess.ndjson", "")
	seed := fs.Int64("seed", 1, "")
	n := fs.Int("n", 9, "number of scenarios")
	nlong := fs.Int("long", 0, "number of scenarios that wait for the hard-coded minute")
	par := fs.Int("par", 4, "")
	fs.Parse(args)
	self, _ := os.Executable()
	type job struct {
		idx  int
		long bool
	}
	var jobs []job
	for i := 0; i < *nlong; i++ {
		jobs = append(jobs, job{i, true})
	}
	for i := 0; i < *n; i++ {
		jobs = append(jobs, job{i, false})
	}
	parts := make([][]byte, len(jobs))
	var wg sync.WaitGroup
	sem := make(chan struct{}, *par)
	for k, j := range jobs {
		wg.Add(1)
		go func(k int, j job) {
			defer wg.Done()
			sem <- struct{}{}
			defer func() { <-sem }()
			part := fmt.Sprintf("%s.part%d", *outp, k)
			a := []string{"e2echild", "-out", part, "-seed", strconv.FormatInt(*seed, 10), "-idx", strconv.Itoa(j.idx)}
			to := 120 * time.Second
			if j.long {
				a = append(a, "-long")
				to = 200 * time.Second
			}
			cmd := exec.Command(self, a...)
			var stderr bytes.Buffer
			cmd.Stderr = &stderr
			cmd.Start()
			ch := make(chan error, 1)
			go func() { ch <- cmd.Wait() }()
			var err error
			hang := false
			select {
			case err = <-ch:
			case <-time.After(to):
				cmd.Process.Kill()
				<-ch
				hang = true
			}
			b, _ := os.ReadFile(part)
			os.Remove(part)
			if hang || err != nil || len(b) == 0 {
				msg := stderr.String()
				if len(msg) > 1500 {
					msg = msg[:1500]
				}
				kind := e2eKinds[j.idx%len(e2eKinds)]
				x, _ := json.Marshal(ev{"op": "Init", "kind": kind, "idx": j.idx, "cap": 1, "nsrc": 1, "ri": 0, "np": 0, "long": j.long})
				op := "Crash"
				if hang {
					op = "Hang"
				}
				y, _ := json.Marshal(ev{"op": op, "msg": msg, "t": 0})
				b = append(append(x, '\n'), append(y, '\n')...)
			}
			parts[k] = b
		}(k, j)
	}
	wg.Wait()
	out, err := os.Create(*outp)
	if err != nil {
		fmt.Fprintln(os.Stderr, err)
		os.Exit(2)
	}
	events := 0
	for _, b := range parts {
		out.Write(b)
		events += bytes.Count(b, []byte{'\n'})
	}
	out.Close()
	fmt.Printf("{\"events\":%d,\"traces\":%d}\n", events, len(jobs))
}
