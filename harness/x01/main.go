// Command x01 drives the real internal/unchoker.Unchoker with stub peers (its Peer interface) in the calling
// discipline of the torrent loop and records one ndjson line per call: the call, the choke / unchoke messages it
// sent and the flags of all peers after it (Trace_Unchoker.tla judges).
//
//	x01 -out f [-scripts s.ndjson] [-n 200 -ops 60 -maxpeers 6] [-fair 6] -seed N
package main

import (
	"bufio"
	"encoding/json"
	"flag"
	"fmt"
	"math"
	"math/rand"
	"os"

	"github.com/cenkalti/rain/v2/internal/unchoker"
)

type ev map[string]any

type msg struct {
	Pe int    `json:"pe"`
	M  string `json:"m"`
}

// stub implements unchoker.Peer; Choke / Unchoke "send" by appending to the log of the running call.
type stub struct {
	id         int
	s          *sim
	choking    bool
	interested bool
	optimistic bool
	dl, ul     int
}

func (p *stub) Choke()               { p.s.msgs = append(p.s.msgs, msg{p.id, "choke"}); p.choking = true }
func (p *stub) Unchoke()             { p.s.msgs = append(p.s.msgs, msg{p.id, "unchoke"}); p.choking = false }
func (p *stub) Choking() bool        { return p.choking }
func (p *stub) Interested() bool     { return p.interested }
func (p *stub) SetOptimistic(v bool) { p.optimistic = v }
func (p *stub) Optimistic() bool     { return p.optimistic }
func (p *stub) DownloadSpeed() int   { return p.dl }
func (p *stub) UploadSpeed() int     { return p.ul }

type sim struct {
	rng     *rand.Rand
	npeers  int
	n, m    int
	u       *unchoker.Unchoker
	peers   []*stub // 1-based, nil = not connected
	gone    []*stub // stubs of closed peers: a message to one of them is logged (and judged)
	msgs    []msg
	out     *bufio.Writer
	nevents int
}

func (s *sim) write(e ev) {
	b, _ := json.Marshal(e)
	s.out.Write(b)
	s.out.WriteByte('\n')
	s.nevents++
}

func (s *sim) emit(e ev) {
	chk := make([]bool, s.npeers)
	opt := make([]bool, s.npeers)
	for i := 1; i <= s.npeers; i++ {
		chk[i-1] = true
		if p := s.peers[i]; p != nil {
			chk[i-1], opt[i-1] = p.choking, p.optimistic
		}
	}
	// a closed peer that was touched shows up as a ghost
	for _, g := range s.gone {
		if s.peers[g.id] == nil && (!g.choking || g.optimistic) {
			chk[g.id-1], opt[g.id-1] = g.choking, g.optimistic
		}
	}
	if s.msgs == nil {
		s.msgs = []msg{}
	}
	e["msgs"] = s.msgs
	e["chk"] = chk
	e["opt"] = opt
	s.write(e)
	s.msgs = nil
}

func (s *sim) start(fair int) {
	s.u = unchoker.New(s.n, s.m)
	s.peers = make([]*stub, s.npeers+1)
	s.gone = nil
	s.write(ev{"op": "Init", "npeers": s.npeers, "N": s.n, "M": s.m, "fair": fair})
}

type stopTrace struct{}

func (s *sim) guard(op string) {
	if r := recover(); r != nil {
		s.msgs = nil
		s.write(ev{"op": "Panic", "in": op, "msg": fmt.Sprint(r)})
		panic(stopTrace{})
	}
}

func (s *sim) connect(pe int) bool {
	if s.peers[pe] != nil {
		return false
	}
	s.peers[pe] = &stub{id: pe, s: s, choking: true}
	s.emit(ev{"op": "Connect", "pe": pe})
	return true
}

func (s *sim) disconnect(pe int) bool {
	p := s.peers[pe]
	if p == nil {
		return false
	}
	defer s.guard("Disconnect")
	s.u.HandleDisconnect(p) // closePeer
	s.peers[pe] = nil
	p.choking, p.optimistic = true, false
	s.gone = append(s.gone, p)
	s.emit(ev{"op": "Disconnect", "pe": pe})
	return true
}

func (s *sim) interested(pe int) bool {
	p := s.peers[pe]
	if p == nil {
		return false
	}
	defer s.guard("Interested")
	p.interested = true // torrent_messagehandler.go: InterestedMessage
	s.u.FastUnchoke(p)
	s.emit(ev{"op": "Interested", "pe": pe})
	return true
}

func (s *sim) notInterested(pe int) bool {
	p := s.peers[pe]
	if p == nil {
		return false
	}
	p.interested = false
	s.emit(ev{"op": "NotInterested", "pe": pe})
	return true
}

// tick: rates are set on the stubs, the peers are handed over in random order (t.peers is a map) in a fresh slice.
func (s *sim) tick(dl, ul []int, completed bool) {
	defer s.guard("Tick")
	var list []unchoker.Peer
	for i := 1; i <= s.npeers; i++ {
		if p := s.peers[i]; p != nil {
			p.dl, p.ul = dl[i-1], ul[i-1]
			list = append(list, p)
		}
	}
	s.rng.Shuffle(len(list), func(i, j int) { list[i], list[j] = list[j], list[i] })
	s.u.TickUnchoke(list, completed)
	s.emit(ev{"op": "Tick", "completed": completed, "dl": dl, "ul": ul})
}

func (s *sim) protect(f func()) {
	defer func() {
		if r := recover(); r != nil {
			if _, ok := r.(stopTrace); !ok {
				panic(r)
			}
		}
	}()
	f()
}

func (s *sim) randRates(style int) []int {
	r := make([]int, s.npeers)
	for i := range r {
		switch style {
		case 0: // many ties
			r[i] = s.rng.Intn(3)
		case 1: // realistic byte rates, mostly distinct
			r[i] = s.rng.Intn(200000)
		default: // mostly idle
			if s.rng.Intn(4) == 0 {
				r[i] = 1 + s.rng.Intn(5)
			}
		}
	}
	return r
}

func (s *sim) runRandom(nops int) {
	s.protect(func() {
		s.start(0)
		style := s.rng.Intn(3)
		completed := s.rng.Intn(3) == 0
		for n, tries := 0, 0; n < nops && tries < nops*20; tries++ {
			pe := 1 + s.rng.Intn(s.npeers)
			ok := false
			switch d := s.rng.Intn(100); {
			case d < 22:
				if s.rng.Intn(12) == 0 {
					completed = !completed
				}
				s.tick(s.randRates(style), s.randRates(style), completed)
				ok = true
			case d < 40:
				ok = s.connect(pe)
			case d < 46:
				ok = s.disconnect(pe)
			case d < 80:
				ok = s.interested(pe)
			default:
				ok = s.notInterested(pe)
			}
			if ok {
				n++
			}
		}
	})
}

type scriptOp struct {
	Op        string `json:"op"`
	Pe        int    `json:"pe"`
	Dl        []int  `json:"dl"`
	Ul        []int  `json:"ul"`
	Completed bool   `json:"completed"`
}
type script struct {
	Npeers, N, M int
	Ops          []scriptOp
}

// runScript replays a history generated by TLC (MC_UnchokerGen); inapplicable steps are skipped.
func (s *sim) runScript(sc script) {
	s.protect(func() {
		s.start(0)
		for _, o := range sc.Ops {
			if o.Op != "Tick" && (o.Pe < 1 || o.Pe > s.npeers) {
				continue
			}
			switch o.Op {
			case "Connect":
				s.connect(o.Pe)
			case "Disconnect":
				s.disconnect(o.Pe)
			case "Interested":
				s.interested(o.Pe)
			case "NotInterested":
				s.notInterested(o.Pe)
			case "Tick":
				if len(o.Dl) == s.npeers && len(o.Ul) == s.npeers {
					s.tick(o.Dl, o.Ul, o.Completed)
				}
			}
		}
	})
}

// runFair: X01.l on the code.  All peers stay connected and interested, the n fastest hold the regular slots for
// ever, the others can only be served through the optimistic slot.  L = number of optimistic rounds a fair uniform
// draw of m out of c candidates misses one given candidate with probability < 1e-12.
func (s *sim) runFair() {
	s.protect(func() {
		c := s.npeers - s.n
		if c < 1 {
			c = 1
		}
		L := 1
		if s.m < c {
			L = int(math.Ceil(math.Log(1e-12) / math.Log(1-float64(s.m)/float64(c))))
		}
		s.start(L)
		for i := 1; i <= s.npeers; i++ {
			s.connect(i)
		}
		for i := 1; i <= s.npeers; i++ {
			s.interested(i)
		}
		completed := s.rng.Intn(2) == 0
		rate := make([]int, s.npeers)
		zero := make([]int, s.npeers)
		for i := range rate {
			if i < s.n {
				rate[i] = 1000 * (s.n - i) // the regular slots
			} else if s.rng.Intn(2) == 0 {
				rate[i] = s.rng.Intn(3) // slow peers, ties
			}
		}
		s.rng.Shuffle(len(rate), func(i, j int) { rate[i], rate[j] = rate[j], rate[i] })
		for k := 0; k < 3*(2*L+4); k++ {
			if completed {
				s.tick(zero, rate, true)
			} else {
				s.tick(rate, zero, false)
			}
		}
	})
}

func main() {
	seed := flag.Int64("seed", 1, "")
	ntraces := flag.Int("n", 100, "number of random histories")
	nops := flag.Int("ops", 60, "calls per history")
	maxPeers := flag.Int("maxpeers", 6, "")
	scripts := flag.String("scripts", "", "ndjson file with TLC-generated histories")
	nfair := flag.Int("fair", 0, "number of fairness runs")
	outp := flag.String("out", "trace.ndjson", "")
	flag.Parse()
	f, err := os.Create(*outp)
	if err != nil {
		panic(err)
	}
	w := bufio.NewWriterSize(f, 1<<20)
	rng := rand.New(rand.NewSource(*seed))
	total, ntr := 0, 0
	if *scripts != "" {
		sf, err := os.Open(*scripts)
		if err != nil {
			panic(err)
		}
		sc := bufio.NewScanner(sf)
		sc.Buffer(make([]byte, 1<<20), 1<<26)
		for sc.Scan() {
			var x script
			if json.Unmarshal(sc.Bytes(), &x) != nil || x.Npeers == 0 {
				continue
			}
			s := &sim{rng: rng, npeers: x.Npeers, n: x.N, m: x.M, out: w}
			s.runScript(x)
			total += s.nevents
			ntr++
		}
	}
	for i := 0; i < *ntraces; i++ {
		s := &sim{rng: rng, out: w}
		s.npeers = 1 + rng.Intn(*maxPeers)
		s.n = []int{0, 1, 1, 2, 2, 3}[rng.Intn(6)]
		s.m = []int{0, 1, 1, 1, 2}[rng.Intn(5)]
		s.runRandom(*nops)
		total += s.nevents
		ntr++
	}
	for i := 0; i < *nfair; i++ {
		s := &sim{rng: rng, out: w}
		s.n = rng.Intn(3)
		s.m = 1 + rng.Intn(2)
		s.npeers = s.n + s.m + 1 + rng.Intn(4)
		s.runFair()
		total += s.nevents
		ntr++
	}
	w.Flush()
	f.Close()
	fmt.Printf("{\"events\":%d,\"traces\":%d}\n", total, ntr)
}
