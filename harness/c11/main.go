// Command c11 drives the real btconn handshake, peerwriter and peerreader with generated cases and records
// one ndjson event per observation (Trace_Wire.tla judges).
//
// The driver is deliberately ignorant of the peer protocol: it builds the real Go message values from the case
// file, captures raw bytes, cuts the captured stream into frames by the 4-byte length prefix only, and splits
// a frame into "head" and "payload" by arithmetic on (frame length, payload length of the input message).
// Bytes fed to the real reader are the encodings printed by TLC (WireGen) plus payloads materialised from a seed.
package main

import (
	"bufio"
	"crypto/sha1"
	"encoding/hex"
	"encoding/json"
	"errors"
	"flag"
	"fmt"
	"io"
	"math/rand"
	"net"
	"os"
	"sort"
	"sync"
	"time"

	"github.com/cenkalti/rain/v2/internal/btconn"
	"github.com/cenkalti/rain/v2/internal/logger"
	"github.com/cenkalti/rain/v2/internal/peerconn/peerreader"
	"github.com/cenkalti/rain/v2/internal/peerconn/peerwriter"
	"github.com/cenkalti/rain/v2/internal/peerprotocol"
)

type ev map[string]any

// ---------------------------------------------------------------------------------------------- case file

type mEnt struct {
	Key []int `json:"key"`
	ID  int   `json:"id"`
}

type msg struct {
	K            string `json:"k"`
	Index        []int  `json:"index"`
	Begin        []int  `json:"begin"`
	Length       []int  `json:"length"`
	Port         int    `json:"port"`
	Extid        int    `json:"extid"`
	M            []mEnt `json:"m"`
	V            []int  `json:"v"`
	Yourip       []int  `json:"yourip"`
	MetadataSize []int  `json:"metadata_size"`
	Reqq         []int  `json:"reqq"`
	MsgType      int    `json:"msg_type"`
	Piece        []int  `json:"piece"`
	TotalSize    []int  `json:"total_size"`
	Added        []int  `json:"added"`
	Dropped      []int  `json:"dropped"`
	Reserved     []int  `json:"reserved"`
	Ih           []int  `json:"ih"`
	Pid          []int  `json:"pid"`
	ID           int    `json:"id"`
	Plen         int    `json:"plen"`
	Pseed        int    `json:"pseed"`
	Pdata        []int  `json:"pdata"`
	HasPdata     bool   `json:"haspdata"`
	Gi           int    `json:"gi"`      // 1-based index into the TLC-printed heads (reader cases)
	Variant      int    `json:"variant"` // which admissible encoding to feed
}

type tcase struct {
	Case    string `json:"case"`
	Fast    bool   `json:"fast"`
	Hs      bool   `json:"hs"`
	Via     string `json:"via"`
	Chunk   string `json:"chunk"`
	Cseed   int64  `json:"cseed"`
	Msgs    []msg  `json:"msgs"`
	OurRsv  []int  `json:"our_rsv"`
	OurPid  []int  `json:"our_pid"`
	WaitSec int    `json:"wait_sec"`
	// FAULT (case "w"): the connection breaks inside the frame of message CutAt (0-based; -1/absent: no fault).  The transport
	// decides how many bytes it still takes from the length of the Write alone: CutK >= 0 counts from the start of the
	// frame, CutK < 0 from its end (always fewer than the whole frame).  CutErr: "op" = *net.OpError, else a plain error.
	CutAt  *int   `json:"cut_at"`
	CutK   int    `json:"cut_k"`
	CutErr string `json:"cut_err"`
	// case "chs": handshakes of several connections in flight at the same time
	Conns []tcase `json:"conns"`
	Sched []struct {
		Op string `json:"op"` // "b": the call of connection C runs until its handshake Write is pending, "f": the transport takes the bytes
		C  int    `json:"c"`
	} `json:"sched"`
}

type headsLine struct {
	I     int     `json:"i"`
	Heads [][]int `json:"heads"`
}

// ---------------------------------------------------------------------------------------------- helpers

func ints(b []byte) []int {
	out := make([]int, len(b))
	for i, x := range b {
		out[i] = int(x)
	}
	return out
}

func bytesOf(a []int) []byte {
	out := make([]byte, len(a))
	for i, x := range a {
		out[i] = byte(x)
	}
	return out
}

func u32(l []int) uint32 {
	if len(l) != 2 {
		panic("u32 needs two limbs")
	}
	return uint32(l[0])<<16 | uint32(l[1])
}

func limbs32(v uint32) []int { return []int{int(v >> 16), int(v & 0xffff)} }

// big: limbs (base 65536, most significant first) -> uint64
func big(l []int) uint64 {
	var v uint64
	for _, x := range l {
		v = v<<16 | uint64(x)
	}
	return v
}

// normalised limbs of a non-negative integer
func limbsOf(v uint64) []int {
	out := []int{}
	for v > 0 {
		out = append([]int{int(v & 0xffff)}, out...)
		v >>= 16
	}
	return out
}

func shaHex(b []byte) string {
	s := sha1.Sum(b)
	return hex.EncodeToString(s[:])
}

func first8(b []byte) []int {
	if len(b) > 8 {
		b = b[:8]
	}
	return ints(b)
}

func last8(b []byte) []int {
	if len(b) > 8 {
		b = b[len(b)-8:]
	}
	return ints(b)
}

// payload byte at absolute offset o for seed s
func gen(seed int, o int64) byte {
	x := uint64(o)*0x9E3779B97F4A7C15 + uint64(seed)*0xC2B2AE3D27D4EB4F
	x ^= x >> 29
	x *= 0xBF58476D1CE4E5B9
	x ^= x >> 32
	return byte(x)
}

// payload of a message: literal pdata, or generated; for piece messages the block is data[begin : begin+plen]
func (m *msg) base() int64 {
	if m.K == "piece" {
		return int64(u32(m.Begin))
	}
	return 0
}

func (m *msg) payload() []byte {
	if m.HasPdata {
		return bytesOf(m.Pdata)
	}
	out := make([]byte, m.Plen)
	b := m.base()
	for i := range out {
		out[i] = gen(m.Pseed, b+int64(i))
	}
	return out
}

// the "piece data" the writer reads from: an io.ReaderAt addressed by absolute offset inside the piece
type pieceData struct{ m *msg }

func (p pieceData) ReadAt(b []byte, off int64) (int, error) {
	base := p.m.base()
	for i := range b {
		o := off + int64(i)
		if p.m.HasPdata {
			j := o - base
			if j < 0 || j >= int64(len(p.m.Pdata)) {
				b[i] = 0xEE
			} else {
				b[i] = byte(p.m.Pdata[j])
			}
		} else {
			b[i] = gen(p.m.Pseed, o)
		}
	}
	return len(b), nil
}

var payloadKinds = map[string]bool{"piece": true, "bitfield": true, "ext_metadata": true, "unknown": true}

// describe an input message for the trace (adds the payload descriptors computed from the INPUT payload)
func (m *msg) describe() ev {
	e := ev{"k": m.K}
	switch m.K {
	case "have", "suggest", "allowed_fast":
		e["index"] = m.Index
	case "request", "cancel", "reject":
		e["index"], e["begin"], e["length"] = m.Index, m.Begin, m.Length
	case "piece":
		e["index"], e["begin"] = m.Index, m.Begin
	case "port":
		e["port"] = m.Port
	case "unknown":
		e["id"] = m.ID
	case "handshake":
		e["reserved"], e["ih"], e["pid"] = m.Reserved, m.Ih, m.Pid
	case "ext_handshake":
		mm := []ev{}
		for _, x := range m.M {
			mm = append(mm, ev{"key": nz(x.Key), "id": x.ID})
		}
		e["extid"], e["m"], e["v"], e["yourip"] = m.Extid, mm, nz(m.V), nz(m.Yourip)
		e["metadata_size"], e["reqq"] = nz(m.MetadataSize), nz(m.Reqq)
	case "ext_metadata":
		e["extid"], e["msg_type"], e["piece"], e["total_size"] = m.Extid, m.MsgType, nz(m.Piece), nz(m.TotalSize)
	case "ext_pex":
		e["extid"], e["added"], e["dropped"] = m.Extid, nz(m.Added), nz(m.Dropped)
	}
	if payloadKinds[m.K] {
		p := m.payload()
		e["plen"], e["psha"], e["pfirst"], e["plast"] = len(p), shaHex(p), first8(p), last8(p)
	}
	return e
}

func nz(a []int) []int {
	if a == nil {
		return []int{}
	}
	return a
}

// real message value for the writer
func (m *msg) real() (peerprotocol.Message, error) {
	req := func() peerprotocol.RequestMessage {
		return peerprotocol.RequestMessage{Index: u32(m.Index), Begin: u32(m.Begin), Length: u32(m.Length)}
	}
	switch m.K {
	case "choke":
		return peerprotocol.ChokeMessage{}, nil
	case "unchoke":
		return peerprotocol.UnchokeMessage{}, nil
	case "interested":
		return peerprotocol.InterestedMessage{}, nil
	case "not_interested":
		return peerprotocol.NotInterestedMessage{}, nil
	case "have_all":
		return peerprotocol.HaveAllMessage{}, nil
	case "have_none":
		return peerprotocol.HaveNoneMessage{}, nil
	case "have":
		return peerprotocol.HaveMessage{Index: u32(m.Index)}, nil
	case "allowed_fast":
		return peerprotocol.AllowedFastMessage{HaveMessage: peerprotocol.HaveMessage{Index: u32(m.Index)}}, nil
	case "request":
		return req(), nil
	case "cancel":
		return peerprotocol.CancelMessage{RequestMessage: req()}, nil
	case "reject":
		return peerprotocol.RejectMessage{RequestMessage: req()}, nil
	case "port":
		return peerprotocol.PortMessage{Port: uint16(m.Port)}, nil
	case "bitfield":
		return &peerprotocol.BitfieldMessage{Data: m.payload()}, nil
	case "ext_handshake":
		mm := map[string]uint8{}
		for _, x := range m.M {
			mm[string(bytesOf(x.Key))] = uint8(x.ID)
		}
		return peerprotocol.ExtensionMessage{ExtendedMessageID: uint8(m.Extid), Payload: peerprotocol.ExtensionHandshakeMessage{
			M: mm, V: string(bytesOf(m.V)), YourIP: string(bytesOf(m.Yourip)),
			MetadataSize: int(big(m.MetadataSize)), RequestQueue: int(big(m.Reqq))}}, nil
	case "ext_metadata":
		return peerprotocol.ExtensionMessage{ExtendedMessageID: uint8(m.Extid), Payload: peerprotocol.ExtensionMetadataMessage{
			Type: m.MsgType, Piece: uint32(big(m.Piece)), TotalSize: int(big(m.TotalSize)), Data: m.payload()}}, nil
	case "ext_pex":
		return peerprotocol.ExtensionMessage{ExtendedMessageID: uint8(m.Extid), Payload: peerprotocol.ExtensionPEXMessage{
			Added: string(bytesOf(m.Added)), Dropped: string(bytesOf(m.Dropped))}}, nil
	}
	return nil, fmt.Errorf("kind %q cannot be sent through the writer", m.K)
}

// describe a message delivered by the real reader
func describeGot(x any) ev {
	pl := func(e ev, p []byte) ev {
		e["plen"], e["psha"], e["pfirst"], e["plast"] = len(p), shaHex(p), first8(p), last8(p)
		return e
	}
	rq := func(k string, r peerprotocol.RequestMessage) ev {
		return ev{"k": k, "index": limbs32(r.Index), "begin": limbs32(r.Begin), "length": limbs32(r.Length)}
	}
	nonneg := func(v int) []int {
		if v < 0 {
			return []int{65535, 65535, 65535, 65535, 65535} // cannot equal any generated value
		}
		return limbsOf(uint64(v))
	}
	switch v := x.(type) {
	case peerprotocol.ChokeMessage:
		return ev{"k": "choke"}
	case peerprotocol.UnchokeMessage:
		return ev{"k": "unchoke"}
	case peerprotocol.InterestedMessage:
		return ev{"k": "interested"}
	case peerprotocol.NotInterestedMessage:
		return ev{"k": "not_interested"}
	case peerprotocol.HaveAllMessage:
		return ev{"k": "have_all"}
	case peerprotocol.HaveNoneMessage:
		return ev{"k": "have_none"}
	case peerprotocol.HaveMessage:
		return ev{"k": "have", "index": limbs32(v.Index)}
	case peerprotocol.AllowedFastMessage:
		return ev{"k": "allowed_fast", "index": limbs32(v.Index)}
	case peerprotocol.RequestMessage:
		return rq("request", v)
	case peerprotocol.CancelMessage:
		return rq("cancel", v.RequestMessage)
	case peerprotocol.RejectMessage:
		return rq("reject", v.RequestMessage)
	case peerprotocol.PortMessage:
		return ev{"k": "port", "port": int(v.Port)}
	case peerprotocol.BitfieldMessage:
		return pl(ev{"k": "bitfield"}, v.Data)
	case peerreader.Piece:
		e := pl(ev{"k": "piece", "index": limbs32(v.Index), "begin": limbs32(v.Begin)}, v.Buffer.Data)
		v.Buffer.Release()
		return e
	case peerprotocol.ExtensionHandshakeMessage:
		mm := []ev{}
		keys := make([]string, 0, len(v.M))
		for k := range v.M {
			keys = append(keys, k)
		}
		sort.Strings(keys)
		for _, k := range keys {
			mm = append(mm, ev{"key": ints([]byte(k)), "id": int(v.M[k])})
		}
		return ev{"k": "ext_handshake", "extid": 0, "m": mm, "v": ints([]byte(v.V)), "yourip": ints([]byte(v.YourIP)),
			"metadata_size": nonneg(v.MetadataSize), "reqq": nonneg(v.RequestQueue)}
	case peerprotocol.ExtensionMetadataMessage:
		return pl(ev{"k": "ext_metadata", "extid": 1, "msg_type": v.Type, "piece": limbsOf(uint64(v.Piece)),
			"total_size": nonneg(v.TotalSize)}, v.Data)
	case peerprotocol.ExtensionPEXMessage:
		return ev{"k": "ext_pex", "extid": 2, "added": ints([]byte(v.Added)), "dropped": ints([]byte(v.Dropped))}
	}
	return ev{"k": "unknown", "id": -1, "plen": 0, "psha": fmt.Sprintf("%T", x), "pfirst": []int{}, "plast": []int{}}
}

// ---------------------------------------------------------------------------------------------- fake conns

type addr struct{}

func (addr) Network() string { return "tcp" }
func (addr) String() string  { return "10.9.8.7:6881" }

// capConn: every Write is handed to the driver as one record; Read blocks until closed.
type capConn struct {
	recC   chan []byte
	closeC chan struct{}
	once   sync.Once
	// fault: the cutAt-th Write (0-based) is taken only in part and fails; every later Write fails outright
	cutAt, cutK  int
	cutErr       error
	nw           int
	cutN, cutGot int // length of the Write that was cut / bytes taken from it (-1: none yet)
}

func newCapConn() *capConn {
	return &capConn{recC: make(chan []byte), closeC: make(chan struct{}), cutAt: -1, cutGot: -1}
}

func (c *capConn) Write(b []byte) (int, error) {
	if c.cutGot >= 0 { // the connection is broken
		return 0, c.cutErr
	}
	if c.nw == c.cutAt {
		k := c.cutK
		if k < 0 {
			k = len(b) + k
		}
		if k > len(b)-1 {
			k = len(b) - 1
		}
		if k < 0 {
			k = 0
		}
		cp := append([]byte(nil), b[:k]...)
		select {
		case c.recC <- cp:
			c.cutN, c.cutGot = len(b), k
			return k, c.cutErr
		case <-c.closeC:
			return 0, io.ErrClosedPipe
		}
	}
	c.nw++
	cp := append([]byte(nil), b...)
	select {
	case c.recC <- cp:
		return len(b), nil
	case <-c.closeC:
		return 0, io.ErrClosedPipe
	}
}
func (c *capConn) Read(b []byte) (int, error)         { <-c.closeC; return 0, io.EOF }
func (c *capConn) Close() error                       { c.once.Do(func() { close(c.closeC) }); return nil }
func (c *capConn) LocalAddr() net.Addr                { return addr{} }
func (c *capConn) RemoteAddr() net.Addr               { return addr{} }
func (c *capConn) SetDeadline(t time.Time) error      { return nil }
func (c *capConn) SetReadDeadline(t time.Time) error  { return nil }
func (c *capConn) SetWriteDeadline(t time.Time) error { return nil }

// feedConn: Read returns the scripted chunks (never more than one chunk per call), then EOF; Writes are captured.
// A negative chunk is TIME: the transport stays silent until the read deadline that the reader has armed expires
// (the Read call returns a net.Error with Timeout() = true and no bytes), after which the data continues.
type feedConn struct {
	mu       sync.Mutex
	data     []byte
	chunks   []int
	pos      int
	ci       int
	left     int
	wrote    []byte
	deadline bool // a read deadline is armed
	ntout    int  // expired deadlines delivered
}

type timeoutErr struct{}

func (timeoutErr) Error() string   { return "i/o timeout (scripted)" }
func (timeoutErr) Timeout() bool   { return true }
func (timeoutErr) Temporary() bool { return true }

func (c *feedConn) Read(b []byte) (int, error) {
	c.mu.Lock()
	defer c.mu.Unlock()
	if len(b) == 0 {
		return 0, nil
	}
	for c.left == 0 {
		if c.ci >= len(c.chunks) {
			if c.pos < len(c.data) {
				c.left = len(c.data) - c.pos
				break
			}
			return 0, io.EOF
		}
		if c.chunks[c.ci] < 0 {
			c.ci++
			if c.deadline { // silence lasts until the armed deadline; without a deadline the read would simply wait it out
				c.ntout++
				return 0, timeoutErr{}
			}
			continue
		}
		c.left = c.chunks[c.ci]
		c.ci++
	}
	n := c.left
	if n > len(b) {
		n = len(b)
	}
	if n > len(c.data)-c.pos {
		n = len(c.data) - c.pos
	}
	if n == 0 {
		return 0, io.EOF
	}
	copy(b, c.data[c.pos:c.pos+n])
	c.pos += n
	c.left -= n
	return n, nil
}
func (c *feedConn) Write(b []byte) (int, error) {
	c.mu.Lock()
	c.wrote = append(c.wrote, b...)
	c.mu.Unlock()
	return len(b), nil
}
func (c *feedConn) Close() error         { return nil }
func (c *feedConn) LocalAddr() net.Addr  { return addr{} }
func (c *feedConn) RemoteAddr() net.Addr { return addr{} }
func (c *feedConn) SetDeadline(t time.Time) error {
	return c.SetReadDeadline(t)
}
func (c *feedConn) SetReadDeadline(t time.Time) error {
	c.mu.Lock()
	c.deadline = !t.IsZero()
	c.mu.Unlock()
	return nil
}
func (c *feedConn) SetWriteDeadline(t time.Time) error { return nil }

// ---------------------------------------------------------------------------------------------- framing (length prefix only)

func cut(stream []byte) (frames [][]byte, leftover int) {
	rest := stream
	for len(rest) >= 4 {
		n := int(uint32(rest[0])<<24 | uint32(rest[1])<<16 | uint32(rest[2])<<8 | uint32(rest[3]))
		if n < 0 || 4+n > len(rest) {
			break
		}
		frames = append(frames, rest[:4+n])
		rest = rest[4+n:]
	}
	return frames, len(rest)
}

// frame descriptor: head = frame[0 : n-plen], the remainder by (sha, first 8, last 8)
func frameDesc(fr []byte, plen int) ev {
	split := len(fr) - plen
	if split < 0 {
		split = 0
	}
	tail := fr[split:]
	all := []int{}
	if len(fr) <= 64 {
		all = ints(fr)
	}
	return ev{"present": true, "n": len(fr), "head": ints(fr[:split]), "wsha": shaHex(tail), "wfirst": first8(tail),
		"wlast": last8(tail), "all": all}
}

func noFrame() ev {
	return ev{"present": false, "n": 0, "head": []int{}, "wsha": "", "wfirst": []int{}, "wlast": []int{}, "all": []int{}}
}

// ---------------------------------------------------------------------------------------------- driver

type drv struct {
	out   *bufio.Writer
	heads map[int][][]int
	ci    int // index of the current case in the whole run (echoed in every event, used for replays)
}

func (d *drv) emit(e ev) {
	e["ci"] = d.ci
	b, err := json.Marshal(e)
	if err != nil {
		panic(err)
	}
	d.out.Write(b)
	d.out.WriteByte('\n')
}

// run one connection of the real writer
func (d *drv) writerCase(c *tcase) error {
	conn := newCapConn()
	if c.CutAt != nil && *c.CutAt >= 0 {
		conn.cutAt, conn.cutK = *c.CutAt, c.CutK
		if c.CutErr == "op" {
			conn.cutErr = &net.OpError{Op: "write", Net: "tcp", Err: errors.New("connection reset by peer (scripted)")}
		} else {
			conn.cutErr = errors.New("broken pipe (scripted)")
		}
	}
	w := peerwriter.New(conn, logger.New("c11"), 1<<20, c.Fast, nil)
	go w.Run()
	var stream []byte
	var upl int64
	nup := 0
	take := func(timeout time.Duration) bool { // one Write record (BlockUploaded events are consumed on the way)
		t := time.NewTimer(timeout)
		defer t.Stop()
		for {
			select {
			case rec := <-conn.recC:
				stream = append(stream, rec...)
				return true
			case x := <-w.Messages():
				if bu, ok := x.(peerwriter.BlockUploaded); ok {
					upl += int64(bu.Length)
					nup++
				}
			case <-w.Done():
				return false
			case <-t.C:
				return false
			}
		}
	}
	// wait until the captured stream consists of at least k complete frames (length prefix only)
	wait := func(k int) bool {
		if !take(20 * time.Second) {
			return false
		}
		for {
			fr, left := cut(stream)
			if len(fr) >= k && left == 0 {
				return true
			}
			if !take(300 * time.Millisecond) {
				return false
			}
		}
	}
	d.emit(ev{"op": "Conn", "fast": c.Fast})
	if c.Case == "keepalive" {
		ok := take(time.Duration(c.WaitSec) * time.Second)
		w.Stop()
		conn.Close()
		<-w.Done()
		m := msg{K: "keepalive"}
		f := noFrame()
		if ok {
			f = frameDesc(stream, 0)
		}
		d.emit(ev{"op": "Send", "m": m.describe(), "w": f})
		d.emit(ev{"op": "End", "frames": 1, "sent": 1, "leftover": 0, "upl": int(upl), "wirepl": 0})
		return nil
	}
	// a trailing not-interested is part of every script: when its frame is out, every BlockUploaded of the
	// preceding pieces has been handed over (the writer reports before it takes the next message)
	c.Msgs = append(c.Msgs, msg{K: "not_interested"})
	for i := range c.Msgs {
		m := &c.Msgs[i]
		if conn.cutAt >= 0 && i > conn.cutAt {
			break
		}
		if m.K == "piece" {
			w.SendPiece(peerprotocol.RequestMessage{Index: u32(m.Index), Begin: u32(m.Begin), Length: uint32(m.Plen)}, pieceData{m})
		} else {
			rm, err := m.real()
			if err != nil {
				return err
			}
			w.SendMessage(rm)
		}
		if i == conn.cutAt {
			// the broken write: the transport hands over what it took; the writer reports (BlockUploaded) BEFORE it looks at
			// the error and closes the connection after it - when Close has been seen every report has been consumed
			if !take(20 * time.Second) {
				return fmt.Errorf("the write that was to be cut never came (message %d)", i)
			}
			t := time.NewTimer(20 * time.Second)
		drain:
			for {
				select {
				case x := <-w.Messages():
					if bu, ok := x.(peerwriter.BlockUploaded); ok {
						upl += int64(bu.Length)
						nup++
					}
				case <-conn.closeC:
					break drain
				case <-t.C:
					t.Stop()
					return fmt.Errorf("the writer did not close the connection after a failed write")
				}
			}
			t.Stop()
			break
		}
		if !wait(i + 1) {
			break
		}
	}
	w.Stop()
	conn.Close()
	<-w.Done()
	frames, leftover := cut(stream)
	wirepl := 0
	for _, fr := range frames {
		if len(fr) >= 13 && fr[4] == 7 {
			wirepl += len(fr) - 13
		}
	}
	if conn.cutGot >= 0 {
		// what the transport took of the broken frame is the tail of the captured stream (by the transport's own count)
		part := stream[len(stream)-conn.cutGot:]
		frames, leftover = cut(stream[:len(stream)-conn.cutGot])
		if leftover != 0 {
			return fmt.Errorf("stream before the broken frame does not consist of whole frames")
		}
		leftover = len(part)
		if len(part) > 13 && part[4] == 7 {
			wirepl += len(part) - 13
		}
		c.Msgs = c.Msgs[:conn.cutAt+1]
		for i := range c.Msgs[:conn.cutAt] {
			m := &c.Msgs[i]
			f := noFrame()
			if i < len(frames) {
				f = frameDesc(frames[i], len(m.payload()))
			}
			d.emit(ev{"op": "Send", "m": m.describe(), "w": f})
		}
		m := &c.Msgs[conn.cutAt]
		hl := conn.cutN - len(m.payload()) // header length of the frame (by the input payload length)
		if hl < 0 {
			hl = 0
		}
		if hl > len(part) {
			hl = len(part)
		}
		all := []int{} // small frames completely (the 17-byte reject that answers a duplicate request)
		if conn.cutN <= 17 {
			all = ints(part)
		}
		d.emit(ev{"op": "Cut", "m": m.describe(), "w": ev{"n": conn.cutN, "k": conn.cutGot, "part": ints(part[:hl]), "all": all}, "err": c.CutErr})
		d.emit(ev{"op": "End", "frames": len(frames), "sent": conn.cutAt, "leftover": leftover, "upl": int(upl), "wirepl": wirepl, "nup": nup})
		return nil
	}
	for i := range c.Msgs {
		m := &c.Msgs[i]
		f := noFrame()
		if i < len(frames) {
			f = frameDesc(frames[i], len(m.payload()))
		}
		d.emit(ev{"op": "Send", "m": m.describe(), "w": f})
	}
	d.emit(ev{"op": "End", "frames": len(frames), "sent": len(c.Msgs), "leftover": leftover, "upl": int(upl), "wirepl": wirepl, "nup": nup})
	return nil
}

func chunking(mode string, seed int64, bounds []int, total int) []int {
	rng := rand.New(rand.NewSource(seed))
	var out []int
	switch mode {
	case "one":
		out = make([]int, total)
		for i := range out {
			out[i] = 1
		}
	case "whole":
		out = []int{total}
	case "prefix": // cut inside every length prefix (after 1..3 of its bytes) and right after it
		pos := 0
		for _, b := range bounds {
			k := 1 + rng.Intn(3)
			if b+k > total {
				continue
			}
			if b+k > pos {
				out = append(out, b+k-pos)
				pos = b + k
			}
			if b+4 <= total && rng.Intn(2) == 0 && b+4 > pos {
				out = append(out, b+4-pos)
				pos = b + 4
			}
		}
		if total > pos {
			out = append(out, total-pos)
		}
	default: // rand
		pos := 0
		for pos < total {
			var k int
			switch rng.Intn(6) {
			case 0:
				k = 1
			case 1:
				k = 1 + rng.Intn(4)
			case 2, 3:
				k = 1 + rng.Intn(40)
			case 4:
				k = 1 + rng.Intn(1500)
			default:
				k = 1 + rng.Intn(20000)
			}
			if k > total-pos {
				k = total - pos
			}
			out = append(out, k)
			pos += k
		}
	}
	return out
}

// span of one message in the fed stream
type span struct {
	start, hlen, end int // frame = data[start:end], head = data[start:start+hlen]
	block            bool
}

// tout describes one expired deadline of a schedule by arithmetic on the INPUT layout only: the message (1-based)
// inside which the stream stands, whether that is inside the body of a block behind its complete head, and the
// number of body bytes of that block handed over since the previous expiry (or since the body began).
func describeTouts(chunks []int, spans []span) []ev {
	out := []ev{}
	pos, last := 0, -1
	for _, k := range chunks {
		if k >= 0 {
			pos += k
			continue
		}
		e := ev{"mi": 0, "body": 0, "since": 0, "pos": pos}
		for i, sp := range spans {
			if pos > sp.start && pos < sp.end {
				e["mi"] = i + 1
				if sp.block && pos >= sp.start+sp.hlen {
					from := sp.start + sp.hlen
					if last > from {
						from = last
					}
					e["body"], e["since"] = 1, pos-from
				}
			}
		}
		last = pos
		out = append(out, e)
	}
	return out
}

func endsOf(spans []span) []int {
	out := []int{}
	for _, sp := range spans {
		out = append(out, sp.end)
	}
	return out
}

// split [from, to) into 1..3 random chunks
func splitRand(rng *rand.Rand, out []int, from, to int) []int {
	for from < to {
		k := to - from
		if rng.Intn(3) > 0 {
			k = 1 + rng.Intn(k)
		}
		out = append(out, k)
		from += k
	}
	return out
}

// slowChunking: a slow peer.  mode "slow": every block with a body of >= 3 bytes arrives in 2..5 bursts separated
// by silences that outlast the reader's piece timeout, each after at least one fresh body byte (the reader has to keep
// the connection and the position).  mode "slowx": additionally one silence at an arbitrary stream position (the reader
// may have to give up there; what it delivered before must still be exact).
func slowChunking(mode string, seed int64, spans []span, total int) []int {
	rng := rand.New(rand.NewSource(seed))
	var tps []int
	for _, sp := range spans {
		body := sp.end - sp.start - sp.hlen
		if !sp.block || body < 3 {
			continue
		}
		n := 2 + rng.Intn(3)
		if rng.Intn(6) == 0 {
			n = 1
		}
		if n > body-1 {
			n = body - 1
		}
		seen := map[int]bool{}
		for len(seen) < n {
			var o int
			switch rng.Intn(4) {
			case 0:
				o = 1 + rng.Intn(min(body-1, 8)) // right behind the head
			case 1:
				o = body - 1 - rng.Intn(min(body-1, 8)) // right before the end
			default:
				o = 1 + rng.Intn(body-1)
			}
			if !seen[o] {
				seen[o] = true
				tps = append(tps, sp.start+sp.hlen+o)
			}
		}
	}
	if mode == "slowx" && total > 0 {
		x := rng.Intn(total + 1)
		if rng.Intn(2) == 0 && len(spans) > 0 { // on a message boundary or inside a head: the reader has to give up there
			sp := spans[rng.Intn(len(spans))]
			x = sp.start + rng.Intn(sp.hlen+1)
		}
		tps = append(tps, x)
	}
	sort.Ints(tps)
	var out []int
	pos := 0
	for _, tp := range tps {
		out = splitRand(rng, out, pos, tp)
		out = append(out, -1)
		pos = tp
	}
	return splitRand(rng, out, pos, total)
}

func arr20(a []int) (out [20]byte) { copy(out[:], bytesOf(a)); return }
func arr8(a []int) (out [8]byte)   { copy(out[:], bytesOf(a)); return }

// feed TLC-printed encodings to the real reader (behind the real btconn.Accept when the stream starts with a handshake)
func (d *drv) readerCase(c *tcase) error {
	var data []byte
	var bounds []int
	var spans []span
	exp := []ev{}
	for i := range c.Msgs {
		m := &c.Msgs[i]
		hs, ok := d.heads[m.Gi]
		if !ok || len(hs) == 0 {
			return fmt.Errorf("no TLC encoding for message %d", m.Gi)
		}
		h := hs[m.Variant%len(hs)]
		bounds = append(bounds, len(data))
		data = append(data, bytesOf(h)...)
		if payloadKinds[m.K] {
			data = append(data, m.payload()...)
		}
		spans = append(spans, span{bounds[i], len(h), len(data), m.K == "piece"})
		exp = append(exp, m.describe())
	}
	var chunks []int
	if c.Chunk == "slow" || c.Chunk == "slowx" {
		chunks = slowChunking(c.Chunk, c.Cseed, spans, len(data))
	} else {
		chunks = chunking(c.Chunk, c.Cseed, bounds, len(data))
	}
	conn := &feedConn{data: data, chunks: chunks}
	got := []ev{}
	errs := ""
	if c.Hs {
		_, _, peerExt, peerID, ih, err := btconn.Accept(conn, time.Minute, nil, false, func([20]byte) bool { return true },
			arr8(c.OurRsv), arr20(c.OurPid))
		if err != nil {
			errs = err.Error()
		} else {
			got = append(got, ev{"k": "handshake", "reserved": ints(peerExt[:]), "ih": ints(ih[:]), "pid": ints(peerID[:])})
		}
		// the handshake Accept wrote in reply: our reserved bits, the info-hash it was asked for, our id
		ours := msg{K: "handshake", Reserved: c.OurRsv, Ih: c.Msgs[0].Ih, Pid: c.OurPid}
		d.emit(ev{"op": "Conn", "fast": false})
		f := noFrame()
		if len(conn.wrote) > 0 {
			f = frameDesc(conn.wrote, 0)
		}
		d.emit(ev{"op": "Send", "m": ours.describe(), "w": f})
		d.emit(ev{"op": "End", "frames": 1, "sent": 1, "leftover": 0, "upl": 0, "wirepl": 0})
	}
	if errs == "" {
		r := peerreader.New(conn, logger.New("c11"), time.Minute, 40<<20, nil)
		go r.Run()
		t := time.NewTimer(60 * time.Second)
	loop:
		for {
			select {
			case x := <-r.Messages():
				got = append(got, describeGot(x))
			case <-r.Done():
				break loop
			case <-t.C:
				r.Stop()
				errs = "timeout"
				break loop
			}
		}
		t.Stop()
	}
	d.emit(ev{"op": "Read", "hs": c.Hs, "chunk": c.Chunk, "nbytes": len(data), "exp": exp, "got": got, "err": errs,
		"touts": describeTouts(chunks, spans), "ntout": conn.ntout, "ends": endsOf(spans)})
	return nil
}

// gateConn is a BLOCKING transport: the first Write stays pending (the caller's buffer is not looked at) until the
// scheduler lets the transport take the bytes - what a socket with a full send buffer does.  The io.Writer contract
// leaves the buffer with the caller until Write returns; a caller that shares it with other connections shows here.
type gateConn struct {
	*feedConn
	entered chan struct{}
	release chan struct{}
	once    sync.Once
}

func (g *gateConn) Write(b []byte) (int, error) {
	first := false
	g.once.Do(func() { first = true })
	if first {
		close(g.entered)
		<-g.release
	}
	return g.feedConn.Write(b)
}

// several btconn.Accept calls in flight at once, interleaved as the TLC-generated schedule (MC_WireConc) says
func (d *drv) concHandshakeCase(c *tcase) error {
	type cst struct {
		conn  *gateConn
		exp   ev
		done  chan struct{}
		got   []ev
		errs  string
		built bool
	}
	n := len(c.Conns)
	st := make([]*cst, n)
	order := ""
	for i := range c.Conns {
		cc := &c.Conns[i]
		m := &cc.Msgs[0]
		hs, ok := d.heads[m.Gi]
		if !ok || len(hs) == 0 {
			return fmt.Errorf("no TLC encoding for message %d", m.Gi)
		}
		data := bytesOf(hs[0])
		st[i] = &cst{conn: &gateConn{feedConn: &feedConn{data: data, chunks: chunking(cc.Chunk, cc.Cseed, []int{0}, len(data))},
			entered: make(chan struct{}), release: make(chan struct{})}, exp: m.describe(), done: make(chan struct{})}
	}
	for _, step := range c.Sched {
		if step.C < 1 || step.C > n {
			return fmt.Errorf("schedule names connection %d of %d", step.C, n)
		}
		x, cc := st[step.C-1], &c.Conns[step.C-1]
		order += fmt.Sprintf("%s%d", step.Op, step.C)
		switch step.Op {
		case "b":
			x.built = true
			go func() {
				defer close(x.done)
				_, _, peerExt, peerID, ih, err := btconn.Accept(x.conn, time.Minute, nil, false, func([20]byte) bool { return true },
					arr8(cc.OurRsv), arr20(cc.OurPid))
				if err != nil {
					x.errs = err.Error()
					return
				}
				x.got = append(x.got, ev{"k": "handshake", "reserved": ints(peerExt[:]), "ih": ints(ih[:]), "pid": ints(peerID[:])})
			}()
			select {
			case <-x.conn.entered:
			case <-x.done: // the call ended without writing
			case <-time.After(60 * time.Second):
				return errors.New("concurrent handshake: Accept neither wrote nor returned within 60 s")
			}
		case "f":
			if !x.built {
				return errors.New("schedule flushes a connection that was not started")
			}
			close(x.conn.release)
			select {
			case <-x.done:
			case <-time.After(60 * time.Second):
				return errors.New("concurrent handshake: Accept did not return within 60 s")
			}
		default:
			return fmt.Errorf("schedule step %q", step.Op)
		}
	}
	for i, x := range st {
		cc := &c.Conns[i]
		select {
		case <-x.done:
		default:
			return errors.New("schedule left a connection unfinished")
		}
		ours := msg{K: "handshake", Reserved: cc.OurRsv, Ih: cc.Msgs[0].Ih, Pid: cc.OurPid}
		got := x.got
		if got == nil {
			got = []ev{}
		}
		d.emit(ev{"op": "Conn", "fast": false})
		f := noFrame()
		if len(x.conn.wrote) > 0 {
			f = frameDesc(x.conn.wrote, 0)
		}
		d.emit(ev{"op": "Send", "m": ours.describe(), "w": f, "sched": order, "conn": i + 1})
		d.emit(ev{"op": "End", "frames": 1, "sent": 1, "leftover": 0, "upl": 0, "wirepl": 0})
		d.emit(ev{"op": "Read", "hs": true, "chunk": "chs-" + cc.Chunk, "nbytes": len(x.conn.data), "exp": []ev{x.exp}, "got": got, "err": x.errs,
			"touts": []ev{}, "ntout": 0, "ends": []int{len(x.conn.data)}})
	}
	return nil
}

// the dialing side of the handshake over loopback TCP: what Dial writes and what it makes of the scripted reply
func (d *drv) dialCase(c *tcase) error {
	ln, err := net.Listen("tcp", "127.0.0.1:0")
	if err != nil {
		return errors.New("skip: " + err.Error())
	}
	defer ln.Close()
	theirs := &c.Msgs[0]
	hs, ok := d.heads[theirs.Gi]
	if !ok || len(hs) == 0 {
		return fmt.Errorf("no TLC encoding for message %d", theirs.Gi)
	}
	reply := bytesOf(hs[0])
	chunks := chunking(c.Chunk, c.Cseed, []int{0}, len(reply))
	type res struct {
		got []byte
		err error
	}
	resC := make(chan res, 1)
	go func() {
		cn, err := ln.Accept()
		if err != nil {
			resC <- res{nil, err}
			return
		}
		defer cn.Close()
		cn.SetDeadline(time.Now().Add(20 * time.Second))
		buf := make([]byte, 68)
		n, _ := io.ReadFull(cn, buf)
		pos := 0
		for _, k := range chunks {
			cn.Write(reply[pos : pos+k])
			pos += k
			if len(chunks) < 200 {
				time.Sleep(200 * time.Microsecond)
			}
		}
		// anything else the dialer wrote before returning?
		resC <- res{buf[:n], nil}
	}()
	stopC := make(chan struct{})
	cn, _, peerExt, peerID, err := btconn.Dial(ln.Addr(), 10*time.Second, 20*time.Second, false, false, arr8(c.OurRsv),
		arr20(theirs.Ih), arr20(c.OurPid), stopC)
	got := []ev{}
	errs := ""
	if err != nil {
		errs = err.Error()
	} else {
		got = append(got, ev{"k": "handshake", "reserved": ints(peerExt[:]), "ih": theirs.Ih, "pid": ints(peerID[:])})
		cn.Close()
	}
	r := <-resC
	if r.err != nil {
		return r.err
	}
	ours := msg{K: "handshake", Reserved: c.OurRsv, Ih: theirs.Ih, Pid: c.OurPid}
	d.emit(ev{"op": "Conn", "fast": false})
	d.emit(ev{"op": "Send", "m": ours.describe(), "w": frameDesc(r.got, 0)})
	d.emit(ev{"op": "End", "frames": 1, "sent": 1, "leftover": 0, "upl": 0, "wirepl": 0})
	d.emit(ev{"op": "Read", "hs": true, "chunk": "dial-" + c.Chunk, "nbytes": len(reply), "exp": []ev{theirs.describe()}, "got": got, "err": errs,
		"touts": []ev{}, "ntout": 0, "ends": []int{len(reply)}})
	return nil
}

func main() {
	in := flag.String("in", "cases.ndjson", "case file")
	hp := flag.String("heads", "", "TLC-printed encodings (ndjson of {i, heads})")
	outp := flag.String("out", "trace.ndjson", "trace output")
	base := flag.Int("base", 0, "index of the first case of this file in the whole run")
	flag.Parse()
	logger.Disable()

	d := &drv{heads: map[int][][]int{}}
	if *hp != "" {
		f, err := os.Open(*hp)
		if err != nil {
			fmt.Fprintln(os.Stderr, err)
			os.Exit(2)
		}
		sc := bufio.NewScanner(f)
		sc.Buffer(make([]byte, 1<<20), 1<<28)
		for sc.Scan() {
			var h headsLine
			if err := json.Unmarshal(sc.Bytes(), &h); err != nil {
				fmt.Fprintln(os.Stderr, "heads:", err)
				os.Exit(2)
			}
			d.heads[h.I] = h.Heads
		}
		f.Close()
	}
	of, err := os.Create(*outp)
	if err != nil {
		fmt.Fprintln(os.Stderr, err)
		os.Exit(2)
	}
	d.out = bufio.NewWriterSize(of, 1<<20)
	f, err := os.Open(*in)
	if err != nil {
		fmt.Fprintln(os.Stderr, err)
		os.Exit(2)
	}
	sc := bufio.NewScanner(f)
	sc.Buffer(make([]byte, 1<<20), 1<<28)
	n := 0
	skipped := 0
	for sc.Scan() {
		var c tcase
		if err := json.Unmarshal(sc.Bytes(), &c); err != nil {
			fmt.Fprintln(os.Stderr, "case:", err)
			os.Exit(2)
		}
		var err error
		d.ci = *base + n + skipped
		switch c.Case {
		case "w", "keepalive":
			err = d.writerCase(&c)
		case "r":
			err = d.readerCase(&c)
		case "dial":
			err = d.dialCase(&c)
		case "chs":
			err = d.concHandshakeCase(&c)
		default:
			err = fmt.Errorf("unknown case %q", c.Case)
		}
		if err != nil {
			if len(err.Error()) > 5 && err.Error()[:5] == "skip:" {
				skipped++
				continue
			}
			fmt.Fprintln(os.Stderr, "case", n, ":", err)
			os.Exit(2)
		}
		n++
	}
	d.out.Flush()
	of.Close()
	fmt.Printf("{\"cases\":%d,\"skipped\":%d}\n", n, skipped)
}
