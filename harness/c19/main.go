// Command c19 runs private-torrent scenarios (property C19) against a real torrent.Session:
// a generated torrent whose info dict carries the scenario's encoding of "private" (or a magnet link whose
// metadata is served by a scripted peer), a scripted HTTP tracker, scripted peers on distinct loopback
// addresses (one listener per ADDRESS SOURCE: the address returned by the tracker, the address added by the
// user, the addresses advertised in PEX added/dropped lists, the address returned by the DHT stub), a stub
// DHT bootstrap node that logs and answers every KRPC query, and records what the client does:
// connection attempts per source, messages sent to the peers (extension handshake, ut_pex), KRPC queries,
// tracker requests (User-Agent, peer id), Magnet(), metadata adoption, loop snapshots (hook H1).
//
//	c19 run -scenarios s.ndjson -out trace.ndjson      (prints "BEGIN <id>" / "END <id>" markers)
package main

import (
	"bufio"
	"bytes"
	"encoding/binary"
	"encoding/hex"
	"encoding/json"
	"flag"
	"fmt"
	"net"
	"os"
	"sort"
	"strings"
	"sync"
	"sync/atomic"
	"time"

	"github.com/cenkalti/rain/v2/internal/verif/vh"
	"go.etcd.io/bbolt"
	"github.com/cenkalti/rain/v2/torrent"
)

type Step struct {
	Do   string `json:"do"`   // manual | in | pex | port | magnet | announce | stopstart | addtracker | sleep | stop | start | restart | remove | close | magnetrace
	Peer string `json:"peer"` // out | man | in1 | in2
	K    string `json:"k"`    // pex variant: a | d | ad
	Ms   int    `json:"ms"`
}

type Scenario struct {
	ID       int    `json:"id"`
	Enc      string `json:"enc"`  // encoding of the private key in the info dict
	PEX      bool   `json:"pex"`  // Config.PEXEnabled
	DHT      bool   `json:"dht"`  // Config.DHTEnabled
	Mode     string `json:"mode"` // file | magnet
	Sibling  bool   `json:"sibling"` // a magnet link for the same info-hash is added to the same session (DHT only)
	DHTBit   bool   `json:"dhtbit"`  // scripted peers set the DHT bit in their handshake
	Pre      []Step `json:"pre"`     // magnet mode: steps run before the metadata is served
	Steps    []Step `json:"steps"`
	SettleMs int    `json:"settleMs"`
	// state of the resume record from which a new session loads the torrent BEFORE the steps run (file mode):
	// "" = no reload; "nobf" = added stopped, session restarted, then started (the record has no bitfield);
	// "partial" = some pieces on disk, verified, restarted; "full" = complete on disk, restarted
	Resume string `json:"resume"`
	// another torrent of the SAME session that announces to the same tracker URL and is added BEFORE the torrent under
	// judgement: "" = none; "file" = a public torrent (other info-hash); "magnet" = a magnet link (other info-hash) carrying the URL
	CoTenant string `json:"cotenant"`
	// environment fault: the tracker answers the "stopped" event only after SlowStop ms (tracker-stop-timeout is the stock 5 s):
	// the torrent stays in Stopping state that long
	SlowStop int `json:"slowstop"`
	// Config.DHTMinAnnounceInterval in ms (0 = stock): how often a torrent that needs peers queues a DHT request
	DHTMinAnn int `json:"dhtminann"`
	Seed     int64  `json:"seed"`
}

const (
	privPrefix = "-PV0C19-"
	privVer    = "PrivClient 19.0"
	privUA     = "PrivUA/19.0"
	ourPexID   = 1
	ourMetaID  = 3
)

var ipOf = map[string]string{"out": "127.0.0.31", "man": "127.0.0.32", "in1": "127.0.0.33", "in2": "127.0.0.34",
	"pexa": "127.0.0.35", "pexd": "127.0.0.36", "dhtp": "127.0.0.37"}

var srcOfListener = map[string]string{"out": "tracker", "man": "manual", "pexa": "pex", "pexd": "pex", "dhtp": "dht"}

var (
	T   *vh.Tracer
	hub *vh.SnapHub
	// the runner whose torrent's loop is watched for the moment it leaves the running state on its own (refusal of the
	// metadata): the line is logged ON THE LOOP GOROUTINE, at the occurrence point
	watch atomic.Pointer[runner]
)

// onLoop is chained into hook H1 (runs on the loop goroutine of every torrent after every handled event).
func onLoop(s *torrent.VerifSnap) {
	r := watch.Load()
	if r == nil || s.ID != r.tid || (s.Status != "Stopping" && s.Status != "Stopped") {
		return
	}
	if r.refusedOnce.CompareAndSwap(false, true) {
		r.emit(vh.Ev{"ev": "meta", "outcome": "refused", "msg": s.LastErr, "at": "loop", "status": s.Status})
		close(r.refusedC)
	}
}

func privateValue(enc string) (any, bool) {
	switch enc {
	case "absent":
		return nil, true
	case "i1":
		return 1, true
	case "i0":
		return 0, true
	case "i2":
		return 2, true
	case "im1":
		return -1, true
	case "s1":
		return "1", true
	case "s0":
		return "0", true
	case "se":
		return "", true
	case "sx":
		return "x", true
	case "list":
		return []any{1}, true
	case "elist":
		return []any{}, true
	case "dict":
		return vh.Dict{"a": 1}, true
	case "edict":
		return vh.Dict{}, true
	case "ibig":
		return vh.Raw("i99999999999999999999999e"), true
	}
	return nil, false
}

// ---------------------------------------------------------------- scripted peer

type speer struct {
	name        string
	c           *vh.Conn
	rh          vh.Handshake
	mu          sync.Mutex
	closed      bool
	clientPexID int // the id under which the client wants to receive ut_pex (from its extension handshake)
	r           *runner
}

func (p *speer) send(m vh.Msg) {
	p.c.Send(m)
}

// serve sends our extension handshake (advertising ut_pex, and ut_metadata when we serve metadata) and records
// everything the client sends.
func (p *speer) serve(meta []byte) {
	r := p.r
	m := vh.Dict{"ut_pex": ourPexID}
	d := vh.Dict{"m": m, "v": "vh-c19"}
	if meta != nil {
		m["ut_metadata"] = ourMetaID
		d["metadata_size"] = len(meta)
	}
	if p.rh.Reserved[5]&0x10 != 0 {
		p.send(vh.Msg{ID: vh.MsgExtended, ExtID: 0, Data: vh.Enc(d)})
		p.r.emit(vh.Ev{"ev": "exths_tx", "peer": p.name})
	}
	if p.rh.Reserved[7]&0x04 != 0 {
		p.send(vh.Msg{ID: vh.MsgHaveNone})
	}
	utMeta := 0
	for {
		msg, err := p.c.Recv(0)
		if err != nil {
			p.mu.Lock()
			p.closed = true
			p.mu.Unlock()
			p.r.emit(vh.Ev{"ev": "closed", "peer": p.name})
			return
		}
		switch msg.ID {
		case vh.MsgPort:
			p.r.emit(vh.Ev{"ev": "portrx", "peer": p.name, "port": int(msg.Port)})
		case vh.MsgExtended:
			if msg.ExtID == 0 {
				v, _, err := vh.Dec(msg.Data)
				dd, _ := v.(map[string]any)
				if err != nil || dd == nil {
					p.r.emit(vh.Ev{"ev": "exths_rx", "peer": p.name, "bad": 1})
					continue
				}
				ver, _ := dd["v"].(string)
				mm, _ := dd["m"].(map[string]any)
				pid, advPex := mm["ut_pex"].(int64)
				if advPex {
					p.mu.Lock()
					p.clientPexID = int(pid)
					p.mu.Unlock()
				}
				if id, ok := mm["ut_metadata"].(int64); ok {
					utMeta = int(id)
				}
				p.r.emit(vh.Ev{"ev": "exths_rx", "peer": p.name, "v": string(ver), "advpex": b2i(advPex)})
				p.r.emit(vh.Ev{"ev": "ident", "what": "extv", "where": "exths:" + p.name, "val": string(ver),
					"cls": identClass(string(ver), privVer, torrent.DefaultConfig.PrivateExtensionHandshakeClientVersion)})
				continue
			}
			if msg.ExtID == ourPexID {
				v, _, _ := vh.Dec(msg.Data)
				dd, _ := v.(map[string]any)
				a, _ := dd["added"].(string)
				dr, _ := dd["dropped"].(string)
				p.r.emit(vh.Ev{"ev": "pexrx", "peer": p.name, "added": len(a) / 6, "dropped": len(dr) / 6})
				continue
			}
			if msg.ExtID == ourMetaID && meta != nil {
				v, _, err := vh.Dec(msg.Data)
				if err != nil {
					continue
				}
				dd, _ := v.(map[string]any)
				typ, _ := dd["msg_type"].(int64)
				pc, _ := dd["piece"].(int64)
				if typ != 0 {
					continue
				}
				p.r.emit(vh.Ev{"ev": "metareq", "peer": p.name, "piece": int(pc)})
				go func() {
					select {
					case <-r.metaGate:
					case <-time.After(20 * time.Second):
						return
					}
					lo := int(pc) * 16384
					if lo >= len(meta) || pc < 0 {
						p.send(vh.Msg{ID: vh.MsgExtended, ExtID: utMeta, Data: vh.Enc(vh.Dict{"msg_type": 2, "piece": int(pc)})})
						return
					}
					hi := min(lo+16384, len(meta))
					payload := append(vh.Enc(vh.Dict{"msg_type": 1, "piece": int(pc), "total_size": len(meta)}), meta[lo:hi]...)
					p.send(vh.Msg{ID: vh.MsgExtended, ExtID: utMeta, Data: payload})
				}()
			}
		}
	}
}

func b2i(b bool) int {
	if b {
		return 1
	}
	return 0
}

// ---------------------------------------------------------------- DHT stub

type dhtStub struct {
	c    *net.UDPConn
	id   string
	r    *runner
	name string
	nfn  int // find_node queries answered (an empty answer makes the client ask again: answer only a few)
}

func startStub(ip string, name string, r *runner) (*dhtStub, error) {
	c, err := net.ListenUDP("udp4", &net.UDPAddr{IP: net.ParseIP(ip)})
	if err != nil {
		return nil, err
	}
	s := &dhtStub{c: c, id: "vhstub" + name + "0000000000000000000000"[:14-len(name)], r: r, name: name}
	go s.run()
	return s, nil
}

func (s *dhtStub) addr() string { return s.c.LocalAddr().String() }

func (s *dhtStub) run() {
	buf := make([]byte, 65536)
	for {
		n, from, err := s.c.ReadFromUDP(buf)
		if err != nil {
			return
		}
		v, _, err := vh.Dec(append([]byte(nil), buf[:n]...))
		d, _ := v.(map[string]any)
		if err != nil || d == nil {
			s.r.emit(vh.Ev{"ev": "dht", "stub": s.name, "q": "undecodable"})
			continue
		}
		y, _ := d["y"].(string)
		if string(y) != "q" {
			continue
		}
		q, _ := d["q"].(string)
		tid, _ := d["t"].(string)
		a, _ := d["a"].(map[string]any)
		ih, _ := a["info_hash"].(string)
		port, _ := a["port"].(int64)
		match := 0
		if ih == string(s.r.tor.InfoHash[:]) {
			match = 1
		}
		who := ""
		if string(q) == "announce_peer" {
			who = s.r.whoByPort(int(port))
		}
		if string(q) == "get_peers" || string(q) == "announce_peer" || s.nfn == 0 {
			s.r.emit(vh.Ev{"ev": "dht", "stub": s.name, "q": string(q), "ih": hex.EncodeToString([]byte(ih)), "match": match, "port": int(port), "who": who})
		}
		if match == 1 {
			select {
			case s.r.dhtSeen <- struct{}{}:
			default:
			}
		}
		rep := vh.Dict{"id": s.id}
		switch string(q) {
		case "find_node":
			s.nfn++
			if s.nfn > 2 {
				continue
			}
			rep["nodes"] = ""
		case "get_peers":
			rep["token"] = "tok"
			if match == 1 && s.r.dhtPeer != nil {
				cp := append([]byte(nil), s.r.dhtPeer.IP.To4()...)
				cp = binary.BigEndian.AppendUint16(cp, uint16(s.r.dhtPeer.Port))
				rep["values"] = []any{cp}
				s.r.emit(vh.Ev{"ev": "dhtvalues", "stub": s.name})
			} else {
				rep["nodes"] = ""
			}
		}
		s.c.WriteToUDP(vh.Enc(vh.Dict{"t": tid, "y": "r", "r": rep}), from)
	}
}

// ---------------------------------------------------------------- runner

type runner struct {
	sc       Scenario
	tor      *vh.Torrent
	sess     *torrent.Session
	cfg      torrent.Config
	tr       *torrent.Torrent // the torrent under judgement (T1)
	sib      *torrent.Torrent
	mu       sync.Mutex
	peers    map[string]*speer
	lst      map[string]*vh.PeerListener
	dhtPeer  *net.TCPAddr
	metaGate chan struct{}
	meta     []byte // metadata served by the tracker-supplied peer (magnet mode)
	t1ID     string // hex peer id of T1 as seen by the tracker
	stubs    []*dhtStub
	dhtSeen  chan struct{} // a KRPC query with the info-hash reached a stub
	finished atomic.Bool
	prov     *vh.MemProvider
	tid      string
	stopped  bool         // the torrent is stopped (step "stop", or added stopped)
	gone     bool         // removed / session closed: only the handle is left
	closed   bool         // r.sess is closed
	full     bool         // the data is complete: the client does not dial
	trkN     atomic.Int32 // announces (other than "stopped") seen by the tracker
	coIH     string       // hex info-hash of the co-tenant
	coN      atomic.Int32 // announces of the co-tenant seen by the tracker
	refusedOnce atomic.Bool
	refusedC    chan struct{}
}

// emit logs an event of THIS scenario; goroutines of a scenario that has ended (a tracker handler or a peer reader that is
// still running while the next scenario has begun) log nothing.
func (r *runner) emit(e vh.Ev) {
	if r.finished.Load() {
		return
	}
	e["sid"] = r.sc.ID
	T.Emit(e)
}

func (r *runner) whoByPort(port int) string {
	if r.tr != nil && r.tr.Port() == port {
		return "t1"
	}
	if r.sib != nil && r.sib.Port() == port {
		return "sib"
	}
	return "?"
}

func (r *runner) peer(name string) *speer {
	r.mu.Lock()
	defer r.mu.Unlock()
	p := r.peers[name]
	if p == nil {
		return nil
	}
	p.mu.Lock()
	defer p.mu.Unlock()
	if p.closed {
		return nil
	}
	return p
}

func (r *runner) waitPeer(name string, d time.Duration) *speer {
	dl := time.Now().Add(d)
	for time.Now().Before(dl) {
		if p := r.peer(name); p != nil {
			return p
		}
		time.Sleep(5 * time.Millisecond)
	}
	return nil
}

func (r *runner) reserved() [8]byte { return vh.ReservedBits(true, true, r.sc.DHTBit) }

// who identifies which torrent of the session sent a handshake (sibling scenarios): by peer id.
func (r *runner) who(id [20]byte) string {
	r.mu.Lock()
	defer r.mu.Unlock()
	h := hex.EncodeToString(id[:])
	if h == r.t1ID || (r.t1ID == "" && !r.sc.Sibling) {
		return "t1"
	}
	return "sib"
}

func identClass(got, priv, pub string) string {
	switch got {
	case priv:
		return "private"
	case pub:
		return "public"
	}
	return "other"
}

func (r *runner) identPeerID(where string, id []byte) {
	pub := torrent.DefaultConfig.PrivatePeerIDPrefix // the stock private prefix equals the public one
	cls := "other"
	if strings.HasPrefix(string(id), privPrefix) {
		cls = "private"
	} else if strings.HasPrefix(string(id), pub) {
		cls = "public"
	}
	r.emit(vh.Ev{"ev": "ident", "what": "peerid", "where": where, "cls": cls, "val": hex.EncodeToString(id)})
}

func (r *runner) listen(name string) {
	src := srcOfListener[name]
	l, err := vh.ListenPeer(ipOf[name], 0, func(nc net.Conn) {
		rh, err := vh.PlainHandshakeAccept(nc, vh.PeerID("c19-"+name), r.reserved(), 3*time.Second)
		if err != nil {
			r.emit(vh.Ev{"ev": "dial", "src": src, "lst": name, "who": "?", "hs": 0})
			nc.Close()
			return
		}
		if rh.InfoHash != r.tor.InfoHash {
			r.emit(vh.Ev{"ev": "stray", "what": "peer-connection"})
			nc.Close()
			return
		}
		who := r.who(rh.PeerID)
		r.emit(vh.Ev{"ev": "dial", "src": src, "lst": name, "who": who, "hs": 1})
		if who != "t1" {
			// a connection of the sibling torrent: keep it open, silent
			go func() { buf := make([]byte, 4096); for { if _, err := nc.Read(buf); err != nil { return } } }()
			return
		}
		r.identPeerID("hs:"+name, rh.PeerID[:])
		p := &speer{name: name, c: &vh.Conn{C: nc, Name: name, T: T, Remote: rh, Quiet: true}, rh: rh, r: r}
		r.mu.Lock()
		r.peers[name] = p
		r.mu.Unlock()
		r.emit(vh.Ev{"ev": "conn", "peer": name, "dir": "out", "src": src})
		var meta []byte
		if name == "out" && r.sc.Mode == "magnet" {
			meta = r.meta
		}
		p.serve(meta)
	})
	if err != nil {
		panic(err)
	}
	r.lst[name] = l
}

func (r *runner) connectIn(name string) {
	nc, err := vh.DialFrom(ipOf[name], fmt.Sprintf("127.0.0.1:%d", r.tr.Port()), 2*time.Second)
	if err != nil {
		r.emit(vh.Ev{"ev": "skip", "what": "in-dial-failed", "peer": name})
		return
	}
	rh, err := vh.PlainHandshake(nc, r.tor.InfoHash, vh.PeerID("c19-"+name), r.reserved(), 3*time.Second)
	if err != nil {
		r.emit(vh.Ev{"ev": "skip", "what": "in-hs-failed", "peer": name, "err": err.Error()})
		nc.Close()
		return
	}
	if r.who(rh.PeerID) != "t1" {
		r.emit(vh.Ev{"ev": "skip", "what": "in-reached-sibling", "peer": name})
		nc.Close()
		return
	}
	r.identPeerID("hs:"+name, rh.PeerID[:])
	p := &speer{name: name, c: &vh.Conn{C: nc, Name: name, T: T, Remote: rh, Quiet: true}, rh: rh, r: r}
	r.mu.Lock()
	r.peers[name] = p
	r.mu.Unlock()
	r.emit(vh.Ev{"ev": "conn", "peer": name, "dir": "in", "src": "incoming"})
	go p.serve(nil)
}

func compact(a *net.TCPAddr) []byte {
	b := append([]byte(nil), a.IP.To4()...)
	return binary.BigEndian.AppendUint16(b, uint16(a.Port))
}

func (r *runner) step(st Step) {
	if r.gone && st.Do != "magnet" {
		return // nothing but the handle is left
	}
	if r.stopped && st.Do != "magnet" && st.Do != "start" && st.Do != "restart" && st.Do != "remove" && st.Do != "close" && st.Do != "magnetrace" {
		r.emit(vh.Ev{"ev": "skip", "what": "step-on-stopped-torrent", "do": st.Do})
		return
	}
	switch st.Do {
	case "manual":
		r.emit(vh.Ev{"ev": "addpeer"})
		if err := r.tr.AddPeer(r.lst["man"].Addr.String()); err != nil {
			r.emit(vh.Ev{"ev": "skip", "what": "addpeer-error", "err": err.Error()})
		}
		r.waitPeer("man", 700*time.Millisecond)
	case "in":
		r.connectIn(st.Peer)
		time.Sleep(30 * time.Millisecond)
	case "pex":
		p := r.waitPeer(st.Peer, 300*time.Millisecond)
		if p == nil {
			r.emit(vh.Ev{"ev": "skip", "what": "pex-peer-not-connected", "peer": st.Peer})
			return
		}
		d := vh.Dict{"added": []byte{}, "added.f": []byte{}, "dropped": []byte{}}
		if strings.Contains(st.K, "a") {
			d["added"] = compact(r.lst["pexa"].Addr)
			d["added.f"] = []byte{0}
		}
		if strings.Contains(st.K, "d") {
			d["dropped"] = compact(r.lst["pexd"].Addr)
		}
		r.emit(vh.Ev{"ev": "pexmsg", "peer": st.Peer, "k": st.K})
		p.send(vh.Msg{ID: vh.MsgExtended, ExtID: clientPexID(p), Data: vh.Enc(d)})
		time.Sleep(40 * time.Millisecond)
	case "port":
		p := r.waitPeer(st.Peer, 300*time.Millisecond)
		if p == nil {
			r.emit(vh.Ev{"ev": "skip", "what": "port-peer-not-connected", "peer": st.Peer})
			return
		}
		s, err := startStub(ipOf[st.Peer], "n"+st.Peer, r)
		if err != nil {
			r.emit(vh.Ev{"ev": "skip", "what": "node-stub", "err": err.Error()})
			return
		}
		r.stubs = append(r.stubs, s)
		r.emit(vh.Ev{"ev": "port", "peer": st.Peer})
		p.send(vh.Msg{ID: vh.MsgPort, Port: uint16(s.c.LocalAddr().(*net.UDPAddr).Port)})
		time.Sleep(40 * time.Millisecond)
	case "magnet":
		r.magnet()
	case "announce":
		r.emit(vh.Ev{"ev": "announce"})
		r.tr.Announce()
		time.Sleep(60 * time.Millisecond)
	case "addtracker":
		trk2, err := vh.StartHTTPTracker(nil, "trk2", func(q vh.AnnReq) vh.AnnReply {
			if q.InfoHash != hex.EncodeToString(r.tor.InfoHash[:]) {
				return vh.AnnReply{Failure: "unknown torrent"}
			}
			r.emit(vh.Ev{"ev": "ident", "what": "ua", "where": "trk2", "cls": identClass(q.UA, privUA, torrent.DefaultConfig.TrackerHTTPPrivateUserAgent), "val": q.UA})
			return vh.AnnReply{Interval: vh.I64(1800)}
		})
		if err != nil {
			return
		}
		r.emit(vh.Ev{"ev": "addtracker"})
		if err := r.tr.AddTracker(trk2.URL()); err != nil {
			r.emit(vh.Ev{"ev": "skip", "what": "addtracker-error", "err": err.Error()})
		}
		time.Sleep(150 * time.Millisecond)
		defer trk2.Close()
	case "stopstart":
		r.tr.Stop()
		hub.Wait(r.tr.ID(), r.stopWait(), func(s *torrent.VerifSnap) bool { return s.Status == "Stopped" })
		r.emit(vh.Ev{"ev": "stop"}) // the stop has taken effect (messages in flight before this point belong to the running torrent)
		r.mu.Lock()
		r.peers = map[string]*speer{}
		r.mu.Unlock()
		r.emit(vh.Ev{"ev": "start"})
		r.tr.Start()
		r.waitPeer("out", 4*time.Second)
	case "restart":
		r.restart()
	case "stop":
		r.tr.Stop()
		hub.Wait(r.tr.ID(), r.stopWait(), func(s *torrent.VerifSnap) bool { return s.Status == "Stopped" })
		r.emit(vh.Ev{"ev": "stop"})
		r.mu.Lock()
		r.peers = map[string]*speer{}
		r.mu.Unlock()
		r.stopped = true
	case "start":
		r.start()
	case "remove", "close":
		r.observe("final") // the last look at the live torrent: Stats() of a closed handle is the zero value
		if st.Do == "remove" {
			if err := r.sess.RemoveTorrent(r.tid, true); err != nil {
				r.emit(vh.Ev{"ev": "skip", "what": "remove-error", "err": err.Error()})
			}
		} else {
			r.sess.Close()
			r.closed = true
		}
		r.emit(vh.Ev{"ev": "gone", "how": st.Do})
		r.gone = true
	case "magnetrace":
		// Magnet() from several goroutines while the torrent is being removed
		r.observe("final")
		var ok, bad atomic.Int32
		var link atomic.Value
		stop := make(chan struct{})
		var wg sync.WaitGroup
		for i := 0; i < 4; i++ {
			wg.Add(1)
			go func() {
				defer wg.Done()
				for {
					select {
					case <-stop:
						return
					default:
					}
					if l, err := r.tr.Magnet(); err != nil {
						bad.Add(1)
					} else {
						ok.Add(1)
						link.Store(l)
					}
				}
			}()
		}
		time.Sleep(2 * time.Millisecond)
		if err := r.sess.RemoveTorrent(r.tid, true); err != nil {
			r.emit(vh.Ev{"ev": "skip", "what": "remove-error", "err": err.Error()})
		}
		time.Sleep(10 * time.Millisecond)
		close(stop)
		wg.Wait()
		r.emit(vh.Ev{"ev": "gone", "how": "remove-racing-magnet"})
		r.gone = true
		if n := bad.Load(); n > 0 {
			r.emit(vh.Ev{"ev": "magnet", "err": 1, "n": int(n), "racing": 1})
		}
		if n := ok.Load(); n > 0 {
			l, _ := link.Load().(string)
			r.emit(vh.Ev{"ev": "magnet", "err": 0, "n": int(n), "racing": 1, "link": l})
		}
	case "sleep":
		time.Sleep(time.Duration(st.Ms) * time.Millisecond)
	}
}

func (r *runner) stopWait() time.Duration {
	return 3*time.Second + time.Duration(r.sc.SlowStop)*time.Millisecond
}

// waitUp waits until the started torrent has met its environment again: the tracker's peer is connected (a complete
// torrent does not dial: the tracker has seen a new announce).
func (r *runner) waitUp(d time.Duration, n0 int32) bool {
	if !r.full {
		return r.waitPeer("out", d) != nil
	}
	dl := time.Now().Add(d)
	for time.Now().Before(dl) {
		if r.trkN.Load() > n0 {
			return true
		}
		time.Sleep(5 * time.Millisecond)
	}
	return false
}

func (r *runner) start() {
	n0 := r.trkN.Load()
	r.emit(vh.Ev{"ev": "start"})
	if err := r.tr.Start(); err != nil {
		r.emit(vh.Ev{"ev": "skip", "what": "start-error", "err": err.Error()})
	}
	r.stopped = false
	r.waitUp(4*time.Second, n0)
}

// newSession opens a session on r.cfg.  The DHT port was found free by binding and releasing it: another process of the
// harness may have taken it since (the client's own DHT port is not part of any observation) - take another one.
func (r *runner) newSession() (*torrent.Session, error) {
	var err error
	for i := 0; i < 8; i++ {
		var sess *torrent.Session
		sess, err = torrent.NewSession(r.cfg)
		if err == nil {
			return sess, nil
		}
		if !r.cfg.DHTEnabled || !strings.Contains(err.Error(), "address already in use") {
			return nil, err
		}
		r.emit(vh.Ev{"ev": "note", "what": "dht-port-taken-retry"})
		time.Sleep(20 * time.Millisecond)
		if uc, e2 := net.ListenUDP("udp4", &net.UDPAddr{IP: net.ParseIP("127.0.0.1")}); e2 == nil {
			r.cfg.DHTPort = uint16(uc.LocalAddr().(*net.UDPAddr).Port)
			uc.Close()
		}
	}
	return nil, err
}

// recordHasBitfield reads the torrent's resume record from the database (between two sessions).
func (r *runner) recordHasBitfield() int {
	db, err := bbolt.Open(r.cfg.Database, 0o600, &bbolt.Options{ReadOnly: true, Timeout: time.Second})
	if err != nil {
		return -1
	}
	defer db.Close()
	has := -1
	db.View(func(tx *bbolt.Tx) error {
		tb := tx.Bucket([]byte("torrents"))
		if tb == nil {
			return nil
		}
		b := tb.Bucket([]byte(r.tid))
		if b == nil {
			return nil
		}
		has = b2i(len(b.Get([]byte("bitfield"))) > 0)
		return nil
	})
	return has
}

// restart closes the session and opens it again on the same database: the torrent is loaded from its resume record
// (started if it was started, stopped if it was stopped).
func (r *runner) restart() {
	n0 := r.trkN.Load()
	r.sess.Close()
	bf := r.recordHasBitfield()
	r.emit(vh.Ev{"ev": "reload", "bf": bf, "stopped": b2i(r.stopped)})
	r.mu.Lock()
	r.peers = map[string]*speer{}
	r.t1ID = ""
	r.mu.Unlock()
	if !r.stopped {
		r.emit(vh.Ev{"ev": "start"}) // the new session starts the loaded torrent by itself
	}
	sess, err := r.newSession()
	if err != nil {
		panic(err)
	}
	r.sess = sess
	r.tr = sess.GetTorrent(r.tid)
	if r.tr == nil {
		r.emit(vh.Ev{"ev": "skip", "what": "torrent-not-loaded"})
		panic("torrent not loaded after restart")
	}
	if !r.stopped {
		r.waitUp(6*time.Second, n0)
	}
}

// An extended message carries the RECEIVER's id for the extension: the id the client announced for ut_pex in its
// extension handshake (2 = rain's ExtensionIDPEX if the handshake has not been seen yet).
func clientPexID(p *speer) int {
	p.mu.Lock()
	defer p.mu.Unlock()
	if p.clientPexID == 0 {
		return 2
	}
	return p.clientPexID
}

func (r *runner) magnet() {
	s, err := r.tr.Magnet()
	e := vh.Ev{"ev": "magnet", "err": b2i(err != nil)}
	if err != nil {
		e["msg"] = err.Error()
	} else {
		e["link"] = s
	}
	r.emit(e)
}

func (r *runner) observe(tag string) {
	st := r.tr.Stats()
	srcs := map[string]int{}
	for _, p := range r.tr.Peers() {
		srcs[srcNamePub(p.Source)]++
	}
	keys := []string{}
	for k := range srcs {
		keys = append(keys, k)
	}
	sort.Strings(keys)
	e := vh.Ev{"ev": "obs", "tag": tag, "status": st.Status.String(), "private": b2i(st.Private), "srcs": keys,
		"addrTracker": st.Addresses.Tracker, "addrDHT": st.Addresses.DHT, "addrPEX": st.Addresses.PEX, "addrTotal": st.Addresses.Total}
	if st.Error != nil {
		e["error"] = st.Error.Error()
	}
	if s := hub.Get(r.tr.ID()); s != nil {
		pexPeers := 0
		ss := map[string]bool{}
		for _, p := range s.PeerList {
			if p.PEX {
				pexPeers++
			}
			ss[srcName(p.Source)] = true
		}
		sk := []string{}
		for k := range ss {
			sk = append(sk, k)
		}
		sort.Strings(sk)
		e["snapSrcs"] = sk
		e["snapPrivate"] = b2i(s.Private)
		e["dhtAnnouncer"] = b2i(s.DHTAnnouncer)
		e["pexPeers"] = pexPeers
		e["hasInfo"] = b2i(s.HasInfo)
		e["addrListLen"] = s.AddrListLen
	}
	r.emit(e)
}

func srcNamePub(s torrent.PeerSource) string {
	switch s {
	case torrent.SourceTracker:
		return "tracker"
	case torrent.SourceDHT:
		return "dht"
	case torrent.SourcePEX:
		return "pex"
	case torrent.SourceIncoming:
		return "incoming"
	case torrent.SourceManual:
		return "manual"
	}
	return "?"
}

func srcName(i int) string {
	switch i {
	case 0:
		return "tracker"
	case 1:
		return "dht"
	case 2:
		return "pex"
	case 3:
		return "manual"
	case 4:
		return "incoming"
	}
	return "?"
}

// ---------------------------------------------------------------- one scenario

func run(sc Scenario, dir string) {
	T.Trace = sc.ID
	pv, ok := privateValue(sc.Enc)
	if !ok {
		return
	}
	r := &runner{sc: sc, peers: map[string]*speer{}, lst: map[string]*vh.PeerListener{}, metaGate: make(chan struct{}), dhtSeen: make(chan struct{}, 1),
		refusedC: make(chan struct{})}
	defer watch.Store(nil)
	for _, n := range []string{"out", "man", "pexa", "pexd", "dhtp"} {
		r.listen(n)
	}
	defer r.finished.Store(true)
	defer func() {
		for _, l := range r.lst {
			l.Close()
		}
		for _, s := range r.stubs {
			s.c.Close()
		}
	}()
	r.dhtPeer = r.lst["dhtp"].Addr
	trk, err := vh.StartHTTPTracker(nil, "trk", func(q vh.AnnReq) vh.AnnReply {
		if r.coIH != "" && q.InfoHash == r.coIH {
			// the co-tenant of the session: no peers for it
			r.emit(vh.Ev{"ev": "cotrk", "event": q.Event, "ua": q.UA})
			r.coN.Add(1)
			return vh.AnnReply{Interval: vh.I64(1800)}
		}
		if q.InfoHash != hex.EncodeToString(r.tor.InfoHash[:]) {
			// not our torrent: a late announce of a session of another harness process whose tracker had this port
			r.emit(vh.Ev{"ev": "stray", "what": "tracker-request"})
			return vh.AnnReply{Failure: "unknown torrent"}
		}
		r.mu.Lock()
		if r.t1ID == "" {
			r.t1ID = q.PeerID
		}
		r.mu.Unlock()
		id, _ := hex.DecodeString(q.PeerID)
		r.emit(vh.Ev{"ev": "trkreq", "event": q.Event, "n": q.N})
		if q.Event != "stopped" {
			defer r.trkN.Add(1)
		}
		r.identPeerID("trk", id)
		r.emit(vh.Ev{"ev": "ident", "what": "ua", "where": "trk", "cls": identClass(q.UA, privUA, torrent.DefaultConfig.TrackerHTTPPrivateUserAgent), "val": q.UA})
		if q.Event == "stopped" {
			return vh.AnnReply{Interval: vh.I64(1800), Delay: time.Duration(sc.SlowStop) * time.Millisecond}
		}
		r.emit(vh.Ev{"ev": "trkreply"})
		return vh.AnnReply{Interval: vh.I64(1800), Peers: []*net.TCPAddr{r.lst["out"].Addr}}
	})
	if err != nil {
		panic(err)
	}
	defer trk.Close()
	lay := vh.Layout{Name: fmt.Sprintf("c19-%d", sc.ID), PieceLen: 16384, Files: []vh.FileSpec{{Length: 3*16384 + 100}}, Private: pv}
	r.tor = vh.Build(lay, sc.Seed, [][]string{{trk.URL()}}, nil)
	r.meta = r.tor.InfoBytes

	cfg, err := vh.BaseConfig(dir, 6)
	if err != nil {
		panic(err)
	}
	os.Remove(cfg.Database)
	prov := vh.NewMemProvider(T)
	prov.Truth[""] = r.tor
	prov.Quiet = true
	cfg.CustomStorage = prov
	r.prov = prov
	cfg.PEXEnabled = sc.PEX
	cfg.DHTEnabled = sc.DHT
	cfg.DisableOutgoingEncryption = true
	cfg.PrivatePeerIDPrefix = privPrefix
	cfg.PrivateExtensionHandshakeClientVersion = privVer
	cfg.TrackerHTTPPrivateUserAgent = privUA
	if sc.SlowStop > 0 {
		cfg.TrackerStopTimeout = torrent.DefaultConfig.TrackerStopTimeout
		cfg.TrackerHTTPTimeout = cfg.TrackerStopTimeout
	}
	if sc.DHTMinAnn > 0 {
		cfg.DHTMinAnnounceInterval = time.Duration(sc.DHTMinAnn) * time.Millisecond
	}
	co := sc.CoTenant
	if co == "" {
		co = "none"
	}
	var stub *dhtStub
	if sc.DHT {
		stub, err = startStub("127.0.0.1", "boot", r)
		if err != nil {
			panic(err)
		}
		r.stubs = append(r.stubs, stub)
		uc, err := net.ListenUDP("udp4", &net.UDPAddr{IP: net.ParseIP("127.0.0.1")})
		if err != nil {
			panic(err)
		}
		cfg.DHTPort = uint16(uc.LocalAddr().(*net.UDPAddr).Port)
		uc.Close()
		cfg.DHTHost = "127.0.0.1"
		cfg.DHTBootstrapNodes = []string{stub.addr()}
	}
	r.emit(vh.Ev{"ev": "init", "enc": sc.Enc, "pex": b2i(sc.PEX), "dht": b2i(sc.DHT), "mode": sc.Mode, "sibling": b2i(sc.Sibling), "dhtbit": b2i(sc.DHTBit),
		"co": co, "slowstop": sc.SlowStop, "dhtminann": sc.DHTMinAnn, "ih": hex.EncodeToString(r.tor.InfoHash[:])})
	r.cfg = cfg
	sess, err := r.newSession()
	if err != nil {
		panic(err)
	}
	r.sess = sess
	defer func() {
		if !r.closed {
			r.sess.Close()
		}
	}()
	tid := fmt.Sprintf("c19t%d", sc.ID)
	r.tid = tid
	if sc.Mode != "magnet" {
		switch sc.Resume {
		case "full":
			prov.Store(tid).Fill(r.tor)
			r.full = true
		case "partial": // the first two pieces are on the disk, the rest of the file is zero
			d := make([]byte, len(r.tor.Data))
			copy(d, r.tor.Data[:2*16384])
			prov.Store(tid).Put(r.tor.StoragePath(0), d)
		case "nobf":
			r.stopped = true
		}
	} else {
		sc.Resume = ""
	}
	magnetLink := "magnet:?xt=urn:btih:" + hex.EncodeToString(r.tor.InfoHash[:])
	if sc.CoTenant != "" {
		// the co-tenant comes first: its tracker object for the URL exists (and has announced) when T1 is added
		cot := vh.Build(vh.Layout{Name: fmt.Sprintf("c19co-%d", sc.ID), PieceLen: 16384, Files: []vh.FileSpec{{Length: 2*16384 + 7}}}, sc.Seed+7777, [][]string{{trk.URL()}}, nil)
		r.coIH = hex.EncodeToString(cot.InfoHash[:])
		var cerr error
		if sc.CoTenant == "magnet" {
			_, cerr = sess.AddURI("magnet:?xt=urn:btih:"+r.coIH+"&tr="+trk.URL(), &torrent.AddTorrentOptions{ID: tid + "co"})
		} else {
			prov.Truth[tid+"co"] = cot
			_, cerr = sess.AddTorrent(bytes.NewReader(cot.Bytes), &torrent.AddTorrentOptions{ID: tid + "co"})
		}
		if cerr != nil {
			r.emit(vh.Ev{"ev": "skip", "what": "cotenant-add-error", "err": cerr.Error()})
			return
		}
		for dl := time.Now().Add(3 * time.Second); r.coN.Load() == 0 && time.Now().Before(dl); {
			time.Sleep(5 * time.Millisecond)
		}
		if r.coN.Load() == 0 {
			r.emit(vh.Ev{"ev": "skip", "what": "cotenant-did-not-announce"})
			return
		}
	}
	if !r.stopped {
		r.emit(vh.Ev{"ev": "start"})
	}
	if sc.Mode == "magnet" {
		r.tr, err = sess.AddURI(magnetLink+"&tr="+trk.URL(), &torrent.AddTorrentOptions{ID: tid})
	} else {
		r.tr, err = sess.AddTorrent(bytes.NewReader(r.tor.Bytes), &torrent.AddTorrentOptions{ID: tid, Stopped: r.stopped})
	}
	if err != nil {
		r.emit(vh.Ev{"ev": "adderr", "err": err.Error()})
		r.emit(vh.Ev{"ev": "end"})
		return
	}
	if sc.Resume == "nobf" {
		// added stopped: nothing has run, the record has no bitfield; the next session loads it, then the user starts it
		r.restart()
		r.start()
	}
	if !r.waitUp(6*time.Second, 0) {
		// the scripted environment did not come up (loaded machine): the scenario is not judged (no "end" line)
		r.emit(vh.Ev{"ev": "skip", "what": "tracker-peer-not-dialled"})
		return
	}
	if sc.Resume == "partial" || sc.Resume == "full" {
		// verification has finished (the torrent dials / announces): the record gets its bitfield at once and at every
		// ResumeWriteInterval (200 ms)
		time.Sleep(60 * time.Millisecond)
		r.restart()
		if !r.waitUp(2*time.Second, 0) && !r.full {
			r.emit(vh.Ev{"ev": "skip", "what": "tracker-peer-not-dialled-after-reload"})
			return
		}
	}
	if sc.Sibling {
		// the tracker has seen T1 by now (its peer id is known): add the magnet link of the same info-hash, DHT only
		r.sib, err = sess.AddURI(magnetLink, &torrent.AddTorrentOptions{ID: tid + "sib"})
		if err != nil {
			r.emit(vh.Ev{"ev": "skip", "what": "sibling-add-error", "err": err.Error()})
		} else {
			r.emit(vh.Ev{"ev": "sibling"})
		}
	}
	if sc.Mode == "magnet" {
		for _, st := range sc.Pre {
			r.step(st)
		}
		if len(sc.Pre) > 0 {
			time.Sleep(150 * time.Millisecond)
		}
		if sc.SlowStop > 0 {
			if sc.DHT {
				// the session hands one pending DHT request per second to its node (tick).  Serve the metadata 300 ms after a
				// tick was seen (a query with the info-hash reached the stub): the announcer has queued the next request by
				// then (dhtminann), and the next tick is far enough from the refusal to be told apart from a query in flight.
				select {
				case <-r.dhtSeen:
				default:
				}
				select {
				case <-r.dhtSeen:
					time.Sleep(300 * time.Millisecond)
				case <-time.After(2500 * time.Millisecond):
					r.emit(vh.Ev{"ev": "note", "what": "no-dht-tick-seen-before-metadata"})
				}
			}
			watch.Store(r)
		}
		stopC := r.tr.NotifyStop() // the channel of the running torrent (one value, sent when Stopped is reached)
		r.emit(vh.Ev{"ev": "metaserve", "private": -1})
		close(r.metaGate)
		select {
		case <-r.tr.NotifyMetadata():
			r.emit(vh.Ev{"ev": "meta", "outcome": "adopted"})
		case <-r.refusedC:
			// (slow-stop scenarios) the loop logged the refusal when the torrent left the running state; it is in Stopping
			// state until the tracker has answered the "stopped" event
			select {
			case <-stopC:
			case <-time.After(r.stopWait() + 5*time.Second):
				r.emit(vh.Ev{"ev": "skip", "what": "stopped-not-reached"})
			}
			hub.Wait(r.tr.ID(), 2*time.Second, func(s *torrent.VerifSnap) bool { return s.Status == "Stopped" })
			r.emit(vh.Ev{"ev": "stopped"})
		case err := <-stopC:
			msg := ""
			if err != nil {
				msg = err.Error()
			}
			r.emit(vh.Ev{"ev": "meta", "outcome": "refused", "msg": msg})
			hub.Wait(r.tr.ID(), 2*time.Second, func(s *torrent.VerifSnap) bool { return s.Status == "Stopped" })
			r.emit(vh.Ev{"ev": "stopped"}) // NotifyStop fires when Stopped is reached
		case <-time.After(4 * time.Second):
			r.emit(vh.Ev{"ev": "meta", "outcome": "none"})
		}
		r.observe("aftermeta")
	} else {
		close(r.metaGate)
	}
	for _, st := range sc.Steps {
		r.step(st)
	}
	settle := sc.SettleMs
	if settle == 0 {
		settle = 300
	}
	if sc.DHT {
		// the session hands one pending DHT request per second to its DHT node: wait for the query (public torrent,
		// sibling) and then for its consequences; a torrent that must not ask gets the full window
		select {
		case <-r.dhtSeen:
		case <-time.After(time.Duration(settle) * time.Millisecond):
		}
		time.Sleep(400 * time.Millisecond)
	} else {
		time.Sleep(time.Duration(settle) * time.Millisecond)
	}
	r.emit(vh.Ev{"ev": "settled"})
	if !r.gone {
		r.observe("final")
	}
	r.magnet()
	r.emit(vh.Ev{"ev": "end"})
	r.finished.Store(true)
}

func main() {
	if len(os.Args) < 2 || os.Args[1] != "run" {
		fmt.Fprintln(os.Stderr, "usage: c19 run -scenarios f -out f")
		os.Exit(2)
	}
	fs := flag.NewFlagSet("run", flag.ExitOnError)
	scf := fs.String("scenarios", "", "")
	out := fs.String("out", "trace.ndjson", "")
	fs.Parse(os.Args[2:])
	torrent.DisableLogging()
	var err error
	T, err = vh.NewTracer(*out)
	if err != nil {
		panic(err)
	}
	T.AutoFlush = true
	hub = vh.InstallSnapHub(T, false)
	hub.ChainTracer(onLoop)
	dir, _ := os.MkdirTemp(".", "c19")
	defer os.RemoveAll(dir)
	f, err := os.Open(*scf)
	if err != nil {
		panic(err)
	}
	sc := bufio.NewScanner(f)
	sc.Buffer(make([]byte, 1<<20), 1<<24)
	for sc.Scan() {
		var s Scenario
		if json.Unmarshal(sc.Bytes(), &s) != nil {
			continue
		}
		fmt.Printf("BEGIN %d\n", s.ID)
		run(s, dir)
		T.Flush()
		fmt.Printf("END %d\n", s.ID)
	}
	T.Close()
}
