// Command c09 drives the real piecepicker with generated event histories in the calling
// discipline of the torrent loop and records one ndjson event per call (Trace_Picker.tla judges).
package main

import (
	"bufio"
	"encoding/json"
	"flag"
	"fmt"
	"math/rand"
	"os"

	"github.com/cenkalti/rain/v2/internal/bitfield"
	"github.com/cenkalti/rain/v2/internal/filesection"
	"github.com/cenkalti/rain/v2/internal/peer"
	"github.com/cenkalti/rain/v2/internal/piece"
	"github.com/cenkalti/rain/v2/internal/piecepicker"
	"github.com/cenkalti/rain/v2/internal/urldownloader"
	"github.com/cenkalti/rain/v2/internal/webseedsource"
)

type ev map[string]any

type sim struct {
	rng     *rand.Rand
	np      int
	npeers  int
	nsrc    int
	limit   int
	seq     bool
	pieces  []piece.Piece
	pp      *piecepicker.PiecePicker
	peers   []*peer.Peer // 1-based, nil = not connected
	srcs    []*webseedsource.WebseedSource
	dl      []int
	dlaf    []bool
	wrP     int
	wrKind  string
	wrWho   int
	out     *bufio.Writer
	nevents int
	have0   func(int) bool // pieces already on disk when the picker is created (nil: none)
}

func (s *sim) peerIdx(p *peer.Peer) int {
	for i, q := range s.peers {
		if q == p && q != nil {
			return i
		}
	}
	return 0
}

func (s *sim) srcIdx(w *webseedsource.WebseedSource) int {
	for i, q := range s.srcs {
		if q == w {
			return i + 1
		}
	}
	return 0
}

func (s *sim) emit(e ev) {
	// observable view of the picker through its exported API
	e["avail"] = int(s.pp.Available())
	req := make([][]int, s.np)
	wsown := make([]int, s.np)
	for i := 0; i < s.np; i++ {
		req[i] = []int{}
		for _, pe := range s.pp.RequestedPeers(uint32(i)) {
			req[i] = append(req[i], s.peerIdx(pe))
		}
		wsown[i] = s.srcIdx(s.pp.RequestedWebseedSource(uint32(i)))
	}
	e["req"] = req
	e["wsown"] = wsown
	srcs := make([]ev, len(s.srcs))
	for i, w := range s.srcs {
		if w.Downloader == nil {
			srcs[i] = ev{"active": false, "b": 0, "e": 0, "cur": 0}
		} else {
			srcs[i] = ev{"active": true, "b": int(w.Downloader.Begin), "e": int(w.Downloader.End), "cur": int(w.Downloader.ReadCurrent())}
		}
	}
	e["srcs"] = srcs
	b, _ := json.Marshal(e)
	s.out.Write(b)
	s.out.WriteByte('\n')
	s.nevents++
}

// layout builds np pieces over random files and returns the independent file-edge set.
func (s *sim) layout() []int {
	plen := []int{4, 16, 64, 100}[s.rng.Intn(4)]
	total := s.np*plen - s.rng.Intn(plen)
	if total <= 0 {
		total = 1
	}
	nfiles := 1 + s.rng.Intn(3)
	// split total into nfiles parts (zero-length files and padding allowed)
	cuts := []int{0}
	for i := 1; i < nfiles; i++ {
		cuts = append(cuts, s.rng.Intn(total+1))
	}
	cuts = append(cuts, total)
	for i := range cuts {
		for j := i + 1; j < len(cuts); j++ {
			if cuts[j] < cuts[i] {
				cuts[i], cuts[j] = cuts[j], cuts[i]
			}
		}
	}
	type file struct {
		start, size int
		pad         bool
		name        string
	}
	var files []file
	for i := 0; i < nfiles; i++ {
		f := file{start: cuts[i], size: cuts[i+1] - cuts[i], name: fmt.Sprintf("f%d", i)}
		if i > 0 && i < nfiles-1 && s.rng.Intn(4) == 0 {
			f.pad = true
		}
		files = append(files, f)
	}
	s.pieces = make([]piece.Piece, s.np)
	for i := 0; i < s.np; i++ {
		pb, pe := i*plen, (i+1)*plen
		if pe > total {
			pe = total
		}
		var secs filesection.Piece
		for _, f := range files {
			lo, hi := max(pb, f.start), min(pe, f.start+f.size)
			if lo < hi {
				secs = append(secs, filesection.FileSection{Offset: int64(lo - f.start), Length: int64(hi - lo), Name: f.name, Padding: f.pad})
			}
		}
		s.pieces[i] = piece.Piece{Index: uint32(i), Length: uint32(pe - pb), Data: secs}
	}
	// independent definition of "pieces at both ends of every file": first/last n bytes, n = clamp(size/100, 1, 8 MiB)
	edge := map[int]bool{}
	for _, f := range files {
		if f.pad || f.size == 0 {
			continue
		}
		n := f.size / 100
		if n > 8<<20 {
			n = 8 << 20
		}
		if n < 1 {
			n = 1
		}
		for _, r := range [][2]int{{f.start, f.start + n}, {f.start + f.size - n, f.start + f.size}} {
			for b := r[0]; b < r[1]; b++ {
				edge[b/plen] = true
			}
		}
	}
	var out []int
	for i := 0; i < s.np; i++ {
		if edge[i] {
			out = append(out, i)
		}
	}
	return out
}

func (s *sim) start() {
	edge := s.layout()
	urls := make([]string, s.nsrc)
	for i := range urls {
		urls[i] = fmt.Sprintf("http://ws%d/", i+1)
	}
	have0 := []int{}
	for i := range s.pieces {
		if s.have0 != nil && s.have0(i) {
			s.pieces[i].Done = true
			have0 = append(have0, i)
		}
	}
	s.srcs = webseedsource.NewList(urls)
	s.pp = piecepicker.New(s.pieces, s.limit, s.srcs, s.seq)
	s.peers = make([]*peer.Peer, s.npeers+1)
	s.dl = make([]int, s.npeers+1)
	s.dlaf = make([]bool, s.npeers+1)
	for i := range s.dl {
		s.dl[i] = -1
	}
	s.wrP = -1
	s.wrKind = "none"
	if edge == nil {
		edge = []int{}
	}
	b, _ := json.Marshal(ev{"op": "Init", "np": s.np, "npeers": s.npeers, "nsrc": s.nsrc, "limit": s.limit, "seq": s.seq, "edge": edge, "have0": have0})
	s.out.Write(b)
	s.out.WriteByte('\n')
	s.nevents++
}

func (s *sim) cancel(pe int) {
	if s.dl[pe] < 0 {
		return
	}
	s.pp.HandleCancelDownload(s.peers[pe], uint32(s.dl[pe]))
	s.peers[pe].Downloading = false
	s.dl[pe] = -1
}

func (s *sim) disconnect(pe int) {
	s.cancel(pe)
	s.pp.HandleDisconnect(s.peers[pe])
	s.peers[pe] = nil
}

func (s *sim) closeSrc(i int) {
	s.pp.CloseWebseedDownloader(s.srcs[i-1])
}

// step performs one random applicable operation; returns false if the picked op was not applicable.
func (s *sim) step(op string, pe, p, si int, ok bool) (done bool) {
	defer func() {
		if r := recover(); r != nil {
			s.emit(ev{"op": "Panic", "in": op, "msg": fmt.Sprint(r)})
			done = true
			panic(stopTrace{})
		}
	}()
	switch op {
	case "Connect":
		if s.peers[pe] != nil {
			return false
		}
		q := &peer.Peer{PeerChoking: true, ClientChoking: true, Bitfield: bitfield.New(uint32(s.np))}
		q.ID[0] = byte(pe)
		q.ID[1] = byte(s.nevents)
		q.ID[2] = byte(s.nevents >> 8)
		s.peers[pe] = q
		s.emit(ev{"op": "Connect", "pe": pe})
	case "Have":
		if s.peers[pe] == nil {
			return false
		}
		s.pp.HandleHave(s.peers[pe], uint32(p))
		s.emit(ev{"op": "Have", "pe": pe, "p": p})
	case "AllowedFast":
		if s.peers[pe] == nil {
			return false
		}
		s.pp.HandleAllowedFast(s.peers[pe], uint32(p))
		s.emit(ev{"op": "AllowedFast", "pe": pe, "p": p})
	case "Choke":
		if s.peers[pe] == nil {
			return false
		}
		q := s.peers[pe]
		q.PeerChoking = true
		if s.dl[pe] >= 0 && !s.dlaf[pe] {
			s.pp.HandleChoke(q, uint32(s.dl[pe]))
		}
		s.emit(ev{"op": "Choke", "pe": pe})
	case "Unchoke":
		if s.peers[pe] == nil {
			return false
		}
		q := s.peers[pe]
		q.PeerChoking = false
		if s.dl[pe] >= 0 && !s.dlaf[pe] {
			s.pp.HandleUnchoke(q, uint32(s.dl[pe]))
		}
		s.emit(ev{"op": "Unchoke", "pe": pe})
	case "Snub":
		if s.peers[pe] == nil || s.dl[pe] < 0 || s.peers[pe].PeerChoking {
			return false
		}
		s.peers[pe].Snubbed = true
		s.pp.HandleSnubbed(s.peers[pe], uint32(s.dl[pe]))
		s.emit(ev{"op": "Snub", "pe": pe})
	case "Pick":
		if s.peers[pe] == nil {
			return false
		}
		q := s.peers[pe]
		pi, afr := s.pp.PickFor(q)
		r := -1
		if pi != nil {
			r = int(pi.Index)
			if s.dl[pe] < 0 { // startSinglePieceDownloader
				q.Downloading = true
				s.dl[pe] = r
				s.dlaf[pe] = afr
			}
		}
		s.emit(ev{"op": "Pick", "pe": pe, "r": r, "afr": afr})
	case "CancelDownload":
		if s.peers[pe] == nil || s.dl[pe] < 0 {
			return false
		}
		s.cancel(pe)
		s.emit(ev{"op": "CancelDownload", "pe": pe})
	case "Disconnect":
		if s.peers[pe] == nil {
			return false
		}
		s.disconnect(pe)
		s.emit(ev{"op": "Disconnect", "pe": pe})
	case "PieceComplete":
		if s.peers[pe] == nil || s.dl[pe] < 0 || s.wrKind != "none" {
			return false
		}
		d := s.dl[pe]
		if s.pieces[d].Writing || s.pieces[d].Done {
			return false
		}
		s.cancel(pe)
		s.pieces[d].Writing = true
		s.wrP, s.wrKind, s.wrWho = d, "peer", pe
		s.emit(ev{"op": "PieceComplete", "pe": pe})
	case "WriteOK":
		if s.wrKind == "none" {
			return false
		}
		pi := &s.pieces[s.wrP]
		pi.Writing = false
		pi.Done = true
		if src := s.pp.RequestedWebseedSource(pi.Index); s.wrKind == "peer" && src != nil {
			s.pp.WebseedStopAt(src, pi.Index)
		}
		for _, q := range append([]*peer.Peer(nil), s.pp.RequestedPeers(pi.Index)...) {
			if i := s.peerIdx(q); i > 0 {
				s.cancel(i)
			}
		}
		s.wrP, s.wrKind, s.wrWho = -1, "none", 0
		s.emit(ev{"op": "WriteOK"})
	case "WriteBad":
		if s.wrKind == "none" {
			return false
		}
		s.pieces[s.wrP].Writing = false
		if s.wrKind == "peer" {
			if s.peers[s.wrWho] != nil {
				s.disconnect(s.wrWho)
			}
		} else {
			s.closeSrc(s.wrWho)
		}
		who := s.wrWho
		kind := s.wrKind
		s.wrP, s.wrKind, s.wrWho = -1, "none", 0
		s.emit(ev{"op": "WriteBad", "kind": kind, "who": who})
	case "StartWebseed":
		if si < 1 || si > s.nsrc || s.srcs[si-1].Downloader != nil {
			return false
		}
		src := s.srcs[si-1]
		sp := s.pp.PickWebseed(src)
		b, e := 0, 0
		if sp != nil {
			b, e = int(sp.Begin), int(sp.End)
			src.Downloader = urldownloader.VerifNewIdle(src.URL, sp.Begin, sp.End)
		}
		s.emit(ev{"op": "StartWebseed", "s": si, "b": b, "e": e})
	case "WebseedPiece":
		if si < 1 || si > s.nsrc || s.srcs[si-1].Downloader == nil || s.wrKind != "none" {
			return false
		}
		src := s.srcs[si-1]
		d := src.Downloader
		cur := d.ReadCurrent()
		pi := &s.pieces[cur]
		last := cur >= d.End-1
		if !pi.Done {
			if pi.Writing {
				return false
			}
			pi.Writing = true
			s.wrP, s.wrKind, s.wrWho = int(cur), "ws", si
		}
		if last {
			s.closeSrc(si)
		} else {
			urldownloader.VerifSetCurrent(d, cur+1)
		}
		s.emit(ev{"op": "WebseedPiece", "s": si})
	case "CloseWebseed":
		if si < 1 || si > s.nsrc || s.srcs[si-1].Downloader == nil {
			return false
		}
		s.closeSrc(si)
		s.emit(ev{"op": "CloseWebseed", "s": si})
	default:
		return false
	}
	return true
}

type stopTrace struct{}

var ops = []string{"Connect", "Connect", "Have", "Have", "Have", "Have", "Have", "AllowedFast", "Choke", "Unchoke", "Unchoke",
	"Snub", "Pick", "Pick", "Pick", "Pick", "Pick", "CancelDownload", "Disconnect", "PieceComplete", "PieceComplete", "PieceComplete",
	"WriteOK", "WriteOK", "WriteOK", "WriteBad", "StartWebseed", "StartWebseed", "WebseedPiece", "WebseedPiece", "CloseWebseed"}

// op mix for long web-seed episodes on torrents with >= 40 pieces (ranges of several pieces: stealing, stalled downloads)
var opsWs = []string{"Connect", "Connect", "Have", "Have", "AllowedFast", "Choke", "Choke", "Unchoke", "Unchoke", "Unchoke",
	"Snub", "Snub", "Pick", "Pick", "Pick", "Pick", "Pick", "Pick", "Pick", "Pick", "CancelDownload", "Disconnect", "PieceComplete", "PieceComplete",
	"WriteOK", "WriteOK", "WriteBad", "StartWebseed", "StartWebseed", "StartWebseed", "WebseedPiece", "CloseWebseed"}

func (s *sim) runRandom(nops int) {
	defer func() {
		if r := recover(); r != nil {
			if _, ok := r.(stopTrace); !ok {
				panic(r)
			}
		}
	}()
	s.start()
	for n, tries := 0, 0; n < nops && tries < nops*20; tries++ {
		op := ops[s.rng.Intn(len(ops))]
		if s.np >= 40 {
			op = opsWs[s.rng.Intn(len(opsWs))]
		}
		pe := 1 + s.rng.Intn(s.npeers)
		p := s.rng.Intn(s.np)
		si := 0
		if s.nsrc > 0 {
			si = 1 + s.rng.Intn(s.nsrc)
		}
		// "have all" bursts make end-game and sequential situations frequent
		if op == "Have" && s.rng.Intn(4) == 0 && s.peers[pe] != nil && (s.np < 40 || s.rng.Intn(3) == 0) {
			for q := 0; q < s.np; q++ {
				s.step("Have", pe, q, 0, true)
				n++
			}
			continue
		}
		if s.step(op, pe, p, si, true) {
			n++
		}
	}
}

// op mix for "steal" episodes: a few hot pieces that several peers hold, web-seed ranges laid over pieces that peers are
// already downloading, so that peer picks have to steal from web-seed ranges while pieces of the range are being written
var opsSteal = []string{"Pick", "Pick", "Pick", "Pick", "Pick", "Pick", "PieceComplete", "PieceComplete", "PieceComplete", "WriteOK", "WriteOK",
	"WriteBad", "WebseedPiece", "Have", "Have", "Unchoke", "Unchoke", "Choke", "StartWebseed", "StartWebseed", "CloseWebseed", "Disconnect", "Connect", "CancelDownload"}

func (s *sim) runSteal(nops int) {
	defer func() {
		if r := recover(); r != nil {
			if _, ok := r.(stopTrace); !ok {
				panic(r)
			}
		}
	}()
	s.start()
	var hot []int
	if s.have0 != nil {
		for i := 0; i < s.np; i++ {
			if !s.have0(i) {
				hot = append(hot, i)
			}
		}
	} else {
		hot = make([]int, 2+s.rng.Intn(3))
		for i := range hot {
			hot[i] = s.rng.Intn(s.np)
		}
	}
	for pe := 1; pe <= s.npeers; pe++ {
		s.step("Connect", pe, 0, 0, true)
		for _, h := range hot {
			if s.rng.Intn(5) > 0 {
				s.step("Have", pe, h, 0, true)
			}
		}
		s.step("Unchoke", pe, 0, 0, true)
		if s.rng.Intn(2) == 0 {
			s.step("Pick", pe, 0, 0, true)
		}
	}
	for si := 1; si <= s.nsrc; si++ {
		s.step("StartWebseed", 0, 0, si, true)
	}
	for n, tries := 0, 0; n < nops && tries < nops*20; tries++ {
		op := opsSteal[s.rng.Intn(len(opsSteal))]
		pe := 1 + s.rng.Intn(s.npeers)
		p := hot[s.rng.Intn(len(hot))]
		si := 1 + s.rng.Intn(s.nsrc)
		if s.step(op, pe, p, si, true) {
			n++
			// the write window of a piece a peer has just completed is short in real life: use it
			if op == "PieceComplete" && s.rng.Intn(2) == 0 {
				for k := 1; k <= s.nsrc; k++ {
					if s.step("StartWebseed", 0, 0, k, true) {
						n++
					}
				}
				for k := 0; k < 2; k++ {
					if s.step("Pick", 1+s.rng.Intn(s.npeers), 0, 0, true) {
						n++
					}
				}
			}
		}
	}
}

// script replay: ops generated by TLC from the specification (best effort: inapplicable ops are skipped)
type scriptOp struct {
	Op string `json:"op"`
	Pe int    `json:"pe"`
	P  int    `json:"p"`
	S  int    `json:"s"`
}
type script struct {
	Np, Npeers, Nsrc, Limit int
	Seq                     bool
	Ops                     []scriptOp
}

func (s *sim) runScript(sc script) {
	defer func() {
		if r := recover(); r != nil {
			if _, ok := r.(stopTrace); !ok {
				panic(r)
			}
		}
	}()
	s.start()
	for _, o := range sc.Ops {
		if o.Pe < 0 || o.Pe > s.npeers || o.P < 0 || o.P >= s.np {
			continue
		}
		if o.Pe == 0 {
			o.Pe = 1
		}
		s.step(o.Op, o.Pe, o.P, o.S, true)
	}
}

// ---- round 3: life-cycle episodes -------------------------------------------------------------------------------
// The random mix above rarely walks a whole download. The two episode kinds below follow the torrent loop's own
// discipline through the two phases in which the ordering / duplicate obligations bind hardest:
//   stream  : an in-order download from (near-)seeds in which pieces come back from the writer with a failed hash check
//             while the delivering peer has already been asked for its next piece (handlePieceMessage: close downloader,
//             start writer, startPieceDownloaderFor(pe); handlePieceWriteDone: on error close the peer and
//             startPieceDownloaders()), peers are replaced, and the re-opened piece has to be requested again;
//   endgame : the last few missing pieces, a swarm larger than the end-game limit, every peer announcing the same
//             allowed-fast set (the set is a function of OUR address, so all peers compute the same one), some of the
//             peers still choking.
// Nothing here judges: every call is recorded and Trace_Picker.tla decides.

func (s *sim) idlePeers() []int {
	var out []int
	for pe := 1; pe <= s.npeers; pe++ {
		if s.peers[pe] != nil && s.dl[pe] < 0 {
			out = append(out, pe)
		}
	}
	return out
}

func (s *sim) busyPeers() []int {
	var out []int
	for pe := 1; pe <= s.npeers; pe++ {
		if s.peers[pe] != nil && s.dl[pe] >= 0 {
			out = append(out, pe)
		}
	}
	return out
}

// pickAll is startPieceDownloaders(): web seeds first, then every connected peer in slot order.
func (s *sim) pickAll() int {
	n := 0
	for si := 1; si <= s.nsrc; si++ {
		if s.step("StartWebseed", 0, 0, si, true) {
			n++
		}
	}
	for pe := 1; pe <= s.npeers; pe++ {
		if s.step("Pick", pe, 0, 0, true) {
			n++
		}
	}
	return n
}

// join connects a peer into slot pe: bitfield over `pieces` (nil: all; each one missing with probability miss/16), allowed-fast
// set, unchoke, first request. Only the calls that are not part of the bitfield count against the episode's op budget.
func (s *sim) join(pe int, pieces []int, miss int, afs []int, unchoke bool) int {
	if !s.step("Connect", pe, 0, 0, true) {
		return 0
	}
	if pieces == nil {
		for q := 0; q < s.np; q++ {
			pieces = append(pieces, q)
		}
	}
	for _, q := range pieces {
		if s.rng.Intn(16) >= miss {
			s.step("Have", pe, q, 0, true)
		}
	}
	for _, q := range afs {
		s.step("AllowedFast", pe, q, 0, true)
	}
	if unchoke {
		s.step("Unchoke", pe, 0, 0, true)
	}
	s.step("Pick", pe, 0, 0, true)
	return 3
}

// resolveWrite finishes the write in flight the way handlePieceWriteDone does and issues the follow-up requests.
func (s *sim) resolveWrite(bad bool) int {
	if s.wrKind == "none" {
		return 0
	}
	n := 1
	if bad {
		s.step("WriteBad", 0, 0, 0, true)
	} else {
		s.step("WriteOK", 0, 0, 0, true)
	}
	return n + s.pickAll()
}

func (s *sim) runStream(nops int) {
	defer func() {
		if r := recover(); r != nil {
			if _, ok := r.(stopTrace); !ok {
				panic(r)
			}
		}
	}()
	s.start()
	n := 0
	miss := []int{0, 0, 1, 3}[s.rng.Intn(4)]
	for pe := 1; pe <= s.npeers; pe++ {
		if pe > 1 && s.rng.Intn(5) == 0 {
			continue // free slot: a replacement peer joins later
		}
		var afs []int
		if s.rng.Intn(4) == 0 {
			afs = []int{s.rng.Intn(s.np)}
		}
		n += s.join(pe, nil, miss, afs, s.rng.Intn(8) > 0)
	}
	badRate := []int{2, 3, 5}[s.rng.Intn(3)] // one write in badRate fails
	for tries := 0; n < nops && tries < nops*20; tries++ {
		switch k := s.rng.Intn(20); {
		case k < 9: // a peer delivers its piece; it is asked for the next one while the piece is hashed and written
			if s.wrKind != "none" {
				n += s.resolveWrite(s.rng.Intn(badRate) == 0)
				continue
			}
			busy := s.busyPeers()
			if len(busy) == 0 {
				n += s.pickAll()
				continue
			}
			pe := busy[s.rng.Intn(len(busy))]
			if !s.step("PieceComplete", pe, 0, 0, true) {
				continue
			}
			n++
			if s.step("Pick", pe, 0, 0, true) {
				n++
			}
			if s.rng.Intn(3) > 0 { // usually the writer answers before anything else happens
				n += s.resolveWrite(s.rng.Intn(badRate) == 0)
			}
		case k < 12:
			n += s.resolveWrite(s.rng.Intn(badRate) == 0)
		case k < 14: // a replacement peer joins a free slot
			for pe := 1; pe <= s.npeers; pe++ {
				if s.peers[pe] == nil {
					n += s.join(pe, nil, miss, nil, s.rng.Intn(8) > 0)
					break
				}
			}
		case k < 15:
			if s.step("Disconnect", 1+s.rng.Intn(s.npeers), 0, 0, true) {
				n++
				n += s.pickAll()
			}
		case k < 16:
			pe := 1 + s.rng.Intn(s.npeers)
			op := []string{"Choke", "Unchoke", "Unchoke", "Snub", "CancelDownload"}[s.rng.Intn(5)]
			if s.step(op, pe, 0, 0, true) {
				n++
				if s.step("Pick", pe, 0, 0, true) {
					n++
				}
			}
		case k < 17 && s.nsrc > 0:
			op := []string{"StartWebseed", "WebseedPiece", "CloseWebseed"}[s.rng.Intn(3)]
			if s.step(op, 0, 0, 1+s.rng.Intn(s.nsrc), true) {
				n++
			}
		default:
			if s.step("Pick", 1+s.rng.Intn(s.npeers), 0, 0, true) {
				n++
			}
		}
	}
}

func (s *sim) runEndgame(nops int, hot, afs []int) {
	defer func() {
		if r := recover(); r != nil {
			if _, ok := r.(stopTrace); !ok {
				panic(r)
			}
		}
	}()
	s.start()
	n := 0
	fast := func() []int { // peers without the fast extension send no allowed-fast set
		if s.rng.Intn(4) == 0 {
			return nil
		}
		return afs
	}
	for pe := 1; pe <= s.npeers; pe++ {
		n += s.join(pe, hot, []int{0, 0, 2}[s.rng.Intn(3)], fast(), s.rng.Intn(3) > 0)
	}
	for tries := 0; n < nops && tries < nops*20; tries++ {
		pe := 1 + s.rng.Intn(s.npeers)
		switch k := s.rng.Intn(24); {
		case k < 9:
			if s.step("Pick", pe, 0, 0, true) {
				n++
			}
		case k < 11:
			n += s.pickAll()
		case k < 14:
			if s.step("PieceComplete", pe, 0, 0, true) {
				n++
				if s.step("Pick", pe, 0, 0, true) {
					n++
				}
			}
		case k < 17:
			n += s.resolveWrite(s.rng.Intn(3) == 0)
		case k < 19:
			op := []string{"Choke", "Unchoke", "Unchoke", "Snub", "CancelDownload"}[s.rng.Intn(5)]
			if s.step(op, pe, 0, 0, true) {
				n++
				if s.step("Pick", pe, 0, 0, true) {
					n++
				}
			}
		case k < 20:
			if s.step("Disconnect", pe, 0, 0, true) {
				n++
				n += s.pickAll()
			}
		case k < 22:
			if s.peers[pe] == nil {
				n += s.join(pe, hot, 0, fast(), s.rng.Intn(3) > 0)
			}
		case k < 23:
			if len(afs) > 0 && s.step("AllowedFast", pe, afs[s.rng.Intn(len(afs))], 0, true) {
				n++
			}
		default:
			if s.step("Have", pe, hot[s.rng.Intn(len(hot))], 0, true) {
				n++
			}
		}
	}
}

func main() {
	seed := flag.Int64("seed", 1, "")
	ntraces := flag.Int("n", 100, "number of random traces")
	nops := flag.Int("ops", 60, "ops per trace")
	maxPeers := flag.Int("maxpeers", 4, "")
	maxPieces := flag.Int("maxpieces", 10, "")
	scripts := flag.String("scripts", "", "ndjson file with TLC-generated scripts")
	outp := flag.String("out", "trace.ndjson", "")
	nbig := flag.Int("nbig", 0, "number of random traces on torrents with 40..100 pieces and web seeds")
	nsteal := flag.Int("nsteal", 0, "number of steal episodes (hot pieces under web-seed ranges)")
	nstream := flag.Int("nstream", 0, "number of stream episodes (in-order download with failed hash checks and peer replacement)")
	nendgame := flag.Int("nendgame", 0, "number of end-game episodes (few missing pieces, swarm larger than the limit, common allowed-fast set)")
	flag.Parse()
	f, err := os.Create(*outp)
	if err != nil {
		panic(err)
	}
	w := bufio.NewWriterSize(f, 1<<20)
	total := 0
	rng := rand.New(rand.NewSource(*seed))
	if *scripts != "" {
		sf, err := os.Open(*scripts)
		if err != nil {
			panic(err)
		}
		sc := bufio.NewScanner(sf)
		sc.Buffer(make([]byte, 1<<20), 1<<26)
		for sc.Scan() {
			var x script
			if json.Unmarshal(sc.Bytes(), &x) != nil || x.Np == 0 {
				continue
			}
			s := &sim{rng: rng, np: x.Np, npeers: x.Npeers, nsrc: x.Nsrc, limit: x.Limit, seq: x.Seq, out: w}
			s.runScript(x)
			total += s.nevents
		}
	}
	for i := 0; i < *ntraces; i++ {
		s := &sim{rng: rng, out: w}
		s.np = 1 + rng.Intn(*maxPieces)
		s.npeers = 1 + rng.Intn(*maxPeers)
		s.nsrc = rng.Intn(3)
		s.limit = []int{0, 1, 1, 2, 2, 3, 20}[rng.Intn(7)]
		s.seq = rng.Intn(2) == 0
		if rng.Intn(3) == 0 { // resumed torrent: a random part is already there
			have := make([]bool, s.np)
			d := 2 + rng.Intn(6)
			for j := range have {
				have[j] = rng.Intn(10) < d
			}
			s.have0 = func(i int) bool { return have[i] }
		}
		s.runRandom(*nops)
		total += s.nevents
	}
	for i := 0; i < *nbig; i++ {
		s := &sim{rng: rng, out: w}
		s.np = 40 + rng.Intn(61)
		s.npeers = 2 + rng.Intn(*maxPeers)
		s.nsrc = 1 + rng.Intn(2)
		s.limit = []int{1, 1, 2, 2, 3}[rng.Intn(5)]
		s.seq = rng.Intn(3) == 0
		s.runRandom(*nops * 3)
		total += s.nevents
	}
	for i := 0; i < *nsteal; i++ {
		s := &sim{rng: rng, out: w}
		s.np = 40 + rng.Intn(61)
		s.npeers = 2 + rng.Intn(*maxPeers)
		s.nsrc = 1 + rng.Intn(2)
		s.limit = []int{1, 1, 2, 2, 3}[rng.Intn(5)]
		s.seq = rng.Intn(3) == 0
		if rng.Intn(4) > 0 { // everything but a short window is already there: web-seed ranges and peers meet in the window
			wl := 3 + rng.Intn(8)
			wb := rng.Intn(s.np - wl)
			s.have0 = func(i int) bool { return i < wb || i >= wb+wl }
		}
		s.runSteal(*nops)
		total += s.nevents
	}
	for i := 0; i < *nstream; i++ {
		s := &sim{rng: rng, out: w}
		s.np = 5 + rng.Intn(*maxPieces*2)
		s.npeers = 2 + rng.Intn(*maxPeers)
		s.nsrc = []int{0, 0, 0, 1}[rng.Intn(4)]
		s.limit = []int{0, 1, 2, 2, 3, 20}[rng.Intn(6)]
		s.seq = rng.Intn(6) > 0
		if rng.Intn(3) == 0 { // resumed stream: a prefix (and sometimes a scattered part of the rest) is on disk
			pre := rng.Intn(s.np)
			have := make([]bool, s.np)
			sc := rng.Intn(2) * rng.Intn(6)
			for j := range have {
				have[j] = j < pre || rng.Intn(10) < sc
			}
			s.have0 = func(i int) bool { return have[i] }
		}
		s.runStream(*nops)
		total += s.nevents
	}
	for i := 0; i < *nendgame; i++ {
		s := &sim{rng: rng, out: w}
		s.limit = []int{0, 1, 1, 2, 2, 3}[rng.Intn(6)]
		s.npeers = max(s.limit, 1) + 1 + rng.Intn(3)
		s.nsrc = []int{0, 0, 0, 1}[rng.Intn(4)]
		s.seq = rng.Intn(3) == 0
		nmiss := 1 + rng.Intn(3)
		var missing []int
		if rng.Intn(4) == 0 { // tiny torrent, nothing on disk
			s.np = nmiss
			for j := 0; j < s.np; j++ {
				missing = append(missing, j)
			}
		} else { // resumed torrent: all but nmiss pieces are on disk
			s.np = nmiss + 1 + rng.Intn(*maxPieces*2)
			mset := map[int]bool{}
			for len(mset) < nmiss {
				mset[rng.Intn(s.np)] = true
			}
			for j := 0; j < s.np; j++ {
				if mset[j] {
					missing = append(missing, j)
				}
			}
			s.have0 = func(i int) bool { return !mset[i] }
		}
		// the allowed-fast set every peer computes for us: a few pieces, some of them still missing
		var afs []int
		for _, m := range missing {
			if rng.Intn(3) > 0 {
				afs = append(afs, m)
			}
		}
		for j := rng.Intn(3); j > 0; j-- {
			afs = append(afs, rng.Intn(s.np))
		}
		// bitfields cover the missing pieces, the allowed-fast set and a few pieces that are on disk already
		hot := append(append([]int(nil), missing...), afs...)
		for j := rng.Intn(3); j > 0; j-- {
			hot = append(hot, rng.Intn(s.np))
		}
		s.runEndgame(*nops, hot, afs)
		total += s.nevents
	}
	w.Flush()
	f.Close()
	fmt.Printf("{\"events\":%d}\n", total)
}
