package main

// Records that FAIL TO LOAD keep their bucket in the resume database (the id goes to Session.invalidTorrentIDs).  This
// file plants such leftovers - one class per way the loader has to fail - and drives the histories in which the id of a
// leftover gets a new owner (AddTorrent / AddURI with AddTorrentOptions.ID), plus the gated histories of concurrent adds
// with one explicit id.  Judged by Trace_Session like every other history (C14.record, C14.state, C14.restart, C14.ports).

import (
	"fmt"
	"math/rand"
	"sort"
	"sync"
	"time"

	"github.com/cenkalti/rain/v2/internal/verif/vh"
	"go.etcd.io/bbolt"
)

// maxPiecesCfg is Config.MaxPieces of every session of this driver: the pool torrents have a handful of pieces, the info
// dictionary of bigTorrent has more than the limit (class "toomany").
const maxPiecesCfg = 32

var (
	bigOnce sync.Once
	bigTor  *vh.Torrent
)

func bigTorrent() *vh.Torrent {
	bigOnce.Do(func() {
		bigTor = vh.Build(vh.Layout{Name: "big", PieceLen: 16384, Files: []vh.FileSpec{{Length: 40*16384 - 5}}}, 4242, nil, nil)
	})
	return bigTor
}

// the ways a record can fail to load (torrent/session_load.go, boltdbresumer.Read)
var leftoverClasses = []string{"port", "ihash", "version", "toomany", "bitfield", "storage"}

func fullBitfield(np int) []byte {
	b := make([]byte, (np+7)/8)
	for i := 0; i < np; i++ {
		b[i/8] |= 0x80 >> uint(i%8)
	}
	return b
}

// corruptDB turns the records of the given torrents (closed database) into records that the next session cannot load,
// and gives each the content of an earlier life: a complete bitfield and, if it has none, an info dictionary.
//
//	port      the port value is not a number                (Read fails)
//	ihash     the info-hash is not 20 bytes                 (newTorrent fails - its only failure, reachable at load only)
//	version   resume data version of a later release        (parseInfo: unknown version)
//	toomany   info dictionary with more pieces than Config.MaxPieces
//	bitfield  bitfield of the wrong length
//	storage   the record is intact, the storage provider fails for this id while the session loads
func corruptDB(e *env, ids, classes []string) error {
	db, err := bbolt.Open(e.cfg.Database, 0600, &bbolt.Options{Timeout: 2 * time.Second})
	if err != nil {
		return err
	}
	defer db.Close()
	return db.Update(func(tx *bbolt.Tx) error {
		tb := tx.Bucket([]byte("torrents"))
		for k, id := range ids {
			b := tb.Bucket([]byte(id))
			if b == nil {
				continue
			}
			np := 3
			var info []byte
			if m := e.added[id]; m != nil {
				np, info = m.tor.NumPieces, m.tor.InfoBytes
			}
			put := func(key string, v []byte) {
				if err == nil {
					err = b.Put([]byte(key), v)
				}
			}
			if len(b.Get([]byte("info"))) == 0 && info != nil {
				put("info", info)
			}
			put("bitfield", fullBitfield(np))
			switch classes[k] {
			case "port":
				put("port", []byte("not-a-number"))
			case "ihash":
				put("info_hash", []byte{1, 2, 3})
			case "version":
				put("version", []byte("99"))
			case "toomany":
				put("info", bigTorrent().InfoBytes)
				put("bitfield", fullBitfield(bigTorrent().NumPieces))
			case "bitfield":
				put("bitfield", append(fullBitfield(np), 0xff))
			case "storage":
				e.prov.setFailLoad(id, true)
			default:
				return fmt.Errorf("unknown leftover class %q", classes[k])
			}
			if err != nil {
				return err
			}
		}
		return nil
	})
}

// leftoverProbe: one torrent per class of unloadable record; restart with all of them damaged; every id gets a new owner
// (the same .torrent / another .torrent / a magnet link, stopped or started); restart again.
func leftoverProbe(e *env, variant int) {
	ids := []string{"a", "b", "c", "d", "e", "f"}
	for k, id := range ids {
		m := e.pool[(k+variant)%len(e.pool)]
		kind := "torrent"
		if (k+variant)%3 == 2 {
			kind = "magnet" // a record without info dictionary: the leftover gets one planted
		}
		e.callAdd(1, addSpec{m: m, kind: kind, stopped: k%2 == 0, id: id, sq: k%3 == 0})
		e.obs()
	}
	for _, id := range ids {
		waitBitfield(e, id)
	}
	e.callBump(1, "a", [4]int64{7, 8, 9, 10})
	classes := append([]string{}, leftoverClasses...)
	if variant%2 == 1 {
		e.rng.Shuffle(len(classes), func(i, j int) { classes[i], classes[j] = classes[j], classes[i] })
	}
	e.callReopen(1, ids, classes...)
	e.obs()
	if e.dead {
		return
	}
	for k, id := range ids {
		var a addSpec
		switch (k + variant) % 4 {
		case 0: // the same .torrent again
			a = addSpec{m: e.added[id], kind: "torrent", stopped: true, id: id}
		case 1: // another torrent, as a magnet link: no info dictionary is written
			a = addSpec{m: e.pool[(k+variant+1)%len(e.pool)], kind: "magnet", stopped: true, id: id}
		case 2: // another .torrent
			a = addSpec{m: e.pool[(k+variant+2)%len(e.pool)], kind: "torrent", stopped: true, id: id, sad: true}
		default: // started at once: the torrent verifies and the bitfield becomes its own
			a = addSpec{m: e.added[id], kind: "torrent", stopped: false, id: id}
		}
		if a.m == nil {
			a.m = e.pool[0]
		}
		e.callAdd(1, a)
		e.obs()
	}
	if variant%2 == 0 {
		e.callClean(1) // nothing is invalid any more: must not touch the new owners' records
		e.obs()
	}
	e.callReopen(1, nil)
	if !e.dead {
		e.obs()
	}
}

// raceAddTrace: AddTorrent / AddURI calls racing with ONE explicit id (or one info-hash).  The storage provider is the
// scheduler gate: the FIRST GetStorage call for the contested id blocks until the other callers have returned, so the
// others run their whole add while the first one sits between its duplicate check and its registry insert.
//
//	variant 0   add(a, X) gated; add(a, Y) meanwhile
//	variant 1   add(a, X) gated; add(a, X) meanwhile (same info-hash too)
//	variant 2   add(a, X) gated; add(a, Y), then add-magnet(a, Z) meanwhile (three callers)
//	variant 3   add(a, X) gated; add(b, X) meanwhile (same info-hash, different ids: both are fine)
//	variant 4   add(a, X) gated; add(a, Y) and remove(a) meanwhile
func raceAddTrace(T *tracer, pool []*meta, seed int64, idx int) {
	rng := rand.New(rand.NewSource(seed*15000017 + int64(idx)))
	variant := idx % 5
	e := newEnv(T, rng, pool, 3+rng.Intn(2), false)
	defer e.cleanup()
	e.init(fmt.Sprintf("race-add:%d", variant), idx)
	if err := e.open(); err != nil {
		panic(err)
	}
	e.obs()
	if rng.Intn(2) == 0 { // somebody else is already there
		e.callAdd(1, addSpec{m: pool[3], kind: "torrent", stopped: true})
		e.obs()
	}
	entered := make(chan struct{})
	release := make(chan struct{})
	var first sync.Once
	gate := func(id string) {
		if id != "a" {
			return
		}
		mine := false
		first.Do(func() { mine = true })
		if mine {
			close(entered)
			select {
			case <-release:
			case <-time.After(20 * time.Second):
			}
		}
	}
	e.prov.gate.Store(&gate)
	x, y, z := pool[rng.Intn(2)], pool[2], pool[3]
	var wg sync.WaitGroup
	wg.Add(1)
	go func() {
		defer wg.Done()
		e.callAdd(2, addSpec{m: x, kind: []string{"torrent", "magnet"}[rng.Intn(2)], stopped: rng.Intn(2) == 0, id: "a"})
	}()
	select {
	case <-entered:
	case <-time.After(10 * time.Second): // the first add never reached the provider (it failed earlier): nothing to gate
	}
	e.fresh = map[int]string{}
	switch variant {
	case 0:
		e.callAdd(3, addSpec{m: y, kind: "torrent", stopped: true, id: "a"})
	case 1:
		e.callAdd(3, addSpec{m: x, kind: "torrent", stopped: rng.Intn(2) == 0, id: "a"})
	case 2:
		e.callAdd(3, addSpec{m: y, kind: "torrent", stopped: true, id: "a"})
		e.callAdd(4, addSpec{m: z, kind: "magnet", stopped: true, id: "a"})
	case 3:
		e.callAdd(3, addSpec{m: x, kind: "torrent", stopped: true, id: "b"})
	case 4:
		e.callAdd(3, addSpec{m: y, kind: "torrent", stopped: true, id: "a"})
		e.callRemove(4, "a")
	}
	if d := rng.Intn(3); d > 0 {
		time.Sleep(time.Duration(d*100) * time.Microsecond)
	}
	close(release)
	wg.Wait()
	e.prov.gate.Store(nil)
	var ks []int
	for g := range e.fresh {
		ks = append(ks, g)
	}
	sort.Ints(ks)
	for _, g := range ks {
		e.known = append(e.known, e.fresh[g])
	}
	e.fresh = nil
	e.obs()
	// the survivors are ordinary torrents
	e.callAddTracker(1, "a", "http://127.0.0.1:9/after-race", true)
	e.obs()
	e.callReopen(1, nil)
	if !e.dead {
		e.obs()
	}
}
