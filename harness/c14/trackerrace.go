package main

import (
	"fmt"
	"math/rand"
	"runtime"
	"strings"
	"sync"
	"time"

	"github.com/cenkalti/rain/v2/torrent"
)

// queuedWriters counts the goroutines of this process that wait for the writer lock of a bbolt database on behalf of an
// AddTracker / Start / Stop call (stack dump: bbolt.(*DB).beginRWTx below Torrent.AddTracker or resumer WriteStarted).
func queuedWriters() int {
	buf := make([]byte, 1<<20)
	for {
		n := runtime.Stack(buf, true)
		if n < len(buf) {
			buf = buf[:n]
			break
		}
		buf = make([]byte, 2*len(buf))
	}
	c := 0
	for _, g := range strings.Split(string(buf), "\n\n") {
		if strings.Contains(g, ".beginRWTx(") && (strings.Contains(g, "Torrent).AddTracker(") || strings.Contains(g, ".WriteStarted(")) {
			c++
		}
	}
	return c
}

// trackerRaceTrace: k callers add trackers to ONE torrent at the same time (quantifier of C14: "concurrent callers" of
// AddTracker) while the writer lock of the resume database is held by somebody else (the harness: the stand-in for another
// torrent's resume write or a CompactDatabase).  Every caller runs up to its database transaction and queues there; the
// lock is given back when all of them are queued (seen in the stack dump; 3 s at most), so they run back to back.  A
// read-modify-write of the tracker list that is ONE write transaction is serialised by the lock; one that reads before
// it holds the lock makes every caller extend the same list, and the record ends up with one of the new trackers.
// Judged like every concurrent history (Trace_Session: HoldDB frame, C14.record.tracker-lost / C14.state / C14.restart /
// C14.compact at the observations that follow).
//
//	variant 0   AddTracker(a, u1..uk)
//	variant 1   AddTracker(a, u1..) + AddTracker(b, u)            (another record written in the same queue)
//	variant 2   AddTracker(a, u1..) + Start/Stop(a)               (another key of the same record)
//	variant 3   AddTracker(a, u) twice + AddTracker(a, u2..)      (the same tracker added twice is recorded twice)
//	variant 4   AddTracker(a, u1..) + AddTracker(a, invalid URI)  (refused before the database: returns while the lock is held)
//	variant 5   as 0, nobody holds the lock (callers released together; the runtime picks the schedule)
func trackerRaceTrace(T *tracer, pool []*meta, seed int64, idx int) {
	rng := rand.New(rand.NewSource(seed*17000023 + int64(idx)))
	variant := idx % 6
	e := newEnv(T, rng, pool, 3+rng.Intn(2), rng.Intn(5) == 0)
	defer e.cleanup()
	e.init(fmt.Sprintf("race-tracker:%d", variant), idx)
	if err := e.open(); err != nil {
		panic(err)
	}
	e.obs()
	e.callAdd(1, addSpec{m: pool[rng.Intn(len(pool))], kind: []string{"torrent", "magnet"}[rng.Intn(2)], stopped: rng.Intn(3) != 0, id: "a"})
	e.obs()
	withB := variant == 1 || rng.Intn(3) == 0
	if withB && !e.dead {
		e.callAdd(1, addSpec{m: pool[rng.Intn(len(pool))], kind: "torrent", stopped: true, id: "b"})
		e.obs()
	}
	if rng.Intn(3) == 0 && !e.dead { // entry path: the torrent of this session's start-up (loaded from its record)
		e.callReopen(1, nil)
		if !e.dead {
			e.obs()
		}
	}
	rounds := 1 + rng.Intn(2)
	nuri := 0
	for r := 0; r < rounds && !e.dead; r++ {
		k := 2 + rng.Intn(3)
		fs := make([]func(), 0, k)
		expect := 0
		uri := func() string { nuri++; return fmt.Sprintf("http://127.0.0.1:9/r%d-%d", idx, nuri) }
		addTr := func(id, u string, valid bool) {
			g := len(fs) + 2
			fs = append(fs, func() { e.callAddTracker(g, id, u, valid) })
			if valid {
				expect++
			}
		}
		n := k
		if variant >= 1 && variant <= 4 {
			n = k - 1
		}
		if variant == 3 {
			u := uri()
			addTr("a", u, true)
			addTr("a", u, true)
			n -= 2
		}
		for i := 0; i < n; i++ {
			addTr("a", uri(), true)
		}
		switch variant {
		case 1:
			addTr("b", uri(), true)
		case 2:
			g, on := len(fs)+2, rng.Intn(2) == 0
			fs = append(fs, func() { e.callStart(g, "a", on) })
			expect++
		case 3:
			addTr("a", uri(), true)
		case 4:
			addTr("a", "gopher://127.0.0.1/x", false)
		}
		hold := variant != 5
		var release func()
		if hold {
			release = torrent.VerifC14HoldDB(e.s)
			// (call line after the lock was taken, ret line before it is given back: see Trace_Session!TrCallHold)
			e.T.emit(ev{"op": "call", "g": 1, "name": "HoldDB", "id": "", "rpc": false})
		}
		var wg sync.WaitGroup
		start := make(chan struct{})
		for _, f := range fs {
			wg.Add(1)
			go func(f func()) {
				defer wg.Done()
				<-start
				f()
			}(f)
		}
		close(start)
		if hold {
			queued := 0
			for i := 0; i < 1500; i++ {
				if queued = queuedWriters(); queued >= expect {
					break
				}
				time.Sleep(2 * time.Millisecond)
			}
			if d := rng.Intn(3); d > 0 {
				time.Sleep(time.Duration(d) * time.Millisecond)
			}
			e.T.emit(ev{"op": "ret", "g": 1, "res": "ok", "id": "", "port": 0, "at": "0", "queued": queued, "expect": expect})
			release()
		}
		wg.Wait()
		e.obs()
	}
	if e.dead {
		return
	}
	// what the record holds is what a restart and a compaction show
	switch rng.Intn(3) {
	case 0:
		e.callReopen(1, nil)
		if !e.dead {
			e.obs()
		}
	case 1:
		e.callCompact(1)
		e.obs()
	default:
		e.callCompact(1)
		e.obs()
		e.callReopen(1, nil)
		if !e.dead {
			e.obs()
		}
	}
}
