// Command c14 drives a real torrent.Session (public API, and the rainrpc client for a sample) with op
// sequences AddTorrent / AddURI(magnet) / RemoveTorrent / Start / Stop / AddTracker / CompactDatabase /
// CleanDatabase / Close+reopen, failing adds, never-started torrents and k concurrent callers, and records
// call/ret events plus the projected registry (live torrents, available ports, resume database) at every
// quiescent point.  Trace_Session.tla judges the traces (linearization search between call and ret).
//
// Sub-commands:
//
//	run   -mode seq|burst|burst-sameid|probe|race|race-add|race-readd|race-tracker -seed S -n N -out F     supervisor: re-executes itself as `child`, contains crashes
//	child -mode ... -from I -to N -out F                one process, many traces (fresh directory + session each)
//	codec -cases F -out F                               resumer field codec round trips for TLC-generated tuples
package main

import (
	"bufio"
	"bytes"
	"encoding/hex"
	"encoding/json"
	"errors"
	"flag"
	"fmt"
	"math/rand"
	"net"
	"net/http"
	"os"
	"os/exec"
	"path/filepath"
	"runtime"
	"sort"
	"strconv"
	"strings"
	"sync"
	"sync/atomic"
	"time"

	"github.com/cenkalti/rain/v2/internal/rpctypes"
	"github.com/cenkalti/rain/v2/internal/storage"
	"github.com/cenkalti/rain/v2/internal/verif/vh"
	"github.com/cenkalti/rain/v2/rainrpc"
	"github.com/cenkalti/rain/v2/torrent"
)

type ev map[string]any

// ---------------------------------------------------------------------------------------------
// trace writer: one line per event, flushed immediately (a crash must not lose the history)

type tracer struct {
	mu sync.Mutex
	f  *os.File
	w  *bufio.Writer
	n  atomic.Int64
}

func newTracer(path string) *tracer {
	f, err := os.OpenFile(path, os.O_CREATE|os.O_WRONLY|os.O_APPEND, 0644)
	if err != nil {
		panic(err)
	}
	return &tracer{f: f, w: bufio.NewWriterSize(f, 1<<16)}
}

func (t *tracer) emit(e ev) {
	t.mu.Lock()
	e["seq"] = t.n.Add(1)
	b, err := json.Marshal(e)
	if err != nil {
		panic(err)
	}
	t.w.Write(b)
	t.w.WriteByte('\n')
	t.w.Flush()
	t.mu.Unlock()
}

// ---------------------------------------------------------------------------------------------
// storage provider: vh.MemProvider; the torrent id "z" always fails GetStorage

type prov struct {
	*vh.MemProvider
	gate atomic.Pointer[func(id string)]
	// storage error at LOAD time (class "storage" of unloadable records): while a session is being opened GetStorage
	// fails for these ids, so the record stays in the database without a torrent
	mu       sync.Mutex
	loading  bool
	failLoad map[string]bool
}

func (p *prov) setLoading(v bool) {
	p.mu.Lock()
	p.loading = v
	p.mu.Unlock()
}

func (p *prov) setFailLoad(id string, v bool) {
	p.mu.Lock()
	if p.failLoad == nil {
		p.failLoad = map[string]bool{}
	}
	if v {
		p.failLoad[id] = true
	} else {
		delete(p.failLoad, id)
	}
	p.mu.Unlock()
}

var errStorage = errors.New("verif: injected storage error")

func (p *prov) GetStorage(id string) (storage.Storage, error) {
	if g := p.gate.Load(); g != nil {
		(*g)(id)
	}
	if id == "z" {
		return nil, errStorage
	}
	p.mu.Lock()
	fail := p.loading && p.failLoad[id]
	p.mu.Unlock()
	if fail {
		return nil, errStorage
	}
	return p.MemProvider.GetStorage(id)
}

// ---------------------------------------------------------------------------------------------
// pool of generated torrents (ground truth owned by the harness)

type meta struct {
	tor    *vh.Torrent
	tiers  [][]string
	ws     []string
	magnet string
	mtiers [][]string // tiers as a magnet link of this torrent carries them
}

func buildPool() []*meta {
	lays := vh.StdLayouts(16384)
	mk := func(i int, name string, tiers [][]string, ws []string) *meta {
		l := lays[i%len(lays)]
		l.Name = name
		m := &meta{tor: vh.Build(l, int64(100+i), tiers, ws), tiers: tiers, ws: ws}
		// magnet: every tr parameter is a tier of its own
		q := "magnet:?xt=urn:btih:" + hex.EncodeToString(m.tor.InfoHash[:]) + "&dn=" + name
		for _, t := range tiers {
			for _, u := range t {
				q += "&tr=" + strings.ReplaceAll(strings.ReplaceAll(u, ":", "%3A"), "/", "%2F")
				m.mtiers = append(m.mtiers, []string{u})
			}
		}
		m.magnet = q
		return m
	}
	return []*meta{
		mk(0, "alpha", nil, nil),
		mk(1, "beta-τορρεντ-名前", [][]string{{"http://127.0.0.1:1/a"}}, []string{"http://127.0.0.1:1/ws/"}),
		mk(2, "gamma", [][]string{{"http://127.0.0.1:1/a", "udp://127.0.0.1:1"}, {"http://127.0.0.1:2/b"}}, []string{"http://127.0.0.1:1/w1/", "http://127.0.0.1:2/w2/"}),
		mk(3, "delta", [][]string{{"http://127.0.0.1:3/c"}, {"http://127.0.0.1:4/d"}, {"udp://127.0.0.1:5"}}, nil),
	}
}

func sortedTiers(t [][]string) [][]string {
	out := make([][]string, 0, len(t))
	for _, x := range t {
		y := append([]string{}, x...)
		sort.Strings(y)
		out = append(out, y)
	}
	return out
}

func strs(x []string) []string {
	if x == nil {
		return []string{}
	}
	return x
}

// ---------------------------------------------------------------------------------------------
// one trace = one directory, one database, a session that may be closed and reopened

type env struct {
	T      *tracer
	rng    *rand.Rand
	dir    string
	cfg    torrent.Config
	base   int
	nports int
	s      *torrent.Session
	prov   *prov
	rpc    *rainrpc.Client
	useRPC bool
	pool   []*meta
	mu     sync.Mutex
	known  []string       // ids returned by successful adds, in creation order (scenario choices must not depend on generated ids)
	fresh  map[int]string // ids added by the callers of the current burst round, by caller
	added  map[string]*meta // torrent of the last successful add per id (the harness's own bookkeeping for planting leftovers)
	dead   bool // the trace is abandoned: the session panicked inside Close, or the environment failed
	closed bool // Close was attempted (it must not be called twice)
	loops0 int  // torrent loops alive in this process when the trace began (leaked by an earlier trace: not this trace's fault)
}

// freeTCPPort picks a free port below the ephemeral range (the RPC server is restarted on the same port at every reopen:
// a port from the ephemeral range could be handed to somebody else in between).
func freeTCPPort() int {
	rng := rand.New(rand.NewSource(time.Now().UnixNano() + int64(os.Getpid())*104729))
	for i := 0; i < 500; i++ {
		p := 10000 + rng.Intn(20000)
		l, err := net.Listen("tcp4", fmt.Sprintf("127.0.0.1:%d", p))
		if err != nil {
			continue
		}
		l.Close()
		return p
	}
	panic("no free tcp port")
}

func newEnv(T *tracer, rng *rand.Rand, pool []*meta, nports int, useRPC bool) *env {
	// inside the working directory (the check's scratch under /var/tmp, removed by the check): a killed child leaves nothing behind
	wd, err := os.Getwd()
	if err != nil || strings.HasPrefix(wd, "/tmp") {
		wd = "/var/tmp"
	}
	dir, err := os.MkdirTemp(wd, "c14-")
	if err != nil {
		panic(err)
	}
	cfg, err := vh.BaseConfig(dir, nports)
	if err != nil {
		panic(err)
	}
	cfg.ResumeWriteInterval = time.Hour // the resume database is written by the calls and by Close only
	cfg.ResumeOnStartup = true
	cfg.MaxPieces = maxPiecesCfg
	e := &env{T: T, rng: rng, dir: dir, cfg: cfg, base: int(cfg.PortBegin), nports: nports, pool: pool, useRPC: useRPC, added: map[string]*meta{}}
	vt, _ := vh.NewTracer("")
	e.prov = &prov{MemProvider: vh.NewMemProvider(vt)}
	e.prov.Quiet = true
	e.cfg.CustomStorage = e.prov
	if useRPC {
		e.cfg.RPCEnabled = true
		e.cfg.RPCHost = "127.0.0.1"
		e.cfg.RPCPort = freeTCPPort()
		e.cfg.RPCShutdownTimeout = time.Second
	}
	return e
}

func (e *env) open() error {
	e.prov.setLoading(true)
	s, err := torrent.NewSession(e.cfg)
	e.prov.setLoading(false)
	if err != nil {
		return err
	}
	e.s = s
	if e.useRPC {
		e.rpc = rainrpc.NewClient(fmt.Sprintf("http://127.0.0.1:%d", e.cfg.RPCPort))
		e.rpc.SetTimeout(20 * time.Second)
	}
	return nil
}

func (e *env) cleanup() {
	if e.s != nil && !e.closed {
		func() {
			defer func() { recover() }()
			e.s.Close()
		}()
	}
	os.RemoveAll(e.dir)
}

func (e *env) aport(p int) int { // abstract port: 1..n inside the range, 100+ outside
	if p >= e.base && p < e.base+e.nports {
		return p - e.base + 1
	}
	return 100 + (p % 1000)
}

// ---------------------------------------------------------------------------------------------
// projection of the observable state

func decodeDB(e *env, id string, b map[string][]byte) ev {
	r := ev{"id": id}
	p, err := strconv.Atoi(string(b["port"]))
	if err != nil {
		p = -1
	}
	r["port"] = e.aport(p)
	r["ih"] = hex.EncodeToString(b["info_hash"])
	r["name"] = string(b["name"])
	var tiers [][]string
	if err := json.Unmarshal(b["trackers"], &tiers); err != nil {
		tiers = [][]string{{"!undecodable"}}
	}
	r["tiers"] = sortedTiers(tiers)
	var ws []string
	if err := json.Unmarshal(b["url_list"], &ws); err != nil {
		ws = []string{"!undecodable"}
	}
	r["ws"] = strs(ws)
	pb := func(k string) bool { v, _ := strconv.ParseBool(string(b[k])); return v }
	r["sad"], r["sam"], r["sq"] = pb("stop_after_download"), pb("stop_after_metadata"), pb("sequential")
	r["started"] = pb("started")
	r["meta"] = len(b["info"]) > 0
	r["bf"] = hex.EncodeToString(b["bitfield"])
	at := "!undecodable"
	if t, err := time.Parse(time.RFC3339, string(b["added_at"])); err == nil {
		at = strconv.FormatInt(t.Unix(), 10)
	}
	r["at"] = at
	sf := "!undecodable"
	if d, err := time.ParseDuration(string(b["seeded_for"])); err == nil {
		sf = strconv.FormatInt(int64(d), 10)
	}
	r["cnt"] = []string{string(b["bytes_downloaded"]), string(b["bytes_uploaded"]), string(b["bytes_wasted"]), sf}
	return r
}

func (e *env) liveRec(t *torrent.Torrent) ev {
	r := ev{"id": t.ID(), "port": e.aport(t.Port())}
	st := t.Stats() // handled by the torrent loop: every command sent before (AddTrackers) has been executed when it returns
	ih := t.InfoHash()
	r["ih"] = hex.EncodeToString(ih[:])
	r["name"] = t.Name()
	r["tiers"] = sortedTiers(torrent.VerifC14Trackers(t))
	ws := []string{}
	for _, w := range t.Webseeds() {
		ws = append(ws, w.URL)
	}
	r["ws"] = ws
	r["sad"], r["sam"], r["sq"] = torrent.VerifC14Opts(t)
	r["meta"] = torrent.VerifC14HasInfo(t)
	r["at"] = strconv.FormatInt(t.AddedAt().Unix(), 10)
	r["cnt"] = []string{strconv.FormatInt(st.Bytes.Downloaded, 10), strconv.FormatInt(st.Bytes.Uploaded, 10),
		strconv.FormatInt(st.Bytes.Wasted, 10), strconv.FormatInt(int64(st.SeededFor), 10)}
	run := "n"
	if st.Status != torrent.Stopped {
		run = "y"
	} else if st.Error != nil {
		run = "e"
	}
	r["run"] = run
	return r
}

// obs logs the registry at a quiescent point.
func (e *env) obs() {
	if e.dead { // the trace was abandoned (environment failure or a panic inside Close): nothing more is recorded
		return
	}
	v := torrent.VerifC14Snapshot(e.s)
	live := []ev{}
	lt := e.s.ListTorrents()
	sort.Slice(lt, func(i, j int) bool { return lt[i].ID() < lt[j].ID() })
	for _, t := range lt {
		live = append(live, e.liveRec(t))
	}
	avail := []int{}
	for _, p := range v.Avail {
		avail = append(avail, e.aport(p))
	}
	sort.Ints(avail)
	db := []ev{}
	ids := make([]string, 0, len(v.Buckets))
	for id := range v.Buckets {
		ids = append(ids, id)
	}
	sort.Strings(ids)
	for _, id := range ids {
		db = append(db, decodeDB(e, id, v.Buckets[id]))
	}
	byih := []ev{}
	keys := make([]string, 0, len(v.ByInfoHash))
	for k := range v.ByInfoHash {
		keys = append(keys, k)
	}
	sort.Strings(keys)
	for _, k := range keys {
		byih = append(byih, ev{"ih": k, "ids": v.ByInfoHash[k]})
	}
	// a torrent that was closed has left its loop when Close returned; give the goroutine a moment to unwind
	loops := torrentLoops() - e.loops0
	for i := 0; i < 100 && loops != len(live); i++ {
		time.Sleep(2 * time.Millisecond)
		loops = torrentLoops() - e.loops0
	}
	st := e.s.Stats()
	e.T.emit(ev{"op": "obs", "loops": loops, "live": live, "avail": avail, "db": db, "invalid": strs(v.Invalid), "byih": byih,
		"nports": st.PortsAvailable, "ntorrents": st.Torrents})
}

// ---------------------------------------------------------------------------------------------
// operations (each logs call and ret; the state change happens somewhere in between)

type addSpec struct {
	id      string // "" = generated by the session
	kind    string // torrent | magnet | bad
	m       *meta
	stopped bool
	sad     bool
	sam     bool
	sq      bool
	failWr  bool // the resume-record transaction of this add is made to fail (plain key of that name planted in the database)
	planted bool // ... by the caller of callAdd (burst rounds plant once for all callers)
}

// torrentLoops counts the torrent event loops alive in this process (goroutines inside (*torrent).run).
func torrentLoops() int {
	buf := make([]byte, 1<<20)
	for {
		n := runtime.Stack(buf, true)
		if n < len(buf) {
			return strings.Count(string(buf[:n]), "torrent.(*torrent).run(")
		}
		buf = make([]byte, 2*len(buf))
	}
}

func (e *env) callAdd(g int, a addSpec) string {
	tiers := a.m.tiers
	ws := a.m.ws
	metaKnown := true
	if a.kind == "magnet" {
		tiers, ws, metaKnown = a.m.mtiers, nil, false
	}
	fail := "none"
	if a.id == "z" {
		fail = "storage"
	}
	plantedHere := false
	if a.failWr && a.id != "" && a.id != "z" && a.kind != "bad" {
		if a.planted {
			fail = "write"
		} else if torrent.VerifC14PlantKey(e.s, a.id) {
			fail, plantedHere = "write", true
		}
	}
	st := ev{"ih": hex.EncodeToString(a.m.tor.InfoHash[:]), "name": a.m.tor.Name, "ws": strs(ws), "sad": a.sad, "sam": a.sam, "sq": a.sq, "meta": metaKnown}
	e.T.emit(ev{"op": "call", "g": g, "name": "Add", "id": a.id, "kind": a.kind, "stopped": a.stopped, "fail": fail, "st": st,
		"tiers": sortedTiers(tiers), "rpc": e.useRPC})
	res, id, port, at := "ok", "", 0, "0"
	func() {
		defer func() {
			if r := recover(); r != nil {
				res = "panic"
			}
		}()
		var err error
		if e.useRPC {
			opt := &rainrpc.AddTorrentOptions{ID: a.id, Stopped: a.stopped, StopAfterDownload: a.sad, StopAfterMetadata: a.sam, Sequential: a.sq}
			var rt *rpctypes.Torrent
			switch a.kind {
			case "torrent":
				rt, err = e.rpc.AddTorrent(bytes.NewReader(a.m.tor.Bytes), opt)
			case "magnet":
				rt, err = e.rpc.AddURI(a.m.magnet, opt)
			default:
				rt, err = e.rpc.AddTorrent(bytes.NewReader([]byte("d4:infod6:lengthi1eee")), opt)
			}
			if err == nil {
				id, port, at = rt.ID, e.aport(rt.Port), strconv.FormatInt(rt.AddedAt.Unix(), 10)
			}
		} else {
			opt := &torrent.AddTorrentOptions{ID: a.id, Stopped: a.stopped, StopAfterDownload: a.sad, StopAfterMetadata: a.sam, Sequential: a.sq}
			var t *torrent.Torrent
			switch a.kind {
			case "torrent":
				t, err = e.s.AddTorrent(bytes.NewReader(a.m.tor.Bytes), opt)
			case "magnet":
				t, err = e.s.AddURI(a.m.magnet, opt)
			default:
				t, err = e.s.AddTorrent(bytes.NewReader([]byte("d4:infod6:lengthi1eee")), opt)
			}
			if err == nil {
				id, port, at = t.ID(), e.aport(t.Port()), strconv.FormatInt(t.AddedAt().Unix(), 10)
			}
		}
		if err != nil {
			res = classify(err)
			if e.useRPC && res == "err" && !strings.HasPrefix(err.Error(), "{\"code\"") {
				res = "env"
			}
			if a.kind == "bad" && res == "err" { // through RPC the input error is a jsonrpc2 error (code 2) with the parser's text
				res = "bad"
			}
		}
	}()
	if res == "env" {
		e.dead = true
	}
	if plantedHere {
		torrent.VerifC14UnplantKey(e.s, a.id)
	}
	e.T.emit(ev{"op": "ret", "g": g, "res": res, "id": id, "port": port, "at": at})
	if res == "ok" {
		e.prov.setFailLoad(id, false) // the record was rewritten: it loads again
		e.mu.Lock()
		e.added[id] = a.m
		if e.fresh != nil {
			e.fresh[g] = id
		} else {
			e.known = append(e.known, id)
		}
		e.mu.Unlock()
	}
	return res
}

func classify(err error) string {
	s := err.Error()
	if strings.Contains(s, "\"code\":-32603") && strings.Contains(s, "Post \\\"") {
		// rainrpc wraps a failure of the HTTP round trip into a JSON-RPC internal error
		if strings.Contains(s, "EOF") || strings.Contains(s, "connection reset") || strings.Contains(s, "broken pipe") {
			return "panic" // the handler panicked: net/http recovered it and dropped the connection
		}
		return "env"
	}
	switch {
	case strings.Contains(s, "duplicate torrent id"):
		return "dup"
	case strings.Contains(s, "no free port"):
		return "noport"
	case strings.Contains(s, "incompatible value"):
		return "dbwrite" // bbolt: bucket operation on a plain key (the planted fault)
	case strings.Contains(s, "injected storage error"):
		return "storage"
	case strings.Contains(s, "torrent not found"):
		return "notfound"
	case strings.Contains(s, "connection refused") || strings.Contains(s, "i/o timeout") || strings.Contains(s, "Client.Timeout") ||
		strings.Contains(s, "address already in use") || strings.Contains(s, "deadline exceeded") || strings.Contains(s, "locked by another process"):
		// the environment (loaded machine, port taken by another process), not the session: the trace is abandoned
		return "env"
	case strings.HasSuffix(s, "EOF") || strings.Contains(s, "connection reset") || strings.Contains(s, "broken pipe"):
		// RPC: the handler panicked, net/http recovered it and dropped the connection
		return "panic"
	}
	var ie *torrent.InputError
	if errors.As(err, &ie) {
		return "bad"
	}
	// through RPC an input error arrives as a jsonrpc2 error with code 2
	if strings.Contains(s, "no info dict") || strings.Contains(s, "bencode") || strings.Contains(s, "invalid") {
		return "bad"
	}
	return "err"
}

func (e *env) simple(g int, name, id string, extra ev, f func() error, frpc func() error) string {
	c := ev{"op": "call", "g": g, "name": name, "id": id, "rpc": e.useRPC}
	for k, v := range extra {
		c[k] = v
	}
	e.T.emit(c)
	res, msg := "ok", ""
	func() {
		defer func() {
			if r := recover(); r != nil {
				res, msg = "panic", fmt.Sprint(r)
			}
		}()
		var err error
		if e.useRPC && frpc != nil {
			err = frpc()
		} else {
			err = f()
		}
		if err != nil {
			res, msg = classify(err), err.Error()
			if e.useRPC && frpc != nil && res == "err" && !strings.HasPrefix(msg, "{\"code\"") {
				res = "env" // not an answer of the session but a transport failure we cannot attribute
			}
		}
	}()
	if res == "env" {
		e.dead = true
	}
	if len(msg) > 200 {
		msg = msg[:200]
	}
	e.T.emit(ev{"op": "ret", "g": g, "res": res, "id": id, "port": 0, "at": "0", "msg": msg})
	return res
}

var errNotFound = errors.New("torrent not found")

// callRemoveDbFail: the record of id is replaced by a plain key just before the call, so that the DeleteBucket of the
// remove fails; the key is taken away again afterwards.
func (e *env) callRemoveDbFail(g int, id string) {
	broke := torrent.VerifC14BreakRecord(e.s, id)
	e.simple(g, "Remove", id, ev{"dbfail": broke}, func() error { return e.s.RemoveTorrent(id, true) }, func() error { return e.rpc.RemoveTorrent(id, true) })
	if broke {
		torrent.VerifC14UnplantKey(e.s, id)
	}
}

func (e *env) callRemove(g int, id string) {
	e.simple(g, "Remove", id, ev{"dbfail": false}, func() error { return e.s.RemoveTorrent(id, true) }, func() error { return e.rpc.RemoveTorrent(id, true) })
}

func (e *env) callStart(g int, id string, on bool) {
	name := "Stop"
	if on {
		name = "Start"
	}
	e.simple(g, name, id, nil, func() error {
		t := e.s.GetTorrent(id)
		if t == nil {
			return errNotFound
		}
		if on {
			return t.Start()
		}
		return t.Stop()
	}, func() error {
		if on {
			return e.rpc.StartTorrent(id)
		}
		return e.rpc.StopTorrent(id)
	})
}

func (e *env) callAddTracker(g int, id, uri string, valid bool) {
	e.simple(g, "AddTracker", id, ev{"uri": uri, "valid": valid}, func() error {
		t := e.s.GetTorrent(id)
		if t == nil {
			return errNotFound
		}
		return t.AddTracker(uri)
	}, func() error { return e.rpc.AddTracker(id, uri) })
}

// callStaleAddTracker uses a handle obtained before the torrent was removed (a caller that kept its *Torrent).
func (e *env) callStaleAddTracker(g int, t *torrent.Torrent, uri string) {
	sv := e.useRPC
	e.useRPC = false
	e.simple(g, "AddTrackerStale", t.ID(), ev{"uri": uri, "valid": true}, func() error { return t.AddTracker(uri) }, nil)
	e.useRPC = sv
}

func (e *env) callBump(g int, id string, d [4]int64) {
	t := e.s.GetTorrent(id)
	cnt := []string{"0", "0", "0", "0"}
	if t != nil {
		torrent.VerifC14Bump(t, d[0], d[1], d[2], d[3])
		a, b, c, f := torrent.VerifC14Counters(t)
		cnt = []string{strconv.FormatInt(a, 10), strconv.FormatInt(b, 10), strconv.FormatInt(c, 10), strconv.FormatInt(f, 10)}
	}
	e.T.emit(ev{"op": "call", "g": g, "name": "Bump", "id": id, "cnt": cnt, "rpc": false})
	res := "ok"
	if t == nil {
		res = "notfound"
	}
	e.T.emit(ev{"op": "ret", "g": g, "res": res, "id": id, "port": 0, "at": "0"})
}

func (e *env) callClean(g int) {
	e.simple(g, "Clean", "", nil, func() error { return e.s.CleanDatabase() }, func() error { return e.rpc.CleanDatabase() })
}

// callCompact compacts into a new file, then loads that file with a second session (never started) and logs what it shows.
func (e *env) callCompact(g int) {
	e.T.emit(ev{"op": "call", "g": g, "name": "Compact", "id": "", "rpc": false})
	out := filepath.Join(e.dir, fmt.Sprintf("compact-%d.db", e.T.n.Load()))
	res, msg := "ok", ""
	func() {
		defer func() {
			if r := recover(); r != nil {
				res, msg = "panic", fmt.Sprint(r)
			}
		}()
		if err := e.s.CompactDatabase(out); err != nil {
			res, msg = "err", err.Error()
		}
	}()
	loaded := []ev{}
	linvalid := []string{}
	if res == "ok" {
		func() {
			defer func() {
				if r := recover(); r != nil {
					res, msg = "loadpanic", fmt.Sprint(r)
				}
			}()
			cfg2 := e.cfg
			cfg2.Database = out
			cfg2.RPCEnabled = false
			cfg2.ResumeOnStartup = false
			s2, err := torrent.NewSession(cfg2)
			if err != nil {
				res, msg = "loaderr", err.Error()
				return
			}
			v := torrent.VerifC14Snapshot(s2)
			linvalid = strs(v.Invalid)
			lt := s2.ListTorrents()
			sort.Slice(lt, func(i, j int) bool { return lt[i].ID() < lt[j].ID() })
			e2 := *e
			e2.s = s2
			for _, t := range lt {
				r := e2.liveRec(t)
				r["started"] = false
				if b, ok := v.Buckets[t.ID()]; ok {
					r["started"], _ = strconv.ParseBool(string(b["started"]))
				}
				delete(r, "run")
				loaded = append(loaded, r)
			}
			s2.Close()
		}()
	}
	os.Remove(out)
	if len(msg) > 160 {
		msg = msg[:160]
	}
	e.T.emit(ev{"op": "ret", "g": g, "res": res, "id": "", "port": 0, "at": "0", "loaded": loaded, "linvalid": linvalid, "msg": msg})
}

// callReopen closes the session, optionally damages records of the closed database, and opens a new session on it.
func (e *env) callReopen(g int, corrupt []string, classes ...string) {
	for len(classes) < len(corrupt) { // the two classes of the first version of this driver
		classes = append(classes, []string{"ihash", "port"}[len(corrupt[len(classes)])%2])
	}
	e.T.emit(ev{"op": "call", "g": g, "name": "Reopen", "id": "", "corrupt": strs(corrupt), "cclass": strs(classes), "rpc": false})
	res := "ok"
	func() {
		defer func() {
			if r := recover(); r != nil {
				res = "panic"
				e.dead = true
			}
		}()
		e.closed = true
		if e.rpc != nil {
			e.rpc.Close()
		}
		if err := e.s.Close(); err != nil {
			res = classify(err)
		}
		// the RPC server comes back on the same port: a pooled keep-alive connection to the old server would fail the
		// next call with EOF, which must stay the signature of a handler panic
		if tr, ok := http.DefaultTransport.(*http.Transport); ok {
			tr.CloseIdleConnections()
		}
	}()
	if res == "ok" {
		if len(corrupt) > 0 {
			if err := corruptDB(e, corrupt, classes); err != nil {
				panic(err)
			}
		}
		if err := e.open(); err != nil {
			res = classify(err)
			e.dead = true
		} else {
			e.closed = false
		}
	}
	e.T.emit(ev{"op": "ret", "g": g, "res": res, "id": "", "port": 0, "at": "0"})
}

// ---------------------------------------------------------------------------------------------
// scenario generators

var explicitIDs = []string{"a", "b", "c"}

func (e *env) randAdd() addSpec {
	a := addSpec{m: e.pool[e.rng.Intn(len(e.pool))], kind: "torrent"}
	switch x := e.rng.Intn(20); {
	case x < 3:
		a.kind = "magnet"
	case x < 4:
		a.kind = "bad"
	}
	switch x := e.rng.Intn(10); {
	case x < 5:
		a.id = explicitIDs[e.rng.Intn(len(explicitIDs))]
	case x < 6:
		a.id = "z"
	}
	a.failWr = e.rng.Intn(12) == 0
	a.stopped = e.rng.Intn(10) < 6
	a.sad, a.sam, a.sq = e.rng.Intn(4) == 0, e.rng.Intn(4) == 0, e.rng.Intn(3) == 0
	return a
}

func (e *env) someID() string {
	var ids []string
	seen := map[string]bool{}
	for _, id := range e.known {
		if !seen[id] && e.s.GetTorrent(id) != nil {
			ids = append(ids, id)
		}
		seen[id] = true
	}
	if len(ids) > 0 && e.rng.Intn(8) != 0 {
		return ids[e.rng.Intn(len(ids))]
	}
	return explicitIDs[e.rng.Intn(len(explicitIDs))]
}

var bumpVals = []int64{0, 1, 1 << 20, 1<<40 + 12345, 1500000000}

func (e *env) randOp(g int, concurrent bool) func() {
	x := e.rng.Intn(100)
	switch {
	case x < 34:
		a := e.randAdd()
		if concurrent && a.id != "" && a.id != "z" {
			a.id = fmt.Sprintf("g%d", g) // ordinary bursts keep concurrent adds on distinct ids (burst-sameid is the collision class)
			if a.failWr {
				a.id, a.planted = "w", true // the round has planted the fault for id "w"
			}
		} else if concurrent {
			a.failWr = false
		}
		return func() { e.callAdd(g, a) }
	case x < 52:
		id := e.someID()
		if !concurrent && e.rng.Intn(8) == 0 {
			return func() { e.callRemoveDbFail(g, id) }
		}
		return func() { e.callRemove(g, id) }
	case x < 62:
		id := e.someID()
		return func() { e.callStart(g, id, true) }
	case x < 70:
		id := e.someID()
		return func() { e.callStart(g, id, false) }
	case x < 80:
		id := e.someID()
		uri := fmt.Sprintf("http://127.0.0.1:9/t%d", e.rng.Intn(1000))
		valid := true
		if e.rng.Intn(5) == 0 {
			uri, valid = "gopher://127.0.0.1/x", false
		}
		return func() { e.callAddTracker(g, id, uri, valid) }
	}
	if concurrent {
		id := e.someID()
		return func() { e.callRemove(g, id) }
	}
	switch {
	case x < 86:
		id := e.someID()
		d := [4]int64{bumpVals[e.rng.Intn(len(bumpVals))], bumpVals[e.rng.Intn(len(bumpVals))], bumpVals[e.rng.Intn(len(bumpVals))], bumpVals[e.rng.Intn(len(bumpVals))]}
		return func() { e.callBump(g, id, d) }
	case x < 91:
		return func() { e.callCompact(g) }
	case x < 93:
		return func() { e.callClean(g) }
	default:
		var corrupt []string
		if e.rng.Intn(4) == 0 {
			seen := map[string]bool{}
			for _, id := range e.known {
				if !seen[id] && e.s.GetTorrent(id) != nil && e.rng.Intn(3) == 0 {
					corrupt = append(corrupt, id)
				}
				seen[id] = true
			}
			sort.Strings(corrupt)
		}
		classes := make([]string, len(corrupt))
		for i := range classes {
			classes[i] = leftoverClasses[e.rng.Intn(len(leftoverClasses))]
		}
		return func() { e.callReopen(g, corrupt, classes...) }
	}
}

func (e *env) init(mode string, idx int) {
	e.loops0 = torrentLoops()
	rg := make([]int, e.nports)
	for i := range rg {
		rg[i] = i + 1
	}
	e.T.emit(ev{"op": "Init", "idx": idx, "range": rg, "mode": mode, "rpc": e.useRPC})
}

// seqTrace: one caller, nops operations, observation after each.
func seqTrace(T *tracer, pool []*meta, seed int64, idx, nops int) {
	rng := rand.New(rand.NewSource(seed*1000003 + int64(idx)))
	e := newEnv(T, rng, pool, 2+rng.Intn(3), rng.Intn(4) == 0)
	defer e.cleanup()
	e.init("seq", idx)
	if err := e.open(); err != nil {
		panic(err)
	}
	e.obs()
	for i := 0; i < nops && !e.dead; i++ {
		e.randOp(1, false)()
		if e.dead {
			break
		}
		e.obs()
	}
}

// burstTrace: a few sequential set-up ops, then rounds of k concurrent callers released together; observation after each round.
func burstTrace(T *tracer, pool []*meta, seed int64, idx, k, rounds int, sameID bool) {
	rng := rand.New(rand.NewSource(seed*7000003 + int64(idx)))
	e := newEnv(T, rng, pool, 3+rng.Intn(3), rng.Intn(5) == 0)
	defer e.cleanup()
	mode := "burst"
	if sameID {
		mode = "burst-sameid"
	}
	e.init(mode, idx)
	if err := e.open(); err != nil {
		panic(err)
	}
	e.obs()
	for i := 0; i < 2; i++ {
		a := e.randAdd()
		if sameID {
			a.id = "" // set-up never uses the contested ids
		}
		e.callAdd(1, a)
		e.obs()
	}
	for r := 0; r < rounds && !e.dead; r++ {
		fs := make([]func(), k)
		for g := 0; g < k; g++ {
			if sameID {
				// the collision class of DESIGN.md section 7: several callers add with one explicit id
				a := e.randAdd()
				a.kind, a.id, a.stopped, a.failWr = "torrent", "a", true, false
				if g >= k-2 && r%2 == 1 {
					fs[g] = func(g int) func() { return func() { e.callRemove(g, "a") } }(g + 1)
				} else {
					fs[g] = func(g int, a addSpec) func() { return func() { e.callAdd(g, a) } }(g+1, a)
				}
				continue
			}
			if rng.Intn(3) == 0 { // distinct explicit ids per caller keep adds collision-free in the ordinary bursts
				a := e.randAdd()
				if a.id != "" && a.id != "z" {
					a.id = fmt.Sprintf("g%d", g+1)
					if a.failWr {
						a.id, a.planted = "w", true
					}
				} else {
					a.failWr = false
				}
				fs[g] = func(g int, a addSpec) func() { return func() { e.callAdd(g, a) } }(g+1, a)
			} else {
				fs[g] = e.randOp(g+1, true)
			}
		}
		e.fresh = map[int]string{}
		plantedW := !sameID && torrent.VerifC14PlantKey(e.s, "w") // fault for the adds of this round that use id "w"
		var wg sync.WaitGroup
		start := make(chan struct{})
		for g := 0; g < k; g++ {
			wg.Add(1)
			go func(f func()) {
				defer wg.Done()
				<-start
				f()
			}(fs[g])
		}
		close(start)
		wg.Wait()
		if plantedW {
			torrent.VerifC14UnplantKey(e.s, "w")
		}
		for g := 1; g <= k; g++ {
			if id, ok := e.fresh[g]; ok {
				e.known = append(e.known, id)
			}
		}
		e.fresh = nil
		e.obs()
	}
	if !e.dead && rng.Intn(2) == 0 {
		e.callReopen(1, nil)
		if !e.dead {
			e.obs()
		}
	}
}

// probeTrace: deterministic scenarios for the leads of DESIGN.md section 7.
func probeTrace(T *tracer, pool []*meta, seed int64, idx int) {
	rng := rand.New(rand.NewSource(seed*9000011 + int64(idx)))
	names := []string{"compact-neverstarted", "compact-thissession", "compact-loaded", "stale-addtracker", "rpc-clean", "restart-full", "clean-after-readd", "failpoints",
		"readd-over-leftover-0", "readd-over-leftover-1", "readd-over-leftover-2", "readd-over-leftover-3"}
	name := names[idx%len(names)]
	nports := 4
	if strings.HasPrefix(name, "readd-over-leftover") {
		nports = 7
	}
	e := newEnv(T, rng, pool, nports, name == "rpc-clean")
	defer e.cleanup()
	e.init("probe:"+name, idx)
	if err := e.open(); err != nil {
		panic(err)
	}
	e.obs()
	switch name {
	case "readd-over-leftover-0", "readd-over-leftover-1", "readd-over-leftover-2", "readd-over-leftover-3":
		leftoverProbe(e, int(name[len(name)-1]-'0'))
	case "compact-neverstarted":
		e.callAdd(1, addSpec{m: pool[0], kind: "torrent", stopped: true})
		e.obs()
		e.callCompact(1)
		e.obs()
	case "compact-thissession":
		e.callAdd(1, addSpec{m: pool[2], kind: "torrent", stopped: false, id: "a"})
		e.obs()
		waitBitfield(e, "a")
		e.callCompact(1)
		e.obs()
	case "compact-loaded":
		e.callAdd(1, addSpec{m: pool[2], kind: "torrent", stopped: false, id: "a"})
		e.obs()
		waitBitfield(e, "a")
		e.callAddTracker(1, "a", "http://127.0.0.1:9/added", true)
		e.obs()
		e.callReopen(1, nil)
		e.obs()
		waitBitfield(e, "a")
		e.callCompact(1)
		e.obs()
	case "stale-addtracker":
		e.callAdd(1, addSpec{m: pool[1], kind: "torrent", stopped: true, id: "a"})
		e.obs()
		t := e.s.GetTorrent("a")
		e.callRemove(1, "a")
		e.obs()
		if t != nil {
			e.callStaleAddTracker(1, t, "http://127.0.0.1:9/late")
			e.obs()
		}
	case "rpc-clean":
		e.callAdd(1, addSpec{m: pool[1], kind: "torrent", stopped: true, id: "a"})
		e.obs()
		e.callAdd(1, addSpec{m: pool[2], kind: "torrent", stopped: true, id: "b"})
		e.obs()
		e.callReopen(1, []string{"a"})
		e.obs()
		e.callClean(1)
		e.obs()
	case "clean-after-readd":
		// a record that cannot be loaded is re-added under its id; CleanDatabase then deletes the record of the live torrent
		e.callAdd(1, addSpec{m: pool[1], kind: "torrent", stopped: true, id: "a"})
		e.obs()
		e.callReopen(1, []string{"a"})
		e.obs()
		e.callAdd(1, addSpec{m: pool[1], kind: "torrent", stopped: true, id: "a"})
		e.obs()
		e.callClean(1)
		e.obs()
		e.callReopen(1, nil)
		if !e.dead {
			e.obs()
		}
	case "failpoints":
		// every failure point of add / addMagnet / remove, each followed by the re-use of the id and a look at the registry
		e.callAdd(1, addSpec{m: pool[1], kind: "torrent", stopped: true, id: "a", failWr: true}) // resume write fails
		e.obs()
		e.callAdd(1, addSpec{m: pool[1], kind: "torrent", stopped: true, id: "a"}) // the id is free again
		e.obs()
		e.callAdd(1, addSpec{m: pool[2], kind: "magnet", stopped: false, id: "b", failWr: true}) // same for addMagnet
		e.obs()
		e.callAdd(1, addSpec{m: pool[2], kind: "magnet", stopped: true, id: "b"})
		e.obs()
		e.callAdd(1, addSpec{m: pool[3], kind: "torrent", stopped: true, id: "z"}) // GetStorage fails
		e.obs()
		e.callAdd(1, addSpec{m: pool[3], kind: "magnet", stopped: true, id: "z"})
		e.obs()
		e.callAdd(1, addSpec{m: pool[1], kind: "torrent", stopped: true, id: "a"}) // duplicate id
		e.obs()
		e.callRemoveDbFail(1, "a") // record delete fails
		e.obs()
		e.callAdd(1, addSpec{m: pool[0], kind: "torrent", stopped: false, id: "a"}) // the id is free again
		e.obs()
		for i := 0; i < 4; i++ { // 4 ports: exhaustion
			e.callAdd(1, addSpec{m: pool[i%len(pool)], kind: "torrent", stopped: true})
			e.obs()
		}
		e.callAdd(1, addSpec{m: pool[0], kind: "torrent", stopped: true, id: "c", failWr: true}) // no port: fails before the fault
		e.obs()
		e.callRemove(1, "b")
		e.obs()
		e.callAdd(1, addSpec{m: pool[0], kind: "torrent", stopped: true, id: "c", failWr: true})
		e.obs()
		e.callReopen(1, nil)
		e.obs()
	case "restart-full":
		for i, m := range pool {
			e.callAdd(1, addSpec{m: m, kind: []string{"torrent", "magnet"}[i%2], stopped: i%3 != 0, sad: i%2 == 0, sam: i == 1, sq: i >= 2})
			e.obs()
		}
		for _, id := range e.known {
			e.callBump(1, id, [4]int64{1<<40 + 7, 3, 0, 1500000001})
		}
		e.obs()
		e.callReopen(1, nil)
		e.obs()
		e.callReopen(1, nil)
		e.obs()
	}
}

func waitBitfield(e *env, id string) {
	t := e.s.GetTorrent(id)
	if t == nil {
		return
	}
	for i := 0; i < 200; i++ {
		st := t.Stats()
		if st.Status == torrent.Downloading || st.Status == torrent.Seeding || (st.Status == torrent.Stopped && st.Error != nil) {
			return
		}
		time.Sleep(5 * time.Millisecond)
	}
}

// raceTrace: RemoveTorrent(a) against AddTorrent(ID: a).  The database is held by a write transaction of the harness
// (scheduler gate) until the remove has detached the torrent and the add has passed the duplicate check; the gate is
// opened when the add leaves GetStorage, so that both reach the database at about the same time.  Which of the two
// transactions runs first is up to the runtime; the trace is judged like any other concurrent history.
func raceTrace(T *tracer, pool []*meta, seed int64, idx int) {
	rng := rand.New(rand.NewSource(seed*13000027 + int64(idx)))
	e := newEnv(T, rng, pool, 3, false)
	defer e.cleanup()
	e.init("race", idx)
	if err := e.open(); err != nil {
		panic(err)
	}
	e.obs()
	e.callAdd(1, addSpec{m: pool[1], kind: "torrent", stopped: true, id: "a"})
	e.obs()
	release := torrent.VerifC14HoldDB(e.s)
	var once sync.Once
	gate := func(id string) {
		if id == "a" {
			once.Do(func() {
				if d := rng.Intn(4); d > 0 {
					time.Sleep(time.Duration(d*20) * time.Microsecond)
				}
				release()
			})
		}
	}
	e.prov.gate.Store(&gate)
	var wg sync.WaitGroup
	wg.Add(2)
	go func() { defer wg.Done(); e.callRemove(2, "a") }()
	for i := 0; i < 2000 && e.s.GetTorrent("a") != nil; i++ {
		time.Sleep(50 * time.Microsecond)
	}
	go func() {
		defer wg.Done()
		e.callAdd(3, addSpec{m: pool[2], kind: "torrent", stopped: true, id: "a"})
		once.Do(release) // the add was refused before it reached the storage provider: open the gate for the remove
	}()
	wg.Wait()
	once.Do(release)
	e.prov.gate.Store(nil)
	e.obs()
	e.callReopen(1, nil)
	if !e.dead {
		e.obs()
	}
}

// raceReaddTrace: RemoveTorrent(a) of a RUNNING torrent against AddTorrent/AddURI(ID: a).  A removed torrent runs until the
// remove closes it, and while it stops its loop writes its bitfield to the resume database BY ID (torrent_stop.go).  The
// adder waits until the record of the removed torrent is gone (read transactions: never blocked) or until the torrent has
// left the registry, and then adds at once, again while it is refused as a duplicate: it gets in as soon as the remove
// gives the id back.  If that is before the removed torrent is closed, its loop and the add race for the record, and the
// record of the new torrent - added stopped, never started - may end up with the bitfield of the removed one.  No gate:
// the order is up to the runtime; the trace is judged like any other concurrent history.
func raceReaddTrace(T *tracer, pool []*meta, seed int64, idx int) {
	rng := rand.New(rand.NewSource(seed*17000023 + int64(idx)))
	variant := idx % 3
	e := newEnv(T, rng, pool, 3, false)
	defer e.cleanup()
	e.init(fmt.Sprintf("race-readd:%d", variant), idx)
	if err := e.open(); err != nil {
		panic(err)
	}
	e.obs()
	old := pool[1+rng.Intn(2)]
	e.callAdd(1, addSpec{m: old, kind: "torrent", stopped: variant == 2, id: "a"})
	if variant == 2 { // started by a call of its own
		e.callStart(1, "a", true)
	}
	waitBitfield(e, "a")
	e.obs()
	a := addSpec{m: pool[rng.Intn(len(pool))], kind: "torrent", stopped: true, id: "a"}
	if rng.Intn(4) == 0 {
		a.kind = "magnet"
	}
	var wg sync.WaitGroup
	var removed atomic.Bool
	wg.Add(2)
	go func() {
		defer wg.Done()
		e.callRemove(2, "a")
		removed.Store(true)
	}()
	go func() {
		defer wg.Done()
		deadline := time.Now().Add(5 * time.Second)
		for time.Now().Before(deadline) && !removed.Load() {
			if variant == 1 {
				if e.s.GetTorrent("a") == nil {
					break
				}
			} else if !torrent.VerifC14HasRecord(e.s, "a") {
				break
			}
		}
		for n := 0; n < 16; n++ {
			if e.callAdd(3, a) != "dup" || e.dead {
				return
			}
			if removed.Load() { // the remove has returned: one more call, which must get in
				e.callAdd(3, a)
				return
			}
			if variant == 1 {
				time.Sleep(time.Duration(20+rng.Intn(200)) * time.Microsecond)
			}
		}
	}()
	wg.Wait()
	e.obs()
	if !e.dead {
		e.callReopen(1, nil)
	}
	if !e.dead {
		e.obs()
	}
}

// ---------------------------------------------------------------------------------------------

func child(mode string, seed int64, from, to, nops, k int, out string) {
	torrent.DisableLogging()
	T := newTracer(out)
	pool := buildPool()
	for i := from; i < to; i++ {
		switch mode {
		case "seq":
			seqTrace(T, pool, seed, i, nops)
		case "burst":
			burstTrace(T, pool, seed, i, k, nops, false)
		case "burst-sameid":
			burstTrace(T, pool, seed, i, k, nops, true)
		case "probe":
			probeTrace(T, pool, seed, i)
		case "race":
			raceTrace(T, pool, seed, i)
		case "race-add":
			raceAddTrace(T, pool, seed, i)
		case "race-readd":
			raceReaddTrace(T, pool, seed, i)
		case "race-tracker":
			trackerRaceTrace(T, pool, seed, i)
		default:
			panic("unknown mode " + mode)
		}
	}
}

// supervisor: runs children (par of them side by side, each on a contiguous range of trace indices); if a child dies it
// appends a crash line to that child's file and resumes the range with the next trace.
func run(mode string, seed int64, n, nops, k, par int, out string) {
	os.Remove(out)
	if par < 1 {
		par = 1
	}
	if par > n {
		par = n
	}
	raws := make([]string, par)
	crashes := make([]int, par)
	var wg sync.WaitGroup
	for p := 0; p < par; p++ {
		raws[p] = fmt.Sprintf("%s.raw%d", out, p)
		os.Remove(raws[p])
		lo, hi := p*n/par, (p+1)*n/par
		wg.Add(1)
		go func(p, lo, hi int) {
			defer wg.Done()
			crashes[p] = runRange(mode, seed, lo, hi, nops, k, raws[p])
		}(p, lo, hi)
	}
	wg.Wait()
	nev, ntr := postprocess(raws, out)
	total := 0
	for p := range raws {
		os.Remove(raws[p])
		total += crashes[p]
	}
	fmt.Printf("{\"events\":%d,\"traces\":%d,\"crashes\":%d}\n", nev, ntr, total)
}

func runRange(mode string, seed int64, from, n, nops, k int, raw string) int {
	crashes := 0
	for from < n {
		cmd := exec.Command(os.Args[0], "child", "-mode", mode, "-seed", fmt.Sprint(seed), "-from", fmt.Sprint(from), "-to", fmt.Sprint(n),
			"-ops", fmt.Sprint(nops), "-k", fmt.Sprint(k), "-out", raw)
		var stderr bytes.Buffer
		cmd.Stderr = &stderr
		cmd.Stdout = os.Stdout
		done := make(chan error, 1)
		if err := cmd.Start(); err != nil {
			panic(err)
		}
		go func() { done <- cmd.Wait() }()
		var err error
		what := "crash"
		select {
		case err = <-done:
		case <-time.After(time.Duration(180+(n-from)*2) * time.Second):
			cmd.Process.Kill()
			err = <-done
			what = "hang"
		}
		if err == nil {
			break
		}
		crashes++
		last := lastIdx(raw)
		site := crashSite(stderr.String())
		f, _ := os.OpenFile(raw, os.O_CREATE|os.O_WRONLY|os.O_APPEND, 0644)
		b, _ := json.Marshal(ev{"op": "crash", "what": what, "site": site})
		f.Write(append(b, '\n'))
		f.Close()
		if last < from {
			fmt.Fprintf(os.Stderr, "child failed before producing a trace:\n%s\n", stderr.String())
			os.Exit(3)
		}
		from = last + 1
		if crashes > 20 {
			fmt.Fprintln(os.Stderr, "too many child crashes")
			os.Exit(3)
		}
	}
	return crashes
}

func lastIdx(path string) int {
	f, err := os.Open(path)
	if err != nil {
		return -1
	}
	defer f.Close()
	sc := bufio.NewScanner(f)
	sc.Buffer(make([]byte, 1<<20), 1<<26)
	last := -1
	for sc.Scan() {
		if bytes.Contains(sc.Bytes(), []byte(`"op":"Init"`)) {
			var e struct{ Idx int }
			json.Unmarshal(sc.Bytes(), &e)
			last = e.Idx
		}
	}
	return last
}

func crashSite(stderr string) string {
	lines := strings.Split(stderr, "\n")
	head := ""
	for _, l := range lines {
		if strings.HasPrefix(l, "panic:") || strings.HasPrefix(l, "fatal error:") {
			head = l
			break
		}
	}
	site := ""
	for _, l := range lines {
		if strings.Contains(l, "github.com/cenkalti/rain/v2/torrent.") && !strings.Contains(l, "Verif") {
			site = strings.TrimSpace(l)
			if i := strings.Index(site, "("); i > 0 {
				site = site[:i]
			}
			break
		}
	}
	s := head + " @ " + site
	if len(s) > 200 {
		s = s[:200]
	}
	return s
}

// postprocess copies the outcome of every call into its call line (r_res, r_id, r_port, r_at: the trace specification
// looks ahead instead of guessing), drops the sequence numbers' gaps and guarantees that every line has the fields
// the specification reads.
func postprocess(raws []string, out string) (int, int) {
	var evs []ev
	for _, raw := range raws {
		f, err := os.Open(raw)
		if err != nil {
			continue
		}
		sc := bufio.NewScanner(f)
		sc.Buffer(make([]byte, 1<<20), 1<<28)
		for sc.Scan() {
			var e ev
			d := json.NewDecoder(bytes.NewReader(sc.Bytes()))
			d.UseNumber()
			if d.Decode(&e) != nil {
				continue // a torn last line of a crashed child
			}
			evs = append(evs, e)
		}
		f.Close()
	}
	ntr := 0
	for i, e := range evs {
		if e["op"] == "Init" {
			ntr++
		}
		if e["op"] != "call" {
			continue
		}
		e["r_res"], e["r_id"], e["r_port"], e["r_at"] = "crash", "", 0, "0"
		if e["name"] == "Compact" {
			e["loaded"], e["linvalid"] = []ev{}, []string{}
		}
		for j := i + 1; j < len(evs); j++ {
			o := evs[j]
			if o["op"] == "Init" || o["op"] == "crash" {
				break
			}
			if o["op"] == "ret" && fmt.Sprint(o["g"]) == fmt.Sprint(e["g"]) {
				e["r_res"], e["r_id"], e["r_port"], e["r_at"] = o["res"], o["id"], o["port"], o["at"]
				if e["name"] == "Compact" {
					e["loaded"], e["linvalid"] = o["loaded"], o["linvalid"]
				}
				break
			}
		}
	}
	w, err := os.Create(out)
	if err != nil {
		panic(err)
	}
	bw := bufio.NewWriterSize(w, 1<<20)
	for _, e := range evs {
		b, _ := json.Marshal(e)
		bw.Write(b)
		bw.WriteByte('\n')
	}
	bw.Flush()
	w.Close()
	return len(evs), ntr
}

func main() {
	if len(os.Args) < 2 {
		fmt.Fprintln(os.Stderr, "usage: c14 run|child|codec ...")
		os.Exit(2)
	}
	fs := flag.NewFlagSet(os.Args[1], flag.ExitOnError)
	mode := fs.String("mode", "seq", "")
	seed := fs.Int64("seed", 1, "")
	n := fs.Int("n", 10, "")
	from := fs.Int("from", 0, "")
	to := fs.Int("to", 0, "")
	nops := fs.Int("ops", 12, "ops per sequence / rounds per burst trace")
	k := fs.Int("k", 2, "concurrent callers")
	par := fs.Int("par", 1, "children side by side")
	out := fs.String("out", "trace.ndjson", "")
	cases := fs.String("cases", "", "")
	fs.Parse(os.Args[2:])
	switch os.Args[1] {
	case "run":
		run(*mode, *seed, *n, *nops, *k, *par, *out)
	case "child":
		child(*mode, *seed, *from, *to, *nops, *k, *out)
	case "codec":
		codec(*cases, *out)
	default:
		fmt.Fprintln(os.Stderr, "unknown sub-command")
		os.Exit(2)
	}
}
