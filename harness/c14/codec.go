package main

import (
	"bufio"
	"bytes"
	"encoding/json"
	"fmt"
	"math"
	"os"
	"reflect"
	"time"

	"github.com/cenkalti/rain/v2/internal/resumer/boltdbresumer"
	"go.etcd.io/bbolt"
)

// ---------------------------------------------------------------------------------------------
// resumer field codec: value classes are chosen by TLC (MC_Session_codec), materialised here

type codecCase struct {
	Trk, Url, Fp, Name, Info, Bf, At, Dl, Ul, Wa, Sf, Ver, Port int
	St, Sad, Sam, Ccr, Sq                                     bool
}

var (
	trkClasses = [][][]string{
		nil,
		{},
		{{"http://a/announce"}},
		{{"http://a/announce", "udp://b:1"}, {"https://c/x?y=1&z=2"}},
		{{"http://a/announce"}, {}},
		{{"http://trackér.example/ännounce<&> "}},
		{{"http://a/\xff\xfe/announce"}},
	}
	listClasses = [][]string{nil, {}, {"http://w/1"}, {"http://w/1", "http://w/ü<&>"}, {"http://w/\xff"}}
	nameClasses = []string{"", "plain name", "τορρεντ 名前   <&>\"\\", "bad\xff\x00utf8"}
	infoClasses = [][]byte{nil, {}, []byte("d6:lengthi1e4:name1:\x00\xffe")}
	bfClasses   = [][]byte{nil, {}, {0x80}, {0xff, 0x80}}
	atClasses   = []time.Time{
		{},
		time.Unix(1700000000, 0).UTC(),
		time.Unix(1700000000, 987654321).UTC(),
		time.Unix(1700000000, 500000000).In(time.FixedZone("x", 5*3600+1800)),
		time.Unix(1700000000, 1).In(time.FixedZone("y", -7*3600)),
	}
	cntClasses = []int64{0, 1, math.MaxInt64, 1<<53 + 1}
	sfClasses  = []time.Duration{0, 1, 1500 * time.Millisecond, math.MaxInt64, 90*time.Minute + 1}
	verClasses = []int{0, 1, 2, 3}
	portClasses = []int{0, 1, 65535, 50001}
)

func (c codecCase) spec() *boltdbresumer.Spec {
	ih := bytes.Repeat([]byte{0xab}, 20)
	return &boltdbresumer.Spec{
		InfoHash: ih, Port: portClasses[c.Port], Name: nameClasses[c.Name], Trackers: trkClasses[c.Trk], URLList: listClasses[c.Url],
		FixedPeers: listClasses[c.Fp], Info: infoClasses[c.Info], Bitfield: bfClasses[c.Bf], AddedAt: atClasses[c.At],
		BytesDownloaded: cntClasses[c.Dl], BytesUploaded: cntClasses[c.Ul], BytesWasted: cntClasses[c.Wa], SeededFor: sfClasses[c.Sf],
		Started: c.St, StopAfterDownload: c.Sad, StopAfterMetadata: c.Sam, CompleteCmdRun: c.Ccr, Sequential: c.Sq, Version: verClasses[c.Ver],
	}
}

func eqTiers(a, b [][]string) bool {
	if len(a) != len(b) {
		return false
	}
	for i := range a {
		if !eqList(a[i], b[i]) {
			return false
		}
	}
	return true
}

func eqList(a, b []string) bool {
	if len(a) != len(b) {
		return false
	}
	for i := range a {
		if a[i] != b[i] {
			return false
		}
	}
	return true
}

// diff lists the fields of got that differ from want. nil and empty slices are the same value; sec = AddedAt is compared at
// the stored granularity (whole seconds); version 0 is stored as the latest version.
func diff(want, got *boltdbresumer.Spec, sec bool) []string {
	d := []string{}
	add := func(ok bool, f string) {
		if !ok {
			d = append(d, f)
		}
	}
	add(bytes.Equal(want.InfoHash, got.InfoHash), "InfoHash")
	add(want.Port == got.Port, "Port")
	add(want.Name == got.Name, "Name")
	add(eqTiers(want.Trackers, got.Trackers), "Trackers")
	add(eqList(want.URLList, got.URLList), "URLList")
	add(eqList(want.FixedPeers, got.FixedPeers), "FixedPeers")
	add(bytes.Equal(want.Info, got.Info), "Info")
	add(bytes.Equal(want.Bitfield, got.Bitfield), "Bitfield")
	if sec {
		add(want.AddedAt.Unix() == got.AddedAt.Unix(), "AddedAt")
	} else {
		add(want.AddedAt.Equal(got.AddedAt), "AddedAt")
	}
	add(want.BytesDownloaded == got.BytesDownloaded, "BytesDownloaded")
	add(want.BytesUploaded == got.BytesUploaded, "BytesUploaded")
	add(want.BytesWasted == got.BytesWasted, "BytesWasted")
	add(want.SeededFor == got.SeededFor, "SeededFor")
	add(want.Started == got.Started, "Started")
	add(want.StopAfterDownload == got.StopAfterDownload, "StopAfterDownload")
	add(want.StopAfterMetadata == got.StopAfterMetadata, "StopAfterMetadata")
	add(want.CompleteCmdRun == got.CompleteCmdRun, "CompleteCmdRun")
	add(want.Sequential == got.Sequential, "Sequential")
	wv := want.Version
	if wv == 0 && sec {
		wv = boltdbresumer.LatestVersion
	}
	add(wv == got.Version, "Version")
	return d
}

func codec(casesPath, out string) {
	f, err := os.Open(casesPath)
	if err != nil {
		panic(err)
	}
	defer f.Close()
	dir, err := os.MkdirTemp("/var/tmp", "c14codec-")
	if err != nil {
		panic(err)
	}
	defer os.RemoveAll(dir)
	db, err := bbolt.Open(dir+"/r.db", 0600, &bbolt.Options{NoSync: true})
	if err != nil {
		panic(err)
	}
	defer db.Close()
	res, err := boltdbresumer.New(db, []byte("torrents"))
	if err != nil {
		panic(err)
	}
	w, err := os.Create(out)
	if err != nil {
		panic(err)
	}
	bw := bufio.NewWriterSize(w, 1<<20)
	bw.WriteString("{\"op\":\"Init\",\"idx\":0,\"range\":[1],\"mode\":\"codec\",\"rpc\":false}\n")
	sc := bufio.NewScanner(f)
	sc.Buffer(make([]byte, 1<<20), 1<<26)
	n := 0
	for sc.Scan() {
		var raw map[string]any
		if json.Unmarshal(sc.Bytes(), &raw) != nil {
			continue
		}
		var c codecCase
		b, _ := json.Marshal(raw)
		json.Unmarshal(b, &c) // field names match case-insensitively
		n++
		id := fmt.Sprintf("t%d", n)
		line := ev{"op": "Codec", "n": n, "case": raw, "err": "", "neq": []string{}, "jneq": []string{}, "pneq": []string{}, "oneq": []string{}}
		func() {
			defer func() {
				if r := recover(); r != nil {
					line["err"] = "panic: " + fmt.Sprint(r)
				}
			}()
			want := c.spec()
			if err := res.Write(id, want); err != nil {
				line["err"] = "write: " + err.Error()
				return
			}
			got, err := res.Read(id)
			if err != nil {
				line["err"] = "read: " + err.Error()
				return
			}
			line["neq"] = diff(want, got, true)
			// Write over an EXISTING bucket (the record of a previous owner of the id, every value non-empty): the record
			// reads back equal to what was written last - nothing of the previous owner shows through
			oid := fmt.Sprintf("o%d", n)
			prev := codecCase{Trk: 3, Url: 3, Fp: 3, Name: 2, Info: 2, Bf: 3, At: 2, Dl: 2, Ul: 3, Wa: 1, Sf: 2, Ver: 1, Port: 2, St: !c.St, Sad: !c.Sad, Sam: !c.Sam, Ccr: !c.Ccr, Sq: !c.Sq}
			if err := res.Write(oid, prev.spec()); err != nil {
				line["err"] = "write-prev: " + err.Error()
				return
			}
			if err := res.Write(oid, want); err != nil {
				line["err"] = "overwrite: " + err.Error()
				return
			}
			got2, err := res.Read(oid)
			if err != nil {
				line["err"] = "read-overwritten: " + err.Error()
				return
			}
			line["oneq"] = diff(want, got2, true)
			// partial writers: each changes exactly its own keys
			exp := *got
			pneq := []string{}
			step := func(name string, err error, mut func(s *boltdbresumer.Spec)) {
				if err != nil {
					pneq = append(pneq, name+":err")
					return
				}
				mut(&exp)
				g2, err := res.Read(id)
				if err != nil {
					pneq = append(pneq, name+":read")
					return
				}
				for _, f := range diff(&exp, g2, false) {
					pneq = append(pneq, name+":"+f)
				}
			}
			nb := bfClasses[(c.Bf+1)%len(bfClasses)]
			step("WriteBitfield", res.WriteBitfield(id, nb), func(s *boltdbresumer.Spec) { s.Bitfield = nb })
			ni := infoClasses[(c.Info+1)%len(infoClasses)]
			step("WriteInfo", res.WriteInfo(id, ni), func(s *boltdbresumer.Spec) { s.Info = ni })
			step("WriteStarted", res.WriteStarted(id, !c.St), func(s *boltdbresumer.Spec) { s.Started = !c.St })
			step("HandleStopAfterDownload", res.HandleStopAfterDownload(id), func(s *boltdbresumer.Spec) { s.Started, s.StopAfterDownload = false, false })
			step("WriteStarted2", res.WriteStarted(id, true), func(s *boltdbresumer.Spec) { s.Started = true })
			step("HandleStopAfterMetadata", res.HandleStopAfterMetadata(id), func(s *boltdbresumer.Spec) { s.Started, s.StopAfterMetadata = false, false })
			step("WriteCompleteCmdRun", res.WriteCompleteCmdRun(id), func(s *boltdbresumer.Spec) { s.CompleteCmdRun = true })
			// a writer addressed to a torrent that is not in the database must not create a record
			if err := res.WriteStarted(id+"-absent", true); err != nil {
				pneq = append(pneq, "absent:err")
			}
			if _, err := res.Read(id + "-absent"); err == nil {
				pneq = append(pneq, "absent:created")
			}
			line["pneq"] = pneq
			// JSON form (used by Move): exact, including sub-second AddedAt
			jb, err := json.Marshal(want)
			if err != nil {
				line["jneq"] = []string{"marshal:" + err.Error()}
				return
			}
			var back boltdbresumer.Spec
			if err := json.Unmarshal(jb, &back); err != nil {
				line["jneq"] = []string{"unmarshal"}
				return
			}
			line["jneq"] = diff(want, &back, false)
			_ = reflect.DeepEqual
		}()
		jb, _ := json.Marshal(line)
		bw.Write(jb)
		bw.WriteByte('\n')
	}
	bw.Flush()
	w.Close()
	fmt.Printf("{\"cases\":%d}\n", n)
}
