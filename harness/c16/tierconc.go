package main

// Tier-level concurrent histories: the REAL tracker.Tier is called from several goroutines ("lanes"); the scripted members
// hold every call at a rendezvous, so each recorded line is one atomic step of the Tier:
//
//	tl  the call of lane s has loaded the tier index and reached member k
//	tr  the call of lane s has returned (ok / error), i.e. the tier's advance rule has run
//
// Every linearised history over `lanes` lanes up to `depth` steps is enumerated (a lane may start a call, a running call may
// end ok or with an error), for tiers of 2 and 3 members; overlapping calls that fail on the same member are part of them.

import (
	"context"
	"errors"
	"fmt"

	"github.com/cenkalti/rain/v2/internal/tracker"
	"github.com/cenkalti/rain/v2/internal/verif/annh"
)

type rvArrival struct{ lane, k int }

type rvMember struct {
	k   int
	arr chan rvArrival
	rel []chan bool // per lane: outcome
}

func (m *rvMember) URL() string { return fmt.Sprintf("stub://rv%d", m.k) }

func (m *rvMember) Announce(ctx context.Context, req tracker.AnnounceRequest) (*tracker.AnnounceResponse, error) {
	lane := req.NumWant
	m.arr <- rvArrival{lane, m.k}
	if <-m.rel[lane] {
		return &tracker.AnnounceResponse{}, nil
	}
	return nil, errors.New("scripted failure")
}

type tstep struct {
	lane int
	op   byte // 's' start, 'o' end ok, 'f' end with error
}

func enumHistories(lanes, depth int) [][]tstep {
	var out [][]tstep
	var rec func(cur []tstep, busy []bool)
	rec = func(cur []tstep, busy []bool) {
		if len(cur) > 0 {
			out = append(out, append([]tstep(nil), cur...))
		}
		if len(cur) == depth {
			return
		}
		started := false
		for l := 1; l <= lanes; l++ {
			if busy[l] {
				for _, op := range []byte{'o', 'f'} {
					busy[l] = false
					rec(append(cur, tstep{l, op}), busy)
					busy[l] = true
				}
			} else if !started { // lanes are interchangeable: only the lowest free one starts
				started = true
				busy[l] = true
				rec(append(cur, tstep{l, 's'}), busy)
				busy[l] = false
			}
		}
	}
	rec(nil, make([]bool, lanes+1))
	// keep maximal histories only (every prefix is contained in a longer one) plus those that cannot be extended
	var keep [][]tstep
	for _, h := range out {
		if len(h) == depth {
			keep = append(keep, h)
		}
	}
	return keep
}

func runTierConc(name string, lanes, depth int, sizes []int) *annh.Sc {
	sc := annh.NewSc(name, "tierconc")
	sc.Cmin = 1000
	sc.Tor = []annh.TorCfg{{IH: "00", PID: "00", Port: 1, Total: 1, Left0: 1}}
	sc.Trk = []annh.TrkCfg{{Dest: 1, Up0: true}, {Dest: 2, Up0: true}, {Dest: 3, Up0: true}, {Dest: 4, Up0: true}}
	sc.Ann = []annh.AnnCfg{{T: 1, Ks: []int{1, 2, 3, 4}}}
	sc.Meta["lanes"], sc.Meta["depth"] = lanes, depth
	hs := enumHistories(lanes, depth)
	now := 0
	line := func(op string, kv map[string]any) {
		now++
		kv["now"] = now
		sc.Line(op, kv)
	}
	nh := 0
	for _, nm := range sizes {
		for _, h := range hs {
			nh++
			arr := make(chan rvArrival)
			var members []tracker.Tracker
			var rv []*rvMember
			for j := 0; j < nm; j++ {
				m := &rvMember{k: j + 1, arr: arr, rel: make([]chan bool, lanes+1)}
				for l := range m.rel {
					m.rel[l] = make(chan bool)
				}
				rv = append(rv, m)
				members = append(members, m)
			}
			tier := tracker.NewTier(members) // shuffles: the real order is read back
			var order []int
			for _, t := range tier.Trackers {
				order = append(order, t.(*rvMember).k)
			}
			line("tnew", map[string]any{"ks": order, "h": nh})
			done := make([]chan error, lanes+1)
			at := make([]*rvMember, lanes+1)
			for _, st := range h {
				switch st.op {
				case 's':
					done[st.lane] = make(chan error, 1)
					go func(l int) {
						_, err := tier.Announce(context.Background(), tracker.AnnounceRequest{NumWant: l})
						done[l] <- err
					}(st.lane)
					a := <-arr
					at[a.lane] = rv[a.k-1]
					line("tl", map[string]any{"slot": a.lane, "k": a.k})
				default:
					at[st.lane].rel[st.lane] <- st.op == 'o'
					err := <-done[st.lane]
					line("tr", map[string]any{"slot": st.lane, "ok": err == nil})
				}
			}
			// let the calls that are still held go (their effect is not recorded any more)
			for l := 1; l <= lanes; l++ {
				if at[l] != nil && done[l] != nil && len(done[l]) == 0 {
					select {
					case at[l].rel[l] <- true:
						<-done[l]
					default:
					}
				}
			}
		}
	}
	sc.Meta["histories"] = nh
	now++
	sc.Line("end", map[string]any{"now": now})
	return sc
}
