// Command c16: tier fail-over, retry after announces that end without a reply, reply robustness.
//
//	-mode run        announcer-level scenarios (real tracker.Tier + PeriodicalAnnouncer over scripted members), real Sessions
//	                 sharing one UDP tracker, session-level tiers (thorough), and the reply fuzz (in child processes)
//	-mode fuzzchild  (internal) runs fuzz cases [from,to) against the real HTTP/UDP tracker clients
//
// Output: ndjson for spec/Trace_Announce.tla.
package main

import (
	"context"
	"encoding/hex"
	"encoding/json"
	"errors"
	"flag"
	"fmt"
	"math/rand"
	"net"
	"os"
	"sync"
	"sync/atomic"
	"time"

	"github.com/cenkalti/rain/v2/internal/announcer"
	"github.com/cenkalti/rain/v2/internal/logger"
	"github.com/cenkalti/rain/v2/internal/tracker"
	"github.com/cenkalti/rain/v2/internal/trackermanager"
	"github.com/cenkalti/rain/v2/internal/verif/annh"
	"github.com/cenkalti/rain/v2/internal/verif/vh"
	"github.com/cenkalti/rain/v2/torrent"
)

// ---------------------------------------------------------------------------------------------------------------------
// announcer level

const (
	unitMs = 200 // one tracker interval unit
	cminMs = 200
	boMs   = 300 // shimmed initial back-off (randomised 150..450 ms, multiplier 1)
)

// member is a scripted tier member: a tracker.Tracker whose n-th announce is answered according to pat[n].
//
//	O ok   F error   E tracker failure reason   T slow error (400 ms)   C context.Canceled that the announcer did not ask for
type member struct {
	sc  *annh.Sc
	k   int
	g   *gpat // shared pattern indexed by the announce ordinal of the whole tier (nil: own pattern)
	pat string
	mu  sync.Mutex
	n   int
	iv  []int64 // interval units of the ok replies, cycled
	miv []int64
}

type gpat struct {
	pat string
	n   atomic.Int64
}

func (m *member) URL() string { return fmt.Sprintf("stub://member%d", m.k) }

func (m *member) kindAt(i int) byte {
	if i >= len(m.pat) {
		i = len(m.pat) - 1
	}
	return m.pat[i]
}

func evName(e tracker.Event) string {
	s := e.String()
	if s == "empty" {
		return "none"
	}
	return s
}

func (m *member) Announce(ctx context.Context, req tracker.AnnounceRequest) (*tracker.AnnounceResponse, error) {
	at := time.Now()
	m.mu.Lock()
	m.n++
	n := m.n
	m.mu.Unlock()
	kind := m.kindAt(n - 1)
	nxt := m.kindAt(n) == 'O'
	if m.g != nil { // TLC-generated pattern over the tier's announces; afterwards everybody answers
		i := int(m.g.n.Add(1)) - 1
		kind, nxt = 'O', false
		if i < len(m.g.pat) {
			kind = m.g.pat[i]
		}
	}
	tt := req.Torrent
	line := map[string]any{"k": m.k, "t": 1, "ev": evName(req.Event), "ih": hex.EncodeToString(tt.InfoHash[:]), "pid": hex.EncodeToString(tt.PeerID[:]),
		"port": tt.Port, "up": tt.BytesUploaded, "down": tt.BytesDownloaded, "left": tt.BytesLeft, "now": m.sc.Ms(at), "tp": "stub", "n": n, "nxt": nxt,
		"kind": string(kind)}
	iv, miv := int64(0), int64(0)
	res, dur := "fail", 0
	switch kind {
	case 'O':
		res = "ok"
		iv, miv = m.iv[(n-1)%len(m.iv)], m.miv[(n-1)%len(m.miv)]
	case 'T':
		dur = 400
	}
	line["res"], line["iv"], line["miv"], line["dur"] = res, iv, miv, dur
	m.sc.Line("ann", line)
	switch kind {
	case 'O':
		return &tracker.AnnounceResponse{Interval: time.Duration(iv*unitMs) * time.Millisecond, MinInterval: time.Duration(miv*unitMs) * time.Millisecond}, nil
	case 'E':
		return nil, &tracker.Error{FailureReason: "scripted"}
	case 'T':
		select {
		case <-time.After(400 * time.Millisecond):
			return nil, &net.OpError{Op: "read", Err: os.ErrDeadlineExceeded}
		case <-ctx.Done():
			return nil, ctx.Err()
		}
	case 'C':
		return nil, context.Canceled
	}
	return nil, errors.New("scripted failure")
}

// clientSide wraps a real tracker client (HTTP/UDP against a scripted server) and records every Announce call with the result the
// Tier is given: an attempt that dies before the server sees it (client time-out while the machine stalls) stays visible.
type clientSide struct {
	sc    *annh.Sc
	k     int
	tp    string
	inner tracker.Tracker
	n     atomic.Int64
	env   int // ms within which a call must have ended (before slack)
}

func (c *clientSide) URL() string { return c.inner.URL() }

func (c *clientSide) Announce(ctx context.Context, req tracker.AnnounceRequest) (*tracker.AnnounceResponse, error) {
	at := time.Now()
	n := c.n.Add(1)
	resp, err := c.inner.Announce(ctx, req)
	tt := req.Torrent
	line := map[string]any{"k": c.k, "t": 1, "ev": evName(req.Event), "ih": hex.EncodeToString(tt.InfoHash[:]), "pid": hex.EncodeToString(tt.PeerID[:]),
		"port": tt.Port, "up": tt.BytesUploaded, "down": tt.BytesDownloaded, "left": tt.BytesLeft, "now": c.sc.Ms(at), "tp": c.tp, "n": int(n), "nxt": false,
		"dur": int(time.Since(at) / time.Millisecond), "iv": 0, "miv": 0}
	if err != nil {
		line["res"], line["kind"] = "fail", "clienterr"
	} else {
		line["res"], line["kind"] = "ok", "ok"
		line["iv"], line["miv"] = int(resp.Interval/time.Second), int(resp.MinInterval/time.Second)
	}
	c.sc.Line("ann", line)
	// when the call came back (stamped now): the scripted servers of these families answer every request at once, so a call
	// must end - reply or error - within `env` (loopback connect + announce, or the HTTP client's time-out) plus the slack
	c.sc.Line("cret", map[string]any{"k": c.k, "t": 1, "n": int(n), "tp": c.tp, "dur": int(time.Since(at) / time.Millisecond), "env": c.env})
	return resp, err
}

type tierSpec struct {
	name  string
	kind  string
	pats  []string
	need  bool
	evs   []tev // timed events
	durMs int
	minAn int // stop early once this many announces were seen (0 = run for durMs)
	real  []string // "" stub | "http" | "udp": real tracker clients against scripted servers
	gpat  string   // TLC-generated answer pattern over the announces of the whole tier
	cid   []int    // real UDP members: class (index into annh.CidClasses) of the connection id of the first connect reply
}

type tev struct {
	atMs int
	op   string // need0 | need1 | complete
}

func randPat(rng *rand.Rand, n int, pOK float64, bad string) string {
	b := make([]byte, n)
	for i := range b {
		if rng.Float64() < pOK {
			b[i] = 'O'
		} else {
			b[i] = bad[rng.Intn(len(bad))]
		}
	}
	return string(b)
}

func genTier(seed int64, n int) []tierSpec {
	rng := rand.New(rand.NewSource(seed*104729 + 5))
	var out []tierSpec
	add := func(s tierSpec) {
		s.name = fmt.Sprintf("%s%d", s.kind, len(out)+1)
		out = append(out, s)
	}
	for len(out) < n {
		i := len(out)
		nm := 2 + rng.Intn(3)
		switch i % 9 {
		case 8: // the download completes while a slow, failing announce is in flight: the cancelled call and "completed" overlap on one member
			pats := make([]string, nm)
			for j := range pats {
				pats[j] = "TTTTTTTTTTTTO"
			}
			evs := []tev{{atMs: 250 + rng.Intn(900), op: "complete"}}
			add(tierSpec{kind: "overlap", pats: pats, need: true, evs: evs, durMs: 6000, minAn: nm + 6})
		case 0: // everybody fails for more than three full cycles, then one member starts answering
			pats := make([]string, nm)
			up := rng.Intn(nm)
			for j := range pats {
				pats[j] = "FFFFF"
				if j == up {
					pats[j] = "FFFO"
				}
			}
			add(tierSpec{kind: "allfail", pats: pats, need: true, durMs: 9000, minAn: 3*nm + 4})
		case 1: // one member answers from the start, the others never
			pats := make([]string, nm)
			up := rng.Intn(nm)
			for j := range pats {
				pats[j] = "F"
				if j == up {
					pats[j] = "O"
				}
			}
			add(tierSpec{kind: "oneup", pats: pats, need: true, durMs: 6000, minAn: nm + 6})
		case 2, 3: // random up/down patterns (errors, failure reasons, slow errors)
			pats := make([]string, nm)
			for j := range pats {
				pats[j] = randPat(rng, 10, 0.35, "FFET") + "F"
			}
			pats[rng.Intn(nm)] += "O"
			add(tierSpec{kind: "random", pats: pats, need: rng.Intn(3) > 0, durMs: 9000, minAn: 4*nm + 4})
		case 4: // a cancellation the announcer did not ask for (what a cancelled shared UDP connect delivers)
			pats := make([]string, nm)
			for j := range pats {
				pats[j] = []string{"CO", "FCO", "OCO"}[rng.Intn(3)]
			}
			add(tierSpec{kind: "foreigncancel", pats: pats, need: true, durMs: 8000, minAn: nm + 5})
		case 5: // single tracker with errors and events (need more peers toggles, completion)
			evs := []tev{{atMs: 300 + rng.Intn(500), op: "need0"}, {atMs: 1000 + rng.Intn(400), op: "complete"}, {atMs: 1600 + rng.Intn(300), op: "need1"}}
			add(tierSpec{kind: "single", pats: []string{randPat(rng, 8, 0.5, "FET") + "O"}, need: true, evs: evs, durMs: 5000, minAn: 9})
		case 6: // real HTTP/UDP tracker clients as members (scripted servers)
			real := make([]string, nm)
			pats := make([]string, nm)
			for j := range real {
				real[j] = []string{"http", "udp"}[rng.Intn(2)]
				pats[j] = randPat(rng, 6, 0.3, "FG") + "O"
			}
			add(tierSpec{kind: "realtier", pats: pats, real: real, need: true, durMs: 9000, minAn: 3*nm + 3})
		case 7: // long run of one tier: many cycles
			pats := make([]string, nm)
			for j := range pats {
				pats[j] = randPat(rng, 30, 0.2, "FE") + "F"
			}
			add(tierSpec{kind: "long", pats: pats, need: true, durMs: 12000, minAn: 6*nm + 6})
		}
	}
	return out
}

// genConn: real UDP tracker clients (one transport, one connect per member) whose scripted servers hand out connection ids of
// every class - BEP 15 reserves no value, 0 included - and answer a mixed ok / error-packet / garbage pattern, so that many
// announces (periodic ones and back-off retries) run over ONE LIVE connection: every one of them must end and be followed by
// the next one within the envelope (C16.retry), whatever bits the connection id has.
func genConn(seed int64, n int) []tierSpec {
	rng := rand.New(rand.NewSource(seed*15485863 + 11))
	var out []tierSpec
	for i := 0; i < n; i++ {
		nm := 1 + rng.Intn(2)
		sp := tierSpec{kind: "udpconn", name: fmt.Sprintf("udpconn%d", i+1), need: true, durMs: 9000, minAn: 3*nm + 4}
		for j := 0; j < nm; j++ {
			sp.real = append(sp.real, "udp")
			sp.pats = append(sp.pats, randPat(rng, 5, 0.6, "FG")+"O")
			sp.cid = append(sp.cid, (i+3*j)%len(annh.CidClasses))
		}
		if i%4 == 3 { // an HTTP member in the same tier: the UDP member is revisited after a fail-over cycle
			sp.real, sp.pats, sp.cid = append(sp.real, "http"), append(sp.pats, "FO"), append(sp.cid, -1)
		}
		out = append(out, sp)
	}
	return out
}

func runTier(sp tierSpec, stall *stallMeter) *annh.Sc {
	sc := annh.NewSc(sp.name, sp.kind)
	sc.Unit, sc.Cmin, sc.Bo, sc.Lat, sc.Slk, sc.Gslack = unitMs, cminMs, boMs, 500, 4000, 1000
	s0 := stall.mark()
	var ih, pid [20]byte
	copy(ih[:], "c16-infohash-"+sp.name)
	copy(pid[:], "-RN0000-"+sp.name+"............")
	sc.Tor = []annh.TorCfg{{IH: hex.EncodeToString(ih[:]), PID: hex.EncodeToString(pid[:]), Port: 6881, Total: 1000, Left0: 1000, Dmax: 1000}}
	var members []tracker.Tracker
	var count func() int
	var closers []func()
	defer func() {
		for _, c := range closers {
			c()
		}
	}()
	var ks []int
	var sharedG *gpat
	if sp.real == nil {
		var ms []*member
		for j, p := range sp.pats {
			m := &member{sc: sc, k: j + 1, pat: p, iv: []int64{1, 2, 1, 3}, miv: []int64{0, 1, 0, 0}}
			if sp.gpat != "" {
				if j == 0 {
					sharedG = &gpat{pat: sp.gpat}
				}
				m.g = sharedG
			}
			ms = append(ms, m)
			members = append(members, m)
			ks = append(ks, j+1)
			sc.Trk = append(sc.Trk, annh.TrkCfg{Dest: j + 1, Up0: p[0] == 'O' && sp.gpat == ""})
		}
		count = func() int {
			c := 0
			for _, m := range ms {
				m.mu.Lock()
				c += m.n
				m.mu.Unlock()
			}
			return c
		}
	} else {
		sc.Unit, sc.Cmin = 1000, 600
		sc.HTTPTO = 2000
		tm := trackermanager.New(nil, time.Second, true)
		closers = append(closers, tm.Close)
		var ts []*annh.Trk
		for j, p := range sp.pats {
			pat := p
			plan := func(n int, r vh.AnnReq) annh.Rep {
				at := func(i int) byte {
					if i >= len(pat) {
						i = len(pat) - 1
					}
					return pat[i]
				}
				up := at(n) == 'O'
				switch at(n - 1) {
				case 'O':
					return annh.Rep{Kind: "ok", IV: vh.I64(1), Up: up}
				case 'G':
					return annh.Rep{Kind: "garbage", Up: up}
				}
				return annh.Rep{Kind: "fail", Up: up}
			}
			k, err := annh.NewTrk(sc, j+1, sp.real[j] == "udp", plan)
			if err != nil {
				sc.Fail("tracker: %v", err)
				return sc
			}
			k.TorOf = 1
			k.Quiet = true // recorded on the client side (see clientSide)
			if sp.cid != nil {
				k.CidOff = sp.cid[j]
			}
			closers = append(closers, k.Close)
			ts = append(ts, k)
			m, err := tm.Get(k.URL(), 2*time.Second, "c16", 1<<20)
			if err != nil {
				sc.Fail("get: %v", err)
				return sc
			}
			env := sc.Lat
			if sp.real[j] == "http" {
				env += sc.HTTPTO
			}
			members = append(members, &clientSide{sc: sc, k: j + 1, tp: sp.real[j], inner: m, env: env})
			ks = append(ks, j+1)
			sc.Trk = append(sc.Trk, annh.TrkCfg{UDP: sp.real[j] == "udp", Dest: j + 1, Up0: false})
		}
		count = func() int {
			c := 0
			for _, k := range ts {
				c += int(k.Count.Load())
			}
			return c
		}
	}
	sc.Ann = []annh.AnnCfg{{T: 1, Ks: ks}}
	sc.Meta["pats"] = sp.pats
	if sp.gpat != "" {
		sc.Meta["gpat"] = sp.gpat
	}
	tier := tracker.NewTier(members) // shuffles
	completedC := make(chan struct{})
	newPeers := make(chan []*net.TCPAddr)
	stopDrain := make(chan struct{})
	go func() {
		for {
			select {
			case <-newPeers:
			case <-stopDrain:
				return
			}
		}
	}()
	defer close(stopDrain)
	var down atomic.Int64
	getTorrent := func() tracker.Torrent {
		d := down.Load()
		return tracker.Torrent{InfoHash: ih, PeerID: pid, Port: 6881, BytesDownloaded: d, BytesLeft: 1000 - d}
	}
	minIv := time.Duration(sc.Cmin) * time.Millisecond
	a := announcer.NewPeriodicalAnnouncer(tier, 50, minIv, getTorrent, completedC, newPeers, logger.New("c16"))
	announcer.VerifSetBackoff(a, boMs*time.Millisecond, boMs*time.Millisecond, 1.0)
	sc.Line("start", map[string]any{"t": 1})
	go a.Run()
	if sp.need {
		a.NeedMorePeers(true)
	}
	t0 := time.Now()
	ei := 0
	for {
		el := int(time.Since(t0) / time.Millisecond)
		if sp.minAn > 0 && count() >= sp.minAn && ei >= len(sp.evs) {
			break
		}
		// (udpconn: the window grows with the time the machine demonstrably lost, like the slack of the deadlines does, so that a
		// call that never ends stays distinguishable from a slow one on a loaded machine)
		if el >= sp.durMs && (sp.kind != "udpconn" || el >= sp.durMs+min(2*stall.since(s0), 20000)) {
			break
		}
		if ei < len(sp.evs) && el >= sp.evs[ei].atMs {
			switch sp.evs[ei].op {
			case "need0":
				sc.Line("need", map[string]any{"t": 1, "v": false})
				a.NeedMorePeers(false)
			case "need1":
				sc.Line("need", map[string]any{"t": 1, "v": true})
				a.NeedMorePeers(true)
			case "complete":
				down.Store(1000)
				sc.Line("complete", map[string]any{"t": 1})
				close(completedC)
			}
			ei++
		}
		time.Sleep(5 * time.Millisecond)
		sc.Line("tick", nil)
		time.Sleep(45 * time.Millisecond)
	}
	sc.Meta["status"] = announcer.VerifStatus(a)
	sc.Line("stop", map[string]any{"t": 1})
	a.Close()
	sc.Line("end", nil)
	sc.Slk += 2 * stall.since(s0)
	sc.Meta["stall_ms"] = stall.since(s0)
	return sc
}

// ---------------------------------------------------------------------------------------------------------------------
// scheduling-stall meter: deadlines (upper bounds) are extended by what the machine demonstrably lost

type stallMeter struct {
	mu   sync.Mutex
	hist []int // per 100 ms slot: worst oversleep (ms) seen
	t0   time.Time
}

func newStallMeter() *stallMeter {
	s := &stallMeter{t0: time.Now()}
	go func() {
		for {
			a := time.Now()
			time.Sleep(10 * time.Millisecond)
			over := int(time.Since(a)/time.Millisecond) - 10
			slot := int(time.Since(s.t0) / (100 * time.Millisecond))
			s.mu.Lock()
			for len(s.hist) <= slot {
				s.hist = append(s.hist, 0)
			}
			if over > s.hist[slot] {
				s.hist[slot] = over
			}
			s.mu.Unlock()
		}
	}()
	return s
}

func (s *stallMeter) mark() int { return int(time.Since(s.t0) / (100 * time.Millisecond)) }

// since returns the sum of the worst stalls of every 100 ms slot since mark (an upper estimate of lost time), capped.
func (s *stallMeter) since(mark int) int {
	s.mu.Lock()
	defer s.mu.Unlock()
	sum := 0
	for i := mark; i < len(s.hist); i++ {
		if s.hist[i] > 20 {
			sum += s.hist[i]
		}
	}
	if sum > 60000 {
		sum = 60000
	}
	return sum
}

// worst single stall (ms) since mark
func (s *stallMeter) maxSince(mark int) int {
	s.mu.Lock()
	defer s.mu.Unlock()
	mx := 0
	for i := mark; i < len(s.hist); i++ {
		if s.hist[i] > mx {
			mx = s.hist[i]
		}
	}
	return mx
}

// ---------------------------------------------------------------------------------------------------------------------
// session level: two real torrents share one UDP tracker connection

type shareSpec struct {
	name    string
	variant string // ownerstops | waiterstops | nostop | latejoin (the second torrent starts on the LIVE connection; both re-announce on it)
	delayMs int
	cid     int // class of the connection id (index into annh.CidClasses; -1: derived from the names)
}

func runShare(sp shareSpec, root string, seed int64, stall *stallMeter) *annh.Sc {
	sc := annh.NewSc(sp.name, "udpshare")
	sc.Cmin, sc.Lat, sc.Slk = 800, sp.delayMs+500, 4000
	sc.Meta["variant"] = sp.variant
	s0 := stall.mark()
	env, err := annh.NewEnv(root, func(c *torrent.Config) {
		c.TrackerMinAnnounceInterval = 800 * time.Millisecond
		c.TrackerStopTimeout = 500 * time.Millisecond
	})
	if err != nil {
		sc.Fail("session: %v", err)
		return sc
	}
	defer env.Close()
	late := sp.variant == "latejoin"
	k, err := annh.NewTrk(sc, 1, true, func(n int, r vh.AnnReq) annh.Rep {
		if late { // short interval: the torrents (they need peers) re-announce every TrackerMinAnnounceInterval on the live connection
			return annh.OK(vh.I64(1), nil)
		}
		return annh.OK(vh.I64(1800), nil)
	})
	if err != nil {
		sc.Fail("tracker: %v", err)
		return sc
	}
	defer k.Close()
	k.CidOff = sp.cid
	connSeen := make(chan struct{}, 16)
	k.OnConnect = func(n int) (bool, time.Duration) {
		select {
		case connSeen <- struct{}{}:
		default:
		}
		if n == 1 {
			return true, time.Duration(sp.delayMs) * time.Millisecond
		}
		return true, 0
	}
	sc.Trk = []annh.TrkCfg{{UDP: true, Dest: 1, Up0: true}}
	sc.Ann = []annh.AnnCfg{{T: 1, Ks: []int{1}}, {T: 2, Ks: []int{1}}}
	var trs []*torrent.Torrent
	for i := 0; i < 2; i++ {
		tor := annh.SmallTorrent(fmt.Sprintf("c16-%s-%d", sp.name, i), 40000, seed*10+int64(i), [][]string{{k.URL()}})
		tr, err := env.Add(tor, fmt.Sprintf("t%d-%s", i, sp.name), true, false)
		if err != nil {
			sc.Fail("add: %v", err)
			return sc
		}
		sc.Tor = append(sc.Tor, annh.TorCfg{IH: hex.EncodeToString(tor.InfoHash[:]), Port: tr.Port(), Total: tor.Total, Left0: tor.Total})
		trs = append(trs, tr)
	}
	start := func(i int) bool {
		sc.Line("start", map[string]any{"t": i + 1})
		if err := trs[i].Start(); err != nil {
			sc.Fail("start: %v", err)
			return false
		}
		return true
	}
	if !start(0) {
		return sc
	}
	select {
	case <-connSeen:
	case <-time.After(5 * time.Second):
		sc.Fail("no connect request seen")
		return sc
	}
	if late && !annh.WaitUntil(time.Duration(sp.delayMs+5000)*time.Millisecond, func() bool { return k.Count.Load() >= 1 }) {
		sc.Fail("first announce not seen")
		return sc
	}
	if !start(1) {
		return sc
	}
	time.Sleep(250 * time.Millisecond)
	// peer ids as presented to peers (identity obligations are C15's, the monitor still wants the value)
	for i := 0; i < 2; i++ {
		if pid, err := annh.HandshakePeerID("127.0.0.9", sc.Tor[i].Port, mustIH(sc.Tor[i].IH)); err == nil {
			sc.Tor[i].PID = pid
		}
	}
	stopped := -1
	switch sp.variant {
	case "ownerstops":
		stopped = 0
	case "waiterstops":
		stopped = 1
	}
	if stopped >= 0 {
		sc.Line("stop", map[string]any{"t": stopped + 1})
		trs[stopped].Stop()
	}
	// the survivor(s) must get an announce through: at the latest one back-off after the abort (7.5 s) + connect delay
	deadline := time.Now().Add(time.Duration(7500+sp.delayMs+500+4000+300) * time.Millisecond)
	seen := func() bool {
		need := map[int]int{1: 1, 2: 1}
		if late {
			need = map[int]int{1: 3, 2: 3}
		}
		if stopped >= 0 {
			delete(need, stopped+1)
		}
		for _, l := range sc.Lines() {
			if l["op"] == "ann" && l["ev"] != "stopped" {
				t := l["t"].(int)
				if need[t]--; need[t] <= 0 {
					delete(need, t)
				}
			}
		}
		return len(need) == 0
	}
	for time.Now().Before(deadline.Add(time.Duration(2*stall.since(s0)) * time.Millisecond)) {
		if seen() {
			break
		}
		time.Sleep(100 * time.Millisecond)
		sc.Line("tick", nil)
	}
	var st []string
	for i := 0; i < 2; i++ {
		for _, t := range trs[i].Trackers() {
			st = append(st, fmt.Sprintf("t%d:%d", i+1, int(t.Status)))
		}
	}
	sc.Meta["tracker_status"] = st
	sc.Line("end", nil)
	sc.Slk += 2 * stall.since(s0)
	return sc
}

func mustIH(h string) [20]byte {
	var ih [20]byte
	b, _ := hex.DecodeString(h)
	copy(ih[:], b)
	return ih
}

// session-level tier (thorough): real back-off (5 s * 2^n, +-50%), HTTP members
func runSessTier(name string, pats []string, root string, seed int64, maxMs int, stall *stallMeter) *annh.Sc {
	sc := annh.NewSc(name, "sesstier")
	sc.Cmin, sc.Lat, sc.Slk = 800, 500, 4000
	sc.HTTPTO = 3000
	s0 := stall.mark()
	env, err := annh.NewEnv(root, func(c *torrent.Config) {
		c.TrackerMinAnnounceInterval = 800 * time.Millisecond
		c.TrackerHTTPTimeout = 3 * time.Second
	})
	if err != nil {
		sc.Fail("session: %v", err)
		return sc
	}
	defer env.Close()
	var urls []string
	var ks []int
	var ts []*annh.Trk
	for j, p := range pats {
		pat := p
		plan := func(n int, r vh.AnnReq) annh.Rep {
			at := func(i int) byte {
				if i >= len(pat) {
					i = len(pat) - 1
				}
				return pat[i]
			}
			if at(n-1) == 'O' {
				return annh.Rep{Kind: "ok", IV: vh.I64(1), Up: at(n) == 'O'}
			}
			return annh.Rep{Kind: "fail", Up: at(n) == 'O'}
		}
		k, err := annh.NewTrk(sc, j+1, false, plan)
		if err != nil {
			sc.Fail("tracker: %v", err)
			return sc
		}
		defer k.Close()
		k.TorOf = 1
		ts = append(ts, k)
		urls = append(urls, k.URL())
		ks = append(ks, j+1)
		sc.Trk = append(sc.Trk, annh.TrkCfg{Dest: j + 1, Up0: p[0] == 'O'})
	}
	sc.Ann = []annh.AnnCfg{{T: 1, Ks: ks}}
	sc.Meta["pats"] = pats
	tor := annh.SmallTorrent("c16-"+name, 40000, seed, [][]string{urls})
	tr, err := env.Add(tor, "t-"+name, true, false)
	if err != nil {
		sc.Fail("add: %v", err)
		return sc
	}
	sc.Tor = []annh.TorCfg{{IH: hex.EncodeToString(tor.InfoHash[:]), Port: tr.Port(), Total: tor.Total, Left0: tor.Total}}
	sc.Line("start", map[string]any{"t": 1})
	if err := tr.Start(); err != nil {
		sc.Fail("start: %v", err)
		return sc
	}
	if pid, err := annh.HandshakePeerID("127.0.0.9", tr.Port(), tor.InfoHash); err == nil {
		sc.Tor[0].PID = pid
	}
	want := 0
	for _, p := range pats {
		want += len(p)
	}
	t0 := time.Now()
	for int(time.Since(t0)/time.Millisecond) < maxMs {
		c := 0
		for _, k := range ts {
			c += int(k.Count.Load())
		}
		if c >= want+1 {
			break
		}
		time.Sleep(100 * time.Millisecond)
		sc.Line("tick", nil)
	}
	sc.Line("stop", map[string]any{"t": 1})
	tr.Stop()
	annh.WaitUntil(3*time.Second, func() bool { return tr.Stats().Status == torrent.Stopped })
	sc.Line("end", nil)
	sc.Slk += 2 * stall.since(s0)
	if st := stall.maxSince(s0); st > 1000 {
		// an announce attempt that times out on the client before the scripted server sees it would look like a skipped member
		sc.Fail("machine stalled for %d ms during the scenario: tier order not judgeable from the server side", st)
	}
	return sc
}

// ---------------------------------------------------------------------------------------------------------------------

type result struct {
	Kind  string `json:"kind"`
	Name  string `json:"name"`
	Err   string `json:"err,omitempty"`
	Lines int    `json:"lines"`
}

func main() {
	mode := flag.String("mode", "run", "")
	out := flag.String("out", "trace.ndjson", "")
	seed := flag.Int64("seed", 1, "")
	nTier := flag.Int("ntier", 16, "announcer-level scenarios")
	nShare := flag.Int("nshare", 3, "udp-sharing session scenarios")
	nConn := flag.Int("nconn", 8, "announcer-level scenarios over real UDP clients with connection ids of every class")
	nSess := flag.Int("nsess", 0, "session-level tier scenarios (slow: real back-off)")
	nFuzz := flag.Int("nfuzz", 40, "random reply mutations per transport (in addition to the fixed tables)")
	par := flag.Int("par", 12, "")
	tcDepth := flag.Int("tcdepth", 6, "depth of the enumerated tier-level concurrent histories (2 lanes; 0 = none)")
	tcDepth3 := flag.Int("tcdepth3", 0, "depth of the 3-lane histories (0 = none)")
	root := flag.String("root", "", "scratch directory")
	from := flag.Int("from", 0, "")
	to := flag.Int("to", 0, "")
	resf := flag.String("res", "", "")
	gpf := flag.String("gpats", "", "file with TLC-generated answer patterns (JSON lines: array of \"O\"/\"F\")")
	flag.Parse()
	torrent.DisableLogging()
	logger.Disable()
	if *mode == "fuzzchild" {
		fuzzChild(*seed, *nFuzz, *from, *to, *resf)
		return
	}
	if *root == "" {
		d, err := os.MkdirTemp("/var/tmp", "c16drv")
		if err != nil {
			panic(err)
		}
		*root = d
		defer os.RemoveAll(d)
	}
	stall := newStallMeter()
	var mu sync.Mutex
	var scs []*annh.Sc
	sem := make(chan struct{}, *par)
	var wg sync.WaitGroup
	goRun := func(f func() *annh.Sc) {
		wg.Add(1)
		sem <- struct{}{}
		go func() {
			defer wg.Done()
			defer func() { <-sem }()
			s := f()
			mu.Lock()
			scs = append(scs, s)
			mu.Unlock()
		}()
	}
	// the fuzz children run concurrently with the (mostly sleeping) scenarios
	var fz *annh.Sc
	wg.Add(1)
	go func() {
		defer wg.Done()
		fz = fuzzParent(*seed, *nFuzz, *root)
	}()
	variants := []string{"ownerstops", "waiterstops", "nostop", "latejoin"}
	for i := 0; i < *nShare; i++ {
		sp := shareSpec{name: fmt.Sprintf("share%d", i+1), variant: variants[i%4], delayMs: 1200 + 300*(i%3), cid: -1}
		if sp.variant == "latejoin" { // every connection-id class in turn, starting with 0
			sp.cid, sp.delayMs = (i/4)%len(annh.CidClasses), 300
		}
		i := i
		goRun(func() *annh.Sc { return runShare(sp, *root, *seed*100+int64(i), stall) })
	}
	rng := rand.New(rand.NewSource(*seed*31 + 7))
	for i := 0; i < *nSess; i++ {
		nm := 2 + i%2
		pats := make([]string, nm)
		for j := range pats {
			pats[j] = []string{"F", "FO", "FF"}[rng.Intn(3)]
		}
		pats[rng.Intn(nm)] += "O"
		name := fmt.Sprintf("sesstier%d", i+1)
		i := i
		goRun(func() *annh.Sc { return runSessTier(name, pats, *root, *seed*100+50+int64(i), 75000, stall) })
	}
	for _, sp := range genTier(*seed, *nTier) {
		sp := sp
		goRun(func() *annh.Sc { return runTier(sp, stall) })
	}
	for _, sp := range genConn(*seed, *nConn) {
		sp := sp
		goRun(func() *annh.Sc { return runTier(sp, stall) })
	}
	if *gpf != "" {
		f, err := os.Open(*gpf)
		if err != nil {
			panic(err)
		}
		dec := json.NewDecoder(f)
		i := 0
		for {
			var p []string
			if err := dec.Decode(&p); err != nil {
				break
			}
			pat := ""
			for _, c := range p {
				pat += c
			}
			for nm := 2; nm <= 3; nm++ {
				i++
				sp := tierSpec{name: fmt.Sprintf("gen%d", i), kind: "generated", pats: make([]string, nm), gpat: pat, need: true,
					durMs: 9000, minAn: len(pat) + 2}
				for j := range sp.pats {
					sp.pats[j] = "F"
				}
				goRun(func() *annh.Sc { return runTier(sp, stall) })
			}
		}
		f.Close()
	}
	if *tcDepth > 0 {
		goRun(func() *annh.Sc { return runTierConc("tierconc2", 2, *tcDepth, []int{2, 3}) })
	}
	if *tcDepth3 > 0 {
		goRun(func() *annh.Sc { return runTierConc("tierconc3", 3, *tcDepth3, []int{2, 3}) })
	}
	wg.Wait()
	scs = append(scs, fz)
	if err := annh.WriteAll(*out, scs); err != nil {
		panic(err)
	}
	var res []result
	for _, s := range scs {
		res = append(res, result{Kind: s.Kind, Name: s.Name, Err: s.Err, Lines: len(s.Lines()) - 1})
	}
	b, _ := json.Marshal(res)
	fmt.Println(string(b))
}
