package main

// Reply fuzz: the real HTTP and UDP tracker clients (internal/tracker/httptracker, internal/tracker/udptracker through
// internal/trackermanager) announce to endpoints that answer with scripted bytes. Everything runs in child processes
// (a panic in a client goroutine kills the process); the parent turns results / exit status into `fz` lines.

import (
	"bufio"
	"context"
	"encoding/binary"
	"encoding/json"
	"fmt"
	"math/rand"
	"net"
	"net/http"
	"os"
	"os/exec"
	"strings"
	"sync"
	"sync/atomic"
	"time"

	"github.com/cenkalti/rain/v2/internal/tracker"
	"github.com/cenkalti/rain/v2/internal/trackermanager"
	"github.com/cenkalti/rain/v2/internal/verif/annh"
	"github.com/cenkalti/rain/v2/internal/verif/vh"
)

const httpLimit = 64 << 10 // TrackerHTTPMaxResponseSize used by the fuzz

type fcase struct {
	Name     string
	TP       string // http | udp
	Body     []byte // HTTP body / UDP announce reply (transaction id filled in when bytes 4..8 are zero)
	Status   int
	NoLen    bool   // HTTP: stream without Content-Length
	Huge     int    // HTTP: append this many padding bytes inside the body (string value) -> beyond the limit
	MustFail bool   // the reply cannot be accepted legitimately
	Burst    int    // udpburst: number of announces (distinct info-hashes) held by the tracker and answered in ONE burst
	Dup      int    // udpburst: every reply is sent 1+Dup times
	Shuffle  bool   // udpburst: replies are sent in another order than the requests arrived
	CID      uint64 // udpburst: connection id of the connect reply (the second wave runs over that live connection)
	Mangle   string // UDP: dup | wrongtx-first | wrongtx-only | short | connect-short | connect-wrongaction | connect-wrongtx | connect-dup
}

func be32(v uint32) []byte { b := make([]byte, 4); binary.BigEndian.PutUint32(b, v); return b }

func udpAnn(action uint32, interval uint32, peers []byte) []byte {
	b := append(be32(action), 0, 0, 0, 0)
	b = append(b, be32(interval)...)
	b = append(b, be32(1)...)
	b = append(b, be32(2)...)
	return append(b, peers...)
}

func fuzzCases(seed int64, nrand int) []fcase {
	rng := rand.New(rand.NewSource(seed*65537 + 3))
	E := vh.Enc
	D := func(kv ...any) vh.Dict {
		d := vh.Dict{}
		for i := 0; i+1 < len(kv); i += 2 {
			d[kv[i].(string)] = kv[i+1]
		}
		return d
	}
	cp := []byte{10, 0, 0, 1, 0x1a, 0xe1, 10, 0, 0, 2, 0x1a, 0xe2}
	valid := E(D("interval", 1800, "peers", cp))
	var cs []fcase
	h := func(name string, body []byte, must bool) { cs = append(cs, fcase{Name: name, TP: "http", Body: body, MustFail: must}) }
	h("valid-compact", valid, false)
	h("empty-body", []byte{}, true)
	h("not-bencode", []byte("<html>hello</html>"), true)
	h("truncated", valid[:len(valid)-3], true)
	h("no-peers", E(D("interval", 1800)), false)
	h("peers-int", E(D("interval", 1800, "peers", 5)), false)
	h("peers-len7", E(D("interval", 1800, "peers", cp[:7])), true)
	h("peers-empty-list", E(D("interval", 1800, "peers", []any{})), false)
	dp := func(ip any, port any) vh.Dict { return D("ip", ip, "port", port) }
	h("dict-valid", E(D("interval", 1800, "peers", []any{dp("10.0.0.1", 6881), dp("10.0.0.2", 6882)})), false)
	h("dict-bad-ip", E(D("interval", 1800, "peers", []any{dp("not-an-ip", 6881), dp("10.0.0.2", 6882)})), false)
	h("dict-empty-ip", E(D("interval", 1800, "peers", []any{dp("", 6881)})), false)
	h("dict-hostname", E(D("interval", 1800, "peers", []any{dp("tracker.example.org", 6881)})), false)
	h("dict-ipv6", E(D("interval", 1800, "peers", []any{dp("2001:db8::1", 6881), dp("::1", 1)})), false)
	h("dict-ipv4-mapped", E(D("interval", 1800, "peers", []any{dp("::ffff:10.0.0.3", 6881)})), false)
	h("dict-ip-int", E(D("interval", 1800, "peers", []any{dp(5, 6881)})), false)
	h("dict-port-big", E(D("interval", 1800, "peers", []any{dp("10.0.0.1", 70000)})), false)
	h("dict-port-neg", E(D("interval", 1800, "peers", []any{dp("10.0.0.1", -1)})), false)
	h("dict-missing-fields", E(D("interval", 1800, "peers", []any{D("x", 1)})), false)
	h("dict-list-of-ints", E(D("interval", 1800, "peers", []any{1, 2, 3})), false)
	h("interval-neg", E(D("interval", -5, "peers", cp)), false)
	h("interval-huge", E(D("interval", int64(1)<<40, "peers", cp)), false)
	h("interval-string", E(D("interval", "soon", "peers", cp)), false)
	h("failure", E(D("failure reason", "go away")), true)
	h("failure-retry-garbage", E(D("failure reason", "go away", "retry in", "never")), true)
	h("failure-int", E(D("failure reason", 5)), false)
	h("external-ip-3", E(D("interval", 1800, "peers", cp, "external ip", []byte{1, 2, 3})), false)
	h("external-ip-16", E(D("interval", 1800, "peers", cp, "external ip", make([]byte, 16))), false)
	h("trailing-garbage", append(append([]byte{}, valid...), "xxxx"...), false)
	h("nested-deep", []byte(strings.Repeat("l", 20000)+strings.Repeat("e", 20000)), false)
	h("dict-deep-peers", append(append([]byte("d8:intervali1800e5:peers"), []byte(strings.Repeat("l", 5000)+strings.Repeat("e", 5000))...), 'e'), false)
	h("huge-string-len", []byte("d5:peers99999999999:abce"), true)
	h("neg-string-len", []byte("d5:peers-1:e"), true)
	cs = append(cs, fcase{Name: "status500-bencode", TP: "http", Body: E(D("failure reason", "oops")), Status: 500, MustFail: true})
	cs = append(cs, fcase{Name: "status404-html", TP: "http", Body: []byte("<h1>404</h1>"), Status: 404, MustFail: true})
	cs = append(cs, fcase{Name: "status503-valid", TP: "http", Body: valid, Status: 503})
	cs = append(cs, fcase{Name: "huge-contentlength", TP: "http", Huge: 8 << 20, MustFail: true})
	cs = append(cs, fcase{Name: "huge-chunked", TP: "http", Huge: 32 << 20, NoLen: true, MustFail: true})
	cs = append(cs, fcase{Name: "just-over-limit", TP: "http", Huge: httpLimit, NoLen: true, MustFail: true})
	cs = append(cs, fcase{Name: "just-under-limit", TP: "http", Huge: httpLimit - 60, NoLen: true})
	for i := 0; i < nrand; i++ { // random mutations of valid bodies
		base := [][]byte{valid, E(D("interval", 1800, "min interval", 60, "complete", 1, "incomplete", 2, "peers", []any{dp("10.0.0.1", 6881)})),
			E(D("failure reason", "x", "retry in", "5"))}[rng.Intn(3)]
		b := append([]byte{}, base...)
		for m := 0; m < 1+rng.Intn(3); m++ {
			switch rng.Intn(4) {
			case 0:
				b[rng.Intn(len(b))] = byte(rng.Intn(256))
			case 1:
				b = b[:rng.Intn(len(b)+1)]
			case 2:
				p := rng.Intn(len(b) + 1)
				b = append(b[:p:p], append([]byte{"ilde0123456789:-"[rng.Intn(16)]}, b[p:]...)...)
			case 3:
				if len(b) > 2 {
					p := rng.Intn(len(b) - 1)
					b = append(b[:p:p], b[p+1:]...)
				}
			}
			if len(b) == 0 {
				b = []byte("e")
			}
		}
		cs = append(cs, fcase{Name: fmt.Sprintf("rand%d", i), TP: "http", Body: b})
	}
	u := func(name string, body []byte, mangle string, must bool) {
		cs = append(cs, fcase{Name: name, TP: "udp", Body: body, Mangle: mangle, MustFail: must})
	}
	good := udpAnn(1, 222, cp)
	u("valid", good, "", false)
	u("no-peers", udpAnn(1, 222, nil), "", false)
	u("dup", good, "dup", false)
	u("wrongtx-first", good, "wrongtx-first", false)
	u("wrongtx-only", good, "wrongtx-only", true)
	u("short-7", good[:7], "", true)
	u("header-only", good[:8], "", true)
	u("short-19", good[:19], "", true)
	u("action-connect", udpAnn(0, 222, cp), "", true)
	u("action-scrape", udpAnn(2, 222, cp), "", true)
	u("action-7", udpAnn(7, 222, cp), "", true)
	u("peers-len5", udpAnn(1, 222, cp[:5]), "", true)
	u("interval-neg", udpAnn(1, 0xffffffff, cp), "", false)
	u("error-text", append(append(be32(3), 0, 0, 0, 0), "unregistered torrent"...), "", true)
	u("error-bencode", append(append(be32(3), 0, 0, 0, 0), vh.Enc(vh.Dict{"failure reason": "x", "retry in": "2"})...), "", true)
	u("error-empty", append(be32(3), 0, 0, 0, 0), "", true)
	u("huge-datagram", udpAnn(1, 222, make([]byte, 6*1500)), "", false)
	u("huge-datagram-odd", udpAnn(1, 222, make([]byte, 6*1500+3)), "", false)
	u("connect-short", good, "connect-short", true)
	u("connect-wrongaction", good, "connect-wrongaction", true)
	u("connect-wrongtx", good, "connect-wrongtx", true)
	u("connect-dup", good, "connect-dup", false)
	u("connect-error", good, "connect-error", true)
	// several announces sharing one UDP socket are answered back-to-back, each reply with content specific to its info-hash
	cids := []uint64{0x1234, 0, 0xFFFFFFFFFFFFFFFF, 0x8000000000000000} // BEP 15 reserves no connection id value
	for j, n := range []int{2, 3, 4, 8, 16, 32} {
		for _, d := range []int{0, 2} {
			cs = append(cs, fcase{Name: fmt.Sprintf("burst-n%d-dup%d", n, d), TP: "udpburst", Burst: n, Dup: d, Shuffle: n%3 == 0, CID: cids[(j+d/2)%len(cids)]})
		}
	}
	for i := 0; i < nrand/20; i++ {
		cs = append(cs, fcase{Name: fmt.Sprintf("burst-rand%d", i), TP: "udpburst", Burst: 2 + rng.Intn(30), Dup: rng.Intn(4), Shuffle: rng.Intn(2) == 0,
			CID: append(cids, rng.Uint64())[rng.Intn(len(cids)+1)]})
	}
	for i := 0; i < nrand; i++ {
		b := append([]byte{}, good...)
		for m := 0; m < 1+rng.Intn(3); m++ {
			switch rng.Intn(3) {
			case 0:
				p := rng.Intn(len(b))
				if p >= 4 && p < 8 { // the transaction id is filled in by the scripted tracker
					p = p - 4
				}
				b[p] = byte(rng.Intn(256))
			case 1:
				b = b[:8+rng.Intn(len(b)-7)]
			case 2:
				b = append(b, byte(rng.Intn(256)))
			}
		}
		cs = append(cs, fcase{Name: fmt.Sprintf("rand%d", i), TP: "udp", Body: b})
	}
	return cs
}

type fres struct {
	I      int    `json:"i"`
	Begin  bool   `json:"begin,omitempty"`
	Out    string `json:"out"`
	NPeers int    `json:"npeers"`
	NilIP  int    `json:"nilip"`
	IP6    int    `json:"ip6"`
	Port0  int    `json:"port0"`
	BadTx  bool   `json:"badtx"`
	Over   bool   `json:"over"`
	Mix    int    `json:"mix"`
	Lost   int    `json:"lost"`
	Sent   int64  `json:"sent"`
	Err    string `json:"err"`
}

func classify(resp *tracker.AnnounceResponse, r *fres) {
	r.NPeers = len(resp.Peers)
	for _, p := range resp.Peers {
		switch {
		case p == nil || p.IP == nil || len(p.IP) == 0:
			r.NilIP++
		case p.IP.To4() == nil:
			r.IP6++
		}
		if p != nil && p.Port == 0 {
			r.Port0++
		}
	}
}

func runCase(tm *trackermanager.TrackerManager, i int, c fcase) fres {
	r := fres{I: i}
	var ih, pid [20]byte
	copy(ih[:], "fuzz-infohash-000000")
	copy(pid[:], "-RN0000-fuzz00000000")
	req := tracker.AnnounceRequest{Torrent: tracker.Torrent{InfoHash: ih, PeerID: pid, Port: 6881, BytesLeft: 100}, Event: tracker.EventStarted, NumWant: 50}
	if c.TP == "http" {
		var sent atomic.Int64
		l, err := net.Listen("tcp4", "127.0.0.1:0")
		if err != nil {
			r.Out, r.Err = "mach", err.Error()
			return r
		}
		done := make(chan struct{}, 1)
		srv := &http.Server{Handler: http.HandlerFunc(func(w http.ResponseWriter, q *http.Request) {
			defer func() { done <- struct{}{} }()
			body := c.Body
			if c.Huge > 0 { // a well-formed reply whose peers string pushes it beyond the limit
				pad := c.Huge
				pad -= pad % 6
				body = append([]byte(fmt.Sprintf("d8:intervali1800e5:peers%d:", pad)), make([]byte, pad)...)
				body = append(body, 'e')
			}
			if !c.NoLen {
				w.Header().Set("Content-Length", fmt.Sprint(len(body)))
			}
			if c.Status != 0 {
				w.WriteHeader(c.Status)
			}
			fl, _ := w.(http.Flusher)
			for off := 0; off < len(body); off += 32 << 10 {
				end := min(off+32<<10, len(body))
				n, err := w.Write(body[off:end])
				sent.Add(int64(n))
				if err != nil {
					return
				}
				if c.NoLen && fl != nil {
					fl.Flush()
				}
			}
		})}
		go srv.Serve(l)
		defer srv.Close()
		trk, err := tm.Get("http://"+l.Addr().String()+"/announce", 3*time.Second, "c16-fuzz", httpLimit)
		if err != nil {
			r.Out, r.Err = "mach", err.Error()
			return r
		}
		ctx, cancel := context.WithTimeout(context.Background(), 6*time.Second)
		resp, err := trk.Announce(ctx, req)
		cancel()
		select {
		case <-done:
		case <-time.After(1500 * time.Millisecond):
		}
		r.Sent = sent.Load()
		// the server cannot push more than limit + what the kernel buffers of a loopback connection hold, unless the client keeps reading
		r.Over = r.Sent > httpLimit+(12<<20)
		if err != nil {
			r.Out, r.Err = "err", trunc(err.Error())
			return r
		}
		r.Out = "ok"
		classify(resp, &r)
		return r
	}
	if c.TP == "udpburst" {
		return runBurst(tm, i, c)
	}
	// UDP: a fresh scripted tracker (fresh destination => fresh connect) per case
	u, err := vh.StartUDPTracker(nil, "fz", func(vh.AnnReq) vh.AnnReply {
		return vh.AnnReply{RawBody: append([]byte{}, c.Body...)} // vh fills the transaction id IN PLACE: never hand it a shared slice
	})
	if err != nil {
		r.Out, r.Err = "mach", err.Error()
		return r
	}
	defer u.Close()
	flip := func(p []byte) []byte { q := append([]byte{}, p...); q[4] ^= 0x5a; q[7] ^= 0xa5; return q }
	u.Mangle = func(kind string, pkt []byte) [][]byte {
		if len(pkt) < 8 {
			return [][]byte{pkt}
		}
		switch {
		case kind == "announce" && c.Mangle == "dup":
			return [][]byte{pkt, pkt, pkt}
		case kind == "announce" && c.Mangle == "wrongtx-first":
			w := flip(pkt)
			if len(w) >= 12 {
				binary.BigEndian.PutUint32(w[8:12], 111)
			}
			return [][]byte{w, pkt}
		case kind == "announce" && c.Mangle == "wrongtx-only":
			w := flip(pkt)
			if len(w) >= 12 {
				binary.BigEndian.PutUint32(w[8:12], 111)
			}
			return [][]byte{w}
		case kind == "connect" && c.Mangle == "connect-short":
			return [][]byte{pkt[:12]}
		case kind == "connect" && c.Mangle == "connect-wrongaction":
			q := append([]byte{}, pkt...)
			q[3] = 1
			return [][]byte{q}
		case kind == "connect" && c.Mangle == "connect-wrongtx":
			return [][]byte{flip(pkt)}
		case kind == "connect" && c.Mangle == "connect-dup":
			return [][]byte{pkt, pkt}
		case kind == "connect" && c.Mangle == "connect-error":
			q := append([]byte{0, 0, 0, 3}, pkt[4:8]...)
			return [][]byte{append(q, "denied"...)}
		}
		return [][]byte{pkt}
	}
	trk, err := tm.Get(u.URL(), 3*time.Second, "c16-fuzz", httpLimit)
	if err != nil {
		r.Out, r.Err = "mach", err.Error()
		return r
	}
	ctx, cancel := context.WithTimeout(context.Background(), 1500*time.Millisecond)
	resp, err := trk.Announce(ctx, req)
	cancel()
	if err != nil {
		r.Out, r.Err = "err", trunc(err.Error())
		return r
	}
	r.Out = "ok"
	classify(resp, &r)
	r.BadTx = resp.Interval == 111*time.Second
	return r
}

// what the burst tracker answers for an info-hash (the first byte identifies the announce)
func burstReply(b byte) (interval, leechers, seeders uint32, peers []byte) {
	interval, leechers, seeders = 1000+uint32(b), 2000+uint32(b), 3000+uint32(b)
	for j := 0; j < 1+int(b)%4; j++ {
		peers = append(peers, 10, b, byte(j), 1, 0x1a, b)
	}
	return
}

func runBurst(tm *trackermanager.TrackerManager, i int, c fcase) fres {
	r := fres{I: i}
	conn, err := net.ListenUDP("udp4", &net.UDPAddr{IP: net.ParseIP("127.0.0.1")})
	if err != nil {
		r.Out, r.Err = "mach", err.Error()
		return r
	}
	defer conn.Close()
	type held struct {
		to   *net.UDPAddr
		txid []byte
		b    byte
	}
	var gotMu sync.Mutex
	got := map[byte]bool{} // announces that reached the tracker (a request datagram dropped by a full socket buffer is nobody's fault)
	go func() { // the tracker: connects are answered at once, announces are held until c.Burst of them are there
		var hs []held
		var firstHeld time.Time
		buf := make([]byte, 2048)
		wave := 0
		for {
			conn.SetReadDeadline(time.Now().Add(200 * time.Millisecond))
			n, from, err := conn.ReadFromUDP(buf)
			timeout := false
			if err != nil {
				if ne, ok := err.(net.Error); ok && ne.Timeout() {
					timeout, n = true, 0
				} else {
					return
				}
			}
			if timeout && (len(hs) == 0 || time.Since(firstHeld) < 1500*time.Millisecond) {
				continue
			}
			if !timeout && n < 16 {
				continue
			}
			action := uint32(99) // 99: a held burst is released because some request never arrived
			if !timeout {
				action = binary.BigEndian.Uint32(buf[8:12])
			}
			switch action {
			case 0:
				out := binary.BigEndian.AppendUint64(append(be32(0), buf[12:16]...), c.CID)
				conn.WriteToUDP(out, from)
			case 1, 99:
				if action == 1 {
					if n < 98 {
						continue
					}
					if len(hs) == 0 {
						firstHeld = time.Now()
					}
					hs = append(hs, held{from, append([]byte{}, buf[12:16]...), buf[16]})
					gotMu.Lock()
					got[buf[16]] = true
					gotMu.Unlock()
				}
				need := c.Burst
				if wave > 0 {
					need = 1 // second wave: answered one by one, each with its duplicates right behind it
				}
				if len(hs) < need && action == 1 {
					continue
				}
				order := hs
				if c.Shuffle {
					order = nil
					for j := len(hs) - 1; j >= 0; j-- {
						order = append(order, hs[j])
					}
				}
				sendAll := func(times int) {
					for d := 0; d < times; d++ {
						for _, h := range order {
							iv, le, se, peers := burstReply(h.b)
							out := append(be32(1), h.txid...)
							out = append(append(append(out, be32(iv)...), be32(le)...), be32(se)...)
							conn.WriteToUDP(append(out, peers...), h.to)
						}
					}
				}
				sendAll(1 + c.Dup)
				// UDP may drop datagrams when a socket buffer overflows (seen on a loaded machine): the tracker repeats its
				// answers a few times, so that a "lost" verdict means the client never accepted ANY copy of its reply
				go func() {
					for _, ms := range []int{400, 800, 1500, 2500} {
						time.Sleep(time.Duration(ms) * time.Millisecond)
						sendAll(1)
					}
				}()
				if wave == 0 {
					wave = 1
				}
				hs = nil
			}
		}
	}()
	trk, err := tm.Get("udp://"+conn.LocalAddr().String()+"/announce", 3*time.Second, "c16-fuzz", httpLimit)
	if err != nil {
		r.Out, r.Err = "mach", err.Error()
		return r
	}
	var mu sync.Mutex
	one := func(b byte) {
		var ih, pid [20]byte
		copy(ih[:], "burst-infohash-00000")
		copy(pid[:], "-RN0000-burst0000000")
		ih[0] = b
		ctx, cancel := context.WithTimeout(context.Background(), 8*time.Second)
		resp, err := trk.Announce(ctx, tracker.AnnounceRequest{Torrent: tracker.Torrent{InfoHash: ih, PeerID: pid, Port: 6881, BytesLeft: 100}, NumWant: 50})
		cancel()
		mu.Lock()
		defer mu.Unlock()
		if err != nil {
			gotMu.Lock()
			reached := got[b]
			gotMu.Unlock()
			if reached { // the tracker answered this announce (several times), the client never accepted it
				r.Lost++
				r.Err = trunc(err.Error())
			} else {
				r.Port0++ // reused as "request never reached the tracker" counter (not judged)
			}
			return
		}
		iv, le, se, peers := burstReply(b)
		okc := resp.Interval == time.Duration(iv)*time.Second && resp.Leechers == int32(le) && resp.Seeders == int32(se) && len(resp.Peers)*6 == len(peers)
		for j, p := range resp.Peers {
			if !okc {
				break
			}
			ip4 := p.IP.To4()
			okc = ip4 != nil && ip4[0] == peers[j*6] && ip4[1] == peers[j*6+1] && ip4[2] == peers[j*6+2] && p.Port == int(peers[j*6+4])<<8|int(peers[j*6+5])
		}
		r.NPeers += len(resp.Peers)
		if !okc {
			r.Mix++
		}
	}
	for wave := 0; wave < 2; wave++ {
		var wg sync.WaitGroup
		for j := 0; j < c.Burst; j++ {
			wg.Add(1)
			go func(b byte) { defer wg.Done(); one(b) }(byte(1 + j + wave*100))
		}
		wg.Wait()
	}
	r.Out = "ok"
	if r.Lost > 0 {
		r.Out = "err"
	}
	return r
}

func trunc(s string) string {
	b := []byte(s)
	for i := range b {
		if b[i] < 32 || b[i] > 126 || b[i] == '"' || b[i] == '\\' {
			b[i] = '?'
		}
	}
	if len(b) > 80 {
		b = b[:80]
	}
	return string(b)
}

func fuzzChild(seed int64, nrand, from, to int, resf string) {
	cs := fuzzCases(seed, nrand)
	f, err := os.OpenFile(resf, os.O_CREATE|os.O_WRONLY|os.O_APPEND, 0o644)
	if err != nil {
		panic(err)
	}
	var mu sync.Mutex
	emit := func(r fres) {
		b, _ := json.Marshal(r)
		mu.Lock()
		f.Write(append(b, '\n'))
		mu.Unlock()
	}
	tm := trackermanager.New(nil, time.Second, true)
	sem := make(chan struct{}, 8)
	var wg sync.WaitGroup
	for i := from; i < to && i < len(cs); i++ {
		wg.Add(1)
		sem <- struct{}{}
		go func(i int) {
			defer wg.Done()
			defer func() { <-sem }()
			emit(fres{I: i, Begin: true})
			emit(runCase(tm, i, cs[i]))
		}(i)
	}
	wg.Wait()
	f.Close()
}

// fuzzParent runs the cases in child processes with a watchdog and converts the results into `fz` lines.
func fuzzParent(seed int64, nrand int, root string) *annh.Sc {
	sc := annh.NewSc("fuzz", "fuzz")
	sc.Tor = []annh.TorCfg{{IH: "00", PID: "00", Port: 1, Total: 1, Left0: 1}}
	sc.Trk = []annh.TrkCfg{{Dest: 1, Up0: true}}
	sc.Ann = []annh.AnnCfg{{T: 1, Ks: []int{1}}}
	sc.Cmin = 1000
	cs := fuzzCases(seed, nrand)
	results := map[int]fres{}
	begun := map[int]bool{}
	self, _ := os.Executable()
	runChild := func(from, to int, budget time.Duration) string {
		resf := fmt.Sprintf("%s/fz-%d-%d-%d.ndjson", root, from, to, time.Now().UnixNano())
		ctx, cancel := context.WithTimeout(context.Background(), budget)
		defer cancel()
		cmd := exec.CommandContext(ctx, self, "-mode", "fuzzchild", "-seed", fmt.Sprint(seed), "-nfuzz", fmt.Sprint(nrand),
			"-from", fmt.Sprint(from), "-to", fmt.Sprint(to), "-res", resf)
		var stderr strings.Builder
		cmd.Stderr = &stderr
		err := cmd.Run()
		if f, e := os.Open(resf); e == nil {
			s := bufio.NewScanner(f)
			s.Buffer(make([]byte, 1<<20), 1<<20)
			for s.Scan() {
				var r fres
				if json.Unmarshal(s.Bytes(), &r) == nil {
					if r.Begin {
						begun[r.I] = true
					} else {
						results[r.I] = r
					}
				}
			}
			f.Close()
			os.Remove(resf)
		}
		if ctx.Err() != nil {
			return "hang"
		}
		if err != nil {
			return "crash: " + trunc(lastLines(stderr.String()))
		}
		return ""
	}
	const batch = 64
	for from := 0; from < len(cs); from += batch {
		to := min(from+batch, len(cs))
		st := runChild(from, to, 90*time.Second)
		if st == "" {
			continue
		}
		// the batch died: re-run every unfinished case alone to find the culprit(s)
		for i := from; i < to; i++ {
			if _, ok := results[i]; ok {
				continue
			}
			st1 := runChild(i, i+1, 20*time.Second)
			if _, ok := results[i]; !ok {
				out := "crash"
				if st1 == "hang" {
					out = "hang"
				}
				results[i] = fres{I: i, Out: out, Err: st1}
			}
		}
	}
	for i, c := range cs {
		r, ok := results[i]
		if !ok {
			sc.Fail("fuzz case %d (%s/%s) has no result", i, c.TP, c.Name)
			return sc
		}
		if r.Out == "mach" {
			sc.Fail("fuzz case %d (%s/%s): %s", i, c.TP, c.Name, r.Err)
			return sc
		}
		model := "compact"
		if strings.Contains(string(c.Body), "5:peersl") {
			model = "dict"
		}
		sc.Line("fz", map[string]any{"tp": c.TP, "case": c.Name, "model": model, "out": r.Out, "npeers": r.NPeers, "nilip": r.NilIP, "ip6": r.IP6, "port0": r.Port0,
			"badtx": r.BadTx, "over": r.Over, "sent": r.Sent, "mustfail": c.MustFail, "err": r.Err, "now": i,
			"mix": r.Mix > 0, "lost": r.Lost > 0, "nmix": r.Mix, "nlost": r.Lost, "burst": c.Burst})
	}
	return sc
}

func lastLines(s string) string {
	ls := strings.Split(strings.TrimSpace(s), "\n")
	for _, l := range ls {
		if strings.HasPrefix(l, "panic:") || strings.HasPrefix(l, "fatal error:") {
			return l
		}
	}
	if len(ls) > 0 {
		return ls[len(ls)-1]
	}
	return ""
}
