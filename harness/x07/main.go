// Command x07 drives a real torrent.Session through accounting histories (X07: byte and piece accounting
// reported to the user is conserved) and records the abstract event trace judged by spec/Trace_Stats.tla.
//
//	x07 run  -scenarios s.ndjson -out trace.ndjson -work DIR      parent: one child process per session lifetime
//	x07 life -scenario f.json -k K -dir D -out raw.ndjson -t0 MS  child: one session lifetime (clean Close or SIGKILL)
//
// Ground truth is kept by the scripted environment, independently of rain's counters: every piece message a
// scripted seeder puts on the wire (blk, logged BEFORE the write), every byte a scripted web seed serves (ws), every
// block a scripted leecher asks for (req) and receives (got), which connections are still open and how far their
// traffic is known to have been handled (conns), which pieces are byte-identical on disk (disk).  Stats() /
// Session.Stats() are sampled at quiescent points (q = true) and, unjudged for lower bounds, while blocks are in flight.
package main

import (
	"bufio"
	"bytes"
	"crypto/sha1"
	"encoding/json"
	"flag"
	"fmt"
	"net"
	"net/http"
	"net/url"
	"os"
	"os/exec"
	"path/filepath"
	"sort"
	"strconv"
	"strings"
	"sync"
	"sync/atomic"
	"syscall"
	"time"

	"github.com/cenkalti/rain/v2/internal/verif/vh"
	"github.com/cenkalti/rain/v2/torrent"
	"go.etcd.io/bbolt"
)

type PeerSpec struct {
	Name   string `json:"name"`
	IP     string `json:"ip"`
	Policy string `json:"policy"` // honest dup unreq corrupt oob oobbegin chokere
	K      int    `json:"k"`
	Have   string `json:"have"` // "" (all) evens odds
	NoFast bool   `json:"noFast"`
	Listen bool   `json:"listen"`
	Multi  bool   `json:"multi"` // another source may deliver the same blocks (end-game): nothing about this peer's blocks is certain
}

type Op struct {
	Op     string     `json:"op"` // dl ul stop start verify wait resume drop half sample
	T      int        `json:"t"`
	Peers  []PeerSpec `json:"peers"`
	WS     bool       `json:"ws"`   // dl: the web seed is expected to deliver in this step
	Goal   string     `json:"goal"` // complete banned wsfail stable
	N      int        `json:"n"`
	Hang   bool       `json:"hang"`
	DupReq bool       `json:"dupReq"`
	NoPoll bool       `json:"noPoll"`
}

type Life struct {
	Ops []Op   `json:"ops"`
	End string `json:"end"` // close crash
	RWI int    `json:"rwi"` // resume write interval in ms (0 = one hour: no periodic write in this lifetime)
}

type Scenario struct {
	ID      int    `json:"id"`
	Seed    int64  `json:"seed"`
	Layout  string `json:"layout"`
	Unit    int    `json:"unit"`
	NTor    int    `json:"ntor"`
	WS      string `json:"wsPolicy"` // "" honest corrupt  (torrent 1, first lifetime only)
	WSK     int    `json:"wsk"`
	WSDelay int    `json:"wsDelay"`
	Endgame int    `json:"endgame"`
	Fam     string `json:"fam"`
	Lives   []Life `json:"lives"`
}

type ev = map[string]any

// ------------------------------------------------------------------------------------------------ log

type Log struct {
	mu sync.Mutex
	w  *bufio.Writer
	f  *os.File
	t0 int64
}

func newLog(path string, t0 int64) *Log {
	f, err := os.Create(path)
	if err != nil {
		panic(err)
	}
	return &Log{f: f, w: bufio.NewWriter(f), t0: t0}
}

func (l *Log) Emit(e ev) {
	l.mu.Lock()
	e["ms"] = time.Now().UnixMilli() - l.t0
	b, err := json.Marshal(e)
	if err == nil {
		l.w.Write(b)
		l.w.WriteByte('\n')
		l.w.Flush()
	}
	l.mu.Unlock()
}

var (
	L   *Log
	hub *vh.SnapHub
	act atomic.Int64 // bumped by every scripted send / receive

	statsMu sync.Mutex
)

func layoutByName(name string, unit int) vh.Layout {
	for _, l := range vh.StdLayouts(unit) {
		if l.Name == name {
			return l
		}
	}
	if name == "padwhole" {
		return vh.PadWholeLayout(unit)
	}
	panic("unknown layout " + name)
}

func haveFn(kind string) func(int) bool {
	switch kind {
	case "evens":
		return func(i int) bool { return i%2 == 0 }
	case "odds":
		return func(i int) bool { return i%2 == 1 }
	}
	return nil
}

// ------------------------------------------------------------------------------------------------ scripted web seed

type webSeed struct {
	tor     *vh.Torrent
	t, cid  int
	l       net.Listener
	srv     *http.Server
	corrupt int64 // absolute offset of the flipped byte, -1 = none
	multi   atomic.Bool
	served  atomic.Int64
	badSent atomic.Bool
	delay   time.Duration
}

func startWebSeed(port int) (*webSeed, error) {
	l, err := net.Listen("tcp4", fmt.Sprintf("127.0.0.1:%d", port))
	if err != nil {
		return nil, err
	}
	w := &webSeed{l: l, corrupt: -1}
	w.srv = &http.Server{Handler: http.HandlerFunc(w.serve)}
	go w.srv.Serve(l)
	return w, nil
}

func (w *webSeed) url() string { return "http://" + w.l.Addr().String() + "/" }

func (w *webSeed) serve(rw http.ResponseWriter, r *http.Request) {
	act.Add(1)
	p, _ := url.PathUnescape(strings.TrimPrefix(r.URL.EscapedPath(), "/"))
	fi := -1
	for i := range w.tor.Files {
		if !w.tor.Files[i].Pad && strings.ReplaceAll(w.tor.StoragePath(i), "\\", "/") == p {
			fi = i
			break
		}
	}
	if fi < 0 {
		rw.WriteHeader(404)
		return
	}
	data := w.tor.FileData(fi)
	lo, hi := int64(0), int64(len(data))-1
	if rng := r.Header.Get("Range"); strings.HasPrefix(rng, "bytes=") {
		parts := strings.SplitN(strings.TrimPrefix(rng, "bytes="), "-", 2)
		lo, _ = strconv.ParseInt(parts[0], 10, 64)
		if len(parts) > 1 && parts[1] != "" {
			hi, _ = strconv.ParseInt(parts[1], 10, 64)
		}
	}
	if lo < 0 || hi >= int64(len(data)) || lo > hi {
		rw.WriteHeader(416)
		return
	}
	if w.delay > 0 {
		time.Sleep(w.delay)
	}
	out := append([]byte(nil), data[lo:hi+1]...)
	base := w.tor.FileStart(fi) + lo
	cls := "U"
	if w.multi.Load() {
		cls = "M"
	}
	// truth first: the bytes about to be served (upper bound of what the client can count)
	L.Emit(ev{"ev": "ws", "t": w.t, "c": w.cid, "n": len(out), "cls": cls})
	if w.corrupt >= base && w.corrupt < base+int64(len(out)) {
		out[w.corrupt-base] ^= 0x5a
		pi := int(w.corrupt / int64(w.tor.PieceLen))
		w.badSent.Store(true)
		L.Emit(ev{"ev": "bad", "t": w.t, "c": w.cid, "i": 0, "n": w.tor.NonPadLen(pi), "piece": pi})
	}
	rw.Header().Set("Content-Range", fmt.Sprintf("bytes %d-%d/%d", lo, hi, len(data)))
	rw.Header().Set("Content-Length", strconv.Itoa(len(out)))
	rw.WriteHeader(206)
	rw.Write(out)
	w.served.Add(int64(len(out)))
	act.Add(1)
}

// ------------------------------------------------------------------------------------------------ scripted seeders

type seederRT struct {
	s         *vh.Seeder
	cid       int
	spec      PeerSpec
	mu        sync.Mutex
	nblk      int               // blocks logged (index of the last one)
	served    int               // valid requests seen
	delivered map[[2]uint32]int // deliveries per block on this connection
	pieceGot  map[uint32]int    // distinct data bytes delivered per piece
	lastU     int               // index of the last first-delivery block
	trig      int               // index of the last block after which the client is known to close the connection itself
	badPiece  int
	held      *vh.Msg
	choked    bool
	incoming  bool
}

type torRT struct {
	idx      int
	id       string
	tor      *vh.Torrent
	tr       *torrent.Torrent
	seeders  []*seederRT
	leechers []*leecherRT
	halves   []net.Conn
	lsn      []*vh.PeerListener
	ws       *webSeed
	wsSure   int // web-seed bytes known to have been consumed (driver inference from disk truth, see quiesce)
	good0    map[int]bool
	det      bool // every block of this step comes from exactly one connection (no end-game, no web seed beside peers)
	wsOnly   bool
	wsBad    bool
}

var (
	nextCID  int
	cidMu    sync.Mutex
	lifeBase int
)

func newCID() int {
	cidMu.Lock()
	defer cidMu.Unlock()
	nextCID++
	return lifeBase + nextCID
}

func (rt *torRT) policy(sr *seederRT) *vh.SeederPolicy {
	ps := sr.spec
	tor := rt.tor
	pol := &vh.SeederPolicy{Have: haveFn(ps.Have), NoFast: ps.NoFast || ps.Policy == "chokere"}
	blk := func(m vh.Msg, cls string) {
		sr.nblk++
		if (ps.Multi || sr.trig > 0) && cls == "U" {
			cls = "M" // may be stored, dropped with the connection, or counted as wasted: nobody outside can tell
		}
		L.Emit(ev{"ev": "blk", "t": rt.idx, "c": sr.cid, "i": sr.nblk, "n": len(m.Data), "cls": cls})
	}
	pol.OnMsg = func(s *vh.Seeder, m vh.Msg) bool { act.Add(1); return false }
	pol.Reply = func(s *vh.Seeder, req vh.Msg) ([]vh.Msg, bool) {
		act.Add(1)
		if int(req.Index) >= tor.NumPieces || (pol.Have != nil && !pol.Have(int(req.Index))) || req.Length == 0 ||
			int(req.Begin)+int(req.Length) > tor.PieceLenOf(int(req.Index)) {
			return nil, false
		}
		sr.mu.Lock()
		defer sr.mu.Unlock()
		sr.served++
		key := [2]uint32{req.Index, req.Begin}
		// answer: the honest block, classified by what the client will do with it
		answer := func(m vh.Msg) vh.Msg {
			if sr.delivered[key] == 0 {
				sr.pieceGot[req.Index] += len(m.Data)
				sr.delivered[key]++
				blk(m, "U")
				sr.lastU = sr.nblk
				if sr.badPiece == int(req.Index) && sr.pieceGot[req.Index] >= tor.NonPadLen(int(req.Index)) {
					// the whole corrupted piece is on the wire: the hash check fails once this block is handled
					sr.trig = sr.nblk
					L.Emit(ev{"ev": "bad", "t": rt.idx, "c": sr.cid, "i": sr.nblk, "n": tor.NonPadLen(int(req.Index)), "piece": int(req.Index)})
				}
			} else {
				sr.delivered[key]++
				blk(m, "J")
			}
			return m
		}
		switch ps.Policy {
		case "dup": // every block twice: the second copy is a duplicate
			a := answer(s.HonestPiece(req))
			b := answer(s.HonestPiece(req))
			return []vh.Msg{a, b}, true
		case "unreq": // a block of another piece (not the one being downloaded from this peer) before the answer
			if tor.NumPieces > 1 {
				oi := (int(req.Index) + 1) % tor.NumPieces
				n := min(16384, tor.PieceLenOf(oi))
				junk := vh.Msg{ID: vh.MsgPiece, Index: uint32(oi), Begin: 0, Data: bytes.Repeat([]byte{0x77}, n)}
				blk(junk, "J")
				return []vh.Msg{junk, answer(s.HonestPiece(req))}, true
			}
		case "corrupt":
			if sr.served == max(ps.K, 1) && sr.delivered[key] == 0 {
				m := s.HonestPiece(req)
				m.Data[len(m.Data)/2] ^= 0xff
				sr.badPiece = int(req.Index)
				return []vh.Msg{answer(m)}, true
			}
		case "oob": // piece index out of range: the client drops the peer
			if sr.served == max(ps.K, 1) {
				m := vh.Msg{ID: vh.MsgPiece, Index: uint32(tor.NumPieces + 3), Begin: 0, Data: make([]byte, 16)}
				blk(m, "J")
				sr.trig = sr.nblk
				return []vh.Msg{m}, true
			}
		case "oobbegin": // block boundaries that were never requested: invalid, the client drops the peer
			if sr.served == max(ps.K, 1) {
				m := vh.Msg{ID: vh.MsgPiece, Index: req.Index, Begin: req.Begin + 1, Data: make([]byte, req.Length)}
				blk(m, "J")
				sr.trig = sr.nblk
				return []vh.Msg{m}, true
			}
		case "chokere": // choke with the request pending (no fast extension: the client re-queues it), unchoke, answer BOTH requests
			if sr.served == max(ps.K, 1) && !sr.choked {
				sr.choked = true
				r := req
				sr.held = &r
				go func() {
					s.Send(vh.Msg{ID: vh.MsgChoke})
					time.Sleep(25 * time.Millisecond)
					s.Send(vh.Msg{ID: vh.MsgUnchoke})
				}()
				return nil, true
			}
			if sr.held != nil && sr.held.Index == req.Index && sr.held.Begin == req.Begin {
				sr.held = nil
				a := answer(s.HonestPiece(req))
				b := answer(s.HonestPiece(req))
				return []vh.Msg{a, b}, true
			}
		}
		return []vh.Msg{answer(s.HonestPiece(req))}, true
	}
	return pol
}

func (rt *torRT) addr() string { return fmt.Sprintf("127.0.0.1:%d", rt.tr.Port()) }

func (rt *torRT) connect(ps PeerSpec) *seederRT {
	sr := &seederRT{cid: newCID(), spec: ps, delivered: map[[2]uint32]int{}, pieceGot: map[uint32]int{}, badPiece: -1, incoming: !ps.Listen}
	pol := rt.policy(sr)
	if ps.Listen {
		ch := make(chan *vh.Seeder, 4)
		l, err := vh.ListenSeeder(nil2(), ps.Name, ps.IP, rt.tor, pol, func(s *vh.Seeder) {
			select {
			case ch <- s:
			default:
			}
		})
		if err != nil {
			L.Emit(ev{"ev": "harness", "what": "listen-failed", "err": err.Error()})
			return nil
		}
		rt.lsn = append(rt.lsn, l)
		rt.tr.AddPeer(l.Addr.String())
		select {
		case s := <-ch:
			sr.s = s
		case <-time.After(5 * time.Second):
			L.Emit(ev{"ev": "harness", "what": "not-dialled"})
			return nil
		}
	} else {
		s, err := vh.ConnectSeeder(nil2(), ps.Name, ps.IP, rt.addr(), rt.tor, pol)
		if err != nil {
			L.Emit(ev{"ev": "harness", "what": "connect-failed", "err": err.Error()})
			return nil
		}
		sr.s = s
	}
	sr.s.Quiet = true
	rt.seeders = append(rt.seeders, sr)
	return sr
}

// quietT is a tracer without a file: vh's helpers want one.
var quietT *vh.Tracer

func nil2() *vh.Tracer {
	if quietT == nil {
		quietT, _ = vh.NewTracer("")
	}
	return quietT
}

func (sr *seederRT) alive() bool {
	select {
	case <-sr.s.Done():
		return false
	default:
		return true
	}
}

// ------------------------------------------------------------------------------------------------ scripted leecher

type leecherRT struct {
	cid   int
	c     *vh.Conn
	mu    sync.Mutex
	have  map[int]bool
	unch  chan struct{}
	piece chan vh.Msg
	done  chan struct{}
	once  sync.Once
	hung  atomic.Bool // the driver has hung up
	ip    string
}

func (rt *torRT) newLeecher(ip string) *leecherRT {
	nc, err := vh.DialFrom(ip, rt.addr(), 5*time.Second)
	if err != nil {
		L.Emit(ev{"ev": "harness", "what": "leecher-connect-failed", "err": err.Error()})
		return nil
	}
	rh, err := vh.PlainHandshake(nc, rt.tor.InfoHash, vh.PeerID("leecher-"+ip+strconv.Itoa(lifeBase)), vh.ReservedBits(true, false, false), 5*time.Second)
	if err != nil {
		nc.Close()
		L.Emit(ev{"ev": "harness", "what": "leecher-handshake-failed", "err": err.Error()})
		return nil
	}
	l := &leecherRT{ip: ip, cid: newCID(), c: &vh.Conn{C: nc, Name: "leecher", Remote: rh, Quiet: true}, have: map[int]bool{},
		unch: make(chan struct{}, 8), piece: make(chan vh.Msg, 64), done: make(chan struct{})}
	go func() {
		defer close(l.done)
		for {
			m, err := l.c.Recv(0)
			if err != nil {
				return
			}
			act.Add(1)
			l.mu.Lock()
			switch m.ID {
			case vh.MsgHaveAll:
				for i := 0; i < rt.tor.NumPieces; i++ {
					l.have[i] = true
				}
			case vh.MsgBitfield:
				for i := 0; i < rt.tor.NumPieces && i/8 < len(m.Data); i++ {
					if m.Data[i/8]&(1<<(7-uint(i%8))) != 0 {
						l.have[i] = true
					}
				}
			case vh.MsgHave:
				l.have[int(m.Index)] = true
			}
			l.mu.Unlock()
			switch m.ID {
			case vh.MsgUnchoke:
				select {
				case l.unch <- struct{}{}:
				default:
				}
			case vh.MsgPiece:
				// truth: payload bytes of a piece message that arrived at the peer
				L.Emit(ev{"ev": "got", "t": rt.idx, "c": l.cid, "n": len(m.Data)})
				select {
				case l.piece <- m:
				default:
				}
			}
		}
	}()
	l.c.Send(vh.Msg{ID: vh.MsgHaveNone})
	rt.leechers = append(rt.leechers, l)
	return l
}

func (l *leecherRT) alive() bool {
	if l.hung.Load() {
		return false
	}
	select {
	case <-l.done:
		return false
	default:
		return true
	}
}

// download n blocks from the client (which must own at least one piece)
func (rt *torRT) leech(op Op) {
	l := rt.newLeecher(fmt.Sprintf("127.0.0.%d", 60+len(rt.leechers)))
	if l == nil {
		return
	}
	time.Sleep(30 * time.Millisecond) // bitfield / have-all of the client
	l.c.Send(vh.Msg{ID: vh.MsgInterested})
	select {
	case <-l.unch:
	case <-time.After(4 * time.Second):
		L.Emit(ev{"ev": "harness", "what": "not-unchoked"})
		return
	}
	var pcs []int
	l.mu.Lock()
	for p := range l.have {
		if rt.tor.NonPadLen(p) == rt.tor.PieceLenOf(p) { // plain pieces only: requests into padding are C02/C03 matter
			pcs = append(pcs, p)
		}
	}
	l.mu.Unlock()
	sort.Ints(pcs)
	if len(pcs) == 0 {
		L.Emit(ev{"ev": "harness", "what": "client-has-no-plain-piece"})
		return
	}
	type rq struct{ p, b, n int }
	var reqs []rq
	for _, p := range pcs {
		pl := rt.tor.PieceLenOf(p)
		for b := 0; b < pl; b += 16384 {
			reqs = append(reqs, rq{p, b, min(16384, pl-b)})
		}
	}
	for k := 0; k < op.N && k < len(reqs); k++ {
		r := reqs[k]
		// truth: an upper bound of what the client may upload is what was asked for (logged before the request leaves)
		L.Emit(ev{"ev": "req", "t": rt.idx, "c": l.cid, "n": r.n})
		m := vh.Msg{ID: vh.MsgRequest, Index: uint32(r.p), Begin: uint32(r.b), Length: uint32(r.n)}
		l.c.Send(m)
		if op.DupReq {
			l.c.Send(m) // the same request again: served once (the second is rejected)
		}
		select {
		case <-l.piece:
		case <-l.done:
			return
		case <-time.After(4 * time.Second):
			L.Emit(ev{"ev": "harness", "what": "block-not-served"})
			return
		}
	}
	if op.Hang {
		l.hung.Store(true)
		l.c.Close() // the BlockUploaded notification of the last block may or may not reach the loop
	}
}

// ------------------------------------------------------------------------------------------------ truth on disk

func (rt *torRT) diskGood(dataDir string) []int {
	tor := rt.tor
	flat := make([]byte, tor.Total)
	for i, f := range tor.Files {
		if f.Pad || f.Length == 0 {
			continue
		}
		b, err := os.ReadFile(filepath.Join(dataDir, rt.id, tor.StoragePath(i)))
		if err != nil {
			continue
		}
		copy(flat[tor.FileStart(i):tor.FileStart(i)+f.Length], b)
	}
	good := []int{}
	pl := int64(tor.PieceLen)
	for p := 0; p < tor.NumPieces; p++ {
		h := sha1.Sum(flat[int64(p)*pl : int64(p)*pl+int64(tor.PieceLenOf(p))])
		if bytes.Equal(h[:], tor.Hashes[p]) {
			good = append(good, p)
		}
	}
	return good
}

// ------------------------------------------------------------------------------------------------ one lifetime

type lifeRT struct {
	sc      Scenario
	k       int
	dir     string
	cfg     torrent.Config
	sess    *torrent.Session
	tors    []*torRT
	lastQ   map[int]torrent.Stats
	dbPath  string
	wsPort  int
}

func (lr *lifeRT) statsEvent(rt *torRT, q bool) torrent.Stats {
	// one sampler at a time: the order of the reports in the log is the order of the calls
	statsMu.Lock()
	defer statsMu.Unlock()
	ms0 := time.Now().UnixMilli() - L.t0
	st := rt.tr.Stats()
	e := ev{"ev": "stats", "t": rt.idx, "q": q, "ms0": ms0, "status": st.Status.String(), "dl": st.Bytes.Downloaded, "ul": st.Bytes.Uploaded, "wa": st.Bytes.Wasted,
		"sf": int64(st.SeededFor / time.Millisecond), "completed": st.Bytes.Completed, "incomplete": st.Bytes.Incomplete, "total": st.Bytes.Total,
		"padding": st.Bytes.Padding, "alloc": st.Bytes.Allocated, "have": int(st.Pieces.Have), "missing": int(st.Pieces.Missing),
		"avail": int(st.Pieces.Available), "np": int(st.Pieces.Total), "checked": int(st.Pieces.Checked),
		"peers": st.Peers.Total, "pin": st.Peers.Incoming, "pout": st.Peers.Outgoing,
		"hs": st.Handshakes.Total, "hsin": st.Handshakes.Incoming, "hsout": st.Handshakes.Outgoing,
		"spdl": st.Speed.Download, "spul": st.Speed.Upload, "eta": int64(-1), "err": st.Error != nil}
	if st.ETA != nil {
		e["eta"] = int64(*st.ETA / time.Millisecond)
	}
	if q {
		hs := []int{}
		if sn := hub.Get(rt.id); sn != nil && !sn.BitfieldNil {
			hs = append(hs, sn.Have...)
		}
		e["haveset"] = hs
	}
	L.Emit(e)
	return st
}

func (lr *lifeRT) sessEvent(q bool) {
	ss := lr.sess.Stats()
	L.Emit(ev{"ev": "sess", "q": q, "torrents": ss.Torrents, "peers": ss.Peers, "dl": ss.BytesDownloaded, "ul": ss.BytesUploaded,
		"spdl": ss.SpeedDownload, "spul": ss.SpeedUpload})
}

type sig struct {
	dl, ul, wa, comp int64
	have, peers, hs  int
	status           string
	act              int64
	writing, downl   int
	wsact, hsx       int
	flags            string
}

func (lr *lifeRT) signature(rt *torRT) sig {
	st := rt.tr.Stats()
	s := sig{dl: st.Bytes.Downloaded, ul: st.Bytes.Uploaded, wa: st.Bytes.Wasted, comp: st.Bytes.Completed, have: int(st.Pieces.Have),
		peers: st.Peers.Total, hs: st.Handshakes.Total, status: st.Status.String(), act: act.Load()}
	if sn := hub.Get(rt.id); sn != nil {
		s.writing, s.downl, s.wsact = len(sn.Writing), sn.Downloads, sn.WebseedActive
		s.hsx = sn.OutHS + max(sn.InHS-len(rt.halves), 0) // handshakes in progress (beyond the deliberately silent connections)
		s.flags = fmt.Sprint(sn.Stopping, sn.Allocating, sn.Verifying, sn.DoVerify)
	}
	return s
}

// quiesce waits until goal holds and nothing has moved for a while, then records truth and the reports.
func (lr *lifeRT) quiesce(rt *torRT, goal func() bool, what string) bool {
	deadline := time.Now().Add(20 * time.Second)
	var prev sig
	stable, need := 0, 7
	reached := false
	for time.Now().Before(deadline) {
		it := time.Now()
		time.Sleep(12 * time.Millisecond)
		cur := lr.signature(rt)
		if el := time.Since(it); el > 45*time.Millisecond {
			prev = sig{} // the machine stalled: goroutines that carry traffic may have been held up as well, start over
		} else if el > 25*time.Millisecond {
			need = 16 // a loaded machine: ask for a longer silence
		}
		busy := cur.writing > 0 || cur.downl > 0 || cur.wsact > 0 || cur.hsx > 0 || strings.Contains(cur.flags, "true")
		if cur == prev && !busy && (goal == nil || goal()) {
			stable++
		} else {
			stable = 0
		}
		prev = cur
		if stable >= need {
			reached = true
			break
		}
	}
	if !reached {
		L.Emit(ev{"ev": "harness", "what": "goal-timeout", "goal": what})
	}
	lr.record(reached)
	return reached
}

// record emits, for every torrent: the environment's view of the connections, the disk truth, then Stats(); then Session.Stats().
func (lr *lifeRT) record(q bool) {
	// A connection closed by the client is seen by its scripted end a moment later: give the scripted ends time to
	// notice before the environment states which connections are open (the client's view is used to wait, not to decide).
	for try := 0; try < 60; try++ {
		agree := true
		for _, rt := range lr.tors {
			sn := hub.Get(rt.id)
			if sn == nil {
				continue
			}
			open := map[string]bool{}
			for _, p := range sn.PeerList {
				if h, _, err := net.SplitHostPort(p.Addr); err == nil {
					open[h] = true
				}
			}
			for _, sr := range rt.seeders {
				if sr.incoming && sr.alive() != open[sr.spec.IP] {
					agree = false
				}
			}
			for _, l := range rt.leechers {
				if l.alive() != open[l.ip] {
					agree = false
				}
			}
		}
		if agree {
			break
		}
		time.Sleep(10 * time.Millisecond)
	}
	for _, rt := range lr.tors {
		good := rt.diskGood(lr.cfg.DataDir)
		complete := len(good) == rt.tor.NumPieces
		upto := [][2]int{}
		peers, inc, out := 0, 0, 0
		avail := map[int]bool{}
		for _, sr := range rt.seeders {
			sr.mu.Lock()
			u := sr.trig
			al := sr.alive()
			if al {
				u = sr.nblk
				peers++
				if sr.incoming {
					inc++
				} else {
					out++
				}
				for p := 0; p < rt.tor.NumPieces; p++ {
					if h := haveFn(sr.spec.Have); h == nil || h(p) {
						avail[p] = true
					}
				}
			} else if sr.trig == 0 && complete && rt.det && !sr.spec.Multi && sr.lastU > u {
				// every block was needed from exactly one connection and every piece is on disk: all first deliveries were handled
				u = sr.lastU
			}
			sr.mu.Unlock()
			upto = append(upto, [2]int{sr.cid, u})
		}
		ulsure := []int{}
		for _, l := range rt.leechers {
			if l.alive() {
				peers++
				inc++
				ulsure = append(ulsure, l.cid)
			}
		}
		hsin := 0
		for range rt.halves {
			hsin++
		}
		// web seed as the only source so far in this lifetime: the pieces that appeared on disk came from it, byte for byte
		if rt.ws != nil && rt.wsOnly {
			n := 0
			for _, p := range good {
				if !rt.good0[p] {
					n += rt.tor.NonPadLen(p)
				}
			}
			rt.wsSure = max(rt.wsSure, n)
		}
		wsSure := rt.wsSure
		if rt.ws != nil && rt.wsOnly && rt.ws.badSent.Load() && lr.wsFailed(rt) {
			rt.wsBad = true
		}
		wsBadSure := rt.wsBad
		L.Emit(ev{"ev": "conns", "t": rt.idx, "q": q, "upto": upto, "ulsure": ulsure, "peers": peers, "pin": inc, "pout": out, "hsin": hsin,
			"avail": len(avail), "wssure": wsSure, "wsbadsure": wsBadSure})
		L.Emit(ev{"ev": "disk", "t": rt.idx, "good": good})
		lr.lastQ[rt.idx] = lr.statsEvent(rt, q)
	}
	lr.sessEvent(q)
}

func (lr *lifeRT) wsFailed(rt *torRT) bool {
	for _, w := range rt.tr.Webseeds() {
		if w.Error != nil && strings.Contains(w.Error.Error(), "corrupt") {
			return true
		}
	}
	return false
}

func (lr *lifeRT) waitStatus(rt *torRT, timeout time.Duration, pred func(*torrent.VerifSnap) bool) bool {
	return hub.Wait(rt.id, timeout, pred)
}

func running(s *torrent.VerifSnap) bool {
	return (s.Status == "Downloading" || s.Status == "Seeding") && !s.BitfieldNil && s.Acceptor
}

func (lr *lifeRT) runOp(op Op) {
	rt := lr.tors[0]
	if op.T == 2 && len(lr.tors) > 1 {
		rt = lr.tors[1]
	}
	L.Emit(ev{"ev": "op", "op": op.Op, "t": rt.idx, "goal": op.Goal})
	stopPoll := make(chan struct{})
	var pollWG sync.WaitGroup
	if !op.NoPoll && (op.Op == "dl" || op.Op == "ul" || op.Op == "verify") {
		pollWG.Add(1)
		go func() { // reports while blocks are in flight: judged against upper bounds and for monotonicity only
			defer pollWG.Done()
			tk := time.NewTicker(9 * time.Millisecond)
			defer tk.Stop()
			for {
				select {
				case <-tk.C:
					lr.statsEvent(rt, false)
				case <-stopPoll:
					return
				}
			}
		}()
	}
	endPoll := func() { close(stopPoll); pollWG.Wait() }
	switch op.Op {
	case "dl":
		multi := false
		for _, p := range op.Peers {
			multi = multi || p.Multi
		}
		rt.det = !multi && !(op.WS && len(op.Peers) > 0)
		if len(op.Peers) > 0 {
			rt.wsOnly = false // from now on a piece that appears on disk may have come from a peer
		}
		var banIPs []string
		for _, ps := range op.Peers {
			rt.connect(ps)
			if ps.Policy == "corrupt" || ps.Policy == "oob" || ps.Policy == "oobbegin" {
				banIPs = append(banIPs, ps.IP)
			}
		}
		var goal func() bool
		switch op.Goal {
		case "complete":
			goal = func() bool { s := hub.Get(rt.id); return s != nil && s.Status == "Seeding" }
		case "banned": // the liar is gone (banned after a corrupt piece, dropped after an invalid block)
			goal = func() bool {
				for _, sr := range rt.seeders {
					for _, ip := range banIPs {
						if sr.spec.IP == ip && sr.alive() {
							return false
						}
					}
				}
				return true
			}
		case "wsfail":
			goal = func() bool { return lr.wsFailed(rt) }
		default: // "stable": the client owns every piece that a connected seeder offers
			goal = func() bool {
				sn := hub.Get(rt.id)
				if sn == nil {
					return false
				}
				got := map[int]bool{}
				for _, p := range sn.Have {
					got[p] = true
				}
				for _, sr := range rt.seeders {
					if !sr.alive() {
						continue
					}
					h := haveFn(sr.spec.Have)
					for p := 0; p < rt.tor.NumPieces; p++ {
						if (h == nil || h(p)) && !got[p] {
							return false
						}
					}
				}
				return true
			}
		}
		lr.quiesce(rt, goal, op.Goal)
		endPoll()
	case "ul":
		rt.leech(op)
		lr.quiesce(rt, nil, "ul")
		endPoll()
	case "half": // a connection that never sends its handshake: counted in Handshakes, not in Peers; then it goes away
		endPoll()
		if nc, err := vh.DialFrom("127.0.0.90", rt.addr(), 3*time.Second); err == nil {
			rt.halves = append(rt.halves, nc)
			act.Add(1)
			lr.quiesce(rt, func() bool { s := hub.Get(rt.id); return s != nil && s.InHS == len(rt.halves) }, "half")
			nc.Close()
			rt.halves = nil
			act.Add(1)
			lr.quiesce(rt, func() bool { s := hub.Get(rt.id); return s != nil && s.InHS == 0 }, "half-closed")
		} else {
			L.Emit(ev{"ev": "harness", "what": "half-connect-failed", "err": err.Error()})
		}
	case "drop":
		for _, r := range lr.tors {
			for _, sr := range r.seeders {
				sr.s.Close()
			}
			for _, l := range r.leechers {
				l.hung.Store(true)
				l.c.Close()
			}
			for _, h := range r.halves {
				h.Close()
			}
			r.halves = nil
			for _, l := range r.lsn {
				l.Close()
			}
		}
		endPoll()
		time.Sleep(30 * time.Millisecond)
		lr.quiesce(rt, func() bool { s := hub.Get(rt.id); return s != nil && s.Peers == 0 && s.InHS == 0 }, "drop")
	case "stop":
		endPoll()
		L.Emit(ev{"ev": "cmd", "t": rt.idx, "op": "stop"})
		rt.tr.Stop()
		lr.waitStatus(rt, 5*time.Second, func(s *torrent.VerifSnap) bool { return s.Status == "Stopped" })
		L.Emit(ev{"ev": "cmd", "t": rt.idx, "op": "stopped"})
		rt.halves = nil
		if !op.NoPoll {
			lr.quiesce(rt, func() bool { s := hub.Get(rt.id); return s != nil && s.Status == "Stopped" }, "stop")
		}
	case "start":
		endPoll()
		L.Emit(ev{"ev": "cmd", "t": rt.idx, "op": "start"})
		rt.tr.Start()
		lr.waitStatus(rt, 8*time.Second, running)
		L.Emit(ev{"ev": "cmd", "t": rt.idx, "op": "started"})
		if !op.NoPoll {
			lr.quiesce(rt, func() bool { s := hub.Get(rt.id); return s != nil && running(s) }, "start")
		}
	case "verify":
		L.Emit(ev{"ev": "cmd", "t": rt.idx, "op": "verify"})
		rt.tr.Verify()
		time.Sleep(40 * time.Millisecond)
		// a manual verification ends with the torrent stopped
		done := func(s *torrent.VerifSnap) bool {
			return !s.DoVerify && !s.Verifying && !s.Allocating && !s.Stopping && !s.BitfieldNil && s.Status == "Stopped"
		}
		lr.waitStatus(rt, 8*time.Second, done)
		L.Emit(ev{"ev": "cmd", "t": rt.idx, "op": "stopped"})
		rt.halves = nil
		lr.quiesce(rt, func() bool { s := hub.Get(rt.id); return s != nil && done(s) }, "verify")
		endPoll()
	case "wait":
		endPoll()
		time.Sleep(time.Duration(op.N) * time.Millisecond)
		if !op.NoPoll {
			lr.record(true)
		}
	case "resume":
		endPoll()
		lr.confirmWrite()
	case "sample":
		endPoll()
		lr.quiesce(rt, nil, "sample")
	default:
		endPoll()
	}
}

// confirmWrite waits until a periodic resume write is known to have STARTED after this call: two modifications of the
// database file separated by at least half an interval (the first may belong to a write that read the counters earlier).
// The system is quiescent, so that write stores exactly the values of the last quiescent report.
func (lr *lifeRT) confirmWrite() {
	iv := time.Duration(lr.sc.Lives[lr.k].RWI) * time.Millisecond
	if iv <= 0 {
		L.Emit(ev{"ev": "harness", "what": "resume-without-interval"})
		return
	}
	mt := func() time.Time {
		fi, err := os.Stat(lr.dbPath)
		if err != nil {
			return time.Time{}
		}
		return fi.ModTime()
	}
	start := time.Now()
	last := mt()
	var first time.Time
	deadline := start.Add(iv*4 + 3*time.Second)
	for time.Now().Before(deadline) {
		time.Sleep(4 * time.Millisecond)
		m := mt()
		if m.Equal(last) {
			continue
		}
		last = m
		now := time.Now()
		if first.IsZero() {
			first = now
			continue
		}
		if now.Sub(first) >= iv/2 {
			// nothing moved meanwhile? (the counters must still be those of the last quiescent report)
			for _, rt := range lr.tors {
				st := rt.tr.Stats()
				lq := lr.lastQ[rt.idx]
				if st.Bytes.Downloaded != lq.Bytes.Downloaded || st.Bytes.Uploaded != lq.Bytes.Uploaded || st.Bytes.Wasted != lq.Bytes.Wasted {
					L.Emit(ev{"ev": "harness", "what": "moved-during-resume-wait"})
					return
				}
			}
			for _, rt := range lr.tors {
				L.Emit(ev{"ev": "persisted", "t": rt.idx, "sf": int64(lr.lastQ[rt.idx].SeededFor / time.Millisecond)})
			}
			return
		}
	}
	L.Emit(ev{"ev": "harness", "what": "no-resume-write"})
}

func lifeMain(args []string) {
	fs := flag.NewFlagSet("life", flag.ExitOnError)
	scf := fs.String("scenario", "", "")
	k := fs.Int("k", 0, "")
	dir := fs.String("dir", "", "")
	out := fs.String("out", "", "")
	t0 := fs.Int64("t0", 0, "")
	wsPort := fs.Int("wsport", 0, "")
	fs.Parse(args)
	var sc Scenario
	b, err := os.ReadFile(*scf)
	if err != nil || json.Unmarshal(b, &sc) != nil {
		fmt.Fprintln(os.Stderr, "bad scenario", err)
		os.Exit(3)
	}
	torrent.DisableLogging()
	L = newLog(*out, *t0)
	hub = vh.InstallSnapHub(nil2(), false)
	lifeBase = (*k + 1) * 100
	life := sc.Lives[*k]
	lr := &lifeRT{sc: sc, k: *k, dir: *dir, lastQ: map[int]torrent.Stats{}, wsPort: *wsPort}
	cfg, err := vh.BaseConfig(*dir, 8)
	if err != nil {
		fmt.Fprintln(os.Stderr, err)
		os.Exit(3)
	}
	cfg.ResumeWriteInterval = time.Hour
	if life.RWI > 0 {
		cfg.ResumeWriteInterval = time.Duration(life.RWI) * time.Millisecond
	}
	if sc.Endgame > 0 {
		cfg.EndgameMaxDuplicateDownloads = sc.Endgame
	}
	cfg.RequestTimeout = 4 * time.Second
	cfg.PeerHandshakeTimeout = 30 * time.Second // a silent connection stays in Handshakes until the driver closes it
	lr.cfg = cfg
	lr.dbPath = cfg.Database
	lay := layoutByName(sc.Layout, sc.Unit)
	ntor := max(sc.NTor, 1)
	// the web seed (torrent 1) lives at a port fixed for the scenario; it serves only in the first lifetime
	var ws *webSeed
	var wsurls []string
	if sc.WS != "" {
		wsurls = []string{fmt.Sprintf("http://127.0.0.1:%d/", *wsPort)}
		if *k == 0 {
			ws, err = startWebSeed(*wsPort)
			if err != nil {
				fmt.Fprintln(os.Stderr, "web seed:", err)
				os.Exit(3)
			}
		}
	}
	for i := 1; i <= ntor; i++ {
		var tor *vh.Torrent
		if i == 1 {
			tor = vh.Build(lay, sc.Seed, nil, wsurls)
		} else {
			tor = vh.Build(lay, sc.Seed+int64(i)*7717, nil, nil)
		}
		rt := &torRT{idx: i, id: fmt.Sprintf("t%d", i), tor: tor, good0: map[int]bool{}}
		if i == 1 && ws != nil {
			ws.tor, ws.t, ws.cid = tor, 1, newCID()
			if sc.WS == "corrupt" {
				pi := sc.WSK % tor.NumPieces
				for tor.NonPadLen(pi) == 0 { // a data byte: padding is not served
					pi = (pi + 1) % tor.NumPieces
				}
				ws.corrupt = firstDataByte(tor, pi)
			}
			rt.ws = ws
			first := Op{}
			if len(life.Ops) > 0 {
				first = life.Ops[0]
			}
			multi := first.Op == "dl" && first.WS && len(first.Peers) > 0
			ws.multi.Store(multi)
			ws.delay = time.Duration(sc.WSDelay) * time.Millisecond
			rt.wsOnly = !multi
		}
		lr.tors = append(lr.tors, rt)
	}
	sess, err := torrent.NewSession(cfg)
	if err != nil {
		fmt.Fprintln(os.Stderr, "session:", err)
		os.Exit(3)
	}
	lr.sess = sess
	for _, rt := range lr.tors {
		if *k == 0 {
			rt.tr, err = sess.AddTorrent(bytes.NewReader(rt.tor.Bytes), &torrent.AddTorrentOptions{ID: rt.id})
			if err != nil {
				fmt.Fprintln(os.Stderr, "add:", err)
				os.Exit(3)
			}
		} else {
			rt.tr = sess.GetTorrent(rt.id)
			if rt.tr == nil {
				L.Emit(ev{"ev": "harness", "what": "torrent-not-loaded", "t": rt.idx})
				fmt.Fprintln(os.Stderr, "torrent not loaded")
				os.Exit(3)
			}
		}
	}
	L.Emit(ev{"ev": "life", "k": *k, "rwi": life.RWI})
	for _, rt := range lr.tors {
		// a loaded torrent that was stopped stays stopped; anything else settles into Downloading / Seeding
		lr.waitStatus(rt, 8*time.Second, func(s *torrent.VerifSnap) bool { return running(s) || (s.Status == "Stopped" && *k > 0) })
		rt.tr.Stats()
	}
	time.Sleep(20 * time.Millisecond)
	lr.quiesce(lr.tors[0], nil, "loaded")
	for _, op := range life.Ops {
		lr.runOp(op)
	}
	if life.End == "crash" {
		L.Emit(ev{"ev": "crash"})
		L.f.Sync()
		syscall.Kill(os.Getpid(), syscall.SIGKILL)
		time.Sleep(time.Second)
	}
	// Stats() right before Close: Close persists what the torrents have counted
	lr.record(true)
	L.Emit(ev{"ev": "close"})
	sess.Close()
	L.Emit(ev{"ev": "closed"})
	L.f.Sync()
	os.Exit(0)
}

func firstDataByte(tor *vh.Torrent, pi int) int64 {
	ps := int64(pi) * int64(tor.PieceLen)
	pe := ps + int64(tor.PieceLenOf(pi))
	for fi, f := range tor.Files {
		if f.Pad {
			continue
		}
		lo, hi := max(ps, tor.FileStart(fi)), min(pe, tor.FileStart(fi)+f.Length)
		if lo < hi {
			return lo + (hi-lo)/2
		}
	}
	return ps
}

// ------------------------------------------------------------------------------------------------ parent

func readPersisted(db string, ids []string) ([]ev, error) {
	d, err := bbolt.Open(db, 0o600, &bbolt.Options{ReadOnly: true, Timeout: 3 * time.Second})
	if err != nil {
		return nil, err
	}
	defer d.Close()
	var out []ev
	err = d.View(func(tx *bbolt.Tx) error {
		b := tx.Bucket([]byte("torrents"))
		if b == nil {
			return nil
		}
		for i, id := range ids {
			tb := b.Bucket([]byte(id))
			if tb == nil {
				continue
			}
			num := func(k string) int64 {
				v := tb.Get([]byte(k))
				if v == nil {
					return 0
				}
				n, _ := strconv.ParseInt(string(v), 10, 64)
				return n
			}
			sf := int64(0)
			if v := tb.Get([]byte("seeded_for")); v != nil {
				if du, err := time.ParseDuration(string(v)); err == nil {
					sf = int64(du / time.Millisecond)
				}
			}
			out = append(out, ev{"ev": "db", "t": i + 1, "dl": num("bytes_downloaded"), "ul": num("bytes_uploaded"), "wa": num("bytes_wasted"), "sf": sf})
		}
		return nil
	})
	return out, err
}

func freePort() int {
	l, err := net.Listen("tcp4", "127.0.0.1:0")
	if err != nil {
		return 0
	}
	defer l.Close()
	return l.Addr().(*net.TCPAddr).Port
}

func runScenario(self string, sc Scenario, work string, outw *bufio.Writer) {
	dir := filepath.Join(work, fmt.Sprintf("sc%d", sc.ID))
	os.MkdirAll(dir, 0o755)
	defer os.RemoveAll(dir)
	scf := filepath.Join(dir, "scenario.json")
	b, _ := json.Marshal(sc)
	os.WriteFile(scf, b, 0o644)
	t0 := time.Now().UnixMilli()
	lay := layoutByName(sc.Layout, sc.Unit)
	ntor := max(sc.NTor, 1)
	var lines []string
	put := func(e ev) {
		if _, ok := e["ms"]; !ok {
			e["ms"] = time.Now().UnixMilli() - t0
		}
		e["sid"] = sc.ID
		x, _ := json.Marshal(e)
		lines = append(lines, string(x))
	}
	ids := []string{}
	for i := 1; i <= ntor; i++ {
		seed := sc.Seed
		if i > 1 {
			seed = sc.Seed + int64(i)*7717
		}
		tor := vh.Build(lay, seed, nil, nil)
		plen, dlen := make([]int, tor.NumPieces), make([]int, tor.NumPieces)
		for p := range plen {
			plen[p], dlen[p] = tor.PieceLenOf(p), tor.NonPadLen(p)
		}
		ids = append(ids, fmt.Sprintf("t%d", i))
		if i == 1 {
			put(ev{"ev": "init", "ntor": ntor, "layout": sc.Layout, "fam": sc.Fam})
		}
		put(ev{"ev": "tor", "t": i, "np": tor.NumPieces, "plen": plen, "dlen": dlen, "total": tor.Total})
	}
	wsPort := 0
	if sc.WS != "" {
		wsPort = freePort()
	}
	how := "new"
	ok := true
	for k := range sc.Lives {
		raw := filepath.Join(dir, fmt.Sprintf("raw-%d.ndjson", k))
		cmd := exec.Command(self, "life", "-scenario", scf, "-k", strconv.Itoa(k), "-dir", dir, "-out", raw, "-t0", strconv.FormatInt(t0, 10),
			"-wsport", strconv.Itoa(wsPort))
		var stderr bytes.Buffer
		cmd.Stderr = &stderr
		cmd.Stdout = &stderr
		if err := cmd.Start(); err != nil {
			put(ev{"ev": "harness", "what": "spawn-failed", "err": err.Error()})
			ok = false
			break
		}
		done := make(chan error, 1)
		go func() { done <- cmd.Wait() }()
		var werr error
		select {
		case werr = <-done:
		case <-time.After(120 * time.Second):
			cmd.Process.Kill()
			werr = <-done
			put(ev{"ev": "harness", "what": "watchdog"})
			ok = false
		}
		put(ev{"ev": "how", "how": how, "k": k})
		if f, err := os.Open(raw); err == nil {
			s := bufio.NewScanner(f)
			s.Buffer(make([]byte, 1<<20), 1<<24)
			for s.Scan() {
				var e ev
				if json.Unmarshal(s.Bytes(), &e) == nil {
					put(e)
				}
			}
			f.Close()
		}
		if !ok {
			break
		}
		killed := false
		if ee, isExit := werr.(*exec.ExitError); isExit {
			if ws, isWS := ee.Sys().(syscall.WaitStatus); isWS && ws.Signaled() && ws.Signal() == syscall.SIGKILL {
				killed = true
			}
		}
		switch {
		case werr == nil && sc.Lives[k].End != "crash":
			how = "clean"
		case killed && sc.Lives[k].End == "crash":
			how = "crash"
			evs, err := readPersisted(filepath.Join(dir, "session.db"), ids)
			if err != nil {
				put(ev{"ev": "harness", "what": "db-unreadable", "err": err.Error()})
				ok = false
			}
			for _, e := range evs {
				put(e)
			}
		default:
			tail := stderr.String()
			site := ""
			if i := strings.Index(tail, "panic: "); i >= 0 {
				site = strings.SplitN(tail[i+7:], "\n", 2)[0]
			}
			if len(tail) > 1500 {
				tail = tail[len(tail)-1500:]
			}
			if site != "" {
				put(ev{"ev": "panic", "site": site, "stderr": tail})
			} else {
				put(ev{"ev": "harness", "what": "child-failed", "err": fmt.Sprint(werr), "stderr": tail})
			}
			ok = false
		}
		if !ok {
			break
		}
	}
	put(ev{"ev": "end", "ok": ok})
	for _, l := range lines {
		outw.WriteString(l)
		outw.WriteByte('\n')
	}
	outw.Flush()
}

func runMain(args []string) {
	fs := flag.NewFlagSet("run", flag.ExitOnError)
	scf := fs.String("scenarios", "", "")
	out := fs.String("out", "trace.ndjson", "")
	work := fs.String("work", "", "")
	fs.Parse(args)
	self, _ := os.Executable()
	f, err := os.Open(*scf)
	if err != nil {
		panic(err)
	}
	of, err := os.Create(*out)
	if err != nil {
		panic(err)
	}
	outw := bufio.NewWriter(of)
	if *work == "" {
		*work, _ = os.MkdirTemp("/var/tmp", "x07work")
		defer os.RemoveAll(*work)
	}
	s := bufio.NewScanner(f)
	s.Buffer(make([]byte, 1<<20), 1<<24)
	for s.Scan() {
		var sc Scenario
		if json.Unmarshal(s.Bytes(), &sc) != nil {
			continue
		}
		fmt.Printf("BEGIN %d\n", sc.ID)
		runScenario(self, sc, *work, outw)
		fmt.Printf("END %d\n", sc.ID)
	}
	outw.Flush()
	of.Close()
}

func main() {
	if len(os.Args) < 2 {
		fmt.Fprintln(os.Stderr, "usage: x07 run|life ...")
		os.Exit(2)
	}
	switch os.Args[1] {
	case "run":
		runMain(os.Args[2:])
	case "life":
		lifeMain(os.Args[2:])
	default:
		os.Exit(2)
	}
}
