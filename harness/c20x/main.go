// Command c20x is the static extractor of property C20 (lock-up half).
//
// It walks the sources of package torrent (go/ast only, no type checker: a small syntactic type
// environment resolves receivers) and lists, per function, the ORDER of the blocking primitives the
// function performs:
//
//	RL/RU/WL/WU m     sync.RWMutex / sync.Mutex field m : RLock / RUnlock / Lock / Unlock (defer => at exit)
//	DBB/DBE Update    bbolt db.Update(func) begin / end (the closure body is inlined between them); View likewise
//	RES method        call of the resume database (internal/resumer/boltdbresumer): one db.Update
//	SEND c / RECV c   sendCommand(t.c, ..) / recvResponse(c, ..)   (close-aware helpers of torrent_commands.go)
//	CHSEND/CHRECV c   plain channel send / receive outside a select
//	SELECT cases      select statement (cases listed), CLOSE c = close(c), WAIT = WaitGroup.Wait
//	EXT x             blocking call into the DHT node / bbolt Close / RPC server
//	CALL f            call of another function of the package (resolved name), GO f = go statement
//
// Flags: alt = inside an error / early-return branch; loop = inside a for statement; g = depth of
// enclosing `go func(){}` literals. Function literals that are neither invoked, deferred, go'ed nor
// passed to db.Update/View are listed as pseudo functions "<outer>$<n>".
//
// The output (JSON on stdout) is compared by props/c20.py with the step sequences of spec/Locks.tla.
package main

import (
	"encoding/json"
	"fmt"
	"go/ast"
	"go/parser"
	"go/token"
	"os"
	"path/filepath"
	"sort"
	"strings"
)

type Ev struct {
	K    string `json:"k"`
	R    string `json:"r"`
	Alt  bool   `json:"alt,omitempty"`
	Loop bool   `json:"loop,omitempty"`
	G    int    `json:"g,omitempty"`
	Line int    `json:"line,omitempty"`
}

type Func struct {
	Name     string `json:"name"`
	File     string `json:"file"`
	Exported bool   `json:"exported"`
	Recv     string `json:"recv"`
	Events   []Ev   `json:"events"`
	Chans    []Chan `json:"chans,omitempty"`
}

// Chan: a channel created by this function as the value of a struct field (`Response: make(chan T, n)`): the capacity
// decides whether the party that answers on it (the event loop) needs the receiver to be there (Locks.tla: Unbuffered)
type Chan struct {
	R    string `json:"r"`
	Cap  int    `json:"cap"` // 0 = unbuffered, -1 = not a literal
	Line int    `json:"line"`
}

// madeChan: capacity of `make(chan T[, n])`, ok=false for any other expression
func madeChan(e ast.Expr) (int, bool) {
	c, ok := e.(*ast.CallExpr)
	if !ok || len(c.Args) == 0 {
		return 0, false
	}
	if id, ok := c.Fun.(*ast.Ident); !ok || id.Name != "make" {
		return 0, false
	}
	if _, ok := c.Args[0].(*ast.ChanType); !ok {
		return 0, false
	}
	if len(c.Args) == 1 {
		return 0, true
	}
	if bl, ok := c.Args[1].(*ast.BasicLit); ok && bl.Kind == token.INT {
		n := 0
		fmt.Sscanf(bl.Value, "%d", &n)
		return n, true
	}
	return -1, true
}

var (
	fset    = token.NewFileSet()
	fields  = map[string]map[string]string{} // struct type -> field -> type string
	methods = map[string]map[string]*ast.FuncDecl{}
	funcs   = map[string]*ast.FuncDecl{}
	results = map[string]string{} // qualified func name -> first result type
	out     = map[string]*Func{}
)

// typeStr renders a type expression: named types lose their pointer; maps/slices/arrays become
// "map:T" / "slice:T"; channels "chan"; imported types "pkg.T".
func typeStr(e ast.Expr) string {
	switch x := e.(type) {
	case *ast.Ident:
		return x.Name
	case *ast.StarExpr:
		return typeStr(x.X)
	case *ast.SelectorExpr:
		if id, ok := x.X.(*ast.Ident); ok {
			return id.Name + "." + x.Sel.Name
		}
	case *ast.MapType:
		return "map:" + typeStr(x.Value)
	case *ast.ArrayType:
		return "slice:" + typeStr(x.Elt)
	case *ast.ChanType:
		return "chan"
	case *ast.IndexExpr: // generic instantiation T[X]
		return typeStr(x.X)
	case *ast.FuncType:
		return "func"
	case *ast.Ellipsis:
		return "slice:" + typeStr(x.Elt)
	}
	return ""
}

type walker struct {
	fn    *Func
	env   map[string]string
	alt   int
	loop  int
	g     int
	nlit  int
	outer string
}

func (w *walker) emit(k, r string, pos token.Pos) {
	w.fn.Events = append(w.fn.Events, Ev{K: k, R: r, Alt: w.alt > 0, Loop: w.loop > 0, G: w.g, Line: fset.Position(pos).Line})
}

func (w *walker) typeOf(e ast.Expr) string {
	switch x := e.(type) {
	case *ast.Ident:
		return w.env[x.Name]
	case *ast.ParenExpr:
		return w.typeOf(x.X)
	case *ast.StarExpr:
		return w.typeOf(x.X)
	case *ast.UnaryExpr:
		return w.typeOf(x.X)
	case *ast.SelectorExpr:
		tx := w.typeOf(x.X)
		if f, ok := fields[tx]; ok {
			if t, ok := f[x.Sel.Name]; ok {
				return t
			}
		}
		return ""
	case *ast.IndexExpr:
		tx := w.typeOf(x.X)
		if strings.HasPrefix(tx, "map:") {
			return tx[4:]
		}
		if strings.HasPrefix(tx, "slice:") {
			return tx[6:]
		}
		return ""
	case *ast.CompositeLit:
		if x.Type != nil {
			return typeStr(x.Type)
		}
	case *ast.CallExpr:
		if name := w.callee(x); name != "" {
			return results[name]
		}
		if id, ok := x.Fun.(*ast.Ident); ok && id.Name == "make" && len(x.Args) > 0 {
			return typeStr(x.Args[0])
		}
	}
	return ""
}

// callee resolves a call to a function or method of the package ("Recv.Name" or "Name"); "" if it
// is not one.
func (w *walker) callee(c *ast.CallExpr) string {
	switch f := c.Fun.(type) {
	case *ast.Ident:
		if _, ok := funcs[f.Name]; ok {
			return f.Name
		}
	case *ast.IndexExpr: // generic call f[T](..)
		if id, ok := f.X.(*ast.Ident); ok {
			if _, ok := funcs[id.Name]; ok {
				return id.Name
			}
		}
	case *ast.SelectorExpr:
		tx := w.typeOf(f.X)
		if ms, ok := methods[tx]; ok {
			if _, ok := ms[f.Sel.Name]; ok {
				return tx + "." + f.Sel.Name
			}
			return ""
		}
		if tx != "" {
			return ""
		}
		// receiver of unknown type: accept a method name that is unique in the package
		var cand []string
		for t, ms := range methods {
			if _, ok := ms[f.Sel.Name]; ok {
				cand = append(cand, t+"."+f.Sel.Name)
			}
		}
		if len(cand) == 1 {
			if id, ok := f.X.(*ast.Ident); ok && id.Obj == nil && w.env[id.Name] == "" {
				// a package qualifier (imported package) — not ours
				return ""
			}
			return "?" + cand[0]
		}
	}
	return ""
}

func lastField(e ast.Expr) string {
	switch x := e.(type) {
	case *ast.SelectorExpr:
		return x.Sel.Name
	case *ast.Ident:
		return x.Name
	case *ast.CallExpr:
		return lastField(x.Fun) + "()"
	case *ast.ParenExpr:
		return lastField(x.X)
	case *ast.StarExpr:
		return lastField(x.X)
	case *ast.UnaryExpr:
		return lastField(x.X)
	case *ast.IndexExpr:
		return lastField(x.X)
	}
	return "?"
}

// primitive recognises a blocking primitive call; returns handled=true if the call was consumed.
func (w *walker) primitive(c *ast.CallExpr, deferred bool) (handled bool, dbBody *ast.FuncLit, dbKind string) {
	if id, ok := c.Fun.(*ast.Ident); ok {
		switch id.Name {
		case "close":
			if len(c.Args) == 1 {
				w.emit("CLOSE", lastField(c.Args[0]), c.Pos())
				return true, nil, ""
			}
		case "sendCommand":
			w.emit("SEND", lastField(c.Args[0]), c.Pos())
			return true, nil, ""
		case "recvResponse":
			w.emit("RECV", lastField(c.Args[0]), c.Pos())
			return true, nil, ""
		}
	}
	sel, ok := c.Fun.(*ast.SelectorExpr)
	if !ok {
		return false, nil, ""
	}
	tx := w.typeOf(sel.X)
	name := sel.Sel.Name
	switch tx {
	case "sync.RWMutex", "sync.Mutex":
		k := map[string]string{"Lock": "WL", "Unlock": "WU", "RLock": "RL", "RUnlock": "RU"}[name]
		if k != "" {
			w.emit(k, lastField(sel.X), c.Pos())
			return true, nil, ""
		}
	case "sync.WaitGroup":
		if name == "Wait" {
			w.emit("WAIT", lastField(sel.X), c.Pos())
		}
		return true, nil, ""
	case "bbolt.DB":
		switch name {
		case "Update", "View":
			if len(c.Args) == 1 {
				if fl, ok := c.Args[0].(*ast.FuncLit); ok {
					return true, fl, name
				}
			}
			w.emit("DBB", name, c.Pos())
			w.emit("DBE", name, c.Pos())
			return true, nil, ""
		case "Close":
			w.emit("EXT", "db.Close", c.Pos())
			return true, nil, ""
		}
	case "boltdbresumer.Resumer":
		w.emit("RES", name, c.Pos())
		return true, nil, ""
	case "dht.DHT":
		w.emit("EXT", "dht."+name, c.Pos())
		return true, nil, ""
	case "announcer.DHTAnnouncer", "announcer.PeriodicalAnnouncer", "announcer.StopAnnouncer", "verifier.Verifier", "allocator.Allocator":
		// helper goroutines of a torrent: Close() = close(closeC); <-doneC, i.e. the caller JOINS the goroutine
		if name == "Close" {
			w.emit("JOIN", lastField(sel.X), c.Pos())
			return true, nil, ""
		}
	case "rpcServer":
		// resolved as a package method below (rpcServer.Start/Stop)
	}
	if tx == "" {
		// unknown receiver with a lock-looking method: report it so that nothing is missed silently
		switch name {
		case "Lock", "Unlock", "RLock", "RUnlock":
			w.emit("?"+name, lastField(sel.X), c.Pos())
			return true, nil, ""
		}
	}
	return false, nil, ""
}

func isErrCond(e ast.Expr) bool {
	b, ok := e.(*ast.BinaryExpr)
	if !ok {
		return false
	}
	if b.Op == token.NEQ {
		if id, ok := b.X.(*ast.Ident); ok && strings.HasPrefix(id.Name, "err") {
			if n, ok := b.Y.(*ast.Ident); ok && n.Name == "nil" {
				return true
			}
		}
	}
	if b.Op == token.LAND || b.Op == token.LOR {
		return isErrCond(b.X) || isErrCond(b.Y)
	}
	return false
}

func endsInExit(b *ast.BlockStmt) bool {
	if b == nil || len(b.List) == 0 {
		return false
	}
	switch s := b.List[len(b.List)-1].(type) {
	case *ast.ReturnStmt:
		return true
	case *ast.BranchStmt:
		return s.Tok == token.CONTINUE || s.Tok == token.BREAK
	case *ast.ExprStmt:
		if c, ok := s.X.(*ast.CallExpr); ok {
			n := lastField(c.Fun)
			return n == "panic" || n == "crash"
		}
	}
	return false
}

type deferred struct {
	call *ast.CallExpr
	alt  int
	loop int
}

// body walks a function body; deferred calls run at its end in LIFO order.
func (w *walker) body(b *ast.BlockStmt) {
	var defers []deferred
	w.block(b, &defers)
	for i := len(defers) - 1; i >= 0; i-- {
		d := defers[i]
		sa, sl := w.alt, w.loop
		w.alt, w.loop = d.alt, d.loop
		if fl, ok := d.call.Fun.(*ast.FuncLit); ok {
			w.body(fl.Body)
		} else {
			w.call(d.call)
		}
		w.alt, w.loop = sa, sl
	}
}

func (w *walker) block(b *ast.BlockStmt, defers *[]deferred) {
	if b == nil {
		return
	}
	for _, s := range b.List {
		w.stmt(s, defers)
	}
}

func (w *walker) bind(lhs []ast.Expr, rhs []ast.Expr) {
	if len(rhs) == 1 && len(lhs) >= 1 {
		if id, ok := lhs[0].(*ast.Ident); ok && id.Name != "_" {
			if t := w.typeOf(rhs[0]); t != "" {
				w.env[id.Name] = t
			}
		}
		return
	}
	for i := range lhs {
		if i < len(rhs) {
			if id, ok := lhs[i].(*ast.Ident); ok && id.Name != "_" {
				if t := w.typeOf(rhs[i]); t != "" {
					w.env[id.Name] = t
				}
			}
		}
	}
}

func (w *walker) stmt(s ast.Stmt, defers *[]deferred) {
	switch x := s.(type) {
	case nil:
	case *ast.BlockStmt:
		w.block(x, defers)
	case *ast.ExprStmt:
		w.expr(x.X)
	case *ast.AssignStmt:
		for _, r := range x.Rhs {
			w.expr(r)
		}
		for _, l := range x.Lhs {
			if _, ok := l.(*ast.Ident); !ok {
				w.expr(l)
			}
		}
		if x.Tok == token.DEFINE || x.Tok == token.ASSIGN {
			w.bind(x.Lhs, x.Rhs)
		}
	case *ast.DeclStmt:
		if gd, ok := x.Decl.(*ast.GenDecl); ok {
			for _, sp := range gd.Specs {
				if vs, ok := sp.(*ast.ValueSpec); ok {
					for _, v := range vs.Values {
						w.expr(v)
					}
					for i, n := range vs.Names {
						if vs.Type != nil {
							w.env[n.Name] = typeStr(vs.Type)
						} else if i < len(vs.Values) {
							if t := w.typeOf(vs.Values[i]); t != "" {
								w.env[n.Name] = t
							}
						}
					}
				}
			}
		}
	case *ast.ReturnStmt:
		for _, r := range x.Results {
			w.expr(r)
		}
	case *ast.IfStmt:
		w.stmt(x.Init, defers)
		w.expr(x.Cond)
		a := isErrCond(x.Cond) || endsInExit(x.Body)
		if a {
			w.alt++
		}
		w.block(x.Body, defers)
		if a {
			w.alt--
		}
		if x.Else != nil {
			ea := false
			if eb, ok := x.Else.(*ast.BlockStmt); ok {
				ea = endsInExit(eb)
			}
			if ea {
				w.alt++
			}
			w.stmt(x.Else, defers)
			if ea {
				w.alt--
			}
		}
	case *ast.ForStmt:
		w.stmt(x.Init, defers)
		if x.Cond != nil {
			w.expr(x.Cond)
		}
		w.loop++
		w.block(x.Body, defers)
		w.stmt(x.Post, defers)
		w.loop--
	case *ast.RangeStmt:
		w.expr(x.X)
		tx := w.typeOf(x.X)
		if v, ok := x.Value.(*ast.Ident); ok && v != nil {
			if strings.HasPrefix(tx, "map:") {
				w.env[v.Name] = tx[4:]
			} else if strings.HasPrefix(tx, "slice:") {
				w.env[v.Name] = tx[6:]
			}
		}
		if k, ok := x.Key.(*ast.Ident); ok && k != nil && x.Value == nil {
			// for t := range map[*torrent]struct{}: key type is not tracked (only values are)
			_ = k
		}
		w.loop++
		w.block(x.Body, defers)
		w.loop--
	case *ast.SwitchStmt:
		w.stmt(x.Init, defers)
		if x.Tag != nil {
			w.expr(x.Tag)
		}
		for _, c := range x.Body.List {
			cc := c.(*ast.CaseClause)
			for _, e := range cc.List {
				w.expr(e)
			}
			for _, st := range cc.Body {
				w.stmt(st, defers)
			}
		}
	case *ast.TypeSwitchStmt:
		w.stmt(x.Init, defers)
		for _, c := range x.Body.List {
			cc := c.(*ast.CaseClause)
			for _, st := range cc.Body {
				w.stmt(st, defers)
			}
		}
	case *ast.SelectStmt:
		var cases []string
		for _, c := range x.Body.List {
			cc := c.(*ast.CommClause)
			switch cm := cc.Comm.(type) {
			case nil:
				cases = append(cases, "default")
			case *ast.SendStmt:
				cases = append(cases, "send:"+lastField(cm.Chan))
			case *ast.ExprStmt:
				if u, ok := cm.X.(*ast.UnaryExpr); ok {
					cases = append(cases, "recv:"+lastField(u.X))
				}
			case *ast.AssignStmt:
				if len(cm.Rhs) == 1 {
					if u, ok := cm.Rhs[0].(*ast.UnaryExpr); ok {
						cases = append(cases, "recv:"+lastField(u.X))
						if len(cm.Lhs) > 0 {
							if id, ok := cm.Lhs[0].(*ast.Ident); ok {
								if t := w.chanElem(u.X); t != "" {
									w.env[id.Name] = t
								}
							}
						}
					}
				}
			}
		}
		sort.Strings(cases)
		w.emit("SELECT", strings.Join(cases, ","), x.Pos())
		for _, c := range x.Body.List {
			cc := c.(*ast.CommClause)
			for _, st := range cc.Body {
				w.stmt(st, defers)
			}
		}
	case *ast.SendStmt:
		w.expr(x.Value)
		w.emit("CHSEND", lastField(x.Chan), x.Pos())
	case *ast.GoStmt:
		if fl, ok := x.Call.Fun.(*ast.FuncLit); ok {
			for _, a := range x.Call.Args {
				w.expr(a)
			}
			w.emit("GO", "lit", x.Pos())
			w.g++
			sa, sl := w.alt, w.loop
			w.bindLitParams(fl, x.Call.Args)
			w.body(fl.Body)
			w.alt, w.loop = sa, sl
			w.g--
			return
		}
		for _, a := range x.Call.Args {
			w.expr(a)
		}
		if name := w.callee(x.Call); name != "" {
			w.emit("GO", name, x.Pos())
		} else {
			w.emit("GO", "ext:"+lastField(x.Call.Fun), x.Pos())
		}
	case *ast.DeferStmt:
		*defers = append(*defers, deferred{x.Call, w.alt, w.loop})
	case *ast.LabeledStmt:
		w.stmt(x.Stmt, defers)
	case *ast.IncDecStmt, *ast.BranchStmt, *ast.EmptyStmt:
	}
}

// chanElem: element type of a channel-typed field (recorded as "chan" only) — commands carry their
// own types; only what the call resolution needs is tracked.
func (w *walker) chanElem(e ast.Expr) string {
	if sel, ok := e.(*ast.SelectorExpr); ok {
		tx := w.typeOf(sel.X)
		if f, ok := chanElems[tx]; ok {
			return f[sel.Sel.Name]
		}
	}
	return ""
}

var chanElems = map[string]map[string]string{}

func (w *walker) bindLitParams(fl *ast.FuncLit, args []ast.Expr) {
	if fl.Type.Params == nil {
		return
	}
	for _, p := range fl.Type.Params.List {
		for _, n := range p.Names {
			w.env[n.Name] = typeStr(p.Type)
		}
	}
}

func (w *walker) call(c *ast.CallExpr) {
	for _, a := range c.Args {
		if _, ok := a.(*ast.FuncLit); ok {
			continue
		}
		w.expr(a)
	}
	handled, dbBody, dbKind := w.primitive(c, false)
	if dbBody != nil {
		w.emit("DBB", dbKind, c.Pos())
		w.bindLitParams(dbBody, nil)
		w.body(dbBody.Body)
		w.emit("DBE", dbKind, c.End())
		return
	}
	if !handled {
		if sel, ok := c.Fun.(*ast.SelectorExpr); ok {
			w.expr(sel.X)
		}
		if fl, ok := c.Fun.(*ast.FuncLit); ok { // immediately invoked literal
			w.bindLitParams(fl, c.Args)
			w.body(fl.Body)
			return
		}
		if name := w.callee(c); name != "" {
			w.emit("CALL", name, c.Pos())
		}
	}
	for _, a := range c.Args {
		if fl, ok := a.(*ast.FuncLit); ok && dbBody == nil {
			w.literal(fl)
		}
	}
}

// literal: a function value that is stored / passed: listed as a pseudo function.
func (w *walker) literal(fl *ast.FuncLit) {
	w.nlit++
	name := fmt.Sprintf("%s$%d", w.outer, w.nlit)
	w.emit("LIT", name, fl.Pos())
	sub := &walker{fn: &Func{Name: name, File: w.fn.File}, env: map[string]string{}, outer: name}
	for k, v := range w.env {
		sub.env[k] = v
	}
	sub.bindLitParams(fl, nil)
	sub.body(fl.Body)
	out[name] = sub.fn
}

func (w *walker) expr(e ast.Expr) {
	switch x := e.(type) {
	case nil:
	case *ast.CallExpr:
		w.call(x)
	case *ast.FuncLit:
		w.literal(x)
	case *ast.UnaryExpr:
		if x.Op == token.ARROW {
			w.emit("CHRECV", lastField(x.X), x.Pos())
			return
		}
		w.expr(x.X)
	case *ast.BinaryExpr:
		w.expr(x.X)
		w.expr(x.Y)
	case *ast.ParenExpr:
		w.expr(x.X)
	case *ast.SelectorExpr:
		w.expr(x.X)
	case *ast.IndexExpr:
		w.expr(x.X)
		w.expr(x.Index)
	case *ast.SliceExpr:
		w.expr(x.X)
	case *ast.StarExpr:
		w.expr(x.X)
	case *ast.TypeAssertExpr:
		w.expr(x.X)
	case *ast.KeyValueExpr:
		if n, ok := madeChan(x.Value); ok {
			w.fn.Chans = append(w.fn.Chans, Chan{R: lastField(x.Key), Cap: n, Line: fset.Position(x.Pos()).Line})
		}
		w.expr(x.Value)
	case *ast.CompositeLit:
		for _, el := range x.Elts {
			w.expr(el)
		}
	}
}

func qual(fd *ast.FuncDecl) (string, string) {
	if fd.Recv != nil && len(fd.Recv.List) == 1 {
		r := typeStr(fd.Recv.List[0].Type)
		return r + "." + fd.Name.Name, r
	}
	return fd.Name.Name, ""
}

func main() {
	repo := os.Getenv("VERIF_REPO")
	if repo == "" {
		repo = "/repo"
	}
	pkgdir := "torrent"
	if len(os.Args) > 1 {
		repo = os.Args[1]
	}
	if len(os.Args) > 2 {
		pkgdir = os.Args[2]
	}
	dir := filepath.Join(repo, pkgdir)
	ents, err := os.ReadDir(dir)
	if err != nil {
		fmt.Fprintln(os.Stderr, err)
		os.Exit(2)
	}
	var files []*ast.File
	var names []string
	for _, e := range ents {
		n := e.Name()
		if !strings.HasSuffix(n, ".go") || strings.HasSuffix(n, "_test.go") || strings.HasPrefix(n, "verif_") ||
			strings.HasPrefix(n, "zz_verif") || strings.HasPrefix(n, "rlimit") {
			continue
		}
		f, err := parser.ParseFile(fset, filepath.Join(dir, n), nil, 0)
		if err != nil {
			fmt.Fprintln(os.Stderr, err)
			os.Exit(2)
		}
		files = append(files, f)
		names = append(names, n)
	}
	// pass 1: declarations
	for _, f := range files {
		for _, d := range f.Decls {
			switch x := d.(type) {
			case *ast.GenDecl:
				for _, sp := range x.Specs {
					ts, ok := sp.(*ast.TypeSpec)
					if !ok {
						continue
					}
					st, ok := ts.Type.(*ast.StructType)
					if !ok {
						continue
					}
					fm := map[string]string{}
					ce := map[string]string{}
					for _, fl := range st.Fields.List {
						t := typeStr(fl.Type)
						for _, n := range fl.Names {
							fm[n.Name] = t
							if ct, ok := fl.Type.(*ast.ChanType); ok {
								ce[n.Name] = typeStr(ct.Value)
							}
						}
						if len(fl.Names) == 0 { // embedded
							fm[strings.TrimPrefix(t[strings.LastIndex(t, ".")+1:], "*")] = t
						}
					}
					fields[ts.Name.Name] = fm
					chanElems[ts.Name.Name] = ce
				}
			case *ast.FuncDecl:
				q, r := qual(x)
				if r == "" {
					funcs[x.Name.Name] = x
				} else {
					if methods[r] == nil {
						methods[r] = map[string]*ast.FuncDecl{}
					}
					methods[r][x.Name.Name] = x
				}
				if x.Type.Results != nil && len(x.Type.Results.List) > 0 {
					results[q] = typeStr(x.Type.Results.List[0].Type)
				}
			}
		}
	}
	// pass 2: bodies
	for i, f := range files {
		for _, d := range f.Decls {
			fd, ok := d.(*ast.FuncDecl)
			if !ok || fd.Body == nil {
				continue
			}
			q, r := qual(fd)
			w := &walker{fn: &Func{Name: q, File: names[i], Exported: fd.Name.IsExported(), Recv: r}, env: map[string]string{}, outer: q}
			if fd.Recv != nil {
				for _, n := range fd.Recv.List[0].Names {
					w.env[n.Name] = r
				}
			}
			if fd.Type.Params != nil {
				for _, p := range fd.Type.Params.List {
					for _, n := range p.Names {
						w.env[n.Name] = typeStr(p.Type)
					}
				}
			}
			if fd.Type.Results != nil {
				for _, p := range fd.Type.Results.List {
					for _, n := range p.Names {
						w.env[n.Name] = typeStr(p.Type)
					}
				}
			}
			w.body(fd.Body)
			out[q] = w.fn
		}
	}
	// the resume database package: every exported method must be exactly one db.Update and nothing else
	resum := map[string][]Ev{}
	{
		rdir := filepath.Join(repo, "internal/resumer/boltdbresumer")
		ents, _ := os.ReadDir(rdir)
		sf, sm, sfu, sr := fields, methods, funcs, results
		fields, methods, funcs, results = map[string]map[string]string{}, map[string]map[string]*ast.FuncDecl{}, map[string]*ast.FuncDecl{}, map[string]string{}
		var rfiles []*ast.File
		for _, e := range ents {
			n := e.Name()
			if !strings.HasSuffix(n, ".go") || strings.HasSuffix(n, "_test.go") {
				continue
			}
			f, err := parser.ParseFile(fset, filepath.Join(rdir, n), nil, 0)
			if err != nil {
				continue
			}
			rfiles = append(rfiles, f)
		}
		for _, f := range rfiles {
			for _, d := range f.Decls {
				switch x := d.(type) {
				case *ast.GenDecl:
					for _, sp := range x.Specs {
						if ts, ok := sp.(*ast.TypeSpec); ok {
							if st, ok := ts.Type.(*ast.StructType); ok {
								fm := map[string]string{}
								for _, fl := range st.Fields.List {
									for _, n := range fl.Names {
										fm[n.Name] = typeStr(fl.Type)
									}
								}
								fields[ts.Name.Name] = fm
							}
						}
					}
				case *ast.FuncDecl:
					_, r := qual(x)
					if r != "" {
						if methods[r] == nil {
							methods[r] = map[string]*ast.FuncDecl{}
						}
						methods[r][x.Name.Name] = x
					} else {
						funcs[x.Name.Name] = x
					}
				}
			}
		}
		saveOut := out
		out = map[string]*Func{}
		for _, f := range rfiles {
			for _, d := range f.Decls {
				fd, ok := d.(*ast.FuncDecl)
				if !ok || fd.Body == nil {
					continue
				}
				q, r := qual(fd)
				if r != "Resumer" {
					continue
				}
				w := &walker{fn: &Func{Name: q}, env: map[string]string{}, outer: q}
				for _, n := range fd.Recv.List[0].Names {
					w.env[n.Name] = r
				}
				w.body(fd.Body)
				resum[fd.Name.Name] = w.fn.Events
			}
		}
		out = saveOut
		fields, methods, funcs, results = sf, sm, sfu, sr
	}
	type Out struct {
		Repo    string           `json:"repo"`
		Funcs   map[string]*Func `json:"funcs"`
		Resumer map[string][]Ev  `json:"resumer"`
	}
	for _, f := range out {
		if f.Events == nil {
			f.Events = []Ev{}
		}
	}
	enc := json.NewEncoder(os.Stdout)
	enc.SetIndent("", " ")
	enc.Encode(Out{Repo: repo, Funcs: out, Resumer: resum})
}
