package main

// X08 "LeechProto": a real torrent.Session downloads from up to three scripted peers (harness/vh wire codec) that are driven
// by ONE goroutine.  After every stimulus the driver runs a BARRIER on every open connection: a request for a reserved piece
// that nobody offers, which rain answers with a reject through the same FIFO write queue as its own messages.  When the echo
// arrives the driver has received everything rain sent in reaction to the stimulus, on every connection; the recorded history
// is in rain's own processing order (no timing assumptions).  Rain's verified set is bracketed for every step by the loop
// snapshots (hook H1) taken at the previous barrier (lo: verified for sure) and at this one (hi: possibly verified).
// Trace_LeechProto.tla judges the history.
//
//   Init   new scenario (np, plen, bs, mine = resume set)        conn  connection c established (fast?)
//   tx     the peer sends k = bitfield|haveall|havenone|have|choke|unchoke|af|piece|reject|interested
//   rx     rain sent k = bitfield|haveall|havenone|have|interested|notinterested|request|cancel|other (lo, hi)
//   bar    quiescent point of connection c (lo, hi)              closed  connection c is gone
//   stop / start   Torrent.Stop / Start (every connection is closed by rain)
//   end    complete?, pieces offered by honest peers, pieces rain holds

import (
	"bufio"
	"bytes"
	"encoding/json"
	"flag"
	"fmt"
	"math/rand"
	"os"
	"sort"
	"time"

	"github.com/cenkalti/rain/v2/internal/verif/vh"
	"github.com/cenkalti/rain/v2/torrent"
)

const BS = 16384

type ev map[string]any

type req struct{ i, b, n int }

type pconn struct {
	id     int
	c      *vh.Conn
	fast   bool
	closed bool
	ann    map[int]bool // announced to rain
	offer  map[int]bool // pieces this peer may announce
	chokd  bool
	out    []req
	af     map[int]bool
	bad    int // piece served with a corrupt byte (-1: none)
	intd   bool
}

type drv struct {
	rng  *rand.Rand
	w    *bufio.Writer
	hub  *vh.SnapHub
	T    *vh.Tracer
	dir  string
	nev  int
	mach []string
	cnt  map[string]int
}

type scen struct {
	d       *drv
	id      int
	cls     string
	tor     *vh.Torrent
	tr      *torrent.Torrent
	prov    *vh.MemProvider
	np      int // pieces without the reserved one
	resv    int
	conns   []*pconn
	nextIP  int
	nextID  int
	pend    []ev
	lo      []int
	seeding bool
	done    bool // the reserved piece has been offered: no barriers any more
	badUsed bool
}

func (d *drv) write(x ev) {
	b, _ := json.Marshal(x)
	d.w.Write(b)
	d.w.WriteByte('\n')
	d.nev++
}

func ints(m map[int]bool) []int {
	r := []int{}
	for k, v := range m {
		if v {
			r = append(r, k)
		}
	}
	sort.Ints(r)
	return r
}

func (s *scen) snap() []int {
	v := s.d.hub.Get(s.tr.ID())
	r := []int{}
	if v != nil {
		r = append(r, v.Have...)
	}
	sort.Ints(r)
	return r
}

func (s *scen) tx(p *pconn, k string, i, b, n int, set []int, m vh.Msg) {
	if set == nil {
		set = []int{}
	}
	s.d.write(ev{"op": "tx", "c": p.id, "k": k, "i": i, "b": b, "n": n, "set": set})
	s.d.cnt["tx_"+k]++
	if p.closed {
		return
	}
	if err := p.c.Send(m); err != nil {
		p.closed = true
	}
}

func bits(data []byte, n int) []int {
	r := []int{}
	for i := 0; i < n && i < len(data)*8; i++ {
		if data[i/8]&(1<<(7-uint(i%8))) != 0 {
			r = append(r, i)
		}
	}
	return r
}

// onRx records one message of rain (judged later, when the step's bounds are known).
func (s *scen) onRx(p *pconn, m vh.Msg) {
	e := ev{"op": "rx", "c": p.id, "k": "other", "i": int(m.Index), "b": int(m.Begin), "n": int(m.Length), "set": []int{}}
	switch m.ID {
	case vh.MsgKeepAlive:
		return
	case vh.MsgInterested:
		e["k"] = "interested"
	case vh.MsgNotInterested:
		e["k"] = "notinterested"
	case vh.MsgHave:
		e["k"] = "have"
	case vh.MsgBitfield:
		e["k"] = "bitfield"
		e["set"] = bits(m.Data, s.tor.NumPieces)
	case vh.MsgHaveAll:
		e["k"] = "haveall"
		all := []int{}
		for i := 0; i < s.tor.NumPieces; i++ {
			all = append(all, i)
		}
		e["set"] = all
	case vh.MsgHaveNone:
		e["k"] = "havenone"
	case vh.MsgRequest:
		e["k"] = "request"
		p.out = append(p.out, req{int(m.Index), int(m.Begin), int(m.Length)})
	case vh.MsgCancel:
		e["k"] = "cancel"
		p.drop(req{int(m.Index), int(m.Begin), int(m.Length)})
	default:
		e["i"], e["b"], e["n"] = 0, 0, 0
	}
	s.d.cnt["rx_"+e["k"].(string)]++
	s.pend = append(s.pend, e)
}

func (p *pconn) drop(r req) {
	for k, x := range p.out {
		if x == r {
			p.out = append(p.out[:k:k], p.out[k+1:]...)
			return
		}
	}
}

func (s *scen) markClosed(p *pconn) {
	if !p.closed {
		p.closed = true
	}
	p.c.Close()
	s.pend = append(s.pend, ev{"op": "closed", "c": p.id})
}

// barrier: everything rain sent on this connection in reaction to what the peers sent so far has been received.
func (s *scen) barrier(p *pconn) {
	if p.closed {
		return
	}
	if s.done || s.seeding {
		s.drain(p, 400*time.Millisecond)
		return
	}
	rq := vh.Msg{ID: vh.MsgRequest, Index: uint32(s.resv), Begin: 0, Length: uint32(min(BS, s.tor.PieceLenOf(s.resv)))}
	if err := p.c.Send(rq); err != nil {
		s.markClosed(p)
		return
	}
	deadline := time.Now().Add(20 * time.Second)
	for {
		m, err := p.c.Recv(time.Until(deadline))
		if err != nil {
			if time.Now().After(deadline) {
				s.d.mach = append(s.d.mach, fmt.Sprintf("scenario %d: no barrier echo within 20 s", s.id))
			}
			s.markClosed(p)
			return
		}
		if m.ID == vh.MsgReject && int(m.Index) == s.resv {
			return
		}
		s.onRx(p, m)
	}
}

// drain: read until nothing arrives for the given time (no echo available: rain holds every piece).
func (s *scen) drain(p *pconn, quiet time.Duration) {
	for !p.closed {
		m, err := p.c.Recv(quiet)
		if err != nil {
			if ne, ok := err.(interface{ Timeout() bool }); ok && ne.Timeout() {
				return
			}
			s.markClosed(p)
			return
		}
		s.onRx(p, m)
	}
}

// sync ends a step: barrier on every connection, then the bounds of the verified set, then one quiescent judgment per connection.
func (s *scen) sync(first *pconn) {
	if first != nil {
		s.barrier(first)
	}
	for _, p := range s.conns {
		if p != first {
			s.barrier(p)
		}
	}
	hi := s.snap()
	for _, e := range s.pend {
		if e["op"] == "rx" {
			e["lo"], e["hi"] = s.lo, hi
		}
		s.d.write(e)
	}
	s.pend = nil
	open := s.conns[:0:0]
	for _, p := range s.conns {
		if !p.closed {
			s.d.write(ev{"op": "bar", "c": p.id, "lo": s.lo, "hi": hi})
			open = append(open, p)
		}
	}
	s.conns = open
	s.lo = hi
}

func (s *scen) connect(fast, ext bool, kind string, offer map[int]bool, bad int) *pconn {
	ip := fmt.Sprintf("127.0.0.%d", s.nextIP)
	s.nextIP++
	nc, err := vh.DialFrom(ip, fmt.Sprintf("127.0.0.1:%d", s.tr.Port()), 5*time.Second)
	if err != nil {
		s.d.mach = append(s.d.mach, "dial: "+err.Error())
		return nil
	}
	rh, err := vh.PlainHandshake(nc, s.tor.InfoHash, vh.PeerID(fmt.Sprintf("x08-%d-%d", s.id, s.nextID)), vh.ReservedBits(fast, ext, false), 10*time.Second)
	if err != nil {
		nc.Close()
		s.d.mach = append(s.d.mach, "handshake: "+err.Error())
		return nil
	}
	s.nextID++
	p := &pconn{id: s.nextID, c: &vh.Conn{C: nc, Name: "x08", Quiet: true, Remote: rh}, fast: fast, ann: map[int]bool{}, offer: offer,
		chokd: true, af: map[int]bool{}, bad: bad}
	s.conns = append(s.conns, p)
	s.d.write(ev{"op": "conn", "c": p.id, "fast": fast})
	s.d.cnt["conns"]++
	all := len(offer) == s.tor.NumPieces
	switch {
	case kind == "lazy":
		if fast {
			s.tx(p, "havenone", 0, 0, 0, nil, vh.Msg{ID: vh.MsgHaveNone})
		}
	case kind == "all" && fast && all:
		for i := range offer {
			p.ann[i] = true
		}
		s.tx(p, "haveall", 0, 0, 0, ints(p.ann), vh.Msg{ID: vh.MsgHaveAll})
	default:
		for i := range offer {
			if kind != "some" || s.d.rng.Intn(2) == 0 {
				p.ann[i] = true
			}
		}
		if len(p.ann) == 0 && fast {
			s.tx(p, "havenone", 0, 0, 0, nil, vh.Msg{ID: vh.MsgHaveNone})
		} else {
			s.tx(p, "bitfield", 0, 0, 0, ints(p.ann), vh.Msg{ID: vh.MsgBitfield, Data: vh.BitfieldBytes(s.tor.NumPieces, func(i int) bool { return p.ann[i] })})
		}
	}
	s.sync(p)
	return p
}

func (s *scen) pieceMsg(p *pconn, r req) vh.Msg {
	pd := s.tor.PieceData(r.i)
	data := append([]byte(nil), pd[r.b:r.b+r.n]...)
	if r.i == p.bad && r.b == 0 {
		data[7] ^= 0x55
	}
	return vh.Msg{ID: vh.MsgPiece, Index: uint32(r.i), Begin: uint32(r.b), Data: data}
}

func (s *scen) serve(p *pconn, r req) {
	p.drop(r)
	if r.i < 0 || r.i >= s.tor.NumPieces || r.n <= 0 || r.b < 0 || r.b+r.n > s.tor.PieceLenOf(r.i) || !p.ann[r.i] {
		return // a request that the trace specification has judged already; nothing to serve
	}
	s.tx(p, "piece", r.i, r.b, r.n, nil, s.pieceMsg(p, r))
	s.sync(p)
}

func (s *scen) reject(p *pconn, r req) {
	p.drop(r)
	s.tx(p, "reject", r.i, r.b, r.n, nil, vh.Msg{ID: vh.MsgReject, Index: uint32(r.i), Begin: uint32(r.b), Length: uint32(r.n)})
	s.sync(p)
}

func (s *scen) choke(p *pconn) {
	s.tx(p, "choke", 0, 0, 0, nil, vh.Msg{ID: vh.MsgChoke})
	p.chokd = true
	if !p.fast {
		p.out = nil
		s.sync(p)
		p.out = nil // a request that crossed the choke is void
		return
	}
	s.sync(p)
	// BEP 6: every outstanding request is rejected or served (allowed-fast pieces may go on)
	for _, r := range append([]req(nil), p.out...) {
		if p.closed {
			return
		}
		if p.af[r.i] || s.d.rng.Intn(4) == 0 {
			s.serve(p, r)
		} else {
			s.reject(p, r)
		}
	}
}

func (s *scen) unchoke(p *pconn) {
	s.tx(p, "unchoke", 0, 0, 0, nil, vh.Msg{ID: vh.MsgUnchoke})
	p.chokd = false
	s.sync(p)
}

func (s *scen) have(p *pconn, i int) {
	p.ann[i] = true
	s.tx(p, "have", i, 0, 0, nil, vh.Msg{ID: vh.MsgHave, Index: uint32(i)})
	s.sync(p)
}

func (s *scen) unannounced(p *pconn) []int {
	r := []int{}
	for i := range p.offer {
		if !p.ann[i] {
			r = append(r, i)
		}
	}
	sort.Ints(r)
	return r
}

func (s *scen) randOffer() map[int]bool {
	o := map[int]bool{}
	for i := 0; i < s.np; i++ {
		if s.d.rng.Intn(3) != 0 {
			o[i] = true
		}
	}
	return o
}

func (s *scen) newPeer() {
	rng := s.d.rng
	fast := rng.Intn(2) == 0
	kind := []string{"bitfield", "some", "lazy", "bitfield"}[rng.Intn(4)]
	bad := -1
	offer := s.randOffer()
	if s.cls == "corrupt" && !s.badUsed && len(s.conns) >= 1 {
		for i := range offer {
			bad = i
			break
		}
		s.badUsed = bad >= 0
	}
	s.connect(fast, rng.Intn(2) == 0, kind, offer, bad)
}

func (s *scen) step() {
	rng := s.d.rng
	if len(s.conns) == 0 {
		s.newPeer()
		return
	}
	p := s.conns[rng.Intn(len(s.conns))]
	d := rng.Intn(100)
	switch {
	case d < 42:
		if len(p.out) > 0 {
			s.serve(p, p.out[rng.Intn(len(p.out))])
		} else if p.chokd {
			s.unchoke(p)
		} else {
			s.sync(nil)
		}
	case d < 50:
		if !p.chokd {
			s.choke(p)
		}
	case d < 64:
		if p.chokd {
			s.unchoke(p)
		}
	case d < 76:
		if u := s.unannounced(p); len(u) > 0 {
			s.have(p, u[rng.Intn(len(u))])
		}
	case d < 81:
		if p.fast && len(p.out) > 0 {
			s.reject(p, p.out[rng.Intn(len(p.out))])
		}
	case d < 88:
		if p.fast {
			i := rng.Intn(s.np)
			p.af[i] = true
			s.tx(p, "af", i, 0, 0, nil, vh.Msg{ID: vh.MsgAllowedFast, Index: uint32(i)})
			s.sync(p)
		}
	case d < 95:
		if len(s.conns) < 3 && s.nextIP < 40 {
			s.newPeer()
		}
	case d < 97:
		if len(s.conns) > 1 {
			s.tx(p, "close", 0, 0, 0, nil, vh.Msg{ID: vh.MsgKeepAlive})
			s.markClosed(p)
			time.Sleep(20 * time.Millisecond)
			s.sync(nil)
		}
	default:
		if s.cls == "stopstart" {
			s.stopStart()
		}
	}
}

func (s *scen) stopStart() {
	s.d.cnt["stopstart"]++
	s.tr.Stop()
	if !s.d.hub.Wait(s.tr.ID(), 10*time.Second, func(v *torrent.VerifSnap) bool { return v.Status == "Stopped" }) {
		s.d.mach = append(s.d.mach, "torrent does not stop")
		return
	}
	for _, p := range s.conns {
		s.drain(p, 500*time.Millisecond)
		if !p.closed {
			s.markClosed(p)
		}
	}
	s.flushWide() // what rain sent until the connections were gone
	s.conns = nil
	s.d.write(ev{"op": "stop"})
	s.tr.Start()
	if !s.d.hub.Wait(s.tr.ID(), 15*time.Second, func(v *torrent.VerifSnap) bool {
		return v.Acceptor && v.Port != 0 && (v.Status == "Downloading" || v.Status == "Seeding") && !v.BitfieldNil
	}) {
		s.d.mach = append(s.d.mach, "torrent does not start again")
		return
	}
	s.lo = s.snap()
	s.d.write(ev{"op": "start", "mine": s.lo})
}

// flushWide writes the received messages that have no barrier after them, judged with the widest bounds.
func (s *scen) flushWide() {
	for _, e := range s.pend {
		if e["op"] == "rx" {
			e["lo"], e["hi"] = s.lo, s.allPieces()
		}
		s.d.write(e)
	}
	s.pend = nil
}

func (s *scen) allPieces() []int {
	r := []int{}
	for i := 0; i < s.tor.NumPieces; i++ {
		r = append(r, i)
	}
	return r
}

func subset(a []int, m map[int]bool) bool {
	for _, x := range a {
		if !m[x] {
			return false
		}
	}
	return true
}

// finish: honest peers from here on - everybody announces what it offers, unchokes and answers every request.
func (s *scen) finish() (offered map[int]bool) {
	offered = map[int]bool{}
	have := func() map[int]bool {
		m := map[int]bool{}
		for _, i := range s.snap() {
			m[i] = true
		}
		return m
	}
	idle := 0
	for guard := 0; guard < 600 && idle < 10; guard++ {
		if len(s.conns) == 0 {
			if s.nextIP >= 60 {
				break
			}
			all := map[int]bool{}
			for i := 0; i < s.np; i++ {
				all[i] = true
			}
			if s.connect(s.d.rng.Intn(2) == 0, false, "bitfield", all, -1) == nil {
				break
			}
			continue
		}
		acted := false
		for _, p := range append([]*pconn(nil), s.conns...) {
			if p.closed {
				continue
			}
			if p.bad >= 0 { // the corrupting peer stays what it is; it is not counted as a source
				if len(p.out) > 0 {
					s.serve(p, p.out[0])
					acted = true
				}
				continue
			}
			if u := s.unannounced(p); len(u) > 0 {
				s.have(p, u[0])
				acted = true
			} else if p.chokd {
				s.unchoke(p)
				acted = true
			} else if len(p.out) > 0 {
				s.serve(p, p.out[0])
				acted = true
			}
		}
		for _, p := range s.conns {
			if p.bad < 0 && !p.closed {
				for i := range p.ann {
					offered[i] = true
				}
			}
		}
		h := have()
		if len(offered) > 0 && subset(ints(offered), h) && !acted {
			break
		}
		if !acted {
			idle++
			if idle == 2 || idle == 5 {
				// a peer that has rejected requests while it was not choking gets the loop going again with a choke / unchoke
				// (a reject alone does not make the loop ask again: MC_PieceDl_rejstall.cfg of X04, the request timeout is
				// the only other way out)
				for _, p := range append([]*pconn(nil), s.conns...) {
					if !p.closed && p.bad < 0 && !p.chokd {
						s.choke(p)
						s.unchoke(p)
					}
				}
			}
			time.Sleep(time.Duration(20*idle) * time.Millisecond)
			s.sync(nil)
		} else {
			idle = 0
		}
	}
	// let the last piece writes arrive: two equal snapshots in a row
	for k := 0; k < 6; k++ {
		a := fmt.Sprint(s.lo)
		time.Sleep(30 * time.Millisecond)
		s.sync(nil)
		if fmt.Sprint(s.lo) == a && k > 0 {
			break
		}
	}
	return offered
}

// complete: one peer declares itself interested (rain keeps it after completion), offers the reserved piece and serves it.
func (s *scen) complete() {
	if len(s.conns) == 0 {
		return
	}
	p := s.conns[0]
	if p.bad >= 0 || !subset(s.allPiecesBut(), p.ann) {
		return
	}
	s.tx(p, "interested", 0, 0, 0, nil, vh.Msg{ID: vh.MsgInterested})
	p.intd = true
	s.sync(p)
	s.done = true
	p.ann[s.resv] = true
	s.tx(p, "have", s.resv, 0, 0, nil, vh.Msg{ID: vh.MsgHave, Index: uint32(s.resv)})
	for k := 0; k < 20 && !p.closed; k++ {
		s.drain(p, 150*time.Millisecond)
		if len(p.out) == 0 {
			break
		}
		s.flushWide()
		for _, r := range append([]req(nil), p.out...) {
			p.drop(r)
			s.tx(p, "piece", r.i, r.b, r.n, nil, s.pieceMsg(p, r))
		}
	}
	s.d.hub.Wait(s.tr.ID(), 5*time.Second, func(v *torrent.VerifSnap) bool { return v.Completed })
	time.Sleep(50 * time.Millisecond)
	s.d.cnt["completions"]++
	s.sync(nil)
	s.sync(nil)
}

func (s *scen) allPiecesBut() []int {
	r := []int{}
	for i := 0; i < s.np; i++ {
		r = append(r, i)
	}
	return r
}

func (d *drv) run(id int, cls string) {
	rng := d.rng
	np := 3 + rng.Intn(3)
	plen := []int{2 * BS, 2*BS + 500, BS, 3 * BS}[rng.Intn(4)]
	total := np*plen + BS/2 + rng.Intn(BS/2)
	lay := vh.Layout{Name: fmt.Sprintf("x08-%d", id), PieceLen: plen, Files: []vh.FileSpec{{Length: int64(total)}}}
	tor := vh.Build(lay, int64(id)+11, nil, nil)
	cfg, err := vh.BaseConfig(d.dir, 20)
	if err != nil {
		d.mach = append(d.mach, err.Error())
		return
	}
	prov := vh.NewMemProvider(d.T)
	prov.Truth[""] = tor
	prov.Quiet = true
	cfg.CustomStorage = prov
	cfg.RequestTimeout = 30 * time.Second
	os.Remove(cfg.Database)
	sess, err := torrent.NewSession(cfg)
	if err != nil {
		d.mach = append(d.mach, err.Error())
		return
	}
	defer sess.Close()
	tid := fmt.Sprintf("x08t%d", id)
	s := &scen{d: d, id: id, cls: cls, tor: tor, prov: prov, np: tor.NumPieces - 1, resv: tor.NumPieces - 1, nextIP: 2}
	mine := map[int]bool{}
	switch cls {
	case "resume":
		data := make([]byte, len(tor.Data))
		one := -1
		if rng.Intn(2) == 0 { // exactly one piece on the disk
			one = rng.Intn(s.np)
		}
		for i := 0; i < s.np; i++ {
			if (one < 0 && rng.Intn(2) == 0) || i == one {
				mine[i] = true
				copy(data[i*plen:], tor.PieceData(i))
			}
		}
		prov.Store(tid).Put(tor.StoragePath(0), data)
	case "seeding":
		prov.Store(tid).Fill(tor)
		s.seeding = true
		for i := 0; i < tor.NumPieces; i++ {
			mine[i] = true
		}
	}
	tr, err := sess.AddTorrent(bytes.NewReader(tor.Bytes), &torrent.AddTorrentOptions{ID: tid})
	if err != nil {
		d.mach = append(d.mach, err.Error())
		return
	}
	s.tr = tr
	want := "Downloading"
	if s.seeding {
		want = "Seeding"
	}
	if !d.hub.Wait(tid, 15*time.Second, func(v *torrent.VerifSnap) bool { return v.Acceptor && v.Port != 0 && v.Status == want && !v.BitfieldNil }) {
		d.mach = append(d.mach, fmt.Sprintf("scenario %d: torrent not %s", id, want))
		return
	}
	s.lo = s.snap()
	pl := []int{}
	for i := 0; i < tor.NumPieces; i++ {
		pl = append(pl, tor.PieceLenOf(i))
	}
	d.write(ev{"op": "Init", "scn": id, "cls": cls, "np": tor.NumPieces, "plen": pl, "bs": BS, "mine": s.lo, "resv": s.resv, "want": ints(mine)})
	d.cnt["scn_"+cls]++
	if s.seeding {
		for k := 0; k < 2; k++ {
			o := s.randOffer()
			p := s.connect(k == 0, rng.Intn(2) == 0, "bitfield", o, -1)
			if p != nil {
				s.unchoke(p)
			}
		}
		s.sync(nil)
		d.write(ev{"op": "end", "complete": true, "offered": []int{}, "have": s.snap()})
		return
	}
	switch cls {
	case "resume":
		// the first message towards a peer with and without fast extension while rain holds some pieces
		s.connect(true, rng.Intn(2) == 0, "some", s.randOffer(), -1)
		s.connect(false, rng.Intn(2) == 0, "bitfield", s.randOffer(), -1)
	case "af":
		// allowed-fast: a choking peer grants a piece, then announces it; rain may request it while choked (BEP 6)
		o := s.randOffer()
		o[0] = true
		if p := s.connect(true, false, "lazy", o, -1); p != nil {
			for _, i := range ints(o)[:1+rng.Intn(len(o))] {
				p.af[i] = true
				s.tx(p, "af", i, 0, 0, nil, vh.Msg{ID: vh.MsgAllowedFast, Index: uint32(i)})
				s.sync(p)
			}
			s.have(p, 0)
			for k := 0; k < 4 && len(p.out) > 0 && !p.closed; k++ {
				s.serve(p, p.out[0])
			}
		}
	case "endgame":
		// two peers with everything; the second one (fast extension) gets requests, chokes and has not rejected them yet when
		// the first one - which takes the stalled piece over - completes it: rain cancels the requests of the second one
		all := map[int]bool{}
		for i := 0; i < s.np; i++ {
			all[i] = true
		}
		a := s.connect(rng.Intn(2) == 0, false, "bitfield", all, -1)
		b := s.connect(true, false, "bitfield", all, -1)
		if a != nil && b != nil {
			s.unchoke(b)
			s.tx(b, "choke", 0, 0, 0, nil, vh.Msg{ID: vh.MsgChoke})
			b.chokd = true
			s.sync(b)
			s.unchoke(a)
			for k := 0; k < 60 && len(a.out) > 0 && !a.closed; k++ {
				s.serve(a, a.out[0])
			}
			for _, r := range append([]req(nil), b.out...) { // what is still outstanding is rejected now
				s.reject(b, r)
			}
		}
	}
	steps := 25 + rng.Intn(35)
	for k := 0; k < steps; k++ {
		s.step()
	}
	offered := s.finish()
	got := s.snap()
	d.write(ev{"op": "end", "complete": subset(ints(offered), toSet(got)), "offered": ints(offered), "have": got})
	if cls != "nocomplete" {
		s.complete()
	}
}

func toSet(a []int) map[int]bool {
	m := map[int]bool{}
	for _, x := range a {
		m[x] = true
	}
	return m
}

func main() {
	seed := flag.Int64("seed", 1, "")
	n := flag.Int("n", 10, "scenarios")
	out := flag.String("out", "trace.ndjson", "")
	flag.Parse()
	torrent.DisableLogging()
	dir, err := os.MkdirTemp("/var/tmp", "x08-drv")
	if err != nil {
		panic(err)
	}
	defer os.RemoveAll(dir)
	f, err := os.Create(*out)
	if err != nil {
		panic(err)
	}
	T, _ := vh.NewTracer("")
	d := &drv{rng: rand.New(rand.NewSource(*seed*6151 + 17)), w: bufio.NewWriterSize(f, 1<<20), T: T, dir: dir, cnt: map[string]int{}}
	d.hub = vh.InstallSnapHub(T, false)
	classes := []string{"plain", "resume", "corrupt", "stopstart", "seeding", "af", "endgame", "nocomplete"}
	for k := 0; k < *n; k++ {
		cls := classes[k%len(classes)]
		if k >= len(classes) {
			cls = classes[d.rng.Intn(len(classes))]
		}
		d.run(k, cls)
		d.w.Flush()
	}
	d.w.Flush()
	f.Close()
	b, _ := json.Marshal(map[string]any{"events": d.nev, "scenarios": *n, "machinery": d.mach, "counts": d.cnt})
	fmt.Println(string(b))
}
