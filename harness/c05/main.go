// Command c05 enumerates crash points of a real leeching torrent.Session on REAL file storage and a real
// bbolt resume database (property C05: crash-consistent resume).
//
//	c05 run   -plan plan.ndjson -out abs.ndjson -work DIR -par N   parent: runs scenarios, SIGKILLs children, inspects
//	                                                               the database file and the data files, restarts
//	c05 child -dir D -layout L -unit U -seed S ...                 one process life of the client (killed by the parent)
//	c05 probe -layout L -unit U                                    geometry of a layout (pieces, files, write sections)
//
// A scenario is a sequence of process lives ("runs") on one database + data directory. Every run ends with a
// SIGKILL at an enumerated point (before / in the middle of / after a storage write, after the bit is set, after
// it was persisted, during stop / close / verification / allocation, at a jittered time) or with a graceful close.
// Between two runs a subset of the data files may be deleted. After every kill the parent reads the resume
// bitfield out of the database FILE (read-only bbolt on a copy) and classifies the content of every piece in the
// data FILES against the ground truth. The abstract trace is judged by spec/Trace_Resume.tla.
package main

import (
	"bufio"
	"bytes"
	"encoding/json"
	"flag"
	"fmt"
	"io"
	"io/fs"
	"math/rand"
	"os"
	"os/exec"
	"path/filepath"
	"sort"
	"strconv"
	"strings"
	"sync"
	"sync/atomic"
	"time"

	"github.com/cenkalti/rain/v2/internal/storage"
	"github.com/cenkalti/rain/v2/internal/storage/filestorage"
	"github.com/cenkalti/rain/v2/internal/verif/vh"
	"github.com/cenkalti/rain/v2/torrent"
)

const torrentID = "t1"

// ---------------------------------------------------------------------------------------------- geometry

type geo struct {
	tor   *vh.Torrent
	files []int       // ordinal -> index in tor.Files (non-padding files, including empty ones)
	ord   map[int]int // index in tor.Files -> ordinal
	fo    [][]int     // piece -> ordinals of the (non-empty, non-padding) files it overlaps, in write order
	zero  [][2]int64  // all-zero data ranges of the content (zero layouts)
	id    string      // torrent id in the session (directory below the data directory)
}

// zeroPieces lists the pieces whose whole content is zero.
func (g *geo) zeroPieces() []int {
	out := []int{}
	for p := 0; p < g.tor.NumPieces; p++ {
		z := true
		for _, x := range g.tor.PieceData(p) {
			if x != 0 {
				z = false
				break
			}
		}
		if z {
			out = append(out, p)
		}
	}
	return out
}

// plant writes a pre-existing copy of data file o before the client runs: "good" (the content), "stale" (full
// length, every byte different from the content and not zero), "patch" (the content, but every all-zero range
// holds other bytes), "short" (first half of a stale copy).
func (g *geo) plant(dataDir string, o int, kind string, rng *rand.Rand) error {
	fi := g.files[o]
	want := g.tor.FileData(fi)
	b := append([]byte(nil), want...)
	junk := func(i int) {
		x := byte(1 + rng.Intn(255))
		if x == want[i] {
			x ^= 0x5a
			if x == 0 {
				x = 0x33
			}
		}
		b[i] = x
	}
	switch kind {
	case "good":
	case "stale", "short":
		for i := range b {
			junk(i)
		}
		if kind == "short" {
			b = b[:len(b)/2]
		}
	case "patch":
		fs := g.tor.FileStart(fi)
		for _, z := range g.zero {
			for j := max(z[0], fs); j < min(z[1], fs+int64(len(b))); j++ {
				junk(int(j - fs))
			}
		}
	default:
		return fmt.Errorf("unknown pre kind %q", kind)
	}
	path := g.path(dataDir, o)
	if err := os.MkdirAll(filepath.Dir(path), 0o750); err != nil {
		return err
	}
	return os.WriteFile(path, b, 0o640)
}

func layoutByName(name string, unit int) (vh.Layout, bool) {
	for _, l := range vh.StdLayouts(unit) {
		if l.Name == name {
			return l, true
		}
	}
	return vh.Layout{}, false
}

// zeroLayout returns the layouts that contain all-zero DATA pieces (whole file of zeros, zero run aligned to a
// piece, zeros up to the end incl. the short last piece, zero piece spanning two files) and their zero ranges.
func zeroLayout(name string, unit int) (vh.Layout, [][2]int64, bool) {
	u := int64(unit)
	switch name {
	case "zfile":
		return vh.Layout{Name: name, PieceLen: 2 * unit, Files: []vh.FileSpec{{Path: []string{"a"}, Length: 2 * u}, {Path: []string{"z"}, Length: 2 * u},
			{Path: []string{"c"}, Length: u / 2}}}, [][2]int64{{2 * u, 4 * u}}, true
	case "zrun":
		return vh.Layout{Name: name, PieceLen: 2 * unit, Files: []vh.FileSpec{{Length: 5*u + u/2}}}, [][2]int64{{2 * u, 4 * u}}, true
	case "zend":
		return vh.Layout{Name: name, PieceLen: 2 * unit, Files: []vh.FileSpec{{Length: 4*u + 100}}}, [][2]int64{{2 * u, 4*u + 100}}, true
	case "zspan":
		return vh.Layout{Name: name, PieceLen: 2 * unit, Files: []vh.FileSpec{{Path: []string{"a"}, Length: 3 * u}, {Path: []string{"d", "b"}, Length: 2*u + 7}}},
			[][2]int64{{2 * u, 4 * u}}, true
	}
	return vh.Layout{}, nil, false
}

// spanLayout returns layouts whose pieces span more than two files / span files across a padding file (write-fault
// family: a piece write consists of one storage write per file section).
func spanLayout(name string, unit int) (vh.Layout, bool) {
	u := int64(unit)
	switch name {
	case "span3":
		return vh.Layout{Name: name, PieceLen: 2 * unit, Files: []vh.FileSpec{{Path: []string{"a"}, Length: u + 5}, {Path: []string{"d", "b"}, Length: u / 2},
			{Path: []string{"c"}, Length: 2*u + 9}}}, true
	case "spanpad":
		return vh.Layout{Name: name, PieceLen: 2 * unit, Files: []vh.FileSpec{{Path: []string{"a"}, Length: u}, {Path: []string{".pad", "0"}, Length: u / 2, Pad: true},
			{Path: []string{"b"}, Length: 2*u + 100}}}, true
	}
	return vh.Layout{}, false
}

func newGeo(layout string, unit int, seed int64) (*geo, error) {
	g := &geo{ord: map[int]int{}, id: torrentID}
	if zl, zr, ok := zeroLayout(layout, unit); ok {
		g.tor = vh.BuildZero(zl, seed, zr)
		g.zero = zr
	} else {
		l, ok := layoutByName(layout, unit)
		if !ok {
			l, ok = spanLayout(layout, unit)
		}
		if !ok {
			return nil, fmt.Errorf("unknown layout %q", layout)
		}
		g.tor = vh.Build(l, seed, nil, nil)
	}
	for i, f := range g.tor.Files {
		if f.Pad {
			continue
		}
		g.ord[i] = len(g.files)
		g.files = append(g.files, i)
	}
	pl := int64(g.tor.PieceLen)
	for p := 0; p < g.tor.NumPieces; p++ {
		ps, pe := int64(p)*pl, int64(p)*pl+int64(g.tor.PieceLenOf(p))
		var l []int
		for o, fi := range g.files {
			lo, hi := g.tor.FileStart(fi), g.tor.FileStart(fi)+g.tor.Files[fi].Length
			if max(lo, ps) < min(hi, pe) {
				l = append(l, o)
			}
		}
		g.fo = append(g.fo, l)
	}
	return g, nil
}

func (g *geo) path(dataDir string, o int) string {
	return filepath.Join(dataDir, g.id, g.tor.StoragePath(g.files[o]))
}

// classes reads the data files and classifies every piece: good (all non-padding bytes equal the ground
// truth), nil (all of them zero or absent), partial (anything else); exist[o] tells whether file o is there.
func (g *geo) classes(dataDir string) (class []string, exist []bool) {
	content := make([][]byte, len(g.files))
	exist = make([]bool, len(g.files))
	for o := range g.files {
		b, err := os.ReadFile(g.path(dataDir, o))
		if err == nil {
			exist[o] = true
			content[o] = b
		}
	}
	pl := int64(g.tor.PieceLen)
	for p := 0; p < g.tor.NumPieces; p++ {
		ps, pe := int64(p)*pl, int64(p)*pl+int64(g.tor.PieceLenOf(p))
		good, zero := true, true
		for _, o := range g.fo[p] {
			fi := g.files[o]
			fs := g.tor.FileStart(fi)
			lo, hi := max(fs, ps), min(fs+g.tor.Files[fi].Length, pe)
			want := g.tor.Data[lo:hi]
			var got []byte
			if int64(len(content[o])) >= hi-fs {
				got = content[o][lo-fs : hi-fs]
			} else if int64(len(content[o])) > lo-fs {
				got = content[o][lo-fs:]
			}
			if !bytes.Equal(got, want) {
				good = false
			}
			for _, x := range got {
				if x != 0 {
					zero = false
					break
				}
			}
		}
		switch {
		case good:
			class = append(class, "good")
		case zero:
			class = append(class, "nil")
		default:
			class = append(class, "partial")
		}
	}
	return
}

func bitsOf(b []byte, n int) []int {
	out := []int{}
	for i := 0; i < n && i/8 < len(b); i++ {
		if b[i/8]&(0x80>>uint(i%8)) != 0 {
			out = append(out, i)
		}
	}
	return out
}

// ---------------------------------------------------------------------------------------------- child

type child struct {
	mu    sync.Mutex
	gmu   sync.Mutex
	gates map[int]chan struct{}
	gseq  int
	gset  string
	g     *geo
	sess  *torrent.Session
	tr    *torrent.Torrent
	data  string
	fault *faultSpec // injected write fault of this process life (nil = none)
}

// faultSpec selects ONE section of ONE piece: the write into file ordinal fo[p][s] fails with an I/O error, either
// before a byte is written ("enter") or after the first half of the section ("half"); once = the first hit only.
type faultSpec struct {
	p, s  int
	mode  string
	once  bool
	fired atomic.Bool
}

var errInjected = fmt.Errorf("input/output error (injected)")

func parseFault(v string) *faultSpec {
	if v == "" {
		return nil
	}
	x := strings.Split(v, ":")
	if len(x) != 4 {
		panic("bad -fault " + v)
	}
	f := &faultSpec{mode: x[2], once: x[3] == "1"}
	f.p, _ = strconv.Atoi(x[0])
	f.s, _ = strconv.Atoi(x[1])
	return f
}

// faultFor tells whether the write of piece p into file ordinal o is the one that fails.
func (c *child) faultFor(p, o int) string {
	f := c.fault
	if f == nil || p != f.p || p < 0 || p >= len(c.g.fo) || f.s >= len(c.g.fo[p]) || c.g.fo[p][f.s] != o {
		return ""
	}
	if f.once && f.fired.Swap(true) {
		return ""
	}
	return f.mode
}

func (c *child) emit(e map[string]any) {
	b, _ := json.Marshal(e)
	b = append(b, '\n')
	c.mu.Lock()
	os.Stdout.Write(b)
	c.mu.Unlock()
}

// gate reports the event and blocks the calling goroutine until the parent answers "c <id>".
func (c *child) gate(kind byte, e map[string]any) {
	if !strings.ContainsRune(c.gset, rune(kind)) {
		c.emit(e)
		return
	}
	ch := make(chan struct{})
	c.gmu.Lock()
	c.gseq++
	id := c.gseq
	c.gates[id] = ch
	c.gmu.Unlock()
	e["g"] = id
	c.emit(e)
	select {
	case <-ch:
	case <-time.After(40 * time.Second):
		os.Exit(4)
	}
}

func (c *child) release(id int) {
	c.gmu.Lock()
	ch := c.gates[id]
	delete(c.gates, id)
	c.gmu.Unlock()
	if ch != nil {
		close(ch)
	}
}

func fdFlags(f any) int64 {
	x, ok := f.(interface{ Fd() uintptr })
	if !ok {
		return -1
	}
	if v := fdInfoFlags(int(x.Fd())); v >= 0 {
		return v
	}
	return fcntlFlags(int(x.Fd())) // /proc/self is not readable for a process that changed its user id
}

func fdInfoFlags(fd int) int64 {
	b, err := os.ReadFile("/proc/self/fdinfo/" + strconv.Itoa(fd))
	if err != nil {
		return -1
	}
	for _, ln := range strings.Split(string(b), "\n") {
		if strings.HasPrefix(ln, "flags:") {
			v, err := strconv.ParseInt(strings.TrimSpace(strings.TrimPrefix(ln, "flags:")), 8, 64)
			if err == nil {
				return v
			}
		}
	}
	return -1
}

const oDSYNC = 0o10000 // O_SYNC = 04010000 includes it; synchronized data integrity is what the obligation needs

// wprov delegates to the real file storage and reports every Open / WriteAt / ReadAt to the parent.
type wprov struct {
	dir  string
	perm fs.FileMode
	c    *child
}

func (p *wprov) GetStorage(id string) (storage.Storage, error) {
	s, err := filestorage.New(filepath.Join(p.dir, id), p.perm)
	if err != nil {
		return nil, err
	}
	return &wsto{inner: s, c: p.c}, nil
}

type wsto struct {
	inner *filestorage.FileStorage
	c     *child
}

func (s *wsto) RootDir() string { return s.inner.RootDir() }

func (s *wsto) Open(name string, size int64) (storage.File, bool, error) {
	fi := s.c.g.tor.FileIndex(name)
	o, ok := s.c.g.ord[fi]
	if !ok {
		o = -1
	}
	s.c.gate('o', map[string]any{"ev": "open", "phase": "enter", "f": o})
	f, exists, err := s.inner.Open(name, size)
	e := map[string]any{"ev": "open", "phase": "exit", "f": o, "existed": exists}
	if err != nil {
		e["err"] = err.Error()
		s.c.gate('o', e)
		return f, exists, err
	}
	fl := fdFlags(f)
	e["flags"] = fl
	e["sync"] = fl >= 0 && fl&oDSYNC != 0
	s.c.gate('o', e)
	return &wfile{inner: f, o: o, fi: fi, c: s.c}, exists, nil
}

type wfile struct {
	inner storage.File
	o, fi int
	c     *child
}

func (f *wfile) piece(off int64, n int) int {
	ps := f.c.g.tor.PiecesOfRange(f.fi, off, n)
	if len(ps) == 0 {
		return -1
	}
	return ps[0]
}

func (f *wfile) WriteAt(b []byte, off int64) (int, error) {
	p := f.piece(off, len(b))
	flt := f.c.faultFor(p, f.o)
	f.c.gate('w', map[string]any{"ev": "w", "phase": "enter", "f": f.o, "p": p, "n": len(b)})
	if flt == "enter" {
		f.c.gate('w', map[string]any{"ev": "w", "phase": "exit", "f": f.o, "p": p, "err": errInjected.Error(), "fault": flt})
		return 0, errInjected
	}
	half := len(b) / 2
	n, err := f.inner.WriteAt(b[:half], off)
	if err == nil {
		f.c.gate('w', map[string]any{"ev": "w", "phase": "half", "f": f.o, "p": p})
		if flt == "half" {
			err = errInjected
		} else {
			var n2 int
			n2, err = f.inner.WriteAt(b[half:], off+int64(half))
			n += n2
		}
	}
	e := map[string]any{"ev": "w", "phase": "exit", "f": f.o, "p": p}
	if err != nil {
		e["err"] = err.Error()
		if flt != "" {
			e["fault"] = flt
		}
	}
	f.c.gate('w', e)
	return n, err
}

func (f *wfile) ReadAt(b []byte, off int64) (int, error) {
	if strings.ContainsRune(f.c.gset, 'r') {
		f.c.gate('r', map[string]any{"ev": "r", "phase": "enter", "f": f.o, "p": f.piece(off, len(b))})
	}
	return f.inner.ReadAt(b, off)
}

func (f *wfile) Close() error { return f.inner.Close() }

func (c *child) query() {
	e := map[string]any{"ev": "q"}
	v, ok := torrent.VerifC05DBBitfield(c.sess, torrentID)
	e["dbknown"] = ok
	e["db"] = bitsOf(v, c.g.tor.NumPieces)
	st := c.tr.Stats()
	e["statsHave"] = int(st.Pieces.Have)
	e["status"] = st.Status.String()
	c.emit(e)
}

// scanFDs reports the open flags of every descriptor that points below the data directory.
func (c *child) scanFDs() {
	ents, _ := os.ReadDir("/proc/self/fd")
	var l []map[string]any
	for _, en := range ents {
		fd, err := strconv.Atoi(en.Name())
		if err != nil {
			continue
		}
		tgt, err := os.Readlink("/proc/self/fd/" + en.Name())
		if err != nil || !strings.HasPrefix(tgt, c.data+string(os.PathSeparator)) {
			continue
		}
		for o := range c.g.files {
			if c.g.path(c.data, o) == tgt {
				fl := fdInfoFlags(fd)
				l = append(l, map[string]any{"f": o, "flags": fl, "sync": fl >= 0 && fl&oDSYNC != 0})
			}
		}
	}
	if l == nil {
		l = []map[string]any{}
	}
	c.emit(map[string]any{"ev": "fds", "files": l})
}

func childMain(args []string) {
	fl := flag.NewFlagSet("child", flag.ExitOnError)
	dir := fl.String("dir", "", "")
	layout := fl.String("layout", "multi", "")
	unit := fl.Int("unit", 16384, "")
	seed := fl.Int64("seed", 1, "")
	rwi := fl.Int("rwiMs", 3, "")
	port := fl.Int("port", 0, "")
	fresh := fl.Bool("fresh", false, "")
	wrap := fl.Bool("wrap", true, "")
	gset := fl.String("gates", "", "")
	fault := fl.String("fault", "", "p:section:mode:once - the storage write of that section fails")
	stopped := fl.Bool("stopped", false, "add the torrent stopped (with -fresh)")
	fl.Parse(args)
	torrent.DisableLogging()
	g, err := newGeo(*layout, *unit, *seed)
	if err != nil {
		panic(err)
	}
	c := &child{gates: map[int]chan struct{}{}, gset: *gset, g: g, fault: parseFault(*fault)}
	cfg, err := vh.BaseConfig(*dir, 1)
	if err != nil {
		panic(err)
	}
	cfg.PortBegin, cfg.PortEnd = uint16(*port), uint16(*port+4)
	cfg.ResumeWriteInterval = time.Duration(*rwi) * time.Millisecond
	cfg.ResumeOnStartup = false
	abs, _ := filepath.Abs(cfg.DataDir)
	c.data = abs
	if *wrap {
		cfg.CustomStorage = &wprov{dir: cfg.DataDir, perm: cfg.FilePermissions, c: c}
	}
	var last string
	var scanned atomic.Bool
	torrent.VerifSetTracer(func(s *torrent.VerifSnap) {
		if s.ID != torrentID {
			return
		}
		e := map[string]any{"ev": "snap", "status": s.Status, "known": !s.BitfieldNil, "have": s.Have, "allocating": s.Allocating,
			"verifying": s.Verifying, "acceptor": s.Acceptor, "port": s.Port, "err": s.LastErr, "files": s.FilesOpen}
		b, _ := json.Marshal(e)
		if string(b) == last {
			return
		}
		last = string(b)
		c.emit(e)
		if !*wrap && s.FilesOpen > 0 && !s.Allocating && scanned.CompareAndSwap(false, true) {
			c.scanFDs() // the loop goroutine is held here: the files stay open while they are scanned
		}
	})
	sess, err := torrent.NewSession(cfg)
	if err != nil {
		c.emit(map[string]any{"ev": "session", "ok": false, "err": err.Error()})
		os.Exit(0)
	}
	c.sess = sess
	n := len(sess.ListTorrents())
	if *fresh {
		c.tr, err = sess.AddTorrent(bytes.NewReader(g.tor.Bytes), &torrent.AddTorrentOptions{ID: torrentID, Stopped: *stopped})
		if err != nil {
			c.emit(map[string]any{"ev": "session", "ok": false, "err": "add: " + err.Error()})
			os.Exit(0)
		}
	} else {
		c.tr = sess.GetTorrent(torrentID)
		if c.tr == nil {
			c.emit(map[string]any{"ev": "session", "ok": true, "loaded": false, "n": n})
			os.Exit(0)
		}
		ih := c.tr.InfoHash()
		if !bytes.Equal(ih[:], g.tor.InfoHash[:]) || c.tr.Name() != g.tor.Name {
			c.emit(map[string]any{"ev": "session", "ok": true, "loaded": false, "n": n, "err": "record differs"})
			os.Exit(0)
		}
		if err := c.tr.Start(); err != nil {
			c.emit(map[string]any{"ev": "session", "ok": false, "err": "start: " + err.Error()})
			os.Exit(0)
		}
	}
	c.emit(map[string]any{"ev": "session", "ok": true, "loaded": true, "n": n})
	go func() {
		<-c.tr.NotifyComplete()
		c.emit(map[string]any{"ev": "complete"})
	}()
	sc := bufio.NewScanner(os.Stdin)
	for sc.Scan() {
		ln := sc.Text()
		switch {
		case strings.HasPrefix(ln, "c "):
			id, _ := strconv.Atoi(ln[2:])
			c.release(id)
		case ln == "q":
			go c.query()
		case ln == "stop":
			go func() {
				err := c.tr.Stop()
				c.emit(map[string]any{"ev": "stopret", "err": fmt.Sprint(err)})
			}()
		case ln == "start":
			go func() { c.tr.Start() }()
		case ln == "verify":
			go func() {
				err := c.tr.Verify()
				c.emit(map[string]any{"ev": "verifyret", "err": fmt.Sprint(err)})
			}()
		case ln == "close":
			go func() {
				sess.Close()
				c.emit(map[string]any{"ev": "closed"})
				os.Exit(0)
			}()
		case ln == "exit":
			os.Exit(0)
		}
	}
	os.Exit(5) // the parent is gone
}

// ---------------------------------------------------------------------------------------------- parent

type Kill struct {
	Kind    string `json:"kind"`
	N       int    `json:"n"`
	DelayUs int    `json:"delayUs"`
}

type Run struct {
	Mode  string `json:"mode"` // leech | restart
	Wrap  bool   `json:"wrap"`
	Del   []int  `json:"del"` // file ordinals deleted before this run (-1 = every file)
	RwiMs int    `json:"rwiMs"`
	Kill  Kill   `json:"kill"`
	Fault *Fault `json:"fault"` // write fault injected in this life (wrapping provider only)
	// mode "readd": the session is expected to come up WITHOUT the torrent (record unloadable), the torrent is added again
	// under the same ID; Damage = how the record is made unloadable before this life ("version" | "info"); Stopped = added stopped
	Damage  string `json:"damage"`
	Stopped bool   `json:"stopped"`
}

// Fault: the storage write of section S (index into the files of piece P, in write order) fails.
type Fault struct {
	P    int    `json:"p"`
	S    int    `json:"s"`
	Mode string `json:"mode"` // enter (nothing written) | half (first half of the section written)
	Once bool   `json:"once"`
}

type Scenario struct {
	ID     int    `json:"id"`
	Layout string `json:"layout"`
	Unit   int    `json:"unit"`
	Seed   int64  `json:"seed"`
	Runs   []Run  `json:"runs"`
	Pre    []Pre  `json:"pre"` // data files that exist before the torrent is added
	Multi  *MultiSpec `json:"multi"` // family "multi": several torrents in one session (multi.go)
	Move   *MoveSpec  `json:"move"`  // family "move": a torrent is moved into the session (multi.go)
	Uid    int        `json:"uid"`   // family "owner": the client runs as this (unprivileged) user; planted files with Foreign stay root's
}

type Pre struct {
	F    int    `json:"f"` // file ordinal, -1 = every file
	Kind string `json:"kind"`
	Foreign bool `json:"foreign"` // the file belongs to another user (root), writable for everybody
}

type machErr struct{ s string }

func (e machErr) Error() string { return e.s }

type proc struct {
	cmd    *exec.Cmd
	in     io.WriteCloser
	ev     chan map[string]any
	stderr bytes.Buffer
	dead   bool
}

func (p *proc) send(s string) {
	if !p.dead {
		io.WriteString(p.in, s+"\n")
	}
}

type runner struct {
	sc   Scenario
	g    *geo
	dir  string
	port int
	out  []map[string]any
	T    *vh.Tracer
	// shadow of the current process life
	known    bool
	have     []int
	haveInit int
	wsec     map[int]int
	verified bool
	settled  bool
	reached  []string
	faulted  bool // an injected write fault was reported by the child in this life
	norec    bool // the last inspection found no record of the torrent (legitimate only for a torrent that never got one)
	foreign  map[string]bool // data files that belong to another user (family "owner")
}

func (r *runner) abs(e map[string]any) { r.out = append(r.out, e) }

func num(e map[string]any, k string) int {
	if v, ok := e[k].(float64); ok {
		return int(v)
	}
	return -1
}

func ints(v any) []int {
	out := []int{}
	if l, ok := v.([]any); ok {
		for _, x := range l {
			if f, ok := x.(float64); ok {
				out = append(out, int(f))
			}
		}
	}
	return out
}

func sameInts(a, b []int) bool {
	if len(a) != len(b) {
		return false
	}
	for i := range a {
		if a[i] != b[i] {
			return false
		}
	}
	return true
}

func subset(a, b []int) bool {
	m := map[int]bool{}
	for _, x := range b {
		m[x] = true
	}
	for _, x := range a {
		if !m[x] {
			return false
		}
	}
	return true
}

func (r *runner) dataDir() string { return filepath.Join(r.dir, "data") }

// inspect reads the resume record out of a copy of the database file, as any later process would find it.
func (r *runner) inspect() (bool, string, bool, []int) {
	src := filepath.Join(r.dir, "session.db")
	b, err := os.ReadFile(src)
	if err != nil {
		return false, "read: " + err.Error(), false, []int{}
	}
	cp := filepath.Join(r.dir, "inspect.db")
	if err := os.WriteFile(cp, b, 0o600); err != nil {
		return false, "copy: " + err.Error(), false, []int{}
	}
	defer os.Remove(cp)
	reopen, what, rec, known, bits := inspectDB(cp, r.g)
	if reopen && !rec {
		reopen, what = false, "no record"
	}
	return reopen, what, known, bits
}

func (r *runner) spawn(ri int, run Run, fresh bool) (*proc, error) {
	gs := ""
	k := run.Kill.Kind
	if run.Wrap {
		gs = "w"
		if strings.HasPrefix(k, "open") {
			gs += "o"
		}
		if strings.HasPrefix(k, "r-") {
			gs += "r"
		}
	}
	cmd := exec.Command(os.Args[0], "child", "-dir", r.dir, "-layout", r.sc.Layout, "-unit", strconv.Itoa(r.sc.Unit),
		"-seed", strconv.FormatInt(r.sc.Seed, 10), "-rwiMs", strconv.Itoa(run.RwiMs), "-port", strconv.Itoa(r.port),
		"-fresh="+strconv.FormatBool(fresh), "-wrap="+strconv.FormatBool(run.Wrap), "-gates", gs)
	if f := run.Fault; f != nil {
		once := "0"
		if f.Once {
			once = "1"
		}
		cmd.Args = append(cmd.Args, "-fault", fmt.Sprintf("%d:%d:%s:%s", f.P, f.S, f.Mode, once))
	}
	if run.Stopped {
		cmd.Args = append(cmd.Args, "-stopped")
	}
	if r.sc.Uid != 0 {
		asUser(cmd, r.sc.Uid)
		if err := chownTree(r.dir, r.sc.Uid, r.foreign); err != nil {
			return nil, err
		}
	}
	return startProc(cmd)
}

func startProc(cmd *exec.Cmd) (*proc, error) {
	p := &proc{cmd: cmd, ev: make(chan map[string]any, 256)}
	cmd.Stderr = &p.stderr
	var err error
	if p.in, err = cmd.StdinPipe(); err != nil {
		return nil, err
	}
	so, err := cmd.StdoutPipe()
	if err != nil {
		return nil, err
	}
	if err := cmd.Start(); err != nil {
		return nil, err
	}
	go func() {
		sc := bufio.NewScanner(so)
		sc.Buffer(make([]byte, 1<<16), 1<<22)
		for sc.Scan() {
			var e map[string]any
			if json.Unmarshal(sc.Bytes(), &e) == nil {
				p.ev <- e
			}
		}
		close(p.ev)
	}()
	return p, nil
}

// observe folds one child event into the abstract trace; returns the gate id (0 = not gated).
func (r *runner) observe(e map[string]any) int {
	g := 0
	if v, ok := e["g"].(float64); ok {
		g = int(v)
	}
	switch e["ev"] {
	case "open":
		if e["phase"] == "exit" && e["err"] == nil {
			r.abs(map[string]any{"ev": "open", "f": num(e, "f"), "existed": e["existed"] == true, "sync": e["sync"] == true})
		}
	case "fds":
		if l, ok := e["files"].([]any); ok {
			for _, x := range l {
				if m, ok := x.(map[string]any); ok {
					r.abs(map[string]any{"ev": "osync", "f": num(m, "f"), "sync": m["sync"] == true})
				}
			}
		}
	case "w":
		p := num(e, "p")
		if p < 0 || p >= len(r.g.fo) {
			break
		}
		switch e["phase"] {
		case "enter":
			if r.wsec[p] == 0 {
				r.abs(map[string]any{"ev": "wbegin", "p": p})
			}
		case "exit":
			if e["err"] != nil {
				// the write of one section failed: Piece.Write ends here with the error (sections written so far stay)
				sec := r.wsec[p]
				r.wsec[p] = 0
				if e["fault"] != nil {
					r.faulted = true
				}
				r.abs(map[string]any{"ev": "wend", "p": p, "ok": false, "sec": sec, "f": num(e, "f")})
				break
			}
			r.wsec[p]++
			if r.wsec[p] >= len(r.g.fo[p]) {
				r.wsec[p] = 0
				r.abs(map[string]any{"ev": "wend", "p": p, "ok": e["err"] == nil})
			}
		}
	case "snap":
		kn, hv := e["known"] == true, ints(e["have"])
		if e["verifying"] == true {
			r.verified = true
		}
		if kn != r.known || !sameInts(hv, r.have) {
			r.known, r.have = kn, hv
			r.abs(map[string]any{"ev": "mem", "known": kn, "have": hv})
		}
	}
	return g
}

func isSettled(e map[string]any) bool {
	st, _ := e["status"].(string)
	return e["ev"] == "snap" && (st == "Downloading" || st == "Seeding") && e["acceptor"] == true
}

// life runs one process life up to its kill point and appends the crash observation.
func (r *runner) life(ri int, run Run, fresh bool) error {
	r.known, r.have, r.wsec, r.verified, r.settled, r.faulted = false, []int{}, map[int]int{}, false, false, false
	r.abs(map[string]any{"ev": "up", "fresh": fresh, "mode": run.Mode, "wrap": run.Wrap})
	p, err := r.spawn(ri, run, fresh)
	if err != nil {
		return machErr{"spawn: " + err.Error()}
	}
	defer func() {
		if !p.dead {
			p.cmd.Process.Kill()
		}
		p.cmd.Wait()
	}()
	k := run.Kill
	ord := map[string]int{}
	var seeder, seeder2 *vh.Seeder
	var seedMu sync.Mutex
	reseeded := false
	defer func() {
		seedMu.Lock()
		if seeder != nil {
			seeder.Close()
		}
		if seeder2 != nil {
			seeder2.Close()
		}
		seedMu.Unlock()
	}()
	var timeC <-chan time.Time
	if k.Kind == "time" && run.Mode != "leech" {
		timeC = time.After(time.Duration(k.DelayUs) * time.Microsecond)
	}
	deadline := time.After(90 * time.Second)
	t0 := time.Now()
	const idleAfter = 8 * time.Second // armed once the session is up: nothing happens any more
	idle := time.NewTimer(80 * time.Second)
	defer idle.Stop()
	point := k.Kind
	triggered := false  // the kill condition was met; the post-trigger action is running
	var trigAt time.Time
	waitFor := ""       // event awaited after the trigger ("stopret", "stopped", "q", "exit", "persist")
	sessionSeen := false
	newBits := func() int { return len(r.have) - r.haveInit }
	kill := func(delayUs int) {
		if delayUs > 0 {
			time.Sleep(time.Duration(delayUs) * time.Microsecond)
		}
		p.cmd.Process.Kill()
		p.dead = true
	}
	drain := func() {
		to := time.After(5 * time.Second)
		for {
			select {
			case e, ok := <-p.ev:
				if !ok {
					return
				}
				r.observe(e)
			case <-to:
				return
			}
		}
	}
	done := false
	exited := false
	for !done {
		select {
		case <-deadline:
			kill(0)
			return machErr{fmt.Sprintf("run %d (%s/%s#%d): no kill point within 90 s; stderr=%s", ri, run.Mode, k.Kind, k.N, tail(p.stderr.String()))}
		case <-idle.C:
			// nothing happens any more and the kill point was not reached: kill here (a leeching life whose
			// trigger cannot occur, e.g. nothing left to download); a restarted life must settle
			if run.Mode != "leech" {
				kill(0)
				return machErr{fmt.Sprintf("run %d (%s/%s#%d): silent for %v before its kill point; stderr=%s", ri, run.Mode, k.Kind, k.N, idleAfter, tail(p.stderr.String()))}
			}
			point = "idle:" + k.Kind
			kill(0)
			done = true
		case <-timeC:
			kill(0)
			done = true
		case e, ok := <-p.ev:
			if !ok {
				exited, done = true, true
				break
			}
			if !idle.Stop() {
				select {
				case <-idle.C:
				default:
				}
			}
			g := r.observe(e)
			ev, _ := e["ev"].(string)
			if debug {
				b, _ := json.Marshal(e)
				fmt.Fprintf(os.Stderr, "[%d.%d %6dus] %s\n", r.sc.ID, ri, time.Since(t0).Microseconds(), b)
			}
			if sessionSeen || ev == "session" {
				idle.Reset(idleAfter)
			} else {
				idle.Reset(80 * time.Second)
			}
			if ev == "session" {
				sessionSeen = true
				if e["ok"] != true || e["loaded"] != true {
					what := fmt.Sprint("session ok=", e["ok"], " loaded=", e["loaded"], " err=", e["err"])
					if s, _ := e["err"].(string); strings.Contains(s, "address already in use") || strings.Contains(s, "locked by another") {
						return machErr{what}
					}
					r.abs(map[string]any{"ev": "reopenfail", "what": what})
					p.cmd.Wait()
					p.dead = true
					return errStopScenario
				}
				r.haveInit = -1
				if run.Mode == "readd" && num(e, "n") != 0 {
					return machErr{"re-add: the damaged record was loaded"}
				}
			}
			if ev == "snap" && r.sc.Uid != 0 && !triggered && e["status"] == "Stopped" && e["err"] != nil && e["err"] != "" {
				// family "owner": the client refused a data file (allocation error): nothing was opened, nothing is claimed
				r.abs(map[string]any{"ev": "allocfail", "what": fmt.Sprint(e["err"])})
				point = "refused"
				kill(0)
				done = true
				break
			}
			if ev == "snap" {
				if s, _ := e["err"].(string); s != "" && e["status"] == "Stopped" && !triggered && !r.faulted {
					return machErr{"torrent stopped with error: " + s}
				}
				if r.haveInit == -1 && e["known"] == true {
					r.haveInit = len(r.have)
				}
			}
			if ev == "snap" && isSettled(e) && !r.settled {
				r.settled = true
				if r.haveInit < 0 {
					r.haveInit = len(r.have)
				}
				{
					// the durable content at this moment, read by the parent (nothing is being written: no peer yet)
					class, exist := r.g.classes(r.dataDir())
					r.abs(map[string]any{"ev": "settled", "have": r.have, "known": r.known, "verified": r.verified, "status": e["status"], "class": class, "exist": exist})
				}
				if run.Mode == "leech" {
					addr := fmt.Sprintf("127.0.0.1:%d", num(e, "port"))
					go func() {
						for try := 0; try < 3; try++ {
							s, err := vh.ConnectSeeder(r.T, "seed", "127.0.0.2", addr, r.g.tor, &vh.SeederPolicy{})
							if err == nil {
								seedMu.Lock()
								seeder = s
								seedMu.Unlock()
								return
							}
							time.Sleep(200 * time.Millisecond)
						}
					}()
					if k.Kind == "time" {
						timeC = time.After(time.Duration(k.DelayUs) * time.Microsecond)
					}
				}
			}
			// gated events: the kill point, or let the child continue
			if g != 0 {
				kind := fmt.Sprint(map[string]string{"open": "open", "w": "w", "r": "r"}[ev], "-", e["phase"])
				n := ord[kind]
				ord[kind]++
				if !triggered && kind == k.Kind && n == k.N {
					r.reached = append(r.reached, kind)
					kill(k.DelayUs)
					done = true
					break
				}
				if !(triggered && waitFor == "persist") { // while the periodic write of the new bit is awaited, later writes are held
					p.send("c " + strconv.Itoa(g))
				}
			}
			if done || !sessionSeen {
				break
			}
			if !triggered {
				switch k.Kind {
				case "bit", "persisted", "stop", "close", "verify":
					if r.settled && newBits() >= k.N+1 || (k.N < 0 && r.settled) {
						triggered = true
						r.reached = append(r.reached, k.Kind)
						switch k.Kind {
						case "bit":
							kill(k.DelayUs)
							done = true
						case "persisted":
							waitFor = "persist"
							trigAt = time.Now()
							p.send("q")
						case "stop":
							p.send("stop")
							switch k.DelayUs {
							case -1:
								waitFor = "stopret"
							case -2:
								waitFor = "stopped"
							default:
								kill(k.DelayUs)
								done = true
							}
						case "close":
							p.send("close")
							if k.DelayUs < 0 {
								waitFor = "exit"
							} else {
								kill(k.DelayUs)
								done = true
							}
						case "verify":
							r.abs(map[string]any{"ev": "cmd", "op": "verify"})
							p.send("verify")
							waitFor = "verifyret"
						}
					}
				case "complete":
					if ev == "complete" {
						triggered = true
						r.reached = append(r.reached, k.Kind)
						kill(k.DelayUs)
						done = true
					}
				case "faulted", "fstopped", "frestart", "fclose":
					// a storage write of the selected section failed (the gate of its exit event was released above)
					if r.faulted {
						triggered = true
						r.reached = append(r.reached, k.Kind)
						if k.Kind == "faulted" {
							kill(k.DelayUs)
							done = true
						} else {
							waitFor = "fault-outcome"
						}
					}
				case "added": // the torrent was added (stopped): the record is written, nothing else happened
					triggered = true
					r.reached = append(r.reached, k.Kind)
					kill(k.DelayUs)
					done = true
				case "settled":
					if r.settled {
						triggered = true
						r.reached = append(r.reached, k.Kind)
						waitFor = "q"
						p.send("q")
					}
				}
			} else {
				switch waitFor {
				case "persist":
					if ev == "q" {
						if e["dbknown"] == true && subset(r.have, ints(e["db"])) || time.Since(trigAt) > 4*time.Second {
							kill(k.DelayUs)
							done = true
						} else {
							time.Sleep(500 * time.Microsecond)
							p.send("q")
						}
					}
				case "fault-outcome":
					// what the client makes of the failed write: it stops the torrent (error), or it goes on to completion
					stopped := ev == "snap" && e["status"] == "Stopped"
					if !stopped && ev != "complete" {
						break
					}
					if stopped {
						point = k.Kind + ":stopped"
					} else {
						point = k.Kind + ":complete"
					}
					switch {
					case k.Kind == "fclose":
						p.send("close")
						waitFor = "exit"
					case k.Kind == "frestart" && stopped:
						p.send("start")
						waitFor = "fault-restarted"
					case stopped:
						kill(k.DelayUs)
						done = true
					default:
						kill(max(k.DelayUs, 12000))
						done = true
					}
				case "fault-restarted":
					if ev == "snap" && isSettled(e) && !reseeded {
						reseeded = true
						addr := fmt.Sprintf("127.0.0.1:%d", num(e, "port"))
						go func() {
							for try := 0; try < 3; try++ {
								s, err := vh.ConnectSeeder(r.T, "seed2", "127.0.0.3", addr, r.g.tor, &vh.SeederPolicy{})
								if err == nil {
									seedMu.Lock()
									seeder2 = s
									seedMu.Unlock()
									return
								}
								time.Sleep(200 * time.Millisecond)
							}
						}()
					}
					if ev == "complete" {
						point = k.Kind + ":recovered"
						kill(k.DelayUs)
						done = true
					}
				case "stopret":
					if ev == "stopret" {
						kill(0)
						done = true
					}
				case "verifyret":
					if ev == "verifyret" {
						kill(k.DelayUs)
						done = true
					}
				case "stopped":
					if ev == "snap" && e["status"] == "Stopped" {
						kill(0)
						done = true
					}
				case "q":
					if ev == "q" {
						r.abs(map[string]any{"ev": "stats", "have": num(e, "statsHave"), "nmem": len(r.have)})
						kill(k.DelayUs)
						done = true
					}
				}
			}
		}
	}
	if !exited {
		drain()
	}
	p.cmd.Wait()
	p.dead = true
	if !sessionSeen {
		return machErr{"child died before the session was up: " + tail(p.stderr.String())}
	}
	if exited && !((k.Kind == "close" || k.Kind == "fclose") && triggered) {
		return machErr{fmt.Sprintf("child exited by itself (run %d %s/%s#%d): %s", ri, run.Mode, k.Kind, k.N, tail(p.stderr.String()))}
	}
	if exited && k.Kind == "close" {
		point = "closed"
	}
	reopen, what, dbk, bits := r.inspect()
	class, exist := r.g.classes(r.dataDir())
	r.abs(map[string]any{"ev": "crash", "point": point, "n": k.N, "reopen": reopen, "what": what, "dbknown": dbk, "db": bits, "class": class, "exist": exist})
	return nil
}

var debug = os.Getenv("C05_DEBUG") != ""

var errStopScenario = fmt.Errorf("scenario ends")

func tail(s string) string {
	if len(s) > 1500 {
		return s[len(s)-1500:]
	}
	return s
}

func (r *runner) delete(del []int) {
	var l []int
	for _, o := range del {
		if o == -1 {
			l = nil
			for i := range r.g.files {
				l = append(l, i)
			}
			break
		}
		if o >= 0 && o < len(r.g.files) {
			l = append(l, o)
		}
	}
	sort.Ints(l)
	gone := []int{}
	for _, o := range l {
		if os.Remove(r.g.path(r.dataDir(), o)) == nil {
			gone = append(gone, o)
		}
	}
	class, exist := r.g.classes(r.dataDir())
	r.abs(map[string]any{"ev": "delete", "files": gone, "class": class, "exist": exist})
}

func runScenario(sc Scenario, work string, slot int) (out []map[string]any, reached []string, err error) {
	g, err := newGeo(sc.Layout, sc.Unit, sc.Seed)
	if err != nil {
		return nil, nil, err
	}
	T, _ := vh.NewTracer("")
	for attempt := 0; attempt < 3; attempt++ {
		dir, err2 := os.MkdirTemp(work, fmt.Sprintf("s%d-", sc.ID))
		if err2 != nil {
			return nil, nil, err2
		}
		port, err2 := vh.FreePortRange(10)
		if err2 != nil {
			os.RemoveAll(dir)
			return nil, nil, err2
		}
		if sc.Multi != nil || sc.Move != nil {
			o, rc, err2 := runMulti(sc, dir, port, T)
			os.RemoveAll(dir)
			if err2 == nil {
				return o, rc, nil
			}
			err = err2
			if _, ok := err.(machErr); !ok {
				return nil, nil, err
			}
			continue
		}
		r := &runner{sc: sc, g: g, dir: dir, port: port, T: T}
		fo := make([][]int, len(g.fo))
		copy(fo, g.fo)
		r.abs(map[string]any{"ev": "init", "sid": sc.ID, "np": g.tor.NumPieces, "nf": len(g.files), "fo": fo, "layout": sc.Layout})
		err = nil
		if len(sc.Pre) > 0 {
			rng := rand.New(rand.NewSource(sc.Seed ^ 0x5eed))
			for _, pr := range sc.Pre {
				for o := range g.files {
					if pr.F == -1 || pr.F == o {
						if err2 := g.plant(r.dataDir(), o, pr.Kind, rng); err2 != nil {
							os.RemoveAll(dir)
							return nil, nil, err2
						}
					}
				}
			}
			class, exist := g.classes(r.dataDir())
			r.abs(map[string]any{"ev": "plant", "class": class, "exist": exist})
			fl := []int{}
			r.foreign = map[string]bool{}
			for _, pr := range sc.Pre {
				for o := range g.files {
					if pr.Foreign && (pr.F == -1 || pr.F == o) {
						r.foreign[g.path(r.dataDir(), o)] = true
						fl = append(fl, o)
					}
				}
			}
			if len(fl) > 0 {
				r.abs(map[string]any{"ev": "chown", "files": fl})
			}
		}
		for ri, run := range sc.Runs {
			if run.Damage != "" {
				if err = damageRecord(filepath.Join(dir, "session.db"), g.id, run.Damage); err != nil {
					err = machErr{"damage: " + err.Error()}
					break
				}
				r.abs(map[string]any{"ev": "damage", "kind": run.Damage})
			}
			if len(run.Del) > 0 {
				r.delete(run.Del)
			}
			err = r.life(ri, run, ri == 0 || run.Mode == "readd")
			if err != nil {
				break
			}
		}
		os.RemoveAll(dir)
		if err == errStopScenario {
			err = nil
		}
		if err == nil {
			return r.out, r.reached, nil
		}
		if _, ok := err.(machErr); !ok {
			return nil, nil, err
		}
	}
	return nil, nil, err
}

func runMain(args []string) {
	fl := flag.NewFlagSet("run", flag.ExitOnError)
	plan := fl.String("plan", "", "")
	outp := fl.String("out", "abs.ndjson", "")
	work := fl.String("work", "", "")
	par := fl.Int("par", 8, "")
	fl.Parse(args)
	f, err := os.Open(*plan)
	if err != nil {
		panic(err)
	}
	var scs []Scenario
	s := bufio.NewScanner(f)
	s.Buffer(make([]byte, 1<<20), 1<<24)
	for s.Scan() {
		var sc Scenario
		if json.Unmarshal(s.Bytes(), &sc) == nil && (len(sc.Runs) > 0 || sc.Multi != nil || sc.Move != nil) {
			scs = append(scs, sc)
		}
	}
	f.Close()
	if *work == "" {
		*work, _ = os.MkdirTemp("/var/tmp", "c05-")
		defer os.RemoveAll(*work)
	}
	os.MkdirAll(*work, 0o755)
	type res struct {
		out     []map[string]any
		reached []string
		err     error
	}
	results := make([]res, len(scs))
	var wg sync.WaitGroup
	idx := make(chan int)
	for w := 0; w < *par; w++ {
		wg.Add(1)
		go func(w int) {
			defer wg.Done()
			for i := range idx {
				o, rc, err := runScenario(scs[i], *work, w)
				results[i] = res{o, rc, err}
			}
		}(w)
	}
	for i := range scs {
		idx <- i
	}
	close(idx)
	wg.Wait()
	of, err := os.Create(*outp)
	if err != nil {
		panic(err)
	}
	w := bufio.NewWriter(of)
	failed := 0
	for i, rs := range results {
		if rs.err != nil {
			failed++
			b, _ := json.Marshal(map[string]any{"sid": scs[i].ID, "err": rs.err.Error()})
			fmt.Println("MACH " + string(b))
			continue
		}
		for _, e := range rs.out {
			b, _ := json.Marshal(e)
			w.Write(b)
			w.WriteByte('\n')
		}
		b, _ := json.Marshal(map[string]any{"sid": scs[i].ID, "lines": len(rs.out), "reached": rs.reached})
		fmt.Println("DONE " + string(b))
	}
	w.Flush()
	of.Close()
	fmt.Printf("SUMMARY scenarios=%d failed=%d\n", len(scs), failed)
}

func probeMain(args []string) {
	fl := flag.NewFlagSet("probe", flag.ExitOnError)
	layout := fl.String("layout", "multi", "")
	unit := fl.Int("unit", 16384, "")
	fl.Parse(args)
	g, err := newGeo(*layout, *unit, 1)
	if err != nil {
		panic(err)
	}
	nw := 0
	for _, l := range g.fo {
		nw += len(l)
	}
	var flen []int64
	for _, fi := range g.files {
		flen = append(flen, g.tor.Files[fi].Length)
	}
	b, _ := json.Marshal(map[string]any{"layout": *layout, "unit": *unit, "np": g.tor.NumPieces, "nf": len(g.files), "fo": g.fo, "nw": nw, "flen": flen, "zp": g.zeroPieces()})
	fmt.Println(string(b))
}

func main() {
	if len(os.Args) < 2 {
		fmt.Fprintln(os.Stderr, "usage: c05 run|child|probe ...")
		os.Exit(2)
	}
	switch os.Args[1] {
	case "run":
		runMain(os.Args[2:])
	case "child":
		childMain(os.Args[2:])
	case "child2":
		child2Main(os.Args[2:])
	case "probe":
		probeMain(os.Args[2:])
	default:
		os.Exit(2)
	}
}
