package main

// Environment / life-cycle axes of the C05 driver (round 3):
//   - the resume record of the torrent is made unloadable between two process lives (the session skips it and keeps the
//     bucket), then the torrent is added again under the same ID ("readd" lives);
//   - the client runs as an unprivileged user on data files that belong to another user (family "owner").

import (
	"fmt"
	"os"
	"os/exec"
	"path/filepath"
	"syscall"
	"time"

	"go.etcd.io/bbolt"
)

// damageRecord makes the record of torrent id unloadable, as a later process would find it:
// "version": the record was written by a newer release (unknown resume data version); "info": the info value is cut.
func damageRecord(dbPath, id, kind string) error {
	db, err := bbolt.Open(dbPath, 0o600, &bbolt.Options{Timeout: 5 * time.Second})
	if err != nil {
		return err
	}
	defer db.Close()
	return db.Update(func(tx *bbolt.Tx) error {
		tb := tx.Bucket([]byte("torrents"))
		if tb == nil {
			return fmt.Errorf("no torrents bucket")
		}
		b := tb.Bucket([]byte(id))
		if b == nil {
			return fmt.Errorf("no record of %s", id)
		}
		switch kind {
		case "version":
			return b.Put([]byte("version"), []byte("99"))
		case "info":
			v := b.Get([]byte("info"))
			if len(v) < 8 {
				return fmt.Errorf("record has no info")
			}
			return b.Put([]byte("info"), append([]byte(nil), v[:len(v)/2]...))
		}
		return fmt.Errorf("unknown damage %q", kind)
	})
}

// asUser lets the child process run as an ordinary user without supplementary groups.
func asUser(cmd *exec.Cmd, uid int) {
	cmd.SysProcAttr = &syscall.SysProcAttr{Credential: &syscall.Credential{Uid: uint32(uid), Gid: uint32(uid)}}
}

// chownTree gives everything below dir to uid - except the files in keep, which stay root's and become writable for everybody
// (a shared download directory: the client may write the file but does not own it).
func chownTree(dir string, uid int, keep map[string]bool) error {
	return filepath.Walk(dir, func(p string, fi os.FileInfo, err error) error {
		if err != nil {
			return nil // (a file vanished under the walk)
		}
		if keep[p] {
			if st, ok := fi.Sys().(*syscall.Stat_t); ok && st.Uid == 0 {
				return os.Chmod(p, 0o666)
			}
			return nil // created again by the client itself: it is the client's own file now
		}
		return os.Lchown(p, uid, uid)
	})
}

func fcntlFlags(fd int) int64 {
	v, _, e := syscall.Syscall(syscall.SYS_FCNTL, uintptr(fd), uintptr(syscall.F_GETFL), 0)
	if e != 0 {
		return -1
	}
	return int64(v)
}
