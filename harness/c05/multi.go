// Families "multi" (several torrents in ONE session share the periodic resume writer; consistent database
// snapshots at many ticks, every snapshot judged, restarts from the distinct snapshot states) and "move"
// (another session moves a torrent INTO this session through the RPC server: POST /move-torrent, the request cut
// at every position of the archive / the target killed while the sender stalls; then a restart).
// One abstract trace per torrent ("init" ... ), judged by spec/Trace_Resume.tla like every other history.
package main

import (
	"archive/tar"
	"bufio"
	"bytes"
	"encoding/json"
	"flag"
	"fmt"
	"io"
	"math/rand"
	"mime/multipart"
	"net"
	"net/http"
	"os"
	"os/exec"
	"path/filepath"
	"strconv"
	"strings"
	"sync"
	"time"

	"github.com/cenkalti/rain/v2/internal/resumer/boltdbresumer"
	"github.com/cenkalti/rain/v2/internal/verif/vh"
	"github.com/cenkalti/rain/v2/torrent"
	"go.etcd.io/bbolt"
)

// MultiSpec: one session with len(Roles) torrents of equal geometry (unless Layouts says otherwise).
type MultiSpec struct {
	Roles    []string `json:"roles"`    // full (complete data planted, verified at the start) | empty (no source) | part (a source with half of the pieces) | leech (complete source)
	Layouts  []string `json:"layouts"`  // per torrent (default: the scenario's layout)
	Snaps    int      `json:"snaps"`    // database snapshots taken in the first life
	GapUs    int      `json:"gapUs"`    // the pause between two snapshots is drawn from [0, GapUs]
	Restarts int      `json:"restarts"` // restarts from distinct snapshot states (besides the restart after the kill)
	RwiMs    int      `json:"rwiMs"`
	Lives    int      `json:"lives"` // lives with snapshots (the later ones load every torrent from the database)
	DelayUs  int      `json:"delayUs"` // block delay of the sources
}

// MoveSpec: a torrent is moved into the session.
type MoveSpec struct {
	Have    string `json:"have"`    // full | part : the bitfield (and data) of the source
	Cut     string `json:"cut"`     // none | short (archive ends before file F) | abort (connection breaks in file F) | hold (sender stalls in file F, the target dies) | meta (breaks before the data part)
	F       int    `json:"f"`       // file ordinal
	Permil  int    `json:"permil"`  // position of the cut inside file F
	After   string `json:"after"`   // kill | close | settle : how the life of the target ends after the request
	DelayUs int    `json:"delayUs"` // between the end of the request (or the stall) and the kill
	RwiMs   int    `json:"rwiMs"`
}

func geoK(layout string, unit int, seed int64, k int) (*geo, error) {
	g, err := newGeo(layout, unit, seed+int64(k)*7919)
	if err != nil {
		return nil, err
	}
	g.id = "t" + strconv.Itoa(k+1)
	return g, nil
}

// ---------------------------------------------------------------------------------------------- child2

func child2Main(args []string) {
	fl := flag.NewFlagSet("child2", flag.ExitOnError)
	dir := fl.String("dir", "", "")
	layouts := fl.String("layouts", "multi", "")
	unit := fl.Int("unit", 16384, "")
	seed := fl.Int64("seed", 1, "")
	rwi := fl.Int("rwiMs", 3, "")
	port := fl.Int("port", 0, "")
	fresh := fl.Bool("fresh", false, "")
	add := fl.Bool("add", true, "add the torrents in a fresh life")
	rpc := fl.Int("rpc", 0, "")
	fl.Parse(args)
	torrent.DisableLogging()
	var geos []*geo
	byID := map[string]*geo{}
	for k, lay := range strings.Split(*layouts, ",") {
		g, err := geoK(lay, *unit, *seed, k)
		if err != nil {
			panic(err)
		}
		geos = append(geos, g)
		byID[g.id] = g
	}
	c := &child{gates: map[int]chan struct{}{}}
	cfg, err := vh.BaseConfig(*dir, 1)
	if err != nil {
		panic(err)
	}
	cfg.PortBegin, cfg.PortEnd = uint16(*port), uint16(*port+8)
	cfg.ResumeWriteInterval = time.Duration(*rwi) * time.Millisecond
	cfg.ResumeOnStartup = false
	if *rpc != 0 {
		cfg.RPCEnabled, cfg.RPCHost, cfg.RPCPort, cfg.RPCShutdownTimeout = true, "127.0.0.1", *rpc, time.Second
	}
	var lmu sync.Mutex
	last := map[string]string{}
	torrent.VerifSetTracer(func(s *torrent.VerifSnap) {
		if byID[s.ID] == nil {
			return
		}
		e := map[string]any{"ev": "snap", "id": s.ID, "status": s.Status, "known": !s.BitfieldNil, "have": s.Have, "allocating": s.Allocating,
			"verifying": s.Verifying, "acceptor": s.Acceptor, "port": s.Port, "err": s.LastErr, "files": s.FilesOpen}
		b, _ := json.Marshal(e)
		lmu.Lock()
		same := last[s.ID] == string(b)
		last[s.ID] = string(b)
		lmu.Unlock()
		if !same {
			c.emit(e)
		}
	})
	sess, err := torrent.NewSession(cfg)
	if err != nil {
		c.emit(map[string]any{"ev": "session", "ok": false, "err": err.Error()})
		os.Exit(0)
	}
	c.sess = sess
	loaded := []string{}
	watch := func(id string, t *torrent.Torrent) {
		go func() {
			<-t.NotifyComplete()
			c.emit(map[string]any{"ev": "complete", "id": id})
		}()
	}
	if *fresh {
		if *add {
			for _, g := range geos {
				t, err := sess.AddTorrent(bytes.NewReader(g.tor.Bytes), &torrent.AddTorrentOptions{ID: g.id})
				if err != nil {
					c.emit(map[string]any{"ev": "session", "ok": false, "err": "add: " + err.Error()})
					os.Exit(0)
				}
				loaded = append(loaded, g.id)
				watch(g.id, t)
			}
		}
	} else {
		for _, g := range geos {
			t := sess.GetTorrent(g.id)
			if t == nil {
				continue
			}
			ih := t.InfoHash()
			if !bytes.Equal(ih[:], g.tor.InfoHash[:]) || t.Name() != g.tor.Name {
				continue
			}
			if err := t.Start(); err != nil {
				c.emit(map[string]any{"ev": "session", "ok": false, "err": "start: " + err.Error()})
				os.Exit(0)
			}
			loaded = append(loaded, g.id)
			watch(g.id, t)
		}
	}
	c.emit(map[string]any{"ev": "session", "ok": true, "loaded": loaded, "n": len(sess.ListTorrents())})
	sc := bufio.NewScanner(os.Stdin)
	for sc.Scan() {
		ln := sc.Text()
		switch {
		case strings.HasPrefix(ln, "snapdb "):
			path := ln[7:]
			go func() {
				e := map[string]any{"ev": "snapdb", "path": path}
				if err := torrent.VerifC05SnapshotDB(sess, path); err != nil {
					e["err"] = err.Error()
				}
				c.emit(e)
			}()
		case ln == "close":
			go func() {
				sess.Close()
				c.emit(map[string]any{"ev": "closed"})
				os.Exit(0)
			}()
		case ln == "exit":
			os.Exit(0)
		}
	}
	os.Exit(5)
}

// ---------------------------------------------------------------------------------------------- parent

// tsh is the shadow of one torrent of the session and its abstract trace.
type tsh struct {
	g        *geo
	lay      string
	role     string
	out      []map[string]any
	known    bool
	have     []int
	settled  bool
	verified bool
	gone     bool // not loaded in this life
	norec    bool // the last inspection found no record (a torrent that never got one)
	smu      sync.Mutex
	seeder   *vh.Seeder
}

func (t *tsh) abs(e map[string]any) { t.out = append(t.out, e) }

type multiRunner struct {
	sc      Scenario
	dir     string
	port    int
	T       *vh.Tracer
	ts      []*tsh
	rng     *rand.Rand
	reached []string
	rwi     int
	// snapshot states of the first lives: key -> file kept
	states map[string]string
	order  []string
	nsnap  int
}

func (mr *multiRunner) dataDir() string { return filepath.Join(mr.dir, "data") }

func (mr *multiRunner) byID(id any) *tsh {
	s, _ := id.(string)
	for _, t := range mr.ts {
		if t.g.id == s {
			return t
		}
	}
	return nil
}

func (mr *multiRunner) layouts() string {
	var l []string
	for _, t := range mr.ts {
		l = append(l, t.lay)
	}
	return strings.Join(l, ",")
}

func stateKey(vals [][2]any) string {
	b, _ := json.Marshal(vals)
	return string(b)
}

// observeSnap folds a loop snapshot of one torrent into its trace.
func (t *tsh) observeSnap(e map[string]any) {
	kn, hv := e["known"] == true, ints(e["have"])
	if e["verifying"] == true {
		t.verified = true
	}
	if kn != t.known || !sameInts(hv, t.have) {
		t.known, t.have = kn, hv
		t.abs(map[string]any{"ev": "mem", "known": kn, "have": hv})
	}
}

// judgeDB appends what a process death at this instant leaves behind for every torrent: ev = "crash" (the real file
// after the kill) or "dbsnap" (a consistent copy taken while the client runs; the data files are read AFTER the copy
// was taken - content only accumulates in these lives, so a claim that is not backed now was not backed then).
func (mr *multiRunner) judgeDB(ev, point, dbPath string) string {
	var vals [][2]any
	for _, t := range mr.ts {
		reopen, what, rec, known, bits := inspectDB(dbPath, t.g)
		if reopen && !rec && !t.norec { // norec: a torrent that is being moved in has no record until the move succeeded
			reopen, what = false, "no record"
		} else if rec {
			t.norec = false
		}
		class, exist := t.g.classes(mr.dataDir())
		t.abs(map[string]any{"ev": ev, "point": point, "n": mr.nsnap, "reopen": reopen, "what": what, "dbknown": known, "db": bits, "class": class, "exist": exist})
		vals = append(vals, [2]any{known, bits})
	}
	return stateKey(vals)
}

func (mr *multiRunner) spawn(fresh, add bool, rpc int) (*proc, error) {
	cmd := exec.Command(os.Args[0], "child2", "-dir", mr.dir, "-layouts", mr.layouts(), "-unit", strconv.Itoa(mr.sc.Unit),
		"-seed", strconv.FormatInt(mr.sc.Seed, 10), "-rwiMs", strconv.Itoa(mr.rwi), "-port", strconv.Itoa(mr.port),
		"-fresh="+strconv.FormatBool(fresh), "-add="+strconv.FormatBool(add), "-rpc", strconv.Itoa(rpc))
	return startProc(cmd)
}

func (mr *multiRunner) copyDB() (string, error) {
	b, err := os.ReadFile(filepath.Join(mr.dir, "session.db"))
	if err != nil {
		return "", err
	}
	cp := filepath.Join(mr.dir, "inspect.db")
	return cp, os.WriteFile(cp, b, 0o600)
}

// settledEvent records what a torrent treats as downloaded once its start has settled, next to the content of its files.
func (mr *multiRunner) settledEvent(t *tsh, e map[string]any) {
	t.settled = true
	class, exist := t.g.classes(mr.dataDir())
	t.abs(map[string]any{"ev": "settled", "have": t.have, "known": t.known, "verified": t.verified, "status": e["status"], "class": class, "exist": exist})
}

func (mr *multiRunner) connect(t *tsh, k int, port int, delayUs int) {
	pol := &vh.SeederPolicy{BlockDelay: time.Duration(delayUs) * time.Microsecond}
	if t.role == "part" {
		half := max(1, t.g.tor.NumPieces/2)
		pol.Have = func(i int) bool { return i < half }
	}
	addr := fmt.Sprintf("127.0.0.1:%d", port)
	go func() {
		for try := 0; try < 3; try++ {
			s, err := vh.ConnectSeeder(mr.T, "seed"+strconv.Itoa(k), "127.0.0."+strconv.Itoa(2+k), addr, t.g.tor, pol)
			if err == nil {
				t.smu.Lock()
				t.seeder = s
				t.smu.Unlock()
				return
			}
			time.Sleep(200 * time.Millisecond)
		}
	}()
}

// life runs one process life of the session with all torrents; snaps database snapshots are taken once every torrent
// has settled; then SIGKILL. With mv != nil the life is the target of a move (no torrent is added by the client).
func (mr *multiRunner) life(fresh bool, snaps int, mv *MoveSpec) error {
	mode := "multi"
	if mv != nil {
		mode = "movein"
	}
	for _, t := range mr.ts {
		t.known, t.have, t.settled, t.verified, t.gone = false, []int{}, false, false, false
		t.abs(map[string]any{"ev": "up", "fresh": fresh, "mode": mode, "wrap": false})
	}
	rpc := 0
	if mv != nil {
		rpc = mr.port + 9
	}
	p, err := mr.spawn(fresh, mv == nil, rpc)
	if err != nil {
		return machErr{"spawn: " + err.Error()}
	}
	defer func() {
		if !p.dead {
			p.cmd.Process.Kill()
		}
		p.cmd.Wait()
		for _, t := range mr.ts {
			t.smu.Lock()
			if t.seeder != nil {
				t.seeder.Close()
				t.seeder = nil
			}
			t.smu.Unlock()
		}
	}()
	kill := func(delayUs int) {
		if delayUs > 0 {
			time.Sleep(time.Duration(delayUs) * time.Microsecond)
		}
		p.cmd.Process.Kill()
		p.dead = true
	}
	deadline := time.After(90 * time.Second)
	var snapC <-chan time.Time
	var moveRes chan moveResult
	var atCut chan struct{}
	stopSend := make(chan struct{})
	defer close(stopSend)
	point := "time"
	sessionSeen, snapping, exited, done := false, false, false, false
	moved200 := false
	taken := 0
	waitSettle := false
	gap := func() time.Duration {
		g := 1
		if mr.sc.Multi != nil && mr.sc.Multi.GapUs > 0 {
			g = 1 + mr.rng.Intn(mr.sc.Multi.GapUs)
		}
		return time.Duration(g) * time.Microsecond
	}
	allSettled := func() bool {
		for _, t := range mr.ts {
			if !t.gone && !t.settled {
				return false
			}
		}
		return true
	}
	// every torrent has settled: the snapshot phase begins (or the life ends here)
	afterSettle := func() {
		if mv != nil || !sessionSeen || snapping || !allSettled() {
			return
		}
		snapping = true
		if snaps == 0 {
			point = "settled"
			kill(0)
			done = true
		} else {
			snapC = time.After(gap())
		}
	}
	for !done {
		select {
		case <-deadline:
			kill(0)
			return machErr{fmt.Sprintf("%s life: not finished within 90 s; stderr=%s", mode, tail(p.stderr.String()))}
		case <-snapC:
			snapC = nil
			p.send("snapdb " + filepath.Join(mr.dir, fmt.Sprintf("snap-%d.db", mr.nsnap)))
		case <-atCut:
			// the sender stalls inside the archive: the target dies now
			atCut = nil
			point = "move-hold"
			kill(mv.DelayUs)
			done = true
		case res := <-moveRes:
			moveRes = nil
			if res.status < 0 {
				kill(0)
				return machErr{"move request: " + res.err}
			}
			mr.ts[0].abs(map[string]any{"ev": "moveres", "status": res.status, "err": res.err})
			moved200 = res.status == 200
			point = "move-" + mv.Cut
			switch {
			case mv.After == "close":
				p.send("close")
			case mv.After == "settle" && moved200:
				waitSettle = true
				if mr.ts[0].settled {
					kill(mv.DelayUs)
					done = true
				}
			default:
				kill(mv.DelayUs)
				done = true
			}
		case e, ok := <-p.ev:
			if !ok {
				exited, done = true, true
				break
			}
			if debug {
				b, _ := json.Marshal(e)
				fmt.Fprintf(os.Stderr, "[%d %s] %s\n", mr.sc.ID, mode, b)
			}
			switch e["ev"] {
			case "session":
				sessionSeen = true
				if e["ok"] != true {
					what := fmt.Sprint("session ok=", e["ok"], " err=", e["err"])
					if s, _ := e["err"].(string); strings.Contains(s, "address already in use") || strings.Contains(s, "locked by another") {
						return machErr{what}
					}
					for _, t := range mr.ts {
						t.abs(map[string]any{"ev": "reopenfail", "what": what})
					}
					p.cmd.Wait()
					p.dead = true
					return errStopScenario
				}
				ld := map[string]bool{}
				if l, ok := e["loaded"].([]any); ok {
					for _, x := range l {
						if s, ok := x.(string); ok {
							ld[s] = true
						}
					}
				}
				for _, t := range mr.ts {
					if ld[t.g.id] || (fresh && mv != nil) {
						continue
					}
					t.gone = true
					if t.norec {
						t.abs(map[string]any{"ev": "absent"}) // the torrent never got a record: nothing is claimed
					} else {
						t.abs(map[string]any{"ev": "reopenfail", "what": "torrent " + t.g.id + " not loaded from the database"})
					}
				}
				if mv != nil {
					moveRes = make(chan moveResult, 1)
					if mv.Cut == "hold" {
						atCut = make(chan struct{})
					}
					t := mr.ts[0]
					hv := moveHave(t.g, mv)
					t.abs(map[string]any{"ev": "movereq", "have": hv, "cut": mv.Cut, "f": mv.F, "permil": mv.Permil})
					go sendMove(rpc, t.g, mv, hv, mr.dataDir(), atCut, stopSend, moveRes)
				} else {
					afterSettle()
				}
			case "snap":
				t := mr.byID(e["id"])
				if t == nil || t.gone {
					break
				}
				if s, _ := e["err"].(string); s != "" && e["status"] == "Stopped" {
					return machErr{"torrent " + t.g.id + " stopped with error: " + s}
				}
				t.observeSnap(e)
				if isSettled(e) && !t.settled {
					mr.settledEvent(t, e)
					if fresh && mv == nil && (t.role == "part" || t.role == "leech") {
						for k := range mr.ts {
							if mr.ts[k] == t {
								mr.connect(t, k, num(e, "port"), mr.sc.Multi.DelayUs)
							}
						}
					}
					if waitSettle {
						kill(mv.DelayUs)
						done = true
						break
					}
				}
				afterSettle()
			case "snapdb":
				if e["err"] != nil {
					return machErr{"snapshot: " + fmt.Sprint(e["err"])}
				}
				path, _ := e["path"].(string)
				key := mr.judgeDB("dbsnap", "tick", path)
				mr.nsnap++
				taken++
				if _, ok := mr.states[key]; ok {
					os.Remove(path)
				} else {
					mr.states[key] = path
					mr.order = append(mr.order, key)
				}
				if taken >= snaps {
					kill(0)
					done = true
				} else {
					snapC = time.After(gap())
				}
			}
		}
	}
	if !exited {
		to := time.After(5 * time.Second)
	drain:
		for {
			select {
			case e, ok := <-p.ev:
				if !ok {
					break drain
				}
				if e["ev"] == "snap" {
					if t := mr.byID(e["id"]); t != nil && !t.gone {
						t.observeSnap(e)
					}
				}
			case <-to:
				break drain
			}
		}
	}
	p.cmd.Wait()
	p.dead = true
	if !sessionSeen {
		return machErr{"child died before the session was up: " + tail(p.stderr.String())}
	}
	if exited && !(mv != nil && mv.After == "close") {
		return machErr{"child exited by itself: " + tail(p.stderr.String())}
	}
	cp, err := mr.copyDB()
	if err != nil {
		return machErr{"copy db: " + err.Error()}
	}
	defer os.Remove(cp)
	if moved200 {
		mr.ts[0].norec = false // the target answered 200: the record must be there
	}
	mr.judgeDB("crash", point, cp)
	mr.reached = append(mr.reached, point)
	return nil
}

// rewind makes the database file the state of snapshot key: the process died at that tick instead.
func (mr *multiRunner) rewind(key string) error {
	b, err := os.ReadFile(mr.states[key])
	if err != nil {
		return err
	}
	if err := os.WriteFile(filepath.Join(mr.dir, "session.db"), b, 0o600); err != nil {
		return err
	}
	for _, t := range mr.ts {
		reopen, what, _, known, bits := inspectDB(mr.states[key], t.g)
		class, exist := t.g.classes(mr.dataDir())
		t.abs(map[string]any{"ev": "rewind", "reopen": reopen, "what": what, "dbknown": known, "db": bits, "class": class, "exist": exist})
	}
	return nil
}

func (mr *multiRunner) run() error {
	sc := mr.sc
	if sc.Move != nil {
		if err := mr.life(true, 0, sc.Move); err != nil {
			return err
		}
		return mr.life(false, 0, nil)
	}
	m := sc.Multi
	rngPlant := rand.New(rand.NewSource(sc.Seed ^ 0x5eed))
	for _, t := range mr.ts {
		if t.role == "full" {
			for o := range t.g.files {
				if err := t.g.plant(mr.dataDir(), o, "good", rngPlant); err != nil {
					return err
				}
			}
			class, exist := t.g.classes(mr.dataDir())
			t.abs(map[string]any{"ev": "plant", "class": class, "exist": exist})
		}
	}
	for li := 0; li < max(1, m.Lives); li++ {
		if err := mr.life(li == 0, m.Snaps, nil); err != nil {
			return err
		}
	}
	final := mr.lastKey()
	if err := mr.life(false, 0, nil); err != nil {
		return err
	}
	// restarts from the distinct states the database went through (the state after the kill has just been restarted)
	var cand []string
	for _, k := range mr.order {
		if k != final {
			cand = append(cand, k)
		}
	}
	mr.rng.Shuffle(len(cand), func(i, j int) { cand[i], cand[j] = cand[j], cand[i] })
	for i, k := range cand {
		if i >= m.Restarts {
			break
		}
		if err := mr.rewind(k); err != nil {
			return machErr{"rewind: " + err.Error()}
		}
		if err := mr.life(false, 0, nil); err != nil {
			return err
		}
	}
	return nil
}

// lastKey is the state key of the last crash observation.
func (mr *multiRunner) lastKey() string {
	var vals [][2]any
	for _, t := range mr.ts {
		for i := len(t.out) - 1; i >= 0; i-- {
			if t.out[i]["ev"] == "crash" {
				vals = append(vals, [2]any{t.out[i]["dbknown"], t.out[i]["db"]})
				break
			}
		}
	}
	return stateKey(vals)
}

func runMulti(sc Scenario, dir string, port int, T *vh.Tracer) ([]map[string]any, []string, error) {
	mr := &multiRunner{sc: sc, dir: dir, port: port, T: T, rng: rand.New(rand.NewSource(sc.Seed ^ 0x3a3a)), states: map[string]string{}, rwi: 3}
	var roles, lays []string
	switch {
	case sc.Multi != nil:
		roles, lays = sc.Multi.Roles, sc.Multi.Layouts
		if sc.Multi.RwiMs > 0 {
			mr.rwi = sc.Multi.RwiMs
		}
	default:
		roles = []string{"moved"}
		if sc.Move.RwiMs > 0 {
			mr.rwi = sc.Move.RwiMs
		}
	}
	for k, role := range roles {
		lay := sc.Layout
		if k < len(lays) && lays[k] != "" {
			lay = lays[k]
		}
		g, err := geoK(lay, sc.Unit, sc.Seed, k)
		if err != nil {
			return nil, nil, err
		}
		t := &tsh{g: g, lay: lay, role: role, norec: sc.Move != nil}
		fo := make([][]int, len(g.fo))
		copy(fo, g.fo)
		t.abs(map[string]any{"ev": "init", "sid": sc.ID, "tid": k, "role": role, "np": g.tor.NumPieces, "nf": len(g.files), "fo": fo, "layout": lay})
		mr.ts = append(mr.ts, t)
	}
	err := mr.run()
	if err == errStopScenario {
		err = nil
	}
	if err != nil {
		return nil, nil, err
	}
	var out []map[string]any
	for _, t := range mr.ts {
		out = append(out, t.out...)
	}
	return out, mr.reached, nil
}

// ---------------------------------------------------------------------------------------------- move request

type moveResult struct {
	status int
	err    string
}

// moveHave is the bitfield the source sends: every piece, or the first half.
func moveHave(g *geo, mv *MoveSpec) []int {
	n := g.tor.NumPieces
	if mv.Have == "part" {
		n = max(1, n/2)
	}
	hv := []int{}
	for i := 0; i < n; i++ {
		hv = append(hv, i)
	}
	return hv
}

// sendMove makes the request Torrent.Move of a source session makes (multipart: id, metadata = resume record as JSON, data =
// tar archive of the torrent's directory) over a plain TCP connection and cuts it as the MoveSpec says: the source dies
// inside the archive (abort: its socket is closed after a prefix of the announced body, the answer of the target is awaited
// - the handler is done with the broken request then), it stalls there (hold: the target is killed once it has consumed the
// prefix), the archive ends early (short) or the request is complete (none).
func sendMove(rpc int, g *geo, mv *MoveSpec, hv []int, dataDir string, atCut, stop chan struct{}, res chan moveResult) {
	bf := make([]byte, (g.tor.NumPieces+7)/8)
	flat := make([]byte, len(g.tor.Data))
	for _, i := range hv {
		bf[i/8] |= 0x80 >> uint(i%8)
		lo := int64(i) * int64(g.tor.PieceLen)
		copy(flat[lo:lo+int64(g.tor.PieceLenOf(i))], g.tor.PieceData(i))
	}
	spec := boltdbresumer.Spec{InfoHash: g.tor.InfoHash[:], Name: g.tor.Name, Info: g.tor.InfoBytes, Bitfield: bf,
		AddedAt: time.Now().UTC().Truncate(time.Second), Started: true, Version: boltdbresumer.LatestVersion}
	var body bytes.Buffer
	mw := multipart.NewWriter(&body)
	cut := false   // the body ends inside the request
	cutPath := ""  // file that receives a prefix only, and the length of that prefix
	cutLen := int64(-1)
	build := func() error {
		fw, err := mw.CreateFormField("id")
		if err != nil {
			return err
		}
		if _, err = fw.Write([]byte(g.id)); err != nil {
			return err
		}
		if fw, err = mw.CreateFormField("metadata"); err != nil {
			return err
		}
		if err = json.NewEncoder(fw).Encode(spec); err != nil {
			return err
		}
		if mv.Cut == "meta" {
			cut = true
			return nil
		}
		if fw, err = mw.CreateFormField("data"); err != nil {
			return err
		}
		tw := tar.NewWriter(fw)
		for o, fi := range g.files {
			if mv.Cut == "short" && o >= mv.F {
				break
			}
			fs := g.tor.FileStart(fi)
			content := flat[fs : fs+g.tor.Files[fi].Length]
			if err = tw.WriteHeader(&tar.Header{Name: g.tor.StoragePath(fi), Mode: 0o600, Size: int64(len(content))}); err != nil {
				return err
			}
			if (mv.Cut == "abort" || mv.Cut == "hold") && o == mv.F {
				n := int(int64(len(content)) * int64(mv.Permil) / 1000)
				if _, err = tw.Write(content[:n]); err != nil {
					return err
				}
				cut, cutPath, cutLen = true, g.path(dataDir, o), int64(n)
				return nil // (tar.Writer does not buffer file content)
			}
			if _, err = tw.Write(content); err != nil {
				return err
			}
		}
		if err = tw.Close(); err != nil {
			return err
		}
		return mw.Close()
	}
	if err := build(); err != nil {
		res <- moveResult{-1, "build: " + err.Error()}
		return
	}
	announced := body.Len()
	if cut {
		announced += 1 << 16 // the source announced more than it sends
	}
	nc, err := vh.DialFrom("", "127.0.0.1:"+strconv.Itoa(rpc), 5*time.Second)
	if err != nil {
		res <- moveResult{-1, "dial: " + err.Error()}
		return
	}
	defer nc.Close()
	nc.SetDeadline(time.Now().Add(40 * time.Second))
	hdr := fmt.Sprintf("POST /move-torrent?id=%s HTTP/1.1\r\nHost: 127.0.0.1:%d\r\nContent-Type: %s\r\nContent-Length: %d\r\nConnection: close\r\n\r\n",
		g.id, rpc, mw.FormDataContentType(), announced)
	if _, err = io.WriteString(nc, hdr); err == nil {
		_, err = nc.Write(body.Bytes())
	}
	if err != nil {
		res <- moveResult{0, "send: " + err.Error()}
		return
	}
	if mv.Cut == "hold" {
		// wait until the target has consumed what was sent (the file that is cut has its prefix on disk)
		for t0 := time.Now(); time.Since(t0) < 3*time.Second; time.Sleep(2 * time.Millisecond) {
			if st, err := os.Stat(cutPath); err == nil && st.Size() >= cutLen {
				break
			}
		}
		close(atCut)
		select { // the target is killed meanwhile
		case <-stop:
		case <-time.After(20 * time.Second):
		}
		return
	}
	if cut {
		if tc, ok := nc.(*net.TCPConn); ok {
			tc.CloseWrite() // the source is gone: end of stream inside the announced body
		}
	}
	resp, err := http.ReadResponse(bufio.NewReader(nc), nil)
	if err != nil {
		res <- moveResult{0, "no answer"}
		return
	}
	_, _ = io.Copy(io.Discard, resp.Body)
	resp.Body.Close()
	res <- moveResult{resp.StatusCode, ""}
}

// inspectDB reads the resume record of torrent g.id out of a database file (read-only), as a later process finds it.
// rec = false: the database is sound but holds no record of the torrent.
func inspectDB(path string, g *geo) (reopen bool, what string, rec, known bool, bits []int) {
	bits = []int{}
	func() {
		defer func() {
			if x := recover(); x != nil {
				reopen, what = false, fmt.Sprint("panic: ", x)
			}
		}()
		db, err := bbolt.Open(path, 0o600, &bbolt.Options{ReadOnly: true, Timeout: 2 * time.Second})
		if err != nil {
			what = "open: " + err.Error()
			return
		}
		defer db.Close()
		err = db.View(func(tx *bbolt.Tx) error {
			var cerr error
			for e := range tx.Check() {
				if cerr == nil {
					cerr = e
				}
			}
			if cerr != nil {
				return fmt.Errorf("check: %v", cerr)
			}
			tb := tx.Bucket([]byte("torrents"))
			if tb == nil {
				return fmt.Errorf("no torrents bucket")
			}
			bk := tb.Bucket([]byte(g.id))
			if bk == nil {
				return nil
			}
			rec = true
			if !bytes.Equal(bk.Get([]byte("info_hash")), g.tor.InfoHash[:]) {
				return fmt.Errorf("info_hash differs")
			}
			if !bytes.Equal(bk.Get([]byte("info")), g.tor.InfoBytes) {
				return fmt.Errorf("info differs")
			}
			v := bk.Get([]byte("bitfield"))
			if len(v) > 0 {
				if len(v) != (g.tor.NumPieces+7)/8 {
					return fmt.Errorf("bitfield length %d", len(v))
				}
				known = true
				bits = bitsOf(v, g.tor.NumPieces)
			}
			return nil
		})
		if err != nil {
			what = err.Error()
			return
		}
		reopen = true
	}()
	return
}
