package main

// The other entry paths of untrusted metainfo (C06): a .torrent downloaded from a URL (Session.AddURI against scripted
// HTTP servers), the info dictionary delivered by a peer for a magnet link (ut_metadata, scripted peer of harness/vh),
// a resume record loaded by a new session, and the file path again - all on a session with LOWERED limits
// (MaxPieces = 3, MaxTorrentSize = 64 KiB, TorrentAddHTTPTimeout = 500 ms), so that the limits are cheap to reach.

import (
	"bufio"
	"bytes"
	"crypto/sha1"
	"encoding/hex"
	"encoding/json"
	"fmt"
	"net"
	"os"
	"path/filepath"
	"strings"
	"sync"
	"sync/atomic"
	"time"

	"github.com/cenkalti/rain/v2/internal/metainfo"
	"github.com/cenkalti/rain/v2/internal/resumer/boltdbresumer"
	"github.com/cenkalti/rain/v2/internal/verif/vh"
	"github.com/cenkalti/rain/v2/torrent"
	"go.etcd.io/bbolt"
)

const (
	fURL  = 32  // Session.AddURI("http://...") against a scripted server
	fMag  = 64  // magnet link + scripted peer serving the info dictionary through the metadata extension
	fRes  = 128 // resume record carrying the info dictionary, loaded by a new session
	fAddL = 256 // Session.AddTorrent on the low-limit session (the file path under the same limits)

	lowMaxPieces = 3
	lowMaxSize   = 64 << 10
	urlTimeoutMs = 500
	urlSlackMs   = 5000 // = Trace_Metainfo!UrlSlackMs
)

type child struct {
	scratch  string
	portBase int
	emit     func(line)
	low      *torrent.Session
	cfgLow   torrent.Config
	tr       *vh.Tracer
}

func machinery(f string, a ...any) {
	fmt.Fprintln(os.Stderr, "VERIF-MACHINERY "+fmt.Sprintf(f, a...))
	os.Exit(87)
}

func (c *child) lowConfig() torrent.Config {
	cfg := torrent.DefaultConfig
	cfg.Database = filepath.Join(c.scratch, "dbl", "session.db")
	cfg.DataDir = filepath.Join(c.scratch, "l", "data")
	cfg.DHTEnabled = false
	cfg.PEXEnabled = false
	cfg.RPCEnabled = false
	cfg.Host = "127.0.0.1"
	base, err := vh.FreePortRange(40) // probed: other checks and other runs of this one share the machine
	if err != nil {
		machinery("no free port range")
	}
	cfg.PortBegin = uint16(base)
	cfg.PortEnd = uint16(base + 40)
	cfg.MaxOpenFiles = 0
	cfg.ResumeOnStartup = false
	cfg.MaxPieces = lowMaxPieces
	cfg.MaxTorrentSize = lowMaxSize
	cfg.TorrentAddHTTPTimeout = urlTimeoutMs * time.Millisecond
	return cfg
}

func (c *child) lowSession() *torrent.Session {
	if c.low != nil {
		return c.low
	}
	c.cfgLow = c.lowConfig()
	s, err := torrent.NewSession(c.cfgLow)
	if err != nil {
		machinery("cannot create low-limit session: %v", err)
	}
	c.low = s
	c.tr, _ = vh.NewTracer("")
	return s
}

func (c *child) limits(l line) {
	l["lim"] = 1
	l["maxn"] = limbsI(int64(c.cfgLow.MaxPieces))
	l["maxsz"] = limbsI(int64(c.cfgLow.MaxTorrentSize))
}

func snapOf(id string) *torrent.VerifSnap {
	snapMu.Lock()
	defer snapMu.Unlock()
	return snaps[id]
}

func dropSnap(id string) {
	snapMu.Lock()
	delete(snaps, id)
	snapMu.Unlock()
}

func waitSnap(id string, d time.Duration, pred func(*torrent.VerifSnap) bool) bool {
	deadline := time.Now().Add(d)
	for time.Now().Before(deadline) {
		if sn := snapOf(id); sn != nil && pred(sn) {
			return true
		}
		time.Sleep(200 * time.Microsecond)
	}
	return false
}

// afterAccept waits until the started torrent has built its pieces (or stopped with an error).
func afterAccept(l line, id, where string) {
	ok := waitSnap(id, 60*time.Second, func(sn *torrent.VerifSnap) bool {
		return sn.PiecesLoaded || (!sn.Running && sn.LastErr != "")
	})
	if !ok {
		l["ev"] = "hang"
		l["where"] = "no-progress@" + where
	}
}

// ------------------------------------------------------------------------------------------ file path, low limits

func (c *child) addLow(idx int, data []byte, parsed *metainfo.MetaInfo) {
	s := c.lowSession()
	l := blank(idx, "addl", len(data))
	c.limits(l)
	c.emit(line{"ph": "begin", "l": l})
	a0 := allocs()
	t, err := s.AddTorrent(bytes.NewReader(data), &torrent.AddTorrentOptions{Stopped: true})
	l["akb"] = allocKB(a0)
	if err == nil {
		if parsed != nil {
			project(l, &parsed.Info)
		}
		l["acc"] = 1
		n, _, _, ok := firstValueLen(data)
		if !ok {
			n = len(data)
		}
		l["size"] = limbsI(int64(n))
		l["n"] = limbsI(int64(t.Stats().Pieces.Total))
		_ = s.RemoveTorrent(t.ID(), false)
	}
	c.emit(line{"ph": "case", "l": l})
}

// ------------------------------------------------------------------------------------------ magnet + metadata peer

func (c *child) magnet(idx int, ib []byte) {
	s := c.lowSession()
	l := blank(idx, "mag", len(ib))
	c.limits(l)
	l["maxsz"] = limbsI(int64(c.cfgLow.MaxMetadataSize)) // the size limit of this path
	c.emit(line{"ph": "begin", "l": l})
	hash := sha1.Sum(ib)
	verdict := ""
	var t *torrent.Torrent
	why := ""
	for attempt := 0; attempt < 4 && verdict == ""; attempt++ {
		var err error
		t, err = s.AddURI("magnet:?xt=urn:btih:"+hex.EncodeToString(hash[:]), nil)
		if err != nil {
			machinery("AddURI(magnet) failed: %v", err)
		}
		id := t.ID()
		// rain only warns when the port it picked is taken by another process: try again with another port then
		if !waitSnap(id, 8*time.Second, func(sn *torrent.VerifSnap) bool { return sn.Acceptor }) {
			why = "magnet torrent does not listen"
			_ = s.RemoveTorrent(id, false)
			dropSnap(id)
			continue
		}
		tor := &vh.Torrent{InfoBytes: ib, InfoHash: hash}
		var sd *vh.Seeder
		for try := 0; try < 50; try++ {
			sd, err = vh.ConnectSeeder(c.tr, "m", "127.0.0.2", fmt.Sprintf("127.0.0.1:%d", t.Port()), tor,
				&vh.SeederPolicy{Metadata: true, NoUnchoke: true})
			if err == nil {
				break
			}
			time.Sleep(20 * time.Millisecond)
		}
		if err != nil {
			why = "cannot connect the metadata peer: " + err.Error()
			_ = s.RemoveTorrent(id, false)
			dropSnap(id)
			continue
		}
		why = "neither accepted nor refused after 30 s"
		waitSnap(id, 30*time.Second, func(sn *torrent.VerifSnap) bool {
			switch {
			case sn.HasInfo:
				verdict = "acc"
			case !sn.Running && sn.LastErr != "":
				verdict = "rej"
			}
			return verdict != ""
		})
		if verdict == "acc" {
			l["acc"] = 1
			if info, err := metainfo.NewInfo(ib, true, true); err == nil {
				project(l, info)
			}
			l["n"] = limbsI(int64(snapOf(id).NumPieces))
			l["size"] = limbsI(int64(len(ib)))
			c.emit(line{"ph": "begin", "l": l}) // accepted: a death from here on is charged to an accepted description
			afterAccept(l, id, "magnet")
		}
		sd.Close()
		_ = s.RemoveTorrent(id, false)
		dropSnap(id)
	}
	if verdict == "" {
		machinery("magnet: %s (input %d)", why, idx)
	}
	c.emit(line{"ph": "case", "l": l})
}

// ------------------------------------------------------------------------------------------ resume record

func (c *child) resume(idx int, ib []byte) {
	c.lowSession()
	l := blank(idx, "res", len(ib))
	c.limits(l)
	l["maxsz"] = limbsI(int64(len(ib))) // no size limit on this path
	c.emit(line{"ph": "begin", "l": l})
	dir := filepath.Join(c.scratch, "res")
	os.MkdirAll(dir, 0o755)
	dbp := filepath.Join(dir, fmt.Sprintf("%d.db", idx))
	os.Remove(dbp)
	db, err := bbolt.Open(dbp, 0o600, &bbolt.Options{Timeout: time.Second})
	if err != nil {
		machinery("bbolt.Open: %v", err)
	}
	res, err := boltdbresumer.New(db, []byte("torrents"))
	if err != nil {
		machinery("boltdbresumer.New: %v", err)
	}
	hash := sha1.Sum(ib)
	err = res.Write("r", &boltdbresumer.Spec{InfoHash: hash[:], Port: 1, Name: "r", Info: ib, AddedAt: time.Now()})
	if err != nil {
		machinery("resumer.Write: %v", err)
	}
	db.Close()
	cfg := c.cfgLow
	cfg.Database = dbp
	cfg.DataDir = filepath.Join(c.scratch, "r", "data")
	if base, err := vh.FreePortRange(4); err == nil {
		cfg.PortBegin = uint16(base)
		cfg.PortEnd = uint16(base + 4)
	}
	s2, err := torrent.NewSession(cfg)
	if err != nil {
		machinery("NewSession over the resume record: %v", err)
	}
	if ts := s2.ListTorrents(); len(ts) == 1 {
		t := ts[0]
		l["acc"] = 1
		if info, err := metainfo.NewInfo(ib, true, true); err == nil {
			project(l, info)
		}
		l["n"] = limbsI(int64(t.Stats().Pieces.Total))
		l["size"] = limbsI(int64(len(ib)))
		c.emit(line{"ph": "begin", "l": l})
		if err := t.Start(); err == nil {
			afterAccept(l, t.ID(), "resume")
		}
		_ = s2.RemoveTorrent(t.ID(), false)
		dropSnap(t.ID())
	}
	_ = s2.Close()
	os.Remove(dbp)
	os.RemoveAll(cfg.DataDir) // every record starts on an empty data directory, like the other paths
	c.emit(line{"ph": "case", "l": l})
}

// ------------------------------------------------------------------------------------------ URL + scripted server

type scriptSrv struct {
	l     net.Listener
	sc    gcase
	body  []byte
	tmo   time.Duration
	sent  atomic.Int64 // body bytes handed to the kernel
	stop  chan struct{}
	mu    sync.Mutex
	conns []net.Conn
}

func startScriptSrv(sc gcase, body []byte, tmo time.Duration) *scriptSrv {
	l, err := net.Listen("tcp4", "127.0.0.1:0")
	if err != nil {
		machinery("listen: %v", err)
	}
	s := &scriptSrv{l: l, sc: sc, body: body, tmo: tmo, stop: make(chan struct{})}
	go func() {
		for {
			c, err := l.Accept()
			if err != nil {
				return
			}
			s.mu.Lock()
			s.conns = append(s.conns, c)
			s.mu.Unlock()
			go s.handle(c)
		}
	}()
	return s
}

func (s *scriptSrv) URL() string { return "http://" + s.l.Addr().String() + "/t.torrent" }

func (s *scriptSrv) Close() {
	close(s.stop)
	s.l.Close()
	s.mu.Lock()
	for _, c := range s.conns {
		c.Close()
	}
	s.mu.Unlock()
}

func (s *scriptSrv) stopped() bool {
	select {
	case <-s.stop:
		return true
	default:
		return false
	}
}

// pause waits d (or for ever when d = 0); false when the server was closed meanwhile.
func (s *scriptSrv) pause(d time.Duration) bool {
	if d == 0 {
		<-s.stop
		return false
	}
	select {
	case <-s.stop:
		return false
	case <-time.After(d):
		return true
	}
}

func (s *scriptSrv) put(c net.Conn, b []byte, body bool) bool {
	if s.stopped() {
		return false
	}
	n, err := c.Write(b)
	if body {
		s.sent.Add(int64(n))
	}
	return err == nil
}

func (s *scriptSrv) handle(c net.Conn) {
	defer c.Close()
	br := bufio.NewReader(c)
	path := ""
	for { // request head
		ln, err := br.ReadString('\n')
		if err != nil {
			return
		}
		if path == "" {
			if f := strings.Fields(ln); len(f) >= 2 {
				path = f[1]
			}
		}
		if strings.TrimSpace(ln) == "" {
			break
		}
	}
	switch s.sc.Hdr {
	case "never":
		s.pause(0)
		return
	case "partial":
		s.put(c, []byte("HTTP/1.1 200 O"), false)
		s.pause(0)
		return
	case "late":
		if !s.pause(3 * s.tmo) {
			return
		}
	}
	simple := func(status, extra, body string) {
		s.put(c, []byte("HTTP/1.1 "+status+"\r\n"+extra+fmt.Sprintf("Content-Length: %d\r\nConnection: close\r\n\r\n%s", len(body), body)), false)
	}
	switch s.sc.Status {
	case "redir-loop":
		simple("302 Found", "Location: /loop\r\n", "")
		return
	case "redir-chain":
		hop := 0
		fmt.Sscanf(path, "/hop%d", &hop)
		if hop < 4 {
			simple("302 Found", fmt.Sprintf("Location: /hop%d\r\n", hop+1), "")
			return
		}
	case "404":
		simple("404 Not Found", "", "not here\n")
		return
	case "500":
		simple("500 Internal Server Error", "", "broken\n")
		return
	case "204":
		s.put(c, []byte("HTTP/1.1 204 No Content\r\nConnection: close\r\n\r\n"), false)
		return
	}
	// 200 + body
	n := len(s.body)
	endless := s.sc.Body == "endless"
	head := "HTTP/1.1 200 OK\r\nContent-Type: application/x-bittorrent\r\nConnection: close\r\n"
	switch s.sc.CL {
	case "exact":
		if !endless {
			head += fmt.Sprintf("Content-Length: %d\r\n", n)
		}
	case "huge":
		head += "Content-Length: 1099511627776\r\n"
	case "under":
		if endless {
			head += "Content-Length: 1000\r\n"
		} else {
			head += fmt.Sprintf("Content-Length: %d\r\n", n/2)
		}
	case "over":
		head += fmt.Sprintf("Content-Length: %d\r\n", n+1000)
	}
	if !s.put(c, []byte(head+"\r\n"), false) {
		return
	}
	zeros := make([]byte, 64<<10)
	complete := false
	switch s.sc.Pace {
	case "fast":
		if endless {
			for s.put(c, zeros, true) {
			}
			return
		}
		complete = s.put(c, s.body, true)
	case "drip":
		for i := 0; ; i++ {
			if endless {
				if !s.put(c, zeros[:1024], true) {
					return
				}
			} else {
				if i >= n {
					complete = true
					break
				}
				if !s.put(c, s.body[i:i+1], true) {
					return
				}
			}
			if !s.pause(s.tmo / 8) {
				return
			}
		}
	case "stall-start":
		s.pause(0)
		return
	case "stall-mid":
		s.put(c, s.body[:n/2], true)
		s.pause(0)
		return
	case "close-mid":
		s.put(c, s.body[:n/2], true)
		return
	}
	if complete && (s.sc.CL == "over" || s.sc.CL == "huge") {
		s.pause(0) // the announced rest never comes; the connection stays open
	}
}

func (c *child) url(idx int, body []byte, script []byte) {
	var sc gcase
	if err := json.Unmarshal(script, &sc); err != nil {
		machinery("bad http script: %v", err)
	}
	s := c.lowSession()
	l := blank(idx, "url", len(body))
	c.limits(l)
	l["tmo"] = urlTimeoutMs
	l["ikb"] = lowMaxSize / 1024
	l["where"] = fmt.Sprintf("head-%s/body-%s", sc.Hdr, sc.Pace) // the class of server behaviour; the full script is in "case"
	c.emit(line{"ph": "begin", "l": l})
	srv := startScriptSrv(sc, body, urlTimeoutMs*time.Millisecond)
	type result struct {
		t   *torrent.Torrent
		err error
	}
	done := make(chan result, 1)
	a0 := allocs()
	t0 := time.Now()
	go func() {
		t, err := s.AddURI(srv.URL(), &torrent.AddTorrentOptions{Stopped: true})
		done <- result{t, err}
	}()
	limit := time.Duration(urlTimeoutMs+urlSlackMs+500) * time.Millisecond
	select {
	case r := <-done:
		l["ret"] = 1
		l["ms"] = int(time.Since(t0).Milliseconds())
		l["akb"] = allocKB(a0)
		if r.err == nil {
			l["acc"] = 1
			if mi, err := metainfo.New(bytes.NewReader(body)); err == nil {
				project(l, &mi.Info)
			}
			n, _, _, ok := firstValueLen(body)
			if !ok {
				n = len(body)
			}
			l["size"] = limbsI(int64(n))
			l["n"] = limbsI(int64(r.t.Stats().Pieces.Total))
			_ = s.RemoveTorrent(r.t.ID(), false)
		}
	case <-time.After(limit):
		l["ret"] = 0
		l["ms"] = int(limit.Milliseconds())
		l["akb"] = allocKB(a0)
		go func() { // the call is abandoned; whatever it adds later is removed
			if r := <-done; r.err == nil && r.t != nil {
				_ = s.RemoveTorrent(r.t.ID(), false)
			}
		}()
	}
	srv.Close()
	l["rkb"] = int(srv.sent.Load() >> 10)
	c.emit(line{"ph": "case", "l": l})
}
