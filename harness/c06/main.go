// Command c06 feeds generated and mutated metainfo to the real parser, piece construction and session.
//
//	parent: c06 -mode parent -cases cases.json -out trace.ndjson -seed S -mut M -workers W -scratch DIR
//	child : c06 -mode child  -inputs F -scratch DIR -memcap MB      (jobs on stdin, one JSON line per event on stdout)
//
// Every risky call runs in a child process.  The child announces each call ("begin" line with the projection of
// the accepted description) before making it, so that a hang / crash / runaway allocation becomes a recorded
// event of that call (ev = hang | crash | oom) instead of killing the check.  Trace_Metainfo.tla judges the lines.
package main

import (
	"bufio"
	"bytes"
	"encoding/binary"
	"encoding/hex"
	"encoding/json"
	"flag"
	"fmt"
	"io"
	"math/big"
	"math/rand"
	"os"
	"os/exec"
	"os/signal"
	"path/filepath"
	"regexp"
	"runtime"
	"runtime/debug"
	"runtime/metrics"
	"sort"
	"strings"
	"sync"
	"syscall"
	"time"

	"github.com/cenkalti/rain/v2/internal/allocator"
	"github.com/cenkalti/rain/v2/internal/metainfo"
	"github.com/cenkalti/rain/v2/internal/piece"
	"github.com/cenkalti/rain/v2/torrent"
)

const (
	fNew   = 1  // metainfo.New
	fNI    = 2  // metainfo.NewInfo on the raw info dictionary (resume versions 1 and 2)
	fNP    = 4  // piece.NewPieces on the accepted description
	fAdd   = 8  // Session.AddTorrent (stopped) + RemoveTorrent
	fStart = 16 // Session.AddTorrent + Start, wait until allocation is over
)

type line map[string]any

var base = big.NewInt(10000)

func limbs(x *big.Int) []int {
	a := new(big.Int).Abs(x)
	out := []int{}
	m := new(big.Int)
	for a.Sign() > 0 {
		a.DivMod(a, base, m)
		out = append(out, int(m.Int64()))
	}
	return out
}
func limbsI(v int64) []int { return limbs(big.NewInt(v)) }

func project(l line, info *metainfo.Info) {
	l["acc"] = 1
	l["pl"] = limbsI(int64(info.PieceLength))
	l["n"] = limbsI(int64(info.NumPieces))
	lens := []line{}
	pad := []int{}
	for _, f := range info.Files {
		neg := 0
		if f.Length < 0 {
			neg = 1
		}
		lens = append(lens, line{"neg": neg, "m": limbs(big.NewInt(f.Length))})
		p := 0
		if f.Padding {
			p = 1
		}
		pad = append(pad, p)
	}
	l["lens"] = lens
	l["pad"] = pad
	if info.Private {
		l["priv"] = 1
	}
}

func blank(idx int, site string, inlen int) line {
	return line{"op": "Case", "id": idx, "site": site, "acc": 0, "pl": []int{}, "n": []int{}, "lens": []line{}, "pad": []int{},
		"priv": 0, "size": []int{}, "lim": 0, "maxn": []int{}, "maxsz": []int{}, "st": 0, "steps": []int{}, "ev": "", "where": "",
		"akb": 0, "ikb": inlen / 1024, "ret": 1, "ms": 0, "tmo": 0}
}

// ---------------------------------------------------------------------------------------------- child

type inputFile struct {
	f    *os.File
	offs []int64 // 2 frames per input: data, info
}

func openInputs(p string) *inputFile {
	f, err := os.Open(p)
	if err != nil {
		panic(err)
	}
	var n uint32
	binary.Read(f, binary.LittleEndian, &n)
	offs := make([]int64, 2*n+1)
	binary.Read(f, binary.LittleEndian, offs)
	return &inputFile{f, offs}
}

func (in *inputFile) get(i, which int) []byte {
	a, b := in.offs[2*i+which], in.offs[2*i+which+1]
	buf := make([]byte, b-a)
	if _, err := in.f.ReadAt(buf, a); err != nil && err != io.EOF {
		panic(err)
	}
	return buf
}

var (
	snapMu sync.Mutex
	snaps  = map[string]*torrent.VerifSnap{}
)

var allocSample = []metrics.Sample{{Name: "/gc/heap/allocs:bytes"}}

func allocs() uint64 {
	metrics.Read(allocSample)
	return allocSample[0].Value.Uint64()
}

// allocKB returns the KiB allocated since a0; after a big allocation the garbage is collected at once so that
// consecutive calls never add up to the heap cap of the watchdog (the cap is for calls that do not return).
func allocKB(a0 uint64) int {
	kb := int((allocs() - a0) >> 10)
	if kb > 64<<10 {
		debug.FreeOSMemory()
	}
	return kb
}

func memWatch(capMB uint64) {
	s := []metrics.Sample{{Name: "/memory/classes/heap/objects:bytes"}}
	for {
		time.Sleep(2 * time.Millisecond)
		metrics.Read(s)
		if s[0].Value.Uint64() > capMB<<20 {
			buf := make([]byte, 1<<20)
			n := runtime.Stack(buf, true)
			os.Stderr.WriteString("\nVERIF-MEMCAP heap objects above cap\n")
			os.Stderr.Write(buf[:n])
			os.Exit(86)
		}
	}
}

func childMain(inputs, scratch string, capMB uint64, portBase int) {
	in := openInputs(inputs)
	out := bufio.NewWriterSize(os.Stdout, 1<<16)
	emit := func(l line) {
		b, _ := json.Marshal(l)
		out.Write(b)
		out.WriteByte('\n')
		out.Flush()
	}
	go memWatch(capMB)
	// watchdog request from the parent: dump all goroutines (runtime.Stack stops the world, so the busy goroutine's
	// stack is available, unlike with SIGQUIT) and exit
	sigC := make(chan os.Signal, 1)
	signal.Notify(sigC, syscall.SIGUSR1)
	go func() {
		<-sigC
		buf := make([]byte, 4<<20)
		n := runtime.Stack(buf, true)
		os.Stderr.WriteString("\nVERIF-WATCHDOG dump\n")
		os.Stderr.Write(buf[:n])
		os.Exit(88)
	}()
	torrent.VerifSetTracer(func(s *torrent.VerifSnap) {
		snapMu.Lock()
		snaps[s.ID] = s
		snapMu.Unlock()
	})
	var sess *torrent.Session
	var cfg torrent.Config
	session := func() *torrent.Session {
		if sess != nil {
			return sess
		}
		cfg = torrent.DefaultConfig
		cfg.Database = filepath.Join(scratch, "db", "session.db")
		cfg.DataDir = filepath.Join(scratch, "a", "b", "data")
		cfg.DHTEnabled = false
		cfg.PEXEnabled = false
		cfg.RPCEnabled = false
		cfg.Host = "127.0.0.1"
		cfg.PortBegin = uint16(portBase)
		cfg.PortEnd = uint16(portBase + 50)
		cfg.MaxOpenFiles = 0
		cfg.ResumeOnStartup = false
		s, err := torrent.NewSession(cfg)
		if err != nil {
			fmt.Fprintln(os.Stderr, "VERIF-MACHINERY cannot create session:", err)
			os.Exit(87)
		}
		sess = s
		return s
	}
	limits := func(l line) {
		l["lim"] = 1
		l["maxn"] = limbsI(int64(cfg.MaxPieces))
		l["maxsz"] = limbsI(int64(cfg.MaxTorrentSize))
	}
	ch := &child{scratch: scratch, portBase: portBase, emit: emit}
	sc := bufio.NewScanner(os.Stdin)
	for sc.Scan() {
		var idx, flags int
		fmt.Sscan(sc.Text(), &idx, &flags)
		data := in.get(idx, 0)
		infoB := in.get(idx, 1)
		emit(line{"ph": "job", "id": idx})
		if flags&fURL != 0 {
			ch.url(idx, data, infoB)
			emit(line{"ph": "end", "id": idx})
			continue
		}
		var parsed *metainfo.MetaInfo
		parse := func() *metainfo.MetaInfo {
			if parsed == nil {
				parsed, _ = metainfo.New(bytes.NewReader(data))
			}
			return parsed
		}
		if flags&fNew != 0 {
			l := blank(idx, "new", len(data))
			emit(line{"ph": "begin", "l": l})
			a0 := allocs()
			mi, err := metainfo.New(bytes.NewReader(data))
			l["akb"] = allocKB(a0)
			if err == nil {
				parsed = mi
				project(l, &mi.Info)
				l["size"] = limbsI(int64(len(mi.Info.Bytes)))
			}
			emit(line{"ph": "case", "l": l})
		}
		if flags&fNI != 0 && len(infoB) > 0 {
			for k, site := range []string{"ni1", "ni2"} {
				l := blank(idx, site, len(infoB))
				emit(line{"ph": "begin", "l": l})
				a0 := allocs()
				info, err := metainfo.NewInfo(infoB, k == 1, false)
				l["akb"] = allocKB(a0)
				if err == nil {
					project(l, info)
					l["size"] = limbsI(int64(len(info.Bytes)))
				}
				emit(line{"ph": "case", "l": l})
			}
		}
		if flags&fAdd != 0 {
			s := session()
			l := blank(idx, "add", len(data))
			limits(l)
			emit(line{"ph": "begin", "l": l})
			a0 := allocs()
			t, err := s.AddTorrent(bytes.NewReader(data), &torrent.AddTorrentOptions{Stopped: true})
			l["akb"] = allocKB(a0)
			if err == nil {
				if mi := parse(); mi != nil {
					project(l, &mi.Info)
				}
				l["acc"] = 1
				n, _, _, ok := firstValueLen(data)
				if !ok {
					n = len(data)
				}
				l["size"] = limbsI(int64(n))
				l["n"] = limbsI(int64(t.Stats().Pieces.Total))
				_ = s.RemoveTorrent(t.ID(), false)
			}
			emit(line{"ph": "case", "l": l})
		}
		if flags&fNP != 0 {
			if mi := parse(); mi != nil {
				l := blank(idx, "np", len(data))
				project(l, &mi.Info)
				emit(line{"ph": "begin", "l": l})
				files := make([]allocator.File, len(mi.Info.Files))
				for i, f := range mi.Info.Files {
					files[i] = allocator.File{Name: f.Path, Padding: f.Padding}
				}
				a0 := allocs()
				pieces := piece.NewPieces(&mi.Info, files)
				l["akb"] = allocKB(a0)
				steps := int64(0)
				for i := range pieces {
					steps += int64(len(pieces[i].Data))
				}
				l["st"] = 1
				l["steps"] = limbsI(steps)
				// allocation here is bounded by the description (pieces + sections), not by the byte length of the input
				l["ikb"] = int((int64(len(pieces))*128+steps*96)>>10) + len(data)/1024
				emit(line{"ph": "case", "l": l})
			}
		}
		if flags&fStart != 0 {
			s := session()
			l := blank(idx, "start", len(data))
			limits(l)
			if mi := parse(); mi != nil {
				project(l, &mi.Info)
				l["acc"] = 0
			}
			emit(line{"ph": "begin", "l": l})
			t, err := s.AddTorrent(bytes.NewReader(data), nil)
			if err == nil {
				l["acc"] = 1
				emit(line{"ph": "begin", "l": l}) // accepted and started: a death from here on is charged to an accepted description
				n, _, _, ok := firstValueLen(data)
				if !ok {
					n = len(data)
				}
				l["size"] = limbsI(int64(n))
				res := "timeout"
				deadline := time.Now().Add(60 * time.Second) // the parent's watchdog is the real limit
				for time.Now().Before(deadline) {
					snapMu.Lock()
					sn := snaps[t.ID()]
					snapMu.Unlock()
					if sn != nil {
						if sn.PiecesLoaded {
							res = "loaded"
							break
						}
						if !sn.Running && sn.LastErr != "" {
							res = "stopped"
							break
						}
					}
					time.Sleep(200 * time.Microsecond)
				}
				l["res"] = res
				if res == "timeout" {
					l["ev"] = "hang"
					l["where"] = "no-progress@torrent.Start"
				}
				_ = s.RemoveTorrent(t.ID(), false)
				snapMu.Lock()
				delete(snaps, t.ID())
				snapMu.Unlock()
			}
			emit(line{"ph": "case", "l": l})
		}
		if flags&fAddL != 0 {
			ch.addLow(idx, data, parse())
		}
		if flags&(fMag|fRes) != 0 {
			ib := infoB
			if mi := parse(); mi != nil {
				ib = mi.Info.Bytes // what the file path took as the info dictionary
			}
			if len(ib) > 0 && flags&fRes != 0 {
				ch.resume(idx, ib)
			}
			if len(ib) > 0 && flags&fMag != 0 {
				ch.magnet(idx, ib)
			}
		}
		emit(line{"ph": "end", "id": idx})
	}
	// no Session.Close: the scratch directory is removed by the parent and closing is not part of the property
	out.Flush()
	os.Exit(0)
}

// ---------------------------------------------------------------------------------------------- parent

type input struct {
	kind    string
	caseIdx int
	data    []byte
	info    []byte
}

type job struct{ idx, flags int }

var reFrame = regexp.MustCompile(`^(github\.com/cenkalti/rain/v2/(?:internal|torrent)[^\s(]*|github\.com/zeebo/bencode[^\s(]*)`)

// siteOf extracts cause@site from the stderr of a dead child.
func siteOf(stderr string, timedOut bool) (ev, where string) {
	cause := "exit"
	ev = "crash"
	switch {
	case strings.Contains(stderr, "VERIF-MEMCAP"):
		ev, cause = "oom", "heap-cap"
	case strings.Contains(stderr, "fatal error: stack overflow") || strings.Contains(stderr, "goroutine stack exceeds"):
		cause = "stack-overflow"
	case strings.Contains(stderr, "out of memory") || strings.Contains(stderr, "cannot allocate memory"):
		ev, cause = "oom", "out-of-memory"
	case timedOut:
		ev, cause = "hang", "deadline"
	case strings.Contains(stderr, "panic:"):
		cause = "panic"
	case strings.Contains(stderr, "fatal error:"):
		cause = "fatal"
	}
	// goroutine blocks; prefer a running/runnable goroutine that is inside repository (or bencode) code
	blocks := regexp.MustCompile(`(?m)^goroutine \d+ `).Split(stderr, -1)
	coreA := regexp.MustCompile(`rain/v2/internal/(piece|piecepicker|metainfo|allocator|storage)[./]|zeebo/bencode`)
	coreB := regexp.MustCompile(`rain/v2/torrent\.\(\*torrent\)`)
	pick := func(needState bool, core *regexp.Regexp) string {
		for _, b := range blocks[1:] {
			if core != nil && !core.MatchString(b) {
				continue
			}
			if strings.Contains(b, "main.memWatch") || strings.Contains(b, "os/signal") || strings.Contains(b, "runtime.Stack") {
				continue
			}
			hdr := b
			if i := strings.IndexByte(b, '\n'); i >= 0 {
				hdr = b[:i]
			}
			if needState && !(strings.Contains(hdr, "running") || strings.Contains(hdr, "runnable")) {
				continue
			}
			var first, firstRain string
			for _, ln := range strings.Split(b, "\n") {
				if m := reFrame.FindString(ln); m != "" && !strings.Contains(m, "internal/verif") {
					if i := strings.LastIndex(ln, "("); i > 0 {
						m = ln[:i] // pkg.(*T).method(args) -> pkg.(*T).method
					}
					short := m[strings.LastIndex(m, "/")+1:]
					if first == "" {
						first = short
					}
					if firstRain == "" && strings.Contains(m, "cenkalti/rain") {
						firstRain = short
					}
				}
			}
			if first != "" {
				if firstRain != "" && firstRain != first {
					return first + "<" + firstRain
				}
				return first
			}
		}
		return ""
	}
	// the busy goroutine: inside the packages under test first, then the torrent event loop, then anything of the repository
	s := ""
	for _, try := range []struct {
		st   bool
		core *regexp.Regexp
	}{{true, coreA}, {true, coreB}, {false, coreA}, {true, nil}} {
		if s = pick(try.st, try.core); s != "" {
			break
		}
	}
	if s == "" {
		s = "?"
	}
	return ev, cause + "@" + s
}

func writeInputs(p string, ins []input) {
	f, err := os.Create(p)
	if err != nil {
		panic(err)
	}
	w := bufio.NewWriterSize(f, 1<<20)
	n := uint32(len(ins))
	offs := make([]int64, 2*n+1)
	pos := int64(4 + 8*len(offs))
	for i, in := range ins {
		offs[2*i] = pos
		pos += int64(len(in.data))
		offs[2*i+1] = pos
		pos += int64(len(in.info))
	}
	offs[2*n] = pos
	binary.Write(w, binary.LittleEndian, n)
	binary.Write(w, binary.LittleEndian, offs)
	for _, in := range ins {
		w.Write(in.data)
		w.Write(in.info)
	}
	w.Flush()
	f.Close()
}

type runner struct {
	self     string
	inputs   string
	scratch  string
	memcap   int
	deadline time.Duration // wall-clock limit between two lines of a child (deadlock backstop)
	cpuLimit time.Duration // CPU time one job may burn: load-independent hang criterion
	extra    map[int]time.Duration // + allowance per input, linear in the number of pieces of the accepted description
	smallCPU time.Duration         // when > 0: CPU budget of a job whose input is at most smallLen bytes (instead of cpuLimit)
	smallLen int
	inLen    func(id int) int
	retried  map[string]bool
	mu       sync.Mutex
	lines    []line
	machErr  []string
	nchild   int
}

// runBatch runs the jobs in child processes (restarting after every death) and collects the Case lines.
// A job that exceeds its budget is run again, alone, with 4x the budget; only a repeat offender is recorded as a hang
// (CPU time is inflated on an oversubscribed machine; a real endless loop does not care).
func (r *runner) runBatch(worker int, jobs []job, scale int) {
	for len(jobs) > 0 {
		r.mu.Lock()
		r.nchild++
		inc := r.nchild
		r.mu.Unlock()
		dir := filepath.Join(r.scratch, fmt.Sprintf("w%d-%d", worker, inc))
		os.MkdirAll(dir, 0o755)
		cmd := exec.Command(r.self, "-mode", "child", "-inputs", r.inputs, "-scratch", dir, "-memcap", fmt.Sprint(r.memcap),
			"-portbase", fmt.Sprint(30000+((os.Getpid()*7+worker)%250)*100))
		cmd.Env = append(os.Environ(), "GOTRACEBACK=all", "GOMAXPROCS=2")
		var jb bytes.Buffer
		for _, j := range jobs {
			fmt.Fprintf(&jb, "%d %d\n", j.idx, j.flags)
		}
		cmd.Stdin = &jb
		var stderr bytes.Buffer
		cmd.Stderr = &stderr
		stdout, _ := cmd.StdoutPipe()
		if err := cmd.Start(); err != nil {
			panic(err)
		}
		t0 := time.Now()
		linesC := make(chan line, 256)
		go func() {
			sc := bufio.NewScanner(stdout)
			sc.Buffer(make([]byte, 1<<20), 64<<20)
			for sc.Scan() {
				var l line
				d := json.NewDecoder(bytes.NewReader(sc.Bytes()))
				d.UseNumber()
				if d.Decode(&l) == nil {
					linesC <- l
				}
			}
			close(linesC)
		}()
		done := 0
		var pending line
		timedOut := false
		timer := time.NewTimer(time.Duration(scale) * r.deadline)
		cpu0 := cpuOf(cmd.Process.Pid)
		limit := time.Duration(scale) * r.cpuLimit
		tick := time.NewTicker(50 * time.Millisecond)
		handle := func(l line) {
			switch l["ph"] {
			case "job":
				cpu0 = cpuOf(cmd.Process.Pid)
				base := r.cpuLimit
				if r.smallCPU > 0 && r.inLen != nil && r.inLen(idOf(l)) <= r.smallLen {
					base = r.smallCPU // work bounded by the input size: a small input gets a small (still very generous) budget
				}
				limit = time.Duration(scale) * (base + r.extra[idOf(l)])
			case "begin":
				pending = l["l"].(map[string]any)
			case "case":
				pending = nil
				r.mu.Lock()
				r.lines = append(r.lines, l["l"].(map[string]any))
				r.mu.Unlock()
			case "end":
				done++
			}
		}
		stop := func() {
			timedOut = true
			cmd.Process.Signal(syscall.SIGUSR1)
			time.AfterFunc(15*time.Second, func() { cmd.Process.Kill() })
			for l := range linesC {
				handle(l)
			}
		}
	loop:
		for {
			select {
			case l, ok := <-linesC:
				if !ok {
					break loop
				}
				if !timer.Stop() {
					select {
					case <-timer.C:
					default:
					}
				}
				timer.Reset(time.Duration(scale) * r.deadline)
				handle(l)
			case <-tick.C:
				if len(linesC) > 0 {
					continue // lines first: the CPU clock is only meaningful for the job being announced
				}
				if c := cpuOf(cmd.Process.Pid); c-cpu0 < limit {
					continue
				}
				stop()
				break loop
			case <-timer.C:
				stop()
				break loop
			}
		}
		tick.Stop()
		err := cmd.Wait()
		os.RemoveAll(dir)
		if done >= len(jobs) {
			return
		}
		// the child died while working on jobs[done]
		se := stderr.String()
		if pending == nil && !strings.Contains(se, "VERIF-MACHINERY") {
			// died between two judged calls (start-up, session housekeeping): not attributable, try that job once more
			key := fmt.Sprint(jobs[done])
			r.mu.Lock()
			again := !r.retried[key]
			r.retried[key] = true
			r.mu.Unlock()
			if again {
				jobs = jobs[done:]
				continue
			}
		}
		if strings.Contains(se, "VERIF-MACHINERY") || pending == nil {
			r.mu.Lock()
			r.machErr = append(r.machErr, fmt.Sprintf("child died outside a judged call (job %v, err %v): %s", jobs[minInt(done, len(jobs)-1)], err, tail(se, 1500)))
			r.mu.Unlock()
			return
		}
		if timedOut && scale == 1 && done < len(jobs) {
			r.runBatch(worker, jobs[done:done+1], 4)
			jobs = jobs[done+1:]
			continue
		}
		ev, where := siteOf(se, timedOut)
		if os.Getenv("VERIF_DEBUG") != "" {
			os.WriteFile("/var/tmp/c06tlc/last.err", []byte(se), 0o644)
			fmt.Fprintf(os.Stderr, "child death: job=%v ev=%s where=%s site=%v after %v\n", jobs[done], ev, where, pending["site"], time.Since(t0))
		}
		pending["ev"] = ev
		pending["where"] = where
		pending["stderr"] = tail(se, 600)
		r.mu.Lock()
		r.lines = append(r.lines, pending)
		r.mu.Unlock()
		jobs = jobs[done+1:]
	}
}

// cpuOf returns user+system CPU time consumed so far by the process.
func cpuOf(pid int) time.Duration {
	b, err := os.ReadFile(fmt.Sprintf("/proc/%d/stat", pid))
	if err != nil {
		return 0
	}
	s := string(b)
	if i := strings.LastIndexByte(s, ')'); i >= 0 {
		f := strings.Fields(s[i+1:])
		if len(f) > 13 {
			var u, k int64
			fmt.Sscan(f[11], &u)
			fmt.Sscan(f[12], &k)
			return time.Duration(u+k) * 10 * time.Millisecond
		}
	}
	return 0
}

func tail(s string, n int) string {
	if len(s) > n {
		return s[:n/2] + " ... " + s[len(s)-n/2:]
	}
	return s
}

func (r *runner) runAll(jobs []job, workers, batch int) {
	ch := make(chan []job, 1024)
	var wg sync.WaitGroup
	for w := 0; w < workers; w++ {
		wg.Add(1)
		go func(w int) {
			defer wg.Done()
			for b := range ch {
				r.runBatch(w, b, 1)
			}
		}(w)
	}
	for i := 0; i < len(jobs); i += batch {
		ch <- jobs[i:minInt(i+batch, len(jobs))]
	}
	close(ch)
	wg.Wait()
}

var reWideLen = regexp.MustCompile(`[0-9]{10,}:`)

func projKey(l line) string {
	b, _ := json.Marshal([]any{l["pl"], l["n"], l["lens"], l["pad"]})
	return string(b)
}

func parentMain(casesPath, outPath, scratch string, seed int64, nmut, workers, reps int, rejectSample int, cpuMs int, maxBad int, rejPaths int) {
	var cases []gcase
	var hexIns [][]byte
	if strings.HasSuffix(casesPath, ".hex") { // replay: one hex-encoded input per line instead of generated cases
		raw, err := os.ReadFile(casesPath)
		if err != nil {
			panic(err)
		}
		for _, ln := range strings.Fields(string(raw)) {
			b, err := hex.DecodeString(ln)
			if err != nil {
				panic(err)
			}
			hexIns = append(hexIns, b)
		}
	} else {
		raw, err := os.ReadFile(casesPath)
		if err != nil {
			panic(err)
		}
		if err := json.Unmarshal(raw, &cases); err != nil {
			panic(err)
		}
	}
	// HTTP-source cases (scripted servers) are kept apart from the metainfo cases
	var httpCases []gcase
	{
		kept := cases[:0]
		for _, c := range cases {
			if c.Kind == "http" {
				httpCases = append(httpCases, c)
			} else {
				kept = append(kept, c)
			}
		}
		cases = kept
	}
	sort.Slice(httpCases, func(i, j int) bool {
		a, _ := json.Marshal(httpCases[i])
		b, _ := json.Marshal(httpCases[j])
		return bytes.Compare(a, b) < 0
	})
	// canonical order: independent of TLC's enumeration order
	sort.Slice(cases, func(i, j int) bool {
		a, _ := json.Marshal(cases[i])
		b, _ := json.Marshal(cases[j])
		return bytes.Compare(a, b) < 0
	})
	rng := rand.New(rand.NewSource(seed))
	stats := map[string]int{}
	var ins []input
	for i, c := range cases {
		full, info := concretise(c)
		ins = append(ins, input{kind: "gen", caseIdx: i, data: full, info: info})
	}
	for _, b := range hexIns {
		cases = append(cases, gcase{Var: "replay"})
		ins = append(ins, input{kind: "gen", caseIdx: len(cases) - 1, data: b})
	}
	ngen := len(ins)
	for i := 0; i < ngen; i++ {
		if len(ins[i].data) > 4096 {
			continue
		}
		for k := 0; k < nmut; k++ {
			other := ins[rng.Intn(ngen)].data
			if len(other) > 4096 {
				other = nil
			}
			m, kind := mutate(rng, ins[i].data, other)
			ins = append(ins, input{kind: "mut:" + kind, caseIdx: i, data: m})
		}
	}
	// HTTP-source inputs: data = the body the scripted server has to offer, info = the script
	good, _ := concretise(gcase{PL: "16384", Pcs: 20, Mode: "single", Len: "pl", Var: "none"})
	var urlJobs []job
	for _, hc := range httpCases {
		var body []byte
		switch hc.Body {
		case "good":
			body = good
		case "pieces4":
			body, _ = concretise(gcase{PL: "16384", Pcs: 80, Mode: "single", Len: "4pl", Var: "none"})
		case "garbage":
			body = bytes.Repeat([]byte("d4:i\x00\xff9999:le"), 40)
		case "bigvalid": // a valid .torrent above the low-limit session's MaxTorrentSize
			body = append([]byte("d7:comment"), bStr(bytes.Repeat([]byte("c"), 100<<10))...)
			body = append(body, good[1:]...)
		}
		script, _ := json.Marshal(hc)
		cases = append(cases, hc)
		ins = append(ins, input{kind: "http", caseIdx: len(cases) - 1, data: body, info: script})
		urlJobs = append(urlJobs, job{len(ins) - 1, fURL})
	}
	self, _ := os.Executable()
	inputsPath := filepath.Join(scratch, "inputs.bin")
	writeInputs(inputsPath, ins)
	r := &runner{self: self, inputs: inputsPath, scratch: scratch, memcap: 3072, deadline: 240 * time.Second, cpuLimit: 150 * time.Second, retried: map[string]bool{}}

	r.smallCPU, r.smallLen = 10*time.Second, 64<<10
	r.inLen = func(id int) int {
		if id < 0 || id >= len(ins) {
			return 1 << 30
		}
		return len(ins[id].data)
	}
	// phase A: parser (+ NewInfo variants on generated cases) and Session.AddTorrent (stopped) on every input
	var jobs []job
	for i := range ins {
		if ins[i].kind == "http" {
			continue
		}
		f := fNew | fAdd
		if ins[i].kind == "gen" {
			f |= fNI
		}
		jobs = append(jobs, job{i, f})
	}
	// big inputs first and alone, so that they overlap with the bulk
	sort.SliceStable(jobs, func(a, b int) bool { return len(ins[jobs[a].idx].data) > len(ins[jobs[b].idx].data) })
	nbig := 0
	for nbig < len(jobs) && len(ins[jobs[nbig].idx].data) > 1<<20 {
		nbig++
	}
	var wg sync.WaitGroup
	wg.Add(1)
	go func() {
		defer wg.Done()
		r.runAll(jobs[:nbig], minInt(workers, 4), 1)
	}()
	r.runAll(jobs[nbig:], workers, 400)
	wg.Wait()

	// phase B: piece construction and start, on `reps` representatives of every distinct accepted projection
	phaseA := r.lines
	byKey := map[string][]int{}
	var keys []string
	seen := map[[2]any]bool{}
	sort.SliceStable(phaseA, func(a, b int) bool { return idOf(phaseA[a]) < idOf(phaseA[b]) })
	for _, l := range phaseA {
		if l["site"] != "new" || fmt.Sprint(l["acc"]) != "1" {
			continue
		}
		k := projKey(l)
		id := idOf(l)
		if seen[[2]any{k, id}] {
			continue
		}
		seen[[2]any{k, id}] = true
		if _, ok := byKey[k]; !ok {
			keys = append(keys, k)
		}
		byKey[k] = append(byKey[k], id)
	}
	if maxBad > 0 {
		// tier budget: projection classes that are expensive to run (a negative or >= 2^62 length: candidates for
		// the endless piece construction) are sampled (seeded); all other classes are run.  The judgement stays with the spec.
		var cheap, costly []string
		for _, k := range keys {
			if strings.Contains(k, `"neg":1`) || regexp.MustCompile(`"m":\[\d+,\d+,\d+,\d+,\d+\]`).MatchString(k) {
				costly = append(costly, k)
			} else {
				cheap = append(cheap, k)
			}
		}
		if len(costly) > maxBad {
			perm := rng.Perm(len(costly))[:maxBad]
			sort.Ints(perm)
			var ks []string
			for _, i := range perm {
				ks = append(ks, costly[i])
			}
			costly = ks
		}
		stats["projections.costly.run"] = len(costly)
		keys = append(cheap, costly...)
	}
	r.extra = map[int]time.Duration{}
	var jobsB []job
	for _, k := range keys {
		ids := byKey[k]
		var proj []any
		json.Unmarshal([]byte(k), &proj)
		np := 0.0
		if nl, ok := proj[1].([]any); ok {
			for i := len(nl) - 1; i >= 0; i-- {
				np = np*10000 + nl[i].(float64)
			}
		}
		for i := 0; i < len(ids) && i < reps; i++ {
			r.extra[ids[i]] = time.Duration(np*300) * time.Microsecond
		}
		for i := 0; i < len(ids) && i < reps; i++ {
			jobsB = append(jobsB, job{ids[i], fNP}, job{ids[i], fStart})
		}
		// the same description through the other entry paths, on the session with lowered limits
		jobsB = append(jobsB, job{ids[0], fAddL | fRes | fMag})
	}
	// ... and a seeded sample of info dictionaries that the parser refuses
	{
		var rej []int
		for _, l := range phaseA {
			id := idOf(l)
			if l["site"] == "new" && fmt.Sprint(l["acc"]) == "0" && ins[id].kind == "gen" && len(ins[id].info) > 0 && len(ins[id].info) <= 64<<10 {
				rej = append(rej, id)
			}
		}
		for k, i := range rng.Perm(len(rej)) {
			if k >= rejPaths {
				break
			}
			jobsB = append(jobsB, job{rej[i], fRes | fMag})
		}
	}
	r.lines = nil
	r.memcap = 1024
	r.deadline = 60 * time.Second
	r.cpuLimit = time.Duration(cpuMs) * time.Millisecond
	r.smallCPU = 0
	wg.Add(1)
	go func() { // URL jobs mostly wait for time-outs: small batches next to the bulk
		defer wg.Done()
		r.runAll(urlJobs, minInt(workers, 6), 3)
	}()
	r.runAll(jobsB, workers, 25)
	wg.Wait()
	phaseB := r.lines
	sort.SliceStable(phaseB, func(a, b int) bool { return idOf(phaseB[a]) < idOf(phaseB[b]) })

	if len(r.machErr) > 0 {
		fmt.Fprintln(os.Stderr, "MACHINERY:", strings.Join(r.machErr, "\n"))
		os.Exit(3)
	}
	// output: every accepted or eventful line, and one in rejectSample of the plain rejections
	f, _ := os.Create(outPath)
	w := bufio.NewWriter(f)
	nrej := 0
	put := func(l line) {
		id := idOf(l)
		l["kind"] = ins[id].kind
		if ins[id].kind == "gen" || ins[id].kind == "http" {
			c, _ := json.Marshal(cases[ins[id].caseIdx])
			l["case"] = string(c)
		} else {
			c, _ := json.Marshal(cases[ins[id].caseIdx])
			l["case"] = "mutation(" + ins[id].kind + ") of " + string(c)
		}
		_, depth, overrun, _ := firstValueLen(ins[id].data)
		l["depth"] = depth
		if overrun {
			l["overrun"] = 1
		} else {
			l["overrun"] = 0
		}
		if reWideLen.Match(ins[id].data) {
			l["strwide"] = 1 // some string declares its length with 10 or more digits (above 2^31: the declared-length family)
		} else {
			l["strwide"] = 0
		}
		if len(ins[id].data) <= 600 {
			l["hex"] = fmt.Sprintf("%x", ins[id].data)
		}
		b, _ := json.Marshal(l)
		w.Write(b)
		w.WriteByte('\n')
	}
	all := append(phaseA, phaseB...)
	last := map[string]int{} // a job that was re-run reports its earlier calls twice: the last report wins
	for i, l := range all {
		last[fmt.Sprint(idOf(l), "/", l["site"])] = i
	}
	for i, l := range all {
		if last[fmt.Sprint(idOf(l), "/", l["site"])] != i {
			continue
		}
		site := fmt.Sprint(l["site"])
		acc := fmt.Sprint(l["acc"]) == "1"
		ev := fmt.Sprint(l["ev"])
		stats["calls."+site]++
		if acc {
			stats["accepted."+site]++
		}
		if ev != "" {
			stats["event."+ev]++
		}
		big := false
		if n, ok := l["akb"].(json.Number); ok {
			v, _ := n.Int64()
			big = v > 8192
		}
		if acc || ev != "" || big || site == "url" || site == "mag" || site == "res" || site == "addl" {
			put(l)
		} else {
			nrej++
			if nrej%rejectSample == 0 {
				put(l)
			}
		}
	}
	w.Flush()
	f.Close()
	stats["inputs.generated"] = ngen
	stats["inputs.mutated"] = len(ins) - ngen
	stats["projections"] = len(keys)
	stats["phaseB.jobs"] = len(jobsB)
	stats["url.jobs"] = len(urlJobs)
	stats["children"] = r.nchild
	sb, _ := json.Marshal(stats)
	fmt.Println(string(sb))
}

func idOf(l line) int {
	switch v := l["id"].(type) {
	case json.Number:
		n, _ := v.Int64()
		return int(n)
	case int:
		return v
	case float64:
		return int(v)
	}
	return -1
}

func main() {
	mode := flag.String("mode", "parent", "")
	cases := flag.String("cases", "", "")
	out := flag.String("out", "trace.ndjson", "")
	scratch := flag.String("scratch", "", "")
	inputs := flag.String("inputs", "", "")
	seed := flag.Int64("seed", 1, "")
	nmut := flag.Int("mut", 1, "")
	workers := flag.Int("workers", 8, "")
	reps := flag.Int("reps", 1, "")
	memcap := flag.Int("memcap", 3072, "")
	portbase := flag.Int("portbase", 41000, "")
	rejs := flag.Int("rejsample", 10, "")
	cpuMs := flag.Int("cpums", 1500, "CPU budget of one piece-construction / start job (ms)")
	maxBad := flag.Int("maxbad", 0, "cap on the number of distinct projections run in phase B (0 = all)")
	rejPaths := flag.Int("rejpaths", 24, "parser-refused info dictionaries sent through the resume and magnet paths")
	flag.Parse()
	if *mode == "child" {
		childMain(*inputs, *scratch, uint64(*memcap), *portbase)
		return
	}
	parentMain(*cases, *out, *scratch, *seed, *nmut, *workers, *reps, *rejs, *cpuMs, *maxBad, *rejPaths)
}
