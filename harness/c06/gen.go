package main

// Concretisation of the TLC-generated structural cases (spec/MetainfoGen.tla) into bytes with an
// encoder of our own (the repository's bencode library is never used to build adversarial inputs),
// plus seeded byte-level mutations.

import (
	"bytes"
	"fmt"
	"math/big"
	"math/rand"
	"strconv"
	"strings"
)

type gcase struct {
	PL    string   `json:"pl"`
	Pcs   int      `json:"pcs"`
	Mode  string   `json:"mode"`
	Len   string   `json:"len"`
	Files []string `json:"files"`
	Pad   string   `json:"pad"`
	Var   string   `json:"var"`
	// HTTP-source cases (kind = "http"): behaviour of a scripted server, see spec/MetainfoGen.tla HttpCases
	Kind   string `json:"kind,omitempty"`
	Hdr    string `json:"hdr,omitempty"`
	Status string `json:"status,omitempty"`
	CL     string `json:"cl,omitempty"`
	Body   string `json:"body,omitempty"`
	Pace   string `json:"pace,omitempty"`
}

type pair struct {
	k string
	v []byte
}

type dict []pair

func (d *dict) set(k string, v []byte) {
	for i := range *d {
		if (*d)[i].k == k {
			(*d)[i].v = v
			return
		}
	}
	*d = append(*d, pair{k, v})
}

func (d *dict) del(k string) {
	out := (*d)[:0]
	for _, p := range *d {
		if p.k != k {
			out = append(out, p)
		}
	}
	*d = out
}

func (d *dict) dup(k string, v []byte) {
	for i := range *d {
		if (*d)[i].k == k {
			nd := append(dict{}, (*d)[:i+1]...)
			nd = append(nd, pair{k, v})
			nd = append(nd, (*d)[i+1:]...)
			*d = nd
			return
		}
	}
	*d = append(*d, pair{k, v}, pair{k, v})
}

func (d dict) sorted() dict {
	o := append(dict{}, d...)
	for i := 1; i < len(o); i++ { // stable insertion sort: duplicates keep their order
		for j := i; j > 0 && o[j-1].k > o[j].k; j-- {
			o[j-1], o[j] = o[j], o[j-1]
		}
	}
	return o
}

func (d dict) enc() []byte {
	var b bytes.Buffer
	b.WriteByte('d')
	for _, p := range d {
		if strings.HasPrefix(p.k, "\x00raw:") { // raw (non-string) key
			b.WriteString(p.k[5:])
		} else {
			b.Write(bStr([]byte(p.k)))
		}
		b.Write(p.v)
	}
	b.WriteByte('e')
	return b.Bytes()
}

func bInt(s string) []byte { return []byte("i" + s + "e") }
func bStr(s []byte) []byte {
	return append([]byte(strconv.Itoa(len(s))+":"), s...)
}
func bList(items ...[]byte) []byte {
	var b bytes.Buffer
	b.WriteByte('l')
	for _, it := range items {
		b.Write(it)
	}
	b.WriteByte('e')
	return b.Bytes()
}
func nest(open, close string, n int, inner string) []byte {
	return []byte(strings.Repeat(open, n) + inner + strings.Repeat(close, n))
}

var pow = func(e uint) *big.Int { return new(big.Int).Lsh(big.NewInt(1), e) }

func plNum(tok string) *big.Int {
	switch tok {
	case "1":
		return big.NewInt(1)
	case "2^32-1":
		return new(big.Int).Sub(pow(32), big.NewInt(1))
	}
	return big.NewInt(16384)
}

func lenTok(tok string, pl *big.Int) *big.Int {
	add := func(a *big.Int, k int64) *big.Int { return new(big.Int).Add(a, big.NewInt(k)) }
	switch tok {
	case "-2^63":
		return new(big.Int).Neg(pow(63))
	case "-2^62":
		return new(big.Int).Neg(pow(62))
	case "-pl":
		return new(big.Int).Neg(pl)
	case "pl-1":
		return add(pl, -1)
	case "pl":
		return add(pl, 0)
	case "2pl", "3pl", "4pl", "5pl":
		return new(big.Int).Mul(pl, big.NewInt(int64(tok[0]-'0')))
	case "pl+1":
		return add(pl, 1)
	case "pl+2":
		return add(pl, 2)
	case "2^31":
		return pow(31)
	case "2^62":
		return pow(62)
	case "2^63-1":
		return add(pow(63), -1)
	}
	v, ok := new(big.Int).SetString(tok, 10)
	if !ok {
		panic("bad length token " + tok)
	}
	return v
}

func piecesBytes(n int) []byte {
	b := make([]byte, n)
	for i := range b {
		b[i] = byte(i*7 + 3)
	}
	return b
}

func fileEntry(i int, length []byte, padded bool) dict {
	var e dict
	if padded {
		e = append(e, pair{"attr", bStr([]byte("p"))})
	}
	if length != nil {
		e = append(e, pair{"length", length})
	}
	e = append(e, pair{"path", bList(bStr([]byte(fmt.Sprintf("f%d", i))))})
	return e
}

// concretise returns the .torrent bytes and the raw info dictionary inside it (nil when the case has no
// well-delimited info dictionary).
func concretise(c gcase) (full []byte, infoB []byte) {
	pl := plNum(c.PL)
	var info dict
	var entries []dict
	isNeg := map[string]bool{"-2^63": true, "-2^62": true, "-pl": true, "-1": true, "2^62": true, "2^63-1": true}
	if c.Mode == "files" || c.Mode == "both" {
		for i, t := range c.Files {
			padded := (c.Pad == "neg" && isNeg[t]) || (c.Pad == "tail" && i > 0)
			entries = append(entries, fileEntry(i, bInt(lenTok(t, pl).String()), padded))
		}
	}
	encEntries := func() []byte {
		var items [][]byte
		for _, e := range entries {
			items = append(items, e.enc())
		}
		return bList(items...)
	}
	if c.Mode == "files" || c.Mode == "both" {
		info = append(info, pair{"files", nil}) // filled below (variants may edit the entries)
	}
	if c.Mode == "single" || c.Mode == "both" {
		switch c.Len {
		case "absent":
		case "str":
			info = append(info, pair{"length", bStr([]byte("16384"))})
		default:
			info = append(info, pair{"length", bInt(lenTok(c.Len, pl).String())})
		}
	}
	info = append(info, pair{"name", bStr([]byte("n"))})
	switch c.PL {
	case "absent":
	case "str":
		info = append(info, pair{"piece length", bStr([]byte("16384"))})
	case "2^32-1":
		info = append(info, pair{"piece length", bInt("4294967295")})
	case "2^32":
		info = append(info, pair{"piece length", bInt("4294967296")})
	default:
		info = append(info, pair{"piece length", bInt(c.PL)})
	}
	if c.Pcs >= 0 {
		info = append(info, pair{"pieces", bStr(piecesBytes(c.Pcs))})
	}
	var top dict
	top = append(top, pair{"info", nil})
	var trail []byte
	unsorted := false
	infoRaw := []byte(nil) // replaces the whole info value when set
	fullRaw := []byte(nil)

	v := c.Var
	switch {
	case v == "none":
	case strings.HasPrefix(v, "priv:"):
		m := map[string]string{"i0e": "i0e", "i1e": "i1e", "i-1e": "i-1e", "s1": "1:1", "s0": "1:0", "s": "0:", "list": "le", "dict": "de",
			"huge": "i99999999999999999999e"}
		info.set("private", []byte(m[v[5:]]))
	case v == "name:absent":
		info.del("name")
	case v == "name:int":
		info.set("name", bInt("7"))
	case v == "name:empty":
		info.set("name", bStr(nil))
	case v == "name:utf8":
		info.set("name.utf-8", bStr([]byte("u")))
	case v == "name:list":
		info.set("name", bList(bStr([]byte("n"))))
	case v == "dup:length":
		info.dup("length", bInt("-1"))
	case v == "dup:files":
		info.dup("files", bList(fileEntry(9, bInt("-1"), false).enc()))
	case v == "dup:piecelength":
		info.dup("piece length", bInt("0"))
	case v == "dup:pieces":
		info.dup("pieces", bStr(nil))
	case v == "dup:info":
		top = append(top, pair{"info", []byte("de")})
	case v == "unsorted":
		unsorted = true
	case v == "intkey":
		info = append(dict{pair{"\x00raw:i1e", bInt("1")}}, info...)
	case v == "emptykey":
		info = append(dict{pair{"", bInt("1")}}, info...)
	case v == "extra:nest100":
		top.set("x", nest("l", "e", 100, ""))
	case v == "extra:nest10k":
		top.set("x", nest("l", "e", 10000, ""))
	case v == "extra:nest200k":
		top.set("x", nest("l", "e", 200000, ""))
	case v == "extra:nest3M":
		top.set("x", nest("l", "e", 3000000, ""))
	case v == "extra:dictnest3M":
		top.set("x", nest("d1:a", "e", 1500000, "le"))
	case v == "info:nest3M":
		info.set("x", nest("l", "e", 3000000, ""))
	case v == "extra:bigstr":
		top.set("x", []byte("2147483647:abc"))
	case v == "pieces:bigstr":
		info.set("pieces", []byte("2147483647:abc"))
	case v == "name:bigstr":
		info.set("name", []byte("1999999999:abc"))
	case v == "extra:comment11M":
		top.set("comment", bStr(bytes.Repeat([]byte("c"), 11<<20)))
	case v == "extra:manykeys":
		for i := 0; i < 50000; i++ {
			top = append(top, pair{fmt.Sprintf("k%06d", i), bInt("1")})
		}
	case v == "files:emptylist":
		info.set("files", []byte("le"))
		entries = nil
		info.del("\x00")
		infoRaw = nil
	case v == "files:dict":
		info.set("files", []byte("de"))
	case v == "files:int":
		info.set("files", bInt("5"))
	case v == "files:listofint":
		info.set("files", bList(bInt("1")))
	case strings.HasPrefix(v, "path:") || strings.HasPrefix(v, "flen:") || strings.HasPrefix(v, "attr:"):
		if len(entries) == 0 {
			entries = append(entries, fileEntry(0, bInt(pl.String()), false))
			info.del("length")
			info.set("files", nil)
		}
		e := &entries[len(entries)-1]
		switch v {
		case "path:absent":
			e.del("path")
		case "path:empty":
			e.set("path", []byte("le"))
		case "path:int":
			e.set("path", bInt("1"))
		case "path:str":
			e.set("path", bStr([]byte("a")))
		case "path:deep":
			var items [][]byte
			for i := 0; i < 10000; i++ {
				items = append(items, bStr([]byte("a")))
			}
			e.set("path", bList(items...))
		case "flen:str":
			e.set("length", bStr([]byte("16384")))
		case "flen:absent":
			e.del("length")
		case "flen:list":
			e.set("length", bList(bInt("1")))
		case "attr:int":
			e.set("attr", bInt("1"))
		case "attr:p":
			for i := range entries {
				entries[i].set("attr", bStr([]byte("p")))
			}
		}
	case v == "type:plstr":
		info.set("piece length", bStr([]byte("16384")))
	case v == "type:piecesint":
		info.set("pieces", bInt("20"))
	case v == "type:lengthstr":
		info.set("length", bStr([]byte("16384")))
	case v == "type:infolist":
		infoRaw = []byte("l4:spame")
	case v == "type:infostr":
		infoRaw = bStr([]byte("d6:lengthi1ee"))
	case v == "type:toplist":
		fullRaw = []byte("l4:infoe")
	case v == "type:topint":
		fullRaw = []byte("i42e")
	case v == "trail:junk":
		trail = []byte("garbage\x00\xff")
	case v == "trail:second":
		trail = []byte("d4:infod6:lengthi-1eee")
	case v == "announce:int":
		top.set("announce", bInt("1"))
	case v == "announcelist:deep":
		top.set("announce-list", nest("l", "e", 100000, ""))
	case v == "urllist:int":
		top.set("url-list", bInt("1"))
	case v == "urllist:nested":
		top.set("url-list", nest("l", "e", 100000, "4:http"))
	case v == "neg0":
		info.set("length", []byte("i-0e"))
	case v == "leadzero":
		info.set("piece length", []byte("i016384e"))
	case v == "plus":
		info.set("piece length", []byte("i+16384e"))
	case v == "int:empty":
		info.set("length", []byte("ie"))
	case v == "int:huge":
		info.set("length", []byte("i99999999999999999999e"))
	case v == "str:neglen":
		info.set("pieces", []byte("-1:"))
	case v == "str:short":
		info.set("pieces", append([]byte("20:"), piecesBytes(10)...))
	case strings.HasPrefix(v, "strlen:"):
		// declared-string-length family (spec/MetainfoGen.tla StrLenVars, design model spec/MetainfoScan.tla): the string at
		// position pos keeps its payload, its length prefix is replaced by the decimal digits of the token
		at := strings.IndexByte(v, '@')
		tok, pos := v[7:at], v[at+1:]
		raw := func(payload []byte) []byte {
			return append([]byte(strLenTok(tok, len(payload))+":"), payload...)
		}
		switch pos {
		case "lone":
			fullRaw = append(append([]byte("d"), raw(nil)...), 'e')
		case "topkey":
			top = append(top, pair{"\x00raw:" + string(raw([]byte("zz"))), bInt("1")})
		case "topval":
			top.set("x", raw([]byte("abc")))
		case "infokey":
			info = append(info, pair{"\x00raw:" + string(raw([]byte("zz"))), bInt("1")})
		case "pieces":
			info.set("pieces", raw(piecesBytes(maxInt(c.Pcs, 0))))
		case "name":
			info.set("name", raw([]byte("n")))
		case "path":
			if len(entries) == 0 {
				entries = append(entries, fileEntry(0, bInt(pl.String()), false))
				info.del("length")
				info.set("files", nil)
			}
			entries[len(entries)-1].set("path", bList(raw([]byte("f0"))))
		default:
			panic("unknown strlen position " + pos)
		}
	case v == "pieces:65536" || v == "pieces:65537":
		n, _ := strconv.Atoi(v[7:])
		info.set("pieces", bStr(piecesBytes(n*20)))
		info.del("files")
		entries = nil
		info.set("piece length", bInt("16384"))
		info.set("length", bInt(strconv.Itoa(n*16384)))
	case v == "files:1000zero" || v == "files:1000neg":
		info.del("length")
		entries = nil
		for i := 0; i < 500; i++ {
			if v == "files:1000zero" {
				entries = append(entries, fileEntry(2*i, bInt("0"), false), fileEntry(2*i+1, bInt("0"), true))
			} else {
				entries = append(entries, fileEntry(2*i, bInt("1"), true), fileEntry(2*i+1, bInt("-1"), true))
			}
		}
		entries = append(entries, fileEntry(1000, bInt("16384"), false))
		info.set("files", nil)
		info.set("piece length", bInt("16384"))
		info.set("pieces", bStr(piecesBytes(20)))
	default:
		panic("unknown variant " + v)
	}
	for i := range info {
		if info[i].k == "files" && info[i].v == nil {
			info[i].v = encEntries()
		}
	}
	if fullRaw != nil {
		return append(fullRaw, trail...), nil
	}
	var ib []byte
	if infoRaw != nil {
		ib = infoRaw
	} else if unsorted {
		s := info.sorted()
		for i, j := 0, len(s)-1; i < j; i, j = i+1, j-1 {
			s[i], s[j] = s[j], s[i]
		}
		ib = s.enc()
	} else {
		ib = info.sorted().enc()
	}
	for i := range top {
		if top[i].k == "info" && top[i].v == nil {
			top[i].v = ib
		}
	}
	full = append(top.sorted().enc(), trail...)
	if infoRaw != nil && infoRaw[0] != 'd' {
		return full, nil
	}
	return full, ib
}

// mutate applies one seeded byte-level mutation.
func mutate(rng *rand.Rand, b []byte, other []byte) ([]byte, string) {
	if len(b) == 0 {
		return []byte("d"), "grow"
	}
	const alphabet = "ilde0123456789:-"
	out := append([]byte(nil), b...)
	switch rng.Intn(5) {
	case 0:
		return out[:rng.Intn(len(out))], "trunc"
	case 1:
		i := rng.Intn(len(out))
		out[i] ^= 1 << uint(rng.Intn(8))
		return out, "flip"
	case 2:
		i := rng.Intn(len(out))
		out[i] = alphabet[rng.Intn(len(alphabet))]
		return out, "subst"
	case 3: // change one digit of some number (tends to stay decodable)
		var pos []int
		for i, ch := range out {
			if ch >= '0' && ch <= '9' {
				pos = append(pos, i)
			}
		}
		if len(pos) > 0 {
			i := pos[rng.Intn(len(pos))]
			if rng.Intn(3) == 0 {
				out = append(out[:i+1], append([]byte{byte('0' + rng.Intn(10))}, out[i+1:]...)...)
			} else {
				out[i] = byte('0' + rng.Intn(10))
			}
		}
		return out, "digit"
	default: // splice a chunk of another encoding
		if len(other) == 0 {
			other = b
		}
		i := rng.Intn(len(out))
		j := rng.Intn(len(other))
		k := j + 1 + rng.Intn(minInt(64, len(other)-j))
		res := append([]byte(nil), out[:i]...)
		res = append(res, other[j:k]...)
		if rng.Intn(2) == 0 && i+(k-j) <= len(out) {
			res = append(res, out[i+(k-j):]...) // overwrite
		} else {
			res = append(res, out[i:]...) // insert
		}
		return res, "splice"
	}
}

func maxInt(a, b int) int {
	if a > b {
		return a
	}
	return b
}

// strLenTok returns the decimal digits of a declared string length; n is the true payload length.
func strLenTok(tok string, n int) string {
	sub := func(a *big.Int, k int64) *big.Int { return new(big.Int).Sub(a, big.NewInt(k)) }
	switch tok {
	case "2^31-1":
		return sub(pow(31), 1).String()
	case "2^31":
		return pow(31).String()
	case "2^32":
		return pow(32).String()
	case "2^32+n":
		return sub(pow(32), int64(-n)).String()
	case "2^63-1":
		return sub(pow(63), 1).String()
	case "2^63":
		return pow(63).String()
	case "2^63+n":
		return sub(pow(63), int64(-n)).String()
	case "2^64-10^6":
		return sub(pow(64), 1000000).String()
	case "2^64-back": // a 64-bit accumulator wraps to minus the width of the length prefix: back onto the same token
		return sub(pow(64), int64(len(pow(64).String())+1)).String()
	case "2^64-1":
		return sub(pow(64), 1).String()
	case "2^64":
		return pow(64).String()
	case "2^64+n": // wraps to the true length
		return sub(pow(64), int64(-n)).String()
	case "10^19":
		return "1" + strings.Repeat("0", 19)
	case "10^30":
		return "1" + strings.Repeat("0", 30)
	case "9x40":
		return strings.Repeat("9", 40)
	}
	panic("bad string length token " + tok)
}

func minInt(a, b int) int {
	if a < b {
		return a
	}
	return b
}

// firstValueLen scans the first bencoded value of b WITHOUT recursion and returns its length, the maximal nesting
// depth and whether some string declares more bytes than remain (ok=false when b does not start with a complete value).
func firstValueLen(b []byte) (n int, depth int, strOverrun bool, ok bool) {
	i, d := 0, 0
	for i < len(b) {
		switch ch := b[i]; {
		case ch == 'l' || ch == 'd':
			d++
			if d > depth {
				depth = d
			}
			i++
		case ch == 'e':
			d--
			i++
			if d < 0 {
				return 0, depth, strOverrun, false
			}
		case ch == 'i':
			j := bytes.IndexByte(b[i:], 'e')
			if j < 0 {
				return 0, depth, strOverrun, false
			}
			i += j + 1
		case ch >= '0' && ch <= '9':
			j := bytes.IndexByte(b[i:], ':')
			if j < 0 || j > 20 {
				return 0, depth, strOverrun, false
			}
			l, err := strconv.ParseInt(string(b[i:i+j]), 10, 64)
			if err != nil {
				return 0, depth, strOverrun, false
			}
			if l > int64(len(b)-(i+j+1)) {
				return 0, depth, true, false
			}
			i += j + 1 + int(l)
		default:
			return 0, depth, strOverrun, false
		}
		if d == 0 {
			return i, depth, strOverrun, true
		}
	}
	return 0, depth, strOverrun, false
}
