package main

// Round-3 scenario families.
//
// "fault" (ids >= faultFirstID): environment fault of Upload.tla (Truncate / read error).  A seeding session with all pieces
// verified serves unchoked peers; after a warm-up phase (which fills the read cache, if there is one) the parent tells the
// child to cut one data file short at a chosen offset - reads beyond it return fewer bytes with io.EOF, as a truncated file
// does - or to fail reads of that region with an error.  The peers go on asking, for warm and cold cache blocks before,
// across and beyond the cut.  No obligation is relaxed: whatever still arrives must be a full-length correct answer.
//
// "contend" (ids >= contendFirstID): many unchoked peers upload concurrently from a read cache that is much smaller than
// their working set (every peer writer reads on its own goroutine; each load evicts an entry another writer may just have
// been handed).

import (
	"bufio"
	"encoding/json"
	"errors"
	"fmt"
	"io"
	"math/rand"
	"os"
	"strings"
	"sync"
	"sync/atomic"
	"time"

	"github.com/cenkalti/rain/v2/internal/storage"
	"github.com/cenkalti/rain/v2/internal/verif/vh"
)

const faultFirstID = 2000
const contendFirstID = 3000

// r3on enables the round-3 additions to the EXISTING scenario families (the peer's own allowed-fast messages in the general
// script and in the family grow, the contended configurations of the sub-command cache).  Off by default until they have
// been run on the unchanged tree for all seeds (props/c03.py sets VERIF_C03_R3=1 together with the new families).
var r3on = os.Getenv("VERIF_C03_R3") == "1"

// ---- child side: a storage provider that can be told to cut a file short / fail its reads

type faultSpec struct {
	Kind string `json:"kind"` // "short" | "err"
	File string `json:"file"` // storage path
	Cut  int64  `json:"cut"`  // bytes of the file that remain readable
}

type faultProvider struct {
	inner storage.Provider
	spec  atomic.Pointer[faultSpec]
	hits  atomic.Int64
}

func (p *faultProvider) GetStorage(id string) (storage.Storage, error) {
	st, err := p.inner.GetStorage(id)
	if err != nil {
		return nil, err
	}
	return &faultStorage{Storage: st, p: p}, nil
}

type faultStorage struct {
	storage.Storage
	p *faultProvider
}

func (s *faultStorage) Open(name string, size int64) (storage.File, bool, error) {
	f, ex, err := s.Storage.Open(name, size)
	if err != nil {
		return f, ex, err
	}
	return &faultFile{File: f, name: name, p: s.p}, ex, nil
}

type faultFile struct {
	storage.File
	name string
	p    *faultProvider
}

var errInjected = errors.New("injected read error")

func (f *faultFile) ReadAt(b []byte, off int64) (int, error) {
	sp := f.p.spec.Load()
	if sp == nil || sp.File != f.name || off+int64(len(b)) <= sp.Cut {
		return f.File.ReadAt(b, off)
	}
	f.p.hits.Add(1)
	if sp.Kind == "err" {
		return 0, errInjected
	}
	// a file that was truncated to sp.Cut bytes
	if off >= sp.Cut {
		return 0, io.EOF
	}
	n, err := f.File.ReadAt(b[:sp.Cut-off], off)
	if err == nil {
		err = io.EOF
	}
	return n, err
}

// childCommands serves the parent's commands on stdin until it is closed.
func childCommands(fp *faultProvider) {
	br := bufio.NewReader(os.Stdin)
	for {
		ln, err := br.ReadString('\n')
		if strings.HasPrefix(ln, "FAULT ") {
			var sp faultSpec
			if json.Unmarshal([]byte(strings.TrimSpace(ln[6:])), &sp) == nil {
				fp.spec.Store(&sp)
				fmt.Printf("FAULTED %d\n", fp.hits.Load())
			}
		}
		if err != nil {
			return
		}
	}
}

// ---- parent side

type faultState struct {
	spec     faultSpec
	fileIdx  int
	affected []int       // pieces that reach beyond the cut
	remain   map[int]int // piece -> bytes of the piece in front of the cut
	phase1   sync.WaitGroup
	armed    chan struct{}
	once     sync.Once
}

func (f *faultState) desc() map[string]any {
	return map[string]any{"kind": f.spec.Kind, "file": f.spec.File, "cut": int(f.spec.Cut), "affected": f.affected}
}

func makeFault(s *scen, rng *rand.Rand) {
	s.style = "fault"
	cb := s.sc.CB
	s.sc.CacheSize = []int64{64 << 20, 64 << 20, 0, 2 * cb}[rng.Intn(4)] // warm / no cache / a cache under pressure
	s.sc.TTLms = 60000
	s.sc.Unchoked, s.sc.Optimistic = 4, 1
	s.nleech = 1 + rng.Intn(2)
	s.maxConn = 40
	s.fault = &faultState{armed: make(chan struct{}), remain: map[int]int{}}
	s.fault.phase1.Add(s.nleech)
}

// plan chooses the file, the cut and the kind (after the torrent of the scenario is known).
func (f *faultState) plan(s *scen, rng *rand.Rand) {
	tor := s.tor
	var real []int
	for fi, fl := range tor.Files {
		if !fl.Pad && fl.Length > 0 {
			real = append(real, fi)
		}
	}
	fi := real[len(real)-1] // the file under the end of the torrent: a pure short read
	if rng.Intn(3) == 0 {
		fi = real[rng.Intn(len(real))]
	}
	fl := tor.Files[fi]
	start := tor.FileStart(fi)
	pl, cb := int64(tor.PieceLen), s.sc.CB
	var cuts []int64
	add := func(v int64) {
		if v >= 0 && v < fl.Length {
			cuts = append(cuts, v)
		}
	}
	// boundary values: start of the file, start of a piece, start of a cache block of a piece, one byte around them, anywhere
	p := (start + rng.Int63n(fl.Length)) / pl
	blk := rng.Int63n(pl/cb + 1)
	for _, abs := range []int64{start, p * pl, p*pl + blk*cb, p*pl + blk*cb, p*pl + blk*cb + 1, p*pl + blk*cb - 1, start + rng.Int63n(fl.Length), start + fl.Length - 1} {
		add(abs - start)
	}
	f.fileIdx = fi
	f.spec = faultSpec{Kind: []string{"short", "short", "err"}[rng.Intn(3)], File: tor.StoragePath(fi), Cut: cuts[rng.Intn(len(cuts))]}
	lo, hi := start+f.spec.Cut, start+fl.Length
	for i := 0; i < tor.NumPieces; i++ {
		ps, pe := int64(i)*pl, int64(i)*pl+int64(tor.PieceLenOf(i))
		if pe > lo && ps < hi {
			f.affected = append(f.affected, i)
			f.remain[i] = int(max(0, lo-ps))
		}
	}
}

// arm sends the fault to the child and records it (called by one leecher after every leecher has finished its warm-up).
func (f *faultState) arm(s *scen) {
	js, _ := json.Marshal(f.spec)
	fmt.Fprintf(s.childIn, "FAULT %s\n", js)
	select {
	case <-s.ack:
	case <-time.After(20 * time.Second):
		s.mu.Lock()
		s.count("fault_ack_timeout")
		s.mu.Unlock()
	}
	s.mu.Lock()
	for _, i := range f.affected {
		s.emit(ev{"op": "Fault", "i": i, "k": f.remain[i], "kind": f.spec.Kind, "file": f.spec.File, "cut": int(f.spec.Cut)})
	}
	s.count("faults")
	s.mu.Unlock()
	close(f.armed)
}

func (l *leecher) runFault() {
	s, f := l.s, l.s.fault
	rng := l.rng
	gen := newReqGen(s.tor, int(s.sc.CB), rng)
	var all []int
	for i := 0; i < s.tor.NumPieces; i++ {
		all = append(all, i)
	}
	ensure := func() bool {
		if l.conn != nil {
			if l.alive() {
				return true
			}
			l.hangup()
		}
		if !l.connect() {
			return false
		}
		l.send("Interested", vh.Msg{ID: vh.MsgInterested})
		l.waitUnchoke(800 * time.Millisecond)
		return true
	}
	pick := func() int {
		if rng.Intn(4) > 0 {
			return f.affected[rng.Intn(len(f.affected))]
		}
		return all[rng.Intn(len(all))]
	}
	round := func(n int, after bool) {
		for k := 0; k < n; {
			if !ensure() {
				return
			}
			burst := 1 + rng.Intn(5)
			for j := 0; j < burst && k < n; j++ {
				p := pick()
				b, ln := gen.validIn(p)
				if after && rng.Intn(2) == 0 {
					// aim at the cut: a request that starts in front of it, at it, or in the first cache block behind it
					r := f.remain[p]
					if plen := s.tor.PieceLenOf(p); r < plen && contains(f.affected, p) {
						bb := max(0, min(plen-1, r+[]int{-1, 0, 1, -int(s.sc.CB), int(s.sc.CB), -maxBlk / 2}[rng.Intn(6)]))
						b, ln = uint32(bb), uint32(1+rng.Intn(min(maxBlk, plen-bb)))
					}
				}
				k++
				l.sent = append(l.sent, [3]uint32{uint32(p), b, ln})
				if !l.send("Request", vh.Msg{ID: vh.MsgRequest, Index: uint32(p), Begin: b, Length: ln}) {
					break
				}
			}
			l.idle(time.Millisecond, 25*time.Millisecond)
		}
	}
	// phase 1: warm-up on the intact storage
	round(max(s.nreq/4, 20), false)
	if l.conn != nil {
		l.idle(5*time.Millisecond, 200*time.Millisecond)
	}
	f.phase1.Done()
	if l.idx == 0 {
		f.phase1.Wait()
		f.once.Do(func() { f.arm(s) })
	}
	<-f.armed
	// phase 2: the storage is cut / fails
	round(max(s.nreq/2, 40), true)
	if l.conn != nil {
		l.idle(40*time.Millisecond, 1000*time.Millisecond)
		l.hangup()
	}
}

func makeContend(s *scen, rng *rand.Rand) {
	s.style = "contend"
	cb := []int64{16384, 131072, 4096}[rng.Intn(3)]
	s.sc.CB = cb
	s.sc.SweepPieces = 12 + rng.Intn(6)
	s.sc.SweepPLen = []int{65536, 262144}[rng.Intn(2)]
	if cb == 131072 {
		s.sc.SweepPLen = 262144
	}
	s.sc.CacheSize = cb * int64(2+rng.Intn(2))
	s.sc.TTLms = []int{60000, 40}[rng.Intn(2)]
	s.sc.Parallel = uint(1 + rng.Intn(4))
	s.sc.Unchoked, s.sc.Optimistic = 8, 1
	s.nleech = 6 + rng.Intn(3)
	s.sc.ReadDelayUs = []int{0, 0, 50}[rng.Intn(3)]
	s.maxConn = 60
}
