package main

// Scenario family "grow" (scenario ids >= growFirstID): the session under test is a LEECHING and uploading client.
//
// It starts as a partial seed that misses some pieces.  Fast-extension peers connect while pieces of THEIR allowed-fast
// set are still missing; a scripted feeder (the same peer, or another one) then hands the missing pieces over; the peers -
// choked all the time, never unchoked - ask for the pieces before and after the client has obtained them, hang up and
// come back.  What the client granted is taken from the allowed-fast messages that arrived on the socket of that
// connection (event AF), never from the client's internal state; the moment from which the client can hold a piece is
// the moment the feeders handed over its last missing byte (event Got).  The obligations are the ones of every other
// family (Upload.tla, PieceViol): C03.notHeld before Got, C03.choked unless granted, C03.content / C03.length always.

import (
	"math/rand"
	"net"
	"sort"
	"sync"
	"time"

	"github.com/cenkalti/rain/v2/internal/fast"
	"github.com/cenkalti/rain/v2/internal/verif/vh"
)

const growFirstID = 1000

type growState struct {
	fsets  [][]int // allowed-fast set expected for leecher k (scenario construction only: never seen by the judge)
	feed   []int   // missing pieces that the feeder hands over
	never  []int   // missing pieces that nobody delivers
	feeder int     // index of the feeding leecher
	late   bool    // the non-feeding leecher connects only after the pieces were obtained
	cover  map[int]map[uint32]uint32
	got    map[int]bool
	done   chan struct{} // closed when rain has lost interest in the feeder after everything was handed over
	once   sync.Once
}

func (g *growState) isFeed(p int) bool {
	for _, x := range g.feed {
		if x == p {
			return true
		}
	}
	return false
}

func (g *growState) allGot() bool {
	for _, p := range g.feed {
		if !g.got[p] {
			return false
		}
	}
	return true
}

// leecherNet is the /24 the connections of leecher k come from (see leecher.connect).
func leecherNet(k int) net.IP { return net.IPv4(127, byte(1+k), 0, 2) }

func contains(xs []int, v int) bool {
	for _, x := range xs {
		if x == v {
			return true
		}
	}
	return false
}

// makeGrow fills in the scenario of the grow family.
func makeGrow(s *scen, rng *rand.Rand) {
	s.style = "grow"
	s.sc.SweepPieces = 12 + rng.Intn(8)
	s.sc.SweepPLen = 32768
	s.sc.AFSet = 2 + rng.Intn(4)
	s.sc.CacheSize = []int64{64 << 20, 2 * s.sc.CB, 0}[rng.Intn(3)]
	if rng.Intn(3) == 0 {
		s.sc.Unchoked, s.sc.Optimistic = 1, 0 // nobody is ever interested for long: the unchoker has nobody to unchoke most of the time
	} else {
		s.sc.Unchoked, s.sc.Optimistic = 0, 0
	}
	s.nleech = 2
	tor := buildTorrent(&s.sc)
	g := &growState{cover: map[int]map[uint32]uint32{}, got: map[int]bool{}, done: make(chan struct{})}
	for k := 0; k < s.nleech; k++ {
		var fs []int
		for _, x := range fast.GenerateFastSet(s.sc.AFSet, uint32(tor.NumPieces), tor.InfoHash, leecherNet(k)) {
			fs = append(fs, int(x))
		}
		g.fsets = append(g.fsets, fs)
	}
	inAny := func(p int) bool { return contains(g.fsets[0], p) || contains(g.fsets[1], p) }
	add := func(dst *[]int, p int) {
		if !contains(g.feed, p) && !contains(g.never, p) {
			*dst = append(*dst, p)
		}
	}
	// missing and handed over later: the first piece of each peer's fast set (one more of the first peer's now and then),
	// and one piece that is in nobody's set; missing for ever: one piece of a fast set now and then, one of nobody's set
	add(&g.feed, g.fsets[0][0])
	if len(g.fsets[0]) > 2 && rng.Intn(2) == 0 {
		add(&g.feed, g.fsets[0][1])
	}
	for _, p := range g.fsets[1] {
		if !contains(g.fsets[0], p) {
			add(&g.feed, p)
			break
		}
	}
	var outside []int
	for p := 0; p < tor.NumPieces; p++ {
		if !inAny(p) {
			outside = append(outside, p)
		}
	}
	rng.Shuffle(len(outside), func(i, j int) { outside[i], outside[j] = outside[j], outside[i] })
	if len(outside) > 0 {
		add(&g.feed, outside[0])
	}
	if len(outside) > 2 {
		add(&g.never, outside[1])
	}
	if last := g.fsets[0][len(g.fsets[0])-1]; rng.Intn(3) == 0 {
		add(&g.never, last)
	}
	sort.Ints(g.feed)
	sort.Ints(g.never)
	s.sc.Missing = append(append([]int{}, g.feed...), g.never...)
	sort.Ints(s.sc.Missing)
	g.feeder = rng.Intn(2)
	g.late = rng.Intn(2) == 0
	s.grow = g
}

// feedLocked (s.mu held): rain asked the feeder for a block.  Returns the answer, or nil.  The event Got is emitted BEFORE
// the block that completes the piece is written to the socket.
func (l *leecher) feedLocked(m vh.Msg, c int) *vh.Msg {
	s, g := l.s, l.s.grow
	p := int(m.Index)
	if g == nil || l.idx != g.feeder || !g.isFeed(p) || p >= l.tor.NumPieces {
		return nil
	}
	pd := l.tor.PieceData(p)
	if m.Length == 0 || m.Length > maxBlk || int64(m.Begin)+int64(m.Length) > int64(len(pd)) {
		return nil
	}
	if g.cover[p] == nil {
		g.cover[p] = map[uint32]uint32{}
	}
	if m.Length > g.cover[p][m.Begin] {
		g.cover[p][m.Begin] = m.Length
	}
	// rain asks for the blocks of its own fixed partition of the piece: distinct begins are disjoint ranges
	total := 0
	for _, n := range g.cover[p] {
		total += int(n)
	}
	if total >= len(pd) && !g.got[p] {
		g.got[p] = true
		s.emit(ev{"op": "Got", "i": p, "c": c})
		s.count("got")
	}
	s.count("fed_blocks")
	return &vh.Msg{ID: vh.MsgPiece, Index: m.Index, Begin: m.Begin, Data: pd[m.Begin : m.Begin+m.Length]}
}

// rainLostInterestLocked (s.mu held): a not-interested message from rain reached the feeder.
func (l *leecher) rainLostInterestLocked() {
	g := l.s.grow
	if g != nil && l.idx == g.feeder && g.allGot() {
		g.once.Do(func() { close(g.done) })
	}
}

func (l *leecher) alive() bool {
	l.s.mu.Lock()
	defer l.s.mu.Unlock()
	return l.conn != nil && !l.closed
}

// askRound sends n valid requests (the peer is choked) over the piece classes that matter, in small bursts.
func (l *leecher) askRound(gen *reqGen, n int, classes [][]int) {
	rng := l.rng
	var nonEmpty [][]int
	for _, c := range classes {
		if len(c) > 0 {
			nonEmpty = append(nonEmpty, c)
		}
	}
	if len(nonEmpty) == 0 {
		return
	}
	for k := 0; k < n && l.alive(); {
		burst := 1 + rng.Intn(5)
		for j := 0; j < burst && k < n; j++ {
			cl := nonEmpty[rng.Intn(len(nonEmpty))]
			p := cl[rng.Intn(len(cl))]
			b, ln := gen.validIn(p)
			l.sent = append(l.sent, [3]uint32{uint32(p), b, ln})
			if !l.send("Request", vh.Msg{ID: vh.MsgRequest, Index: uint32(p), Begin: b, Length: ln}) {
				return
			}
			k++
			if rng.Intn(12) == 0 { // cancel it again (a fast peer gets a reject for every cancel)
				l.send("Cancel", vh.Msg{ID: vh.MsgCancel, Index: uint32(p), Begin: b, Length: ln})
			}
		}
		l.idle(time.Millisecond, 25*time.Millisecond)
	}
}

func (l *leecher) runGrow() {
	s, g := l.s, l.s.grow
	gen := newReqGen(s.tor, int(s.sc.CB), l.rng)
	var held, all []int
	for i := 0; i < s.tor.NumPieces; i++ {
		all = append(all, i)
		if s.held[i] {
			held = append(held, i)
		}
	}
	mine := g.fsets[l.idx]
	isFeeder := l.idx == g.feeder
	// round 3: the peer sends its OWN allowed-fast messages (they grant rain downloads from the peer - the session is downloading,
	// so it records them - and grant the peer nothing) for pieces the client holds or will hold and did not grant to this peer
	var spoof []int
	if r3on {
		for _, p := range l.rng.Perm(s.tor.NumPieces) {
			if !contains(mine, p) && !contains(g.never, p) && len(spoof) < 4 {
				spoof = append(spoof, p)
			}
		}
	}
	peerAF := func() {
		if !l.fast || !r3on { // without the fast extension the message is a protocol error
			return
		}
		for _, p := range spoof {
			l.send("PeerAF", vh.Msg{ID: vh.MsgAllowedFast, Index: uint32(p)})
		}
	}
	classes := [][]int{g.feed, g.feed, mine, mine, g.never, held, all, spoof, spoof}
	nreq := max(s.nreq/4, 20)
	waitDone := func() {
		select {
		case <-g.done:
		case <-time.After(8 * time.Second):
			s.mu.Lock()
			s.count("grow_feed_timeout")
			s.mu.Unlock()
		}
	}
	if !isFeeder && g.late {
		// the peer that comes after the client has obtained the pieces
		waitDone()
	}
	if !l.connect() {
		return
	}
	l.idle(3*time.Millisecond, 60*time.Millisecond) // let the allowed-fast messages arrive
	if r3on && l.rng.Intn(3) > 0 {
		peerAF()
	}
	// round 1: the client still misses the pieces
	if isFeeder || !g.late {
		l.askRound(gen, nreq, classes)
	}
	if isFeeder {
		for _, p := range g.feed {
			l.send("Other", vh.Msg{ID: vh.MsgHave, Index: uint32(p)})
		}
		l.send("Other", vh.Msg{ID: vh.MsgUnchoke})
	}
	waitDone()
	peerAF()
	// round 2: the client has obtained them; this connection is as old as before
	l.askRound(gen, nreq, classes)
	if s.sc.Unchoked > 0 && l.rng.Intn(2) == 0 && l.alive() {
		// an interested peer may get unchoked: then everything the client holds is served
		l.send("Interested", vh.Msg{ID: vh.MsgInterested})
		l.waitUnchoke(300 * time.Millisecond)
		l.askRound(gen, nreq/2, classes)
		l.send("NotInterested", vh.Msg{ID: vh.MsgNotInterested})
		l.idle(2*time.Millisecond, 40*time.Millisecond)
	}
	// round 3: a new connection from the same address (the fast set is granted anew)
	if l.conn != nil {
		l.idle(10*time.Millisecond, 300*time.Millisecond)
		l.hangup()
	}
	if l.connect() {
		l.idle(3*time.Millisecond, 60*time.Millisecond)
		peerAF()
		l.askRound(gen, nreq/2, classes)
		l.idle(40*time.Millisecond, 1000*time.Millisecond)
		l.hangup()
	}
}
