// Command c03 is the driver of property C03 (upload integrity).
//
// Observation point 1 ("wire"): a real seeding torrent.Session runs in a CHILD process (sub-command
// "seed": crash containment, a panic of rain kills only the child); the parent is an independent scripted
// leecher that talks to it over loopback sockets, sends generated request triples (class x boundary value),
// cancels, interest changes, and records every message it sends and receives. Payloads are compared with the
// generated ground truth by the leecher (class good|bad, first differing offset).
//
// Observation point 2 ("readat"): internal/cachedpiece.CachedPiece.ReadAt driven directly over in-memory
// file sections with a real piececache.Cache; "cache": concurrent readers of one cache block in a child process.
//
// The trace (ndjson, one object per line) is judged by spec/Trace_Upload.tla.
package main

import (
	"bufio"
	"bytes"
	"encoding/json"
	"flag"
	"fmt"
	"io"
	"math/rand"
	"os"
	"os/exec"
	"regexp"
	"strings"
	"sync"
	"sync/atomic"
	"time"

	"github.com/cenkalti/rain/v2/internal/cachedpiece"
	"github.com/cenkalti/rain/v2/internal/filesection"
	"github.com/cenkalti/rain/v2/internal/piece"
	"github.com/cenkalti/rain/v2/internal/piececache"
	"github.com/cenkalti/rain/v2/internal/verif/vh"
	"github.com/cenkalti/rain/v2/torrent"
)

const maxBlk = 16384
const satLimit = 1 << 30

func sat(v uint32) int {
	if v > satLimit {
		return satLimit
	}
	return int(v)
}

// ---------------------------------------------------------------------------------------------------
// scenario description shared by parent and child

type SeedCfg struct {
	Layout      int     `json:"layout"` // index into layouts(unit)
	Unit        int     `json:"unit"`
	TorSeed     int64   `json:"torseed"`
	Missing     []int   `json:"missing"` // pieces whose stored content is destroyed before start (partial seed)
	CB          int64   `json:"cb"`
	CacheSize   int64   `json:"cachesize"`
	TTLms       int     `json:"ttlms"`
	Parallel    uint    `json:"parallel"`
	MaxReqIn    int     `json:"maxreqin"`
	Unchoked    int     `json:"unchoked"`
	Optimistic  int     `json:"optimistic"`
	AFSet       int     `json:"afset"`
	TickMs      int     `json:"tickms"`
	ReadDelayUs int     `json:"readdelayus"`
	UploadKBps  int64   `json:"uploadkbps"`
	SweepPieces int     `json:"sweeppieces,omitempty"` // key-space layout: this many pieces of SweepPLen bytes (two files)
	SweepPLen   int     `json:"sweepplen,omitempty"`
	Twin        bool    `json:"twin,omitempty"` // a second torrent (same layout, other content) shares the session and its read cache
	Dir         string  `json:"dir,omitempty"` // scratch directory of the child (created and removed by the parent)
	Dummy       float64 `json:"-"`
}

func layouts(unit int) []vh.Layout {
	l := vh.StdLayouts(unit)
	l = append(l, vh.PadWholeLayout(unit))
	return l
}

func buildTorrent(sc *SeedCfg) *vh.Torrent {
	if sc.SweepPieces > 0 {
		pl := int64(sc.SweepPLen)
		total := int64(sc.SweepPieces)*pl - pl/3
		a := 10*pl + pl/2
		l := vh.Layout{Name: "sweep", PieceLen: sc.SweepPLen, Files: []vh.FileSpec{{Path: []string{"a.bin"}, Length: a}, {Path: []string{"b.bin"}, Length: total - a}}}
		return vh.Build(l, sc.TorSeed, nil, nil)
	}
	ls := layouts(sc.Unit)
	return vh.Build(ls[sc.Layout%len(ls)], sc.TorSeed, nil, nil)
}

// buildTwin is the second torrent of a Twin session: same layout, different name and content.
func buildTwin(sc *SeedCfg) *vh.Torrent {
	c := *sc
	c.TorSeed = sc.TorSeed + 7777
	t := buildTorrent(&c)
	l := t.Layout
	l.Name = l.Name + "-twin"
	return vh.Build(l, c.TorSeed, nil, nil)
}

// heldPieces is the independent definition of "pieces the seed has verified": every piece whose stored
// bytes are ground truth, i.e. all pieces except the destroyed ones that contain at least one real byte.
func heldPieces(tor *vh.Torrent, missing []int) []int {
	miss := map[int]bool{}
	for _, p := range missing {
		if p >= 0 && p < tor.NumPieces && tor.NonPadLen(p) > 0 {
			miss[p] = true
		}
	}
	out := []int{}
	for i := 0; i < tor.NumPieces; i++ {
		if !miss[i] {
			out = append(out, i)
		}
	}
	return out
}

// ---------------------------------------------------------------------------------------------------
// child: the real session

func seedMain(js string) {
	var sc SeedCfg
	if err := json.Unmarshal([]byte(js), &sc); err != nil {
		fmt.Fprintln(os.Stderr, "bad cfg", err)
		os.Exit(3)
	}
	torrent.DisableLogging()
	dir := sc.Dir
	if dir == "" {
		var err error
		dir, err = os.MkdirTemp("/var/tmp", "c03seed")
		if err != nil {
			fmt.Fprintln(os.Stderr, err)
			os.Exit(3)
		}
	}
	cleanup := func() { os.RemoveAll(dir) }
	fail := func(a ...any) {
		fmt.Fprintln(os.Stderr, a...)
		cleanup()
		os.Exit(3)
	}
	tor := buildTorrent(&sc)
	T, _ := vh.NewTracer("")
	hub := vh.InstallSnapHub(T, false)
	prov := vh.NewMemProvider(T)
	prov.Quiet = true
	prov.Truth[""] = tor
	if sc.Twin {
		prov.Truth["t2"] = buildTwin(&sc)
	}
	st := prov.Store("t1")
	st.Fill(tor)
	pl := int64(tor.PieceLen)
	for _, p := range sc.Missing {
		if p < 0 || p >= tor.NumPieces {
			continue
		}
		ps, pe := int64(p)*pl, int64(p)*pl+int64(tor.PieceLenOf(p))
		for fi, f := range tor.Files {
			if f.Pad || f.Length == 0 {
				continue
			}
			lo, hi := max(ps, tor.FileStart(fi)), min(pe, tor.FileStart(fi)+f.Length)
			if lo >= hi {
				continue
			}
			d := st.FileBytes(tor.StoragePath(fi))
			for k := lo - tor.FileStart(fi); k < hi-tor.FileStart(fi); k++ {
				d[k] = 0
			}
			st.Put(tor.StoragePath(fi), d)
		}
	}
	if sc.ReadDelayUs > 0 {
		d := time.Duration(sc.ReadDelayUs) * time.Microsecond
		prov.SetHook(func(phase, op, tid, name string, off int64, n int) error {
			if phase == "enter" && op == "read" {
				time.Sleep(d)
			}
			return nil
		})
	}
	cfg, err := vh.BaseConfig(dir, 6)
	if err != nil {
		fail(err)
	}
	fprov := &faultProvider{inner: prov}
	cfg.CustomStorage = fprov
	cfg.ReadCacheBlockSize = sc.CB
	cfg.ReadCacheSize = sc.CacheSize
	cfg.ReadCacheTTL = time.Duration(sc.TTLms) * time.Millisecond
	if sc.Parallel > 0 {
		cfg.ParallelReads = sc.Parallel
	}
	cfg.MaxRequestsIn = sc.MaxReqIn
	cfg.UnchokedPeers = sc.Unchoked
	cfg.OptimisticUnchokedPeers = sc.Optimistic
	cfg.AllowedFastSet = sc.AFSet
	cfg.SpeedLimitUpload = sc.UploadKBps
	cfg.MaxPeerAccept = 100
	s, err := torrent.NewSession(cfg)
	if err != nil {
		fail("session", err)
	}
	tr, err := s.AddTorrent(bytes.NewReader(tor.Bytes), &torrent.AddTorrentOptions{ID: "t1"})
	if err != nil {
		fail("add", err)
	}
	want := "Seeding"
	if len(heldPieces(tor, sc.Missing)) < tor.NumPieces {
		want = "Downloading"
	}
	ok := hub.Wait("t1", 20*time.Second, func(v *torrent.VerifSnap) bool {
		return v.Status == want && v.Acceptor && v.Port != 0 && !v.BitfieldNil
	})
	if !ok {
		fail("torrent did not reach", want, fmt.Sprintf("%+v", hub.Get("t1")))
	}
	snap := hub.Get("t1")
	torrent.VerifSetTracer(nil) // snapshots are not needed any more (cost per loop event)
	if sc.TickMs > 0 {
		torrent.VerifSetUnchokePeriod(tr, time.Duration(sc.TickMs)*time.Millisecond)
	}
	port2 := 0
	if sc.Twin {
		tor2 := buildTwin(&sc)
		prov.Store("t2").Fill(tor2)
		hub2 := vh.InstallSnapHub(T, false)
		if _, err := s.AddTorrent(bytes.NewReader(tor2.Bytes), &torrent.AddTorrentOptions{ID: "t2"}); err != nil {
			fail("add twin", err)
		}
		if !hub2.Wait("t2", 20*time.Second, func(v *torrent.VerifSnap) bool {
			return v.Status == "Seeding" && v.Acceptor && v.Port != 0 && !v.BitfieldNil
		}) {
			fail("twin torrent did not reach Seeding", fmt.Sprintf("%+v", hub2.Get("t2")))
		}
		port2 = hub2.Get("t2").Port
		torrent.VerifSetTracer(nil)
	}
	rd, _ := json.Marshal(map[string]any{"port": snap.Port, "port2": port2, "have": snap.Have, "status": snap.Status})
	fmt.Printf("READY %s\n", rd)
	childCommands(fprov) // returns when the parent closes our stdin (the scenario is over)
	cleanup()
	os.Exit(0)
}

// ---------------------------------------------------------------------------------------------------
// parent: scenarios

type ev = map[string]any

type scen struct {
	id      int
	name    string
	sc      SeedCfg
	tor     *vh.Torrent
	held    map[int]bool
	nleech  int
	fastOf  []bool
	extOf   []bool
	nreq    int // requests per leecher
	style   string
	maxConn int
	seed    int64
	drvSeed int64 // the driver's -seed and -reqs (replay: wire -seed S -first id -n 1 -reqs R)
	nreq0   int

	mu      sync.Mutex
	t0      time.Time
	events  []ev
	nextC   int
	crashed atomic.Bool
	addr    string
	tor2    *vh.Torrent // twin torrent (nil if none)
	addr2   string
	stats   map[string]int
	grow    *growState // scenario family "grow" (grow.go): the session under test downloads while it uploads
	fault   *faultState // scenario family "fault" (fault.go): the storage is cut / fails behind the client's back
	childIn io.Writer
	ack     chan string
}

func (s *scen) emit(e ev) {
	if s.t0.IsZero() {
		s.t0 = time.Now()
	}
	e["t"] = int(time.Since(s.t0) / time.Millisecond)
	s.events = append(s.events, e)
}

func (s *scen) count(k string) {
	s.stats[k]++
}

type leecher struct {
	s      *scen
	idx    int
	rng    *rand.Rand
	fast   bool
	ext    bool
	conn   *vh.Conn
	c      int
	closed bool // under s.mu
	doneC  chan struct{}
	unch   atomic.Bool
	lastRx atomic.Int64
	nconn  int
	tor    *vh.Torrent // the torrent this leecher talks to (the scenario's, or its twin)
	addr   string
	rxPcs  atomic.Int64
	sent   [][3]uint32 // requests sent on the current connection
	af     []uint32    // allowed-fast pieces received on the current connection (under s.mu)
}

// connect dials rain from a fresh loopback address, performs the handshake and starts the reader.
func (l *leecher) connect() bool {
	s := l.s
	if s.crashed.Load() {
		return false
	}
	s.mu.Lock()
	if s.nextC >= s.maxConn {
		s.mu.Unlock()
		return false
	}
	s.nextC++
	c := s.nextC
	s.mu.Unlock()
	l.nconn++
	ip := fmt.Sprintf("127.%d.%d.%d", 1+l.idx, l.nconn/250, 2+l.nconn%250)
	nc, err := vh.DialFrom(ip, l.addr, 3*time.Second)
	if err != nil {
		return false
	}
	var id [20]byte
	copy(id[:], fmt.Sprintf("-VH0001-%04d%04d%04d", s.id%10000, l.idx, c))
	h, err := vh.PlainHandshake(nc, l.tor.InfoHash, id, vh.ReservedBits(l.fast, l.ext, false), 3*time.Second)
	if err != nil {
		nc.Close()
		return false
	}
	l.conn = &vh.Conn{C: nc, Name: fmt.Sprintf("L%d", c), Remote: h, Quiet: true}
	l.c = c
	l.closed = false
	l.unch.Store(false)
	l.sent = nil
	l.af = nil
	l.doneC = make(chan struct{})
	l.lastRx.Store(time.Now().UnixNano())
	rfast := h.Reserved[7]&0x04 != 0
	s.mu.Lock()
	s.emit(ev{"op": "Open", "c": c, "fast": l.fast && rfast, "leecher": l.idx})
	s.count("conns")
	s.mu.Unlock()
	go l.reader(l.conn, c, l.doneC)
	if l.fast {
		l.conn.Send(vh.Msg{ID: vh.MsgHaveNone})
	}
	return true
}

func (l *leecher) reader(conn *vh.Conn, c int, done chan struct{}) {
	defer close(done)
	s := l.s
	tor := l.tor
	for {
		m, err := conn.Recv(0)
		if err != nil {
			s.mu.Lock()
			l.closed = true
			s.emit(ev{"op": "Closed", "c": c})
			s.mu.Unlock()
			return
		}
		l.lastRx.Store(time.Now().UnixNano())
		var reply *vh.Msg
		s.mu.Lock()
		switch m.ID {
		case vh.MsgKeepAlive:
		case vh.MsgChoke:
			l.unch.Store(false)
			s.emit(ev{"op": "Choke", "c": c})
			s.count("rx_choke")
		case vh.MsgUnchoke:
			l.unch.Store(true)
			s.emit(ev{"op": "Unchoke", "c": c})
			s.count("rx_unchoke")
		case vh.MsgAllowedFast:
			l.af = append(l.af, m.Index)
			s.emit(ev{"op": "AF", "c": c, "i": sat(m.Index)})
		case vh.MsgRequest:
			// only a session that downloads asks us for anything (family grow): the feeder answers with ground truth
			s.emit(ev{"op": "Other", "c": c, "kind": m.Name()})
			reply = l.feedLocked(m, c)
		case vh.MsgNotInterested:
			s.emit(ev{"op": "Other", "c": c, "kind": m.Name()})
			l.rainLostInterestLocked()
		case vh.MsgReject:
			s.emit(ev{"op": "Reject", "c": c, "i": sat(m.Index), "b": sat(m.Begin), "n": sat(m.Length)})
			s.count("rx_reject")
		case vh.MsgPiece:
			class, diff := "bad", -1
			if int(m.Index) < tor.NumPieces {
				pd := tor.PieceData(int(m.Index))
				if int64(m.Begin)+int64(len(m.Data)) <= int64(len(pd)) {
					class = "good"
					want := pd[m.Begin : int(m.Begin)+len(m.Data)]
					for k := range want {
						if want[k] != m.Data[k] {
							class, diff = "bad", k
							break
						}
					}
				}
			}
			s.emit(ev{"op": "Piece", "c": c, "i": sat(m.Index), "b": sat(m.Begin), "n": len(m.Data), "class": class, "diff": diff})
			s.count("rx_piece")
			l.rxPcs.Add(1)
		default:
			s.emit(ev{"op": "Other", "c": c, "kind": m.Name()})
		}
		s.mu.Unlock()
		if reply != nil {
			conn.Send(*reply)
		}
	}
}

// send emits the trace event and then writes the message; returns false if the connection is gone.
func (l *leecher) send(op string, m vh.Msg) bool {
	s := l.s
	s.mu.Lock()
	if l.closed {
		s.mu.Unlock()
		return false
	}
	e := ev{"op": op, "c": l.c}
	if op == "Request" || op == "Cancel" {
		e["i"], e["b"], e["n"] = sat(m.Index), sat(m.Begin), sat(m.Length)
		e["raw"] = fmt.Sprintf("%d,%d,%d", m.Index, m.Begin, m.Length)
		if op == "Request" {
			e["unchoked"] = l.unch.Load()
		}
	}
	if op == "Other" {
		e["kind"] = "tx-" + m.Name()
	}
	if op == "PeerAF" {
		e["i"] = sat(m.Index)
	}
	s.emit(e)
	s.mu.Unlock()
	return l.conn.Send(m) == nil
}

func (l *leecher) hangup() {
	if l.conn != nil {
		l.conn.Close()
		<-l.doneC
		l.conn = nil
	}
}

// idle waits until nothing has been received for d (bounded by limit).
func (l *leecher) idle(d, limit time.Duration) {
	t0 := time.Now()
	for time.Since(t0) < limit {
		if time.Since(time.Unix(0, l.lastRx.Load())) >= d {
			return
		}
		time.Sleep(d / 4)
	}
}

func (l *leecher) waitClosed(limit time.Duration) bool {
	t0 := time.Now()
	for time.Since(t0) < limit {
		l.s.mu.Lock()
		cl := l.closed
		l.s.mu.Unlock()
		if cl {
			return true
		}
		time.Sleep(300 * time.Microsecond)
	}
	return false
}

func (l *leecher) waitUnchoke(limit time.Duration) bool {
	t0 := time.Now()
	for time.Since(t0) < limit {
		if l.unch.Load() {
			return true
		}
		s := l.s
		s.mu.Lock()
		cl := l.closed
		s.mu.Unlock()
		if cl {
			return false
		}
		time.Sleep(500 * time.Microsecond)
	}
	return false
}

// ---- request generation: class x boundary value

type reqGen struct {
	tor *vh.Torrent
	cb  int
	rng *rand.Rand
	// offsets (inside the piece) of file boundaries and padding starts, per piece
	edges [][]int
}

func newReqGen(tor *vh.Torrent, cb int, rng *rand.Rand) *reqGen {
	g := &reqGen{tor: tor, cb: cb, rng: rng}
	g.edges = make([][]int, tor.NumPieces)
	pl := int64(tor.PieceLen)
	for fi := range tor.Files {
		for _, abs := range []int64{tor.FileStart(fi), tor.FileStart(fi) + tor.Files[fi].Length} {
			p := int(abs / pl)
			if p < tor.NumPieces {
				g.edges[p] = append(g.edges[p], int(abs%pl))
			}
		}
	}
	return g
}

func (g *reqGen) pick(xs []int64) int64 { return xs[g.rng.Intn(len(xs))] }

// validIn generates a request that the property calls valid for piece i.
func (g *reqGen) validIn(i int) (uint32, uint32) {
	plen := int64(g.tor.PieceLenOf(i))
	cb := int64(g.cb)
	var begins []int64
	add := func(v int64) {
		if v >= 0 && v < plen {
			begins = append(begins, v)
		}
	}
	k := int64(0)
	if plen/cb > 0 {
		k = g.rng.Int63n(plen/cb + 1)
	}
	for _, v := range []int64{0, 1, cb - 1, cb, cb + 1, k*cb - 1, k * cb, k*cb + 1, plen - 1, plen - maxBlk, plen - maxBlk - 1, plen - maxBlk + 1,
		16384, 16383, 32768 - 1, g.rng.Int63n(plen), g.rng.Int63n(plen), (g.rng.Int63n(plen) / 16384) * 16384} {
		add(v)
	}
	for _, e := range g.edges[i] {
		add(int64(e) - 1)
		add(int64(e))
		add(int64(e) + 1)
		add(int64(e) - maxBlk/2)
	}
	b := g.pick(begins)
	room := min(plen-b, maxBlk)
	var lens []int64
	addl := func(v int64) {
		if v >= 1 && v <= room {
			lens = append(lens, v)
		}
	}
	toBlk := cb - b%cb
	for _, v := range []int64{1, 2, toBlk - 1, toBlk, toBlk + 1, toBlk + cb, toBlk + cb + 1, 16383, 16384, room, room - 1, 1 + g.rng.Int63n(room), 1 + g.rng.Int63n(room)} {
		addl(v)
	}
	for _, e := range g.edges[i] {
		addl(int64(e) - b)
		addl(int64(e) - b + 1)
	}
	return uint32(b), uint32(g.pick(lens))
}

// invalid generates a request that must never be answered with data; kind names the class.
func (g *reqGen) invalid(held []int) (uint32, uint32, uint32, string) {
	n := g.tor.NumPieces
	i := held[g.rng.Intn(len(held))]
	plen := int64(g.tor.PieceLenOf(i))
	switch g.rng.Intn(14) {
	case 12, 13: // longer than 16 KiB but completely inside the piece: only the reader's cap stands in the way
		if plen > maxBlk {
			l := g.pick([]int64{maxBlk + 1, maxBlk + 2, min(plen, 20000), min(plen, 32768), plen})
			if l <= maxBlk {
				l = maxBlk + 1
			}
			b := g.pick([]int64{0, 0, 1, plen - l, (plen - l) / 2})
			if b < 0 || b+l > plen {
				b = 0
			}
			return uint32(i), uint32(b), uint32(l), "len>16K-inside"
		}
		return uint32(i), 0, 1 << 17, "len>16K"
	case 0:
		return uint32(n), 0, 1, "index=N"
	case 1:
		return 0xFFFFFFFF, 0, 16384, "index=2^32-1"
	case 2:
		return uint32(n) + uint32(g.rng.Intn(5)), uint32(g.rng.Intn(100)), 1 + uint32(g.rng.Intn(16384)), "index>N"
	case 3:
		b, _ := g.validIn(i)
		return uint32(i), b, 0, "len=0"
	case 4:
		b, _ := g.validIn(i)
		return uint32(i), b, uint32(g.pick([]int64{16385, 16386, 32768, 1 << 17, 1 << 31, 0xFFFFFFFF})), "len>16K"
	case 5: // crosses the end of the piece by a little
		l := 1 + g.rng.Int63n(maxBlk)
		b := plen - l + 1 + g.rng.Int63n(min(l, 3))
		if b < 0 {
			b = 0
			l = plen + 1
			if l > maxBlk {
				return uint32(i), uint32(plen - 1), 2, "end+1"
			}
		}
		return uint32(i), uint32(b), uint32(l), "end+1"
	case 6:
		return uint32(i), uint32(plen), 1, "begin=len"
	case 7:
		return uint32(i), uint32(g.pick([]int64{plen + 1, 1 << 31, 0xFFFFFFFF, 0xFFFFFFFF - 16383})), uint32(1 + g.rng.Intn(16384)), "begin>len"
	case 8: // begin+length wraps around 2^32 to a small value
		b, l := g.validIn(i)
		_ = l
		bb := uint32(0xFFFFFFFF) - uint32(g.rng.Intn(16384))
		ll := uint32(0) - bb + b // bb+ll == b (mod 2^32)
		if ll == 0 || ll > maxBlk {
			ll = uint32(0) - bb
			if ll == 0 {
				ll = 1
			}
		}
		return uint32(i), bb, ll, "wrap32"
	case 9:
		b, _ := g.validIn(i)
		return uint32(i), b, uint32(0) - b, "wrap32big"
	case 10: // last piece is short: a request valid for a full piece but not for the last one
		lp := n - 1
		ll := int64(g.tor.PieceLenOf(lp))
		if ll < int64(g.tor.PieceLen) {
			return uint32(lp), uint32(ll - 1), 2, "lastpiece+1"
		}
		return uint32(lp), uint32(ll), 1, "begin=len"
	default:
		return uint32(i), uint32(plen - 1), 16384, "end+16K"
	}
}

// ---- the leecher's script

func (l *leecher) run(wg *sync.WaitGroup) {
	defer wg.Done()
	s := l.s
	if s.style == "keysweep" {
		l.runSweep()
		return
	}
	if s.style == "grow" {
		l.runGrow()
		return
	}
	if s.style == "fault" {
		l.runFault()
		return
	}
	g := newReqGen(s.tor, int(s.sc.CB), l.rng)
	rng := l.rng
	held := []int{}
	missing := []int{}
	for i := 0; i < s.tor.NumPieces; i++ {
		if s.held[i] {
			held = append(held, i)
		} else {
			missing = append(missing, i)
		}
	}
	canUnchoke := s.sc.Unchoked+s.sc.Optimistic > 0
	ttl := time.Duration(s.sc.TTLms) * time.Millisecond
	nsent := 0
	invalidBudget := s.maxConn/s.nleech - 2
	ensure := func() bool {
		if l.conn != nil {
			s.mu.Lock()
			cl := l.closed
			s.mu.Unlock()
			if !cl {
				return true
			}
			l.hangup()
		}
		if !l.connect() {
			return false
		}
		if s.style == "uninterested" && rng.Intn(2) == 0 {
			return true
		}
		l.send("Interested", vh.Msg{ID: vh.MsgInterested})
		if canUnchoke && s.style != "flip" {
			l.waitUnchoke(400 * time.Millisecond)
		} else {
			l.idle(3*time.Millisecond, 30*time.Millisecond) // let the allowed-fast messages arrive
		}
		return true
	}
	request := func(i, b, n uint32) bool {
		nsent++
		l.sent = append(l.sent, [3]uint32{i, b, n})
		return l.send("Request", vh.Msg{ID: vh.MsgRequest, Index: i, Begin: b, Length: n})
	}
	pickPiece := func() int {
		// allowed-fast pieces matter while choked
		s.mu.Lock()
		af := append([]uint32(nil), l.af...)
		s.mu.Unlock()
		if len(af) > 0 && (s.style == "choked" || s.style == "flip") && rng.Intn(2) == 0 {
			p := int(af[rng.Intn(len(af))])
			if p < s.tor.NumPieces {
				return p
			}
		}
		switch rng.Intn(6) {
		case 0:
			return held[0]
		case 1:
			return held[len(held)-1]
		}
		return held[rng.Intn(len(held))]
	}
	for nsent < s.nreq {
		if !ensure() {
			break
		}
		if s.style == "flip" && rng.Intn(3) > 0 {
			// span many unchoke rounds: the unchoker has to change its mind while requests are queued
			time.Sleep(time.Duration(2+rng.Intn(10)) * time.Millisecond)
		}
		r := rng.Intn(100)
		switch {
		case r < 8 && invalidBudget > 0 && s.style != "flood":
			i, b, n, kind := g.invalid(held)
			invalidBudget--
			s.mu.Lock()
			s.count("tx_invalid:" + kind)
			s.mu.Unlock()
			request(i, b, n)
			if rng.Intn(3) > 0 { // usually follow up at once with valid requests: they must not be served after a close
				p := pickPiece()
				bb, nn := g.validIn(p)
				request(uint32(p), bb, nn)
			}
			l.waitClosed(150 * time.Millisecond) // rain is expected to hang up; go on if it does not
		case r < 22 && len(missing) > 0:
			p := missing[rng.Intn(len(missing))]
			bb, nn := g.validIn(p)
			s.mu.Lock()
			s.count("tx_notheld")
			s.mu.Unlock()
			request(uint32(p), bb, nn)
		case r < 24 && len(l.sent) > 0: // cancel a recent request (or one never sent)
			q := l.sent[len(l.sent)-1-rng.Intn(min(len(l.sent), 4))]
			if rng.Intn(8) == 0 {
				p := pickPiece()
				bb, nn := g.validIn(p)
				q = [3]uint32{uint32(p), bb, nn}
			}
			s.mu.Lock()
			s.count("tx_cancel")
			s.mu.Unlock()
			l.send("Cancel", vh.Msg{ID: vh.MsgCancel, Index: q[0], Begin: q[1], Length: q[2]})
		case r < 30 && len(l.sent) > 0: // ask again for something already requested on this connection
			q := l.sent[rng.Intn(len(l.sent))]
			s.mu.Lock()
			s.count("tx_rerequest")
			s.mu.Unlock()
			request(q[0], q[1], q[2])
		case r < 34:
			l.send("NotInterested", vh.Msg{ID: vh.MsgNotInterested})
			if rng.Intn(2) == 0 {
				time.Sleep(time.Duration(rng.Intn(3)) * time.Millisecond)
			}
			l.send("Interested", vh.Msg{ID: vh.MsgInterested})
		case r < 38 && ttl > 0 && ttl <= 200*time.Millisecond: // let the cache expire
			l.idle(2*time.Millisecond, 50*time.Millisecond)
			time.Sleep(ttl + time.Duration(rng.Intn(20))*time.Millisecond)
		case r < 41 && rng.Intn(3) == 0: // hang up and come back
			l.idle(2*time.Millisecond, 40*time.Millisecond)
			if invalidBudget > 1 {
				invalidBudget--
				l.hangup()
			}
		case r3on && r >= 96 && l.fast:
			// the peer's OWN allowed-fast message (it grants rain a download, and the peer nothing), then a request for it
			p := held[rng.Intn(len(held))]
			s.mu.Lock()
			s.count("tx_peeraf")
			s.mu.Unlock()
			l.send("PeerAF", vh.Msg{ID: vh.MsgAllowedFast, Index: uint32(p)})
			bb, nn := g.validIn(p)
			request(uint32(p), bb, nn)
		default: // a burst of valid requests
			burst := 1 + rng.Intn(6)
			if s.style == "contend" {
				burst = 12 + rng.Intn(30)
			}
			if s.style == "flood" {
				burst = 8 + rng.Intn(3*s.sc.MaxReqIn+8)
			}
			if s.style == "flip" {
				burst = 4 + rng.Intn(16)
			}
			p := pickPiece()
			for k := 0; k < burst && nsent < s.nreq; k++ {
				if rng.Intn(3) == 0 {
					p = pickPiece()
				}
				bb, nn := g.validIn(p)
				if !request(uint32(p), bb, nn) {
					break
				}
			}
			switch rng.Intn(4) {
			case 0:
			case 1:
				time.Sleep(time.Duration(rng.Intn(1500)) * time.Microsecond)
			default:
				l.idle(time.Millisecond, 20*time.Millisecond)
			}
		}
	}
	if l.conn != nil {
		l.idle(60*time.Millisecond, 1500*time.Millisecond)
		l.hangup()
	}
}

// runSweep exercises the key space of the read cache: every (piece, cache block) pair of the torrent is
// read twice with a few bytes at the block start, pass 1 in piece-major order (cold cache), pass 2 in a
// shuffled order (warm cache: everything fits and nothing expires). Two colliding keys would hand the
// bytes of one pair to the other.
func (l *leecher) runSweep() {
	s := l.s
	rng := l.rng
	cb := int(s.sc.CB)
	type pair struct{ p, blk int }
	var pairs []pair
	for p := 0; p < l.tor.NumPieces; p++ {
		for blk := 0; blk*cb < l.tor.PieceLenOf(p); blk++ {
			pairs = append(pairs, pair{p, blk})
		}
	}
	if !l.connect() {
		return
	}
	l.send("Interested", vh.Msg{ID: vh.MsgInterested})
	if !l.waitUnchoke(3 * time.Second) {
		l.hangup()
		return
	}
	sent := int64(0)
	for pass := 0; pass < 2; pass++ {
		order := append([]pair(nil), pairs...)
		if pass == 1 {
			rng.Shuffle(len(order), func(i, j int) { order[i], order[j] = order[j], order[i] })
		}
		for k, q := range order {
			plen := l.tor.PieceLenOf(q.p)
			b := q.blk*cb + []int{0, 0, 1, 2}[rng.Intn(4)]
			if b >= plen {
				b = q.blk * cb
			}
			n := min(3+2*pass, plen-b) // another length in the second pass: the writer refuses a repeated triple
			if !l.send("Request", vh.Msg{ID: vh.MsgRequest, Index: uint32(q.p), Begin: uint32(b), Length: uint32(n)}) {
				return
			}
			sent++
			if k%24 == 23 || k == len(order)-1 { // stay far below MaxRequestsIn: wait for the answers
				t0 := time.Now()
				for l.rxPcs.Load() < sent && time.Since(t0) < 3*time.Second {
					time.Sleep(200 * time.Microsecond)
					s.mu.Lock()
					cl := l.closed
					s.mu.Unlock()
					if cl {
						return
					}
				}
			}
		}
	}
	l.idle(30*time.Millisecond, 500*time.Millisecond)
	l.hangup()
}

var panicSite = regexp.MustCompile(`(?m)^(github\.com/cenkalti/rain/v2/[^\s(]+(?:\([^)]*\))?[^\s(]*)\(`)

func crashInfo(stderr string) (string, string) {
	msg := ""
	for _, ln := range strings.Split(stderr, "\n") {
		if strings.HasPrefix(ln, "panic:") || strings.HasPrefix(ln, "fatal error:") {
			msg = ln
			break
		}
	}
	site := ""
	if m := panicSite.FindStringSubmatch(stderr); m != nil {
		site = strings.TrimPrefix(m[1], "github.com/cenkalti/rain/v2/")
	}
	return msg, site
}

// runScenario starts the child, runs the leechers, returns the events (Init first).
func runScenario(s *scen, self string) error {
	dir, err := os.MkdirTemp("/var/tmp", "c03seed")
	if err != nil {
		return err
	}
	defer os.RemoveAll(dir) // also after a crash or a kill of the child
	js, _ := json.Marshal(s.sc) // the recorded configuration (replay) does not contain the scratch directory
	withDir := s.sc
	withDir.Dir = dir
	jsDir, _ := json.Marshal(withDir)
	cmd := exec.Command(self, "seed", string(jsDir))
	stdin, _ := cmd.StdinPipe()
	s.childIn = stdin
	s.ack = make(chan string, 4)
	stdout, _ := cmd.StdoutPipe()
	var stderr bytes.Buffer
	cmd.Stderr = &stderr
	if err := cmd.Start(); err != nil {
		return err
	}
	exited := make(chan error, 1)
	ready := make(chan string, 1)
	go func() {
		br := bufio.NewReader(stdout)
		line, _ := br.ReadString('\n')
		ready <- line
		for {
			ln, err := br.ReadString('\n')
			if strings.HasPrefix(ln, "FAULTED") {
				select {
				case s.ack <- ln:
				default:
				}
			}
			if err != nil {
				break
			}
		}
		exited <- cmd.Wait()
	}()
	var line string
	select {
	case line = <-ready:
	case <-time.After(120 * time.Second):
		cmd.Process.Kill()
		return fmt.Errorf("scenario %d: child not ready in 120s: %s", s.id, stderr.String())
	}
	if !strings.HasPrefix(line, "READY ") {
		cmd.Process.Kill()
		<-exited
		return fmt.Errorf("scenario %d: child failed to start: %q %s", s.id, line, stderr.String())
	}
	var rd struct {
		Port   int    `json:"port"`
		Port2  int    `json:"port2"`
		Have   []int  `json:"have"`
		Status string `json:"status"`
	}
	if err := json.Unmarshal([]byte(line[6:]), &rd); err != nil {
		cmd.Process.Kill()
		return err
	}
	s.addr = fmt.Sprintf("127.0.0.1:%d", rd.Port)
	if s.sc.Twin {
		s.tor2 = buildTwin(&s.sc)
		s.addr2 = fmt.Sprintf("127.0.0.1:%d", rd.Port2)
	}
	heldList := heldPieces(s.tor, s.sc.Missing)
	s.held = map[int]bool{}
	for _, p := range heldList {
		s.held[p] = true
	}
	plens := make([]int, s.tor.NumPieces)
	for i := range plens {
		plens[i] = s.tor.PieceLenOf(i)
	}
	init := ev{"op": "Init", "kind": "wire", "scenario": s.id, "name": s.name, "np": s.tor.NumPieces, "plens": plens, "have": heldList,
		"maxblk": maxBlk, "maxq": s.sc.MaxReqIn, "cb": int(s.sc.CB), "nconn": s.maxConn, "layout": s.tor.Name, "style": s.style,
		"cachesize": int(s.sc.CacheSize), "ttlms": s.sc.TTLms, "nleech": s.nleech, "rainhave": rd.Have, "unit": s.sc.Unit,
		"cfg": string(js), "seed": int(s.seed), "drvseed": int(s.drvSeed), "reqs": s.nreq0}
	if s.fault != nil {
		init["fault"] = s.fault.desc()
	}
	if s.grow != nil {
		init["feed"], init["never"], init["feeder"], init["late"], init["fsets"] = s.grow.feed, s.grow.never, s.grow.feeder, s.grow.late, s.grow.fsets
	}
	s.events = append(s.events, init)
	// watchdog for the child: a crash ends the scenario
	var crashOnce sync.Once
	childDone := make(chan struct{})
	go func() {
		err := <-exited
		crashOnce.Do(func() {
			if err != nil && !s.crashed.Load() {
				s.crashed.Store(true)
				msg, site := crashInfo(stderr.String())
				s.mu.Lock()
				s.emit(ev{"op": "Crash", "msg": msg, "site": site, "exit": err.Error()})
				s.mu.Unlock()
			}
		})
		close(childDone)
	}()
	var wg sync.WaitGroup
	for k := 0; k < s.nleech; k++ {
		l := &leecher{s: s, idx: k, rng: rand.New(rand.NewSource(s.seed*131 + int64(k))), fast: s.fastOf[k], ext: s.extOf[k], tor: s.tor, addr: s.addr}
		if s.tor2 != nil && k%2 == 1 {
			l.tor, l.addr = s.tor2, s.addr2
		}
		wg.Add(1)
		go l.run(&wg)
	}
	fin := make(chan struct{})
	go func() { wg.Wait(); close(fin) }()
	select {
	case <-fin:
	case <-time.After(300 * time.Second):
		cmd.Process.Kill()
		<-childDone
		return fmt.Errorf("scenario %d (%s): leechers did not finish in 300 s", s.id, s.name)
	}
	crashedBefore := s.crashed.Load()
	if !crashedBefore {
		s.crashed.Store(true) // a non-zero exit from here on is our own kill, not a crash
	}
	stdin.Close()
	select {
	case <-childDone:
	case <-time.After(5 * time.Second):
		cmd.Process.Kill()
		<-childDone
	}
	return nil
}

// ---- scenario families

var cbs = []int64{4096, 5000, 16384, 131072}

func makeScenario(id int, seed int64, nreq int) *scen {
	rng := rand.New(rand.NewSource(seed*7919 + int64(id)))
	styles := []string{"mixed", "evict", "choked", "flip", "flood", "partial", "nocache1", "mixed2", "nocache2", "uninterested", "keysweep"}
	style := styles[id%len(styles)]
	cb := cbs[(id/len(styles)+id)%len(cbs)]
	unit := 16384
	switch {
	case cb == 131072:
		unit = []int{131072, 98304}[rng.Intn(2)]
	case rng.Intn(3) == 0:
		unit = []int{10000, 20000, 8192}[rng.Intn(3)]
	}
	nl := len(layouts(unit))
	sc := SeedCfg{Layout: rng.Intn(nl), Unit: unit, TorSeed: seed*100 + int64(id), CB: cb, CacheSize: 64 << 20, TTLms: 60000, Parallel: 1,
		MaxReqIn: 250, Unchoked: 3, Optimistic: 1, AFSet: 10}
	s := &scen{id: id, sc: sc, style: style, nleech: 1, nreq: nreq, maxConn: 48, seed: seed*1000 + int64(id), stats: map[string]int{},
		drvSeed: seed, nreq0: nreq}
	if id >= contendFirstID {
		style = "contend"
		makeContend(s, rng)
	} else if id >= faultFirstID {
		style = "fault"
		makeFault(s, rng)
	} else if id >= growFirstID {
		style = "grow"
		makeGrow(s, rng)
	}
	tor := buildTorrent(&s.sc)
	if style == "partial" || style == "choked" {
		// a partial seed needs pieces to miss, a choked peer needs pieces outside its allowed-fast set
		for tor.NumPieces < 3 {
			s.sc.Layout = rng.Intn(nl)
			tor = buildTorrent(&s.sc)
		}
	}
	switch style {
	case "mixed":
		s.sc.CacheSize = []int64{64 << 20, 3 * cb, cb, 16 * cb}[rng.Intn(4)]
	case "mixed2":
		s.nleech = 2 + rng.Intn(2)
		s.sc.Parallel = uint(1 + rng.Intn(3))
		s.sc.CacheSize = []int64{64 << 20, 2 * cb, 4 * cb}[rng.Intn(3)]
		s.sc.TTLms = []int{60000, 50, 200}[rng.Intn(3)]
	case "evict":
		s.sc.CacheSize = []int64{cb, 2 * cb, cb + cb/2}[rng.Intn(3)]
		s.sc.TTLms = []int{50, 80, 1000}[rng.Intn(3)]
		s.nleech = 1 + rng.Intn(2)
	case "choked":
		s.sc.Unchoked, s.sc.Optimistic = 0, 0
		s.sc.AFSet = 1 + rng.Intn(2)
		s.nleech = 2
	case "flip":
		s.sc.Unchoked, s.sc.Optimistic = 1, rng.Intn(2)
		s.sc.TickMs = 15 + rng.Intn(40)
		s.sc.AFSet = rng.Intn(3)
		s.nleech = 3
		s.sc.MaxReqIn = []int{250, 8}[rng.Intn(2)]
		s.sc.ReadDelayUs = 150 + rng.Intn(350) // requests wait in the writer's queue when the choke comes
		s.sc.TickMs = 8 + rng.Intn(25)
		s.nreq = nreq * 3
		if rng.Intn(3) == 0 {
			// a slow uplink keeps accepted requests waiting in the writer's queue when the choke comes (the token
			// bucket starts full: one second's worth goes out at once, then every piece message waits for its tokens)
			s.sc.UploadKBps = []int64{64, 128, 256}[rng.Intn(3)]
			s.sc.MaxReqIn = 6 + rng.Intn(6)
		}
	case "flood":
		s.sc.MaxReqIn = 1 + rng.Intn(6)
		s.sc.ReadDelayUs = []int{0, 100, 500}[rng.Intn(3)]
	case "partial":
		k := 1 + rng.Intn(max(1, tor.NumPieces-1))
		perm := rng.Perm(tor.NumPieces)
		s.sc.Missing = append([]int{}, perm[:k]...)
		if len(heldPieces(tor, s.sc.Missing)) == 0 {
			s.sc.Missing = s.sc.Missing[1:]
		}
		s.nleech = 1 + rng.Intn(2)
	case "nocache1":
		s.sc.CacheSize = []int64{0, cb - 1, cb / 2}[rng.Intn(3)]
	case "nocache2":
		s.sc.CacheSize = []int64{0, cb - 1, 1}[rng.Intn(3)]
		s.nleech = 3
		s.sc.ReadDelayUs = 300
		s.sc.Parallel = 1
	case "uninterested":
		s.sc.Unchoked = 1 + rng.Intn(2)
		s.nleech = 2
	case "keysweep":
		// many pieces x many cache blocks per piece, everything stays cached: the key space of the read cache.
		// A twin torrent (other content, same indexes) shares the cache: the key must contain the torrent's peer id.
		s.sc.CB = 4096
		cb = 4096
		s.sc.SweepPieces = 24 + rng.Intn(9)
		if os.Getenv("VERIF_TIER") == "quick" {
			s.sc.SweepPieces = 24
		}
		s.sc.SweepPLen = 65536
		s.sc.CacheSize = 256 << 20
		s.sc.TTLms = 600000
		s.sc.Twin = true
		s.nleech = 2
		s.sc.Unchoked, s.sc.Optimistic = 4, 1
	}
	s.tor = buildTorrent(&s.sc)
	for k := 0; k < s.nleech; k++ {
		s.fastOf = append(s.fastOf, rng.Intn(3) > 0)
		s.extOf = append(s.extOf, rng.Intn(4) == 0)
	}
	if style == "choked" {
		s.fastOf[0], s.fastOf[1] = true, false
	}
	if style == "grow" {
		s.fastOf[0] = true
	}
	if s.fault != nil {
		s.fault.plan(s, rng)
	}
	s.name = fmt.Sprintf("%s/cb%d/%s/cs%d/ttl%d", style, cb, s.tor.Name, s.sc.CacheSize, s.sc.TTLms)
	return s
}

func wireMain(args []string) {
	fs := flag.NewFlagSet("wire", flag.ExitOnError)
	seed := fs.Int64("seed", 1, "")
	n := fs.Int("n", 10, "scenarios")
	first := fs.Int("first", 0, "first scenario id")
	nreq := fs.Int("reqs", 300, "requests per leecher")
	par := fs.Int("par", 4, "scenarios in parallel")
	out := fs.String("out", "trace.ndjson", "")
	only := fs.String("style", "", "only scenarios of this style")
	fs.Parse(args)
	self, _ := os.Executable()
	var scens []*scen
	for id := *first; len(scens) < *n; id++ {
		s := makeScenario(id, *seed, *nreq)
		if *only != "" && s.style != *only {
			continue
		}
		scens = append(scens, s)
	}
	sem := make(chan struct{}, *par)
	var wg sync.WaitGroup
	errs := make([]error, len(scens))
	for k, s := range scens {
		wg.Add(1)
		sem <- struct{}{}
		go func(k int, s *scen) {
			defer wg.Done()
			defer func() { <-sem }()
			errs[k] = runScenario(s, self)
		}(k, s)
	}
	wg.Wait()
	f, err := os.Create(*out)
	if err != nil {
		panic(err)
	}
	w := bufio.NewWriterSize(f, 1<<20)
	for k, s := range scens {
		if errs[k] != nil {
			fmt.Fprintln(os.Stderr, "ERROR", errs[k])
			os.Exit(4)
		}
		for _, e := range s.events {
			b, _ := json.Marshal(e)
			w.Write(b)
			w.WriteByte('\n')
		}
		st, _ := json.Marshal(s.stats)
		fmt.Printf("scenario %d %s leechers=%d events=%d stats=%s\n", s.id, s.name, s.nleech, len(s.events), st)
	}
	w.Flush()
	f.Close()
}

// ---------------------------------------------------------------------------------------------------
// observation point 2: CachedPiece.ReadAt against the flat model

type memFile struct {
	b     []byte
	delay time.Duration
}

func (m *memFile) ReadAt(p []byte, off int64) (int, error) {
	if m.delay > 0 {
		time.Sleep(m.delay)
	}
	if off >= int64(len(m.b)) {
		return 0, io.EOF
	}
	n := copy(p, m.b[off:])
	if n < len(p) {
		return n, io.EOF
	}
	return n, nil
}

func (m *memFile) WriteAt(p []byte, off int64) (int, error) { return 0, io.ErrShortWrite }

type zeroFile struct{}

func (zeroFile) ReadAt(p []byte, off int64) (int, error) {
	for i := range p {
		p[i] = 0
	}
	return len(p), nil
}
func (zeroFile) WriteAt(p []byte, off int64) (int, error) { return len(p), nil }

// flatPiece builds a piece of plen bytes over 1..3 in-memory files (sections at non-zero file offsets,
// optionally one padding section) and returns it with its ground truth.
func flatPiece(rng *rand.Rand, plen int, delay time.Duration) (*piece.Piece, []byte) {
	truth := make([]byte, plen)
	for i := range truth {
		truth[i] = byte(1 + rng.Intn(255))
	}
	nsec := 1 + rng.Intn(3)
	if nsec > plen {
		nsec = plen
	}
	cuts := []int{0, plen}
	for len(cuts) < nsec+1 {
		c := 1 + rng.Intn(plen-1)
		dup := false
		for _, x := range cuts {
			if x == c {
				dup = true
			}
		}
		if !dup {
			cuts = append(cuts, c)
		}
	}
	for i := range cuts {
		for j := i + 1; j < len(cuts); j++ {
			if cuts[j] < cuts[i] {
				cuts[i], cuts[j] = cuts[j], cuts[i]
			}
		}
	}
	var secs filesection.Piece
	padAt := -1
	if nsec >= 2 && rng.Intn(3) == 0 {
		padAt = 1 + rng.Intn(nsec-1)
	}
	for k := 0; k < nsec; k++ {
		lo, hi := cuts[k], cuts[k+1]
		if k == padAt {
			for j := lo; j < hi; j++ {
				truth[j] = 0
			}
			secs = append(secs, filesection.FileSection{File: zeroFile{}, Offset: 0, Length: int64(hi - lo), Name: "pad", Padding: true})
			continue
		}
		pre := rng.Intn(4)
		fb := make([]byte, pre+hi-lo+rng.Intn(3))
		for j := range fb {
			fb[j] = 0xEE
		}
		copy(fb[pre:], truth[lo:hi])
		secs = append(secs, filesection.FileSection{File: &memFile{b: fb, delay: delay}, Offset: int64(pre), Length: int64(hi - lo), Name: fmt.Sprintf("f%d", k)})
	}
	return &piece.Piece{Index: uint32(rng.Intn(5)), Length: uint32(plen), Data: secs, Done: true}, truth
}

func readOnce(cp *cachedpiece.CachedPiece, truth []byte, off, ln int) (n int, errc int, class string) {
	buf := make([]byte, ln)
	for i := range buf {
		buf[i] = 0x77 // stale bytes of the writer's reused buffer
	}
	defer func() {
		if r := recover(); r != nil {
			n, errc, class = 0, 2, "bad"
		}
	}()
	n, err := cp.ReadAt(buf, int64(off))
	if err != nil {
		errc = 1
	}
	// class judges the n bytes that were returned; n == len is a separate clause of the obligation
	class = "good"
	if n < 0 || n > ln || off+n > len(truth) || !bytes.Equal(buf[:n], truth[off:off+n]) {
		class = "bad"
	}
	return
}

func readatMain(args []string) {
	fs := flag.NewFlagSet("readat", flag.ExitOnError)
	seed := fs.Int64("seed", 1, "")
	budget := fs.Int("budget", 6000, "approximate number of reads")
	out := fs.String("out", "trace.ndjson", "")
	fs.Parse(args)
	rng := rand.New(rand.NewSource(*seed))
	f, err := os.Create(*out)
	if err != nil {
		panic(err)
	}
	w := bufio.NewWriterSize(f, 1<<20)
	emit := func(e ev) {
		b, _ := json.Marshal(e)
		w.Write(b)
		w.WriteByte('\n')
	}
	total := 0
	type conf struct{ cb, plen int }
	var confs []conf
	for _, cb := range []int{1, 2, 3, 4, 5, 7, 8} {
		for _, plen := range []int{1, cb, cb + 1, 2 * cb, 2*cb + 1, 3*cb - 1, 3 * cb} {
			confs = append(confs, conf{cb, plen})
		}
	}
	rng.Shuffle(len(confs), func(i, j int) { confs[i], confs[j] = confs[j], confs[i] })
	big := []conf{{16384, 32768}, {4096, 32768 + 7}, {5000, 20000}, {131072, 262144 + 100}, {16384, 16384 + 1}}
	run := func(c conf, exhaustive bool, id int) {
		cs := []int64{0, int64(c.cb) - 1, int64(c.cb), 2 * int64(c.cb), 1 << 30}[rng.Intn(5)]
		ttl := []time.Duration{time.Minute, 2 * time.Millisecond}[rng.Intn(2)]
		cache := piececache.New(cs, ttl, 1)
		pi, truth := flatPiece(rng, c.plen, 0)
		var pid [20]byte
		pid[0] = byte(id)
		cp := cachedpiece.New(pi, cache, int64(c.cb), pid)
		emit(ev{"op": "Init", "kind": "readat", "np": 1, "plens": []int{c.plen}, "have": []int{0}, "maxblk": maxBlk, "maxq": 0, "cb": c.cb,
			"nconn": 0, "cachesize": int(min(cs, 1<<30)), "ttlms": int(ttl / time.Millisecond), "sections": len(pi.Data)})
		type q struct{ off, ln int }
		var qs []q
		if exhaustive {
			for off := 0; off < c.plen; off++ {
				for ln := 1; off+ln <= c.plen; ln++ {
					qs = append(qs, q{off, ln})
				}
			}
		} else {
			g := &reqGen{cb: c.cb, rng: rng, edges: [][]int{{}}}
			pos := 0
			for _, s := range pi.Data {
				pos += int(s.Length)
				g.edges[0] = append(g.edges[0], pos%c.plen)
			}
			g.tor = &vh.Torrent{Layout: vh.Layout{PieceLen: c.plen}, Total: int64(c.plen), NumPieces: 1}
			for k := 0; k < 150; k++ {
				b, l := g.validIn(0)
				qs = append(qs, q{int(b), int(l)})
			}
		}
		rng.Shuffle(len(qs), func(i, j int) { qs[i], qs[j] = qs[j], qs[i] })
		for _, x := range qs {
			n, errc, class := readOnce(cp, truth, x.off, x.ln)
			emit(ev{"op": "ReadAt", "plen": c.plen, "cb": c.cb, "off": x.off, "len": x.ln, "n": n, "err": errc, "class": class})
			total++
			if ttl < time.Second && rng.Intn(40) == 0 {
				time.Sleep(3 * time.Millisecond)
			}
		}
		if ttl >= time.Second {
			// With a short TTL an expiry callback that has already fired races with Clear() (Clear leaves
			// item.index >= 0, the callback then runs heap.Remove on the emptied list and panics):
			// a shutdown defect of piececache outside C03; do not trigger it in the driver's own process.
			cache.Close()
		}
	}
	// key space of the cache: many pieces (index up to 35) x many blocks (up to 18) x two peer ids, ONE cache that
	// holds everything; pass 1 in order (cold), pass 2 shuffled (warm). A colliding key returns another pair's bytes.
	nshared := 0 // not counted against the budget of the per-configuration sweeps
	shared := func(cb, np, nblk int) {
		cache := piececache.New(1<<30, 10*time.Minute, 1)
		plen := nblk*cb - cb/2
		emit(ev{"op": "Init", "kind": "readat", "sub": "sharedcache", "np": 1, "plens": []int{plen}, "have": []int{0}, "maxblk": maxBlk, "maxq": 0, "cb": cb,
			"nconn": 0, "cachesize": 1 << 30, "ttlms": 600000, "pieces": np, "blocks": nblk, "peerids": 2})
		type obj struct {
			cp    *cachedpiece.CachedPiece
			truth []byte
			p, id int
		}
		var objs []obj
		for idn := 0; idn < 2; idn++ {
			var pid [20]byte
			copy(pid[:], fmt.Sprintf("-VH0001-peer-id-%04d", idn))
			for p := 0; p < np; p++ {
				pi, truth := flatPiece(rng, plen, 0)
				pi.Index = uint32(p)
				objs = append(objs, obj{cachedpiece.New(pi, cache, int64(cb), pid), truth, p, idn})
			}
		}
		type q struct{ o, blk int }
		var qs []q
		for o := range objs {
			for blk := 0; blk*cb < plen; blk++ {
				qs = append(qs, q{o, blk})
			}
		}
		for pass := 0; pass < 2; pass++ {
			if pass == 1 {
				rng.Shuffle(len(qs), func(i, j int) { qs[i], qs[j] = qs[j], qs[i] })
			}
			for _, x := range qs {
				o := objs[x.o]
				off := x.blk*cb + rng.Intn(2)
				ln := min(2+pass, plen-off)
				n, errc, class := readOnce(o.cp, o.truth, off, ln)
				emit(ev{"op": "ReadAt", "plen": plen, "cb": cb, "off": off, "len": ln, "n": n, "err": errc, "class": class, "p": o.p, "blk": x.blk, "pid": o.id, "pass": pass})
				nshared++
			}
		}
		cache.Close()
	}
	shared(8, 36, 18)
	id := 0
	for _, c := range big {
		run(c, false, id)
		id++
	}
	for total < *budget {
		for _, c := range confs {
			run(c, true, id)
			id++
			if total >= *budget {
				break
			}
		}
	}
	w.Flush()
	f.Close()
	fmt.Printf("readat traces=%d reads=%d sharedcache_reads=%d\n", id, total, nshared)
}

// ---- concurrent readers of one cache (child process: a panic in a reader goroutine cannot be recovered elsewhere)

type CacheCfg struct {
	CB        int   `json:"cb"`
	PLen      int   `json:"plen"`
	CacheSize int64 `json:"cachesize"`
	TTLus     int   `json:"ttlus"`
	Readers   int   `json:"readers"`
	Parallel  uint  `json:"parallel"`
	DelayUs   int   `json:"delayus"`
	Ms        int   `json:"ms"`
	Seed      int64 `json:"seed"`
}

func cacheChild(js string) {
	var cc CacheCfg
	json.Unmarshal([]byte(js), &cc)
	rng := rand.New(rand.NewSource(cc.Seed))
	cache := piececache.New(cc.CacheSize, time.Duration(cc.TTLus)*time.Microsecond, cc.Parallel)
	pi, truth := flatPiece(rng, cc.PLen, time.Duration(cc.DelayUs)*time.Microsecond)
	var pid [20]byte
	var wg sync.WaitGroup
	var mu sync.Mutex
	w := bufio.NewWriter(os.Stdout)
	deadline := time.Now().Add(time.Duration(cc.Ms) * time.Millisecond)
	nb := (cc.PLen + cc.CB - 1) / cc.CB
	var reads atomic.Int64
	for r := 0; r < cc.Readers; r++ {
		wg.Add(1)
		go func(r int) {
			defer wg.Done()
			lr := rand.New(rand.NewSource(cc.Seed*100 + int64(r)))
			cp := cachedpiece.New(pi, cache, int64(cc.CB), pid)
			for time.Now().Before(deadline) {
				blk := lr.Intn(nb)
				off := blk*cc.CB + lr.Intn(min(cc.CB, cc.PLen-blk*cc.CB))
				ln := 1 + lr.Intn(min(cc.CB-off%cc.CB, cc.PLen-off)) // stays inside one cache block
				buf := make([]byte, ln)
				n, err := cp.ReadAt(buf, int64(off))
				reads.Add(1)
				errc, class := 0, "good"
				if err != nil {
					errc = 1
				}
				if !bytes.Equal(buf, truth[off:off+ln]) {
					class = "bad"
				}
				if errc != 0 || n != ln || class != "good" {
					b, _ := json.Marshal(ev{"op": "ReadAt", "plen": cc.PLen, "cb": cc.CB, "off": off, "len": ln, "n": n, "err": errc, "class": class})
					mu.Lock()
					w.Write(b)
					w.WriteByte('\n')
					mu.Unlock()
				}
			}
		}(r)
	}
	wg.Wait()
	b, _ := json.Marshal(ev{"op": "Other", "kind": "cache-readers-done", "reads": int(reads.Load())})
	w.Write(b)
	w.WriteByte('\n')
	w.Flush()
	os.Exit(0)
}

func cacheMain(args []string) {
	fs := flag.NewFlagSet("cache", flag.ExitOnError)
	seed := fs.Int64("seed", 1, "")
	n := fs.Int("n", 6, "configurations")
	ms := fs.Int("ms", 150, "")
	out := fs.String("out", "trace.ndjson", "")
	fs.Parse(args)
	self, _ := os.Executable()
	rng := rand.New(rand.NewSource(*seed))
	f, err := os.Create(*out)
	if err != nil {
		panic(err)
	}
	w := bufio.NewWriter(f)
	emit := func(e ev) {
		b, _ := json.Marshal(e)
		w.Write(b)
		w.WriteByte('\n')
	}
	extra := 0
	if r3on {
		extra = max(2, *n/3)
	}
	for k := 0; k < *n+extra; k++ {
		cb := []int{8, 64, 4096}[rng.Intn(3)]
		cc := CacheCfg{CB: cb, PLen: cb*3 + rng.Intn(cb), Readers: 2 + rng.Intn(6), Parallel: uint(1 + rng.Intn(2)), DelayUs: []int{0, 50, 300}[rng.Intn(3)],
			Ms: *ms, Seed: *seed*1000 + int64(k)}
		switch k % 3 {
		case 0: // cache smaller than one block ("disabled" cache)
			cc.CacheSize = []int64{0, int64(cb) - 1, 1}[rng.Intn(3)]
			cc.TTLus = 60e6
			cc.DelayUs = 300
		case 1: // eviction pressure
			cc.CacheSize = int64(cb) * int64(1+rng.Intn(2))
			cc.TTLus = 60e6
		case 2: // expiry pressure
			cc.CacheSize = 1 << 20
			cc.TTLus = 200 + rng.Intn(2000)
		}
		if k >= *n {
			// round 3: many writers share a cache that is smaller than their working set (8-12 readers over 8-16 blocks, room
			// for 2-3): every load evicts an entry that another reader may just have been handed
			cb = []int{64, 4096, 16384}[rng.Intn(3)]
			cc.CB = cb
			cc.PLen = cb*(8+rng.Intn(9)) - rng.Intn(cb)
			cc.Readers = 8 + rng.Intn(5)
			cc.Parallel = uint(1 + rng.Intn(4))
			cc.DelayUs = []int{0, 0, 20}[rng.Intn(3)]
			cc.CacheSize = int64(cb) * int64(2+rng.Intn(2))
			cc.TTLus = []int{60e6, 3000}[rng.Intn(2)]
		}
		js, _ := json.Marshal(cc)
		emit(ev{"op": "Init", "kind": "cache", "np": 1, "plens": []int{cc.PLen}, "have": []int{0}, "maxblk": maxBlk, "maxq": 0, "cb": cc.CB, "nconn": 0,
			"cachesize": int(cc.CacheSize), "ttlms": cc.TTLus / 1000, "cfg": string(js), "readers": cc.Readers})
		cmd := exec.Command(self, "cachechild", string(js))
		var so, se bytes.Buffer
		cmd.Stdout, cmd.Stderr = &so, &se
		done := make(chan error, 1)
		if err := cmd.Start(); err != nil {
			panic(err)
		}
		go func() { done <- cmd.Wait() }()
		var werr error
		select {
		case werr = <-done:
		case <-time.After(time.Duration(*ms)*time.Millisecond + 20*time.Second):
			cmd.Process.Kill()
			<-done
			fmt.Fprintln(os.Stderr, "ERROR cache child hung:", string(js))
			os.Exit(4)
		}
		for _, ln := range strings.Split(so.String(), "\n") {
			if strings.HasPrefix(ln, "{") {
				w.WriteString(ln)
				w.WriteByte('\n')
			}
		}
		if werr != nil {
			msg, site := crashInfo(se.String())
			emit(ev{"op": "Crash", "msg": msg, "site": site, "exit": werr.Error()})
		}
		fmt.Printf("cache cfg=%s exit=%v\n", js, werr)
	}
	w.Flush()
	f.Close()
}

func main() {
	if len(os.Args) < 2 {
		fmt.Fprintln(os.Stderr, "usage: c03 wire|readat|cache|seed|cachechild ...")
		os.Exit(2)
	}
	switch os.Args[1] {
	case "seed":
		seedMain(os.Args[2])
	case "cachechild":
		cacheChild(os.Args[2])
	case "wire":
		wireMain(os.Args[2:])
	case "readat":
		readatMain(os.Args[2:])
	case "cache":
		cacheMain(os.Args[2:])
	default:
		fmt.Fprintln(os.Stderr, "unknown sub-command", os.Args[1])
		os.Exit(2)
	}
}
