package main

// End-to-end family of X04: a real torrent.Session leeches from ONE scripted peer (harness/vh wire codec). The peer sends
// one stimulus at a time (piece / reject / choke / unchoke) and then a BARRIER: a request for a piece that rain can never
// complete (nobody offers it), which rain answers with a reject through the same FIFO write queue as its own requests.
// When the echo arrives the peer has received every message rain sent in reaction to the stimulus: the peer's view of the
// connection is exact at every barrier, and the recorded wire history (Trace_PieceDlWire.tla judges) is in rain's own
// processing order - no timing assumptions.
//
// One trace per piece download: "Init" (new piece: first request for it), rxreq / rxcancel, txpiece / txreject / txchoke /
// txunchoke, bar (barrier reached), end (complete?).

import (
	"bufio"
	"bytes"
	"encoding/json"
	"fmt"
	"math/rand"
	"os"
	"time"

	"github.com/cenkalti/rain/v2/internal/verif/vh"
	"github.com/cenkalti/rain/v2/torrent"
)

type e2e struct {
	rng  *rand.Rand
	w    *bufio.Writer
	hub  *vh.SnapHub
	T    *vh.Tracer
	dir  string
	nev  int
	ntr  int
	pre  []ev // events of a scenario before its first request (written after the Init line)
	hold bool
	mach []string // machinery problems (not verdicts)
}

type scn struct {
	id       int
	cls      string // honest | plain (honest, no late blocks) | sloppy | hostile | latechoke | cancel | afstall
	fast     bool
	af       bool // the offered pieces are in the allowed-fast set
	startChk bool // never unchoke at the start (allowed-fast only)
	q        int
	reqq     bool // q announced as reqq in the extension handshake (otherwise Config.DefaultRequestsOut)
	plen     int
	total    int
	steps    int
}

type peerSt struct {
	e      *e2e
	sc     scn
	c      *vh.Conn
	tor    *vh.Torrent
	resv   int // reserved piece: offered by nobody, used for the barrier echo
	offer  map[int]bool
	cur    int // piece of the current download, -1 = none
	out    map[int]int
	late   map[int]bool
	have   map[int]bool
	donep  map[int]bool
	chokd  bool
	closed bool
	first  bool
	nreq   int
	tid    string
}

func (e *e2e) write(x ev) {
	for _, k := range []string{"i", "b", "n"} {
		if _, ok := x[k]; !ok {
			x[k] = 0
		}
	}
	if _, ok := x["complete"]; !ok {
		x["complete"] = false
	}
	if e.hold && x["op"] != "Init" {
		e.pre = append(e.pre, x)
		return
	}
	b, _ := json.Marshal(x)
	e.w.Write(b)
	e.w.WriteByte('\n')
	e.nev++
}

func (p *peerSt) blocks(i int) []blk {
	bt, _ := blockTable([]sec{{p.tor.PieceLenOf(i), false}})
	return bt
}

func (p *peerSt) idOf(i, b, n int) int {
	if i != p.cur {
		return -1
	}
	for k, x := range p.blocks(i) {
		if x.b == b && x.n == n {
			return k
		}
	}
	return -1
}

// newPiece starts the trace of the download of piece i (first request for it).
func (p *peerSt) newPiece(i int) {
	p.cur = i
	p.out, p.late, p.have = map[int]int{}, map[int]bool{}, map[int]bool{}
	plen := p.tor.PieceLenOf(i)
	bt := [][2]int{}
	for _, x := range p.blocks(i) {
		bt = append(bt, [2]int{x.b, x.n})
	}
	p.e.ntr++
	// the first trace of a scenario starts with the state at the connection's start (choked); what happened before the
	// first request follows the Init line
	p.e.write(ev{"op": "Init", "idx": i, "bs": BS, "secs": []sec{{plen, false}}, "fast": p.sc.fast, "af": p.sc.af,
		"chokd": p.chokd || p.first, "bt": bt, "q": p.sc.q, "cls": p.sc.cls, "plen": plen, "first": p.first, "scn": p.sc.id,
		"reqq": p.sc.reqq})
	p.first = false
	p.e.hold = false
	pre := p.e.pre
	p.e.pre = nil
	for _, x := range pre {
		p.e.write(x)
	}
}

func (p *peerSt) onRx(m vh.Msg) {
	switch m.ID {
	case vh.MsgRequest:
		i := int(m.Index)
		if i != p.cur && (p.cur < 0 || p.donep[p.cur]) {
			p.newPiece(i)
		}
		p.e.write(ev{"op": "rxreq", "i": i, "b": int(m.Begin), "n": int(m.Length)})
		p.nreq++
		if id := p.idOf(i, int(m.Begin), int(m.Length)); id >= 0 {
			p.out[id]++
			delete(p.late, id)
		}
	case vh.MsgCancel:
		p.e.write(ev{"op": "rxcancel", "i": int(m.Index), "b": int(m.Begin), "n": int(m.Length)})
		if id := p.idOf(int(m.Index), int(m.Begin), int(m.Length)); id >= 0 && p.out[id] > 0 {
			p.out[id]--
		}
	}
}

// barrier: everything rain sent in reaction to what we sent so far has been received when the echo arrives.
func (p *peerSt) barrier() bool {
	if p.closed {
		return false
	}
	rq := vh.Msg{ID: vh.MsgRequest, Index: uint32(p.resv), Begin: 0, Length: uint32(min(BS, p.tor.PieceLenOf(p.resv)))}
	if err := p.c.Send(rq); err != nil {
		p.closed = true
		p.e.write(ev{"op": "closed"})
		return false
	}
	deadline := time.Now().Add(20 * time.Second)
	for {
		m, err := p.c.Recv(time.Until(deadline))
		if err != nil {
			p.closed = true
			if time.Now().After(deadline) {
				p.e.mach = append(p.e.mach, fmt.Sprintf("scenario %d: no barrier echo within 20 s", p.sc.id))
			}
			p.e.write(ev{"op": "closed"})
			return false
		}
		if m.ID == vh.MsgReject && int(m.Index) == p.resv {
			p.e.write(ev{"op": "bar"})
			return true
		}
		p.onRx(m)
	}
}

func (p *peerSt) send(m vh.Msg) {
	if p.closed {
		return
	}
	if err := p.c.Send(m); err != nil {
		p.closed = true
	}
}

func (p *peerSt) txPiece(id int) {
	x := p.blocks(p.cur)[id]
	pd := p.tor.PieceData(p.cur)
	p.e.write(ev{"op": "txpiece", "i": p.cur, "b": x.b, "n": x.n})
	p.send(vh.Msg{ID: vh.MsgPiece, Index: uint32(p.cur), Begin: uint32(x.b), Data: append([]byte(nil), pd[x.b:x.b+x.n]...)})
	if p.out[id] > 0 {
		p.out[id]--
	}
	delete(p.late, id)
	p.have[id] = true
	if len(p.have) == len(p.blocks(p.cur)) {
		p.donep[p.cur] = true
	}
	p.barrier()
}

func (p *peerSt) txReject(id int) {
	x := p.blocks(p.cur)[id]
	p.e.write(ev{"op": "txreject", "i": p.cur, "b": x.b, "n": x.n})
	p.send(vh.Msg{ID: vh.MsgReject, Index: uint32(p.cur), Begin: uint32(x.b), Length: uint32(x.n)})
	if p.out[id] > 0 {
		p.out[id]--
	}
	p.barrier()
}

func (p *peerSt) txChoke() {
	p.e.write(ev{"op": "txchoke"})
	p.send(vh.Msg{ID: vh.MsgChoke})
	p.chokd = true
	if !p.sc.fast && !p.sc.af {
		for id, c := range p.out {
			if c > 0 {
				p.late[id] = true
			}
			delete(p.out, id)
		}
	}
	p.barrier()
}

func (p *peerSt) txUnchoke() {
	p.e.write(ev{"op": "txunchoke"})
	p.send(vh.Msg{ID: vh.MsgUnchoke})
	p.chokd = false
	p.barrier()
}

func (p *peerSt) allDone() bool {
	for i := range p.offer {
		if !p.donep[i] {
			return false
		}
	}
	return true
}

func (p *peerSt) pick(a []int) (int, bool) {
	if len(a) == 0 {
		return 0, false
	}
	return a[p.e.rng.Intn(len(a))], true
}

func (p *peerSt) step() {
	rng := p.e.rng
	if p.cur < 0 || p.donep[p.cur] {
		// no download running (choked without allowed-fast pieces, or between pieces)
		if p.chokd {
			p.txUnchoke()
		} else {
			p.barrier()
		}
		return
	}
	outs := keys(p.out)
	d := rng.Intn(100)
	switch {
	case d < 45:
		if id, ok := p.pick(outs); ok {
			p.txPiece(id)
		}
	case d < 57:
		if !p.chokd {
			p.txChoke()
			if p.sc.fast && !p.sc.af && p.sc.cls == "honest" {
				for _, id := range keys(p.out) { // BEP 6: reject or serve every outstanding request
					if p.closed {
						return
					}
					if rng.Intn(4) == 0 {
						p.txPiece(id)
					} else {
						p.txReject(id)
					}
				}
			}
		}
	case d < 70:
		if p.chokd {
			p.txUnchoke()
		}
	case d < 80:
		if id, ok := p.pick(keysB(p.late)); ok && p.sc.cls != "plain" {
			p.txPiece(id)
		}
	case d < 86:
		if p.sc.fast && !p.sc.af {
			if id, ok := p.pick(outs); ok && (p.sc.cls != "honest" || p.chokd) {
				p.txReject(id)
			}
		}
	default:
		if p.sc.cls == "honest" || p.sc.cls == "plain" {
			return
		}
		nb := len(p.blocks(p.cur))
		switch e := rng.Intn(10); {
		case e < 4:
			p.txPiece(rng.Intn(nb)) // any block: outstanding, stored (duplicate) or never requested
		case e < 7:
			if id, ok := p.pick(keysB(p.have)); ok {
				p.txPiece(id)
			}
		default:
			if p.sc.cls == "hostile" && p.sc.fast {
				p.txReject(rng.Intn(nb))
			}
		}
	}
}

// finish: an honest peer from here on - unchoke, answer every request - until the offered pieces are complete.
func (p *peerSt) finish() {
	idle := 0
	for guard := 0; guard < 400 && !p.closed && !p.allDone(); guard++ {
		if p.chokd {
			p.txUnchoke()
			continue
		}
		if p.cur >= 0 && !p.donep[p.cur] {
			if id, ok := p.pick(keys(p.out)); ok {
				idle = 0
				p.txPiece(id)
				continue
			}
		}
		// nothing to answer: give rain time (a new download starts at once after a piece; a stall shows here).
		// A peer that has rejected requests while it was not choking gets the loop going again with a choke / unchoke
		// (a reject alone does not make the loop ask again, MC_PieceDl_rejstall.cfg; X04.g is conditional on the peer
		// answering).
		idle++
		if idle > 6 {
			break
		}
		if idle == 2 || idle == 4 {
			p.txChoke()
			p.txUnchoke()
			continue
		}
		time.Sleep(time.Duration(100*idle) * time.Millisecond)
		p.barrier()
	}
}

// lateChoke: a peer without fast extension that chokes whenever requests are outstanding, still delivers some of them
// (blocks that were in flight when it choked - the case the piece-message handler's own comment expects), and unchokes.
func (p *peerSt) lateChoke(rounds int) {
	rng := p.e.rng
	for k := 0; k < rounds && !p.closed && !p.allDone(); k++ {
		if p.cur < 0 || p.donep[p.cur] {
			if p.chokd {
				p.txUnchoke()
			} else {
				p.barrier()
			}
			continue
		}
		if !p.chokd {
			if len(keys(p.out)) == 0 {
				return // nothing outstanding although unchoked: finish() shows the stall
			}
			if rng.Intn(4) == 0 {
				id, _ := p.pick(keys(p.out))
				p.txPiece(id)
				continue
			}
			p.txChoke()
			late := keysB(p.late)
			rng.Shuffle(len(late), func(i, j int) { late[i], late[j] = late[j], late[i] })
			for _, id := range late[:(len(late)+1)/2] {
				if p.cur >= 0 && !p.donep[p.cur] {
					p.txPiece(id)
				}
			}
			continue
		}
		p.txUnchoke()
	}
}

// cancelScn: the peer keeps requests unanswered until the request timeout marks it snubbed; a second, honest peer
// (vh.Seeder from 127.0.0.3) then gets the same piece, completes it, and rain must cancel exactly the requests that are
// outstanding here (closePieceDownloader ; CancelPending).
func (p *peerSt) cancelScn(addr string) {
	rng := p.e.rng
	if !p.sc.fast {
		p.lateChoke(rng.Intn(8))
	} else {
		for k := rng.Intn(6); k > 0 && !p.closed; k-- {
			p.step()
		}
	}
	if p.chokd {
		p.txUnchoke()
	}
	if p.closed || p.cur < 0 || p.donep[p.cur] || len(keys(p.out)) == 0 {
		return
	}
	held := p.cur
	sd, err := vh.ConnectSeeder(p.e.T, fmt.Sprintf("x04-b-%d", p.sc.id), "127.0.0.3", addr, p.tor,
		&vh.SeederPolicy{Have: func(i int) bool { return p.offer[i] }, NoFast: !p.sc.fast})
	if err != nil {
		p.e.mach = append(p.e.mach, "second peer: "+err.Error())
		return
	}
	defer sd.Close()
	for k := 0; k < 150 && !p.closed; k++ {
		time.Sleep(100 * time.Millisecond)
		p.barrier()
		if p.cur != held || len(keys(p.out)) == 0 {
			break
		}
	}
	if p.cur == held {
		p.donep[held] = true // completed by the other peer (or never, then `end` says so)
		p.e.write(ev{"op": "cancelbar"})
	}
	// let the second peer finish the rest
	p.e.hub.Wait(p.tid, 10*time.Second, func(s *torrent.VerifSnap) bool {
		n := 0
		for _, i := range s.Have {
			if p.offer[i] {
				n++
			}
		}
		return n == len(p.offer)
	})
	for i := range p.offer {
		p.donep[i] = true
	}
	p.barrier()
}

func (p *peerSt) afStall() {
	// allowed-fast download: reject every request (BEP 6 allows that), then unchoke and serve honestly
	for k := 0; k < 3 && !p.closed; k++ {
		for _, id := range keys(p.out) {
			p.txReject(id)
		}
	}
	p.txUnchoke()
}

func (e *e2e) run(sc scn) {
	lay := vh.Layout{Name: fmt.Sprintf("x04-%d", sc.id), PieceLen: sc.plen, Files: []vh.FileSpec{{Length: int64(sc.total)}}}
	tor := vh.Build(lay, int64(sc.id)+7, nil, nil)
	cfg, err := vh.BaseConfig(e.dir, 20)
	if err != nil {
		e.mach = append(e.mach, err.Error())
		return
	}
	prov := vh.NewMemProvider(e.T)
	prov.Truth[""] = tor
	prov.Quiet = true
	cfg.CustomStorage = prov
	cfg.RequestTimeout = 30 * time.Second // no snub during a scenario (a snub changes nothing for a single peer anyway)
	if sc.cls == "cancel" {
		cfg.RequestTimeout = 400 * time.Millisecond // the silent peer is snubbed; the piece goes to the second peer as well
	}
	if !sc.reqq {
		cfg.DefaultRequestsOut = sc.q
	}
	os.Remove(cfg.Database)
	s, err := torrent.NewSession(cfg)
	if err != nil {
		e.mach = append(e.mach, err.Error())
		return
	}
	defer s.Close()
	tr, err := s.AddTorrent(bytes.NewReader(tor.Bytes), nil)
	if err != nil {
		e.mach = append(e.mach, err.Error())
		return
	}
	if !e.hub.Wait(tr.ID(), 10*time.Second, func(s *torrent.VerifSnap) bool { return s.Acceptor && s.Status == "Downloading" }) {
		e.mach = append(e.mach, fmt.Sprintf("scenario %d: torrent not downloading", sc.id))
		return
	}
	nc, err := vh.DialFrom("127.0.0.2", fmt.Sprintf("127.0.0.1:%d", tr.Port()), 5*time.Second)
	if err != nil {
		e.mach = append(e.mach, err.Error())
		return
	}
	defer nc.Close()
	ext := sc.reqq
	rh, err := vh.PlainHandshake(nc, tor.InfoHash, vh.PeerID(fmt.Sprintf("x04-%d", sc.id)), vh.ReservedBits(sc.fast, ext, false), 10*time.Second)
	if err != nil {
		e.mach = append(e.mach, "handshake: "+err.Error())
		return
	}
	p := &peerSt{e: e, sc: sc, c: &vh.Conn{C: nc, Name: "x04", Quiet: true, Remote: rh}, tor: tor, resv: tor.NumPieces - 1,
		offer: map[int]bool{}, cur: -1, donep: map[int]bool{}, chokd: true, first: true}
	e.hold, e.pre = true, nil
	p.tid = tr.ID()
	for i := 0; i < tor.NumPieces-1; i++ {
		p.offer[i] = true
	}
	if ext {
		p.send(vh.Msg{ID: vh.MsgExtended, ExtID: 0, Data: vh.Enc(vh.Dict{"m": vh.Dict{}, "v": "x04-peer", "reqq": sc.q})})
	}
	if sc.af {
		for i := range p.offer {
			p.send(vh.Msg{ID: vh.MsgAllowedFast, Index: uint32(i)})
		}
	}
	p.send(vh.Msg{ID: vh.MsgBitfield, Data: vh.BitfieldBytes(tor.NumPieces, func(i int) bool { return p.offer[i] })})
	p.barrier()
	if !sc.startChk {
		p.txUnchoke()
	}
	if sc.cls == "afstall" {
		p.afStall()
	} else if sc.cls == "latechoke" {
		p.lateChoke(sc.steps)
	} else if sc.cls == "cancel" {
		p.cancelScn(fmt.Sprintf("127.0.0.1:%d", tr.Port()))
	} else {
		for k := 0; k < sc.steps && !p.closed && !p.allDone(); k++ {
			p.step()
		}
	}
	p.finish()
	// completion as rain sees it
	complete := e.hub.Wait(tr.ID(), 3*time.Second, func(s *torrent.VerifSnap) bool {
		n := 0
		for _, i := range s.Have {
			if p.offer[i] {
				n++
			}
		}
		return n == len(p.offer)
	})
	st := tr.Stats()
	good := 0
	for i := range p.offer {
		if prov.Store(tr.ID()).PieceClass(tor, i) == "good" {
			good++
		}
	}
	if p.first { // no request at all: still one trace
		p.newPiece(0)
	}
	e.write(ev{"op": "end", "complete": complete && !p.closed, "closed": p.closed, "good": good, "offered": len(p.offer),
		"downloaded": int(st.Bytes.Downloaded), "wasted": int(st.Bytes.Wasted), "nreq": p.nreq, "single": sc.cls != "cancel"})
}

func runE2E(seed int64, n int, out string) {
	torrent.DisableLogging()
	dir, err := os.MkdirTemp("/var/tmp", "x04-e2e")
	if err != nil {
		panic(err)
	}
	defer os.RemoveAll(dir)
	f, err := os.Create(out)
	if err != nil {
		panic(err)
	}
	T, _ := vh.NewTracer("")
	e := &e2e{rng: rand.New(rand.NewSource(seed*7919 + 3)), w: bufio.NewWriterSize(f, 1<<20), T: T, dir: dir}
	e.hub = vh.InstallSnapHub(T, false)
	for k := 0; k < n; k++ {
		sc := scn{id: k, steps: 30 + e.rng.Intn(40)}
		sc.fast = e.rng.Intn(2) == 0
		sc.cls = []string{"honest", "honest", "sloppy", "hostile", "latechoke"}[e.rng.Intn(5)]
		sc.q = []int{1, 2, 2, 3, 4}[e.rng.Intn(5)]
		sc.reqq = e.rng.Intn(2) == 0
		sc.plen = []int{3 * BS, 4 * BS, 2*BS + BS/2, 6 * BS, 7*BS + 100}[e.rng.Intn(5)]
		if k == 0 {
			sc.cls, sc.q, sc.plen, sc.steps = "latechoke", 2, 6*BS, 60
		}
		if sc.cls == "latechoke" {
			sc.fast = false
		}
		sc.total = 2*sc.plen + BS/2 + e.rng.Intn(BS) // 2 offered pieces + the reserved (short) one
		if sc.fast && e.rng.Intn(3) == 0 {
			sc.af = true
			sc.startChk = e.rng.Intn(2) == 0
		}
		if k == 2 || (k > 2 && e.rng.Intn(6) == 0) {
			sc.cls, sc.af, sc.startChk = "cancel", false, false
		}
		switch k {
		case 3: // a peer without fast extension that chokes and unchokes and never delivers late
			sc.cls, sc.fast, sc.af, sc.startChk, sc.q, sc.plen = "plain", false, false, false, 2, 6*BS
		case 4: // a peer with fast extension that rejects (or serves) everything it has when it chokes
			sc.cls, sc.fast, sc.af, sc.startChk, sc.q, sc.plen = "honest", true, false, false, 3, 6*BS
		case 5:
			sc.cls, sc.fast, sc.af, sc.startChk, sc.q, sc.plen = "plain", false, false, false, 1, 4*BS
		}
		sc.total = 2*sc.plen + BS/2 + e.rng.Intn(BS)
		if k == 1 { // the discipline stall of MC_PieceDl_rejstall_af on the real loop
			sc.cls, sc.fast, sc.af, sc.startChk, sc.q = "afstall", true, true, true, 2
		}
		e.run(sc)
		e.w.Flush()
	}
	e.w.Flush()
	f.Close()
	b, _ := json.Marshal(map[string]any{"events": e.nev, "traces": e.ntr, "scenarios": n, "machinery": e.mach})
	fmt.Println(string(b))
}
