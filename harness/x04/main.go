// Command x04 drives the real internal/piecedownloader.PieceDownloader with a stub peer (its Peer interface: records
// RequestPiece / CancelPiece) in the calling discipline of the torrent loop (torrent_messagehandler.go, torrent_start.go)
// and records one ndjson line per call: the call, what it sent, what it returned, Done() and the piece buffer block by
// block afterwards (Trace_PieceDl.tla judges).
//
//	x04 -out f [-scripts s.ndjson] [-n 300 -ops 60] -seed N
//	x04 -e2e -out f ...        (see e2e.go)
package main

import (
	"bufio"
	"encoding/json"
	"flag"
	"fmt"
	"math/rand"
	"os"

	"github.com/cenkalti/rain/v2/internal/bufferpool"
	"github.com/cenkalti/rain/v2/internal/filesection"
	"github.com/cenkalti/rain/v2/internal/piece"
	"github.com/cenkalti/rain/v2/internal/piecedownloader"
)

const BS = piece.BlockSize

type ev map[string]any

type msg struct {
	I int `json:"i"`
	B int `json:"b"`
	N int `json:"n"`
}

type sec struct {
	Len int  `json:"len"`
	Pad bool `json:"pad"`
}

type blk struct{ b, n int }

// blockTable is the driver's own geometry (not the code's): every maximal run of non-padding bytes is cut into blocks
// of BS bytes from the start of the run.
func blockTable(secs []sec) (bt []blk, plen int) {
	off, start, run := 0, 0, 0
	flush := func() {
		for o := 0; o < run; o += BS {
			bt = append(bt, blk{start + o, min(BS, run-o)})
		}
		run = 0
	}
	for _, s := range secs {
		if s.Pad {
			flush()
			off += s.Len
			start = off
			continue
		}
		if run == 0 {
			start = off
		}
		run += s.Len
		off += s.Len
	}
	flush()
	return bt, off
}

// stub implements piecedownloader.Peer.
type stub struct {
	fast bool
	reqs []msg
	cans []msg
}

func (p *stub) RequestPiece(i, b, n uint32) { p.reqs = append(p.reqs, msg{int(i), int(b), int(n)}) }
func (p *stub) CancelPiece(i, b, n uint32)  { p.cans = append(p.cans, msg{int(i), int(b), int(n)}) }
func (p *stub) EnabledFast() bool           { return p.fast }

type sim struct {
	rng     *rand.Rand
	out     *bufio.Writer
	nevents int

	secs     []sec
	bt       []blk
	plen     int
	idx      int
	fast, af bool
	q        int
	chokd    bool
	cls      string

	pe  *stub
	pd  *piecedownloader.PieceDownloader
	buf bufferpool.Buffer
	ntag int

	// the driver's own view of the wire (to choose events only; the judge has its own)
	outst map[int]int  // block -> outstanding request messages
	late  map[int]bool // voided by a choke, not yet re-requested
	have  map[int]bool
	ended bool
}

func (s *sim) write(e ev) {
	b, _ := json.Marshal(e)
	s.out.Write(b)
	s.out.WriteByte('\n')
	s.nevents++
}

func (s *sim) idOf(b, n int) int {
	for i, x := range s.bt {
		if x.b == b && x.n == n {
			return i
		}
	}
	return -1
}

// emit completes the event with the observation after the call.
func (s *sim) emit(e ev) {
	for _, k := range []string{"q", "b", "n", "tag"} {
		if _, ok := e[k]; !ok {
			e[k] = 0
		}
	}
	if _, ok := e["res"]; !ok {
		e["res"] = ""
	}
	if s.pe.reqs == nil {
		s.pe.reqs = []msg{}
	}
	if s.pe.cans == nil {
		s.pe.cans = []msg{}
	}
	e["reqs"], e["cans"] = s.pe.reqs, s.pe.cans
	for _, r := range s.pe.reqs {
		if id := s.idOf(r.B, r.N); id >= 0 && r.I == s.idx {
			s.outst[id]++
			delete(s.late, id)
		}
	}
	s.pe.reqs, s.pe.cans = nil, nil
	e["done"] = s.pd.Done()
	data := s.buf.Data
	bufv := make([]int, len(s.bt))
	nonzero := 0
	for _, c := range data {
		if c != 0 {
			nonzero++
		}
	}
	inRegions := 0
	for i, x := range s.bt {
		v := int(data[x.b])
		for _, c := range data[x.b : x.b+x.n] {
			if int(c) != v {
				v = -1
				break
			}
		}
		bufv[i] = v
		for _, c := range data[x.b : x.b+x.n] {
			if c != 0 {
				inRegions++
			}
		}
	}
	e["buf"] = bufv
	e["dirty"] = nonzero - inRegions
	if len(data) != s.plen {
		e["dirty"] = -1
	}
	s.write(e)
}

type stopTrace struct{}

func (s *sim) guard(op string) {
	if r := recover(); r != nil {
		s.write(ev{"op": "Panic", "in": op, "msg": fmt.Sprint(r)})
		s.ended = true
		panic(stopTrace{})
	}
}

func (s *sim) protect(f func()) {
	defer func() {
		if r := recover(); r != nil {
			if _, ok := r.(stopTrace); !ok {
				panic(r)
			}
		}
	}()
	f()
}

func (s *sim) start() {
	s.bt, s.plen = blockTable(s.secs)
	var data filesection.Piece
	for _, x := range s.secs {
		data = append(data, filesection.FileSection{Length: int64(x.Len), Padding: x.Pad})
	}
	pi := &piece.Piece{Index: uint32(s.idx), Length: uint32(s.plen), Data: data}
	s.pe = &stub{fast: s.fast}
	s.buf = bufferpool.New(s.plen).Get(s.plen)
	s.outst, s.late, s.have = map[int]int{}, map[int]bool{}, map[int]bool{}
	s.ntag = 0
	s.ended = false
	bt := make([][2]int, len(s.bt))
	for i, x := range s.bt {
		bt[i] = [2]int{x.b, x.n}
	}
	s.write(ev{"op": "Init", "idx": s.idx, "bs": BS, "secs": s.secs, "fast": s.fast, "af": s.af, "chokd": s.chokd,
		"bt": bt, "q": s.q, "cls": s.cls, "plen": s.plen})
	defer s.guard("New")
	s.pd = piecedownloader.New(pi, s.pe, s.af, s.buf)
	s.request() // startSinglePieceDownloader
}

// request = pd.RequestBlocks(maxAllowedRequests(pe))
func (s *sim) request() {
	defer s.guard("Request")
	s.pd.RequestBlocks(s.q)
	s.emit(ev{"op": "Request", "q": s.q})
}

func (s *sim) nextTag() int {
	s.ntag++
	return 1 + (s.ntag-1)%250
}

// block = handlePieceMessage for a piece message of this piece
func (s *sim) block(b, n int) {
	defer s.guard("Block")
	tag := s.nextTag()
	data := make([]byte, n)
	for i := range data {
		data[i] = byte(tag)
	}
	err := s.pd.GotBlock(uint32(b), data)
	res := "ok"
	switch err {
	case nil:
	case piecedownloader.ErrBlockNotRequested:
		res = "notreq"
	case piecedownloader.ErrBlockDuplicate:
		res = "dup"
	case piecedownloader.ErrBlockInvalid:
		res = "invalid"
	default:
		res = "err:" + err.Error()
	}
	id := s.idOf(b, n)
	if id >= 0 {
		if s.outst[id] > 0 {
			s.outst[id]--
		}
		delete(s.late, id)
		if res == "ok" || res == "notreq" {
			s.have[id] = true
		}
	}
	s.emit(ev{"op": "Block", "b": b, "n": n, "tag": tag, "res": res})
	switch res {
	case "invalid":
		s.disconnect() // closePeer
		return
	case "dup":
		return
	case "ok", "notreq":
	default:
		s.disconnect()
		return
	}
	if !s.pd.Done() {
		if s.af || !s.chokd {
			s.request()
		}
		return
	}
	s.ended = true // closePieceDownloader; the buffer goes to the piece writer
}

// reject = RejectMessage handler
func (s *sim) reject(b, n int) {
	defer s.guard("Reject")
	ok := s.pd.Rejected(uint32(b), uint32(n))
	if id := s.idOf(b, n); id >= 0 && s.outst[id] > 0 {
		s.outst[id]--
	}
	s.emit(ev{"op": "Reject", "b": b, "n": n, "res": fmt.Sprint(ok)})
	if !ok {
		s.disconnect()
	}
}

// choke = ChokeMessage handler; direct = call Choked() also for an allowed-fast download (it must return at once)
func (s *sim) choke(direct bool) {
	defer s.guard("Choke")
	s.chokd = true
	if !s.af || direct {
		s.pd.Choked()
	}
	if !s.fast && !s.af {
		for id, c := range s.outst {
			if c > 0 {
				s.late[id] = true
			}
			delete(s.outst, id)
		}
	}
	s.emit(ev{"op": "Choke"})
}

// unchoke = UnchokeMessage handler
func (s *sim) unchoke() {
	s.chokd = false
	s.emit(ev{"op": "Unchoke"})
	if !s.af {
		s.request()
	}
}

// snub = handlePeerSnubbed: no call into the downloader
func (s *sim) snub() {
	if s.chokd {
		return
	}
	s.emit(ev{"op": "Snub"})
}

// cancel = closePieceDownloader ; CancelPending (torrent_write.go, torrent_pieces.go)
func (s *sim) cancel() {
	defer s.guard("Cancel")
	s.pd.CancelPending()
	s.emit(ev{"op": "Cancel"})
	s.ended = true
}

func (s *sim) disconnect() {
	s.emit(ev{"op": "Disconnect"})
	s.ended = true
}

// bad delivers a piece message whose (begin, length) is not a block of the table.
func (s *sim) bad(x, k int) {
	if len(s.bt) == 0 {
		return
	}
	c := s.bt[x%len(s.bt)]
	b, n := c.b, c.n
	switch k % 6 {
	case 0:
		b++ // misaligned begin
	case 1:
		n-- // short
	case 2:
		n++ // long (over the end of the run / into the next block)
	case 3:
		b = s.plen // beyond the piece
	case 4:
		n = 0
	case 5:
		b, n = c.b+c.n/2, c.n-c.n/2 // second half of a block
	}
	if n < 0 || s.idOf(b, n) >= 0 {
		return
	}
	s.block(b, n)
}

func keys(m map[int]int) []int {
	var out []int
	for k, v := range m {
		if v > 0 {
			out = append(out, k)
		}
	}
	sortInts(out)
	return out
}

func keysB(m map[int]bool) []int {
	var out []int
	for k, v := range m {
		if v {
			out = append(out, k)
		}
	}
	sortInts(out)
	return out
}

func sortInts(a []int) {
	for i := 1; i < len(a); i++ {
		for j := i; j > 0 && a[j] < a[j-1]; j-- {
			a[j], a[j-1] = a[j-1], a[j]
		}
	}
}

func (s *sim) pick(a []int) (int, bool) {
	if len(a) == 0 {
		return 0, false
	}
	return a[s.rng.Intn(len(a))], true
}

func (s *sim) deliver(id int) { s.block(s.bt[id].b, s.bt[id].n) }

// runRandom: one seeded history of class cls:
//
//	honest   every request is answered once (block, or reject from a fast peer - on choke: all of them), a peer without
//	         fast extension may still deliver blocks it had in flight when it choked (late blocks)
//	sloppy   + blocks that were never requested, duplicates, wrong geometry
//	hostile  + rejects of requests that are not outstanding
func (s *sim) runRandom(nops int) {
	s.protect(func() {
		s.start()
		for n := 0; n < nops && !s.ended; n++ {
			d := s.rng.Intn(100)
			outs := keys(s.outst)
			switch {
			case d < 40:
				if id, ok := s.pick(outs); ok {
					s.deliver(id)
				}
			case d < 50:
				if !s.chokd {
					s.choke(s.rng.Intn(4) == 0)
					if s.fast && !s.af && s.cls == "honest" {
						// BEP 6: the choking peer rejects (or serves) every outstanding request
						for _, id := range keys(s.outst) {
							if s.ended {
								break
							}
							if s.rng.Intn(4) == 0 {
								s.deliver(id)
							} else {
								s.reject(s.bt[id].b, s.bt[id].n)
							}
						}
					}
				}
			case d < 62:
				if s.chokd {
					s.unchoke()
				}
			case d < 70:
				if id, ok := s.pick(keysB(s.late)); ok {
					s.deliver(id)
				}
			case d < 76:
				if s.fast {
					if id, ok := s.pick(outs); ok && (s.cls != "honest" || s.chokd || s.rng.Intn(3) == 0) {
						s.reject(s.bt[id].b, s.bt[id].n)
					}
				}
			case d < 79:
				if s.af || !s.chokd {
					s.request() // a spurious call must be harmless
				}
			case d < 81:
				s.snub()
			case d < 83:
				if s.rng.Intn(3) == 0 {
					if s.rng.Intn(2) == 0 {
						s.cancel()
					} else {
						s.disconnect()
					}
				}
			case d < 84:
				if s.rng.Intn(4) == 0 { // reqq of a late extension handshake
					s.q = 1 + s.rng.Intn(5)
				}
			default:
				if s.cls == "honest" {
					continue
				}
				switch e := s.rng.Intn(10); {
				case e < 4: // never requested / any block
					s.deliver(s.rng.Intn(len(s.bt)))
				case e < 6: // duplicate
					if id, ok := s.pick(keysB(s.have)); ok {
						s.deliver(id)
					}
				case e < 8:
					s.bad(s.rng.Intn(len(s.bt)), s.rng.Intn(6))
				default:
					if s.cls == "hostile" && s.fast {
						if s.rng.Intn(4) == 0 {
							s.reject(s.bt[0].b+1, 5) // not a block: Rejected must say false
						} else {
							id := s.rng.Intn(len(s.bt))
							s.reject(s.bt[id].b, s.bt[id].n)
						}
					}
				}
			}
		}
		s.finish()
	})
}

// finish: by the seed, stop here or let an honest peer answer everything until the piece is complete.
func (s *sim) finish() {
	if s.ended {
		return
	}
	switch s.rng.Intn(4) {
	case 0:
		s.cancel()
		return
	case 1:
		s.disconnect()
		return
	}
	for guard := 0; guard < 8*len(s.bt)+8 && !s.ended; guard++ {
		if s.chokd && !s.af {
			s.unchoke()
			continue
		}
		outs := keys(s.outst)
		if id, ok := s.pick(outs); ok {
			s.deliver(id)
			continue
		}
		break // nothing outstanding although blocks are missing: the judge has seen the last Request (X04.g)
	}
	if !s.ended {
		s.disconnect()
	}
}

type scriptOp struct {
	Op string `json:"op"`
	X  int    `json:"x"`
	K  int    `json:"k"`
}
type script struct {
	Secs []sec `json:"secs"`
	Bs   int   `json:"bs"`
	Fast bool  `json:"fast"`
	Af   bool  `json:"af"`
	Q    int   `json:"q"`
	Bt   []struct {
		B int `json:"b"`
		N int `json:"n"`
	} `json:"bt"`
	Ops []scriptOp `json:"ops"`
}

// runScript replays a history generated by TLC (MC_PieceDlGen): lengths are scaled so that the block size of the
// specification becomes piece.BlockSize; blocks are addressed through the block table of the SPECIFICATION.
func (s *sim) runScript(sc script) {
	unit := BS / sc.Bs
	s.secs = nil
	for _, x := range sc.Secs {
		s.secs = append(s.secs, sec{x.Len * unit, x.Pad})
	}
	s.fast, s.af, s.q = sc.Fast, sc.Af, sc.Q
	s.cls = "tlc"
	s.idx = s.rng.Intn(7)
	if len(sc.Ops) == 0 || sc.Ops[0].Op != "Init" {
		return
	}
	s.chokd = sc.Ops[0].X == 1
	s.protect(func() {
		s.start()
		for _, o := range sc.Ops[1:] {
			if s.ended {
				break
			}
			var b, n int
			if o.X >= 1 && o.X <= len(sc.Bt) {
				b, n = sc.Bt[o.X-1].B*unit, sc.Bt[o.X-1].N*unit
			}
			switch o.Op {
			case "Block":
				s.block(b, n)
			case "Reject":
				s.reject(b, n)
			case "Choke":
				if !s.chokd {
					s.choke(false)
				}
			case "Unchoke":
				if s.chokd {
					s.unchoke()
				}
			case "Snub":
				s.snub()
			case "Bad":
				s.bad(o.X-1, o.K-1)
			case "Request", "End": // the driver does the discipline itself
			}
		}
		s.finish()
	})
}

// runDirected: fixed histories that exercise every obligation at least once whatever the seed (vacuity guards).
func runDirected(rng *rand.Rand, w *bufio.Writer) (total, ntr int) {
	mk := func(secs []sec, fast, af, chokd bool, q int) *sim {
		return &sim{rng: rng, out: w, secs: secs, idx: 5, fast: fast, af: af, chokd: chokd, q: q, cls: "directed"}
	}
	run := func(s *sim, f func()) {
		s.protect(func() {
			s.start()
			f()
			if !s.ended {
				s.disconnect()
			}
		})
		total += s.nevents
		ntr++
	}
	blkOf := func(s *sim, id int) (int, int) { return s.bt[id].b, s.bt[id].n }
	// 1. fast peer: reject of an outstanding request, reject with a wrong geometry (Rejected = false -> closePeer)
	s := mk(layouts[0], true, false, false, 2)
	run(s, func() {
		b, n := blkOf(s, 0)
		s.reject(b, n)
		s.deliver(1)
		s.reject(b+1, n)
	})
	// 2. cancel with requests outstanding; 3. cancel with nothing outstanding (peer without fast extension, choked)
	s = mk(layouts[0], false, false, false, 3)
	run(s, func() { s.deliver(0); s.cancel() })
	s = mk(layouts[0], false, false, false, 3)
	run(s, func() { s.choke(false); s.cancel() })
	// 4. every kind of wrong geometry, each on a fresh download (the loop closes the peer after the first)
	for k := 0; k < 6; k++ {
		s = mk(layouts[5], false, false, false, 2)
		kk := k
		run(s, func() { s.deliver(0); s.bad(1+kk%3, kk) })
	}
	// 5. peer without fast extension: choke with requests in flight, one late block, unchoke, run to completion
	s = mk(layouts[1], false, false, false, 2)
	run(s, func() {
		s.choke(false)
		s.deliver(1)
		s.unchoke()
		for _, id := range []int{0, 2, 3} {
			if !s.ended {
				s.deliver(id)
			}
		}
	})
	// 6. fast peer: choke, reject one / serve one, unchoke, duplicate, completion
	s = mk(layouts[1], true, false, false, 2)
	run(s, func() {
		s.choke(false)
		b, n := blkOf(s, 0)
		s.reject(b, n)
		s.deliver(1)
		s.unchoke()
		s.deliver(1)
		for _, id := range []int{0, 2, 3} {
			if !s.ended {
				s.deliver(id)
			}
		}
	})
	// 7. allowed-fast download that starts choked: requests go on through choke / unchoke; Choked() called directly
	s = mk(layouts[0], true, true, true, 2)
	run(s, func() {
		s.deliver(0)
		s.unchoke()
		s.choke(true)
		s.deliver(1)
		s.snub()
		s.unchoke()
		s.snub()
		s.deliver(2)
		s.deliver(3)
	})
	// 8. queue longer than the piece; queue length 0 (nothing may be requested, nothing is owed)
	s = mk(layouts[2], false, false, false, 50)
	run(s, func() { s.deliver(1); s.deliver(0) })
	s = mk(layouts[2], false, false, false, 0)
	run(s, func() { s.request() })
	return
}

var layouts = [][]sec{
	{{3*BS + 100, false}},
	{{4 * BS, false}},
	{{BS + 1, false}},
	{{BS - 7, false}},
	{{2*BS + BS/2, false}, {BS / 2, false}},
	{{BS + 300, false}, {700, true}, {2*BS + 24, false}},
	{{BS / 2, false}, {BS / 2, true}, {3 * BS, false}},
	{{2 * BS, false}, {BS + 5, false}, {BS - 5, true}},
	{{5*BS + 1, false}},
	{{100, true}, {2*BS + 9, false}},
}

func main() {
	seed := flag.Int64("seed", 1, "")
	ntraces := flag.Int("n", 100, "number of random histories")
	nops := flag.Int("ops", 60, "events per history")
	scripts := flag.String("scripts", "", "ndjson file with TLC-generated histories")
	outp := flag.String("out", "trace.ndjson", "")
	e2e := flag.Bool("e2e", false, "end-to-end family (real torrent.Session against a scripted peer)")
	flag.Parse()
	if *e2e {
		runE2E(*seed, *ntraces, *outp)
		return
	}
	f, err := os.Create(*outp)
	if err != nil {
		panic(err)
	}
	w := bufio.NewWriterSize(f, 1<<20)
	rng := rand.New(rand.NewSource(*seed))
	total, ntr := runDirected(rng, w)
	if *scripts != "" {
		sf, err := os.Open(*scripts)
		if err != nil {
			panic(err)
		}
		sc := bufio.NewScanner(sf)
		sc.Buffer(make([]byte, 1<<20), 1<<26)
		for sc.Scan() {
			var x script
			if json.Unmarshal(sc.Bytes(), &x) != nil || x.Bs == 0 || BS%x.Bs != 0 {
				continue
			}
			s := &sim{rng: rng, out: w}
			s.runScript(x)
			total += s.nevents
			ntr++
		}
	}
	for i := 0; i < *ntraces; i++ {
		s := &sim{rng: rng, out: w}
		s.secs = layouts[rng.Intn(len(layouts))]
		s.idx = rng.Intn(1000)
		s.fast = rng.Intn(2) == 0
		s.af = s.fast && rng.Intn(3) == 0
		s.chokd = s.af && rng.Intn(2) == 0
		s.q = []int{1, 1, 2, 2, 3, 4, 6, 50}[rng.Intn(8)]
		s.cls = []string{"honest", "honest", "sloppy", "hostile"}[rng.Intn(4)]
		s.runRandom(*nops)
		total += s.nevents
		ntr++
	}
	w.Flush()
	f.Close()
	fmt.Printf("{\"events\":%d,\"traces\":%d}\n", total, ntr)
}
