// Command life runs lifecycle histories (property C04) against a real torrent.Session: user commands
// interleaved with external file mutations at stopped points and with allocation / verification /
// piece-write / stop-announce completions held back by gates. It records the abstract event trace
// judged by Trace_Lifecycle.tla.
//
//	life run -histories h.ndjson -out trace.ndjson     (child: prints "BEGIN <id>" / "END <id>")
package main

import (
	"bufio"
	"bytes"
	"encoding/json"
	"flag"
	"fmt"
	"os"
	"runtime"
	"strconv"
	"strings"
	"sync"
	"sync/atomic"
	"time"

	"github.com/cenkalti/rain/v2/internal/verif/vh"
	"github.com/cenkalti/rain/v2/torrent"
)

type Step struct {
	Do    string `json:"do"`
	Wait  string `json:"wait"`
	Kind  string `json:"kind"`
	Piece int    `json:"piece"`
	N     int    `json:"n"`
	Ms    int    `json:"ms"`
}

type History struct {
	ID     int    `json:"id"`
	Layout string `json:"layout"`
	Unit   int    `json:"unit"`
	Seed   int64  `json:"seed"`
	Steps  []Step `json:"steps"`
	Out    bool   `json:"out"` // the seeds are reached by outgoing connections (two listening seeds, MaxPeerDial = 1)
}

var (
	T   *vh.Tracer
	hub *vh.SnapHub
)

type gate struct {
	armed   atomic.Bool
	holding atomic.Bool
	ch      chan struct{}
	mu      sync.Mutex
}

func (g *gate) arm() {
	g.mu.Lock()
	g.ch = make(chan struct{})
	g.mu.Unlock()
	g.armed.Store(true)
}

func (g *gate) release() {
	g.armed.Store(false)
	g.mu.Lock()
	if g.ch != nil {
		select {
		case <-g.ch:
		default:
			close(g.ch)
		}
	}
	g.mu.Unlock()
}

// pass blocks the caller if the gate is armed (only the first caller is held; it disarms itself).
func (g *gate) pass(name string) {
	if !g.armed.CompareAndSwap(true, false) {
		return
	}
	g.mu.Lock()
	ch := g.ch
	g.mu.Unlock()
	g.holding.Store(true)
	T.Emit(vh.Ev{"ev": "gate", "kind": name, "what": "blocked"})
	select {
	case <-ch:
	case <-time.After(15 * time.Second):
	}
	g.holding.Store(false)
	T.Emit(vh.Ev{"ev": "gate", "kind": name, "what": "released"})
}

type runner struct {
	h       History
	tor     *vh.Torrent
	prov    *vh.MemProvider
	sess    *torrent.Session
	tr      *torrent.Torrent
	id      string
	gates   map[string]*gate
	holdStp atomic.Bool
	lateStp atomic.Bool
	outAddr []string
	early   *vh.PeerListener // listening honest seed whose address is handed over by "addseed"
	seedOn  atomic.Bool
	tokens  chan struct{}
	free    atomic.Bool
	quit    chan struct{}
	wg      sync.WaitGroup
	aborted bool
}

func layoutByName(name string, unit int) vh.Layout {
	for _, l := range vh.StdLayouts(unit) {
		if l.Name == name {
			return l
		}
	}
	return vh.StdLayouts(unit)[0]
}

func (r *runner) classes() []string {
	c := make([]string, r.tor.NumPieces)
	for i := range c {
		c[i] = r.prov.Store(r.id).PieceClass(r.tor, i)
	}
	return c
}

// call runs an API call under a watchdog; a call that does not return is a hang.
func (r *runner) call(op string, f func() error) bool {
	T.Emit(vh.Ev{"ev": "cmd", "op": op, "phase": "call"})
	done := make(chan error, 1)
	t0 := time.Now()
	go func() { done <- f() }()
	select {
	case err := <-done:
		e := vh.Ev{"ev": "cmd", "op": op, "phase": "ret", "dur_ms": time.Since(t0).Milliseconds()}
		if err != nil {
			e["err"] = err.Error()
		}
		T.Emit(e)
		return true
	case <-time.After(8 * time.Second):
		buf := make([]byte, 1<<20)
		n := runtime.Stack(buf, true)
		var keep []string
		for _, g := range strings.Split(string(buf[:n]), "\n\n") {
			if strings.Contains(g, "rain/v2/torrent") || strings.Contains(g, "bbolt") || strings.Contains(g, "rain/v2/internal") {
				if len(g) > 1200 {
					g = g[:1200]
				}
				keep = append(keep, g)
			}
		}
		if len(keep) > 25 {
			keep = keep[:25]
		}
		T.Emit(vh.Ev{"ev": "proc", "what": "hang", "site": "api:" + op, "stacks": keep})
		r.aborted = true
		return false
	}
}

func (r *runner) pred(w string) func(*torrent.VerifSnap) bool {
	switch {
	case w == "stopped":
		return func(s *torrent.VerifSnap) bool { return s.Status == "Stopped" }
	case w == "stopping":
		return func(s *torrent.VerifSnap) bool { return s.Status == "Stopping" }
	case w == "running":
		return func(s *torrent.VerifSnap) bool { return s.Status != "Stopped" && s.Status != "Stopping" }
	case w == "downloading":
		return func(s *torrent.VerifSnap) bool { return s.Status == "Downloading" }
	case w == "seeding":
		return func(s *torrent.VerifSnap) bool { return s.Status == "Seeding" }
	case w == "allocating":
		return func(s *torrent.VerifSnap) bool { return s.Status == "Allocating" }
	case w == "verifying":
		return func(s *torrent.VerifSnap) bool { return s.Status == "Verifying" }
	case w == "settled": // not in a transient state
		return func(s *torrent.VerifSnap) bool {
			return s.Status == "Stopped" || s.Status == "Downloading" || s.Status == "Seeding"
		}
	case strings.HasPrefix(w, "have>="):
		n, _ := strconv.Atoi(strings.TrimPrefix(w, "have>="))
		return func(s *torrent.VerifSnap) bool { return len(s.Have) >= n }
	case strings.HasPrefix(w, "gated:"):
		g := r.gates[strings.TrimPrefix(w, "gated:")]
		return func(s *torrent.VerifSnap) bool { return g != nil && g.holding.Load() }
	case w == "peer":
		return func(s *torrent.VerifSnap) bool { return s.Peers > 0 }
	}
	return func(s *torrent.VerifSnap) bool { return true }
}

func (r *runner) wait(w string, ms int) bool {
	if w == "" {
		return true
	}
	if ms == 0 {
		ms = 3000
	}
	if strings.HasPrefix(w, "gated:") { // gate state is not part of the snapshot: poll
		g := r.gates[strings.TrimPrefix(w, "gated:")]
		dl := time.Now().Add(time.Duration(ms) * time.Millisecond)
		for time.Now().Before(dl) {
			if g != nil && g.holding.Load() {
				return true
			}
			time.Sleep(2 * time.Millisecond)
		}
		T.Emit(vh.Ev{"ev": "waitfail", "wait": w})
		return false
	}
	// make sure a current snapshot exists
	ok := hub.Wait(r.id, time.Duration(ms)*time.Millisecond, r.pred(w))
	if !ok {
		sn := hub.Get(r.id)
		st := ""
		if sn != nil {
			st = sn.Status
		}
		T.Emit(vh.Ev{"ev": "waitfail", "wait": w, "status": st})
	}
	return ok
}

// seeder keeps an honest full source reachable whenever seeding is switched on
func (r *runner) seederLoop() {
	defer r.wg.Done()
	var cur *vh.Seeder
	n := 0
	for {
		select {
		case <-r.quit:
			if cur != nil {
				cur.Close()
			}
			return
		case <-time.After(15 * time.Millisecond):
		}
		if cur != nil {
			select {
			case <-cur.Done():
				cur = nil
			default:
			}
		}
		if !r.seedOn.Load() {
			if cur != nil {
				cur.Close()
				cur = nil
			}
			continue
		}
		sn := hub.Get(r.id)
		if r.h.Out {
			// outgoing mode: hand both listening seeds to rain whenever it runs without a peer
			if sn != nil && (sn.Status == "Downloading") && sn.Peers == 0 && sn.OutHS == 0 && sn.AddrListLen == 0 {
				for _, a := range r.outAddr {
					r.tr.AddPeer(a)
				}
				time.Sleep(60 * time.Millisecond)
			}
			continue
		}
		if cur == nil && sn != nil && sn.Acceptor && (sn.Status == "Downloading" || sn.Status == "Seeding") && sn.Peers == 0 && sn.InHS == 0 {
			n++
			pol := &vh.SeederPolicy{Gate: r.tokens}
			s, err := vh.ConnectSeeder(T, "seed"+strconv.Itoa(n), "127.0.0.9", fmt.Sprintf("127.0.0.1:%d", sn.Port), r.tor, pol)
			if err == nil {
				cur = s
			}
		}
	}
}

func (r *runner) tokenLoop() {
	defer r.wg.Done()
	for {
		select {
		case <-r.quit:
			return
		default:
		}
		if r.free.Load() {
			select {
			case r.tokens <- struct{}{}:
			case <-time.After(10 * time.Millisecond):
			}
		} else {
			time.Sleep(5 * time.Millisecond)
		}
	}
}

func (r *runner) mutate(kind string, piece int) {
	st := r.prov.Store(r.id)
	tor := r.tor
	nonpad := []int{}
	for i, f := range tor.Files {
		if !f.Pad && f.Length > 0 {
			nonpad = append(nonpad, i)
		}
	}
	switch kind {
	case "corrupt":
		p := piece % tor.NumPieces
		off := int64(p) * int64(tor.PieceLen)
		for _, fi := range nonpad {
			lo, hi := tor.FileStart(fi), tor.FileStart(fi)+tor.Files[fi].Length
			if off >= lo && off < hi {
				d := st.FileBytes(tor.StoragePath(fi))
				if d != nil && int(off-lo) < len(d) {
					d[off-lo] ^= 0xff
					st.Put(tor.StoragePath(fi), d)
				}
			}
		}
	case "truncate":
		fi := nonpad[len(nonpad)-1]
		d := st.FileBytes(tor.StoragePath(fi))
		if d != nil {
			st.Put(tor.StoragePath(fi), d[:len(d)/2])
		}
	case "deletesome":
		st.Delete(tor.StoragePath(nonpad[0]))
	case "deleteall":
		for _, n := range st.Names() {
			st.Delete(n)
		}
	}
	files := 0
	for _, fi := range nonpad {
		if st.FileBytes(tor.StoragePath(fi)) != nil {
			files++
		}
	}
	T.Emit(vh.Ev{"ev": "mut", "kind": kind, "class": r.classes(), "filesPresent": files, "files": len(nonpad)})
}

func run(h History, dir string) {
	r := &runner{h: h, gates: map[string]*gate{"alloc": {}, "verify": {}, "write": {}}, tokens: make(chan struct{}), quit: make(chan struct{})}
	T.Trace = h.ID
	var trk *vh.HTTPTracker
	trk, err := vh.StartHTTPTracker(T, "trk", func(q vh.AnnReq) vh.AnnReply {
		rep := vh.AnnReply{Interval: vh.I64(1800)}
		if q.Event == "stopped" && r.holdStp.Load() {
			rep.Delay = 300 * time.Millisecond
		}
		if q.Event == "stopped" && r.lateStp.Load() { // answers only after TrackerStopTimeout has expired
			rep.Delay = 1200 * time.Millisecond
		}
		return rep
	})
	if err != nil {
		panic(err)
	}
	defer trk.Close()
	r.tor = vh.Build(layoutByName(h.Layout, h.Unit), h.Seed, [][]string{{trk.URL()}}, nil)
	tor := r.tor
	cfg, err := vh.BaseConfig(dir, 8)
	if err != nil {
		panic(err)
	}
	os.Remove(cfg.Database)
	r.prov = vh.NewMemProvider(T)
	r.prov.Truth[""] = tor
	r.prov.Quiet = true
	cfg.CustomStorage = r.prov
	cfg.TrackerStopTimeout = 500 * time.Millisecond
	if h.Out {
		cfg.MaxPeerDial = 1
		for i, ip := range []string{"127.0.0.9", "127.0.0.10"} {
			l, err := vh.ListenSeeder(T, "oseed"+strconv.Itoa(i), ip, tor, &vh.SeederPolicy{Gate: r.tokens}, nil)
			if err == nil {
				r.outAddr = append(r.outAddr, l.Addr.String())
				defer l.Close()
			}
		}
	}
	r.prov.SetHook(func(phase, op, tid, name string, off int64, n int) error {
		if phase != "enter" {
			return nil
		}
		switch op {
		case "open":
			r.gates["alloc"].pass("alloc")
		case "read":
			r.gates["verify"].pass("verify")
		case "write":
			r.gates["write"].pass("write")
		}
		return nil
	})
	plen := make([]int, tor.NumPieces)
	for i := range plen {
		plen[i] = tor.PieceLenOf(i)
	}
	T.Emit(vh.Ev{"ev": "init", "np": tor.NumPieces, "plen": plen, "layout": h.Layout, "unit": h.Unit, "stopTimeoutMs": 500, "total": tor.Total})
	sess, err := torrent.NewSession(cfg)
	if err != nil {
		panic(err)
	}
	r.sess = sess
	tr, err := sess.AddTorrent(bytes.NewReader(tor.Bytes), &torrent.AddTorrentOptions{Stopped: true})
	if err != nil {
		panic(err)
	}
	r.tr, r.id = tr, tr.ID()
	tr.Stats() // produces the first snapshot
	r.wg.Add(2)
	go r.seederLoop()
	go r.tokenLoop()

	lastCmd := ""
	for _, st := range h.Steps {
		if r.aborted {
			break
		}
		if st.Do == "start" || st.Do == "stop" || st.Do == "verify" {
			lastCmd = st.Do
		}
		if st.Wait != "" {
			r.wait(st.Wait, st.Ms)
		}
		switch st.Do {
		case "":
		case "start":
			r.call("start", tr.Start)
		case "stop":
			r.call("stop", tr.Stop)
		case "verify":
			r.call("verify", tr.Verify)
		case "announce":
			r.call("announce", func() error { tr.Announce(); return nil })
		case "addpeer":
			r.call("addpeer", func() error { return tr.AddPeer("127.0.0.77:1") })
		case "addseed":
			// AddPeer with the address of a reachable honest seed (its own loopback address: rain accepts one connection per IP)
			if r.early == nil {
				l, err := vh.ListenSeeder(T, "eseed", "127.0.0.11", tor, &vh.SeederPolicy{Gate: r.tokens}, nil)
				if err != nil {
					T.Emit(vh.Ev{"ev": "waitfail", "wait": "addseed-listen"})
					break
				}
				r.early = l
				defer l.Close()
			}
			a := r.early.Addr.String()
			r.call("addseed", func() error { return tr.AddPeer(a) })
		case "addtracker":
			r.call("addtracker", func() error { return tr.AddTracker(trk.URL() + "?x=" + strconv.Itoa(st.N)) })
		case "stats":
			r.call("stats", func() error {
				s := tr.Stats()
				T.Emit(vh.Ev{"ev": "stats", "status": s.Status.String(), "have": int(s.Pieces.Have), "missing": int(s.Pieces.Missing), "total": int(s.Pieces.Total),
					"completed": s.Bytes.Completed, "incomplete": s.Bytes.Incomplete, "btotal": s.Bytes.Total, "peers": s.Peers.Total, "downloads": s.Downloads.Total})
				return nil
			})
		case "peers":
			r.call("peers", func() error { tr.Peers(); tr.Trackers(); tr.Webseeds(); return nil })
		case "seed":
			r.seedOn.Store(st.N != 0)
		case "free":
			r.free.Store(st.N != 0)
		case "blocks":
			for i := 0; i < st.N; i++ {
				select {
				case r.tokens <- struct{}{}:
				case <-time.After(1500 * time.Millisecond):
					i = st.N
				}
			}
		case "gate":
			if st.Kind == "stopping" {
				r.holdStp.Store(true)
			} else if st.Kind == "stoptimeout" {
				r.lateStp.Store(true)
			} else if g := r.gates[st.Kind]; g != nil {
				g.arm()
			}
		case "release":
			if st.Kind == "stopping" {
				r.holdStp.Store(false)
			} else if st.Kind == "stoptimeout" {
				r.lateStp.Store(false)
			} else if g := r.gates[st.Kind]; g != nil {
				g.release()
			}
		case "sleep":
			time.Sleep(time.Duration(st.Ms) * time.Millisecond)
		case "mutate":
			// only meaningful while stopped with no file open
			sn := hub.Get(r.id)
			if sn != nil && sn.Status == "Stopped" && r.prov.OpenHandles() == 0 {
				r.mutate(st.Kind, st.Piece)
			} else {
				T.Emit(vh.Ev{"ev": "waitfail", "wait": "mutate-needs-stopped"})
			}
		case "checkstopped":
			// quiescence after Stopped: the number of open data-file handles is observed by the harness
			if r.wait("stopped", 3000) {
				time.Sleep(30 * time.Millisecond)
				sn := hub.Get(r.id)
				if sn != nil && sn.Status == "Stopped" {
					T.Emit(vh.Ev{"ev": "stoppedobs", "handles": r.prov.OpenHandles(), "class": r.classes()})
				}
			}
		}
	}
	if !r.aborted {
		// convergence: release everything, start, keep an honest seed reachable
		for _, g := range r.gates {
			g.release()
		}
		r.holdStp.Store(false)
		r.lateStp.Store(false)
		r.wait("settled", 4000)
		T.Emit(vh.Ev{"ev": "final", "phase": "begin", "class": r.classes()})
		// the user's last command decides: after a start the torrent must already be on its way,
		// otherwise it is started now; then an honest seed is reachable
		if lastCmd == "start" || r.call("start", tr.Start) {
			r.seedOn.Store(true)
			r.free.Store(true)
			ok := hub.Wait(r.id, 10*time.Second, func(s *torrent.VerifSnap) bool { return s.Status == "Seeding" && len(s.Have) == tor.NumPieces })
			sn := hub.Get(r.id)
			e := vh.Ev{"ev": "final", "phase": "end", "ok": ok, "filesOK": r.prov.Store(r.id).Complete(tor), "class": r.classes()}
			if sn != nil {
				e["status"], e["have"], e["lastErr"] = sn.Status, len(sn.Have), sn.LastErr
			}
			T.Emit(e)
		}
	}
	close(r.quit)
	r.wg.Wait()
	done := make(chan struct{})
	go func() { sess.Close(); close(done) }()
	select {
	case <-done:
	case <-time.After(10 * time.Second):
		T.Emit(vh.Ev{"ev": "proc", "what": "hang", "site": "session.Close"})
		T.Flush()
		os.Exit(3)
	}
	T.Emit(vh.Ev{"ev": "end"})
}

func main() {
	if len(os.Args) < 2 || os.Args[1] != "run" {
		fmt.Fprintln(os.Stderr, "usage: life run -histories f -out f")
		os.Exit(2)
	}
	fs := flag.NewFlagSet("run", flag.ExitOnError)
	hf := fs.String("histories", "", "")
	out := fs.String("out", "trace.ndjson", "")
	fs.Parse(os.Args[2:])
	torrent.DisableLogging()
	var err error
	T, err = vh.NewTracer(*out)
	if err != nil {
		panic(err)
	}
	T.AutoFlush = true
	hub = vh.InstallSnapHub(T, true)
	dir, _ := os.MkdirTemp(".", "life")
	defer os.RemoveAll(dir)
	f, err := os.Open(*hf)
	if err != nil {
		panic(err)
	}
	sc := bufio.NewScanner(f)
	sc.Buffer(make([]byte, 1<<20), 1<<24)
	for sc.Scan() {
		var h History
		if json.Unmarshal(sc.Bytes(), &h) != nil {
			continue
		}
		fmt.Printf("BEGIN %d\n", h.ID)
		T.Flush()
		run(h, dir)
		T.Flush()
		fmt.Printf("END %d\n", h.ID)
	}
	T.Close()
}
