// Command x09 drives the start pipeline (allocation -> decision -> verification) of a real torrent.Session
// over the recording in-memory storage and records the abstract trace judged by Trace_Startup.tla.
//
//	x09 run -seed N -n K -out trace.ndjson [-corrupt field]
package main

import (
	"bufio"
	"bytes"
	"encoding/json"
	"errors"
	"flag"
	"fmt"
	"math/rand"
	"os"
	"strings"
	"sync"
	"sync/atomic"
	"time"

	"github.com/cenkalti/rain/v2/internal/verif/vh"
	"github.com/cenkalti/rain/v2/torrent"
)

var (
	T   *vh.Tracer
	hub *vh.SnapHub
)

// gate: block / fail the k-th open or read (counted per arm).
type gate struct {
	mu      sync.Mutex
	op      string // "open" | "read" | ""
	k       int
	fail    bool
	cnt     int
	ch      chan struct{}
	reached chan struct{}
	holding atomic.Bool
}

func (g *gate) arm(op string, k int, fail bool) {
	g.mu.Lock()
	g.op, g.k, g.fail, g.cnt = op, k, fail, 0
	g.ch = make(chan struct{})
	g.reached = make(chan struct{})
	g.mu.Unlock()
}

func (g *gate) release() {
	g.mu.Lock()
	g.op = ""
	if g.ch != nil {
		select {
		case <-g.ch:
		default:
			close(g.ch)
		}
	}
	g.mu.Unlock()
}

func (g *gate) hook(phase, op, tid, name string, off int64, n int) error {
	if phase != "enter" {
		return nil
	}
	g.mu.Lock()
	if g.op != op {
		g.mu.Unlock()
		return nil
	}
	g.cnt++
	if g.cnt != g.k {
		g.mu.Unlock()
		return nil
	}
	g.op = ""
	fail, ch, reached := g.fail, g.ch, g.reached
	g.mu.Unlock()
	if fail {
		T.Emit(vh.Ev{"ev": "inj", "op": op, "file": name, "off": off})
		close(reached)
		return errors.New("injected I/O error")
	}
	g.holding.Store(true)
	close(reached)
	select {
	case <-ch:
	case <-time.After(20 * time.Second):
	}
	g.holding.Store(false)
	return nil
}

type scen struct {
	tor  *vh.Torrent
	prov *vh.MemProvider
	tr   *torrent.Torrent
	id   string
	g    *gate
	rng  *rand.Rand
	desc []string
}

// seen is the loop sequence number of the latest snapshot the driver has observed: a driver line must not be
// ordered before the trace line of that snapshot (the hub wakes waiters before it writes the snapshot line).
func (s *scen) seen() uint64 {
	if v := hub.Get(s.id); v != nil {
		return v.Seq
	}
	return 0
}

func (s *scen) goodSet() []int {
	out := []int{}
	for i := 0; i < s.tor.NumPieces; i++ {
		if s.prov.Store(s.id).PieceClass(s.tor, i) == "good" {
			out = append(out, i+1)
		}
	}
	return out
}

func (s *scen) cmd(c string) {
	s.desc = append(s.desc, c)
	var before uint64
	if v := hub.Get(s.id); v != nil {
		before = v.Seq
	}
	T.Emit(vh.Ev{"ev": "cmd", "c": c, "after": s.seen()})
	done := make(chan struct{})
	go func() {
		switch c {
		case "start":
			s.tr.Start()
		case "stop":
			s.tr.Stop()
		case "verify":
			s.tr.Verify()
		}
		close(done)
	}()
	select {
	case <-done:
	case <-time.After(20 * time.Second):
		T.Emit(vh.Ev{"ev": "hang", "c": c})
	}
	// the call returns when the loop has taken the command; wait for the snapshot taken after it was handled
	hub.Wait(s.id, 10*time.Second, func(v *torrent.VerifSnap) bool { return v.Seq > before })
}

// cmdAtGate issues a command while the allocator / verifier is held inside a storage call: the call returns when
// the loop has taken the command (it may then block in allocator.Close / verifier.Close); only then the gate opens.
func (s *scen) cmdAtGate(c string) {
	s.desc = append(s.desc, "@gate:"+c)
	var before uint64
	if v := hub.Get(s.id); v != nil {
		before = v.Seq
	}
	T.Emit(vh.Ev{"ev": "cmd", "c": c, "after": s.seen()})
	done := make(chan struct{})
	go func() {
		switch c {
		case "start":
			s.tr.Start()
		case "stop":
			s.tr.Stop()
		case "verify":
			s.tr.Verify()
		}
		close(done)
	}()
	select {
	case <-done:
	case <-time.After(5 * time.Second):
	}
	time.Sleep(2 * time.Millisecond)
	s.g.release()
	hub.Wait(s.id, 10*time.Second, func(v *torrent.VerifSnap) bool { return v.Seq > before })
}

// settle waits until the torrent rests (Stopped, or running with no allocator / verifier), or the gate holds.
func (s *scen) settle() string {
	res := ""
	hub.Wait(s.id, 20*time.Second, func(v *torrent.VerifSnap) bool {
		if s.g.holding.Load() {
			res = "gate"
			return true
		}
		if v.Status == "Stopped" || v.Status == "Downloading" || v.Status == "Seeding" {
			res = v.Status
			return true
		}
		return false
	})
	if res == "gate" {
		return res
	}
	// the hub emits a snapshot after it has woken the waiter; two more loop events make sure that the snapshot
	// which ended the wait is in the trace before anything the driver emits next
	s.tr.Stats()
	s.tr.Stats()
	if res == "Stopped" || res == "Downloading" || res == "Seeding" {
		time.Sleep(2 * time.Millisecond)
		T.Emit(vh.Ev{"ev": "handles", "n": s.prov.OpenHandles(), "after": s.seen()})
	}
	return res
}

func (s *scen) env(k string, fi int) {
	st := s.prov.Store(s.id)
	name := s.tor.StoragePath(fi)
	truth := s.tor.FileData(fi)
	cur := st.FileBytes(name)
	switch k {
	case "delete":
		if !st.Delete(name) {
			return
		}
	case "shorten":
		if cur == nil || len(cur) < 2 || len(cur) != len(truth) {
			return
		}
		st.Put(name, cur[:len(cur)/2])
	case "lengthen":
		if cur == nil || len(cur) != len(truth) {
			return
		}
		st.Put(name, append(cur, 1, 2, 3))
	case "restore":
		st.Put(name, truth)
	case "corrupt":
		if cur == nil || len(cur) == 0 || len(cur) != len(truth) {
			return
		}
		cur[s.rng.Intn(len(cur))] ^= 0x5a
		st.Put(name, cur)
	}
	s.desc = append(s.desc, fmt.Sprintf("%s(%d)", k, fi+1))
	T.Emit(vh.Ev{"ev": "env", "k": k, "f": fi + 1, "good": s.goodSet(), "after": s.seen()})
}

func layouts(unit int) []vh.Layout {
	ls := vh.StdLayouts(unit)
	return append(ls, vh.PadWholeLayout(unit))
}

func runScenario(id int, seed int64, dir string, directed string) []string {
	rng := rand.New(rand.NewSource(seed))
	T.Trace = id
	var ls []vh.Layout
	for _, l := range layouts(16384) {
		ls = append(ls, l)
	}
	lay := ls[rng.Intn(len(ls))]
	if directed != "" {
		for _, l := range ls {
			if l.Name == "multi" {
				lay = l
			}
		}
	}
	tor := vh.Build(lay, seed, nil, nil)
	cfg, err := vh.BaseConfig(dir, 4)
	if err != nil {
		panic(err)
	}
	os.Remove(cfg.Database)
	prov := vh.NewMemProvider(T)
	prov.Truth[""] = tor
	cfg.CustomStorage = prov
	g := &gate{}
	prov.SetHook(g.hook)
	sess, err := torrent.NewSession(cfg)
	if err != nil {
		panic(err)
	}
	defer sess.Close()
	tr, err := sess.AddTorrent(bytes.NewReader(tor.Bytes), &torrent.AddTorrentOptions{Stopped: true})
	if err != nil {
		panic(fmt.Sprintf("%s: %v", lay.Name, err))
	}
	s := &scen{tor: tor, prov: prov, tr: tr, id: tr.ID(), g: g, rng: rng}
	st := prov.Store(s.id)
	// initial files
	var data []int
	kind := make([]string, len(tor.Files))
	fs := make([]string, len(tor.Files))
	for fi, f := range tor.Files {
		switch {
		case f.Pad:
			kind[fi], fs[fi] = "pad", "ok"
			continue
		case f.Length == 0:
			kind[fi] = "empty"
		default:
			kind[fi] = "data"
			data = append(data, fi)
		}
		c := rng.Intn(5)
		if directed != "" {
			c = 1
		}
		name := tor.StoragePath(fi)
		truth := tor.FileData(fi)
		switch {
		case c == 0:
			fs[fi] = "absent"
		case c == 1 || c == 2 || f.Length == 0:
			fs[fi] = "ok"
			st.Put(name, truth)
		case c == 3: // right size, damaged content
			fs[fi] = "ok"
			d := append([]byte(nil), truth...)
			d[rng.Intn(len(d))] ^= 0x77
			st.Put(name, d)
		default:
			fs[fi] = "short"
			st.Put(name, truth[:len(truth)/2])
		}
	}
	pf := make([][]int, tor.NumPieces)
	for p := range pf {
		pf[p] = []int{}
		ps := int64(p) * int64(tor.PieceLen)
		pe := ps + int64(tor.PieceLenOf(p))
		for fi, f := range tor.Files {
			lo, hi := max(ps, tor.FileStart(fi)), min(pe, tor.FileStart(fi)+f.Length)
			if lo < hi {
				pf[p] = append(pf[p], fi+1)
			}
		}
	}
	T.Emit(vh.Ev{"ev": "init", "nf": len(tor.Files), "np": tor.NumPieces, "kind": kind, "pf": pf, "fs": fs, "good": s.goodSet(), "layout": lay.Name})
	tr.Stats()

	nOpen := 0
	for _, k := range kind {
		if k != "pad" {
			nOpen++
		}
	}
	if directed != "" {
		s.directed(directed, data)
	} else {
		rounds := 2 + rng.Intn(3)
		for r := 0; r < rounds; r++ {
			// arm a gate?
			gk := rng.Intn(6)
			switch gk {
			case 0:
				g.arm("open", 1+rng.Intn(nOpen), false)
			case 1:
				g.arm("read", 1+rng.Intn(tor.NumPieces), false)
			case 2:
				g.arm("open", 1+rng.Intn(nOpen), true)
			case 3:
				g.arm("read", 1+rng.Intn(tor.NumPieces), true)
			}
			if rng.Intn(4) == 0 {
				s.cmd("verify")
			} else {
				s.cmd("start")
			}
			if s.settle() == "gate" {
				// a command arrives while the allocator / verifier is inside the storage call
				c := []string{"stop", "verify", "start", "stop"}[rng.Intn(4)]
				s.cmdAtGate(c)
				if c == "start" {
					s.settle()
					s.cmd("stop")
				}
			}
			g.release()
			res := s.settle()
			if res != "Stopped" {
				if rng.Intn(5) == 0 {
					s.cmd("verify")
				} else {
					s.cmd("stop")
				}
				res = s.settle()
				if res != "Stopped" { // a Verify restarted the torrent
					res = s.settle()
				}
			}
			if res != "Stopped" {
				s.cmd("stop")
				if s.settle() != "Stopped" {
					T.Emit(vh.Ev{"ev": "abort"})
					break
				}
			}
			// external changes while stopped
			if len(data) > 0 && rng.Intn(3) > 0 {
				k := []string{"delete", "shorten", "lengthen", "restore", "corrupt", "delete"}[rng.Intn(6)]
				s.env(k, data[rng.Intn(len(data))])
			}
		}
	}
	g.release()
	if s.settle() != "Stopped" {
		s.cmd("stop")
		s.settle()
	}
	return s.desc
}

// directed scenarios: the counterexamples of MC_Startup_asis*.cfg against the real code.
func (s *scen) directed(name string, data []int) {
	run := func() {
		s.cmd("start")
		s.settle()
		s.cmd("stop")
		s.settle()
	}
	switch name {
	case "size": // verified, stopped, a file loses its tail, started again
		run()
		s.env("shorten", data[0])
		run()
	case "allocstop": // verified, stopped, a file deleted, Start, Stop after the allocator re-created it, Start
		run()
		s.env("delete", data[0])
		s.g.arm("open", 2, false)
		s.cmd("start")
		s.settle()
		s.cmdAtGate("stop")
		s.settle()
		run()
	case "allocerr": // ... Start, the second Open fails after the first file was re-created, Start
		run()
		s.env("delete", data[0])
		s.g.arm("open", 2, true)
		s.cmd("start")
		s.settle()
		run()
	case "lengthen":
		run()
		s.env("lengthen", data[0])
		run()
	case "delete":
		run()
		s.env("delete", data[0])
		run()
	}
}

func project(evs []vh.Ev, tor func(int) *vh.Torrent, out *bufio.Writer, corrupt string) int {
	var lines, held []map[string]any
	var lastRead map[string]any
	lastPh := ""
	// The allocator / verifier goroutine is started inside the handler whose snapshot is taken afterwards: its first
	// storage calls are concurrent with that snapshot. A goroutine line that arrives before the snapshot of its own phase
	// is held back until the next snapshot (a valid linearization); a line that is still out of phase then is judged stale.
	var heldDrv []map[string]any
	var maxSeq uint64
	w := func(m map[string]any) {
		if a, ok := m["after"].(uint64); ok && m["op"] != "Snap" {
			if a > maxSeq || len(heldDrv) > 0 {
				heldDrv = append(heldDrv, m)
				return
			}
			delete(m, "after")
		}
		switch m["op"] {
		case "Open":
			if lastPh != "Alloc" {
				held = append(held, m)
				return
			}
		case "Read":
			if lastPh != "Verify" {
				held = append(held, m)
				return
			}
		case "Snap":
			lastPh = m["ph"].(string)
			if q, ok := m["lseq"].(uint64); ok && q > maxSeq {
				maxSeq = q
			}
			delete(m, "lseq")
			lines = append(lines, m)
			lines = append(lines, held...)
			held = nil
			for len(heldDrv) > 0 && heldDrv[0]["after"].(uint64) <= maxSeq {
				d := heldDrv[0]
				heldDrv = heldDrv[1:]
				delete(d, "after")
				lines = append(lines, d)
			}
			return
		case "Init":
			lines = append(lines, held...)
			held = nil
			for _, d := range heldDrv {
				delete(d, "after")
				lines = append(lines, d)
			}
			heldDrv = nil
			maxSeq = 0
			lastPh = ""
		}
		lines = append(lines, m)
	}
	errClass := func(s string) string {
		switch {
		case s == "":
			return ""
		case strings.Contains(s, "allocation error"):
			return "alloc"
		case strings.Contains(s, "verification error"):
			return "verify"
		}
		return "other"
	}
	corrupted := false
	var cur *vh.Torrent
	for _, e := range evs {
		switch e["ev"] {
		case "init":
			cur = tor(e["tr"].(int))
			w(map[string]any{"op": "Init", "nf": e["nf"], "np": e["np"], "kind": e["kind"], "pf": e["pf"], "fs": e["fs"], "good": e["good"], "tr": e["tr"], "layout": e["layout"]})
		case "cmd":
			w(map[string]any{"op": "Cmd", "c": e["c"], "after": u64(e["after"])})
		case "env":
			w(map[string]any{"op": "Env", "k": e["k"], "f": e["f"], "good": e["good"], "after": u64(e["after"])})
		case "handles":
			w(map[string]any{"op": "Handles", "n": e["n"], "after": u64(e["after"])})
		case "sto":
			if cur == nil {
				continue
			}
			name, _ := e["file"].(string)
			fi := cur.FileIndex(name)
			if fi < 0 {
				continue
			}
			switch {
			case e["op"] == "open" && e["phase"] == "exit":
				_, isErr := e["err"]
				ex, _ := e["exists"].(bool)
				if corrupt == "exists" && !corrupted && !isErr {
					ex, corrupted = !ex, true
				}
				w(map[string]any{"op": "Open", "f": fi + 1, "exists": ex, "err": isErr})
			case e["op"] == "read" && e["phase"] == "enter":
				pcs := cur.PiecesOfRange(fi, e["off"].(int64), e["len"].(int))
				if len(pcs) == 0 {
					continue
				}
				lastRead = map[string]any{"op": "Read", "p": pcs[0] + 1, "err": false}
				w(lastRead)
			}
		case "inj":
			if e["op"] == "read" {
				// the enter line of the failed read was written just before: mark it
				if lastRead != nil {
					lastRead["err"] = true
				}
			}
		case "snap":
			status, _ := e["status"].(string)
			ph := map[string]string{"Stopped": "Stopped", "Stopping": "Stopping", "Allocating": "Alloc", "Verifying": "Verify", "Downloading": "Run", "Seeding": "Run"}[status]
			if ph == "" {
				ph = status
			}
			have := []int{}
			if hv, ok := e["have"].([]any); ok {
				for _, x := range hv {
					have = append(have, int(x.(float64))+1)
				}
			}
			bfnil, _ := e["bitfieldNil"].(bool)
			dv, _ := e["doVerify"].(bool)
			le, _ := e["lastErr"].(string)
			if corrupt == "have" && !corrupted && ph == "Run" && len(have) > 0 && len(have) < cur.NumPieces {
				for p := 1; p <= cur.NumPieces; p++ {
					found := false
					for _, h := range have {
						found = found || h == p
					}
					if !found {
						have = append(have, p)
						corrupted = true
						break
					}
				}
			}
			if corrupt == "phase" && !corrupted && ph == "Verify" {
				ph, corrupted = "Run", true
			}
			w(map[string]any{"op": "Snap", "ph": ph, "seeding": status == "Seeding", "bfnil": bfnil, "have": have, "dv": dv, "err": errClass(le), "lseq": u64(e["lseq"])})
		}
	}
	lines = append(lines, held...)
	for _, d := range heldDrv {
		delete(d, "after")
		lines = append(lines, d)
	}
	for _, m := range lines {
		b, _ := json.Marshal(m)
		out.Write(b)
		out.WriteByte('\n')
	}
	return len(lines)
}

func main() {
	if len(os.Args) < 2 || os.Args[1] != "run" {
		fmt.Fprintln(os.Stderr, "usage: x09 run -seed N -n K -out f")
		os.Exit(2)
	}
	fl := flag.NewFlagSet("run", flag.ExitOnError)
	seed := fl.Int64("seed", 1, "")
	n := fl.Int("n", 10, "")
	outp := fl.String("out", "trace.ndjson", "")
	corrupt := fl.String("corrupt", "", "")
	dirflag := fl.String("dir", "", "")
	fl.Parse(os.Args[2:])
	var err error
	T, err = vh.NewTracer("")
	if err != nil {
		panic(err)
	}
	T.Keep = true
	torrent.DisableLogging()
	hub = vh.InstallSnapHub(T, true)
	hub.Dedup = false
	dir := *dirflag
	if dir == "" {
		dir, _ = os.MkdirTemp("/var/tmp", "x09-")
		defer os.RemoveAll(dir)
	}
	f, err := os.Create(*outp)
	if err != nil {
		panic(err)
	}
	out := bufio.NewWriterSize(f, 1<<20)
	tors := map[int]*vh.Torrent{}
	directed := []string{"size", "allocstop", "allocerr", "lengthen", "delete"}
	info := []map[string]any{}
	for i := 0; i < *n; i++ {
		d := ""
		if i < len(directed) {
			d = directed[i]
		}
		sd := *seed*100003 + int64(i)
		// the layout chosen inside runScenario is a function of the seed: rebuild it for the projection
		T.Mem = T.Mem[:0]
		desc := runScenario(i+1, sd, dir, d)
		evs := T.Snapshot()
		var cur *vh.Torrent
		for _, e := range evs {
			if e["ev"] == "init" {
				name := e["layout"].(string)
				for _, l := range layouts(16384) {
					if l.Name == name {
						cur = vh.Build(l, sd, nil, nil)
					}
				}
			}
		}
		tors[i+1] = cur
		// normalise numeric types (in-memory events hold Go ints)
		lines := project(normalize(evs), func(int) *vh.Torrent { return cur }, out, *corrupt)
		info = append(info, map[string]any{"tr": i + 1, "directed": d, "steps": desc, "lines": lines, "seed": sd})
	}
	out.Flush()
	f.Close()
	b, _ := json.Marshal(info)
	fmt.Println(string(b))
}

func u64(v any) uint64 {
	switch x := v.(type) {
	case uint64:
		return x
	case float64:
		return uint64(x)
	case int:
		return uint64(x)
	case int64:
		return uint64(x)
	}
	return 0
}

// normalize gives the in-memory events the types project expects (off int64, len int, tr int).
func normalize(evs []vh.Ev) []vh.Ev {
	for _, e := range evs {
		if v, ok := e["have"]; ok {
			b, _ := json.Marshal(v)
			var a []any
			json.Unmarshal(b, &a)
			e["have"] = a
		}
		if v, ok := e["off"].(int); ok {
			e["off"] = int64(v)
		}
		if _, ok := e["off"]; !ok {
			e["off"] = int64(0)
		}
		if v, ok := e["len"].(int64); ok {
			e["len"] = int(v)
		}
	}
	return evs
}
