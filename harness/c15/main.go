// Command c15: real torrent.Session instances announce to scripted HTTP/UDP trackers; everything the trackers RECEIVE
// (plus the driver's start/stop/announce calls, the observed completion, the peer id seen in a BT handshake) is written
// as ndjson for spec/Trace_Announce.tla.  Scenarios mostly sleep, so many run in parallel goroutines.
package main

import (
	"encoding/hex"
	"encoding/json"
	"flag"
	"fmt"
	"math/rand"
	"os"
	"sync"
	"sync/atomic"
	"time"

	"github.com/cenkalti/rain/v2/internal/verif/annh"
	"github.com/cenkalti/rain/v2/internal/verif/vh"
	"github.com/cenkalti/rain/v2/torrent"
)

var ivals = []*int64{nil, vh.I64(-1), vh.I64(0), vh.I64(1), vh.I64(2), vh.I64(2147483647)}

type tspec struct {
	udp  bool
	tier int
	plan func(n int, r vh.AnnReq) annh.Rep
	late bool // not in the .torrent: added with Torrent.AddTracker during the scenario
}

type step struct {
	op string // sleep | need | seed | stop | start | waitann | addtracker | release | waitstatus | stopnowait | waitstopped
	ms int
	k  int
	n  int
}

type spec struct {
	kind    string
	name    string
	cmin    int
	trk     []tspec
	prefill bool
	size    int64
	steps   []step
	storm   bool // a reply with interval <= 0 is scripted while the torrent needs no peers: cap the announces
	gate    string // "open" | "read": storage operations of that kind block until the "release" step (holds Allocating / Verifying)
	addFirst bool  // AddTracker before the torrent is started (state Stopped)
	cond    func() bool // step "waitcond"
	rtx     bool   // retransmission family: three torrents on one UDP tracker (runRtx)
}

const stormCap = 150

// scenario families of genSpecs (i % nFamilies); family 13 (completefail) is enabled with -families 14
var nFamilies = 13

func pick(rng *rand.Rand, xs []*int64) *int64 { return xs[rng.Intn(len(xs))] }

func ivName(p *int64) string {
	if p == nil {
		return "absent"
	}
	return fmt.Sprint(*p)
}

// plans
func planSeq(reps []annh.Rep) func(int, vh.AnnReq) annh.Rep {
	return func(n int, r vh.AnnReq) annh.Rep {
		if n-1 < len(reps) {
			return reps[n-1]
		}
		return reps[len(reps)-1]
	}
}

func okRep(iv, miv *int64) annh.Rep { return annh.OK(iv, miv) }

func genSpecs(seed int64, n int, tier string) []spec {
	rng := rand.New(rand.NewSource(seed*7919 + 17))
	var out []spec
	pos := []*int64{vh.I64(1), vh.I64(2)}
	cmins := []int{600, 800, 1000}
	add := func(s spec) {
		s.name = fmt.Sprintf("%s%d", s.kind, len(out)+1)
		out = append(out, s)
	}
	for len(out) < n {
		i := len(out)
		switch i % nFamilies {
		case 10, 11: // Torrent.AddTracker in every torrent state: one announcer per tracker per run, whenever the tracker arrives
			states := []string{"stopped", "allocating", "verifying", "downloading", "seeding", "stopping"}
			st := states[(2*(i/nFamilies)+(i%nFamilies-10))%6]
			rs := []annh.Rep{okRep(vh.I64(1), nil)}
			sp := spec{kind: "addtracker-" + st, cmin: 800, size: 40000,
				trk: []tspec{{udp: rng.Intn(2) == 0, tier: 0, plan: planSeq(rs)}, {udp: rng.Intn(2) == 0, tier: 1, plan: planSeq(rs), late: true}}}
			tail := []step{{op: "sleep", ms: 1900 + rng.Intn(500)}, {op: "stop"}}
			switch st {
			case "stopped":
				sp.addFirst = true
				sp.steps = tail
			case "allocating":
				sp.gate = "open"
				sp.steps = append([]step{{op: "waitstatus", n: int(torrent.Allocating), ms: 3000}, {op: "sleep", ms: 100}, {op: "addtracker"}, {op: "sleep", ms: 150}, {op: "release"}}, tail...)
			case "verifying":
				sp.gate, sp.prefill = "read", true
				sp.steps = append([]step{{op: "waitstatus", n: int(torrent.Verifying), ms: 3000}, {op: "sleep", ms: 100}, {op: "addtracker"}, {op: "sleep", ms: 150}, {op: "release"}}, tail...)
			case "downloading":
				sp.steps = append([]step{{op: "sleep", ms: 300 + rng.Intn(600)}, {op: "addtracker"}}, tail...)
			case "seeding":
				sp.prefill = true
				sp.steps = append([]step{{op: "sleep", ms: 300 + rng.Intn(600)}, {op: "addtracker"}}, tail...)
			case "stopping":
				sp.steps = append([]step{{op: "sleep", ms: 700}, {op: "stopnowait"}, {op: "addtracker"}, {op: "waitstopped"}, {op: "start"}}, tail...)
			}
			add(sp)
		case 12: // BEP 15 retransmission: the tracker ignores the first datagram of torrent 1 while two other torrents keep announcing
			add(spec{kind: "rtx", cmin: 800, size: 40000, rtx: true})
		case 13: // the download completes during the run and the announce that carries "completed" ENDS WITHOUT AN ACCEPTED REPLY
			// (failure reason / undecodable reply / reply lost: HTTP time-out / HTTP 500 / UDP error packet): the tracker has seen
			// (and may have counted) the event, so the retry after the error back-off (2.5-7.5 s, real time) carries no event
			r := i/nFamilies + int(seed%7)
			udp := r%2 == 1
			bads := []string{"fail", "garbage", "timeout", "http500"}
			if udp {
				bads = []string{"fail", "garbage", "failbenc"}
			}
			bad := bads[(r/2)%len(bads)]
			tier2 := (r/2)%3 == 2 // a two-member tier: the retry goes to the next member (still no second "completed")
			var nCompleted, nAfter atomic.Int64 // announces with "completed" / announces that arrived after the first of them
			plan := func(n int, q vh.AnnReq) annh.Rep {
				if nCompleted.Load() > 0 {
					nAfter.Add(1)
				}
				if q.Event != "completed" {
					return okRep(vh.I64(2), nil)
				}
				nCompleted.Add(1)
				switch bad {
				case "http500":
					return annh.Rep{Kind: "garbage", Up: true, Status: 500}
				case "failbenc":
					return annh.Rep{Kind: "fail", Up: true, Msg: string(vh.Enc(vh.Dict{"failure reason": "database is busy"}))}
				}
				return annh.Rep{Kind: bad, Up: true}
			}
			trk := []tspec{{udp: udp, tier: 0, plan: plan}}
			if tier2 {
				trk = append(trk, tspec{udp: udp, tier: 0, plan: plan})
			}
			add(spec{kind: "completefail", cmin: 800, size: 40000 + int64(rng.Intn(3))*16384, trk: trk,
				steps: []step{{op: "sleep", ms: 150 + rng.Intn(300)}, {op: "seed"}, {op: "waitcond", ms: 20000}, {op: "sleep", ms: 300}, {op: "stop"}},
				cond: func() bool { return nAfter.Load() > 0 }})
		case 0, 1: // idle leecher (needs peers: the min interval governs), HTTP + UDP, arbitrary interval values
			var h, u []annh.Rep
			for j := 0; j < 6; j++ {
				h = append(h, okRep(pick(rng, ivals), pick(rng, ivals)))
				u = append(u, okRep(pick(rng, ivals), nil))
			}
			st := []step{{op: "sleep", ms: 1200 + rng.Intn(1500)}}
			if rng.Intn(2) == 0 {
				st = append(st, step{op: "need"}, step{op: "sleep", ms: 40}, step{op: "need"}, step{op: "sleep", ms: 900})
			}
			st = append(st, step{op: "stop"})
			if rng.Intn(2) == 0 {
				st = append(st, step{op: "start"}, step{op: "sleep", ms: 900 + rng.Intn(600)}, step{op: "stop"})
			}
			add(spec{kind: "idle", cmin: cmins[rng.Intn(3)], size: 40000,
				trk: []tspec{{udp: false, tier: 0, plan: planSeq(h)}, {udp: true, tier: 1, plan: planSeq(u)}}, steps: st})
		case 2, 3: // download completes during the run (scripted seeder): completed exactly once, counters, restart
			udp := i%10 == 3
			rs := []annh.Rep{okRep(pick(rng, pos), pick(rng, []*int64{nil, vh.I64(1), vh.I64(0)}))}
			st := []step{{op: "sleep", ms: 150 + rng.Intn(300)}, {op: "seed"}, {op: "sleep", ms: 1300 + rng.Intn(900)}, {op: "stop"},
				{op: "start"}, {op: "sleep", ms: 700 + rng.Intn(500)}, {op: "stop"}}
			add(spec{kind: "complete", cmin: cmins[rng.Intn(3)], size: 40000 + int64(rng.Intn(3))*16384,
				trk: []tspec{{udp: udp, tier: 0, plan: planSeq(rs)}, {udp: !udp, tier: 1, plan: planSeq(rs)}}, steps: st})
		case 4: // complete from the start (seeding): never "completed"; manual announces must respect the gap
			rs := []annh.Rep{okRep(pick(rng, pos), pick(rng, []*int64{nil, vh.I64(1)}))}
			st := []step{{op: "sleep", ms: 500 + rng.Intn(400)}}
			for j := 0; j < 3+rng.Intn(4); j++ {
				st = append(st, step{op: "need"}, step{op: "sleep", ms: 20 + rng.Intn(250)})
			}
			st = append(st, step{op: "sleep", ms: 1200}, step{op: "stop"})
			add(spec{kind: "seed", cmin: cmins[rng.Intn(3)], size: 40000, prefill: true,
				trk: []tspec{{udp: rng.Intn(2) == 0, tier: 0, plan: planSeq(rs)}, {udp: false, tier: 1, plan: planSeq(rs)}}, steps: st})
		case 5: // a tracker that never accepts anything must not get "stopped"; another one accepts
			bad := []string{"fail", "garbage", "timeout", "retry"}[rng.Intn(4)]
			rs := []annh.Rep{{Kind: bad}}
			okr := []annh.Rep{okRep(vh.I64(2), nil)}
			add(spec{kind: "unaccepted", cmin: 800, size: 40000,
				trk: []tspec{{udp: false, tier: 0, plan: planSeq(rs)}, {udp: bad == "fail" || bad == "garbage", tier: 1, plan: planSeq(rs)},
					{udp: rng.Intn(2) == 0, tier: 2, plan: planSeq(okr)}},
				steps: []step{{op: "sleep", ms: 1300 + rng.Intn(400)}, {op: "stop"}}})
		case 6: // manual announces on an idle leecher
			rs := []annh.Rep{okRep(pick(rng, ivals), pick(rng, ivals))}
			us := []annh.Rep{okRep(pick(rng, ivals), nil)}
			st := []step{{op: "sleep", ms: 300}}
			for j := 0; j < 6+rng.Intn(6); j++ {
				st = append(st, step{op: "need"}, step{op: "sleep", ms: 10 + rng.Intn(300)})
			}
			st = append(st, step{op: "sleep", ms: 700}, step{op: "stop"})
			add(spec{kind: "manual", cmin: cmins[rng.Intn(3)], size: 40000,
				trk: []tspec{{udp: false, tier: 0, plan: planSeq(rs)}, {udp: true, tier: 1, plan: planSeq(us)}}, steps: st})
		case 7: // two-member tier: the first member answers once, then fails; stop before the retry
			rs := []annh.Rep{okRep(vh.I64(1), nil), {Kind: "fail"}, okRep(vh.I64(1), nil)}
			add(spec{kind: "tierstop", cmin: 600, size: 40000,
				trk: []tspec{{udp: false, tier: 0, plan: planSeq(rs)}, {udp: false, tier: 0, plan: planSeq(rs)}},
				steps: []step{{op: "waitann", k: 0, n: 2, ms: 4000}, {op: "sleep", ms: 300}, {op: "stop"}}})
		case 8: // seeding torrent (needs no peers) and a reply whose interval is absent / zero / negative
			iv := []*int64{nil, vh.I64(0), vh.I64(-1)}[rng.Intn(3)]
			udp := rng.Intn(2) == 0
			if udp && iv == nil {
				iv = vh.I64(0)
			}
			rs := []annh.Rep{okRep(iv, pick(rng, []*int64{nil, vh.I64(0), vh.I64(-1), vh.I64(1)}))}
			add(spec{kind: "nonpos", cmin: 800, size: 40000, prefill: true, storm: true,
				trk:   []tspec{{udp: udp, tier: 0, plan: planSeq(rs)}},
				steps: []step{{op: "sleep", ms: 1500}, {op: "stop"}}})
		case 9: // completion while an announce is in flight (slow tracker): "completed" goes out at once, exactly once
			rs := []annh.Rep{{Kind: "ok", IV: vh.I64(2), Delay: 700 * time.Millisecond, Up: true}, okRep(vh.I64(2), nil)}
			add(spec{kind: "inflight", cmin: 800, size: 40000,
				trk:   []tspec{{udp: false, tier: 0, plan: planSeq(rs)}},
				steps: []step{{op: "sleep", ms: 100}, {op: "seed"}, {op: "sleep", ms: 1500}, {op: "stop"}}})
		}
	}
	return out
}

type result struct {
	Kind string `json:"kind"`
	Name string `json:"name"`
	Err  string `json:"err,omitempty"`
	Anns int    `json:"anns"`
}

func run(sp spec, root string, seed int64) *annh.Sc {
	sc := annh.NewSc(sp.name, sp.kind)
	sc.Cmin = sp.cmin
	sc.Meta["storm"] = sp.storm
	env, err := annh.NewEnv(root, func(c *torrent.Config) {
		c.TrackerMinAnnounceInterval = time.Duration(sp.cmin) * time.Millisecond
		c.TrackerHTTPTimeout = time.Duration(sc.HTTPTO) * time.Millisecond
		c.TrackerStopTimeout = 800 * time.Millisecond
	})
	if err != nil {
		sc.Fail("session: %v", err)
		return sc
	}
	defer env.Close()
	var trks []*annh.Trk
	tiers := map[int][]string{}
	tierKs := map[int][]int{}
	maxTier := 0
	var stormHit atomic.Bool
	if sp.rtx {
		return runRtx(sp, sc, root, seed)
	}
	gate := make(chan struct{})
	var gateOnce sync.Once
	if sp.gate != "" {
		env.Prov.SetHook(func(phase, op, tid, name string, off int64, n int) error {
			if phase == "enter" && op == sp.gate {
				select {
				case <-gate:
				case <-time.After(20 * time.Second):
				}
			}
			return nil
		})
		defer gateOnce.Do(func() { close(gate) })
	}
	var lateURLs []string
	for i, ts := range sp.trk {
		k, err := annh.NewTrk(sc, i+1, ts.udp, ts.plan)
		if err != nil {
			sc.Fail("tracker: %v", err)
			return sc
		}
		defer k.Close()
		k.TorOf = 1
		if sp.storm {
			k.OnAnn = func(n int, r vh.AnnReq) {
				if n >= stormCap {
					stormHit.Store(true)
				}
			}
			inner := ts.plan
			k.Plan = func(n int, r vh.AnnReq) annh.Rep {
				if n >= stormCap { // protect the machine: from here on the tracker asks for a long interval
					return annh.OK(vh.I64(1800), nil)
				}
				return inner(n, r)
			}
		}
		trks = append(trks, k)
		if sp.kind == "addtracker-stopping" && !ts.late {
			k.StopDelay = 400 * time.Millisecond
		}
		if ts.late {
			lateURLs = append(lateURLs, k.URL())
		} else {
			tiers[ts.tier] = append(tiers[ts.tier], k.URL())
		}
		tierKs[ts.tier] = append(tierKs[ts.tier], i+1)
		sc.Trk = append(sc.Trk, annh.TrkCfg{UDP: ts.udp, Dest: i + 1, Up0: true})
		if ts.tier > maxTier {
			maxTier = ts.tier
		}
	}
	var tl [][]string
	for t := 0; t <= maxTier; t++ {
		if len(tiers[t]) > 0 {
			tl = append(tl, tiers[t])
		}
		sc.Ann = append(sc.Ann, annh.AnnCfg{T: 1, Ks: tierKs[t]})
	}
	tor := annh.SmallTorrent("c15-"+sp.name, sp.size, seed, tl)
	left0 := tor.Total
	if sp.prefill {
		left0 = 0
	}
	sc.Tor = []annh.TorCfg{{IH: hex.EncodeToString(tor.InfoHash[:]), Total: tor.Total, Left0: left0}}
	id := "t-" + sp.name
	tr, err := env.Add(tor, id, true, sp.prefill)
	if err != nil {
		sc.Fail("add: %v", err)
		return sc
	}
	addTrackers := func() bool {
		for _, u := range lateURLs {
			sc.Line("note", map[string]any{"what": "addtracker", "status": int(tr.Stats().Status)})
			if err := tr.AddTracker(u); err != nil {
				sc.Fail("addtracker: %v", err)
				return false
			}
		}
		return true
	}
	if sp.addFirst && !addTrackers() {
		return sc
	}
	sc.Line("start", map[string]any{"t": 1})
	if err := tr.Start(); err != nil {
		sc.Fail("start: %v", err)
		return sc
	}
	port := tr.Port()
	sc.Tor[0].Port = port
	// the peer id rain presents to peers for this torrent (the acceptor may open late: gated allocation / verification)
	pidC := make(chan string, 1)
	go func() {
		for try := 0; try < 12; try++ {
			if pid, err := annh.HandshakePeerID("127.0.0.9", port, tor.InfoHash); err == nil {
				pidC <- pid
				return
			}
		}
		pidC <- ""
	}()
	pidKnown := false
	getPID := func() bool {
		if pidKnown {
			return true
		}
		select {
		case pid := <-pidC:
			if pid == "" {
				sc.Fail("handshake failed")
				return false
			}
			sc.Tor[0].PID, pidKnown = pid, true
			return true
		case <-time.After(25 * time.Second):
			sc.Fail("handshake timed out")
			return false
		}
	}
	if !sp.prefill {
		go func() {
			select {
			case <-tr.NotifyComplete():
				sc.Line("complete", map[string]any{"t": 1})
			case <-tr.NotifyClose():
			}
		}()
	}
	var seeder *vh.Seeder
	running := true
	for _, st := range sp.steps {
		switch st.op {
		case "sleep":
			dl := time.Now().Add(time.Duration(st.ms) * time.Millisecond)
			for time.Now().Before(dl) {
				if sp.storm && stormHit.Load() {
					break
				}
				time.Sleep(5 * time.Millisecond)
			}
		case "waitann":
			annh.WaitUntil(time.Duration(st.ms)*time.Millisecond, func() bool {
				var tot int64
				for _, k := range trks {
					tot += k.Count.Load()
				}
				return tot >= int64(st.n)
			})
		case "waitcond":
			annh.WaitUntil(time.Duration(st.ms)*time.Millisecond, sp.cond)
		case "need":
			sc.Line("need", map[string]any{"t": 1})
			tr.Announce()
		case "seed":
			if !getPID() { // also makes sure that the acceptor is listening
				return sc
			}
			sd, err := vh.ConnectSeeder(annh.Null, "seed-"+sp.name, "127.0.0.2", fmt.Sprintf("127.0.0.1:%d", port), tor, &vh.SeederPolicy{})
			if err != nil {
				sc.Fail("seeder: %v", err)
				return sc
			}
			sd.Quiet = true
			seeder = sd
			select {
			case <-tr.NotifyComplete():
			case <-time.After(8 * time.Second):
				sc.Fail("download did not complete")
				return sc
			}
		case "addtracker":
			if !addTrackers() {
				return sc
			}
		case "release":
			gateOnce.Do(func() { close(gate) })
		case "waitstatus":
			if !annh.WaitUntil(time.Duration(st.ms)*time.Millisecond, func() bool { return int(tr.Stats().Status) == st.n }) {
				sc.Fail("status %d not reached (now %d)", st.n, int(tr.Stats().Status))
				return sc
			}
		case "stopnowait":
			if !getPID() {
				return sc
			}
			sc.Line("stop", map[string]any{"t": 1})
			tr.Stop()
			running = false
		case "waitstopped":
			if !annh.WaitUntil(5*time.Second, func() bool { return tr.Stats().Status == torrent.Stopped }) {
				sc.Fail("torrent did not stop")
				return sc
			}
			time.Sleep(30 * time.Millisecond)
		case "stop":
			if !running {
				continue
			}
			if !getPID() { // the torrent is still running here, so the probe has had its chance
				return sc
			}
			// counters at a quiescent point: nothing is transferred any more (no seeder, or download complete)
			stt := tr.Stats()
			if seeder == nil || stt.Status == torrent.Seeding {
				sc.Line("stats", map[string]any{"t": 1, "up": stt.Bytes.Uploaded, "down": stt.Bytes.Downloaded, "left": stt.Bytes.Incomplete})
			}
			sc.Line("stop", map[string]any{"t": 1})
			tr.Stop()
			running = false
			if !annh.WaitUntil(5*time.Second, func() bool { return tr.Stats().Status == torrent.Stopped }) {
				sc.Fail("torrent did not stop")
				return sc
			}
			time.Sleep(30 * time.Millisecond)
		case "start":
			sc.Line("start", map[string]any{"t": 1})
			if err := tr.Start(); err != nil {
				sc.Fail("start: %v", err)
				return sc
			}
			running = true
		}
	}
	if seeder != nil {
		sc.Tor[0].Dmax = (seeder.Served.Load() + 1) * 16384
		seeder.Close()
	}
	if !getPID() {
		return sc
	}
	sc.Line("end", nil)
	sc.Meta["storm_hit"] = stormHit.Load()
	return sc
}

// runRtx: five torrents of one session share one UDP tracker (one transport, one socket). The tracker ignores the first
// announce datagram of torrent 1, so BEP 15 makes the client retransmit it (15 s, fixed in udptracker/backoff.go) while
// torrents 2 and 3 keep announcing through the same transport. The first announce of torrents 4 and 5 is answered with an
// ERROR packet (action 3: plain text / bencoded failure reason), the retry of the announcer is accepted with a long interval:
// a transaction that was answered - by data or by an error - is finished, so the observation window (first retransmission
// time-out of BEP 15 + 4.5 s) must not show another datagram with its transaction id. Every datagram that reaches the
// tracker is compared with the first one of its transaction (annh.Trk `rtx` lines).
const rtxTorrents = 5
var stall = annh.NewStallMeter()

func runRtx(sp spec, sc *annh.Sc, root string, seed int64) *annh.Sc {
	m0 := stall.Mark()
	defer func() {
		sc.Meta["max_stall_ms"] = stall.MaxSince(m0)
		if st := stall.MaxSince(m0); st > 1000 {
			sc.Fail("machine stalled for %d ms during the scenario: the retransmission deadline is not judgeable", st)
		}
	}()
	sc.Cmin, sc.Lat, sc.Slk = sp.cmin, 1500, 2000 // retransmission deadline: 15 s + 3.5 s
	env, err := annh.NewEnv(root, func(c *torrent.Config) {
		c.TrackerMinAnnounceInterval = time.Duration(sp.cmin) * time.Millisecond
		c.TrackerStopTimeout = 800 * time.Millisecond
	})
	if err != nil {
		sc.Fail("session: %v", err)
		return sc
	}
	defer env.Close()
	var first sync.Map // info-hash -> seen
	k, err := annh.NewTrk(sc, 1, true, nil)
	if err != nil {
		sc.Fail("tracker: %v", err)
		return sc
	}
	defer k.Close()
	k.RtxIV = 2
	sc.Trk = []annh.TrkCfg{{UDP: true, Dest: 1, Up0: true}}
	var trs []*torrent.Torrent
	var tors []*vh.Torrent
	for i := 0; i < rtxTorrents; i++ {
		tor := annh.SmallTorrent(fmt.Sprintf("c15-%s-%d", sp.name, i), sp.size, seed*10+int64(i), [][]string{{k.URL()}})
		// torrents 4 and 5 are complete (seeding): they need no peers, so after the accepted retry the tracker's interval governs
		pre := i >= 3
		tr, err := env.Add(tor, fmt.Sprintf("t%d-%s", i, sp.name), true, pre)
		if err != nil {
			sc.Fail("add: %v", err)
			return sc
		}
		left0 := tor.Total
		if pre {
			left0 = 0
		}
		sc.Tor = append(sc.Tor, annh.TorCfg{IH: hex.EncodeToString(tor.InfoHash[:]), Port: tr.Port(), Total: tor.Total, Left0: left0})
		sc.Ann = append(sc.Ann, annh.AnnCfg{T: i + 1, Ks: []int{1}})
		trs, tors = append(trs, tr), append(tors, tor)
	}
	ihA, ihD, ihE := sc.Tor[0].IH, sc.Tor[3].IH, sc.Tor[4].IH
	k.Plan = func(n int, r vh.AnnReq) annh.Rep {
		_, seen := first.LoadOrStore(r.InfoHash, true)
		switch {
		case !seen && r.InfoHash == ihA:
			return annh.Rep{Kind: "rtx", Up: true}
		case !seen && r.InfoHash == ihD: // error packet with a plain-text message
			return annh.Rep{Kind: "fail", Up: true}
		case !seen && r.InfoHash == ihE: // error packet with a bencoded failure reason (what the client decodes)
			return annh.Rep{Kind: "fail", Up: true, Msg: string(vh.Enc(vh.Dict{"failure reason": "torrent not registered yet"}))}
		case r.InfoHash == ihD || r.InfoHash == ihE: // the retry is accepted: nothing more is due for half an hour
			return annh.OK(vh.I64(1800), nil)
		}
		return annh.OK(vh.I64(1), nil)
	}
	for i := 0; i < rtxTorrents; i++ {
		sc.Line("start", map[string]any{"t": i + 1})
		if err := trs[i].Start(); err != nil {
			sc.Fail("start: %v", err)
			return sc
		}
		if i == 0 && !annh.WaitUntil(6*time.Second, func() bool { return k.Count.Load() >= 1 }) {
			sc.Fail("first announce of torrent 1 not seen")
			return sc
		}
	}
	for i := 0; i < rtxTorrents; i++ {
		pid, err := annh.HandshakePeerID("127.0.0.9", sc.Tor[i].Port, tors[i].InfoHash)
		if err != nil {
			sc.Fail("handshake: %v", err)
			return sc
		}
		sc.Tor[i].PID = pid
	}
	// the retransmission is due 15 s after the first datagram; leave room for its answer and one more announce
	dl := time.Now().Add(19500 * time.Millisecond)
	for time.Now().Before(dl) {
		time.Sleep(250 * time.Millisecond)
		sc.Line("tick", nil)
	}
	for i := 0; i < rtxTorrents; i++ {
		sc.Line("stop", map[string]any{"t": i + 1})
		trs[i].Stop()
	}
	for i := 0; i < rtxTorrents; i++ {
		annh.WaitUntil(5*time.Second, func() bool { return trs[i].Stats().Status == torrent.Stopped })
	}
	time.Sleep(50 * time.Millisecond)
	sc.Line("end", nil)
	return sc
}

func main() {
	out := flag.String("out", "trace.ndjson", "")
	seed := flag.Int64("seed", 1, "")
	n := flag.Int("n", 20, "scenarios")
	par := flag.Int("par", 10, "parallel scenarios")
	root := flag.String("root", "", "scratch directory")
	only := flag.String("only", "", "run only scenarios of this kind (development)")
	flag.IntVar(&nFamilies, "families", 13, "scenario families (14 = with the completefail family)")
	flag.Parse()
	torrent.DisableLogging()
	if *root == "" {
		d, err := os.MkdirTemp("/var/tmp", "c15drv")
		if err != nil {
			panic(err)
		}
		*root = d
		defer os.RemoveAll(d)
	}
	specs := genSpecs(*seed, *n, "")
	if *only != "" {
		var f []spec
		for _, sp := range specs {
			if sp.kind == *only {
				f = append(f, sp)
			}
		}
		specs = f
	}
	scs := make([]*annh.Sc, len(specs))
	sem := make(chan struct{}, *par)
	var wg sync.WaitGroup
	// phase 1: everything that is timing-sensitive; phase 2: the scenarios that may provoke an announce storm
	for phase := 0; phase < 2; phase++ {
		for i, sp := range specs {
			if sp.storm != (phase == 1) {
				continue
			}
			wg.Add(1)
			sem <- struct{}{}
			go func(i int, sp spec) {
				defer wg.Done()
				defer func() { <-sem }()
				scs[i] = run(sp, *root, *seed*1000+int64(i))
			}(i, sp)
		}
		wg.Wait()
	}
	if err := annh.WriteAll(*out, scs); err != nil {
		panic(err)
	}
	var res []result
	for _, s := range scs {
		res = append(res, result{Kind: s.Kind, Name: s.Name, Err: s.Err, Anns: len(s.Lines()) - 1})
	}
	b, _ := json.Marshal(res)
	fmt.Println(string(b))
}
