package main

import (
	"fmt"
	"math/rand"
	"sort"
	"strings"

	"github.com/cenkalti/rain/v2/internal/magnet"
)

// names[0] is unused (name index 0 = no dn parameter)
var names = []string{"", "sample_torrent", "with space", "a&b=c", "100% real+plus", "ünïcödé 日本語 ✓", "semi;colon#hash", "%41%zz%",
	"path/slash?query:colon@at", "  lead and trail  ", "quote\"'<>[]{}|\\^`", "tab\tnl\ncr\r", "+", strings.Repeat("long name ", 30), ""}

var trackerPool = []string{
	"http://tracker.example.com:8080/announce",
	"udp://tracker.example.org:6969",
	"https://t.example.net/announce?passkey=ab%2Bcd&x=1 y",
	"http://[2001:db8::1]:80/announce",
	"wss://w.example/ünï#frag",
	"udp://open.example:1337/announce",
	"http://a.example/a;b=c+d",
	"http://b.example/100%",
	"udp://c.example:80",
}

var peerOf = map[string]string{
	"v4": "192.0.2.7:6881", "host": "peer.example.com:51413", "v6": "[2001:db8::2]:6881", "zone": "[fe80::1%eth0]:6881",
	"badport": "192.0.2.9:99999", "noport": "192.0.2.10",
}

const hexd = "0123456789abcdef"
const b32d = "ABCDEFGHIJKLMNOPQRSTUVWXYZ234567"

func hexOf(b []byte) string {
	var sb strings.Builder
	for _, x := range b {
		sb.WriteByte(hexd[x>>4])
		sb.WriteByte(hexd[x&15])
	}
	return sb.String()
}

// base32Of: RFC 4648 base32 of 20 bytes (exactly 32 characters, no padding) — written out here, not taken from encoding/base32.
func base32Of(b []byte) string {
	var sb strings.Builder
	var acc uint64
	bits := 0
	for _, x := range b {
		acc = acc<<8 | uint64(x)
		bits += 8
		for bits >= 5 {
			sb.WriteByte(b32d[(acc>>(uint(bits)-5))&31])
			bits -= 5
		}
	}
	if bits > 0 {
		sb.WriteByte(b32d[(acc<<(5-uint(bits)))&31])
	}
	return sb.String()
}

// esc is the driver's own query-value encoder.
func esc(s, enc string) string {
	var sb strings.Builder
	for i := 0; i < len(s); i++ {
		c := s[i]
		unres := c >= 'a' && c <= 'z' || c >= 'A' && c <= 'Z' || c >= '0' && c <= '9' || c == '-' || c == '.' || c == '_' || c == '~'
		switch enc {
		case "full":
			if unres {
				sb.WriteByte(c)
			} else {
				fmt.Fprintf(&sb, "%%%02X", c)
			}
		case "plus":
			switch {
			case unres:
				sb.WriteByte(c)
			case c == ' ':
				sb.WriteByte('+')
			default:
				fmt.Fprintf(&sb, "%%%02x", c)
			}
		default: // "min": escape only what cannot stand in a query value
			if c < 0x20 || c == 0x7f || c == ' ' || c == '#' || c == '%' || c == '&' || c == '+' || c == ';' {
				fmt.Fprintf(&sb, "%%%02X", c)
			} else {
				sb.WriteByte(c)
			}
		}
	}
	return sb.String()
}

type magExp struct {
	must   int // 1 = must parse, 0 = must be refused, 2 = either
	hashes [][20]byte
	name   string
	tiers  [][]string
	peers  []string
}

// intern maps observed strings to the ids of the expected ones (0 = none of them).
type interner struct{ m map[string]int }

func (in *interner) id(s string) int {
	if v, ok := in.m[s]; ok {
		return v
	}
	return 0
}
func newInterner(ss []string) *interner {
	in := &interner{m: map[string]int{}}
	for _, s := range ss {
		if _, ok := in.m[s]; !ok {
			in.m[s] = len(in.m) + 1
		}
	}
	return in
}

func flat(t [][]string) []string {
	var out []string
	for _, x := range t {
		out = append(out, x...)
	}
	return out
}

func tierIDs(in *interner, t [][]string) [][]int {
	out := make([][]int, 0, len(t))
	for _, ti := range t {
		x := make([]int, 0, len(ti))
		for _, s := range ti {
			x = append(x, in.id(s))
		}
		out = append(out, x)
	}
	return out
}

func strIDs(in *interner, ss []string) []int {
	out := make([]int, 0, len(ss))
	for _, s := range ss {
		out = append(out, in.id(s))
	}
	return out
}

// judgeLine emits one "Mag" line: expected (x*) vs observed (o*) fields.
func judgeLine(o *out, dir string, caseNo int, c gcase, link string, x magExp, m *magnet.Magnet, err error) {
	tin := newInterner(flat(x.tiers))
	pin := newInterner(x.peers)
	e := ev{"op": "Mag", "dir": dir, "case": caseNo, "must": x.must, "err": b2i(err != nil)}
	xh := []int{}
	for i := range x.hashes {
		xh = append(xh, i+1)
	}
	e["xhash"] = xh
	e["xname"] = 1
	e["xtiers"] = tierIDs(tin, x.tiers)
	e["xpeers"] = strIDs(pin, x.peers)
	e["ohash"], e["oname"], e["otiers"], e["opeers"] = 0, 0, [][]int{}, []int{}
	if err == nil && m != nil {
		for i, h := range x.hashes {
			if h == m.InfoHash && e["ohash"] == 0 {
				e["ohash"] = i + 1
			}
		}
		if m.Name == x.name {
			e["oname"] = 1
		}
		e["otiers"] = tierIDs(tin, m.Trackers)
		e["opeers"] = strIDs(pin, m.Peers)
		if len(m.Trackers) > 0 && len(x.tiers) > 0 {
			same := len(m.Trackers) == len(x.tiers)
			for i := 0; same && i < len(x.tiers); i++ {
				a, b := append([]string(nil), m.Trackers[i]...), append([]string(nil), x.tiers[i]...)
				sort.Strings(a)
				sort.Strings(b)
				same = strings.Join(a, "\x00") == strings.Join(b, "\x00")
			}
			e["order"] = b2i(same) // observation only: tier order kept
		}
	}
	if len(link) > 400 {
		link = link[:400]
	}
	e["link"] = link
	if c.Tiers == nil {
		c.Tiers = []int{}
	}
	if c.Peers == nil {
		c.Peers = []string{}
	}
	e["c"] = ev{"hf": c.Hf, "xt": c.Xt, "name": c.Name, "enc": c.Enc, "tiers": c.Tiers, "trform": c.Trform, "peers": c.Peers, "extra": c.Extra}
	o.emit(e)
}

func runMag(o *out, rng *rand.Rand, cases []gcase, nrand int, stats ev) {
	o.emit(initLine("mag", 1, 1, 1, 1, 1, []string{"any"}, false))
	nparse, nrt, nrej := 0, 0, 0
	// seeded random tuples over the same dimensions
	hfs := []string{"hex", "HEX", "Hex", "B32", "b32", "short", "nothex"}
	xts := []string{"one", "one", "one", "dupsame", "dupdiff", "v1v2", "v2v1", "v2only", "none", "other"}
	pks := []string{"v4", "host", "v6", "zone", "badport", "noport"}
	for r := 0; r < nrand; r++ {
		c := gcase{K: "mag", Hf: hfs[rng.Intn(len(hfs))], Xt: xts[rng.Intn(len(xts))], Name: rng.Intn(len(names)),
			Enc: []string{"full", "min", "plus"}[rng.Intn(3)], Trform: []string{"tr", "trn", "gap"}[rng.Intn(3)], Extra: rng.Intn(2)}
		if rng.Intn(3) > 0 {
			c.Hf = "hex"
		}
		for t := rng.Intn(4); t > 0; t-- {
			c.Tiers = append(c.Tiers, 1+rng.Intn(3))
		}
		for p := rng.Intn(3); p > 0; p-- {
			c.Peers = append(c.Peers, pks[rng.Intn(len(pks))])
		}
		cases = append(cases, c)
	}
	for ci, c := range cases {
		var h1, h2 [20]byte
		rng.Read(h1[:])
		rng.Read(h2[:])
		form := func(h [20]byte, hf string) string {
			switch hf {
			case "hex":
				return hexOf(h[:])
			case "HEX":
				return strings.ToUpper(hexOf(h[:]))
			case "Hex":
				s := []byte(hexOf(h[:]))
				for i := range s {
					if i%2 == 0 {
						s[i] = strings.ToUpper(string(s[i]))[0]
					}
				}
				return string(s)
			case "B32":
				return base32Of(h[:])
			case "b32":
				return strings.ToLower(base32Of(h[:]))
			case "short":
				return hexOf(h[:])[:39]
			default: // nothex
				return "g" + hexOf(h[:])[1:]
			}
		}
		wellFormed := c.Hf == "hex" || c.Hf == "HEX" || c.Hf == "Hex" || c.Hf == "B32"
		v2 := "urn:btmh:1220" + hexOf(h2[:]) + hexOf(h1[:12])
		x := magExp{}
		type kv struct{ k, v string }
		var xt []kv
		switch c.Xt {
		case "one":
			xt = []kv{{"xt", "urn:btih:" + form(h1, c.Hf)}}
			x.hashes = [][20]byte{h1}
		case "dupsame":
			xt = []kv{{"xt", "urn:btih:" + form(h1, c.Hf)}, {"xt", "urn:btih:" + form(h1, c.Hf)}}
			x.hashes = [][20]byte{h1}
		case "dupdiff":
			xt = []kv{{"xt", "urn:btih:" + form(h1, c.Hf)}, {"xt", "urn:btih:" + hexOf(h2[:])}}
			x.hashes = [][20]byte{h1, h2}
		case "v1v2":
			xt = []kv{{"xt", "urn:btih:" + form(h1, c.Hf)}, {"xt", v2}}
			x.hashes = [][20]byte{h1}
		case "v2v1":
			xt = []kv{{"xt", v2}, {"xt", "urn:btih:" + form(h1, c.Hf)}}
			x.hashes = [][20]byte{h1}
		case "v2only":
			xt = []kv{{"xt", v2}}
		case "none":
		case "other":
			xt = []kv{{"xt", "urn:sha1:" + base32Of(h1[:])}}
		}
		switch {
		case len(x.hashes) == 0:
			x.must = 0
		case wellFormed:
			x.must = 1
		case c.Hf == "b32":
			x.must = 2 // lower-case base32: refusing it is tolerated, a wrong hash is not
		case c.Xt == "dupdiff":
			x.must = 2 // first topic malformed, second fine: either refuse or use the second
			x.hashes = [][20]byte{h2}
		default:
			x.must = 0
		}
		var params []kv
		if c.Name > 0 && c.Name < len(names) {
			x.name = names[c.Name]
			params = append(params, kv{"dn", x.name})
		}
		// trackers
		tp := 0
		for ti, n := range c.Tiers {
			var tier []string
			for k := 0; k < n; k++ {
				tier = append(tier, trackerPool[tp%len(trackerPool)])
				tp++
			}
			x.tiers = append(x.tiers, tier)
			var key string
			switch {
			case c.Trform == "tr" && n == 1:
				key = "tr"
			case c.Trform == "tr":
				key = fmt.Sprintf("tr.%d", ti)
			case c.Trform == "trn":
				key = fmt.Sprintf("tr.%d", ti+1)
			default:
				key = fmt.Sprintf("tr.0%d", 10*ti+5)
			}
			for _, t := range tier {
				params = append(params, kv{key, t})
			}
		}
		for _, pk := range c.Peers {
			p := peerOf[pk]
			x.peers = append(x.peers, p)
			params = append(params, kv{"x.pe", p})
		}
		all := append(append([]kv{}, xt...), params...)
		if c.Extra == 1 {
			all = append(all, kv{"ws", "http://ws.example/f"}, kv{"xl", "12345"}, kv{"kt", "a+b"}, kv{"foo", ""}, kv{"tr.x", "http://ignored.example/"})
			// unknown parameters may stand anywhere; keep the relative order of equal keys (tier / topic order is meaningful)
			perm := rng.Perm(len(all))
			idx := map[string][]int{}
			for pos, pi := range perm {
				_ = pos
				idx[all[pi].k] = append(idx[all[pi].k], pi)
			}
			for k := range idx {
				sort.Ints(idx[k])
			}
			shuffled := make([]kv, 0, len(all))
			used := map[string]int{}
			for _, pi := range perm {
				k := all[pi].k
				shuffled = append(shuffled, all[idx[k][used[k]]])
				used[k]++
			}
			all = shuffled
		}
		var sb strings.Builder
		sb.WriteString("magnet:?")
		for i, p := range all {
			if i > 0 {
				sb.WriteByte('&')
			}
			sb.WriteString(p.k)
			sb.WriteByte('=')
			if p.k == "xt" { // topics are written raw (urn:btih:...)
				sb.WriteString(p.v)
			} else {
				sb.WriteString(esc(p.v, c.Enc))
			}
		}
		link := sb.String()
		// (1) parse of the independently rendered link
		m, err := magnet.New(link)
		judgeLine(o, "parse", ci, c, link, x, m, err)
		nparse++
		if err != nil {
			nrej++
		}
		// (2) String() of the parsed value -> New()
		if err == nil {
			s := m.String()
			m2, err2 := magnet.New(s)
			judgeLine(o, "rt", ci, c, s, magExp{must: 1, hashes: [][20]byte{m.InfoHash}, name: m.Name, tiers: m.Trackers, peers: m.Peers}, m2, err2)
			nrt++
		}
		// (3) a Magnet built the way torrent.Magnet() builds it -> String() -> New()
		if len(x.hashes) > 0 {
			d := magnet.Magnet{InfoHash: h1, Name: x.name, Trackers: x.tiers, Peers: x.peers}
			s := d.String()
			m3, err3 := magnet.New(s)
			judgeLine(o, "export", ci, c, s, magExp{must: 1, hashes: [][20]byte{h1}, name: x.name, tiers: x.tiers, peers: x.peers}, m3, err3)
			nrt++
		}
	}
	stats["parsed"] = nparse
	stats["roundtrips"] = nrt
	stats["refused"] = nrej
}
