package main

import (
	"bytes"
	"crypto/sha1"
	"fmt"
	"math/rand"
	"os"
	"strings"
	"sync"
	"time"

	"github.com/cenkalti/rain/v2/internal/verif/vh"
	"github.com/cenkalti/rain/v2/torrent"
)

const (
	e2eMaxMeta = 65536 // MaxMetadataSize of the sessions under test
	ourUtMeta  = 3     // the scripted peers' message id for ut_metadata
)

// scen is one end-to-end scenario: a real Session added by magnet link + scripted peers.
type scen struct {
	c        gcase
	idx      int
	mu       sync.Mutex
	evs      []ev
	closed   bool
	tor      *vh.Torrent
	barrier  chan struct{} // closed when the liars of a "late" scenario may act
	gotReq   chan int      // peer index, on its first request
	deadline time.Duration
}

func (s *scen) emit(e ev) {
	s.mu.Lock()
	if !s.closed {
		s.evs = append(s.evs, e)
	}
	s.mu.Unlock()
}

// buildTorrent makes a torrent whose info dictionary spans nb metadata blocks (many empty files with long names).
func buildTorrent(nb int, priv bool, seed int64, lay int) *vh.Torrent {
	if lay == 1 {
		return buildPiecesTorrent(nb, priv, seed)
	}
	target := (nb-1)*bs + 3000 + int(seed%7)*911
	files := []vh.FileSpec{{Path: []string{"data.bin"}, Length: 40000}}
	var tor *vh.Torrent
	for n := 0; ; n++ {
		lay := vh.Layout{Name: fmt.Sprintf("c13-%d-%d", nb, seed), PieceLen: 16384, Files: files}
		if priv {
			lay.Private = 1
		}
		tor = vh.Build(lay, seed, nil, nil)
		if len(tor.InfoBytes) >= target {
			break
		}
		files = append(files, vh.FileSpec{Path: []string{"empty", fmt.Sprintf("%04d-%s", n, strings.Repeat("n", 90))}, Length: 0})
	}
	return tor
}

// buildPiecesTorrent makes a single-file info dictionary whose size is dominated by the "pieces" string: every metadata
// block but the first (header) and the last (tail) lies inside that string, so blocks can trade places and the
// dictionary still parses.  No content is needed: the scenarios stop after the metadata.
func buildPiecesTorrent(nb int, priv bool, seed int64) *vh.Torrent {
	target := (nb-1)*bs + 700 + int(seed%7)*120
	np := (target - 120) / 20
	if np < 1 {
		np = 1
	}
	rng := rand.New(rand.NewSource(seed ^ 0x5eed))
	pieces := make([]byte, 20*np)
	rng.Read(pieces)
	name := fmt.Sprintf("c13p-%d-%d", nb, seed)
	info := vh.Dict{"name": name, "piece length": 16384, "pieces": pieces, "length": int64(np) * 16384}
	if priv {
		info["private"] = 1
	}
	t := &vh.Torrent{Layout: vh.Layout{Name: name, PieceLen: 16384}}
	t.InfoBytes = vh.Enc(info)
	t.InfoHash = sha1.Sum(t.InfoBytes)
	t.NumPieces = np
	t.SingleFile = true
	return t
}

// swapPair returns the two block indexes a "swap" liar exchanges: the last two full-size blocks (ok = false when the
// metadata has fewer than two full-size blocks).
func swapPair(size int) (a, b int, ok bool) {
	full := size / bs
	if full < 2 {
		return 0, 0, false
	}
	return full - 2, full - 1, true
}

type speer struct {
	s       *scen
	p       int // 1-based
	pol     string
	c       *vh.Conn
	adv     int
	buf     []byte // what this peer serves
	utID    int    // rain's id for ut_metadata
	acted   bool
	gone    bool
	sawReq  bool
	selfEnd bool
	queue   []int // honest with ord = 1 / swap: requests waiting to be answered in another order
	queueAt time.Time
}

func (pe *speer) enqueue(i int) {
	if len(pe.queue) == 0 {
		pe.queueAt = time.Now()
	}
	pe.queue = append(pe.queue, i)
}

// data sends a data message of an "honest" or "swap" peer and records it (PeerData: Trace_Metadata checks the premise).
func (pe *speer) data(label, payload int) {
	blk := pe.block(payload)
	cls := "good"
	if label != payload {
		cls = "moved"
	}
	pe.s.emit(ev{"op": "PeerData", "p": pe.p, "i": label, "len": len(blk), "cls": cls})
	pe.sendData(label, blk, len(pe.s.tor.InfoBytes), true)
}

// flush answers the queued requests of an order-changing peer.
//
//	honest, ord = 1: every queued request, highest index first;
//	swap: once both indexes of the pair are queued, the genuine payloads in the genuine order with the two labels
//	exchanged (payload a under index b, payload b under index a), the other queued requests in index order around them.
func (pe *speer) flush(force bool) {
	if len(pe.queue) == 0 {
		return
	}
	q := append([]int(nil), pe.queue...)
	for i := 1; i < len(q); i++ { // insertion sort, ascending
		for j := i; j > 0 && q[j-1] > q[j]; j-- {
			q[j-1], q[j] = q[j], q[j-1]
		}
	}
	if pe.pol == "honest" {
		for k := len(q) - 1; k >= 0; k-- {
			pe.data(q[k], q[k])
		}
		pe.queue = nil
		return
	}
	a, b, ok := swapPair(len(pe.buf))
	has := func(x int) bool {
		for _, v := range q {
			if v == x {
				return true
			}
		}
		return false
	}
	if ok && !(has(a) && has(b)) && !force {
		return // wait for the second index of the pair
	}
	sw := ok && has(a) && has(b)
	for _, i := range q { // ascending = genuine payload order
		switch {
		case sw && i == a:
			pe.data(b, a)
		case sw && i == b:
			pe.data(a, b)
		default:
			pe.data(i, i)
		}
	}
	pe.queue = nil
}

func garbageOf(b []byte) []byte {
	g := make([]byte, len(b))
	for i := range b {
		g[i] = b[i] ^ 0x5A
	}
	return g
}

func (pe *speer) sendData(i int, data []byte, total int, withTotal bool) {
	d := vh.Dict{"msg_type": 1, "piece": i}
	if withTotal {
		d["total_size"] = total
	}
	pe.c.Send(vh.Msg{ID: vh.MsgExtended, ExtID: pe.utID, Data: append(vh.Enc(d), data...)})
}

func (pe *speer) block(i int) []byte {
	lo := i * bs
	if lo >= len(pe.buf) || i < 0 {
		return nil
	}
	hi := lo + bs
	if hi > len(pe.buf) {
		hi = len(pe.buf)
	}
	return pe.buf[lo:hi]
}

func (pe *speer) leave() {
	pe.selfEnd = true
	pe.s.emit(ev{"op": "PeerGone", "p": pe.p, "by": "peer"})
	pe.c.Close()
}

// act answers one metadata request according to the policy.
func (pe *speer) act(i int) {
	T := len(pe.s.tor.InfoBytes)
	blk := pe.block(i)
	switch pe.pol {
	case "honest":
		if blk == nil { // a request outside the layout (never seen; an honest peer rejects it)
			pe.c.Send(vh.Msg{ID: vh.MsgExtended, ExtID: pe.utID, Data: vh.Enc(vh.Dict{"msg_type": 2, "piece": i})})
			break
		}
		if pe.s.c.Ord == 1 {
			pe.enqueue(i)
			if len(pe.queue) >= (len(pe.buf)+bs-1)/bs {
				pe.flush(true)
			}
			break
		}
		pe.data(i, i)
	case "swap":
		if blk == nil {
			pe.c.Send(vh.Msg{ID: vh.MsgExtended, ExtID: pe.utID, Data: vh.Enc(vh.Dict{"msg_type": 2, "piece": i})})
			break
		}
		pe.enqueue(i)
		pe.flush(false)
	case "total":
		pe.sendData(i, blk, T+7, i%2 == 0)
	case "sizeplus", "sizeminus", "over", "capmax", "forge", "huge", "neg":
		if blk == nil {
			pe.c.Send(vh.Msg{ID: vh.MsgExtended, ExtID: pe.utID, Data: vh.Enc(vh.Dict{"msg_type": 2, "piece": i})})
			return
		}
		pe.sendData(i, blk, pe.adv, true)
	case "badlen":
		if len(blk) > 1 && i%2 == 0 {
			pe.sendData(i, blk[:len(blk)-1], T, true)
		} else {
			pe.sendData(i, append(append([]byte{}, blk...), 0x55), T, true)
		}
	case "dup":
		pe.sendData(i, blk, T, true)
		pe.sendData(i, blk, T, true)
	case "unreq":
		nb := pe.block(i + 1)
		if nb == nil {
			nb = garbageOf(blk)
		}
		pe.sendData(i+1, nb, T, true)
	case "garbage":
		pe.sendData(i, garbageOf(blk), T, true)
	case "reject":
		pe.c.Send(vh.Msg{ID: vh.MsgExtended, ExtID: pe.utID, Data: vh.Enc(vh.Dict{"msg_type": 2, "piece": i})})
	case "stall", "nometa":
	case "drop":
		if !pe.acted {
			pe.leave()
		}
	case "junk":
		if !pe.acted {
			pe.c.Send(vh.Msg{ID: vh.MsgExtended, ExtID: pe.utID, Data: []byte("this is not bencode")})
		}
	case "proto":
		if !pe.acted {
			pe.c.Send(vh.Msg{ID: vh.MsgRequest, Index: 0, Begin: 0, Length: 16384})
		}
	}
	pe.acted = true
}

func (pe *speer) run(addr string, ih [20]byte) {
	s := pe.s
	T := len(s.tor.InfoBytes)
	truth := s.tor.InfoBytes
	pe.adv = T
	pe.buf = truth
	switch pe.pol {
	case "sizeplus":
		pe.adv, pe.buf = T+1, append(append([]byte{}, truth...), 0x33)
	case "sizeminus":
		pe.adv, pe.buf = T-1, truth[:T-1]
	case "forge": // a well-formed info dictionary of another torrent, served consistently
		other := buildTorrent(s.c.Nb, false, int64(s.idx)*7919+int64(pe.p)+424242, s.c.Lay)
		pe.adv, pe.buf = len(other.InfoBytes), other.InfoBytes
	case "over":
		pe.adv = e2eMaxMeta + 1
		pe.buf = append(append([]byte{}, truth...), make([]byte, pe.adv-T)...)
	case "capmax":
		pe.adv = e2eMaxMeta
		pe.buf = append(append([]byte{}, truth...), make([]byte, pe.adv-T)...)
	}
	nc, err := vh.DialFrom(fmt.Sprintf("127.0.0.%d", 10+pe.p), addr, 3*time.Second)
	if err != nil {
		s.emit(ev{"op": "Note", "p": pe.p, "what": "dial: " + err.Error()})
		return
	}
	rh, err := vh.PlainHandshake(nc, ih, vh.PeerID(fmt.Sprintf("c13-%d-%d", s.idx, pe.p)), vh.ReservedBits(true, true, false), 5*time.Second)
	if err != nil {
		nc.Close()
		s.emit(ev{"op": "Note", "p": pe.p, "what": "handshake: " + err.Error()})
		return
	}
	pe.c = &vh.Conn{C: nc, Name: fmt.Sprint(pe.p), Remote: rh}
	hs := vh.Dict{"v": "c13-peer", "m": vh.Dict{"ut_metadata": ourUtMeta}, "metadata_size": pe.adv}
	sz := pe.adv
	switch pe.pol {
	case "huge": // far beyond the cap and beyond 32 bits
		hs["metadata_size"] = int64(1)<<40 + int64(T)
		sz = 2000000000
	case "neg": // negative size: must be treated as "no metadata offered"
		hs["metadata_size"] = -int64(T)
		sz = 0
	case "nometa":
		hs["m"] = vh.Dict{}
		sz = 0
	case "unreq":
		hs["reqq"] = 1
	}
	pe.c.Send(vh.Msg{ID: vh.MsgHaveNone})
	pe.c.Send(vh.Msg{ID: vh.MsgExtended, ExtID: 0, Data: vh.Enc(hs)})
	s.emit(ev{"op": "PeerHs", "p": pe.p, "sz": sz})
	pe.utID = 1
	var held []int
	released := s.c.Late == 0 || pe.pol == "honest"
	relC := s.barrier
	msgs := make(chan vh.Msg, 64)
	errC := make(chan error, 1)
	go func() {
		for {
			m, err := pe.c.Recv(0)
			if err != nil {
				errC <- err
				return
			}
			msgs <- m
		}
	}()
	tick := time.NewTicker(50 * time.Millisecond)
	defer tick.Stop()
	for {
		select {
		case <-tick.C: // requests that wait for company are answered after 300 ms at the latest (below the snub timeout)
			if len(pe.queue) > 0 && time.Since(pe.queueAt) > 300*time.Millisecond && !pe.selfEnd {
				pe.flush(true)
			}
		case <-relC:
			relC = nil
			released = true
			for _, i := range held {
				if !pe.selfEnd {
					pe.act(i)
				}
			}
			held = nil
		case err := <-errC:
			_ = err
			if !pe.selfEnd {
				s.emit(ev{"op": "PeerGone", "p": pe.p, "by": "rain"})
			}
			nc.Close()
			return
		case m := <-msgs:
			if m.ID != vh.MsgExtended {
				continue
			}
			if m.ExtID == 0 {
				if v, _, err := vh.Dec(m.Data); err == nil {
					if d, ok := v.(map[string]any); ok {
						if mm, ok := d["m"].(map[string]any); ok {
							if id, ok := mm["ut_metadata"].(int64); ok {
								pe.utID = int(id)
							}
						}
					}
				}
				continue
			}
			if m.ExtID != ourUtMeta {
				continue
			}
			v, _, err := vh.Dec(m.Data)
			d, _ := v.(map[string]any)
			typ, _ := d["msg_type"].(int64)
			pc, ok := d["piece"].(int64)
			if err != nil || !ok || typ != 0 {
				continue
			}
			if pe.selfEnd { // the peer has left: what was still queued on its socket is not observed
				continue
			}
			s.emit(ev{"op": "PeerReq", "p": pe.p, "i": clip(pc)})
			if !pe.sawReq {
				pe.sawReq = true
				select {
				case s.gotReq <- pe.p:
				default:
				}
			}
			if released {
				pe.act(int(pc))
			} else {
				held = append(held, int(pc))
			}
		}
	}
}

func (s *scen) run(seed int64) {
	c := s.c
	s.tor = buildTorrent(c.Nb, c.Priv == 1, seed*1000+int64(s.idx), c.Lay)
	T := len(s.tor.InfoBytes)
	pol := make([]string, len(c.Pols))
	for i, p := range c.Pols {
		pol[i] = p
	}
	il := initLine("e2e", len(c.Pols), T, e2eMaxMeta, c.Par, 0, pol, c.Priv == 1)
	il["ord"], il["lay"] = c.Ord, c.Lay
	s.emit(il)
	fail := func(what string) {
		s.emit(ev{"op": "Note", "what": what})
		s.mu.Lock()
		s.closed = true
		s.mu.Unlock()
	}
	dir, err := os.MkdirTemp("/var/tmp", "c13e2e")
	if err != nil {
		fail("tmpdir: " + err.Error())
		return
	}
	defer os.RemoveAll(dir)
	var ses *torrent.Session
	var cfg torrent.Config
	for try := 0; try < 5; try++ {
		cfg, err = vh.BaseConfig(dir, 3)
		if err != nil {
			continue
		}
		cfg.ParallelMetadataDownloads = c.Par
		cfg.MaxMetadataSize = e2eMaxMeta
		cfg.RequestTimeout = 500 * time.Millisecond
		os.Remove(cfg.Database)
		ses, err = torrent.NewSession(cfg)
		if err == nil {
			break
		}
	}
	if err != nil {
		fail("session: " + err.Error())
		return
	}
	defer ses.Close()
	link := "magnet:?xt=urn:btih:" + hexOf(s.tor.InfoHash[:]) + "&dn=placeholder-name"
	tr, err := ses.AddURI(link, &torrent.AddTorrentOptions{StopAfterMetadata: true})
	if err != nil {
		fail("AddURI: " + err.Error())
		return
	}
	metaC := tr.NotifyMetadata()
	stopC := tr.NotifyStop()
	addr := fmt.Sprintf("127.0.0.1:%d", tr.Port())
	// wait for the acceptor
	for t0 := time.Now(); time.Since(t0) < 5*time.Second; time.Sleep(10 * time.Millisecond) {
		if nc, err := vh.DialFrom("127.0.0.9", addr, time.Second); err == nil {
			nc.Close()
			break
		}
	}
	time.Sleep(30 * time.Millisecond)
	s.barrier = make(chan struct{})
	s.gotReq = make(chan int, 8)
	t0 := time.Now()
	var peers []*speer
	for i, p := range c.Pols {
		peers = append(peers, &speer{s: s, p: i + 1, pol: p})
	}
	if c.Late == 1 {
		// liars first; wait until each of them that can get a request got it (or 400 ms), then the honest peers, settle, release
		nl := 0
		for _, pe := range peers {
			if pe.pol != "honest" {
				go pe.run(addr, s.tor.InfoHash)
				nl++
				time.Sleep(40 * time.Millisecond)
			}
		}
		want := nl
		if want > c.Par {
			want = c.Par
		}
		tm := time.After(400 * time.Millisecond)
	wait:
		for got := 0; got < want; {
			select {
			case <-s.gotReq:
				got++
			case <-tm:
				break wait
			}
		}
		for _, pe := range peers {
			if pe.pol == "honest" {
				go pe.run(addr, s.tor.InfoHash)
				time.Sleep(40 * time.Millisecond)
			}
		}
		time.Sleep(250 * time.Millisecond)
		close(s.barrier)
	} else {
		for _, pe := range peers {
			go pe.run(addr, s.tor.InfoHash)
			time.Sleep(25 * time.Millisecond)
		}
	}
	adopted, stopped := false, false
	var stopErr error
	dl := time.After(s.deadline)
loop:
	for {
		select {
		case <-metaC:
			adopted = true
			break loop
		case stopErr = <-stopC:
			stopped = true
			break loop
		case <-dl:
			break loop
		}
	}
	if !adopted { // the stop notification may win the race against the metadata notification
		select {
		case <-metaC:
			adopted = true
		case <-time.After(50 * time.Millisecond):
		}
	}
	ms := time.Since(t0).Milliseconds()
	e := ev{"op": "End", "adopted": 0, "sha": 0, "name": 0, "refused": 0, "ms": int(ms), "stopped": b2i(stopped)}
	st := tr.Stats()
	if b, err := tr.Torrent(); err == nil {
		e["adopted"] = 1
		if info := infoSpan(b); info != nil && sha1.Sum(info) == s.tor.InfoHash {
			e["sha"] = 1
			if bytes.Equal(info, s.tor.InfoBytes) && st.Name == s.tor.Name {
				e["name"] = 1
			}
		}
	} else if adopted {
		e["adopted"] = 1 // notified but no bytes: judged as adopted without a matching hash
	}
	errs := ""
	if stopErr != nil {
		errs = stopErr.Error()
	} else if st.Error != nil {
		errs = st.Error.Error()
	}
	if strings.Contains(errs, "private torrent from magnet") && e["adopted"] == 0 {
		e["refused"] = 1
	}
	e["status"] = st.Status.String()
	e["errs"] = errs
	s.mu.Lock()
	s.evs = append(s.evs, e)
	s.closed = true
	s.mu.Unlock()
}

// infoSpan returns the raw bytes of the value of the top-level "info" key of a .torrent file.
func infoSpan(b []byte) []byte {
	if len(b) < 2 || b[0] != 'd' {
		return nil
	}
	pos := 1
	for pos < len(b) && b[pos] != 'e' {
		k, n, err := vh.Dec(b[pos:])
		if err != nil {
			return nil
		}
		pos += n
		_, m, err := vh.Dec(b[pos:])
		if err != nil {
			return nil
		}
		if ks, ok := k.(string); ok && ks == "info" {
			return b[pos : pos+m]
		}
		pos += m
	}
	return nil
}

func runE2E(o *out, seed int64, cases []gcase, par int, deadlineMs int, stats ev) {
	torrent.DisableLogging()
	scs := make([]*scen, len(cases))
	sem := make(chan struct{}, par)
	var wg sync.WaitGroup
	rng := rand.New(rand.NewSource(seed))
	_ = rng
	for i, c := range cases {
		s := &scen{c: c, idx: i, deadline: time.Duration(deadlineMs) * time.Millisecond}
		scs[i] = s
		wg.Add(1)
		sem <- struct{}{}
		go func() {
			defer wg.Done()
			defer func() { <-sem }()
			s.run(seed)
		}()
	}
	wg.Wait()
	nad, nto := 0, 0
	for _, s := range scs {
		for _, e := range s.evs {
			if e["op"] == "Note" {
				continue
			}
			if e["op"] == "End" {
				e["id"] = s.c.ID
				if e["adopted"] == 1 {
					nad++
				} else {
					nto++
				}
			}
			o.emit(e)
		}
		for _, e := range s.evs {
			if e["op"] == "Note" {
				fmt.Fprintf(os.Stderr, "note scenario %d: %v\n", s.c.ID, e)
			}
		}
	}
	stats["scenarios"] = len(scs)
	stats["adopted"] = nad
	stats["not_adopted"] = nto
}
