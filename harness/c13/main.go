// Command c13 is the driver of property C13 (magnet metadata is adopted only if it hashes to the link's
// info-hash).  It replays TLC-generated cases (spec/MC_Metadata_gen.tla) and seeded random cases into the REAL code
// and records ndjson traces that spec/Trace_Metadata.tla judges.
//
//	-mode idl   internal/infodownloader.InfoDownloader fed through the real ut_metadata codec (internal/peerprotocol)
//	-mode mag   internal/magnet New / String
//	-mode e2e   a real torrent.Session added by magnet link, scripted peers on 127.0.0.N
package main

import (
	"bufio"
	"encoding/json"
	"flag"
	"fmt"
	"math/rand"
	"os"
)

type ev map[string]any

type out struct {
	w *bufio.Writer
	n int
}

func (o *out) emit(e ev) {
	b, err := json.Marshal(e)
	if err != nil {
		panic(err)
	}
	o.w.Write(b)
	o.w.WriteByte('\n')
	o.n++
}

// initLine starts a trace; fields that a kind does not use get neutral values (Trace_Metadata.CfgOf).
func initLine(kind string, np, tsize, max, par, q int, pol []string, private bool) ev {
	return ev{"op": "Init", "kind": kind, "np": np, "bs": 16384, "tsize": tsize, "max": max, "par": par, "q": q, "pol": pol, "private": private}
}

// gcase is one TLC-generated case (union of the fields of the three kinds).
type gcase struct {
	K string `json:"k"`
	// mag
	Hf     string   `json:"hf"`
	Xt     string   `json:"xt"`
	Name   int      `json:"name"`
	Enc    string   `json:"enc"`
	Tiers  []int    `json:"tiers"`
	Trform string   `json:"trform"`
	Peers  []string `json:"peers"`
	Extra  int      `json:"extra"`
	// idl
	Nb   int `json:"nb"`
	Full int `json:"full"`
	Q    int `json:"q"`
	H    []struct {
		I  int    `json:"i"`
		Lc string `json:"lc"`
	} `json:"h"`
	// idl replay of a recorded history (k = "idlx")
	Size  int  `json:"size"`
	Tsize int  `json:"tsize"`
	Steps []ev `json:"steps"`
	// e2e
	Pols []string `json:"pols"`
	Par  int      `json:"par"`
	Late int      `json:"late"`
	Priv int      `json:"priv"`
	Ord  int      `json:"ord"` // 1 = honest peers answer the pipelined requests in reverse order
	Lay  int      `json:"lay"` // 1 = info dictionary of one file with very many pieces
	ID   int      `json:"id"`
}

func readCases(path, kind string) []gcase {
	if path == "" {
		return nil
	}
	f, err := os.Open(path)
	if err != nil {
		panic(err)
	}
	defer f.Close()
	var cs []gcase
	sc := bufio.NewScanner(f)
	sc.Buffer(make([]byte, 1<<20), 1<<26)
	for sc.Scan() {
		var c gcase
		if json.Unmarshal(sc.Bytes(), &c) != nil || c.K != kind {
			continue
		}
		cs = append(cs, c)
	}
	return cs
}

func main() {
	mode := flag.String("mode", "idl", "idl | mag | e2e | e2e-child")
	seed := flag.Int64("seed", 1, "")
	cases := flag.String("cases", "", "ndjson file with TLC-generated cases")
	nrand := flag.Int("n", 0, "number of additional seeded random cases")
	outp := flag.String("out", "trace.ndjson", "")
	par := flag.Int("j", 6, "e2e: scenarios run concurrently")
	deadline := flag.Int("deadline", 8000, "e2e: ms to wait for the metadata")
	flag.Parse()
	f, err := os.Create(*outp)
	if err != nil {
		panic(err)
	}
	o := &out{w: bufio.NewWriterSize(f, 1<<20)}
	rng := rand.New(rand.NewSource(*seed))
	stats := ev{}
	switch *mode {
	case "idl":
		runIdl(o, rng, readCases(*cases, "idl"), *nrand, stats)
		runIdlReplay(o, rng, readCases(*cases, "idlx"))
	case "mag":
		runMag(o, rng, readCases(*cases, "mag"), *nrand, stats)
	case "e2e":
		runE2E(o, *seed, readCases(*cases, "e2e"), *par, *deadline, stats)
	default:
		fmt.Fprintln(os.Stderr, "unknown mode")
		os.Exit(2)
	}
	o.w.Flush()
	f.Close()
	stats["events"] = o.n
	b, _ := json.Marshal(stats)
	fmt.Println(string(b))
}
