package main

import (
	"bytes"
	"crypto/sha1"
	"fmt"
	"math/rand"

	"github.com/cenkalti/rain/v2/internal/infodownloader"
	"github.com/cenkalti/rain/v2/internal/peerprotocol"
	"github.com/cenkalti/rain/v2/internal/verif/vh"
)

const bs = 16384

// stubPeer implements infodownloader.Peer.  Requests go through the REAL message encoder exactly as
// peer.RequestMetadataPiece builds them and are decoded with the independent bencode decoder.
type stubPeer struct {
	size     uint32
	reqs     []int
	codecBad int
}

func (s *stubPeer) MetadataSize() uint32 { return s.size }

func (s *stubPeer) RequestMetadataPiece(index uint32) {
	msg := peerprotocol.ExtensionMessage{
		ExtendedMessageID: 3,
		Payload: peerprotocol.ExtensionMetadataMessage{
			Type:  peerprotocol.ExtensionMetadataMessageTypeRequest,
			Piece: index,
		},
	}
	var buf bytes.Buffer
	if _, err := msg.WriteTo(&buf); err != nil {
		s.codecBad = 1
	}
	b := buf.Bytes()
	got := int64(-1)
	if len(b) > 1 && b[0] == 3 {
		v, n, err := vh.Dec(b[1:])
		if d, ok := v.(map[string]any); err == nil && ok && n == len(b)-1 {
			if t, ok := d["msg_type"].(int64); ok && t == 0 {
				if p, ok := d["piece"].(int64); ok {
					got = p
				}
			}
		}
	}
	if got != int64(index) {
		s.codecBad = 1
	}
	s.reqs = append(s.reqs, clip(int64(index)))
}

func clip(v int64) int {
	if v > 2000000000 {
		return 2000000000
	}
	if v < -2000000000 {
		return -2000000000
	}
	return int(v)
}

// idlSim drives one InfoDownloader.
type idlSim struct {
	o       *out
	rng     *rand.Rand
	size    int // advertised
	truth   []byte
	garbage []byte // same length as max(size, len(truth)) + bs, never equal to truth or zero at any position
	pe      *stubPeer
	d       *infodownloader.InfoDownloader
	q       int
	sha     [20]byte
}

func mkTruth(rng *rand.Rand, n int) []byte {
	b := make([]byte, n)
	rng.Read(b)
	for i := range b {
		if b[i] == 0 {
			b[i] = 0xA5
		}
	}
	return b
}

func newIdlSim(o *out, rng *rand.Rand, size, tsize, q int) *idlSim {
	s := &idlSim{o: o, rng: rng, size: size, q: q}
	s.truth = mkTruth(rng, tsize)
	n := size
	if tsize > n {
		n = tsize
	}
	n += 2 * bs
	s.garbage = make([]byte, n)
	for i := range s.garbage {
		var t byte
		if i < len(s.truth) {
			t = s.truth[i]
		}
		g := t ^ 0x3C
		if g == 0 {
			g = 0x77
		}
		if g == t {
			g ^= 0x01
		}
		s.garbage[i] = g
	}
	s.sha = sha1.Sum(s.truth)
	return s
}

func (s *idlSim) nb() int { return (s.size + bs - 1) / bs }

func (s *idlSim) blockRange(i int) (int, int) {
	lo := i * bs
	hi := lo + bs
	if hi > s.size {
		hi = s.size
	}
	return lo, hi
}

// cont classifies every block region of the assembly buffer: zero / good (= truth at that range) / bad (= garbage) / mixed.
func (s *idlSim) cont() []string {
	b := s.d.Bytes
	out := make([]string, 0, s.nb())
	for i := 0; i < s.nb(); i++ {
		lo, hi := s.blockRange(i)
		if hi > len(b) || lo > hi {
			out = append(out, "short")
			continue
		}
		reg := b[lo:hi]
		switch {
		case allZero(reg):
			out = append(out, "zero")
		case hi <= len(s.truth) && bytes.Equal(reg, s.truth[lo:hi]):
			out = append(out, "good")
		case bytes.Equal(reg, s.garbage[lo:hi]):
			out = append(out, "bad")
		default:
			out = append(out, "mixed")
		}
	}
	return out
}

func allZero(b []byte) bool {
	for _, x := range b {
		if x != 0 {
			return false
		}
	}
	return true
}

func b2i(b bool) int {
	if b {
		return 1
	}
	return 0
}

func (s *idlSim) start() {
	s.pe = &stubPeer{size: uint32(s.size)}
	s.o.emit(initLine("idl", 1, len(s.truth), 1<<30, 1, s.q, []string{"any"}, false))
	s.d = infodownloader.New(s.pe)
	s.o.emit(ev{"op": "New", "size": s.size, "blen": len(s.d.Bytes)})
}

func (s *idlSim) request(q int) {
	s.pe.reqs = []int{}
	s.pe.codecBad = 0
	s.d.RequestBlocks(q)
	s.o.emit(ev{"op": "Req", "q": q, "reqs": s.pe.reqs, "done": b2i(s.d.Done()), "codec": s.pe.codecBad})
}

// deliver sends one ut_metadata data message: encoded by the driver, decoded by the REAL codec, handed to GotBlock as
// handleMetadataMessage does.  Returns (accepted, done).
func (s *idlSim) deliver(index int64, data []byte, cls string, totalSize int64, form int) (bool, bool) {
	d := vh.Dict{"msg_type": 1, "piece": index}
	switch form {
	case 0:
		d["total_size"] = totalSize
	case 1: // no total_size
	case 2:
		d["total_size"] = totalSize
		d["zz_unknown"] = "x"
	}
	wire := append([]byte{peerprotocol.ExtensionIDMetadata}, vh.Enc(d)...)
	wire = append(wire, data...)
	var em peerprotocol.ExtensionMessage
	err := em.UnmarshalBinary(wire)
	codec := 0
	pc, pdata := uint32(index), data
	mm, ok := em.Payload.(peerprotocol.ExtensionMetadataMessage)
	if err != nil || !ok || mm.Type != peerprotocol.ExtensionMetadataMessageTypeData || int64(mm.Piece) != index || !bytes.Equal(mm.Data, data) {
		codec = 1
	} else {
		pc, pdata = mm.Piece, mm.Data
	}
	gerr := s.d.GotBlock(pc, pdata)
	done := s.d.Done()
	e := ev{"op": "Got", "i": clip(index), "len": len(data), "cls": cls, "err": b2i(gerr != nil), "done": b2i(done),
		"cont": s.cont(), "sha": b2i(sha1.Sum(s.d.Bytes) == s.sha), "codec": codec, "ts": clip(totalSize)}
	s.o.emit(e)
	return gerr == nil, done
}

// payload builds the data of a delivery. lc: ok | okbad | short | long | empty | half | dbl
func (s *idlSim) payload(i int, lc string) ([]byte, string) {
	bsz := bs
	if i >= 0 && i < s.nb() {
		lo, hi := s.blockRange(i)
		bsz = hi - lo
	}
	n := bsz
	switch lc {
	case "short":
		n = bsz - 1
	case "long":
		n = bsz + 1
	case "empty":
		n = 0
	case "half":
		n = bsz / 2
	case "dbl":
		n = bsz + bs
	}
	if n < 0 {
		n = 0
	}
	lo := i * bs
	data := make([]byte, n)
	// honest bytes only if the whole payload lies inside the true metadata; otherwise the whole payload is garbage so that
	// the classification of the assembly buffer stays exact
	good := lc != "okbad" && n > 0 && i >= 0 && lo+n <= len(s.truth)
	for k := range data {
		switch {
		case good:
			data[k] = s.truth[lo+k]
		case lo >= 0 && lo+k < len(s.garbage):
			data[k] = s.garbage[lo+k]
		default:
			data[k] = 0x42
		}
	}
	if good {
		return data, "good"
	}
	return data, "bad"
}

func (s *idlSim) guard(f func()) (panicked bool) {
	defer func() {
		if r := recover(); r != nil {
			s.o.emit(ev{"op": "Panic", "msg": fmt.Sprint(r)})
			panicked = true
		}
	}()
	f()
	return false
}

func runIdl(o *out, rng *rand.Rand, cases []gcase, nrand int, stats ev) {
	nh, ndone, nacc, nrej := 0, 0, 0, 0
	// 1. TLC-generated histories (abstract letters), size = true size
	rests := []int{1, 5000, 16383}
	for ci, c := range cases {
		size := c.Nb * bs
		if c.Full == 0 {
			size = (c.Nb-1)*bs + rests[ci%len(rests)]
		}
		s := newIdlSim(o, rng, size, size, c.Q)
		nh++
		s.guard(func() {
			s.start()
			s.request(c.Q)
			for _, l := range c.H {
				data, cls := s.payload(l.I, l.Lc)
				acc, done := s.deliver(int64(l.I), data, cls, int64(size), 0)
				if acc {
					nacc++
				} else {
					nrej++
				}
				if done {
					ndone++
					break
				}
				if acc {
					s.request(c.Q)
				}
			}
		})
	}
	// 2. seeded random histories: concrete sizes, advertised size != true size, huge indexes, total_size variants, varying queue
	sizes := []int{1, 2, 100, 16383, 16384, 16385, 20000, 32767, 32768, 32769, 40000, 49152, 49153, 65536, 70000, 81920, 90001}
	lcs := []string{"ok", "ok", "ok", "ok", "okbad", "short", "long", "empty", "half", "dbl"}
	for r := 0; r < nrand; r++ {
		tsize := sizes[rng.Intn(len(sizes))]
		size := tsize
		switch rng.Intn(8) {
		case 0:
			size = tsize + 1
		case 1:
			if tsize > 1 {
				size = tsize - 1
			}
		case 2:
			size = tsize + bs
		case 3:
			if tsize > bs {
				size = tsize - bs
			}
		}
		q := []int{1, 1, 2, 2, 3, 4, 50}[rng.Intn(7)]
		s := newIdlSim(o, rng, size, tsize, q)
		nh++
		s.guard(func() {
			s.start()
			s.request(q)
			got := map[int]bool{}
			for step := 0; step < 4+rng.Intn(12); step++ {
				var idx int64
				switch k := rng.Intn(10); {
				case k < 6: // a requested block that was not delivered yet, if any
					idx = int64(rng.Intn(s.nb() + 1))
					for i := 0; i < s.nb(); i++ {
						if !got[i] && (q >= s.nb() || rng.Intn(3) > 0) {
							idx = int64(i)
							break
						}
					}
				case k < 8:
					idx = int64(rng.Intn(s.nb() + 2))
				default:
					idx = []int64{int64(s.nb()), 262144, 262145, 1 << 31, 4294967295, 65536}[rng.Intn(6)]
				}
				lc := lcs[rng.Intn(len(lcs))]
				bi := -1
				if idx < 1<<20 {
					bi = int(idx)
				}
				var data []byte
				var cls string
				if bi >= 0 {
					data, cls = s.payload(bi, lc)
				} else {
					data, cls = make([]byte, bs), "bad"
					for k := range data {
						data[k] = 0x42
					}
				}
				ts := []int64{int64(tsize), int64(tsize), int64(size), 0, int64(tsize) + 1, 1 << 40, -5}[rng.Intn(7)]
				acc, done := s.deliver(idx, data, cls, ts, rng.Intn(3))
				if acc {
					nacc++
					got[int(idx)] = true
				} else {
					nrej++
				}
				if done {
					ndone++
					break
				}
				if acc || rng.Intn(6) == 0 {
					qq := q
					if rng.Intn(10) == 0 {
						qq = 1 + rng.Intn(4)
					}
					s.request(qq)
				}
			}
		})
	}
	stats["histories"] = nh
	stats["done"] = ndone
	stats["accepted"] = nacc
	stats["rejected"] = nrej
}

// runIdlReplay re-drives recorded histories (replay files): the steps are the recorded Req / Got events.
func runIdlReplay(o *out, rng *rand.Rand, cases []gcase) {
	num := func(e ev, k string) int {
		f, _ := e[k].(float64)
		return int(f)
	}
	for _, c := range cases {
		s := newIdlSim(o, rng, c.Size, c.Tsize, c.Q)
		s.guard(func() {
			s.start()
			for _, st := range c.Steps {
				switch st["op"] {
				case "Req":
					s.request(num(st, "q"))
				case "Got":
					i, n := num(st, "i"), num(st, "len")
					data := make([]byte, n)
					cls, _ := st["cls"].(string)
					lo := i * bs
					good := cls == "good" && i >= 0 && lo+n <= len(s.truth)
					for k := range data {
						switch {
						case good:
							data[k] = s.truth[lo+k]
						case lo >= 0 && lo+k < len(s.garbage):
							data[k] = s.garbage[lo+k]
						default:
							data[k] = 0x42
						}
					}
					if !good {
						cls = "bad"
					}
					s.deliver(int64(i), data, cls, int64(num(st, "ts")), 0)
				}
			}
		})
	}
}
