package main

// Reader level: byte streams (class encodings, arbitrarily fragmented) into the REAL
// internal/peerconn/peerreader over net.Pipe; deliveries / end state / allocation are logged.

import (
	"encoding/json"
	"fmt"
	"math/rand"
	"net"
	"os"
	"runtime"
	"sync"
	"time"

	"github.com/cenkalti/rain/v2/internal/logger"
	"github.com/cenkalti/rain/v2/internal/peerconn/peerreader"
	"github.com/cenkalti/rain/v2/internal/peerprotocol"
)

type rStream struct {
	Seq    []string `json:"seq"`
	MaxMsg int      `json:"maxmsg"`
	Frag   int      `json:"frag"` // fragmentation seed (0 = one write)
}

type rIn struct {
	N        int       `json:"n"`
	Streams  []rStream `json:"streams"`
	Alloc    []string  `json:"alloc"` // classes whose single-frame allocation is measured
	AllocMax []int     `json:"allocmax"`
}

const sentinelPort = 0xBEEF

type got struct {
	Kind    string
	A, B, C int64
	DL      int
}

func describe(m any) got {
	switch x := m.(type) {
	case peerprotocol.ChokeMessage:
		return got{Kind: "choke"}
	case peerprotocol.UnchokeMessage:
		return got{Kind: "unchoke"}
	case peerprotocol.InterestedMessage:
		return got{Kind: "interested"}
	case peerprotocol.NotInterestedMessage:
		return got{Kind: "notinterested"}
	case peerprotocol.HaveAllMessage:
		return got{Kind: "haveall"}
	case peerprotocol.HaveNoneMessage:
		return got{Kind: "havenone"}
	case peerprotocol.HaveMessage:
		return got{Kind: "have", A: int64(x.Index)}
	case peerprotocol.AllowedFastMessage:
		return got{Kind: "allowedfast", A: int64(x.Index)}
	case peerprotocol.BitfieldMessage:
		return got{Kind: "bitfield", DL: len(x.Data)}
	case peerprotocol.RequestMessage:
		return got{Kind: "request", A: int64(x.Index), B: int64(x.Begin), C: int64(x.Length)}
	case peerprotocol.CancelMessage:
		return got{Kind: "cancel", A: int64(x.Index), B: int64(x.Begin), C: int64(x.Length)}
	case peerprotocol.RejectMessage:
		return got{Kind: "reject", A: int64(x.Index), B: int64(x.Begin), C: int64(x.Length)}
	case peerprotocol.PortMessage:
		return got{Kind: "port", A: int64(x.Port)}
	case peerreader.Piece:
		g := got{Kind: "piece", A: int64(x.Index), B: int64(x.Begin), DL: len(x.Buffer.Data)}
		x.Buffer.Release()
		return g
	case peerprotocol.ExtensionHandshakeMessage:
		return got{Kind: "ext.hs", A: int64(x.MetadataSize), B: int64(x.RequestQueue), C: int64(len(x.M))}
	case peerprotocol.ExtensionMetadataMessage:
		return got{Kind: "ext.meta", A: int64(x.Type), B: int64(x.Piece), C: int64(x.TotalSize), DL: len(x.Data)}
	case peerprotocol.ExtensionPEXMessage:
		return got{Kind: "ext.pex", A: int64(len(x.Added)), B: int64(len(x.Dropped))}
	}
	return got{Kind: fmt.Sprintf("?%T", m)}
}

type rRun struct {
	client net.Conn
	r      *peerreader.PeerReader
	gots   []got
	sent   bool // the sentinel was delivered
	panicV any
	pmu    sync.Mutex
}

func startReader(maxMsg int) *rRun {
	server, client := net.Pipe()
	rr := &rRun{client: client}
	rr.r = peerreader.New(server, logger.New("c08"), 2*time.Second, maxMsg, nil)
	go func() {
		defer func() {
			if v := recover(); v != nil {
				rr.pmu.Lock()
				rr.panicV = v
				rr.pmu.Unlock()
				// the deferred close(doneC) inside Run has already run
			}
		}()
		rr.r.Run()
	}()
	go func() { // like peerconn.Conn.Run: the connection is closed when the reader ends
		<-rr.r.Done()
		server.Close()
	}()
	return rr
}

const probeLen = 40

// withProbe appends the probe (keep-alives) to a stream.
func withProbe(b []byte) []byte {
	return append(append(make([]byte, 0, len(b)+probeLen), b...), make([]byte, probeLen)...)
}

// feed writes b (already ending with the probe; fragmented by rng) and collects the deliveries.
// net.Pipe is synchronous, the reader buffers at most 17 bytes and delivers a message before it reads on:
// when the last probe byte has been consumed (or the reader has ended) every delivery caused by the
// stream has been received here and the reader's end state is known - no timers.
func (rr *rRun) feed(b []byte, rng *rand.Rand) {
	wdone := make(chan struct{})
	go func() {
		defer close(wdone)
		for len(b) > 0 {
			n := len(b)
			if rng != nil && n > 1 {
				switch rng.Intn(4) {
				case 0:
					n = 1
				case 1:
					n = 1 + rng.Intn(min(len(b), 7))
				default:
					n = 1 + rng.Intn(len(b))
				}
			}
			rr.client.SetWriteDeadline(time.Now().Add(20 * time.Second))
			if _, err := rr.client.Write(b[:n]); err != nil {
				return
			}
			b = b[n:]
		}
	}()
	for {
		select {
		case m := <-rr.r.Messages():
			g := describe(m)
			if g.Kind == "port" && g.A == sentinelPort {
				rr.sent = true
				continue
			}
			rr.gots = append(rr.gots, g)
		case <-wdone:
			return
		}
	}
}

func (rr *rRun) closed() bool {
	select {
	case <-rr.r.Done():
		return true
	default:
		return false
	}
}

func runReader(inPath, outPath string, seed int64) error {
	logger.Disable()
	raw, err := os.ReadFile(inPath)
	if err != nil {
		return err
	}
	var in rIn
	if err := json.Unmarshal(raw, &in); err != nil {
		return err
	}
	out, err := newOut(outPath)
	if err != nil {
		return err
	}
	defer out.close()
	e0 := env{N: in.N, PL: 2 * blockLen, Last: 20000, Meta: 200}

	// 1. allocation of ONE frame (sequential, quiet process)
	for _, mm := range in.AllocMax {
		for _, cls := range in.Alloc {
			e := e0
			e.MaxMsg = mm
			b, err := encodeClass(cls, e)
			if err != nil {
				return err
			}
			pb := withProbe(b)
			rr := startReader(mm)
			rr.gots = make([]got, 0, 16)
			time.Sleep(2 * time.Millisecond)
			runtime.GC()
			var m0, m1 runtime.MemStats
			runtime.ReadMemStats(&m0)
			rr.feed(pb, nil)
			runtime.ReadMemStats(&m1)
			st := "open"
			if rr.closed() {
				st = "closed"
			}
			rr.pmu.Lock()
			pv := rr.panicV
			rr.pmu.Unlock()
			ev := map[string]any{"op": "RAlloc", "cls": cls, "maxmsg": mm, "delta": int64(m1.TotalAlloc - m0.TotalAlloc), "st": st, "panic": 0}
			if pv != nil {
				ev["panic"] = 1
				ev["site"] = fmt.Sprint(pv)
			}
			out.emit(ev)
			rr.client.Close()
		}
	}

	// 2. conformance of streams (parallel)
	type res struct {
		i  int
		ev []map[string]any
	}
	jobs := make(chan int)
	results := make([][]map[string]any, len(in.Streams))
	var wg sync.WaitGroup
	for w := 0; w < 8; w++ {
		wg.Add(1)
		go func() {
			defer wg.Done()
			for i := range jobs {
				results[i] = oneStream(in.Streams[i], e0, seed+int64(i)*7919)
			}
		}()
	}
	for i := range in.Streams {
		jobs <- i
	}
	close(jobs)
	wg.Wait()
	for _, evs := range results {
		for _, ev := range evs {
			out.emit(ev)
		}
	}
	return nil
}

func oneStream(s rStream, e0 env, seed int64) []map[string]any {
	e := e0
	e.MaxMsg = s.MaxMsg
	var evs []map[string]any
	evs = append(evs, map[string]any{"op": "RInit", "maxmsg": s.MaxMsg, "n": e.N, "frag": s.Frag})
	var stream []byte
	for _, cls := range s.Seq {
		b, err := encodeClass(cls, e)
		if err != nil {
			panic(err)
		}
		stream = append(stream, b...)
		evs = append(evs, map[string]any{"op": "RFeed", "cls": cls})
	}
	stream = append(stream, frame(9, []byte{sentinelPort >> 8, sentinelPort & 0xff})...)
	rr := startReader(s.MaxMsg)
	var rng *rand.Rand
	if s.Frag != 0 {
		rng = rand.New(rand.NewSource(seed ^ int64(s.Frag)))
	}
	rr.feed(withProbe(stream), rng)
	sentinel := 0
	if rr.sent {
		sentinel = 1
	}
	st := "open"
	if rr.closed() {
		st = "closed"
	}
	gots := rr.gots
	rr.pmu.Lock()
	pv := rr.panicV
	rr.pmu.Unlock()
	for _, g := range gots {
		evs = append(evs, map[string]any{"op": "RGot", "kind": g.Kind, "a": g.A, "b": g.B, "c": g.C, "dl": g.DL})
	}
	end := map[string]any{"op": "REnd", "st": st, "sentinel": sentinel, "panic": 0}
	if pv != nil {
		end["panic"] = 1
		end["site"] = fmt.Sprint(pv)
	}
	evs = append(evs, end)
	rr.client.Close()
	return evs
}
