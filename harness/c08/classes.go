package main

// Message classes of property C08 and their byte encodings. The class NAMES are shared with
// spec/PeerInput.tla (props/c08.py checks that both sides know exactly the same set).

import (
	"encoding/binary"
	"fmt"
	"sort"
	"strconv"
	"strings"

	"github.com/cenkalti/rain/v2/internal/verif/vh"
)

// env carries the sizes an encoding depends on.
type env struct {
	N      int // number of pieces
	PL     int // piece length
	Last   int // length of the last piece
	Meta   int // real metadata (info dict) size
	MaxMsg int // configured maximum message size (Config.MaxMetadataSize)
}

const blockLen = 16384

func be32(v uint32) []byte { return binary.BigEndian.AppendUint32(nil, v) }

// rawFrame builds a frame with an explicit (possibly lying) length prefix.
func rawFrame(length uint32, id byte, body []byte) []byte {
	out := be32(length)
	out = append(out, id)
	return append(out, body...)
}

// frame builds a correctly framed message.
func frame(id byte, body []byte) []byte { return rawFrame(uint32(1+len(body)), id, body) }

func u32s(v ...uint32) []byte {
	var out []byte
	for _, x := range v {
		out = append(out, be32(x)...)
	}
	return out
}

func ext(id byte, payload []byte) []byte { return frame(20, append([]byte{id}, payload...)) }

func junk(n int, salt byte) []byte {
	b := make([]byte, n)
	for i := range b {
		b[i] = byte(i*7) ^ salt | 1
	}
	return b
}

// rain's extension ids (the ids WE must use when sending to rain).
const (
	rainExtHS   = 0
	rainExtMeta = 1
	rainExtPEX  = 2
)

// our ids announced to rain in the extension handshake
const (
	ourMetaID = 1
	ourPexID  = 2
)

const maxU32 = 0xFFFFFFFF

type classDef struct {
	name string
	enc  func(e env) []byte
}

func hs(d vh.Dict) []byte { return ext(rainExtHS, vh.Enc(d)) }

var classTable = []classDef{
	// ---- framing level
	{"keepalive", func(e env) []byte { return []byte{0, 0, 0, 0} }},
	{"unknown.id99", func(e env) []byte { return frame(99, []byte{1, 2, 3}) }},
	{"unknown.suggest", func(e env) []byte { return frame(13, u32s(0)) }},
	{"unknown.empty", func(e env) []byte { return frame(200, nil) }},
	{"oversize.max1", func(e env) []byte { return rawFrame(uint32(e.MaxMsg+2), 5, nil) }},
	{"oversize.2g", func(e env) []byte { return rawFrame(0x80000000, 5, nil) }},
	{"oversize.4g", func(e env) []byte { return rawFrame(maxU32, 20, nil) }},
	{"oversize.unknown4g", func(e env) []byte { return rawFrame(maxU32, 99, nil) }},
	{"oversize.piece2g", func(e env) []byte { return rawFrame(0x80000000, 7, u32s(0, 0)) }},
	{"trunc.have", func(e env) []byte { return rawFrame(5, 4, []byte{0, 0}) }},
	{"trunc.bitfield", func(e env) []byte { return rawFrame(100, 5, []byte{1, 2, 3}) }},
	{"trunc.prefix", func(e env) []byte { return []byte{0, 0} }},
	{"wronglen.have9", func(e env) []byte { return rawFrame(9, 4, u32s(0, 0)) }},
	{"wronglen.have1", func(e env) []byte { return rawFrame(1, 4, nil) }},
	{"wronglen.choke5", func(e env) []byte { return rawFrame(5, 0, u32s(0)) }},
	{"wronglen.request5", func(e env) []byte { return rawFrame(5, 6, u32s(0)) }},
	{"wronglen.piece5", func(e env) []byte { return rawFrame(5, 7, u32s(0)) }},
	{"wronglen.port1", func(e env) []byte { return rawFrame(1, 9, nil) }},
	// ---- plain messages
	{"choke", func(e env) []byte { return frame(0, nil) }},
	{"unchoke", func(e env) []byte { return frame(1, nil) }},
	{"interested", func(e env) []byte { return frame(2, nil) }},
	{"notinterested", func(e env) []byte { return frame(3, nil) }},
	{"haveall", func(e env) []byte { return frame(14, nil) }},
	{"havenone", func(e env) []byte { return frame(15, nil) }},
	{"port", func(e env) []byte { return frame(9, []byte{0x1a, 0xe1}) }},
	{"have.in0", func(e env) []byte { return frame(4, u32s(0)) }},
	{"have.last", func(e env) []byte { return frame(4, u32s(uint32(e.N-1))) }},
	{"have.oob", func(e env) []byte { return frame(4, u32s(uint32(e.N))) }},
	{"have.max", func(e env) []byte { return frame(4, u32s(maxU32)) }},
	{"bitfield.ok", func(e env) []byte {
		return frame(5, vh.BitfieldBytes(e.N, func(i int) bool { return i < 2 || i == 9 }))
	}},
	{"bitfield.full", func(e env) []byte { return frame(5, vh.BitfieldBytes(e.N, func(i int) bool { return true })) }},
	{"bitfield.spare", func(e env) []byte {
		b := make([]byte, (e.N+7)/8)
		for i := range b {
			b[i] = 0xff
		}
		return frame(5, b)
	}},
	{"bitfield.empty", func(e env) []byte { return frame(5, nil) }},
	{"bitfield.short", func(e env) []byte { return frame(5, make([]byte, (e.N+7)/8-1)) }}, // N > 8: not empty
	{"bitfield.long", func(e env) []byte { return frame(5, make([]byte, (e.N+7)/8+1)) }},
	{"bitfield.atmax", func(e env) []byte { return frame(5, junk(e.MaxMsg, 0x55)) }},
	{"request.ok", func(e env) []byte { return frame(6, u32s(0, 0, blockLen)) }},
	{"request.len0", func(e env) []byte { return frame(6, u32s(0, 0, 0)) }},
	{"request.lenbig", func(e env) []byte { return frame(6, u32s(0, 0, blockLen+1)) }},
	{"request.tail", func(e env) []byte { return frame(6, u32s(0, uint32(e.PL-1), blockLen)) }},
	{"request.ovf", func(e env) []byte { return frame(6, u32s(0, maxU32, blockLen)) }},
	{"request.oob", func(e env) []byte { return frame(6, u32s(uint32(e.N), 0, blockLen)) }},
	{"request.max", func(e env) []byte { return frame(6, u32s(maxU32, 0, blockLen)) }},
	{"request.lastoob", func(e env) []byte { return frame(6, u32s(uint32(e.N-1), blockLen, blockLen)) }},
	{"cancel.ok", func(e env) []byte { return frame(8, u32s(0, 0, blockLen)) }},
	{"cancel.oob", func(e env) []byte { return frame(8, u32s(uint32(e.N), 0, blockLen)) }},
	{"reject.oob", func(e env) []byte { return frame(16, u32s(uint32(e.N), 0, blockLen)) }},
	{"reject.all", func(e env) []byte {
		var out []byte
		for i := 0; i < e.N; i++ {
			out = append(out, frame(16, u32s(uint32(i), 0, blockLen))...)
		}
		return out
	}},
	{"reject.allbad", func(e env) []byte {
		var out []byte
		for i := 0; i < e.N; i++ {
			out = append(out, frame(16, u32s(uint32(i), 3, 7))...)
		}
		return out
	}},
	{"piece.unreq", func(e env) []byte { return frame(7, append(u32s(0, 0), junk(blockLen, 1)...)) }},
	{"piece.oob", func(e env) []byte { return frame(7, append(u32s(uint32(e.N), 0), junk(blockLen, 2)...)) }},
	{"piece.max", func(e env) []byte { return frame(7, append(u32s(maxU32, 0), junk(64, 3)...)) }},
	{"piece.begin4g", func(e env) []byte { return frame(7, append(u32s(0, maxU32), junk(blockLen, 4)...)) }},
	{"piece.empty", func(e env) []byte { return frame(7, u32s(0, 0)) }},
	{"piece.big", func(e env) []byte { return frame(7, append(u32s(0, 0), junk(blockLen+1, 5)...)) }},
	{"piece.allbad", func(e env) []byte {
		var out []byte
		for i := 0; i < e.N; i++ {
			out = append(out, frame(7, append(u32s(uint32(i), 5), junk(10, 6)...))...)
		}
		return out
	}},
	{"piece.alljunk", func(e env) []byte { // junk for the first block of every piece (a valid block position)
		var out []byte
		for i := 0; i < e.N; i++ {
			out = append(out, frame(7, append(u32s(uint32(i), 0), junk(blockLen, 7)...))...)
		}
		return out
	}},
	{"allowedfast.in0", func(e env) []byte { return frame(17, u32s(0)) }},
	{"allowedfast.all", func(e env) []byte { // every piece is granted: whatever the picker takes first is an allowed-fast download
		var out []byte
		for i := 0; i < e.N; i++ {
			out = append(out, frame(17, u32s(uint32(i)))...)
		}
		return out
	}},
	{"allowedfast.oob", func(e env) []byte { return frame(17, u32s(uint32(e.N))) }},
	{"allowedfast.max", func(e env) []byte { return frame(17, u32s(maxU32)) }},
	// ---- extension protocol
	{"ext.hs.ok", func(e env) []byte {
		return hs(vh.Dict{"m": vh.Dict{"ut_metadata": ourMetaID, "ut_pex": ourPexID}, "metadata_size": e.Meta, "reqq": 250, "v": "atk"})
	}},
	{"ext.hs.nometa", func(e env) []byte { return hs(vh.Dict{"m": vh.Dict{}, "v": "atk"}) }},
	{"ext.hs.negsize", func(e env) []byte { return hs(vh.Dict{"m": vh.Dict{"ut_metadata": ourMetaID}, "metadata_size": -5}) }},
	{"ext.hs.hugesize", func(e env) []byte {
		return hs(vh.Dict{"m": vh.Dict{"ut_metadata": ourMetaID}, "metadata_size": int64(1) << 40})
	}},
	{"ext.hs.oversize", func(e env) []byte {
		return hs(vh.Dict{"m": vh.Dict{"ut_metadata": ourMetaID}, "metadata_size": e.MaxMsg + 1})
	}},
	{"ext.hs.atmax", func(e env) []byte {
		return hs(vh.Dict{"m": vh.Dict{"ut_metadata": ourMetaID}, "metadata_size": e.MaxMsg})
	}},
	{"ext.hs.wrongsize", func(e env) []byte {
		return hs(vh.Dict{"m": vh.Dict{"ut_metadata": ourMetaID}, "metadata_size": e.Meta + 1000})
	}},
	{"ext.hs.negreqq", func(e env) []byte {
		return hs(vh.Dict{"m": vh.Dict{"ut_metadata": ourMetaID}, "metadata_size": e.Meta, "reqq": -1})
	}},
	{"ext.hs.hugereqq", func(e env) []byte {
		return hs(vh.Dict{"m": vh.Dict{"ut_metadata": ourMetaID}, "metadata_size": e.Meta, "reqq": int64(1) << 40})
	}},
	{"ext.hs.mbig", func(e env) []byte { return hs(vh.Dict{"m": vh.Dict{"ut_metadata": 256}}) }},
	{"ext.hs.mneg", func(e env) []byte { return hs(vh.Dict{"m": vh.Dict{"ut_metadata": -1}}) }},
	{"ext.hs.garbage", func(e env) []byte { return ext(rainExtHS, []byte("d1:md11:ut_metadata")) }},
	{"ext.hs.notdict", func(e env) []byte { return ext(rainExtHS, []byte("i5e")) }},
	{"ext.hs.empty", func(e env) []byte { return ext(rainExtHS, nil) }},
	{"ext.none", func(e env) []byte { return frame(20, nil) }},
	{"ext.unknown", func(e env) []byte { return ext(7, []byte("de")) }},
	{"ext.meta.req0", func(e env) []byte { return ext(rainExtMeta, vh.Enc(vh.Dict{"msg_type": 0, "piece": 0})) }},
	{"ext.meta.reqoob", func(e env) []byte { return ext(rainExtMeta, vh.Enc(vh.Dict{"msg_type": 0, "piece": 99999})) }},
	{"ext.meta.reqovf", func(e env) []byte { return ext(rainExtMeta, vh.Enc(vh.Dict{"msg_type": 0, "piece": 262144})) }},
	{"ext.meta.reqneg", func(e env) []byte { return ext(rainExtMeta, vh.Enc(vh.Dict{"msg_type": 0, "piece": -1})) }},
	{"ext.meta.data0", func(e env) []byte {
		return ext(rainExtMeta, append(vh.Enc(vh.Dict{"msg_type": 1, "piece": 0, "total_size": 123}), junk(16, 8)...))
	}},
	{"ext.meta.dataoob", func(e env) []byte {
		return ext(rainExtMeta, append(vh.Enc(vh.Dict{"msg_type": 1, "piece": 9999, "total_size": e.Meta}), junk(16, 9)...))
	}},
	{"ext.meta.datajunk", func(e env) []byte { // right size for block 0 of the real metadata, wrong content
		n := e.Meta
		if n > blockLen {
			n = blockLen
		}
		return ext(rainExtMeta, append(vh.Enc(vh.Dict{"msg_type": 1, "piece": 0, "total_size": e.Meta}), junk(n, 10)...))
	}},
	{"ext.meta.datajunk2", func(e env) []byte { // right size for block 0 of metadata_size = Meta+1000 (ext.hs.wrongsize)
		n := e.Meta + 1000
		if n > blockLen {
			n = blockLen
		}
		return ext(rainExtMeta, append(vh.Enc(vh.Dict{"msg_type": 1, "piece": 0, "total_size": -7}), junk(n, 11)...))
	}},
	{"ext.meta.reject", func(e env) []byte { return ext(rainExtMeta, vh.Enc(vh.Dict{"msg_type": 2, "piece": 0})) }},
	{"ext.meta.type9", func(e env) []byte { return ext(rainExtMeta, vh.Enc(vh.Dict{"msg_type": 9, "piece": 0})) }},
	{"ext.meta.garbage", func(e env) []byte { return ext(rainExtMeta, []byte("xx")) }},
	{"ext.pex.ok", func(e env) []byte {
		return ext(rainExtPEX, vh.Enc(vh.Dict{"added": []byte{127, 0, 0, 9, 0, 1}, "dropped": []byte{}}))
	}},
	{"ext.pex.odd", func(e env) []byte {
		return ext(rainExtPEX, vh.Enc(vh.Dict{"added": []byte{127, 0, 0, 9, 0}, "dropped": []byte{1}}))
	}},
	{"ext.pex.garbage", func(e env) []byte { return ext(rainExtPEX, []byte("d5:addedi3ee")) }},
}

// ---- generated ut_pex families (the same names are constructed in spec/PeerInput.tla: PexLenK, PexRepK)

var pexFields = []string{"added", "addedf", "dropped", "added6", "dropped6"}

const pexMaxLen = 100

// pexList returns n bytes of a compact IPv4 peer list: whole 6-byte entries (addresses 127.0.8.x:1, nobody listens
// there: a dial is refused at once), followed by the first n%6 bytes of one more entry.
func pexList(n int, salt byte) []byte {
	out := make([]byte, 0, n+6)
	for i := 0; len(out) < n; i++ {
		out = append(out, 127, 0, 8, 1+byte(i%5)+salt, 0, 1)
	}
	return out[:n:n]
}

// pexLenMsg: the string of the named field is n bytes long.
func pexLenMsg(field string, n int) []byte {
	d := vh.Dict{"added": []byte{}, "dropped": []byte{}}
	switch field {
	case "added":
		d["added"] = pexList(n, 0)
	case "dropped":
		d["dropped"] = pexList(n, 10)
	case "addedf":
		d["added"] = pexList(12, 20)
		d["added.f"] = junk(n, 0x10)
	case "added6":
		d["added6"] = junk(n, 0x20)
	case "dropped6":
		d["dropped6"] = junk(n, 0x30)
	}
	return ext(rainExtPEX, vh.Enc(d))
}

// pexRepMsg: added / dropped name the addresses a = 127.0.7.1:1, x = 127.0.7.2:1 in the given order, repeats included.
func pexRepMsg(added, dropped string) []byte {
	list := func(s string) []byte {
		out := []byte{}
		for _, ch := range s {
			k := byte(1)
			if ch == 'x' {
				k = 2
			}
			out = append(out, 127, 0, 7, k, 0, 1)
		}
		return out
	}
	return ext(rainExtPEX, vh.Enc(vh.Dict{"added": list(added), "dropped": list(dropped)}))
}

func init() {
	for _, f := range pexFields {
		for n := 0; n <= pexMaxLen; n++ {
			f, n := f, n
			classTable = append(classTable, classDef{fmt.Sprintf("ext.pex.len.%s.%d", f, n), func(e env) []byte { return pexLenMsg(f, n) }})
		}
	}
	l1 := []string{"a", "x"}
	var seqs []string
	cur := []string{""}
	for k := 1; k <= 4; k++ {
		var nxt []string
		for _, s := range cur {
			for _, t := range l1 {
				nxt = append(nxt, s+t)
			}
		}
		seqs = append(seqs, nxt...)
		cur = nxt
	}
	for _, a := range seqs {
		for _, d := range []string{"", "a", "xa"} {
			a, d := a, d
			classTable = append(classTable, classDef{"ext.pex.rep." + a + "." + d, func(e env) []byte { return pexRepMsg(a, d) }})
		}
	}
	classIndex = map[string]classDef{}
	for _, c := range classTable {
		classIndex[c.name] = c
	}
}

var classIndex = func() map[string]classDef {
	m := map[string]classDef{}
	for _, c := range classTable {
		m[c.name] = c
	}
	return m
}()

func classNames() []string {
	var out []string
	for _, c := range classTable {
		out = append(out, c.name)
	}
	sort.Strings(out)
	return out
}

// encodeClass returns the bytes of a class. "mut:<kind>:<k>:<base>" applies a byte-level mutation
// (kind = trunc | flip | splice) with integer parameter k to the encoding of <base>.
func encodeClass(cls string, e env) ([]byte, error) {
	if strings.HasPrefix(cls, "mut:") {
		parts := strings.SplitN(cls, ":", 4)
		if len(parts) != 4 {
			return nil, fmt.Errorf("bad mutation class %q", cls)
		}
		k, err := strconv.Atoi(parts[2])
		if err != nil {
			return nil, err
		}
		base, err := encodeClass(parts[3], e)
		if err != nil {
			return nil, err
		}
		return mutate(parts[1], k, base), nil
	}
	c, ok := classIndex[cls]
	if !ok {
		return nil, fmt.Errorf("unknown class %q", cls)
	}
	return c.enc(e), nil
}

func mutate(kind string, k int, b []byte) []byte {
	if len(b) == 0 {
		return b
	}
	if k < 0 {
		k = -k
	}
	out := append([]byte(nil), b...)
	switch kind {
	case "trunc":
		cut := 1 + k%len(out)
		if cut >= len(out) {
			cut = len(out) - 1
		}
		return out[:len(out)-cut]
	case "flip":
		bit := k % (len(out) * 8)
		out[bit/8] ^= 1 << uint(7-bit%8)
		return out
	case "splice":
		at := k % len(out)
		n := 1 + (k/7)%len(out)
		ins := append([]byte(nil), b[:n]...)
		res := append([]byte(nil), out[:at]...)
		res = append(res, ins...)
		return append(res, out[at:]...)
	}
	return out
}
