package main

// Session level (CHILD process): a real torrent.Session attacked by scripted peers while one honest
// peer keeps transferring. One scenario = one torrent in a given state + message-class sequences.

import (
	"bytes"
	"encoding/hex"
	"encoding/json"
	"errors"
	"fmt"
	"net"
	"os"
	"regexp"
	"runtime"
	"strings"
	"sync"
	"sync/atomic"
	"time"

	"github.com/cenkalti/rain/v2/internal/peer"
	"github.com/cenkalti/rain/v2/internal/verif/vh"
	"github.com/cenkalti/rain/v2/torrent"
)

type scMsg struct {
	Pe  int    `json:"pe"`
	Cls string `json:"cls"`
}

type scenario struct {
	ID    int     `json:"id"`
	St    string  `json:"st"`  // meta | alloc | verify | down | seed | stopping
	NPe   int     `json:"npe"` // number of attackers
	Hs0   []int   `json:"hs0"` // attackers (1-based) that start with a plain extension handshake (ping barrier available)
	Msgs  []scMsg `json:"msgs"`
	Split int     `json:"split"` // stopping: number of messages sent before Stop()
}

type world struct {
	dir  string
	T    *vh.Tracer
	hub  *vh.SnapHub
	prov *vh.MemProvider
	cfg  torrent.Config
	s    *torrent.Session
	out  *outw

	hmu     sync.Mutex
	blockOp string
	blockID string
	release chan struct{}

	// peer look-ups answered on the loop goroutine of the torrent (tracer callback)
	lmu     sync.Mutex
	lookups map[string][]*lookup
}

type lookup struct {
	tr  *torrent.Torrent
	ip  string
	res chan *peer.Peer
}

const maxMsgCfg = 65536
const requestTimeout = time.Second

var errHang = errors.New("loop does not answer")

func newWorld(dir string, out *outw) (*world, error) {
	T, _ := vh.NewTracer("")
	w := &world{dir: dir, T: T, out: out}
	w.hub = vh.InstallSnapHub(T, false)
	w.lookups = map[string][]*lookup{}
	w.hub.ChainTracer(func(sn *torrent.VerifSnap) { // runs on the loop goroutine of torrent sn.ID
		w.lmu.Lock()
		ls := w.lookups[sn.ID]
		delete(w.lookups, sn.ID)
		w.lmu.Unlock()
		for _, l := range ls {
			l.res <- torrent.VerifC08Peer(l.tr, l.ip)
		}
	})
	cfg, err := vh.BaseConfig(dir, 60)
	if err != nil {
		return nil, err
	}
	w.prov = vh.NewMemProvider(T)
	w.prov.Quiet = true
	cfg.CustomStorage = w.prov
	cfg.MaxMetadataSize = maxMsgCfg
	cfg.PEXEnabled = true
	cfg.RequestTimeout = requestTimeout
	cfg.TrackerStopTimeout = 3 * time.Second
	cfg.HealthCheckInterval = time.Hour // the driver has its own watchdog (and rain's dump goes to TMPDIR)
	cfg.HealthCheckTimeout = time.Hour
	w.cfg = cfg
	w.prov.SetHook(func(phase, op, tid, name string, off int64, n int) error {
		if phase != "enter" {
			return nil
		}
		w.hmu.Lock()
		ch := w.release
		match := w.blockOp == op && w.blockID == tid
		w.hmu.Unlock()
		if match && ch != nil {
			select {
			case <-ch:
			case <-time.After(60 * time.Second):
			}
		}
		return nil
	})
	s, err := torrent.NewSession(cfg)
	if err != nil {
		return nil, err
	}
	w.s = s
	return w, nil
}

func (w *world) setGate(op, id string) {
	w.hmu.Lock()
	w.blockOp, w.blockID, w.release = op, id, make(chan struct{})
	w.hmu.Unlock()
}

func (w *world) openGate() {
	w.hmu.Lock()
	if w.release != nil {
		close(w.release)
		w.release = nil
	}
	w.blockOp = ""
	w.hmu.Unlock()
}

// peerOf returns rain's peer object for the attacker's address (nil: no such peer / loop does not answer).
func (w *world) peerOf(tr *torrent.Torrent, id, ip string) *peer.Peer {
	l := &lookup{tr: tr, ip: ip, res: make(chan *peer.Peer, 1)}
	w.lmu.Lock()
	w.lookups[id] = append(w.lookups[id], l)
	w.lmu.Unlock()
	for try := 0; try < 3; try++ {
		statsOK(tr, 3*time.Second) // any event makes the loop call the tracer
		select {
		case pe := <-l.res:
			return pe
		case <-time.After(200 * time.Millisecond):
		}
	}
	return nil
}

// statsOK calls Torrent.Stats() (answered by the torrent loop) under a watchdog.
func statsOK(tr *torrent.Torrent, d time.Duration) bool {
	ch := make(chan struct{})
	go func() {
		tr.Stats()
		close(ch)
	}()
	select {
	case <-ch:
		return true
	case <-time.After(d):
		return false
	}
}

var frameRe = regexp.MustCompile(`^([^\s(][^\n]*?)\(`)

// loopSite returns the call chain (innermost first) of the torrent loop goroutine, rain frames only.
func loopSite() string {
	buf := make([]byte, 4<<20)
	n := runtime.Stack(buf, true)
	for _, g := range strings.Split(string(buf[:n]), "\n\n") {
		if !strings.Contains(g, "torrent.(*torrent).run(") {
			continue
		}
		var fr []string
		for _, line := range strings.Split(g, "\n") {
			if strings.HasPrefix(line, "\t") || strings.HasPrefix(line, "goroutine ") {
				continue
			}
			fn := line
			if i := strings.LastIndex(fn, "("); i > 0 {
				fn = fn[:i]
			}
			if !strings.Contains(fn, "cenkalti/rain") {
				continue
			}
			fn = strings.TrimPrefix(fn, "github.com/cenkalti/rain/v2/")
			fn = strings.TrimPrefix(fn, "internal/")
			fn = regexp.MustCompile(`\[[^\]]*\]`).ReplaceAllString(fn, "")
			fr = append(fr, fn)
			if strings.HasSuffix(fn, ".run") {
				break
			}
		}
		state := ""
		if i := strings.Index(g, "["); i > 0 {
			if j := strings.Index(g[i:], "]"); j > 0 {
				state = g[i+1 : i+j]
				if k := strings.Index(state, ","); k > 0 {
					state = state[:k]
				}
			}
		}
		return strings.Join(fr, "<") + " [" + state + "]"
	}
	return "loop goroutine not found"
}

// ---------------------------------------------------------------- attackers

type attacker struct {
	idx    int
	ip     string
	nc     net.Conn
	hs0    bool
	eof    chan struct{}
	pong   chan int
	pingN  int
	sentN  int
	wrErr  atomic.Bool
	unsync bool // sent a class that breaks the framing (truncated / wrong length / mutated): no ping
	gone   bool // the attacker closed its socket itself (@disconnect)
	fired  bool // @fire seen and the timer is known to have been armed: @snub may hand the event over
	nReq    atomic.Int64 // block requests received from rain
	lastReq atomic.Int64 // time of the last one (unix nanoseconds): rain arms the request-timeout timer when it requests
}

func (w *world) connectAttacker(idx int, sc *scenario, tor *vh.Torrent, addr string, hs0 bool) (*attacker, error) {
	ip := fmt.Sprintf("127.0.0.%d", 2+idx)
	nc, err := vh.DialFrom(ip, addr, 2*time.Second)
	if err != nil {
		return nil, err
	}
	_, err = vh.PlainHandshake(nc, tor.InfoHash, vh.PeerID(fmt.Sprintf("atk%d-%d", idx, sc.ID)), vh.ReservedBits(true, true, false), 5*time.Second)
	if err != nil {
		nc.Close()
		return nil, err
	}
	a := &attacker{idx: idx, ip: ip, nc: nc, hs0: hs0, eof: make(chan struct{}), pong: make(chan int, 64)}
	go a.readLoop()
	if hs0 {
		a.raw(hs(vh.Dict{"m": vh.Dict{"ut_metadata": ourMetaID, "ut_pex": ourPexID}, "reqq": 250, "v": "atk"}))
	}
	return a, nil
}

func (a *attacker) readLoop() {
	defer close(a.eof)
	for {
		m, err := vh.ReadMsg(a.nc, 1<<22)
		if err != nil {
			return
		}
		if m.ID == vh.MsgRequest {
			a.lastReq.Store(time.Now().UnixNano())
			a.nReq.Add(1)
		}
		if m.ID == vh.MsgExtended && m.ExtID == ourMetaID {
			v, _, err := vh.Dec(m.Data)
			if err == nil {
				if d, ok := v.(map[string]any); ok {
					typ, _ := d["msg_type"].(int64)
					pc, _ := d["piece"].(int64)
					if typ == 0 { // rain asks us for a metadata block: arms the same timer
						a.lastReq.Store(time.Now().UnixNano())
						a.nReq.Add(1)
					}
					if typ == 2 && pc >= 100000 {
						select {
						case a.pong <- int(pc - 100000):
						default:
						}
					}
				}
			}
		}
	}
}

func (a *attacker) raw(b []byte) {
	a.nc.SetWriteDeadline(time.Now().Add(2 * time.Second))
	if _, err := a.nc.Write(b); err != nil {
		a.wrErr.Store(true)
	}
}

func (a *attacker) closedNow() bool {
	select {
	case <-a.eof:
		return true
	default:
		return false
	}
}

// ping: 1 = answered, 0 = connection closed by rain, -1 = neither within the timeout
func (a *attacker) ping(timeout time.Duration) int {
	a.pingN++
	k := a.pingN
	a.raw(ext(rainExtMeta, vh.Enc(vh.Dict{"msg_type": 0, "piece": 100000 + k})))
	dl := time.After(timeout)
	for {
		select {
		case got := <-a.pong:
			if got == k {
				return 1
			}
		case <-a.eof:
			return 0
		case <-dl:
			return -1
		}
	}
}

func listed(s *torrent.VerifSnap, ip string) bool { return listedKind(s, ip) != 0 }

// listedKind: 0 not listed, 1 an established peer, 2 only the address reservation (connectedPeerIPs)
func listedKind(s *torrent.VerifSnap, ip string) int {
	if s == nil {
		return 0
	}
	for _, p := range s.PeerList {
		if strings.HasPrefix(p.Addr, ip+":") {
			return 1
		}
	}
	for _, x := range s.ConnectedIPs {
		if x == ip {
			return 2
		}
	}
	return 0
}

// observe reports (alive, listed, pong). Returns errHang if the loop stopped answering.
func (w *world) observe(a *attacker, tr *torrent.Torrent, usePing bool) (alive, lst, pong int, err error) {
	pong = -2 // no ping used
	if a.closedNow() {
		alive = 0
	} else if usePing && a.hs0 && !a.unsync {
		pong = a.ping(10 * time.Second)
		if pong == 0 {
			alive = 0
		} else {
			alive = 1
		}
		if pong == -1 && !statsOK(tr, 3*time.Second) {
			return 0, 0, pong, errHang
		}
	} else {
		select {
		case <-a.eof:
			alive = 0
		case <-time.After(250 * time.Millisecond):
			alive = 1
		}
	}
	deadline := time.Now().Add(10 * time.Second)
	for {
		if !statsOK(tr, 3*time.Second) {
			return alive, 0, pong, errHang
		}
		if !statsOK(tr, 3*time.Second) { // second call: the snapshot of the first one is published
			return alive, 0, pong, errHang
		}
		l := listed(w.hub.Get(tr.ID()), a.ip)
		if alive == 1 && !l { // rain forgot the peer: has it closed the socket too?
			select {
			case <-a.eof:
				alive = 0
			case <-time.After(5 * time.Second):
			}
			lst = 0
			return
		}
		if alive == 1 && l {
			lst = 1
			return
		}
		if !l {
			lst = 0
			return
		}
		if time.Now().After(deadline) {
			lst = 1
			return
		}
		time.Sleep(3 * time.Millisecond)
	}
}

// armed waits until rain has sent this attacker a request (block or metadata): from then on the peer's
// request-timeout timer has been armed at least once in this connection.
func (a *attacker) armed(d time.Duration) bool {
	deadline := time.Now().Add(d)
	for a.nReq.Load() == 0 {
		if a.closedNow() || time.Now().After(deadline) {
			return false
		}
		time.Sleep(2 * time.Millisecond)
	}
	return true
}

// pseudo executes an environment step of a scenario (class names starting with '@'):
//
//	@fire        the request-timeout timer of the peer has fired and peer.Run holds the event (nothing to do on the
//	             real side but to make sure the timer was armed: rain has requested something from this attacker)
//	@snub        peer.Run hands the event to the loop - after every message the attacker sent before has been handled
//	@wait        real time: the attacker stays silent for RequestTimeout + 200 ms (the real timer fires, is delivered)
//	@at:<us>     real time: the attacker stays silent until <us> microseconds after the expiry of the timer armed by
//	             rain's last request (negative = before); the next message of the scenario is written right then
//	@disconnect  the attacker closes its socket
func (w *world) pseudo(tr *torrent.Torrent, id string, a *attacker, m scMsg) error {
	out := w.out
	switch {
	case m.Cls == "@fire":
		ok := 0
		if !a.gone && a.armed(1500*time.Millisecond) {
			ok, a.fired = 1, true
		}
		out.emit(map[string]any{"op": "Timer", "pe": m.Pe, "what": "fire", "ok": ok})
	case m.Cls == "@snub":
		if !a.fired {
			out.emit(map[string]any{"op": "Dbg", "at": "@snub skipped: timer never armed"})
			return nil
		}
		a.fired = false
		if a.hs0 && !a.unsync && !a.gone {
			a.ping(5 * time.Second) // barrier: everything this attacker sent before has been handled
		} else {
			time.Sleep(150 * time.Millisecond)
		}
		r := 0
		if pe := w.peerOf(tr, id, a.ip); pe != nil {
			r = torrent.VerifC08Snub(tr, pe, 5*time.Second)
		}
		out.emit(map[string]any{"op": "Timer", "pe": m.Pe, "what": "snub", "ok": r})
		if r < 0 {
			if h := w.hang(tr); h != nil {
				return h
			}
		}
	case m.Cls == "@wait":
		a.armed(1500 * time.Millisecond)
		time.Sleep(requestTimeout + 200*time.Millisecond)
		out.emit(map[string]any{"op": "Timer", "pe": m.Pe, "what": "wait", "ok": int(min(a.nReq.Load(), 1))})
	case strings.HasPrefix(m.Cls, "@at:"):
		var us int
		fmt.Sscanf(m.Cls, "@at:%d", &us)
		ok := 0
		if a.armed(1500 * time.Millisecond) {
			ok = 1
			time.Sleep(3 * time.Millisecond) // rain writes its requests in one burst: take the last one
			target := time.Unix(0, a.lastReq.Load()).Add(requestTimeout + time.Duration(us)*time.Microsecond)
			if d := time.Until(target); d > 0 {
				time.Sleep(d)
			}
		}
		out.emit(map[string]any{"op": "Timer", "pe": m.Pe, "what": "at", "ok": ok, "us": us})
	case m.Cls == "@disconnect":
		a.gone = true
		a.nc.Close()
		select {
		case <-a.eof:
		case <-time.After(time.Second):
		}
		out.emit(map[string]any{"op": "Disc", "pe": m.Pe})
	default:
		return fmt.Errorf("unknown environment step %q", m.Cls)
	}
	return nil
}

// ---------------------------------------------------------------- honest leecher (seeding state)

type leecher struct {
	nc      net.Conn
	tor     *vh.Torrent
	unchoke chan struct{}
	pieces  chan vh.Msg
	eof     chan struct{}
}

func connectLeecher(ip, addr string, tor *vh.Torrent, tag string) (*leecher, error) {
	nc, err := vh.DialFrom(ip, addr, 2*time.Second)
	if err != nil {
		return nil, err
	}
	if _, err = vh.PlainHandshake(nc, tor.InfoHash, vh.PeerID(tag), vh.ReservedBits(true, false, false), 5*time.Second); err != nil {
		nc.Close()
		return nil, err
	}
	l := &leecher{nc: nc, tor: tor, unchoke: make(chan struct{}, 16), pieces: make(chan vh.Msg, 256), eof: make(chan struct{})}
	go func() {
		defer close(l.eof)
		for {
			m, err := vh.ReadMsg(nc, 1<<22)
			if err != nil {
				return
			}
			switch m.ID {
			case vh.MsgUnchoke:
				select {
				case l.unchoke <- struct{}{}:
				default:
				}
			case vh.MsgPiece, vh.MsgReject, vh.MsgChoke:
				l.pieces <- m
			}
		}
	}()
	nc.Write(frame(15, nil)) // have-none
	nc.Write(frame(2, nil))  // interested
	return l, nil
}

type blk struct{ idx, begin, length int }

func allBlocks(tor *vh.Torrent) []blk {
	var out []blk
	for i := 0; i < tor.NumPieces; i++ {
		pl := tor.PieceLenOf(i)
		for b := 0; b < pl; b += blockLen {
			out = append(out, blk{i, b, min(blockLen, pl-b)})
		}
	}
	return out
}

// fetch downloads the blocks and compares them with ground truth.
func (l *leecher) fetch(bs []blk, timeout time.Duration) error {
	deadline := time.After(timeout)
	need := map[[2]int]blk{}
	send := func(b blk) {
		l.nc.SetWriteDeadline(time.Now().Add(2 * time.Second))
		l.nc.Write(frame(6, u32s(uint32(b.idx), uint32(b.begin), uint32(b.length))))
	}
	for _, b := range bs {
		need[[2]int{b.idx, b.begin}] = b
		send(b)
	}
	for len(need) > 0 {
		select {
		case m := <-l.pieces:
			switch m.ID {
			case vh.MsgPiece:
				k := [2]int{int(m.Index), int(m.Begin)}
				b, ok := need[k]
				if !ok {
					continue
				}
				want := l.tor.PieceData(b.idx)[b.begin : b.begin+b.length]
				if !bytes.Equal(want, m.Data) {
					return fmt.Errorf("block %v content mismatch", k)
				}
				delete(need, k)
			case vh.MsgReject, vh.MsgChoke: // choked in between: wait for the next unchoke and ask again
				select {
				case <-l.unchoke:
				case <-l.eof:
					return errors.New("connection closed by rain")
				case <-deadline:
					return errors.New("timeout (choked)")
				}
				for _, b := range need {
					send(b)
				}
			}
		case <-l.eof:
			return errors.New("connection closed by rain")
		case <-deadline:
			return fmt.Errorf("timeout, %d blocks missing", len(need))
		}
	}
	return nil
}

// ---------------------------------------------------------------- scenario

type hangErr struct{ site string }

func (h hangErr) Error() string { return "hang: " + h.site }

// hang confirms a blocked loop: Stats() stays unanswered for 6 more seconds AND the loop goroutine is parked
// inside a handler (a frame below torrent.run) at the same site in two samples one second apart.
// An idle loop on a slow machine sits in run's own select and is never reported.
func (w *world) hang(tr *torrent.Torrent) error {
	if statsOK(tr, 6*time.Second) {
		return nil
	}
	s1 := loopSite()
	time.Sleep(time.Second)
	s2 := loopSite()
	if s1 != s2 || !strings.Contains(s1, "<") {
		return nil
	}
	return hangErr{site: s1}
}

func magnetOf(tor *vh.Torrent) string {
	return "magnet:?xt=urn:btih:" + hex.EncodeToString(tor.InfoHash[:])
}

var scLayout = vh.Layout{Name: "c08", PieceLen: 2 * blockLen, Files: []vh.FileSpec{{Length: 11*2*blockLen + 20000}}} // 12 pieces: the bitfield has two bytes

func (w *world) runScenario(sc *scenario) (err error) {
	out := w.out
	id := fmt.Sprintf("sc%d", sc.ID)
	var trk *vh.HTTPTracker
	var trackers [][]string
	stoppedDelay := 400 * time.Millisecond
	if sc.St == "stopping" {
		trk, err = vh.StartHTTPTracker(nil, "trk", func(r vh.AnnReq) vh.AnnReply {
			rep := vh.AnnReply{Interval: vh.I64(1800)}
			if r.Event == "stopped" {
				rep.Delay = stoppedDelay
			}
			return rep
		})
		if err != nil {
			return err
		}
		defer trk.Close()
		trackers = [][]string{{trk.URL()}}
	}
	tor := vh.Build(scLayout, int64(1000+sc.ID), trackers, nil)
	e := env{N: tor.NumPieces, PL: tor.PieceLen, Last: tor.PieceLenOf(tor.NumPieces - 1), Meta: len(tor.InfoBytes), MaxMsg: maxMsgCfg}
	w.prov.Truth[id] = tor
	st0 := sc.St
	if st0 == "stopping" {
		st0 = "down"
	}
	out.emit(map[string]any{"op": "Init", "sc": sc.ID, "st": st0, "label": sc.St, "n": e.N, "npe": sc.NPe, "maxmsg": e.MaxMsg})
	var mem0 runtime.MemStats
	runtime.ReadMemStats(&mem0)

	// ---- bring the torrent into the state
	var tr *torrent.Torrent
	opt := &torrent.AddTorrentOptions{ID: id}
	store := w.prov.Store(id)
	for _, n := range store.Names() {
		store.Delete(n)
	}
	switch sc.St {
	case "seed":
		store.Fill(tor)
	case "verify":
		d := make([]byte, len(tor.Data))
		copy(d[:2*tor.PieceLen], tor.Data[:2*tor.PieceLen])
		store.Put(tor.StoragePath(0), d)
		w.setGate("read", id)
	case "alloc":
		w.setGate("open", id)
	}
	defer w.openGate()
	magnet := sc.St == "meta" || sc.St == "alloc" || sc.St == "verify"
	if magnet {
		tr, err = w.s.AddURI(magnetOf(tor), opt)
	} else {
		tr, err = w.s.AddTorrent(bytes.NewReader(tor.Bytes), opt)
	}
	if err != nil {
		return fmt.Errorf("add: %w", err)
	}
	removed := false
	defer func() {
		var h hangErr
		if removed || errors.As(err, &h) { // a hung loop cannot be removed; the child exits anyway
			return
		}
		done := make(chan struct{})
		go func() { w.s.RemoveTorrent(id, false); close(done) }()
		select {
		case <-done:
		case <-time.After(8 * time.Second):
			if err == nil {
				err = hangErr{site: "RemoveTorrent: " + loopSite()}
			}
		}
	}()
	// health monitor: Stats() every 300 ms; hungC is closed when the loop has not answered for 2.5 s
	hungC := make(chan struct{})
	monStop := make(chan struct{})
	defer close(monStop)
	go func() {
		for {
			select {
			case <-monStop:
				return
			case <-time.After(300 * time.Millisecond):
			}
			if !statsOK(tr, 2500*time.Millisecond) && !statsOK(tr, 3*time.Second) {
				close(hungC)
				return
			}
		}
	}()
	isHung := func() bool {
		select {
		case <-hungC:
			return true
		default:
			return false
		}
	}
	// waitSt waits for a loop state; a loop that stops answering ends the wait early
	waitSt := func(d time.Duration, pred func(*torrent.VerifSnap) bool) bool {
		deadline := time.Now().Add(d)
		for {
			if w.hub.Wait(id, 250*time.Millisecond, pred) {
				return true
			}
			if isHung() || time.Now().After(deadline) {
				return false
			}
		}
	}
	addr := fmt.Sprintf("127.0.0.1:%d", tr.Port())
	var honest *vh.Seeder
	var leech *leecher
	gate := make(chan struct{}, 8192)
	hpol := &vh.SeederPolicy{Gate: gate, Metadata: true}
	connectHonest := func() error {
		var err error
		for try := 0; try < 20; try++ {
			honest, err = vh.ConnectSeeder(w.T, "honest", "127.0.0.2", addr, tor, hpol)
			if err == nil {
				return nil
			}
			time.Sleep(20 * time.Millisecond)
		}
		return fmt.Errorf("honest seeder cannot connect: %w", err)
	}
	defer func() {
		if honest != nil {
			honest.Close()
		}
		if leech != nil {
			leech.nc.Close()
		}
	}()
	reach := func(what string, ok bool) error {
		if ok {
			return nil
		}
		if isHung() || !statsOK(tr, 3*time.Second) {
			if h := w.hang(tr); h != nil {
				return h
			}
		}
		return fmt.Errorf("setup: state %q not reached: %+v", what, w.hub.Get(id))
	}
	switch sc.St {
	case "meta":
		if err = reach("meta", waitSt(5*time.Second, func(s *torrent.VerifSnap) bool { return s.Status == "Downloading Metadata" && s.Acceptor })); err != nil {
			return err
		}
	case "alloc":
		if err = reach("meta", waitSt(5*time.Second, func(s *torrent.VerifSnap) bool { return s.Acceptor })); err != nil {
			return err
		}
		if err = connectHonest(); err != nil {
			return err
		}
		if err = reach("alloc", waitSt(5*time.Second, func(s *torrent.VerifSnap) bool { return s.Allocating })); err != nil {
			return err
		}
	case "verify":
		if err = reach("meta", waitSt(5*time.Second, func(s *torrent.VerifSnap) bool { return s.Acceptor })); err != nil {
			return err
		}
		if err = connectHonest(); err != nil {
			return err
		}
		if err = reach("verify", waitSt(5*time.Second, func(s *torrent.VerifSnap) bool { return s.Verifying })); err != nil {
			return err
		}
	case "down", "stopping":
		if err = reach("down", waitSt(5*time.Second, func(s *torrent.VerifSnap) bool { return s.Status == "Downloading" && s.Acceptor })); err != nil {
			return err
		}
		if sc.St == "stopping" { // the stop announcer only contacts trackers that have been announced to
			dl := time.Now().Add(3 * time.Second)
			for len(trk.Requests()) == 0 && time.Now().Before(dl) {
				time.Sleep(5 * time.Millisecond)
			}
			time.Sleep(30 * time.Millisecond)
		}
		out.emit(map[string]any{"op": "Dbg", "at": "down reached"})
		if err = connectHonest(); err != nil {
			return err
		}
		out.emit(map[string]any{"op": "Dbg", "at": "honest connected"})
		gate <- struct{}{}
		gate <- struct{}{}
		dl := time.Now().Add(4 * time.Second)
		for honest.Served.Load() < 2 && time.Now().Before(dl) {
			time.Sleep(2 * time.Millisecond)
		}
		if honest.Served.Load() < 2 {
			return reach("honest transfer started", false)
		}
	case "seed":
		if err = reach("seed", waitSt(8*time.Second, func(s *torrent.VerifSnap) bool { return s.Status == "Seeding" && s.Acceptor })); err != nil {
			return err
		}
		for try := 0; try < 20; try++ {
			leech, err = connectLeecher("127.0.0.2", addr, tor, fmt.Sprintf("honest-%d", sc.ID))
			if err == nil {
				break
			}
			time.Sleep(20 * time.Millisecond)
		}
		if err != nil {
			return err
		}
		select {
		case <-leech.unchoke:
		case <-time.After(4 * time.Second):
			return reach("honest leecher unchoked", false)
		}
		if err = leech.fetch(allBlocks(tor)[:2], 4*time.Second); err != nil {
			return fmt.Errorf("setup: honest leecher first blocks: %w", err)
		}
	default:
		return fmt.Errorf("unknown state %q", sc.St)
	}

	out.emit(map[string]any{"op": "Dbg", "at": "state reached"})
	// ---- attack
	hs0 := map[int]bool{}
	for _, p := range sc.Hs0 {
		hs0[p] = true
	}
	atk := map[int]*attacker{}
	defer func() {
		for _, a := range atk {
			a.nc.Close()
		}
	}()
	for p := 1; p <= sc.NPe; p++ {
		var a *attacker
		for try := 0; try < 10; try++ {
			a, err = w.connectAttacker(p, sc, tor, addr, hs0[p])
			if err == nil {
				break
			}
			time.Sleep(20 * time.Millisecond)
		}
		if err != nil {
			return fmt.Errorf("setup: attacker %d cannot connect: %w", p, err)
		}
		atk[p] = a
	}
	out.emit(map[string]any{"op": "Dbg", "at": "attackers connected"})
	stopped := false
	var stopDone chan struct{}
	// Torrent.Stop writes the resume database first (can take long on a busy machine): the Stop event is
	// recorded only when the loop has really entered Stopping / Stopped
	var silent net.Conn
	defer func() {
		if silent != nil {
			silent.Close()
		}
	}()
	doStop := func() error {
		// one more connection (127.0.0.10) that is still in its handshake when the torrent is stopped
		if nc, derr := vh.DialFrom("127.0.0.10", addr, 2*time.Second); derr == nil {
			silent = nc
			w.hub.Wait(id, 2*time.Second, func(s *torrent.VerifSnap) bool { return s.InHS > 0 })
		}
		stopDone = make(chan struct{})
		go func() { tr.Stop(); close(stopDone) }()
		if !waitSt(30*time.Second, func(s *torrent.VerifSnap) bool { return s.Stopping || !s.Running }) {
			return reach("stopping", false)
		}
		out.emit(map[string]any{"op": "Stop"})
		return nil
	}
	for i, m := range sc.Msgs {
		if sc.St == "stopping" && i == sc.Split && !stopped {
			stopped = true
			if err = doStop(); err != nil {
				return err
			}
		}
		if strings.HasPrefix(m.Cls, "@") {
			if err = w.pseudo(tr, id, atk[m.Pe], m); err != nil {
				return err
			}
			continue
		}
		b, eerr := encodeClass(m.Cls, e)
		if eerr != nil {
			return eerr
		}
		atk[m.Pe].raw(b)
		if strings.HasPrefix(m.Cls, "trunc.") || strings.HasPrefix(m.Cls, "wronglen.") || strings.HasPrefix(m.Cls, "mut:") {
			atk[m.Pe].unsync = true
		}
		out.emit(map[string]any{"op": "Msg", "pe": m.Pe, "cls": m.Cls})
	}
	if sc.St == "stopping" && !stopped {
		stopped = true
		if err = doStop(); err != nil {
			return err
		}
	}
	obs := func(phase string) error {
		for p := 1; p <= sc.NPe; p++ {
			alive, lst, pong, oerr := w.observe(atk[p], tr, true)
			if oerr != nil {
				if h := w.hang(tr); h != nil {
					return h
				}
			}
			out.emit(map[string]any{"op": "Obs", "pe": p, "alive": alive, "listed": lst, "pong": pong, "phase": phase,
				"lkind": listedKind(w.hub.Get(id), atk[p].ip)})
		}
		return nil
	}
	// loop health: Stats answers; no piece download is owned by a peer that rain has already closed
	loopCheck := func(phase string) error {
		if !statsOK(tr, 3*time.Second) {
			if h := w.hang(tr); h != nil {
				return h
			}
		}
		statsOK(tr, 3*time.Second)
		snap := w.hub.Get(id)
		zombie, running, lastErr := 0, 0, ""
		if snap != nil {
			dl := 0
			for _, p := range snap.PeerList {
				if p.Downloading {
					dl++
				}
			}
			if snap.Downloads > dl {
				zombie = snap.Downloads - dl
			}
			lastErr = snap.LastErr
			if snap.Running {
				running = 1
			}
		}
		out.emit(map[string]any{"op": "Loop", "ok": 1, "zombie": zombie, "running": running, "lasterr": lastErr, "phase": phase})
		return nil
	}
	if err = obs("pre"); err != nil {
		return err
	}
	if err = loopCheck("pre"); err != nil {
		return err
	}

	// ---- release the gates / restart, let the honest transfer finish
	switch sc.St {
	case "meta":
		if err = connectHonest(); err != nil {
			return err
		}
	case "alloc", "verify":
		w.openGate()
	case "stopping":
		// a new connection while stopping must be refused or closed, never crash anything
		if nc, derr := vh.DialFrom("127.0.0.9", addr, 500*time.Millisecond); derr == nil {
			nc.SetDeadline(time.Now().Add(300 * time.Millisecond))
			nc.Write(vh.Handshake{Reserved: vh.ReservedBits(true, true, false), InfoHash: tor.InfoHash, PeerID: vh.PeerID("late")}.Bytes())
			var one [1]byte
			nc.Read(one[:])
			nc.Close()
		}
		if !statsOK(tr, 3*time.Second) {
			if h := w.hang(tr); h != nil {
				return h
			}
		}
		select {
		case <-stopDone:
		case <-time.After(3 * time.Second):
		}
		if !waitSt(30*time.Second, func(s *torrent.VerifSnap) bool { return !s.Running }) {
			return reach("stopped", false)
		}
		honest.Close()
		honest = nil
		if serr := tr.Start(); serr != nil {
			return serr
		}
		if err = reach("down again", waitSt(5*time.Second, func(s *torrent.VerifSnap) bool { return s.Status == "Downloading" && s.Acceptor })); err != nil {
			return err
		}
		addr = fmt.Sprintf("127.0.0.1:%d", tr.Port())
		if err = connectHonest(); err != nil {
			return err
		}
		// the address that was in its handshake at Stop must be able to connect again
		if silent != nil {
			silent.Close()
			silent = nil
			rok := 0
			for try := 0; try < 3 && rok == 0; try++ {
				if nc, derr := vh.DialFrom("127.0.0.10", addr, 2*time.Second); derr == nil {
					if _, herr := vh.PlainHandshake(nc, tor.InfoHash, vh.PeerID(fmt.Sprintf("again-%d", sc.ID)), vh.ReservedBits(true, true, false), 5*time.Second); herr == nil {
						rok = 1
					}
					nc.Close()
				}
			}
			out.emit(map[string]any{"op": "Reconn", "ok": rok})
		}
	}
	if sc.St != "down" && sc.St != "seed" {
		ok := waitSt(8*time.Second, func(s *torrent.VerifSnap) bool {
			return (s.Status == "Downloading" || s.Status == "Seeding") && !s.Allocating && !s.Verifying && s.HasInfo && !s.BitfieldNil && s.PiecesLoaded
		})
		if !ok {
			return reach("downloading after gate", false)
		}
		out.emit(map[string]any{"op": "Advance", "to": "down"})
		// queued messages have been replayed by now; the honest peer has not delivered a block yet
		// (at completion rain itself closes every peer that is not interested)
		if sc.St != "stopping" {
			if err = obs("post"); err != nil {
				return err
			}
		}
		if err = loopCheck("post"); err != nil {
			return err
		}
	}
	for i := 0; i < 4000; i++ {
		gate <- struct{}{}
	}
	out.emit(map[string]any{"op": "Dbg", "at": "gate open"})
	hon := 1
	why := ""
	if sc.St == "seed" {
		if ferr := leech.fetch(allBlocks(tor)[2:], 40*time.Second); ferr != nil {
			hon, why = 0, ferr.Error()
		}
	} else {
		hc := hungC
		deadline := time.After(40 * time.Second)
	waitDone:
		for {
			select {
			case <-tr.NotifyComplete():
				if !store.Complete(tor) {
					hon, why = 0, "completed with wrong content"
				}
				break waitDone
			case <-hc:
				if h := w.hang(tr); h != nil {
					return h
				}
				hc = nil // slow machine, not a blocked loop: keep waiting
			case <-deadline:
				hon, why = 0, "honest transfer did not complete in 40s"
				break waitDone
			}
		}
	}
	out.emit(map[string]any{"op": "Dbg", "at": "honest done"})
	if !statsOK(tr, 3*time.Second) {
		if h := w.hang(tr); h != nil {
			return h
		}
	}
	// ---- loop health at the end
	if err = loopCheck("end"); err != nil {
		return err
	}
	snap := w.hub.Get(id)
	// bytes allocated by the whole process during the scenario (torrent content is ~116 KiB, max message size 64 KiB)
	var mem1 runtime.MemStats
	runtime.ReadMemStats(&mem1)
	out.emit(map[string]any{"op": "Mem", "delta": int64(mem1.TotalAlloc - mem0.TotalAlloc), "nmsg": len(sc.Msgs)})
	hev := map[string]any{"op": "Honest", "ok": hon}
	if why != "" {
		hev["why"] = why
		hev["snap"] = fmt.Sprintf("%+v", snap)
	}
	out.emit(hev)
	// remove
	done := make(chan struct{})
	go func() { w.s.RemoveTorrent(id, false); close(done) }()
	select {
	case <-done:
		removed = true
	case <-time.After(8 * time.Second):
		removed = true
		return hangErr{site: "RemoveTorrent: " + loopSite()}
	}
	return nil
}

type scIn struct {
	Scenarios []scenario `json:"scenarios"`
}

// runChild processes scenarios i with i%nparts == part and i >= from. Exit codes: 0 done, 3 hang detected
// (Proc event written), anything else = crash (the parent writes the Proc event).
func runChild(inPath, outPath, dir string, part, nparts, from int) int {
	torrent.DisableLogging()
	raw, err := os.ReadFile(inPath)
	if err != nil {
		fmt.Fprintln(os.Stderr, "child:", err)
		return 2
	}
	var in scIn
	if err := json.Unmarshal(raw, &in); err != nil {
		fmt.Fprintln(os.Stderr, "child:", err)
		return 2
	}
	out, err := appendOut(outPath)
	if err != nil {
		fmt.Fprintln(os.Stderr, "child:", err)
		return 2
	}
	defer out.close()
	w, err := newWorld(dir, out)
	if err != nil {
		fmt.Fprintln(os.Stderr, "child: session:", err)
		return 2
	}
	for i := range in.Scenarios {
		if i%nparts != part || i < from {
			continue
		}
		sc := &in.Scenarios[i]
		out.emit(map[string]any{"op": "Begin", "i": i, "sc": sc.ID})
		err := w.runScenario(sc)
		var h hangErr
		if errors.As(err, &h) {
			out.emit(map[string]any{"op": "Proc", "what": "hang", "site": h.site})
			out.emit(map[string]any{"op": "End", "i": i})
			out.close()
			return 3
		}
		if err != nil {
			out.emit(map[string]any{"op": "Skip", "why": err.Error()})
		}
		out.emit(map[string]any{"op": "End", "i": i})
	}
	done := make(chan struct{})
	go func() { w.s.Close(); close(done) }()
	select {
	case <-done:
	case <-time.After(5 * time.Second):
	}
	return 0
}
