// Command c08 is the driver of property C08 (untrusted peer input).
//
//	c08 classes                         print the class alphabet (JSON)
//	c08 reader  -in f -out f            reader level (real peerreader over net.Pipe)
//	c08 session -in f -out f -workers W parent: runs scenarios in child processes, turns child death into Proc events
//	c08 child   ...                     one child (real torrent.Session + scripted peers)
package main

import (
	"bufio"
	"bytes"
	"encoding/json"
	"flag"
	"fmt"
	"os"
	"os/exec"
	"path/filepath"
	"regexp"
	"strings"
	"sync"
	"syscall"
	"time"
)

var t0 = time.Now()

type outw struct {
	mu sync.Mutex
	f  *os.File
}

func newOut(path string) (*outw, error) {
	f, err := os.Create(path)
	if err != nil {
		return nil, err
	}
	return &outw{f: f}, nil
}

func appendOut(path string) (*outw, error) {
	f, err := os.OpenFile(path, os.O_CREATE|os.O_WRONLY|os.O_APPEND, 0o644)
	if err != nil {
		return nil, err
	}
	return &outw{f: f}, nil
}

// emit writes one event with a single write call (the parent must see complete lines if the child dies).
func (o *outw) emit(e map[string]any) {
	e["ms"] = time.Since(t0).Milliseconds()
	b, err := json.Marshal(e)
	if err != nil {
		panic(err)
	}
	b = append(b, '\n')
	o.mu.Lock()
	if o.f != nil {
		o.f.Write(b)
	}
	o.mu.Unlock()
}

func (o *outw) close() {
	o.mu.Lock()
	if o.f != nil {
		o.f.Close()
		o.f = nil
	}
	o.mu.Unlock()
}

func main() {
	if len(os.Args) < 2 {
		fmt.Fprintln(os.Stderr, "usage: c08 classes|reader|session|child")
		os.Exit(2)
	}
	cmd := os.Args[1]
	fs := flag.NewFlagSet(cmd, flag.ExitOnError)
	in := fs.String("in", "", "input json")
	out := fs.String("out", "", "output ndjson")
	seed := fs.Int64("seed", 1, "seed")
	workers := fs.Int("workers", 8, "child processes")
	dir := fs.String("dir", "", "scratch directory")
	part := fs.Int("part", 0, "")
	nparts := fs.Int("nparts", 1, "")
	from := fs.Int("from", 0, "")
	fs.Parse(os.Args[2:])
	switch cmd {
	case "classes":
		json.NewEncoder(os.Stdout).Encode(classNames())
	case "reader":
		if err := runReader(*in, *out, *seed); err != nil {
			fmt.Fprintln(os.Stderr, "reader:", err)
			os.Exit(2)
		}
	case "child":
		os.Exit(runChild(*in, *out, *dir, *part, *nparts, *from))
	case "session":
		if err := runParent(*in, *out, *dir, *workers); err != nil {
			fmt.Fprintln(os.Stderr, "session:", err)
			os.Exit(2)
		}
	default:
		fmt.Fprintln(os.Stderr, "unknown command", cmd)
		os.Exit(2)
	}
}

var panicRe = regexp.MustCompile(`(?m)^(panic: .*|fatal error: .*)$`)

// crashSite extracts "<panic message> @ <rain frames>" from a Go crash report.
func crashSite(stderr string) string {
	m := panicRe.FindStringIndex(stderr)
	if m == nil {
		tail := stderr
		if len(tail) > 300 {
			tail = tail[len(tail)-300:]
		}
		return "no panic line: " + strings.ReplaceAll(tail, "\n", " | ")
	}
	msg := stderr[m[0]:m[1]]
	msg = regexp.MustCompile(`sc\d+`).ReplaceAllString(msg, "scN")
	msg = regexp.MustCompile(`/[^ ]*rain-crash-dump[^ ]*`).ReplaceAllString(msg, "<dump>")
	rest := stderr[m[1]:]
	// first goroutine block after the panic line
	if i := strings.Index(rest, "goroutine "); i >= 0 {
		rest = rest[i:]
	}
	if i := strings.Index(rest, "\n\n"); i >= 0 {
		rest = rest[:i]
	}
	var fr []string
	for _, line := range strings.Split(rest, "\n") {
		if strings.HasPrefix(line, "\t") || strings.HasPrefix(line, "goroutine ") || strings.HasPrefix(line, "panic(") {
			continue
		}
		fn := line
		if i := strings.LastIndex(fn, "("); i > 0 {
			fn = fn[:i]
		}
		if !strings.Contains(fn, "cenkalti/rain") || strings.Contains(fn, "internal/verif/") {
			continue
		}
		fn = strings.TrimPrefix(fn, "github.com/cenkalti/rain/v2/")
		fn = strings.TrimPrefix(fn, "internal/")
		fn = regexp.MustCompile(`\[[^\]]*\]`).ReplaceAllString(fn, "")
		fr = append(fr, fn)
		if len(fr) >= 6 {
			break
		}
	}
	return msg + " @ " + strings.Join(fr, "<")
}

// lastBegin scans a child's trace for the last scenario index that was begun and whether it ended.
func lastBegin(path string) (idx int, ended bool, began bool) {
	f, err := os.Open(path)
	if err != nil {
		return 0, false, false
	}
	defer f.Close()
	sc := bufio.NewScanner(f)
	sc.Buffer(make([]byte, 1<<20), 1<<24)
	idx = -1
	for sc.Scan() {
		line := sc.Bytes()
		if bytes.Contains(line, []byte(`"op":"Begin"`)) {
			var e struct{ I int }
			json.Unmarshal(line, &e)
			idx, ended, began = e.I, false, true
		} else if bytes.Contains(line, []byte(`"op":"End"`)) {
			ended = true
		}
	}
	return
}

func runParent(inPath, outPath, dir string, workers int) error {
	raw, err := os.ReadFile(inPath)
	if err != nil {
		return err
	}
	var in scIn
	if err := json.Unmarshal(raw, &in); err != nil {
		return err
	}
	n := len(in.Scenarios)
	if workers > n {
		workers = max(1, n)
	}
	self, _ := os.Executable()
	var wg sync.WaitGroup
	errs := make([]error, workers)
	for w := 0; w < workers; w++ {
		wg.Add(1)
		go func(w int) {
			defer wg.Done()
			part := fmt.Sprintf("%s.%d", outPath, w)
			os.Remove(part)
			from := 0
			restarts := 0
			for {
				cdir := filepath.Join(dir, fmt.Sprintf("w%d-%d", w, restarts))
				os.MkdirAll(cdir, 0o755)
				cmd := exec.Command(self, "child", "-in", inPath, "-out", part, "-dir", cdir,
					"-part", fmt.Sprint(w), "-nparts", fmt.Sprint(workers), "-from", fmt.Sprint(from))
				cmd.Env = append(os.Environ(), "TMPDIR="+cdir, "GOTRACEBACK=all")
				var stderr bytes.Buffer
				cmd.Stderr = &stderr
				cmd.SysProcAttr = &syscall.SysProcAttr{Setpgid: true}
				if err := cmd.Start(); err != nil {
					errs[w] = err
					return
				}
				done := make(chan error, 1)
				go func() { done <- cmd.Wait() }()
				var werr error
				killed := false
				// global watchdog per child: generous, the child has its own per-call watchdogs
				select {
				case werr = <-done:
				case <-time.After(time.Duration(120+n/workers*25) * time.Second):
					killed = true
					syscall.Kill(-cmd.Process.Pid, syscall.SIGKILL)
					werr = <-done
				}
				os.RemoveAll(cdir)
				code := 0
				if werr != nil {
					code = -1
					if ee, ok := werr.(*exec.ExitError); ok {
						code = ee.ExitCode()
					}
				}
				if code == 0 && !killed {
					return
				}
				idx, ended, began := lastBegin(part)
				if code == 2 && !began {
					errs[w] = fmt.Errorf("child %d failed to start: %s", w, stderr.String())
					return
				}
				if code == 3 { // hang reported by the child itself
					from = idx + 1
				} else {
					o, err := appendOut(part)
					if err != nil {
						errs[w] = err
						return
					}
					if !began || ended {
						// died between scenarios: not attributable, machinery problem
						o.close()
						errs[w] = fmt.Errorf("child %d died outside a scenario (code %d): %s", w, code, tailOf(stderr.String(), 2000))
						return
					}
					what := "crash"
					site := crashSite(stderr.String())
					if killed {
						what, site = "hang", "child killed by the parent watchdog"
					}
					o.emit(map[string]any{"op": "Proc", "what": what, "site": site, "code": code, "stderr": tailOf(stderr.String(), 1500)})
					o.emit(map[string]any{"op": "End", "i": idx})
					o.close()
					from = idx + 1
				}
				restarts++
				if restarts > n+2 {
					errs[w] = fmt.Errorf("child %d restarted too often", w)
					return
				}
			}
		}(w)
	}
	wg.Wait()
	for _, e := range errs {
		if e != nil {
			return e
		}
	}
	o, err := newOut(outPath)
	if err != nil {
		return err
	}
	defer o.close()
	for w := 0; w < workers; w++ {
		part := fmt.Sprintf("%s.%d", outPath, w)
		b, err := os.ReadFile(part)
		if err == nil {
			o.f.Write(b)
		}
		os.Remove(part)
	}
	return nil
}

func tailOf(s string, n int) string {
	if len(s) > n {
		return s[len(s)-n:]
	}
	return s
}
