// Command c18 drives the real internal/blocklist, internal/addrlist, internal/peerpriority and
// internal/resolver with generated inputs and records one ndjson event per call
// (spec/Trace_Admission.tla judges).  IPv4 addresses and priorities are written as [hi16, lo16].
//
//	-mode lists    -in f   rule lists printed by TLC (MC_AdmissionGen/GLSpec): Reload + query the universe
//	-mode concrete         hand-written extreme lists (/0, /1, /31, /32, 0.0.0.0, 255.255.255.255, adjacency)
//	-mode blrandom         large random lists, random + boundary queries
//	-mode qscripts -in f   queue op sequences printed by TLC (MC_AdmissionGen/GSSpec)
//	-mode qrandom          seeded random queue histories
//	-mode misc             BEP 40 vectors, symmetry of the priority function, IPv6 observations
//	-mode replay   -in f   re-execute a recorded history (./check C18 --replay)
//	-mode contact  -scenarios ...   session-level contact scenarios (contact.go)
package main

import (
	"bufio"
	"context"
	"encoding/binary"
	"encoding/json"
	"errors"
	"flag"
	"fmt"
	"math/rand"
	"net"
	"os"
	"strconv"
	"strings"
	"time"

	"github.com/cenkalti/rain/v2/internal/addrlist"
	"github.com/cenkalti/rain/v2/internal/blocklist"
	"github.com/cenkalti/rain/v2/internal/externalip"
	"github.com/cenkalti/rain/v2/internal/peerpriority"
	"github.com/cenkalti/rain/v2/internal/peersource"
	"github.com/cenkalti/rain/v2/internal/resolver"
)

type ev map[string]any

var (
	out     *bufio.Writer
	nevents int
	rng     *rand.Rand
)

func emit(e ev) {
	b, err := json.Marshal(e)
	if err != nil {
		panic(err)
	}
	out.Write(b)
	out.WriteByte('\n')
	nevents++
}

func halves(v uint32) [2]int { return [2]int{int(v >> 16), int(v & 0xffff)} }
func unhalves(h [2]int) uint32 {
	return uint32(h[0])<<16 | uint32(h[1])
}
func ip4(v uint32) net.IP {
	b := make(net.IP, 4)
	binary.BigEndian.PutUint32(b, v)
	return b
}
func ipForm(v uint32, form16 bool) net.IP {
	if form16 {
		return ip4(v).To16()
	}
	return ip4(v)
}

// ---------------------------------------------------------------------------------- blocklist

// line is the structured form of one line of a blocklist stream.
type line struct {
	K    string `json:"k"` // cidr | skip | bad | v6
	IP   [2]int `json:"ip"`
	P    int    `json:"p"`
	text string
}

var badTexts = []string{"garbage", "10.20.30.70/33", "10.20.30.64/x", "256.20.30.64/28", "10.20.30/24", "10.20.30.64/",
	"/24", "10.20.30.64/28/28", "10.20.30.64//28", "10.20.30.64/-1", "0.0.0.0/99", "10.20.30.64/2 8", "10.20.30.64.1/28",
	"....", "10.20.30.64/28x", "+10.20.30.64/28"}
var skipTexts = []string{"", "   ", "\t", "# comment", "#10.20.30.64/28", "  # 0.0.0.0/0", "#", "#\t10.20.30.64/26"}

func cidrLine(ip uint32, p int) line { return line{K: "cidr", IP: halves(ip), P: p} }
func badLine() line                  { return line{K: "bad", text: badTexts[rng.Intn(len(badTexts))]} }
func skipLine() line                 { return line{K: "skip", text: skipTexts[rng.Intn(len(skipTexts))]} }

func mask(p int) uint32 {
	if p == 0 {
		return 0
	}
	return ^uint32(0) << (32 - p)
}

// render builds the text fed to the real Reload.  decorate: host bits, white space, CR LF.
func render(ls []line, decorate bool) string {
	var sb strings.Builder
	crlf := decorate && rng.Intn(6) == 0
	for i := range ls {
		l := &ls[i]
		if l.K == "cidr" {
			ip := unhalves(l.IP)
			if decorate && rng.Intn(3) == 0 { // any address of the network denotes the network
				ip = ip&mask(l.P) | rng.Uint32()&^mask(l.P)
				l.IP = halves(ip)
			}
			l.text = ip4(ip).String() + "/" + strconv.Itoa(l.P)
			if decorate {
				switch rng.Intn(8) {
				case 0:
					l.text = "  " + l.text
				case 1:
					l.text += " \t"
				case 2:
					l.text = "\t" + l.text + "  "
				}
			}
		}
		sb.WriteString(l.text)
		if i == len(ls)-1 && decorate && rng.Intn(3) == 0 {
			break // last line without terminator
		}
		if crlf {
			sb.WriteString("\r\n")
		} else {
			sb.WriteString("\n")
		}
	}
	return sb.String()
}

// sprinkle inserts comment / blank / malformed lines at random positions.
func sprinkle(ls []line) []line {
	n := rng.Intn(3)
	if rng.Intn(3) > 0 {
		n = 0
	}
	for i := 0; i < n; i++ {
		var x line
		if rng.Intn(2) == 0 {
			x = badLine()
		} else {
			x = skipLine()
		}
		pos := rng.Intn(len(ls) + 1)
		ls = append(ls[:pos], append([]line{x}, ls[pos:]...)...)
	}
	return ls
}

type blSim struct {
	bl *blocklist.Blocklist
}

func (s *blSim) init() {
	s.bl = blocklist.New()
	emit(ev{"op": "Init", "cap": 0, "port": 0, "cip": [2]int{-1, -1}, "bl": true, "pool": []int{}})
}

// guard turns a panic of the real code into a recorded event (the trace goes on: a panicking
// Reload leaves the previous rules in place).
func guard(op string, detail any) {
	if r := recover(); r != nil {
		emit(ev{"op": "Panic", "in": op, "msg": fmt.Sprint(r), "arg": detail})
	}
}

func (s *blSim) reload(ls []line, decorate bool, info bool) (ok bool) {
	text := render(ls, decorate)
	defer guard("Reload", text)
	n, err := s.bl.Reload(strings.NewReader(text))
	if info {
		emit(ev{"op": "Info", "what": "reload", "text": text, "n": n, "err": err != nil})
		return err == nil
	}
	if ls == nil {
		ls = []line{}
	}
	emit(ev{"op": "Reload", "lines": ls, "err": err != nil, "n": n, "len": s.bl.Len()})
	return err == nil
}

func (s *blSim) query(ips []uint32) {
	defer guard("Blocked", len(ips))
	hs := make([][2]int, len(ips))
	ans := make([]bool, len(ips))
	for i, v := range ips {
		hs[i] = halves(v)
		// net.ParseIP style (16 byte) and 4 byte representations of the same IPv4 address
		ans[i] = s.bl.Blocked(ipForm(v, (i+nevents)%3 == 0))
	}
	emit(ev{"op": "Query", "ips": hs, "ans": ans})
}

func (s *blSim) resolve(ips []uint32) {
	defer guard("Resolve", len(ips))
	ctx := context.Background()
	for _, v := range ips {
		port := []int{0, 80, 6881, 65535}[rng.Intn(4)]
		_, _, err := resolver.Resolve(ctx, net.JoinHostPort(ip4(v).String(), strconv.Itoa(port)), time.Second, s.bl)
		res := "other"
		switch {
		case err == nil:
			res = "ok"
		case errors.Is(err, resolver.ErrBlocked):
			res = "blocked"
		case errors.Is(err, resolver.ErrInvalidPort):
			res = "badport"
		}
		emit(ev{"op": "Resolve", "ip": halves(v), "port": port, "res": res})
	}
}

// probes returns the boundary addresses of the given cidr lines plus the global extremes.
func probes(ls []line) []uint32 {
	seen := map[uint32]bool{}
	var outp []uint32
	add := func(v uint32) {
		if !seen[v] {
			seen[v] = true
			outp = append(outp, v)
		}
	}
	add(0)
	add(0xffffffff)
	for _, l := range ls {
		if l.K != "cidr" {
			continue
		}
		f := unhalves(l.IP) & mask(l.P)
		t := f | ^mask(l.P)
		add(f - 1) // wraps around at 0: still an address worth asking
		add(f)
		add(f + (t-f)/2)
		add(t)
		add(t + 1)
	}
	return outp
}

type listRec struct {
	Lines []line `json:"lines"`
}

func readNdjson(path string, f func([]byte)) {
	fh, err := os.Open(path)
	if err != nil {
		panic(err)
	}
	defer fh.Close()
	sc := bufio.NewScanner(fh)
	sc.Buffer(make([]byte, 1<<20), 1<<28)
	for sc.Scan() {
		if len(sc.Bytes()) > 0 {
			f(sc.Bytes())
		}
	}
	if sc.Err() != nil {
		panic(sc.Err())
	}
}

func modeLists(in string, base uint32, bits int) {
	s := &blSim{}
	k := 0
	readNdjson(in, func(b []byte) {
		var r listRec
		if err := json.Unmarshal(b, &r); err != nil {
			panic(err)
		}
		if k%500 == 0 {
			s.init()
		}
		k++
		ls := r.Lines
		// TLC prints bad/skip placeholders without text
		for i := range ls {
			switch ls[i].K {
			case "bad":
				ls[i].text = badTexts[rng.Intn(len(badTexts))]
			case "skip":
				ls[i].text = skipTexts[rng.Intn(len(skipTexts))]
			}
		}
		if len(ls) == 3 && ls[0].K == "cidr" && ls[1].K == "cidr" && ls[2].K == "cidr" {
			rng.Shuffle(3, func(i, j int) { ls[i], ls[j] = ls[j], ls[i] }) // TLC prints sorted triples
		}
		if k%4 == 0 {
			ls = sprinkle(ls)
		}
		s.reload(ls, k%2 == 0, false)
		// the whole universe, its two outside neighbours, the rule boundaries, the global extremes
		var q []uint32
		for i := -1; i <= 1<<bits; i++ {
			q = append(q, base+uint32(i))
		}
		for _, v := range probes(ls) {
			if v < base-1 || v > base+uint32(1<<bits) {
				q = append(q, v)
			}
		}
		s.query(q)
		if k%50 == 0 { // a stream in which nothing parses must leave the loaded rules in place
			s.reload([]line{badLine(), skipLine(), badLine()}, false, false)
			s.query(q)
		}
		if k%20 == 0 {
			s.resolve(q[:4+rng.Intn(len(q)-4)])
		}
	})
}

func modeConcrete() {
	s := &blSim{}
	s.init()
	c := func(a string, p int) line {
		ip := net.ParseIP(a).To4()
		return cidrLine(binary.BigEndian.Uint32(ip), p)
	}
	lists := [][]line{
		{},
		{c("0.0.0.0", 0)},
		{c("0.0.0.0", 32)},
		{c("255.255.255.255", 32)},
		{c("0.0.0.0", 32), c("255.255.255.255", 32)},
		{c("0.0.0.0", 1)},
		{c("128.0.0.0", 1)},
		{c("0.0.0.0", 1), c("128.0.0.0", 1)},
		{c("255.255.255.254", 31)},
		{c("0.0.0.0", 31)},
		{c("10.0.0.0", 8)},
		{c("10.255.255.255", 8), c("11.0.0.0", 8)},
		{c("10.0.0.0", 24), c("10.0.1.0", 24), c("10.0.2.0", 24)},
		{c("10.0.0.0", 24), c("10.0.2.0", 24)},
		{c("10.0.0.0", 16), c("10.0.5.0", 24), c("10.0.5.7", 32)},
		{c("10.0.5.7", 32), c("10.0.5.0", 24), c("10.0.0.0", 16)},
		{c("10.0.5.7", 32), c("10.0.5.7", 32), c("10.0.5.7", 32)},
		{c("10.0.5.6", 32), c("10.0.5.7", 32), c("10.0.5.8", 32)},
		{c("10.0.5.6", 31), c("10.0.5.8", 31)},
		{c("10.0.5.6", 31), c("10.0.5.7", 32)},
		{c("10.0.5.6", 31), c("10.0.5.6", 32)},
		{c("255.255.255.0", 24), c("255.255.255.255", 32)},
		{c("255.255.255.0", 24), c("0.0.0.0", 24)},
		{c("0.0.0.0", 0), c("10.0.5.7", 32)},
		{c("10.0.5.7", 32), c("0.0.0.0", 0)},
		{c("127.0.0.1", 32)},
		{c("127.0.0.0", 8), c("192.168.0.0", 16), c("172.16.0.0", 12)},
		{c("1.2.3.4", 30), c("1.2.3.8", 30), c("1.2.3.0", 30)},
		{c("0.0.255.255", 32), c("0.1.0.0", 32)},
		{c("0.0.255.255", 16), c("0.1.0.0", 16)},
		{c("127.255.255.255", 32), c("128.0.0.0", 32)},
	}
	rounds := 4
	for r := 0; r < rounds; r++ {
		for _, ls := range lists {
			ls = append([]line(nil), ls...)
			if r >= 2 {
				ls = sprinkle(ls)
			}
			s.reload(ls, r%2 == 1, false)
			q := probes(ls)
			for i := 0; i < 6; i++ {
				q = append(q, rng.Uint32())
			}
			q = append(q, 0x7fffffff, 0x80000000, 0x0000ffff, 0x00010000, 0x0a000507)
			s.query(q)
			s.resolve(q[:6])
			if r == 3 {
				s.reload([]line{badLine()}, false, false) // refused: previous rules stay
				s.query(q)
				s.reload([]line{skipLine(), skipLine()}, false, false) // accepted: empty
				s.query(q)
			}
		}
	}
	// observations outside the property: IPv6 / IPv4-mapped CIDR lines and IPv6 queries
	s.init()
	s.reload([]line{{K: "v6", text: "::ffff:10.20.30.64/124"}, {K: "v6", text: "2001:db8::/32"}, {K: "cidr", IP: halves(0x0a141e40), P: 30, text: "10.20.30.64/30"}}, false, true)
	for _, a := range []string{"::ffff:10.20.30.64", "::ffff:10.20.30.70", "2001:db8::1", "::1", "::"} {
		emit(ev{"op": "Info", "what": "query", "ip": a, "ans": s.bl.Blocked(net.ParseIP(a))})
	}
	emit(ev{"op": "Info", "what": "query-nil", "ans": s.bl.Blocked(nil)})
}

func modeBlRandom(n, nrules, nq int) {
	s := &blSim{}
	for t := 0; t < n; t++ {
		if t%2 == 0 {
			s.init()
		}
		var ls []line
		// clustered: a few /16 areas so that nesting, adjacency and duplicates are frequent
		areas := make([]uint32, 1+rng.Intn(6))
		for i := range areas {
			areas[i] = rng.Uint32() & 0xffff0000
		}
		areas = append(areas, 0, 0xffff0000)
		nr := nrules/2 + rng.Intn(nrules/2+1)
		for i := 0; i < nr; i++ {
			var ip uint32
			var p int
			switch rng.Intn(10) {
			case 0:
				ip, p = rng.Uint32(), 8+rng.Intn(25)
			case 1:
				ip, p = rng.Uint32(), 32
			case 2:
				if len(ls) > 0 { // neighbour / duplicate / parent of an earlier rule
					o := ls[rng.Intn(len(ls))]
					if o.K == "cidr" {
						f := unhalves(o.IP) & mask(o.P)
						switch rng.Intn(4) {
						case 0:
							ip, p = f+(^mask(o.P))+1, o.P
						case 1:
							ip, p = f-1, o.P
						case 2:
							ip, p = f, o.P
						default:
							ip, p = f, o.P-1-rng.Intn(3)
							if p < 1 {
								p = 1
							}
						}
						break
					}
				}
				fallthrough
			default:
				ip, p = areas[rng.Intn(len(areas))]|rng.Uint32()&0xffff, 17+rng.Intn(16)
			}
			ls = append(ls, cidrLine(ip&mask(p), p))
			if rng.Intn(40) == 0 {
				ls = append(ls, badLine())
			}
			if rng.Intn(40) == 0 {
				ls = append(ls, skipLine())
			}
		}
		s.reload(ls, true, false)
		pr := probes(ls)
		var q []uint32
		for i := 0; i < nq; i++ {
			switch rng.Intn(4) {
			case 0:
				q = append(q, rng.Uint32())
			case 1:
				q = append(q, areas[rng.Intn(len(areas))]|rng.Uint32()&0xffff)
			default:
				q = append(q, pr[rng.Intn(len(pr))])
			}
		}
		s.query(q)
		s.resolve(q[:10])
	}
}

// ---------------------------------------------------------------------------------- candidate queue

type paddr struct {
	IP     uint32
	Port   int
	Form16 bool
}

type qSim struct {
	pool   []paddr
	al     *addrlist.AddrList
	bl     *blocklist.Blocklist
	cip    net.IP
	port   int
	ptrIdx map[*net.TCPAddr]int
}

func (s *qSim) start(capacity int, withBl bool, again bool) {
	s.bl = blocklist.New()
	var b *blocklist.Blocklist
	if withBl {
		b = s.bl
	}
	s.al = addrlist.New(capacity, b, s.port, &s.cip)
	s.ptrIdx = map[*net.TCPAddr]int{}
	cip, pool := s.describe()
	if again {
		emit(ev{"op": "Reinit", "cap": capacity, "cip": cip, "prios": priosOf(pool)})
		return
	}
	emit(ev{"op": "Init", "cap": capacity, "port": s.port, "cip": cip, "bl": withBl, "pool": pool})
}

// describe returns the client address and the pool with the BEP 40 priorities w.r.t. the CURRENT client address.
func (s *qSim) describe() ([2]int, []ev) {
	client := &net.TCPAddr{IP: s.cip, Port: s.port}
	cip := [2]int{-1, -1}
	if s.cip != nil {
		cip = halves(binary.BigEndian.Uint32(s.cip.To4()))
	} else {
		client.IP = net.IPv4(0, 0, 0, 0) // addrlist.clientAddr()
	}
	pool := make([]ev, len(s.pool))
	for i, a := range s.pool {
		ip := ipForm(a.IP, a.Form16)
		pr := peerpriority.Calculate(&net.TCPAddr{IP: ip, Port: a.Port}, client)
		pool[i] = ev{"ip": halves(a.IP), "port": a.Port, "prio": halves(pr), "ext": externalip.IsExternal(ip)}
	}
	return cip, pool
}

// setCip changes the variable the list's clientIP pointer refers to (the torrent does this when it learns its
// external address from a peer's extension handshake); nil = unknown.
func (s *qSim) setCip(ip net.IP) {
	s.cip = ip
	cip, pool := s.describe()
	s.view(ev{"op": "SetCip", "cip": cip, "prios": priosOf(pool)})
}

func priosOf(pool []ev) [][2]int {
	out := make([][2]int, len(pool))
	for i, a := range pool {
		out[i] = a["prio"].([2]int)
	}
	return out
}

func ipOfHalves(h [2]int) net.IP {
	if h[0] < 0 {
		return nil
	}
	return ip4(unhalves(h))
}

func (s *qSim) view(e ev) {
	e["len"] = s.al.Len()
	ls := make([]int, 5)
	for i := range ls {
		ls[i] = s.al.LenSource(peersource.Source(i))
	}
	e["ls"] = ls
	q := [][4]int{}
	for _, it := range s.al.VerifDump() {
		h := halves(it.Priority)
		q = append(q, [4]int{s.ptrIdx[it.Addr], int(it.Source), h[0], h[1]})
	}
	e["q"] = q
	emit(e)
}

type stopTrace struct{}

func (s *qSim) guard(op string) {
	if r := recover(); r != nil {
		emit(ev{"op": "Panic", "in": op, "msg": fmt.Sprint(r)})
		panic(stopTrace{})
	}
}

func (s *qSim) push(idx []int, src int) {
	defer s.guard("Push")
	addrs := make([]*net.TCPAddr, len(idx))
	for i, x := range idx {
		a := s.pool[x-1]
		addrs[i] = &net.TCPAddr{IP: ipForm(a.IP, a.Form16), Port: a.Port}
		s.ptrIdx[addrs[i]] = x
	}
	s.al.Push(addrs, peersource.Source(src))
	if idx == nil {
		idx = []int{}
	}
	s.view(ev{"op": "Push", "addrs": idx, "s": src})
}

func (s *qSim) pop() {
	defer s.guard("Pop")
	a, src := s.al.Pop()
	r := 0
	if a != nil {
		r = s.ptrIdx[a]
	}
	s.view(ev{"op": "Pop", "r": r, "s": int(src)})
}

func (s *qSim) reset() {
	defer s.guard("Reset")
	s.al.Reset()
	s.view(ev{"op": "Reset"})
}

func (s *qSim) reload(ls []line) {
	ls = append([]line{}, ls...)
	text := render(ls, false)
	defer guard("Reload", text)
	n, err := s.bl.Reload(strings.NewReader(text))
	emit(ev{"op": "Reload", "lines": ls, "err": err != nil, "n": n, "len": s.bl.Len()})
}

func protect(f func()) {
	defer func() {
		if r := recover(); r != nil {
			if _, ok := r.(stopTrace); !ok {
				panic(r)
			}
		}
	}()
	f()
}

type scriptHdr struct {
	Hdr  bool     `json:"hdr"`
	Port int      `json:"port"`
	Cip  [2]int   `json:"cip"`
	Cips [][2]int `json:"cips"`
	Pool []struct {
		IP   [2]int `json:"ip"`
		Port int    `json:"port"`
	} `json:"pool"`
	Lists [][]line `json:"lists"`
	Ops   []struct {
		Op    string `json:"op"`
		Addrs []int  `json:"addrs"`
		S     int    `json:"s"`
		Li    int    `json:"li"`
	} `json:"ops"`
}

func modeQScripts(in string, caps []int) {
	var hdr *scriptHdr
	k := 0
	readNdjson(in, func(b []byte) {
		var r scriptHdr
		if err := json.Unmarshal(b, &r); err != nil {
			panic(err)
		}
		if r.Hdr {
			hdr = &r
			return
		}
		if hdr == nil {
			panic("script before header")
		}
		for _, c := range caps {
			// the list is constructed with the configured client address, with none, with a wrong one or with 0.0.0.0;
			// SetCip operations of the script change it afterwards
			s := &qSim{port: hdr.Port}
			switch k % 4 {
			case 0:
				s.cip = ip4(unhalves(hdr.Cip))
			case 1:
				s.cip = nil
			case 2:
				s.cip = ip4(0x0a030004)
			case 3:
				s.cip = net.IPv4zero.To4()
			}
			seen := map[[2]int]bool{}
			for _, a := range hdr.Pool {
				key := [2]int{int(unhalves(a.IP)), a.Port}
				// the second object with the same ip:port is given in the other (16 byte) representation
				s.pool = append(s.pool, paddr{IP: unhalves(a.IP), Port: a.Port, Form16: seen[key]})
				seen[key] = true
			}
			protect(func() {
				s.start(c, true, k%100 != 0) // a full Init (with the pool) every 100 traces, so the file can be split
				k++
				for _, o := range r.Ops {
					switch o.Op {
					case "Push":
						s.push(o.Addrs, o.S)
					case "Pop":
						s.pop()
					case "Reset":
						s.reset()
					case "Reload":
						s.reload(hdr.Lists[o.Li-1])
					case "SetCip":
						s.setCip(ipOfHalves(hdr.Cips[o.Li-1]))
					}
				}
			})
		}
	})
}

func modeQRandom(n, nops int) {
	ext := externalip.FirstExternalIP()
	for t := 0; t < n; t++ {
		s := &qSim{port: []int{6881, 1, 65535, 50000}[rng.Intn(4)]}
		switch rng.Intn(7) {
		case 6: // unspecified
			s.cip = net.IPv4zero.To4()
		case 0: // client IP unknown
		case 1:
			if ext != nil {
				s.cip = ext
				break
			}
			fallthrough
		default:
			s.cip = ip4(0x50000000 | rng.Uint32()&0x00ffffff)
		}
		// a few /24 neighbourhoods: same IP with several ports and IPs that differ only in the bits
		// BEP 40 masks out get equal priorities
		var nets []uint32
		for i := 0; i < 1+rng.Intn(3); i++ {
			nets = append(nets, rng.Uint32()&0xffffff00)
		}
		if s.cip != nil && rng.Intn(2) == 0 {
			nets = append(nets, binary.BigEndian.Uint32(s.cip.To4())&0xffffff00)
		}
		ports := []int{0, s.port, 1000, 2000, 65535}
		np := 4 + rng.Intn(24)
		seen := map[[2]int]int{}
		add := func(ip uint32, port int) {
			key := [2]int{int(ip), port}
			if seen[key] >= 2 {
				return
			}
			s.pool = append(s.pool, paddr{IP: ip, Port: port, Form16: seen[key] == 1 || (seen[key] == 0 && rng.Intn(5) == 0)})
			seen[key]++
		}
		for i := 0; i < np; i++ {
			switch rng.Intn(12) {
			case 0:
				if s.cip != nil {
					add(binary.BigEndian.Uint32(s.cip.To4()), ports[rng.Intn(len(ports))])
				}
			case 1:
				add(0x7f000001+uint32(rng.Intn(2)), ports[rng.Intn(len(ports))])
			case 2:
				if ext != nil {
					add(binary.BigEndian.Uint32(ext.To4()), ports[rng.Intn(len(ports))])
				}
			case 3:
				if len(s.pool) > 0 { // same address again (another object), or same IP and another port
					o := s.pool[rng.Intn(len(s.pool))]
					if rng.Intn(2) == 0 {
						add(o.IP, o.Port)
					} else {
						add(o.IP, ports[1+rng.Intn(len(ports)-1)])
					}
				}
			default:
				p := ports[rng.Intn(len(ports))]
				if rng.Intn(3) > 0 {
					p = 1000 + rng.Intn(3)*1000
				}
				add(nets[rng.Intn(len(nets))]|uint32(rng.Intn(48)), p)
			}
		}
		if len(s.pool) == 0 {
			add(nets[0]|1, 1000)
		}
		capacity := []int{0, 1, 2, 2, 3, 3, 5, 8, 50}[rng.Intn(9)]
		withBl := rng.Intn(7) != 0
		mkList := func() []line {
			var ls []line
			switch rng.Intn(8) {
			case 0:
				return []line{}
			case 1:
				return []line{badLine()}
			}
			for i := 0; i < 1+rng.Intn(3); i++ {
				a := s.pool[rng.Intn(len(s.pool))]
				p := []int{32, 32, 31, 30, 29, 24, 16}[rng.Intn(7)]
				ip := a.IP
				if rng.Intn(4) == 0 {
					ip += uint32(1 << uint(32-p)) // the neighbouring network
				}
				ls = append(ls, cidrLine(ip&mask(p), p))
			}
			return sprinkle(ls)
		}
		protect(func() {
			s.start(capacity, withBl, false)
			if rng.Intn(2) == 0 {
				s.reload(mkList())
			}
			for i := 0; i < nops; i++ {
				switch x := rng.Intn(20); {
				case x < 10:
					k := rng.Intn(4)
					if rng.Intn(6) == 0 {
						k = rng.Intn(capacity + 4)
					}
					idx := make([]int, k)
					for j := range idx {
						idx[j] = 1 + rng.Intn(len(s.pool))
					}
					s.push(idx, rng.Intn(5))
				case x < 16:
					s.pop()
				case x < 17:
					s.reset()
				case x < 18 && i%2 == 0:
					switch rng.Intn(5) {
					case 0:
						s.setCip(nil)
					case 1:
						s.setCip(net.IPv4zero.To4())
					case 2:
						s.setCip(ip4(0x50000000 | rng.Uint32()&0x00ffffff))
					default: // the IP of a pool address: addresses of the pool become the client's own
						s.setCip(ip4(s.pool[rng.Intn(len(s.pool))].IP))
					}
				default:
					s.reload(mkList())
				}
			}
			for s.al.Len() > 0 && rng.Intn(2) == 0 { // drain
				s.pop()
			}
		})
	}
}

// modeReplay re-executes a recorded history (Init, Reload, Query, Resolve, Push, Pop, Reset) on the real code
// and records it afresh.  Line decorations are not reproduced (cidr lines are written canonically).
func modeReplay(in string) {
	type rec struct {
		Op   string `json:"op"`
		Cap  int    `json:"cap"`
		Port int    `json:"port"`
		Cip  [2]int `json:"cip"`
		Bl   bool   `json:"bl"`
		Pool []struct {
			IP   [2]int `json:"ip"`
			Port int    `json:"port"`
		} `json:"pool"`
		Lines []line   `json:"lines"`
		Ips   [][2]int `json:"ips"`
		IP    [2]int   `json:"ip"`
		Addrs []int    `json:"addrs"`
		S     int      `json:"s"`
	}
	var qs *qSim
	bs := &blSim{}
	readNdjson(in, func(b []byte) {
		var r rec
		if err := json.Unmarshal(b, &r); err != nil {
			panic(err)
		}
		switch r.Op {
		case "Init":
			if len(r.Pool) == 0 {
				qs = nil
				bs.init()
				return
			}
			qs = &qSim{port: r.Port}
			if r.Cip[0] >= 0 {
				qs.cip = ip4(unhalves(r.Cip))
			}
			seen := map[[2]int]bool{}
			for _, a := range r.Pool {
				key := [2]int{int(unhalves(a.IP)), a.Port}
				qs.pool = append(qs.pool, paddr{IP: unhalves(a.IP), Port: a.Port, Form16: seen[key]})
				seen[key] = true
			}
			protect(func() { qs.start(r.Cap, r.Bl, false) })
		case "Reload":
			for i := range r.Lines {
				switch r.Lines[i].K {
				case "bad":
					r.Lines[i].text = "garbage"
				case "skip":
					r.Lines[i].text = "# comment"
				}
			}
			if qs != nil {
				qs.reload(r.Lines)
			} else {
				bs.reload(r.Lines, false, false)
			}
		case "Query":
			ips := make([]uint32, len(r.Ips))
			for i, h := range r.Ips {
				ips[i] = unhalves(h)
			}
			bs.query(ips)
		case "Resolve":
			bs.resolve([]uint32{unhalves(r.IP)})
		case "SetCip":
			protect(func() { qs.setCip(ipOfHalves(r.Cip)) })
		case "Push":
			protect(func() { qs.push(r.Addrs, r.S) })
		case "Pop":
			protect(func() { qs.pop() })
		case "Reset":
			protect(func() { qs.reset() })
		}
	})
}

func modeMisc(n int) {
	emit(ev{"op": "Init", "cap": 0, "port": 0, "cip": [2]int{-1, -1}, "bl": true, "pool": []int{}})
	a := func(s string, port int) *net.TCPAddr { return &net.TCPAddr{IP: net.ParseIP(s), Port: port} }
	// BEP 40 examples
	emit(ev{"op": "Prio", "what": "bep40-1", "got": halves(peerpriority.Calculate(a("123.213.32.10", 0), a("98.76.54.32", 0))), "want": halves(0xec2d7224)})
	emit(ev{"op": "Prio", "what": "bep40-1r", "got": halves(peerpriority.Calculate(a("98.76.54.32", 0), a("123.213.32.10", 0))), "want": halves(0xec2d7224)})
	emit(ev{"op": "Prio", "what": "bep40-2", "got": halves(peerpriority.Calculate(a("123.213.32.10", 0), a("123.213.32.234", 0))), "want": halves(0x99568189)})
	emit(ev{"op": "Prio", "what": "bep40-2r", "got": halves(peerpriority.Calculate(a("123.213.32.234", 0), a("123.213.32.10", 0))), "want": halves(0x99568189)})
	for i := 0; i < n; i++ { // symmetry, independence of the representation
		x, y := rng.Uint32(), rng.Uint32()
		switch rng.Intn(4) {
		case 0:
			y = x
		case 1:
			y = x&0xffffff00 | rng.Uint32()&0xff
		case 2:
			y = x&0xffff0000 | rng.Uint32()&0xffff
		}
		p1, p2 := rng.Intn(65536), rng.Intn(65536)
		g := peerpriority.Calculate(&net.TCPAddr{IP: ip4(x), Port: p1}, &net.TCPAddr{IP: ip4(y), Port: p2})
		w := peerpriority.Calculate(&net.TCPAddr{IP: ip4(y).To16(), Port: p2}, &net.TCPAddr{IP: ip4(x).To16(), Port: p1})
		emit(ev{"op": "Prio", "what": "symmetry", "got": halves(g), "want": halves(w)})
	}
}

func main() {
	mode := flag.String("mode", "", "")
	seed := flag.Int64("seed", 1, "")
	in := flag.String("in", "", "")
	outp := flag.String("out", "trace.ndjson", "")
	n := flag.Int("n", 10, "")
	nops := flag.Int("ops", 40, "")
	nrules := flag.Int("rules", 2000, "")
	nq := flag.Int("queries", 300, "")
	bits := flag.Int("bits", 4, "")
	caps := flag.String("caps", "2", "")
	scen := flag.String("scenarios", "", "contact scenarios kind:out:inc:trk:variant,...")
	settle := flag.Int("settle", 400, "contact: settle window in ms")
	flag.Parse()
	rng = rand.New(rand.NewSource(*seed))
	f, err := os.Create(*outp)
	if err != nil {
		panic(err)
	}
	out = bufio.NewWriterSize(f, 1<<20)
	switch *mode {
	case "lists":
		modeLists(*in, 0x0a141e40, *bits)
	case "concrete":
		modeConcrete()
	case "blrandom":
		modeBlRandom(*n, *nrules, *nq)
	case "qscripts":
		var cs []int
		for _, x := range strings.Split(*caps, ",") {
			v, err := strconv.Atoi(x)
			if err != nil {
				panic(err)
			}
			cs = append(cs, v)
		}
		modeQScripts(*in, cs)
	case "qrandom":
		modeQRandom(*n, *nops)
	case "misc":
		modeMisc(*n)
	case "replay":
		modeReplay(*in)
	case "contact":
		modeContact(*scen, *seed, *settle)
	default:
		panic("unknown mode")
	}
	out.Flush()
	f.Close()
	fmt.Printf("{\"events\":%d}\n", nevents)
}
